/-
  The generated Boot Guard / CBnT manifest readers (pkg/intel/metadata/{bg,cbnt}/**/*_manifestcodegen.go
  `ReadFrom` / `ReadDataFrom`, 33 structures) against Go's semantics (GoM) — **once, for every layout**.

  C15 models the one template all 33 structures are instances of as a functional interpreter
  `Manifest.decode : Layout → Env → Bytes → Except Err (List Val × Bytes)`.  This file is the same
  interpreter written in `GoM`: every statement of a field block that can fault or allocate is a
  primitive —
    endValue / arrayStatic     binary.Read of k bytes                                 `binaryReadG`
    arrayDynamic (prefix)      var size uintC; binary.Read(&size); make([]byte, size); binary.Read(s.F)
    arrayDynamic (countValue)  size := uintC(s.<expr>); make([]byte, size); binary.Read(s.F)
    list                       var count uintC; binary.Read(&count); make([]T, count); for idx := range s.F { s.F[idx].ReadFrom(r) }
    subStruct / structInfo     s.F.ReadFrom(r)
    element containers         the dispatch loop of both boot policy manifests: binary.Read(&structInfo),
                               EOF → return, fieldIndexByStructID, unknown ID → continue, order / multiplicity
                               checks, missingFieldsByIndices[fieldIndex], &T{} / append(s.F, el), ReadDataFrom
  — and `make` is metered against the allocation budget (`allocB`, Total/Hoare.lean).  The reader
  allocates *before* it knows whether the bytes are there (`make([]byte, size)` then a short read), so
  the bound has the form  alloc ≤ slope(L)·|input| + unpaid(L):
    * `slope L`   bytes allocated per byte consumed on the success path (1 for a byte array; for a
                  list ⌈sizeof(T) / minSize(T)⌉ on top of the item's own slope),
    * `unpaid L`  the largest chain of allocations that a short read can leave unpaid
                  (256^c bytes for a c-byte length, 256^c·sizeof(T) for a c-byte count, nested).
  Both are functions of the layout; `Total/ManifestTie.lean` evaluates them on the 33 regenerated
  layouts (≤ 64 and ≤ 16 MiB — the k and K of the harness oracle).  All counts of the real layouts
  are uint8 / uint16: that is what keeps `unpaid` small, and it is a regenerated fact, not an assumption.

  `sizeof(T)` (`memSize`) is Go's amd64 in-memory size computed from the layout (field alignment,
  24-byte slice headers).
-/
import FianoModel.Total.Hoare
import FianoModel.Manifest.Model

namespace Fiano.ManifestTotal
open GoM Manifest

/-! ## Go's in-memory size of a structure (amd64: what `make([]T, count)` allocates per item) -/

def alignUp (off a : Nat) : Nat := (off + a - 1) / a * a

/-- end offset and largest alignment after laying out the fields of `L` from `off` -/
def memLay : Layout → Nat → Nat → Nat × Nat
  | .done, off, al => (off, al)
  | .num _ k rest, off, al => memLay rest (alignUp off (max k 1) + k) (max al k)
  | .numV _ k rest, off, al => memLay rest (alignUp off (max k 1) + k) (max al k)
  | .bytes _ k rest, off, al => memLay rest (off + k) al
  | .dyn _ _ rest, off, al => memLay rest (alignUp off 8 + 24) (max al 8)
  | .dynE _ _ _ rest, off, al => memLay rest (alignUp off 8 + 24) (max al 8)
  | .list _ _ _ _ rest, off, al => memLay rest (alignUp off 8 + 24) (max al 8)
  | .sub _ _ inner rest, off, al =>
      let i := memLay inner 0 1
      memLay rest (alignUp off i.2 + alignUp i.1 i.2) (max al i.2)

/-- `unsafe.Sizeof(T{})` -/
def memSize (L : Layout) : Nat := alignUp (memLay L 0 1).1 (memLay L 0 1).2

/-! ## the generic reader in GoM -/

/-- `for idx := range s.F { s.F[idx].ReadFrom(r) }` -/
def readNG (f : Bytes → GoM (List Val × Bytes)) : Nat → Bytes → GoM (List Val × Bytes)
  | 0, b => pure ([], b)
  | n + 1, b => do
    let p ← f b
    let q ← readNG f n p.2
    pure (.node p.1 :: q.1, q.2)

/-- `ReadFrom` of a structure with field list `L`: field values and unread rest.  `B` = allocation budget. -/
def readG (B : Nat) : Layout → Env → Bytes → GoM (List Val × Bytes)
  | .done, _, b => pure ([], b)
  | .num name k rest, env, b => do
    let p ← binaryReadG b k
    let q ← readG B rest ((name, fromLE p.1) :: env) p.2
    pure (.num (fromLE p.1) :: q.1, q.2)
  | .numV _ _ _, _, _ => err                       -- binary.Read into a non-pointer: "invalid type"
  | .bytes _ k rest, env, b => do
    let p ← binaryReadG b k
    let q ← readG B rest env p.2
    pure (.bytes p.1 :: q.1, q.2)
  | .dyn _ c rest, env, b => do
    let p ← binaryReadG b c
    allocB "ReadFrom: make([]byte, size)" B (fromLE p.1) 1
    let d ← binaryReadG p.2 (fromLE p.1)
    let q ← readG B rest env d.2
    pure (.bytes d.1 :: q.1, q.2)
  | .dynE _ c e rest, env, b => do
    allocB "ReadFrom: make([]byte, size) (countValue)" B (countOf e c env) 1
    let d ← binaryReadG b (countOf e c env)
    let q ← readG B rest env d.2
    pure (.bytes d.1 :: q.1, q.2)
  | .sub _ _ inner rest, env, b => do
    let p ← readG B inner [] b
    let q ← readG B rest env p.2
    pure (.node p.1 :: q.1, q.2)
  | .list _ c _ item rest, env, b => do
    let p ← binaryReadG b c
    allocB "ReadFrom: make([]T, count)" B (fromLE p.1) (memSize item)
    let it ← readNG (readG B item []) (fromLE p.1) p.2
    let q ← readG B rest env it.2
    pure (.node it.1 :: q.1, q.2)

/-! ## size functions of a layout -/

/-- fewest bytes a successful read consumes -/
def minSize : Layout → Nat
  | .done => 0
  | .num _ k rest => k + minSize rest
  | .numV _ k rest => k + minSize rest
  | .bytes _ k rest => k + minSize rest
  | .dyn _ c rest => c + minSize rest
  | .dynE _ _ _ rest => minSize rest
  | .sub _ _ inner rest => minSize inner + minSize rest
  | .list _ c _ _ rest => c + minSize rest

def ceilDiv (a b : Nat) : Nat := (a + b - 1) / b

/-- bytes allocated per byte consumed when the read succeeds -/
def slope : Layout → Nat
  | .done => 0
  | .num _ _ rest => slope rest
  | .numV _ _ rest => slope rest
  | .bytes _ _ rest => slope rest
  | .dyn _ _ rest => max 1 (slope rest)
  | .dynE _ _ _ rest => max 1 (slope rest)
  | .sub _ _ inner rest => max (slope inner) (slope rest)
  | .list _ _ _ item rest => max (ceilDiv (memSize item) (minSize item) + slope item) (slope rest)

/-- the largest allocation a short read can leave unpaid -/
def unpaid : Layout → Nat
  | .done => 0
  | .num _ _ rest => unpaid rest
  | .numV _ _ rest => unpaid rest
  | .bytes _ _ rest => unpaid rest
  | .dyn _ c rest => max (256 ^ c) (unpaid rest)
  | .dynE _ c _ rest => max (256 ^ c) (unpaid rest)
  | .sub _ _ inner rest => max (unpaid inner) (unpaid rest)
  | .list _ c _ item rest => max (256 ^ c * memSize item + unpaid item) (unpaid rest)

/-- the one condition the bound needs: every list item consumes at least one byte (otherwise a
    count of 65535 items costs 65535·sizeof(T) that no input byte pays for — inside a nested list,
    unboundedly often) -/
def Wf : Layout → Bool
  | .done => true
  | .num _ _ rest => Wf rest
  | .numV _ _ rest => Wf rest
  | .bytes _ _ rest => Wf rest
  | .dyn _ _ rest => Wf rest
  | .dynE _ _ _ rest => Wf rest
  | .sub _ _ inner rest => Wf inner && Wf rest
  | .list _ _ _ item rest => decide (1 ≤ minSize item) && Wf item && Wf rest

/-! ## arithmetic -/

theorem le_ceilDiv_mul (M μ : Nat) (hμ : 1 ≤ μ) : M ≤ ceilDiv M μ * μ := by
  unfold ceilDiv
  have h1 := Nat.div_add_mod (M + μ - 1) μ
  have h2 : (M + μ - 1) % μ < μ := Nat.mod_lt _ hμ
  rw [Nat.mul_comm] at h1
  omega

/-- `a'` bytes allocated while `a` bytes were consumed, at slope `S` -/
theorem pay (S x y a a' : Nat) (h : y + a ≤ x) (hS : a' ≤ S * a) : a' + S * y ≤ S * x := by
  have h1 : S * (y + a) ≤ S * x := Nat.mul_le_mul_left S h
  rw [Nat.mul_add] at h1
  omega

theorem mul_len_drop_le (S k : Nat) (b : Bytes) : S * (b.drop k).length ≤ S * b.length :=
  Nat.mul_le_mul_left S (by simp)

/-- `n` items of `M` bytes allocated up front are paid for by the `≥ n·μ` bytes the items consume -/
theorem repay (a a2 n M μ D s S r b1 b : Nat) (hD : M ≤ D * μ) (hcons : r + n * μ ≤ b1) (hb : b1 ≤ b)
    (hS : D + s ≤ S) (h : a2 + s * r ≤ a + n * M + s * b1) : a2 + S * r ≤ a + S * b := by
  obtain ⟨d, rfl⟩ : ∃ d, b1 = r + d := ⟨b1 - r, by omega⟩
  have h1 : n * μ ≤ d := by omega
  have h2 : n * M ≤ D * d :=
    calc n * M ≤ n * (D * μ) := Nat.mul_le_mul_left n hD
      _ = D * (n * μ) := Nat.mul_left_comm n D μ
      _ ≤ D * d := Nat.mul_le_mul_left D h1
  have h3 : s * (r + d) = s * r + s * d := Nat.mul_add ..
  have h4 : (D + s) * d ≤ S * d := Nat.mul_le_mul_right d hS
  have h5 : (D + s) * d = D * d + s * d := Nat.add_mul ..
  have h6 : S * (r + d) ≤ S * b := Nat.mul_le_mul_left S hb
  have h7 : S * (r + d) = S * r + S * d := Nat.mul_add ..
  omega

theorem fromLE_take_lt (b : Bytes) (c : Nat) : fromLE (b.take c) < 256 ^ c := by
  have h := fromLE_lt (b.take c)
  have hl : (b.take c).length ≤ c := by simp; omega
  exact Nat.lt_of_lt_of_le h (Nat.pow_le_pow_right (by decide) hl)

theorem countOf_lt (e : CExpr) (c : Nat) (env : Env) : countOf e c env < 256 ^ c := by
  unfold countOf
  have hp : (0 : Int) < (256 : Int) ^ c := Int.pow_pos (by decide)
  have h1 := Int.emod_lt_of_pos (e.eval env) hp
  have h2 := Int.emod_nonneg (e.eval env) (Int.ne_of_gt hp)
  have h3 : ((256 : Int) ^ c) = ((256 ^ c : Nat) : Int) := by simp
  omega

/-! ## totality of the generic reader -/

/-- the potential `alloc + S·|unread|` never grows along a read, except by the up-front `make` of a
    list, which the items repay -/
def Post (S μ : Nat) (b : Bytes) (m : Meter) : (List Val × Bytes) → Meter → Prop :=
  fun p m' => p.2.length + μ ≤ b.length ∧ m'.alloc + S * p.2.length ≤ m.alloc + S * b.length

theorem readNG_spec (B S μ U : Nat) (f : Bytes → GoM (List Val × Bytes))
    (hf : ∀ b m, m.alloc + S * b.length + U ≤ B → SafeP (f b) m (Post S μ b m)) :
    ∀ (n : Nat) (b : Bytes) (m : Meter), m.alloc + S * b.length + U ≤ B →
      SafeP (readNG f n b) m (Post S (n * μ) b m) := by
  intro n
  induction n with
  | zero =>
    intro b m _
    unfold readNG
    exact SafeP.pure ⟨by simp, Nat.le_refl _⟩
  | succ n ih =>
    intro b m hB
    unfold readNG
    apply SafeP.bind
    apply SafeP.mono (hf b m hB)
    intro p m1 ⟨h1, h2⟩
    apply SafeP.bind
    apply SafeP.mono (ih p.2 m1 (by omega))
    intro q m2 ⟨h3, h4⟩
    apply SafeP.pure
    simp only [Post, Nat.succ_mul]
    exact ⟨by omega, by omega⟩

theorem readG_spec (B : Nat) (L : Layout) : ∀ (S : Nat) (env : Env) (b : Bytes) (m : Meter),
    Wf L = true → slope L ≤ S → m.alloc + S * b.length + unpaid L ≤ B →
    SafeP (readG B L env b) m (Post S (minSize L) b m) := by
  induction L with
  | done =>
    intro S env b m _ _ _
    unfold readG
    exact SafeP.pure ⟨by simp [minSize], Nat.le_refl _⟩
  | num name k rest ih =>
    intro S env b m hwf hs hB
    simp only [Wf] at hwf
    simp only [slope] at hs
    simp only [unpaid] at hB
    unfold readG
    apply SafeP.bind; apply SafeP.binaryRead; intro hk
    have hlen : (b.drop k).length = b.length - k := by simp
    have hmul := mul_len_drop_le S k b
    apply SafeP.bind
    apply SafeP.mono (ih S _ (b.drop k) m hwf hs (by omega))
    intro q m' ⟨h1, h2⟩
    apply SafeP.pure
    simp only [Post, minSize]
    exact ⟨by omega, by omega⟩
  | numV name k rest _ =>
    intro S env b m _ _ _
    unfold readG
    exact SafeP.err
  | bytes name k rest ih =>
    intro S env b m hwf hs hB
    simp only [Wf] at hwf
    simp only [slope] at hs
    simp only [unpaid] at hB
    unfold readG
    apply SafeP.bind; apply SafeP.binaryRead; intro hk
    have hlen : (b.drop k).length = b.length - k := by simp
    have hmul := mul_len_drop_le S k b
    apply SafeP.bind
    apply SafeP.mono (ih S _ (b.drop k) m hwf hs (by omega))
    intro q m' ⟨h1, h2⟩
    apply SafeP.pure
    simp only [Post, minSize]
    exact ⟨by omega, by omega⟩
  | dyn name c rest ih =>
    intro S env b m hwf hs hB
    simp only [Wf] at hwf
    simp only [slope] at hs
    simp only [unpaid] at hB
    unfold readG
    apply SafeP.bind; apply SafeP.binaryRead; intro hc
    simp only
    have hn := fromLE_take_lt b c
    generalize fromLE (b.take c) = n at *
    apply SafeP.bind; apply SafeP.alloc (by omega)
    apply SafeP.bind; apply SafeP.binaryRead; intro hn2
    simp only
    have hl1 : (b.drop c).length = b.length - c := by simp
    have hl2 : ((b.drop c).drop n).length = b.length - c - n := by simp only [List.length_drop]
    have hS1 : n ≤ S * (c + n) := by
      have : 1 * (c + n) ≤ S * (c + n) := Nat.mul_le_mul_right _ (by omega)
      omega
    have hp := pay S b.length ((b.drop c).drop n).length (c + n) n (by omega) hS1
    apply SafeP.bind
    apply SafeP.mono (ih S env ((b.drop c).drop n) _ hwf (by omega) (by simp only; omega))
    intro q m' ⟨h1, h2⟩
    apply SafeP.pure
    simp only [Post, minSize]
    simp only at h2
    exact ⟨by omega, by omega⟩
  | dynE name c e rest ih =>
    intro S env b m hwf hs hB
    simp only [Wf] at hwf
    simp only [slope] at hs
    simp only [unpaid] at hB
    unfold readG
    have hn := countOf_lt e c env
    generalize countOf e c env = n at *
    apply SafeP.bind; apply SafeP.alloc (by omega)
    apply SafeP.bind; apply SafeP.binaryRead; intro hn2
    simp only
    have hl2 : (b.drop n).length = b.length - n := by simp
    have hS1 : n ≤ S * n := by
      have : 1 * n ≤ S * n := Nat.mul_le_mul_right _ (by omega)
      omega
    have hp := pay S b.length (b.drop n).length n n (by omega) hS1
    apply SafeP.bind
    apply SafeP.mono (ih S env (b.drop n) _ hwf (by omega) (by simp only; omega))
    intro q m' ⟨h1, h2⟩
    apply SafeP.pure
    simp only [Post, minSize]
    simp only at h2
    exact ⟨by omega, by omega⟩
  | sub name rules inner rest ihi ihr =>
    intro S env b m hwf hs hB
    simp only [Wf, Bool.and_eq_true] at hwf
    simp only [slope] at hs
    simp only [unpaid] at hB
    unfold readG
    apply SafeP.bind
    apply SafeP.mono (ihi S [] b m hwf.1 (by omega) (by omega))
    intro p m1 ⟨h1, h2⟩
    apply SafeP.bind
    apply SafeP.mono (ihr S env p.2 m1 hwf.2 (by omega) (by omega))
    intro q m2 ⟨h3, h4⟩
    apply SafeP.pure
    simp only [Post, minSize]
    exact ⟨by omega, by omega⟩
  | list name c rules item rest ihi ihr =>
    intro S env b m hwf hs hB
    simp only [Wf, Bool.and_eq_true, decide_eq_true_eq] at hwf
    simp only [slope] at hs
    simp only [unpaid] at hB
    obtain ⟨⟨hmin, hwi⟩, hwr⟩ := hwf
    unfold readG
    apply SafeP.bind; apply SafeP.binaryRead; intro hc
    simp only
    have hn := fromLE_take_lt b c
    generalize fromLE (b.take c) = n at *
    have hnM : n * memSize item ≤ 256 ^ c * memSize item := Nat.mul_le_mul_right _ (by omega)
    apply SafeP.bind; apply SafeP.alloc (by omega)
    have hl1 : (b.drop c).length = b.length - c := by simp
    have hmul1 := mul_len_drop_le (slope item) c b
    have hsS : slope item * b.length ≤ S * b.length := Nat.mul_le_mul_right _ (by omega)
    apply SafeP.bind
    apply SafeP.mono (readNG_spec B (slope item) (minSize item) (unpaid item) (readG B item [])
      (fun b' m' h' => ihi (slope item) [] b' m' hwi (Nat.le_refl _) h') n (b.drop c) _ (by simp only; omega))
    intro it m1 ⟨h1, h2⟩
    simp only at h2
    have hrep := repay m.alloc m1.alloc n (memSize item) (minSize item) (ceilDiv (memSize item) (minSize item))
      (slope item) S it.2.length (b.drop c).length b.length (le_ceilDiv_mul _ _ hmin) h1 (by omega) (by omega) h2
    apply SafeP.bind
    apply SafeP.mono (ihr S env it.2 m1 hwr (by omega) (by omega))
    intro q m2 ⟨h3, h4⟩
    apply SafeP.pure
    simp only [Post, minSize]
    have hnμ : 0 ≤ n * minSize item := Nat.zero_le _
    exact ⟨by omega, by omega⟩

/-- **every layout**: from an empty meter, with the budget `slope L·|bs| + unpaid L`, the generated
    reader ends in a value or an ordinary error — never a panic, never over budget — and a value
    comes with at most `slope L` bytes allocated per byte consumed -/
theorem readG_total (L : Layout) (env : Env) (bs : Bytes) (hwf : Wf L = true) (B : Nat)
    (hB : slope L * bs.length + unpaid L ≤ B) :
    SafeP (readG B L env bs) {} (fun p m' => p.2.length + minSize L ≤ bs.length ∧
      m'.alloc + slope L * p.2.length ≤ slope L * bs.length) := by
  apply SafeP.mono (readG_spec B L (slope L) env bs {} hwf (Nat.le_refl _) (by simp only; omega))
  intro p m' ⟨h1, h2⟩
  simp only at h2
  exact ⟨h1, by omega⟩

/-! ## `cbnt.ParseChipsetACModuleInformation` (hand-written, on top of a generated reader) -/

/-- `result.Base.ReadFrom(r)`, the UUID test (made even when the read failed — an error either way),
    `Version < 5` → done, else `binary.Read(&result.TPMInfoList)` (a uint32); returns the bytes counted
    and the unread rest -/
def parseChipsetG (B : Nat) (L : Layout) (sig : Bytes) (b : Bytes) : GoM (Nat × Bytes) := do
  let p ← readG B L [] b
  match p.1.head? with
  | some (.bytes u) =>
    if u ≠ sig then err
    else
      match getNum L p.1 "Version" with
      | none => err
      | some v =>
        if v < 5 then pure (b.length - p.2.length, p.2)
        else do
          let q ← binaryReadG p.2 4
          pure (b.length - q.2.length, q.2)
  | _ => err

theorem parseChipsetG_total (L : Layout) (sig bs : Bytes) (hwf : Wf L = true) (B : Nat)
    (hB : slope L * bs.length + unpaid L ≤ B) : SafeP (parseChipsetG B L sig bs) {} (fun _ _ => True) := by
  unfold parseChipsetG
  apply SafeP.bind
  apply SafeP.mono (readG_total L [] bs hwf B hB)
  intro p m1 _
  split
  · apply SafeP.ite; · intro _; exact SafeP.err
    intro _
    split
    · exact SafeP.err
    · apply SafeP.ite
      · intro _; exact SafeP.pure trivial
      · intro _
        apply SafeP.bind; apply SafeP.binaryRead; intro _
        exact SafeP.pure trivial
  · exact SafeP.err

/-! ## the element containers (both boot policy manifests) -/

/-- what the dispatch `case` allocates before `ReadDataFrom`: nothing for an embedded element,
    `&T{}` for an optional one, one more item for `append(s.F, el)` -/
def slotAllocG (B : Nat) (s : Slot) : GoM Unit :=
  match s.kind with
  | .single => pure ()
  | .ptr => allocB "ReadFrom: s.F = &T{}" B 1 (memSize s.elem.body)
  | .list => allocB "ReadFrom: append(s.F, el)" B 1 (memSize s.elem.body)

/-- the dispatch loop of `ReadFrom` (C15: `Manifest.containerLoop`), with Go's faults:
    `missingFieldsByIndices[fieldIndex]` is an index into a fixed array, the loop has no exit
    condition of its own (`for { … }`: fuel) -/
def containerLoopG (B : Nat) (C : Container) : Nat → Nat → List Nat → List Val → Bytes →
    GoM (List Val × List Nat × Bytes)
  | 0, _, _, _, _ => outOfFuel
  | fuel + 1, prev, seen, st, b =>
    if b.length < C.siLen then pure (st, seen, b)            -- io.EOF / io.ErrUnexpectedEOF: return totalN, nil
    else
      match findSlot C.slots (b.take 8) 0 with
      | none => containerLoopG B C fuel prev seen st (b.drop C.siLen)      -- fieldIndex < 0: continue
      | some (i, s) =>
        if C.strict && decide (i + 1 < prev) then err
        else if ¬ (i < C.slots.length) then goPanic "ReadFrom: missingFieldsByIndices[fieldIndex]"
        else if s.kind ≠ .list && i + 1 = prev then err
        else do
          slotAllocG B s
          let p ← readG B s.elem.body [] b
          match st[i]? with
          | none => goPanic "ReadFrom: field of the manifest"
          | some old => containerLoopG B C fuel (i + 1) (i :: seen) (st.set i (putElem s p.1 old)) p.2

/-- `ReadFrom` of a container, with the deferred missing-element check -/
def containerG (B : Nat) (C : Container) (b : Bytes) : GoM (List Val × Bytes) := do
  let r ← containerLoopG B C (b.length + 1) 0 [] (initState C.slots) b
  if requiredSeen C.slots 0 r.2.1 then pure (r.1, r.2.2) else err

def slotSlope (s : Slot) : Nat := ceilDiv (memSize s.elem.body) (minSize s.elem.body) + slope s.elem.body
def slotUnpaid (s : Slot) : Nat := memSize s.elem.body + unpaid s.elem.body

def maxOf : List Nat → Nat
  | [] => 0
  | x :: xs => max x (maxOf xs)

def cslope (C : Container) : Nat := maxOf (C.slots.map slotSlope)
def cunpaid (C : Container) : Nat := maxOf (C.slots.map slotUnpaid)

/-- every round of the loop consumes input: a struct-info is not empty, and neither is an element -/
def WfC (C : Container) : Bool :=
  decide (1 ≤ C.siLen) && C.slots.all fun s => Wf s.elem.body && decide (1 ≤ minSize s.elem.body)

theorem le_maxOf (f : Slot → Nat) (ss : List Slot) (s : Slot) (h : s ∈ ss) : f s ≤ maxOf (ss.map f) := by
  induction ss with
  | nil => cases h
  | cons x xs ih =>
    simp only [List.map, maxOf]
    cases h with
    | head => omega
    | tail _ h' => have := ih h'; omega

theorem findSlot_spec (ss : List Slot) (id : Bytes) (k i : Nat) (s : Slot) (h : findSlot ss id k = some (i, s)) :
    i < k + ss.length ∧ s ∈ ss := by
  induction ss generalizing k with
  | nil => simp [findSlot] at h
  | cons x xs ih =>
    unfold findSlot at h
    split at h
    · simp only [Option.some.injEq, Prod.mk.injEq] at h
      obtain ⟨rfl, rfl⟩ := h
      exact ⟨by simp, List.mem_cons_self⟩
    · have := ih (k + 1) h
      exact ⟨by simp only [List.length_cons]; omega, List.mem_cons_of_mem _ this.2⟩

theorem initState_length (ss : List Slot) : (initState ss).length = ss.length := by
  induction ss with
  | nil => rfl
  | cons _ _ ih => simp [initState, ih]

theorem slotAllocG_spec (B : Nat) (s : Slot) (m : Meter) (h : m.alloc + memSize s.elem.body ≤ B) :
    SafeP (slotAllocG B s) m (fun _ m' => m'.alloc ≤ m.alloc + 1 * memSize s.elem.body) := by
  unfold slotAllocG
  split
  · exact SafeP.pure (by omega)
  · exact SafeP.alloc (by omega) (by simp only; omega)
  · exact SafeP.alloc (by omega) (by simp only; omega)

/-- the dispatch loop: every round consumes ≥ 1 byte (never `fuel`), the indexed array is as long
    as the slot list (never `panic`), and the potential `alloc + S·|unread|` does not grow -/
theorem containerLoopG_spec (B S : Nat) (C : Container) (hwf : WfC C = true) (hS : cslope C ≤ S) :
    ∀ (fuel prev : Nat) (seen : List Nat) (st : List Val) (b : Bytes) (m : Meter),
      b.length < fuel → st.length = C.slots.length → m.alloc + S * b.length + cunpaid C ≤ B →
      SafeP (containerLoopG B C fuel prev seen st b) m
        (fun r m' => r.2.2.length ≤ b.length ∧ m'.alloc + S * r.2.2.length ≤ m.alloc + S * b.length) := by
  simp only [WfC, Bool.and_eq_true, decide_eq_true_eq, List.all_eq_true] at hwf
  obtain ⟨hsi, hslots⟩ := hwf
  intro fuel
  induction fuel with
  | zero => intro _ _ _ b _ h; omega
  | succ fuel ih =>
    intro prev seen st b m hfuel hst hB
    unfold containerLoopG
    apply SafeP.ite
    · intro _; exact SafeP.pure ⟨Nat.le_refl _, Nat.le_refl _⟩
    · intro hlen
      split
      · -- unknown structure ID: one struct-info skipped
        have hl : (b.drop C.siLen).length = b.length - C.siLen := by simp
        have hmul := mul_len_drop_le S C.siLen b
        apply SafeP.mono (ih prev seen st (b.drop C.siLen) m (by omega) hst (by omega))
        intro r m' ⟨h1, h2⟩
        exact ⟨by omega, by omega⟩
      · rename_i i s hfind
        obtain ⟨hi, hmem⟩ := findSlot_spec _ _ _ _ _ hfind
        have hws := hslots s hmem
        have hsl : slotSlope s ≤ cslope C := le_maxOf slotSlope _ _ hmem
        have hun : slotUnpaid s ≤ cunpaid C := le_maxOf slotUnpaid _ _ hmem
        simp only [slotSlope, slotUnpaid] at hsl hun
        apply SafeP.ite; · intro _; exact SafeP.err
        intro _
        apply SafeP.ite; · intro h; omega
        intro _
        apply SafeP.ite; · intro _; exact SafeP.err
        intro _
        have hsS : slope s.elem.body * b.length ≤ S * b.length := Nat.mul_le_mul_right _ (by omega)
        apply SafeP.bind
        apply SafeP.mono (slotAllocG_spec B s m (by omega))
        intro _ m1 ha
        apply SafeP.bind
        apply SafeP.mono (readG_spec B s.elem.body (slope s.elem.body) [] b m1 hws.1 (Nat.le_refl _) (by omega))
        intro p m2 ⟨h1, h2⟩
        have hrep := repay m.alloc m2.alloc 1 (memSize s.elem.body) (minSize s.elem.body)
          (ceilDiv (memSize s.elem.body) (minSize s.elem.body)) (slope s.elem.body) S p.2.length b.length b.length
          (le_ceilDiv_mul _ _ hws.2) (by omega) (Nat.le_refl _) (by omega) (by omega)
        have hsome : i < st.length := by omega
        rw [List.getElem?_eq_getElem hsome]
        simp only
        apply SafeP.mono (ih (i + 1) (i :: seen) _ p.2 m2 (by omega) (by simp [hst]) (by omega))
        intro r m' ⟨h3, h4⟩
        exact ⟨by omega, by omega⟩

theorem containerG_spec (B : Nat) (C : Container) (hwf : WfC C = true) (b : Bytes) (m : Meter)
    (hB : m.alloc + cslope C * b.length + cunpaid C ≤ B) :
    SafeP (containerG B C b) m (fun p m' => p.2.length ≤ b.length ∧
      m'.alloc + cslope C * p.2.length ≤ m.alloc + cslope C * b.length) := by
  unfold containerG
  apply SafeP.bind
  apply SafeP.mono (containerLoopG_spec B (cslope C) C hwf (Nat.le_refl _) (b.length + 1) 0 [] _ b m
    (by omega) (initState_length _) hB)
  intro r m' ⟨h1, h2⟩
  apply SafeP.cond
  · intro _; exact SafeP.pure ⟨h1, h2⟩
  · intro _; exact SafeP.err

/-- **every container**: value or error, never a panic, never out of fuel, never over the budget
    `cslope C·|bs| + cunpaid C` -/
theorem containerG_total (C : Container) (bs : Bytes) (hwf : WfC C = true) (B : Nat)
    (hB : cslope C * bs.length + cunpaid C ≤ B) :
    SafeP (containerG B C bs) {} (fun p m' => p.2.length ≤ bs.length ∧
      m'.alloc + cslope C * p.2.length ≤ cslope C * bs.length) := by
  apply SafeP.mono (containerG_spec B C hwf bs {} (by simp only; omega))
  intro p m' ⟨h1, h2⟩
  simp only at h2
  exact ⟨h1, by omega⟩

/-! ## `Wf` is needed: a layout with list items that consume nothing -/

def zItem : Layout := .dynE "x" 0 (.lit 0) .done
def illLayout : Layout := .list "A" 1 [] zItem (.list "B" 1 [] zItem .done)

theorem zItem_read (B : Nat) (b : Bytes) (m : Meter) (h : m.alloc ≤ B) :
    readG B zItem [] b m = .ok (([.bytes []], b), m) := by
  have hc : countOf (.lit 0) 0 [] = 0 := by decide
  simp only [zItem, readG, hc, allocB, binaryReadG, bind, StateT.bind, Except.bind, pure, StateT.pure, Except.pure,
    Nat.zero_mul, Nat.add_zero, h, if_true, Nat.zero_le, List.take_zero, List.drop_zero]

theorem readNG_z (B : Nat) (n : Nat) (b : Bytes) (m : Meter) (h : m.alloc ≤ B) :
    readNG (readG B zItem []) n b m = .ok ((List.replicate n (.node [.bytes []]), b), m) := by
  induction n with
  | zero => simp [readNG, pure, StateT.pure, Except.pure]
  | succ n ih =>
    simp only [readNG, bind, StateT.bind, Except.bind, zItem_read B b m h, ih, pure, StateT.pure, Except.pure,
      List.replicate_succ]

def restL : Layout := .list "B" 1 [] zItem .done
def isPanic {α : Type} (r : Except Fault α) : Bool := match r with | .error (.panic _) => true | _ => false
theorem isPanic_elim {α : Type} (r : Except Fault α) (h : isPanic r = true) : ∃ s, r = .error (.panic s) := by
  unfold isPanic at h
  split at h
  · exact ⟨_, rfl⟩
  · cases h
theorem rest_panics : isPanic (readG 6147 restL [] [2] { alloc := 6120 }) = true := by decide

/-- the budget `slope·|bs| + unpaid` of an ill-formed layout is *not* kept: two lists of items that consume
    nothing, 255 + 2 slice headers against a budget that pays for 256 -/
theorem illLayout_not_safe : ¬ Safe (readG (slope illLayout * 2 + unpaid illLayout) illLayout [] [255, 2] {}) := by
  have hB : slope illLayout * 2 + unpaid illLayout = 6147 := by decide
  rw [hB]
  have h1 : binaryReadG [255, 2] 1 ({} : Meter) = .ok (([255], [2]), {}) := by decide
  have h2 : allocB "ReadFrom: make([]T, count)" 6147 (fromLE [255]) (memSize zItem) ({} : Meter) =
      .ok ((), { alloc := 6120 }) := by decide
  have h3 := readNG_z 6147 (fromLE [255]) [2] { alloc := 6120 } (by decide)
  obtain ⟨s, h4⟩ := isPanic_elim _ rest_panics
  unfold restL at h4
  unfold illLayout
  unfold readG
  simp only [bind, StateT.bind, Except.bind, h1, h2, h3, h4, Safe]
  intro h; exact h

end Fiano.ManifestTotal
