/-
  Generic codec theorems, proved once for all layouts by induction on `Layout` (no bound on the
  layout, the nesting depth, list lengths or byte-string lengths).
-/
import FianoModel.Manifest.Model

namespace Fiano.Manifest
open Fiano

@[simp] theorem Val.onNode_node {α} (f : List Val → α) (d : α) (fs : List Val) :
    Val.onNode f d (.node fs) = f fs := rfl
@[simp] theorem Val.onNode_num {α} (f : List Val → α) (d : α) (n : Nat) : Val.onNode f d (.num n) = d := rfl
@[simp] theorem Val.onNode_bytes {α} (f : List Val → α) (d : α) (b : Bytes) :
    Val.onNode f d (.bytes b) = d := rfl
@[simp] theorem Val.mapNode_node (f : List Val → List Val) (fs : List Val) :
    Val.mapNode f (.node fs) = .node (f fs) := rfl
@[simp] theorem Val.mapNode_num (f : List Val → List Val) (n : Nat) : Val.mapNode f (.num n) = .num n := rfl
@[simp] theorem Val.mapNode_bytes (f : List Val → List Val) (b : Bytes) :
    Val.mapNode f (.bytes b) = .bytes b := rfl

/-! ### sizes -/

theorem encodeRaw_length (L : Layout) : ∀ vs, (encodeRaw L vs).length = totalSize L vs := by
  induction L with
  | done => intro vs; cases vs <;> simp [encodeRaw, totalSize]
  | num name k rest ih =>
    intro vs
    cases vs with
    | nil => simp [encodeRaw, totalSize]
    | cons v tl => cases v <;> simp [encodeRaw, totalSize, ih]
  | numV name k rest ih =>
    intro vs
    cases vs with
    | nil => simp [encodeRaw, totalSize]
    | cons v tl => cases v <;> simp [encodeRaw, totalSize, ih]
  | bytes name k rest ih =>
    intro vs
    cases vs with
    | nil => simp [encodeRaw, totalSize]
    | cons v tl => cases v <;> simp [encodeRaw, totalSize, ih]
  | dyn name c rest ih =>
    intro vs
    cases vs with
    | nil => simp [encodeRaw, totalSize]
    | cons v tl => cases v <;> simp [encodeRaw, totalSize, ih] <;> omega
  | dynE name c e rest ih =>
    intro vs
    cases vs with
    | nil => simp [encodeRaw, totalSize]
    | cons v tl => cases v <;> simp [encodeRaw, totalSize, ih]
  | sub name rules inner rest ihi ihr =>
    intro vs
    cases vs with
    | nil => simp [encodeRaw, totalSize]
    | cons v tl => cases v <;> simp [encodeRaw, totalSize, ihi, ihr]
  | list name c rules item rest ihi ihr =>
    intro vs
    cases vs with
    | nil => simp [encodeRaw, totalSize]
    | cons v tl =>
      cases v with
      | num _ => simp [encodeRaw, totalSize]
      | bytes _ => simp [encodeRaw, totalSize]
      | node items =>
        simp only [encodeRaw, totalSize, List.length_append, leN_length, ihr, List.length_flatMap]
        have : (items.map fun a => (Val.onNode (encodeRaw item) [] a).length)
             = items.map (Val.onNode (totalSize item) 0) := by
          apply List.map_congr_left
          intro a _
          cases a <;> simp [ihi]
        rw [this]

/-! ### write, then read -/

theorem take_append_len {α} (a s : List α) (k : Nat) (h : a.length = k) : (a ++ s).take k = a := by
  subst h; simp

theorem drop_append_len {α} (a s : List α) (k : Nat) (h : a.length = k) : (a ++ s).drop k = s := by
  subst h; simp

/-- items written one after the other are read back one after the other -/
theorem decodeN_flatMap (f : Bytes → Except Err (List Val × Bytes)) (enc : List Val → Bytes)
    (p : List Val → Bool) (hf : ∀ fs r, p fs = true → f (enc fs ++ r) = .ok (fs, r)) :
    ∀ (items : List Val) (r : Bytes), items.all (Val.onNode p false) = true →
      decodeN f items.length (items.flatMap (Val.onNode enc []) ++ r) = .ok (items, r) := by
  intro items
  induction items with
  | nil => intro r _; simp [decodeN]
  | cons it tl ih =>
    intro r h
    simp only [List.all_cons, Bool.and_eq_true] at h
    cases it with
    | num _ => simp at h
    | bytes _ => simp at h
    | node fs =>
      simp only [Val.onNode_node] at h
      simp only [List.length_cons, List.flatMap_cons, Val.onNode_node, List.append_assoc, decodeN]
      rw [hf fs _ h.1]
      simp only
      rw [ih r h.2]

/-- **decode ∘ encode (no Rehash)**: what `WriteTo` emits for a well-typed value, followed by any
    bytes `r`, is read back by `ReadFrom` as the same value, leaving exactly `r`. -/
theorem decode_encodeRaw (L : Layout) : ∀ env vs r, wt L env vs = true →
    decode L env (encodeRaw L vs ++ r) = .ok (vs, r) := by
  induction L with
  | done =>
    intro env vs r h
    cases vs with
    | nil => simp [encodeRaw, decode]
    | cons v tl => simp [wt] at h
  | num name k rest ih =>
    intro env vs r h
    cases vs with
    | nil => simp [wt] at h
    | cons v tl =>
      cases v with
      | bytes _ => simp [wt] at h
      | node _ => simp [wt] at h
      | num x =>
        simp only [wt, Bool.and_eq_true, decide_eq_true_eq] at h
        have hlen : ¬ (leN k x ++ (encodeRaw rest tl ++ r)).length < k := by simp
        simp only [encodeRaw, decode, List.append_assoc]
        rw [if_neg hlen, take_append_len _ _ k (leN_length k x), drop_append_len _ _ k (leN_length k x),
          fromLE_leN_of_lt k x h.1, ih _ _ _ h.2]
  | numV name k rest ih => intro env vs r h; simp [wt] at h
  | bytes name k rest ih =>
    intro env vs r h
    cases vs with
    | nil => simp [wt] at h
    | cons v tl =>
      cases v with
      | num _ => simp [wt] at h
      | node _ => simp [wt] at h
      | bytes b =>
        simp only [wt, Bool.and_eq_true, decide_eq_true_eq] at h
        have hlen : ¬ (b ++ (encodeRaw rest tl ++ r)).length < k := by simp <;> omega
        simp only [encodeRaw, decode, List.append_assoc]
        rw [if_neg hlen, take_append_len _ _ k h.1, drop_append_len _ _ k h.1, ih _ _ _ h.2]
  | dyn name c rest ih =>
    intro env vs r h
    cases vs with
    | nil => simp [wt] at h
    | cons v tl =>
      cases v with
      | num _ => simp [wt] at h
      | node _ => simp [wt] at h
      | bytes b =>
        simp only [wt, Bool.and_eq_true, decide_eq_true_eq] at h
        have hlen : ¬ (leN c b.length ++ (b ++ (encodeRaw rest tl ++ r))).length < c := by simp
        simp only [encodeRaw, decode, List.append_assoc]
        rw [if_neg hlen, take_append_len _ _ c (leN_length c _), drop_append_len _ _ c (leN_length c _),
          fromLE_leN_of_lt c _ h.1]
        have hlen2 : ¬ (b ++ (encodeRaw rest tl ++ r)).length < b.length := by simp
        rw [if_neg hlen2, take_append_len _ _ _ rfl, drop_append_len _ _ _ rfl, ih _ _ _ h.2]
  | dynE name c e rest ih =>
    intro env vs r h
    cases vs with
    | nil => simp [wt] at h
    | cons v tl =>
      cases v with
      | num _ => simp [wt] at h
      | node _ => simp [wt] at h
      | bytes b =>
        simp only [wt, Bool.and_eq_true, decide_eq_true_eq] at h
        have hlen : ¬ (b ++ (encodeRaw rest tl ++ r)).length < countOf e c env := by
          rw [← h.1]; simp
        simp only [encodeRaw, decode, List.append_assoc]
        rw [if_neg hlen, take_append_len _ _ _ h.1, drop_append_len _ _ _ h.1, ih _ _ _ h.2]
  | sub name rules inner rest ihi ihr =>
    intro env vs r h
    cases vs with
    | nil => simp [wt] at h
    | cons v tl =>
      cases v with
      | num _ => simp [wt] at h
      | bytes _ => simp [wt] at h
      | node fs =>
        simp only [wt, Bool.and_eq_true] at h
        simp only [encodeRaw, decode, List.append_assoc]
        rw [ihi _ _ _ h.1]
        simp only
        rw [ihr _ _ _ h.2]
  | list name c rules item rest ihi ihr =>
    intro env vs r h
    cases vs with
    | nil => simp [wt] at h
    | cons v tl =>
      cases v with
      | num _ => simp [wt] at h
      | bytes _ => simp [wt] at h
      | node items =>
        simp only [wt, Bool.and_eq_true, decide_eq_true_eq] at h
        have hlen : ¬ (leN c items.length ++ (items.flatMap (Val.onNode (encodeRaw item) []) ++
            (encodeRaw rest tl ++ r))).length < c := by simp
        simp only [encodeRaw, decode, List.append_assoc]
        rw [if_neg hlen, take_append_len _ _ c (leN_length c _), drop_append_len _ _ c (leN_length c _),
          fromLE_leN_of_lt c _ h.1.1,
          decodeN_flatMap (decode item []) (encodeRaw item) (wt item []) (fun fs r h => ihi [] fs r h)
            items _ h.1.2]
        simp only
        rw [ihr _ _ _ h.2]

/-! ### read, then write -/

theorem decodeN_inv (f : Bytes → Except Err (List Val × Bytes)) (enc : List Val → Bytes)
    (p : List Val → Bool)
    (hf : ∀ b fs r, f b = .ok (fs, r) → enc fs ++ r = b ∧ p fs = true) :
    ∀ (n : Nat) (b : Bytes) (items : List Val) (r : Bytes), decodeN f n b = .ok (items, r) →
      items.flatMap (Val.onNode enc []) ++ r = b ∧ items.length = n ∧
        items.all (Val.onNode p false) = true := by
  intro n
  induction n with
  | zero =>
    intro b items r h
    simp only [decodeN, Except.ok.injEq, Prod.mk.injEq] at h
    obtain ⟨rfl, rfl⟩ := h
    simp
  | succ n ih =>
    intro b items r h
    simp only [decodeN] at h
    cases hfb : f b with
    | error e => simp [hfb] at h
    | ok p1 =>
      obtain ⟨fs, r1⟩ := p1
      simp only [hfb] at h
      cases hrest : decodeN f n r1 with
      | error e => simp [hrest] at h
      | ok p2 =>
        obtain ⟨vs, r2⟩ := p2
        simp only [hrest, Except.ok.injEq, Prod.mk.injEq] at h
        obtain ⟨rfl, rfl⟩ := h
        obtain ⟨h1, h2⟩ := hf b fs r1 hfb
        obtain ⟨h3, h4, h5⟩ := ih r1 vs r2 hrest
        refine ⟨?_, ?_, ?_⟩
        · simp only [List.flatMap_cons, Val.onNode_node, List.append_assoc]
          rw [h3, h1]
        · simp [h4]
        · simp [h2, h5]

theorem take_drop_len_of_not_lt (b : Bytes) (k : Nat) (h : ¬ b.length < k) : (b.take k).length = k := by
  simp; omega

/-- **encode ∘ decode (no Rehash)**: whatever `ReadFrom` accepts is, byte for byte, what `WriteTo`
    emits for the value read, followed by the unread rest; and the value read is well-typed. -/
theorem encodeRaw_decode (L : Layout) : ∀ env b vs r, decode L env b = .ok (vs, r) →
    encodeRaw L vs ++ r = b ∧ wt L env vs = true := by
  induction L with
  | done =>
    intro env b vs r h
    simp only [decode, Except.ok.injEq, Prod.mk.injEq] at h
    obtain ⟨rfl, rfl⟩ := h
    simp [encodeRaw, wt]
  | num name k rest ih =>
    intro env b vs r h
    simp only [decode] at h
    by_cases hlt : b.length < k
    · simp [hlt] at h
    · rw [if_neg hlt] at h
      cases hd : decode rest ((name, fromLE (b.take k)) :: env) (b.drop k) with
      | error e => simp [hd] at h
      | ok p1 =>
        obtain ⟨vs', r'⟩ := p1
        simp only [hd, Except.ok.injEq, Prod.mk.injEq] at h
        obtain ⟨rfl, rfl⟩ := h
        obtain ⟨h1, h2⟩ := ih _ _ _ _ hd
        have hk := take_drop_len_of_not_lt b k hlt
        refine ⟨?_, ?_⟩
        · simp only [encodeRaw, List.append_assoc]
          rw [h1, leN_fromLE' _ k hk, List.take_append_drop]
        · simp only [wt, Bool.and_eq_true, decide_eq_true_eq]
          refine ⟨?_, h2⟩
          have := fromLE_lt (b.take k)
          rwa [hk] at this
  | numV name k rest ih => intro env b vs r h; simp [decode] at h
  | bytes name k rest ih =>
    intro env b vs r h
    simp only [decode] at h
    by_cases hlt : b.length < k
    · simp [hlt] at h
    · rw [if_neg hlt] at h
      cases hd : decode rest env (b.drop k) with
      | error e => simp [hd] at h
      | ok p1 =>
        obtain ⟨vs', r'⟩ := p1
        simp only [hd, Except.ok.injEq, Prod.mk.injEq] at h
        obtain ⟨rfl, rfl⟩ := h
        obtain ⟨h1, h2⟩ := ih _ _ _ _ hd
        have hk := take_drop_len_of_not_lt b k hlt
        refine ⟨?_, ?_⟩
        · simp only [encodeRaw, List.append_assoc]
          rw [h1, List.take_append_drop]
        · simp only [wt, Bool.and_eq_true, decide_eq_true_eq]
          exact ⟨hk, h2⟩
  | dyn name c rest ih =>
    intro env b vs r h
    simp only [decode] at h
    by_cases hlt : b.length < c
    · simp [hlt] at h
    · rw [if_neg hlt] at h
      by_cases hlt2 : (b.drop c).length < fromLE (b.take c)
      · rw [if_pos hlt2] at h; cases h
      · rw [if_neg hlt2] at h
        cases hd : decode rest env ((b.drop c).drop (fromLE (b.take c))) with
        | error e => rw [hd] at h; cases h
        | ok p1 =>
          obtain ⟨vs', r'⟩ := p1
          rw [hd] at h
          simp only [Except.ok.injEq, Prod.mk.injEq] at h
          obtain ⟨rfl, rfl⟩ := h
          obtain ⟨h1, h2⟩ := ih _ _ _ _ hd
          have hk := take_drop_len_of_not_lt b c hlt
          have hn := take_drop_len_of_not_lt (b.drop c) _ hlt2
          refine ⟨?_, ?_⟩
          · simp only [encodeRaw, List.append_assoc]
            rw [h1, hn, leN_fromLE' _ c hk, List.take_append_drop, List.take_append_drop]
          · simp only [wt, Bool.and_eq_true, decide_eq_true_eq]
            refine ⟨?_, h2⟩
            rw [hn]
            have := fromLE_lt (b.take c)
            rwa [hk] at this
  | dynE name c e rest ih =>
    intro env b vs r h
    simp only [decode] at h
    by_cases hlt : b.length < countOf e c env
    · simp [hlt] at h
    · rw [if_neg hlt] at h
      cases hd : decode rest env (b.drop (countOf e c env)) with
      | error e => simp [hd] at h
      | ok p1 =>
        obtain ⟨vs', r'⟩ := p1
        simp only [hd, Except.ok.injEq, Prod.mk.injEq] at h
        obtain ⟨rfl, rfl⟩ := h
        obtain ⟨h1, h2⟩ := ih _ _ _ _ hd
        have hk := take_drop_len_of_not_lt b _ hlt
        refine ⟨?_, ?_⟩
        · simp only [encodeRaw, List.append_assoc]
          rw [h1, List.take_append_drop]
        · simp only [wt, Bool.and_eq_true, decide_eq_true_eq]
          exact ⟨hk, h2⟩
  | sub name rules inner rest ihi ihr =>
    intro env b vs r h
    simp only [decode] at h
    cases hd : decode inner [] b with
    | error e => simp [hd] at h
    | ok p1 =>
      obtain ⟨fs, r1⟩ := p1
      simp only [hd] at h
      cases hd2 : decode rest env r1 with
      | error e => simp [hd2] at h
      | ok p2 =>
        obtain ⟨vs', r'⟩ := p2
        simp only [hd2, Except.ok.injEq, Prod.mk.injEq] at h
        obtain ⟨rfl, rfl⟩ := h
        obtain ⟨h1, h2⟩ := ihi _ _ _ _ hd
        obtain ⟨h3, h4⟩ := ihr _ _ _ _ hd2
        refine ⟨?_, ?_⟩
        · simp only [encodeRaw, List.append_assoc]
          rw [h3, h1]
        · simp [wt, h2, h4]
  | list name c rules item rest ihi ihr =>
    intro env b vs r h
    simp only [decode] at h
    by_cases hlt : b.length < c
    · simp [hlt] at h
    · rw [if_neg hlt] at h
      cases hd : decodeN (decode item []) (fromLE (b.take c)) (b.drop c) with
      | error e => simp [hd] at h
      | ok p1 =>
        obtain ⟨items, r1⟩ := p1
        simp only [hd] at h
        cases hd2 : decode rest env r1 with
        | error e => simp [hd2] at h
        | ok p2 =>
          obtain ⟨vs', r'⟩ := p2
          simp only [hd2, Except.ok.injEq, Prod.mk.injEq] at h
          obtain ⟨rfl, rfl⟩ := h
          obtain ⟨h1, h2, h3⟩ := decodeN_inv (decode item []) (encodeRaw item) (wt item [])
            (fun b fs r h => ihi [] b fs r h) _ _ _ _ hd
          obtain ⟨h4, h5⟩ := ihr _ _ _ _ hd2
          have hk := take_drop_len_of_not_lt b c hlt
          refine ⟨?_, ?_⟩
          · simp only [encodeRaw, List.append_assoc]
            rw [h4, h1, h2, leN_fromLE' _ c hk, List.take_append_drop]
          · simp only [wt, Bool.and_eq_true, decide_eq_true_eq]
            refine ⟨⟨?_, h3⟩, h5⟩
            rw [h2]
            have := fromLE_lt (b.take c)
            rwa [hk] at this

/-! ### offsets -/

theorem wt_shaped (L : Layout) : ∀ env vs, wt L env vs = true → shaped L vs = true := by
  induction L with
  | done => intro env vs h; cases vs <;> simp_all [wt, shaped]
  | num name k rest ih =>
    intro env vs h
    cases vs with
    | nil => simp [wt] at h
    | cons v tl =>
      cases v <;> simp only [wt, shaped, Bool.and_eq_true] at h ⊢ <;> first | exact ih _ _ h.2 | cases h
  | numV name k rest ih => intro env vs h; simp [wt] at h
  | bytes name k rest ih =>
    intro env vs h
    cases vs with
    | nil => simp [wt] at h
    | cons v tl =>
      cases v <;> simp only [wt, shaped, Bool.and_eq_true] at h ⊢ <;> first | exact ih _ _ h.2 | cases h
  | dyn name c rest ih =>
    intro env vs h
    cases vs with
    | nil => simp [wt] at h
    | cons v tl =>
      cases v <;> simp only [wt, shaped, Bool.and_eq_true] at h ⊢ <;> first | exact ih _ _ h.2 | cases h
  | dynE name c e rest ih =>
    intro env vs h
    cases vs with
    | nil => simp [wt] at h
    | cons v tl =>
      cases v <;> simp only [wt, shaped, Bool.and_eq_true] at h ⊢ <;> first | exact ih _ _ h.2 | cases h
  | sub name rules inner rest ihi ihr =>
    intro env vs h
    cases vs with
    | nil => simp [wt] at h
    | cons v tl =>
      cases v <;> simp only [wt, shaped, Bool.and_eq_true] at h ⊢ <;>
        first | exact ⟨ihi _ _ h.1, ihr _ _ h.2⟩ | cases h
  | list name c rules item rest ihi ihr =>
    intro env vs h
    cases vs with
    | nil => simp [wt] at h
    | cons v tl =>
      cases v with
      | num _ => simp [wt] at h
      | bytes _ => simp [wt] at h
      | node items =>
        simp only [wt, shaped, Bool.and_eq_true] at h ⊢
        refine ⟨?_, ihr _ _ h.2⟩
        rw [List.all_eq_true] at h ⊢
        intro x hx
        have hx' := h.1.2 x hx
        cases x with
        | num _ => simp at hx'
        | bytes _ => simp at hx'
        | node fs => simp only [Val.onNode_node] at hx' ⊢; exact ihi _ _ hx'

/-- **offsets**: `<F>Offset()` is the length of what `WriteTo` emits for the fields before `F`,
    that is a prefix of the output, and the field itself follows. -/
theorem split_at_field (L : Layout) : ∀ vs f, shaped L vs = true →
    encodeRaw L vs = encodeRaw (L.before f) vs ++ encodeRaw (L.fromField f) (vs.drop (L.index f)) ∧
    fieldOff L vs f = (encodeRaw (L.before f) vs).length := by
  induction L with
  | done => intro vs f h; cases vs <;> simp [encodeRaw, Layout.before, Layout.fromField, Layout.index, fieldOff]
  | num n k r ih =>
    intro vs f h
    cases vs with
    | nil => simp [shaped] at h
    | cons v tl =>
      cases v <;> simp only [shaped] at h <;> try (cases h)
      by_cases hn : n = f
      · simp [Layout.before, Layout.fromField, Layout.index, fieldOff, hn, encodeRaw]
      · obtain ⟨h1, h2⟩ := ih tl f h
        simp only [Layout.before, Layout.fromField, Layout.index, fieldOff, hn, if_false, encodeRaw,
          List.drop_succ_cons, List.append_assoc, List.length_append, leN_length, headSize]
        exact ⟨by rw [← h1], by rw [h2]⟩
  | numV n k r ih =>
    intro vs f h
    cases vs with
    | nil => simp [shaped] at h
    | cons v tl =>
      cases v <;> simp only [shaped] at h <;> try (cases h)
      by_cases hn : n = f
      · simp [Layout.before, Layout.fromField, Layout.index, fieldOff, hn, encodeRaw]
      · obtain ⟨h1, h2⟩ := ih tl f h
        simp only [Layout.before, Layout.fromField, Layout.index, fieldOff, hn, if_false, encodeRaw,
          List.drop_succ_cons, List.append_assoc, List.length_append, leN_length, headSize]
        exact ⟨by rw [← h1], by rw [h2]⟩
  | bytes n k r ih =>
    intro vs f h
    cases vs with
    | nil => simp [shaped] at h
    | cons v tl =>
      cases v <;> simp only [shaped] at h <;> try (cases h)
      by_cases hn : n = f
      · simp [Layout.before, Layout.fromField, Layout.index, fieldOff, hn, encodeRaw]
      · obtain ⟨h1, h2⟩ := ih tl f h
        simp only [Layout.before, Layout.fromField, Layout.index, fieldOff, hn, if_false, encodeRaw,
          List.drop_succ_cons, List.append_assoc, List.length_append, leN_length, headSize]
        exact ⟨by rw [← h1], by rw [h2]⟩
  | dyn n c r ih =>
    intro vs f h
    cases vs with
    | nil => simp [shaped] at h
    | cons v tl =>
      cases v <;> simp only [shaped] at h <;> try (cases h)
      by_cases hn : n = f
      · simp [Layout.before, Layout.fromField, Layout.index, fieldOff, hn, encodeRaw]
      · obtain ⟨h1, h2⟩ := ih tl f h
        simp only [Layout.before, Layout.fromField, Layout.index, fieldOff, hn, if_false, encodeRaw,
          List.drop_succ_cons, List.append_assoc, List.length_append, leN_length, headSize]
        exact ⟨by rw [← h1], by rw [h2]; omega⟩
  | dynE n c e r ih =>
    intro vs f h
    cases vs with
    | nil => simp [shaped] at h
    | cons v tl =>
      cases v <;> simp only [shaped] at h <;> try (cases h)
      by_cases hn : n = f
      · simp [Layout.before, Layout.fromField, Layout.index, fieldOff, hn, encodeRaw]
      · obtain ⟨h1, h2⟩ := ih tl f h
        simp only [Layout.before, Layout.fromField, Layout.index, fieldOff, hn, if_false, encodeRaw,
          List.drop_succ_cons, List.append_assoc, List.length_append, leN_length, headSize]
        exact ⟨by rw [← h1], by rw [h2]⟩
  | sub n rs i r _ ih =>
    intro vs f h
    cases vs with
    | nil => simp [shaped] at h
    | cons v tl =>
      cases v with
      | num _ => simp [shaped] at h
      | bytes _ => simp [shaped] at h
      | node fs =>
      simp only [shaped, Bool.and_eq_true] at h
      by_cases hn : n = f
      · simp [Layout.before, Layout.fromField, Layout.index, fieldOff, hn, encodeRaw]
      · obtain ⟨h1, h2⟩ := ih tl f h.2
        simp only [Layout.before, Layout.fromField, Layout.index, fieldOff, hn, if_false, encodeRaw,
          List.drop_succ_cons, List.append_assoc, List.length_append, headSize,
          encodeRaw_length]
        exact ⟨by rw [← h1], by rw [h2, encodeRaw_length]⟩
  | list n c rs i r _ ih =>
    intro vs f h
    cases vs with
    | nil => simp [shaped] at h
    | cons v tl =>
      cases v with
      | num _ => simp [shaped] at h
      | bytes _ => simp [shaped] at h
      | node items =>
      simp only [shaped, Bool.and_eq_true] at h
      by_cases hn : n = f
      · simp [Layout.before, Layout.fromField, Layout.index, fieldOff, hn, encodeRaw]
      · obtain ⟨h1, h2⟩ := ih tl f h.2
        have hsz := encodeRaw_length (.list n c rs i .done) [.node items]
        simp only [encodeRaw, totalSize, List.append_nil, List.length_append, leN_length,
          Nat.add_zero] at hsz
        simp only [Layout.before, Layout.fromField, Layout.index, fieldOff, hn, if_false, encodeRaw,
          List.drop_succ_cons, List.append_assoc, List.length_append, leN_length, headSize]
        exact ⟨by rw [← h1], by rw [h2]; omega⟩

end Fiano.Manifest
