/-
  Rehash: the assignments change numbers only, all right-hand sides depend on sizes only; hence
  sizes, offsets and shapes are invariant, Rehash is idempotent, and (when no rehashed field feeds
  a length function) well-typedness is preserved.
-/
import FianoModel.Manifest.Lemmas

namespace Fiano.Manifest
open Fiano

/-- forget the numbers of the `num` fields at every depth -/
def erase : Layout → List Val → List Val
  | .num _ _ rest, v :: tl => (match v with | .num _ => .num 0 | w => w) :: erase rest tl
  | .sub _ _ inner rest, v :: tl => Val.mapNode (erase inner) v :: erase rest tl
  | .list _ _ _ item rest, v :: tl => Val.mapNode (fun items => items.map (Val.mapNode (erase item))) v :: erase rest tl
  | .numV _ _ rest, v :: tl | .bytes _ _ rest, v :: tl | .dyn _ _ rest, v :: tl
  | .dynE _ _ _ rest, v :: tl => v :: erase rest tl
  | _, us => us

/-! ### quantities that do not see numbers -/

theorem totalSize_erase (L : Layout) : ∀ us, totalSize L (erase L us) = totalSize L us := by
  induction L with
  | done => intro us; simp [erase]
  | num n k r ih =>
    intro us
    cases us with
    | nil => simp [erase]
    | cons v tl => cases v <;> simp [erase, totalSize, ih]
  | numV n k r ih =>
    intro us
    cases us with
    | nil => simp [erase]
    | cons v tl => cases v <;> simp [erase, totalSize, ih]
  | bytes n k r ih =>
    intro us
    cases us with
    | nil => simp [erase]
    | cons v tl => cases v <;> simp [erase, totalSize, ih]
  | dyn n c r ih =>
    intro us
    cases us with
    | nil => simp [erase]
    | cons v tl => cases v <;> simp [erase, totalSize, ih]
  | dynE n c e r ih =>
    intro us
    cases us with
    | nil => simp [erase]
    | cons v tl => cases v <;> simp [erase, totalSize, ih]
  | sub n rs i r ihi ihr =>
    intro us
    cases us with
    | nil => simp [erase]
    | cons v tl => cases v <;> simp [erase, totalSize, ihi, ihr]
  | list n c rs i r ihi ihr =>
    intro us
    cases us with
    | nil => simp [erase]
    | cons v tl =>
      cases v with
      | num _ => simp [erase, totalSize]
      | bytes _ => simp [erase, totalSize]
      | node items =>
        simp only [erase, Val.mapNode_node, totalSize, ihr, List.map_map]
        congr 2
        apply congrArg
        apply List.map_congr_left
        intro a _
        cases a <;> simp [ihi]

theorem listSize_erase (item : Layout) (ih : ∀ us, totalSize item (erase item us) = totalSize item us)
    (items : List Val) :
    (List.map (Val.onNode (totalSize item) 0 ∘ Val.mapNode (erase item)) items).sum
      = (List.map (Val.onNode (totalSize item) 0) items).sum := by
  apply congrArg
  apply List.map_congr_left
  intro a _
  cases a <;> simp [ih]

theorem fieldOff_erase (L : Layout) : ∀ us f, fieldOff L (erase L us) f = fieldOff L us f := by
  induction L with
  | list n c rs i r ihi ihr =>
    intro us f
    rcases us with _ | ⟨v, tl⟩
    · simp [erase]
    · cases v <;> simp [erase, fieldOff, headSize, ihr, listSize_erase i (totalSize_erase i)]
  | _ =>
    intro us f
    rcases us with _ | ⟨v, tl⟩ <;> (try cases v) <;> simp_all [erase, fieldOff, headSize, totalSize_erase]

@[simp] theorem findSub_nil (L : Layout) (f : String) : findSub L [] f = none := by
  induction L <;> simp_all [findSub]

theorem findSub_erase (L : Layout) : ∀ us f,
    findSub L (erase L us) f = (findSub L us f).map (fun p => (p.1, erase p.1 p.2)) := by
  induction L with
  | done => intro us f; simp [findSub]
  | sub n rs i r ihi ihr =>
    intro us f
    rcases us with _ | ⟨v, tl⟩
    · by_cases hn : n = f <;> simp [erase, findSub, hn, ihr]
    · by_cases hn : n = f
      · cases v <;> simp [erase, findSub, hn]
      · simp [erase, findSub, hn, ihr]
  | num n k r ih => intro us f; rcases us with _ | ⟨v, tl⟩ <;> simp [erase, findSub, ih]
  | numV n k r ih => intro us f; rcases us with _ | ⟨v, tl⟩ <;> simp [erase, findSub, ih]
  | bytes n k r ih => intro us f; rcases us with _ | ⟨v, tl⟩ <;> simp [erase, findSub, ih]
  | dyn n k r ih => intro us f; rcases us with _ | ⟨v, tl⟩ <;> simp [erase, findSub, ih]
  | dynE n k e r ih => intro us f; rcases us with _ | ⟨v, tl⟩ <;> simp [erase, findSub, ih]
  | list n k rs i r _ ih => intro us f; rcases us with _ | ⟨v, tl⟩ <;> simp [erase, findSub, ih]

theorem relOffset_erase : ∀ (p : List String) (L : Layout) (us : List Val) (f : String),
    relOffset L (erase L us) p f = relOffset L us p f := by
  intro p
  induction p with
  | nil => intro L us f; simp [relOffset, fieldOff_erase]
  | cons g q ih =>
    intro L us f
    simp only [relOffset, findSub_erase]
    cases findSub L us g with
    | none => simp
    | some pr => simp [ih]

theorem eval_erase (e : RExpr) (L : Layout) (us : List Val) : e.eval L (erase L us) = e.eval L us := by
  induction e with
  | const n => simp [RExpr.eval]
  | totalSize => simp [RExpr.eval, totalSize_erase]
  | fieldOffset inside f => simp [RExpr.eval, relOffset_erase]
  | add a b iha ihb => simp [RExpr.eval, iha, ihb]
  | call fn => simp [RExpr.eval]

/-- if two values differ in numbers only, every Rehash right-hand side has the same value on both -/
theorem eval_congr (e : RExpr) (L : Layout) (us us' : List Val) (h : erase L us = erase L us') :
    e.eval L us = e.eval L us' := by
  rw [← eval_erase e L us, ← eval_erase e L us', h]

/-! ### Rehash changes numbers only -/

theorem erase_assign (ev : RExpr → Nat) (rules : List GRule) (pre : List String) (L : Layout) :
    ∀ us, erase L (assign ev rules pre L us) = erase L us := by
  induction L with
  | num f k r ih =>
    intro us
    rcases us with _ | ⟨v, tl⟩
    · simp [assign]
    · cases v <;> simp only [assign, erase, ih] <;> cases ruleFor rules (pre ++ [f]) <;> simp
  | _ =>
    intro us
    rcases us with _ | ⟨v, tl⟩ <;> simp_all [assign, erase]

theorem erase_rehashWalk (L : Layout) : ∀ (Ls : Layout) (vs : List Val) (rules : List GRule) (us : List Val),
    erase L (rehashWalk Ls vs rules L us) = erase L us := by
  induction L with
  | num f k r ih =>
    intro Ls vs rules us
    rcases us with _ | ⟨v, tl⟩
    · simp [rehashWalk]
    · cases v <;> simp only [rehashWalk, erase, ih] <;> cases ruleFor rules [f] <;> simp
  | sub g rs inner rest ihi ihr =>
    intro Ls vs rules us
    rcases us with _ | ⟨v, tl⟩
    · simp [rehashWalk]
    · cases v <;> simp [rehashWalk, erase, ihr, ihi, erase_assign]
  | list n c rs item rest ihi ihr =>
    intro Ls vs rules us
    rcases us with _ | ⟨v, tl⟩
    · simp [rehashWalk]
    · cases v with
      | num _ => simp [rehashWalk, erase, ihr]
      | bytes _ => simp [rehashWalk, erase, ihr]
      | node items =>
        simp only [rehashWalk, erase, ihr, Val.mapNode_node, List.map_map]
        congr 2
        apply List.map_congr_left
        intro a _
        cases a <;> simp [ihi]
  | _ =>
    intro Ls vs rules us
    rcases us with _ | ⟨v, tl⟩ <;> simp_all [rehashWalk, erase]

theorem erase_rehash (S : SDef) (vs : List Val) : erase S.body (S.rehash vs) = erase S.body vs :=
  erase_rehashWalk S.body S.body vs S.rules vs

/-- **size invariance**: Rehash does not change `TotalSize()` -/
theorem totalSize_rehash (S : SDef) (vs : List Val) : S.totalSize (S.rehash vs) = S.totalSize vs := by
  unfold SDef.totalSize
  rw [← totalSize_erase, erase_rehash, totalSize_erase]

theorem fieldOff_rehash (S : SDef) (vs : List Val) (f : String) :
    fieldOff S.body (S.rehash vs) f = fieldOff S.body vs f := by
  rw [← fieldOff_erase, erase_rehash, fieldOff_erase]

/-! ### idempotence -/

/-- re-running the parent's assignments into `g` after `g` rehashed itself changes nothing -/
theorem assign_absorb (rules : List GRule) (g : String) (rs : List GRule) (ev ev' : RExpr → Nat)
    (Lc : Layout) (vc : List Val) (H : ∀ e : RExpr, ev' e = ev e)
    (L : Layout) : ∀ us, disjointAt rules g rs L = true →
      assign ev' rules [g] L (rehashWalk Lc vc rs L (assign ev rules [g] L us))
        = rehashWalk Lc vc rs L (assign ev rules [g] L us) := by
  induction L with
  | done => intro us _; cases us <;> simp [assign, rehashWalk]
  | num f k rest ih =>
    intro us hd
    simp only [disjointAt, Bool.and_eq_true, Bool.or_eq_true, Option.isNone_iff_eq_none] at hd
    rcases us with _ | ⟨v, tl⟩
    · simp [assign, rehashWalk]
    · simp only [assign, rehashWalk, List.singleton_append, ih tl hd.2]
      congr 1
      cases v with
      | bytes _ => cases ruleFor rules [g, f] <;> cases ruleFor rs [f] <;> rfl
      | node _ => cases ruleFor rules [g, f] <;> cases ruleFor rs [f] <;> rfl
      | num x =>
        cases h1 : ruleFor rules [g, f] with
        | none => cases ruleFor rs [f] <;> rfl
        | some e =>
          have h2 : ruleFor rs [f] = none := by
            rcases hd.1 with h | h
            · rw [h1] at h; cases h
            · exact h
          simp only [h2, H]
  | numV n k rest ih =>
    intro us hd; simp only [disjointAt] at hd
    rcases us with _ | ⟨v, tl⟩
    · simp only [assign, rehashWalk]
    · simp only [assign, rehashWalk, ih tl hd]
  | bytes n k rest ih =>
    intro us hd; simp only [disjointAt] at hd
    rcases us with _ | ⟨v, tl⟩
    · simp only [assign, rehashWalk]
    · simp only [assign, rehashWalk, ih tl hd]
  | dyn n k rest ih =>
    intro us hd; simp only [disjointAt] at hd
    rcases us with _ | ⟨v, tl⟩
    · simp only [assign, rehashWalk]
    · simp only [assign, rehashWalk, ih tl hd]
  | dynE n k e rest ih =>
    intro us hd; simp only [disjointAt] at hd
    rcases us with _ | ⟨v, tl⟩
    · simp only [assign, rehashWalk]
    · simp only [assign, rehashWalk, ih tl hd]
  | sub n rs' i rest _ ih =>
    intro us hd; simp only [disjointAt] at hd
    rcases us with _ | ⟨v, tl⟩
    · simp only [assign, rehashWalk]
    · simp only [assign, rehashWalk, ih tl hd]
  | list n c rs' i rest _ ih =>
    intro us hd; simp only [disjointAt] at hd
    rcases us with _ | ⟨v, tl⟩
    · simp only [assign, rehashWalk]
    · simp only [assign, rehashWalk, ih tl hd]

theorem rehashWalk_idem (L : Layout) : ∀ (Ls : Layout) (vs vs' : List Val) (rules : List GRule) (us : List Val),
    rulesOK rules L = true → (∀ e : RExpr, e.eval Ls vs' = e.eval Ls vs) →
    rehashWalk Ls vs' rules L (rehashWalk Ls vs rules L us) = rehashWalk Ls vs rules L us := by
  induction L with
  | done => intro Ls vs vs' rules us _ _; cases us <;> simp [rehashWalk]
  | num f k rest ih =>
    intro Ls vs vs' rules us hok H
    rcases us with _ | ⟨v, tl⟩
    · simp [rehashWalk]
    · simp only [rehashWalk, ih Ls vs vs' rules tl (by simpa [rulesOK] using hok) H]
      congr 1
      cases v <;> cases ruleFor rules [f] <;> simp [H]
  | sub g rs inner rest ihi ihr =>
    intro Ls vs vs' rules us hok H
    simp only [rulesOK, Bool.and_eq_true] at hok
    rcases us with _ | ⟨v, tl⟩
    · simp [rehashWalk]
    · simp only [rehashWalk, ihr Ls vs vs' rules tl hok.2 H]
      congr 1
      cases v with
      | num _ => rfl
      | bytes _ => rfl
      | node fs =>
        simp only [Val.mapNode_node]
        rw [assign_absorb rules g rs (RExpr.eval Ls vs) (RExpr.eval Ls vs') inner _ H inner fs hok.1.1]
        congr 1
        apply ihi inner _ _ rs _ hok.1.2
        intro e
        exact eval_congr e inner _ _ (erase_rehashWalk inner inner _ rs _)
  | list n c rs item rest ihi ihr =>
    intro Ls vs vs' rules us hok H
    simp only [rulesOK, Bool.and_eq_true] at hok
    rcases us with _ | ⟨v, tl⟩
    · simp [rehashWalk]
    · simp only [rehashWalk, ihr Ls vs vs' rules tl hok.2 H]
      congr 1
      cases v with
      | num _ => rfl
      | bytes _ => rfl
      | node items =>
        simp only [Val.mapNode_node, List.map_map]
        congr 1
        apply List.map_congr_left
        intro a _
        cases a with
        | num _ => rfl
        | bytes _ => rfl
        | node fs =>
          simp only [Function.comp, Val.mapNode_node]
          congr 1
          apply ihi item _ _ rs _ hok.1
          intro e
          exact eval_congr e item _ _ (erase_rehashWalk item item _ rs _)
  | numV n k rest ih =>
    intro Ls vs vs' rules us hok H; simp only [rulesOK] at hok
    rcases us with _ | ⟨v, tl⟩
    · simp only [rehashWalk]
    · simp only [rehashWalk, ih Ls vs vs' rules tl hok H]
  | bytes n k rest ih =>
    intro Ls vs vs' rules us hok H; simp only [rulesOK] at hok
    rcases us with _ | ⟨v, tl⟩
    · simp only [rehashWalk]
    · simp only [rehashWalk, ih Ls vs vs' rules tl hok H]
  | dyn n k rest ih =>
    intro Ls vs vs' rules us hok H; simp only [rulesOK] at hok
    rcases us with _ | ⟨v, tl⟩
    · simp only [rehashWalk]
    · simp only [rehashWalk, ih Ls vs vs' rules tl hok H]
  | dynE n k e rest ih =>
    intro Ls vs vs' rules us hok H; simp only [rulesOK] at hok
    rcases us with _ | ⟨v, tl⟩
    · simp only [rehashWalk]
    · simp only [rehashWalk, ih Ls vs vs' rules tl hok H]

/-- **Rehash is idempotent** (for structures whose parent and own assignments do not collide):
    a value that was written once is not changed by being written again. -/
theorem rehash_idem (S : SDef) (hok : rulesOK S.rules S.body = true) (vs : List Val) :
    S.rehash (S.rehash vs) = S.rehash vs := by
  unfold SDef.rehash
  apply rehashWalk_idem S.body S.body vs _ S.rules vs hok
  intro e
  exact eval_congr e S.body _ _ (erase_rehashWalk S.body S.body vs S.rules vs)

/-! ### well-typedness survives Rehash -/

theorem CExpr.eval_congr (e : CExpr) : ∀ env env' : Env, (∀ f ∈ e.vars, env.get f = env'.get f) →
    e.eval env = e.eval env' := by
  induction e with
  | lit n => intro env env' _; rfl
  | fld f => intro env env' h; simp [CExpr.eval, h f (by simp [CExpr.vars])]
  | add a b iha ihb | sub a b iha ihb | mul a b iha ihb | eq a b iha ihb | or a b iha ihb =>
    intro env env' h
    simp only [CExpr.vars, List.mem_append] at h
    simp only [CExpr.eval, iha env env' (fun f hf => h f (Or.inl hf)), ihb env env' (fun f hf => h f (Or.inr hf))]
  | shr a k iha | shl a k iha =>
    intro env env' h
    simp only [CExpr.eval, iha env env' h]
  | conv bits signed a iha =>
    intro env env' h
    simp only [CExpr.eval, iha env env' h]
  | ite c t e ihc iht ihe =>
    intro env env' h
    simp only [CExpr.vars, List.mem_append] at h
    simp only [CExpr.eval, ihc env env' (fun f hf => h f (Or.inl (Or.inl hf))),
      iht env env' (fun f hf => h f (Or.inl (Or.inr hf))), ihe env env' (fun f hf => h f (Or.inr hf))]

theorem Env.get_cons (env : Env) (n f : String) (x : Nat) :
    Env.get ((n, x) :: env) f = if f = n then x else env.get f := by
  unfold Env.get
  simp only [List.lookup]
  by_cases h : f = n
  · simp [h]
  · have : (f == n) = false := by simp [h]
    simp [this, h]

theorem wt_env_congr (L : Layout) : ∀ (env env' : Env) (us : List Val),
    (∀ f ∈ countVars L, env.get f = env'.get f) → wt L env us = wt L env' us := by
  induction L with
  | done => intro env env' us _; cases us <;> simp [wt]
  | num n k rest ih =>
    intro env env' us h
    rcases us with _ | ⟨v, tl⟩
    · simp [wt]
    · cases v <;> simp only [wt]
      rw [ih ((n, _) :: env) ((n, _) :: env') tl]
      intro f hf
      simp only [Env.get_cons]
      split
      · rfl
      · exact h f (by simpa [countVars] using hf)
  | numV n k rest ih => intro env env' us _; simp [wt]
  | bytes n k rest ih =>
    intro env env' us h
    rcases us with _ | ⟨v, tl⟩
    · simp [wt]
    · cases v <;> simp only [wt]
      rw [ih env env' tl (fun f hf => h f (by simpa [countVars] using hf))]
  | dyn n k rest ih =>
    intro env env' us h
    rcases us with _ | ⟨v, tl⟩
    · simp [wt]
    · cases v <;> simp only [wt]
      rw [ih env env' tl (fun f hf => h f (by simpa [countVars] using hf))]
  | dynE n c e rest ih =>
    intro env env' us h
    simp only [countVars, List.mem_append] at h
    rcases us with _ | ⟨v, tl⟩
    · simp [wt]
    · cases v <;> simp only [wt]
      rw [ih env env' tl (fun f hf => h f (Or.inr hf))]
      unfold countOf
      rw [CExpr.eval_congr e env env' (fun f hf => h f (Or.inl hf))]
  | sub n rs i rest _ ih =>
    intro env env' us h
    rcases us with _ | ⟨v, tl⟩
    · simp [wt]
    · cases v <;> simp only [wt]
      rw [ih env env' tl (fun f hf => h f (by simpa [countVars] using hf))]
  | list n c rs i rest _ ih =>
    intro env env' us h
    rcases us with _ | ⟨v, tl⟩
    · simp [wt]
    · cases v <;> simp only [wt]
      rw [ih env env' tl (fun f hf => h f (by simpa [countVars] using hf))]

theorem pow256_pos (k : Nat) : 0 < 256 ^ k := Nat.pow_pos (by decide)

/-- replacing the number of a field no later length function reads keeps the rest well-typed -/
theorem wt_swap_num (rest : Layout) (env : Env) (f : String) (x y : Nat) (tl : List Val)
    (hf : (countVars rest).contains f = false) :
    wt rest ((f, x) :: env) tl = wt rest ((f, y) :: env) tl := by
  apply wt_env_congr
  intro g hg
  simp only [Env.get_cons]
  split
  · next h => subst h; simp_all
  · rfl

theorem wt_assign (ev : RExpr → Nat) (rules : List GRule) (pre : List String) (L : Layout) :
    ∀ env us, assignFree rules pre L = true → wt L env us = true →
      wt L env (assign ev rules pre L us) = true := by
  induction L with
  | done => intro env us _ h; cases us <;> simp_all [assign]
  | num f k rest ih =>
    intro env us hfree h
    simp only [assignFree, Bool.and_eq_true, Bool.or_eq_true, Option.isNone_iff_eq_none,
      Bool.not_eq_true'] at hfree
    rcases us with _ | ⟨v, tl⟩
    · simp [wt] at h
    · cases v with
      | bytes _ => simp [wt] at h
      | node _ => simp [wt] at h
      | num x =>
        simp only [wt, Bool.and_eq_true, decide_eq_true_eq] at h
        simp only [assign]
        cases hr : ruleFor rules (pre ++ [f]) with
        | none => simp only [wt, Bool.and_eq_true, decide_eq_true_eq]; exact ⟨h.1, ih _ _ hfree.2 h.2⟩
        | some e =>
          simp only [wt, Bool.and_eq_true, decide_eq_true_eq]
          refine ⟨Nat.mod_lt _ (pow256_pos k), ih _ _ hfree.2 ?_⟩
          rcases hfree.1 with h0 | h0
          · rw [hr] at h0; cases h0
          · rw [← wt_swap_num rest env f x _ tl h0]; exact h.2
  | numV n k rest ih => intro env us _ h; simp [wt] at h
  | bytes n k rest ih =>
    intro env us hfree h
    rcases us with _ | ⟨v, tl⟩
    · simp [wt] at h
    · cases v <;> simp only [wt, assign, assignFree, Bool.and_eq_true] at h hfree ⊢ <;>
        first | exact ⟨h.1, ih _ _ hfree h.2⟩ | cases h
  | dyn n k rest ih =>
    intro env us hfree h
    rcases us with _ | ⟨v, tl⟩
    · simp [wt] at h
    · cases v <;> simp only [wt, assign, assignFree, Bool.and_eq_true] at h hfree ⊢ <;>
        first | exact ⟨h.1, ih _ _ hfree h.2⟩ | cases h
  | dynE n k e rest ih =>
    intro env us hfree h
    rcases us with _ | ⟨v, tl⟩
    · simp [wt] at h
    · cases v <;> simp only [wt, assign, assignFree, Bool.and_eq_true] at h hfree ⊢ <;>
        first | exact ⟨h.1, ih _ _ hfree h.2⟩ | cases h
  | sub n rs i rest _ ih =>
    intro env us hfree h
    rcases us with _ | ⟨v, tl⟩
    · simp [wt] at h
    · cases v <;> simp only [wt, assign, assignFree, Bool.and_eq_true] at h hfree ⊢ <;>
        first | exact ⟨h.1, ih _ _ hfree h.2⟩ | cases h
  | list n c rs i rest _ ih =>
    intro env us hfree h
    rcases us with _ | ⟨v, tl⟩
    · simp [wt] at h
    · cases v <;> simp only [wt, assign, assignFree, Bool.and_eq_true] at h hfree ⊢ <;>
        first | exact ⟨h.1, ih _ _ hfree h.2⟩ | cases h

theorem wt_rehashWalk (L : Layout) : ∀ (Ls : Layout) (vs : List Val) (rules : List GRule) (env : Env)
    (us : List Val), targetsFree rules L = true → wt L env us = true →
      wt L env (rehashWalk Ls vs rules L us) = true := by
  induction L with
  | done => intro Ls vs rules env us _ h; cases us <;> simp_all [rehashWalk]
  | num f k rest ih =>
    intro Ls vs rules env us hfree h
    simp only [targetsFree, Bool.and_eq_true, Bool.or_eq_true, Option.isNone_iff_eq_none,
      Bool.not_eq_true'] at hfree
    rcases us with _ | ⟨v, tl⟩
    · simp [wt] at h
    · cases v with
      | bytes _ => simp [wt] at h
      | node _ => simp [wt] at h
      | num x =>
        simp only [wt, Bool.and_eq_true, decide_eq_true_eq] at h
        simp only [rehashWalk]
        cases hr : ruleFor rules [f] with
        | none =>
          simp only [wt, Bool.and_eq_true, decide_eq_true_eq]
          exact ⟨h.1, ih _ _ _ _ _ hfree.2 h.2⟩
        | some e =>
          simp only [wt, Bool.and_eq_true, decide_eq_true_eq]
          refine ⟨Nat.mod_lt _ (pow256_pos k), ih _ _ _ _ _ hfree.2 ?_⟩
          rcases hfree.1 with h0 | h0
          · rw [hr] at h0; cases h0
          · rw [← wt_swap_num rest env f x _ tl h0]; exact h.2
  | numV n k rest ih => intro Ls vs rules env us _ h; simp [wt] at h
  | bytes n k rest ih =>
    intro Ls vs rules env us hfree h
    rcases us with _ | ⟨v, tl⟩
    · simp [wt] at h
    · cases v <;> simp only [wt, rehashWalk, targetsFree, Bool.and_eq_true] at h hfree ⊢ <;>
        first | exact ⟨h.1, ih _ _ _ _ _ hfree h.2⟩ | cases h
  | dyn n k rest ih =>
    intro Ls vs rules env us hfree h
    rcases us with _ | ⟨v, tl⟩
    · simp [wt] at h
    · cases v <;> simp only [wt, rehashWalk, targetsFree, Bool.and_eq_true] at h hfree ⊢ <;>
        first | exact ⟨h.1, ih _ _ _ _ _ hfree h.2⟩ | cases h
  | dynE n k e rest ih =>
    intro Ls vs rules env us hfree h
    rcases us with _ | ⟨v, tl⟩
    · simp [wt] at h
    · cases v <;> simp only [wt, rehashWalk, targetsFree, Bool.and_eq_true] at h hfree ⊢ <;>
        first | exact ⟨h.1, ih _ _ _ _ _ hfree h.2⟩ | cases h
  | sub g rs inner rest ihi ihr =>
    intro Ls vs rules env us hfree h
    simp only [targetsFree, Bool.and_eq_true] at hfree
    rcases us with _ | ⟨v, tl⟩
    · simp [wt] at h
    · cases v with
      | num _ => simp [wt] at h
      | bytes _ => simp [wt] at h
      | node fs =>
        simp only [wt, Bool.and_eq_true] at h
        simp only [rehashWalk, Val.mapNode_node, wt, Bool.and_eq_true]
        exact ⟨ihi _ _ _ _ _ hfree.1.2 (wt_assign _ _ _ _ _ _ hfree.1.1 h.1), ihr _ _ _ _ _ hfree.2 h.2⟩
  | list n c rs item rest ihi ihr =>
    intro Ls vs rules env us hfree h
    simp only [targetsFree, Bool.and_eq_true] at hfree
    rcases us with _ | ⟨v, tl⟩
    · simp [wt] at h
    · cases v with
      | num _ => simp [wt] at h
      | bytes _ => simp [wt] at h
      | node items =>
        simp only [wt, Bool.and_eq_true, decide_eq_true_eq] at h
        simp only [rehashWalk, Val.mapNode_node, wt, Bool.and_eq_true, decide_eq_true_eq, List.length_map]
        refine ⟨⟨h.1.1, ?_⟩, ihr _ _ _ _ _ hfree.2 h.2⟩
        rw [List.all_eq_true] at *
        intro y hy
        obtain ⟨a, ha, rfl⟩ := List.mem_map.mp hy
        have hwa := h.1.2 a ha
        cases a with
        | num _ => simp at hwa
        | bytes _ => simp at hwa
        | node fs =>
          simp only [Val.onNode_node, Val.mapNode_node] at hwa ⊢
          exact ihi _ _ _ _ _ hfree.1 hwa

/-- **Rehash preserves well-typedness** when no rehashed field feeds a length function -/
theorem wt_rehash (S : SDef) (hfree : targetsFree S.rules S.body = true) (vs : List Val)
    (h : wt S.body [] vs = true) : wt S.body [] (S.rehash vs) = true :=
  wt_rehashWalk S.body S.body vs S.rules [] vs hfree h

/-! ### shapes and stored offsets -/

theorem shaped_erase (L : Layout) : ∀ us, shaped L (erase L us) = shaped L us := by
  induction L with
  | done => intro us; cases us <;> simp [erase]
  | list n c rs i r ihi ihr =>
    intro us
    rcases us with _ | ⟨v, tl⟩
    · simp [erase]
    · cases v with
      | num _ => simp [erase, shaped]
      | bytes _ => simp [erase, shaped]
      | node items =>
        simp only [erase, Val.mapNode_node, shaped, ihr, List.all_map]
        congr 2
        funext a
        cases a <;> simp [ihi]
  | sub n rs i r ihi ihr =>
    intro us
    rcases us with _ | ⟨v, tl⟩
    · simp [erase]
    · cases v <;> simp [erase, shaped, ihi, ihr]
  | num n k r ih =>
    intro us; rcases us with _ | ⟨v, tl⟩
    · simp [erase]
    · cases v <;> simp [erase, shaped, ih]
  | numV n k r ih =>
    intro us; rcases us with _ | ⟨v, tl⟩
    · simp [erase]
    · cases v <;> simp [erase, shaped, ih]
  | bytes n k r ih =>
    intro us; rcases us with _ | ⟨v, tl⟩
    · simp [erase]
    · cases v <;> simp [erase, shaped, ih]
  | dyn n k r ih =>
    intro us; rcases us with _ | ⟨v, tl⟩
    · simp [erase]
    · cases v <;> simp [erase, shaped, ih]
  | dynE n k e r ih =>
    intro us; rcases us with _ | ⟨v, tl⟩
    · simp [erase]
    · cases v <;> simp [erase, shaped, ih]

theorem shaped_rehash (S : SDef) (vs : List Val) : shaped S.body (S.rehash vs) = shaped S.body vs := by
  rw [← shaped_erase, erase_rehash, shaped_erase]

/-- after Rehash a rehashed numeric field holds its right-hand side, truncated to the field's width -/
theorem getNum_rehashWalk (L : Layout) : ∀ (Ls : Layout) (vs : List Val) (rules : List GRule) (us : List Val)
    (f : String) (k : Nat) (e : RExpr), shaped L us = true → numWidth L f = some k →
    ruleFor rules [f] = some e →
    getNum L (rehashWalk Ls vs rules L us) f = some (e.eval Ls vs % 256 ^ k) := by
  induction L with
  | done => intro Ls vs rules us f k e _ h; simp [numWidth] at h
  | num n w r ih =>
    intro Ls vs rules us f k e hs hw hr
    rcases us with _ | ⟨v, tl⟩
    · simp [shaped] at hs
    · cases v with
      | bytes _ => simp [shaped] at hs
      | node _ => simp [shaped] at hs
      | num x =>
        simp only [shaped] at hs
        simp only [numWidth] at hw
        by_cases hn : n = f
        · subst hn
          simp only [if_true, Option.some.injEq] at hw
          subst hw
          simp [rehashWalk, getNum, hr]
        · simp only [hn, if_false] at hw
          simp only [rehashWalk, getNum, hn, if_false, List.tail_cons]
          exact ih Ls vs rules tl f k e hs hw hr
  | numV n w r ih =>
    intro Ls vs rules us f k e hs hw hr
    rcases us with _ | ⟨v, tl⟩
    · simp [shaped] at hs
    · cases v <;> simp only [shaped] at hs <;> try (cases hs)
      simp only [numWidth] at hw
      simp only [rehashWalk, getNum, List.tail_cons]
      exact ih Ls vs rules tl f k e hs hw hr
  | bytes n w r ih =>
    intro Ls vs rules us f k e hs hw hr
    rcases us with _ | ⟨v, tl⟩
    · simp [shaped] at hs
    · cases v <;> simp only [shaped] at hs <;> try (cases hs)
      simp only [numWidth] at hw
      simp only [rehashWalk, getNum, List.tail_cons]
      exact ih Ls vs rules tl f k e hs hw hr
  | dyn n w r ih =>
    intro Ls vs rules us f k e hs hw hr
    rcases us with _ | ⟨v, tl⟩
    · simp [shaped] at hs
    · cases v <;> simp only [shaped] at hs <;> try (cases hs)
      simp only [numWidth] at hw
      simp only [rehashWalk, getNum, List.tail_cons]
      exact ih Ls vs rules tl f k e hs hw hr
  | dynE n w ce r ih =>
    intro Ls vs rules us f k e hs hw hr
    rcases us with _ | ⟨v, tl⟩
    · simp [shaped] at hs
    · cases v <;> simp only [shaped] at hs <;> try (cases hs)
      simp only [numWidth] at hw
      simp only [rehashWalk, getNum, List.tail_cons]
      exact ih Ls vs rules tl f k e hs hw hr
  | sub n rs i r _ ih =>
    intro Ls vs rules us f k e hs hw hr
    rcases us with _ | ⟨v, tl⟩
    · simp [shaped] at hs
    · cases v with
      | num _ => simp [shaped] at hs
      | bytes _ => simp [shaped] at hs
      | node fs =>
        simp only [shaped, Bool.and_eq_true] at hs
        simp only [numWidth] at hw
        simp only [rehashWalk, getNum, List.tail_cons]
        exact ih Ls vs rules tl f k e hs.2 hw hr
  | list n c rs i r _ ih =>
    intro Ls vs rules us f k e hs hw hr
    rcases us with _ | ⟨v, tl⟩
    · simp [shaped] at hs
    · cases v with
      | num _ => simp [shaped] at hs
      | bytes _ => simp [shaped] at hs
      | node fs =>
        simp only [shaped, Bool.and_eq_true] at hs
        simp only [numWidth] at hw
        simp only [rehashWalk, getNum, List.tail_cons]
        exact ih Ls vs rules tl f k e hs.2 hw hr

end Fiano.Manifest
