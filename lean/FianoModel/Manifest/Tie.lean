/-
  T1 tie for the manifest codecs: facts about the data regenerated from the Go sources
  (FianoModel/Gen/Manifest.lean), re-checked by the kernel on every build.

  * `wire_<pkg>_<T>` (33 obligations): the checked-in generated codec of T — its ReadFrom /
    ReadDataFrom, WriteTo, <F>TotalSize, <F>Offset, TotalSize, Rehash, New<T> and (containers) dispatch
    loop, as pattern-matched from their statements — is exactly what T's declaration and tags
    prescribe.  In particular all of T's methods agree on one step list.
  * `structures`: which structures have a generated codec (a new or removed one is noticed).
  * `model_*`: every structure has a model layout built from its declaration, and those layouts
    satisfy the side conditions of the generic theorems.
  * `len_*`: the regenerated length functions give the lengths the Intel formats prescribe.
-/
import FianoModel.Manifest.Build
import FianoModel.Gen.Manifest

namespace Fiano.Manifest.Tie
open Fiano.Manifest Fiano.Gen.Manifest

set_option maxRecDepth 100000

/-- the regenerated sources -/
def src : Sources := { decls := decls, countExprs := countExprs, helpers := rehashHelpers }

/-- the 33 structures with a generated codec -/
theorem structures : structNames = ["bg.HashStructure",
    "bg.HashStructureFill",
    "bg.Key",
    "bg.KeySignature",
    "bg.Signature",
    "bg.StructInfo",
    "bgbootpolicy.BPMH",
    "bgbootpolicy.IBBSegment",
    "bgbootpolicy.Manifest",
    "bgbootpolicy.PM",
    "bgbootpolicy.SE",
    "bgbootpolicy.Signature",
    "bgkey.Manifest",
    "cbnt.ChipsetACModuleInformation",
    "cbnt.ChipsetACModuleInformationV5",
    "cbnt.HashList",
    "cbnt.HashStructure",
    "cbnt.Key",
    "cbnt.KeySignature",
    "cbnt.Signature",
    "cbnt.StructInfo",
    "cbnt.TPMInfoList",
    "cbntbootpolicy.BPMH",
    "cbntbootpolicy.IBBSegment",
    "cbntbootpolicy.Manifest",
    "cbntbootpolicy.PCD",
    "cbntbootpolicy.PM",
    "cbntbootpolicy.Reserved",
    "cbntbootpolicy.SE",
    "cbntbootpolicy.Signature",
    "cbntbootpolicy.TXT",
    "cbntkey.Hash",
    "cbntkey.Manifest"] := by decide

theorem codecs_and_decls_complete :
    codecs.map (·.name) = structNames ∧ decls.map (·.name) = structNames := by decide

/-! ### the wire layout of every generated structure equals the layout its declaration prescribes -/
theorem wire_bg_HashStructure : CodecMatchesDecl decls codec_bg_HashStructure decl_bg_HashStructure = true := by decide
theorem wire_bg_HashStructureFill : CodecMatchesDecl decls codec_bg_HashStructureFill decl_bg_HashStructureFill = true := by decide
theorem wire_bg_Key : CodecMatchesDecl decls codec_bg_Key decl_bg_Key = true := by decide
theorem wire_bg_KeySignature : CodecMatchesDecl decls codec_bg_KeySignature decl_bg_KeySignature = true := by decide
theorem wire_bg_Signature : CodecMatchesDecl decls codec_bg_Signature decl_bg_Signature = true := by decide
theorem wire_bg_StructInfo : CodecMatchesDecl decls codec_bg_StructInfo decl_bg_StructInfo = true := by decide
theorem wire_bgbootpolicy_BPMH : CodecMatchesDecl decls codec_bgbootpolicy_BPMH decl_bgbootpolicy_BPMH = true := by decide
theorem wire_bgbootpolicy_IBBSegment : CodecMatchesDecl decls codec_bgbootpolicy_IBBSegment decl_bgbootpolicy_IBBSegment = true := by decide
theorem wire_bgbootpolicy_Manifest : CodecMatchesDecl decls codec_bgbootpolicy_Manifest decl_bgbootpolicy_Manifest = true := by decide
theorem wire_bgbootpolicy_PM : CodecMatchesDecl decls codec_bgbootpolicy_PM decl_bgbootpolicy_PM = true := by decide
theorem wire_bgbootpolicy_SE : CodecMatchesDecl decls codec_bgbootpolicy_SE decl_bgbootpolicy_SE = true := by decide
theorem wire_bgbootpolicy_Signature : CodecMatchesDecl decls codec_bgbootpolicy_Signature decl_bgbootpolicy_Signature = true := by decide
theorem wire_bgkey_Manifest : CodecMatchesDecl decls codec_bgkey_Manifest decl_bgkey_Manifest = true := by decide
theorem wire_cbnt_ChipsetACModuleInformation : CodecMatchesDecl decls codec_cbnt_ChipsetACModuleInformation decl_cbnt_ChipsetACModuleInformation = true := by decide
theorem wire_cbnt_ChipsetACModuleInformationV5 : CodecMatchesDecl decls codec_cbnt_ChipsetACModuleInformationV5 decl_cbnt_ChipsetACModuleInformationV5 = true := by decide
theorem wire_cbnt_HashList : CodecMatchesDecl decls codec_cbnt_HashList decl_cbnt_HashList = true := by decide
theorem wire_cbnt_HashStructure : CodecMatchesDecl decls codec_cbnt_HashStructure decl_cbnt_HashStructure = true := by decide
theorem wire_cbnt_Key : CodecMatchesDecl decls codec_cbnt_Key decl_cbnt_Key = true := by decide
theorem wire_cbnt_KeySignature : CodecMatchesDecl decls codec_cbnt_KeySignature decl_cbnt_KeySignature = true := by decide
theorem wire_cbnt_Signature : CodecMatchesDecl decls codec_cbnt_Signature decl_cbnt_Signature = true := by decide
theorem wire_cbnt_StructInfo : CodecMatchesDecl decls codec_cbnt_StructInfo decl_cbnt_StructInfo = true := by decide
theorem wire_cbnt_TPMInfoList : CodecMatchesDecl decls codec_cbnt_TPMInfoList decl_cbnt_TPMInfoList = true := by decide
theorem wire_cbntbootpolicy_BPMH : CodecMatchesDecl decls codec_cbntbootpolicy_BPMH decl_cbntbootpolicy_BPMH = true := by decide
theorem wire_cbntbootpolicy_IBBSegment : CodecMatchesDecl decls codec_cbntbootpolicy_IBBSegment decl_cbntbootpolicy_IBBSegment = true := by decide
theorem wire_cbntbootpolicy_Manifest : CodecMatchesDecl decls codec_cbntbootpolicy_Manifest decl_cbntbootpolicy_Manifest = true := by decide
theorem wire_cbntbootpolicy_PCD : CodecMatchesDecl decls codec_cbntbootpolicy_PCD decl_cbntbootpolicy_PCD = true := by decide
theorem wire_cbntbootpolicy_PM : CodecMatchesDecl decls codec_cbntbootpolicy_PM decl_cbntbootpolicy_PM = true := by decide
theorem wire_cbntbootpolicy_Reserved : CodecMatchesDecl decls codec_cbntbootpolicy_Reserved decl_cbntbootpolicy_Reserved = true := by decide
theorem wire_cbntbootpolicy_SE : CodecMatchesDecl decls codec_cbntbootpolicy_SE decl_cbntbootpolicy_SE = true := by decide
theorem wire_cbntbootpolicy_Signature : CodecMatchesDecl decls codec_cbntbootpolicy_Signature decl_cbntbootpolicy_Signature = true := by decide
theorem wire_cbntbootpolicy_TXT : CodecMatchesDecl decls codec_cbntbootpolicy_TXT decl_cbntbootpolicy_TXT = true := by decide
theorem wire_cbntkey_Hash : CodecMatchesDecl decls codec_cbntkey_Hash decl_cbntkey_Hash = true := by decide
theorem wire_cbntkey_Manifest : CodecMatchesDecl decls codec_cbntkey_Manifest decl_cbntkey_Manifest = true := by decide

/-- the same, for whatever structures the sources contain now -/
theorem wire_all : ((codecs.zip decls).all fun p => CodecMatchesDecl decls p.1 p.2) = true := by decide

/-! ### the model layouts -/

/-- the two element containers -/
def containerNames : List String := ["bgbootpolicy.Manifest", "cbntbootpolicy.Manifest"]

def strictOf (q : String) : Bool :=
  match codecs.find? (·.name == q) with
  | some c => match c.container with | some g => g.strictOrder | none => true
  | none => true

/-- every non-container structure has a model structure built from its declaration … -/
theorem model_structs_exist :
    (structNames.all fun q => containerNames.contains q || (sdefOf src 8 q).isSome) = true := by decide

/-- … and both containers a model container; the order check is on (`StrictOrderCheck = true`) -/
theorem model_containers_exist :
    (containerNames.all fun q => (containerOf src 8 q (strictOf q)).isSome && strictOf q) = true := by decide

/-- side conditions of the generic Rehash theorems, on every model structure: parent and own
    assignments never hit the same field (`rulesOK`), no rehashed field feeds a length function
    (`targetsFree`) -/
theorem model_structs_ok :
    (structNames.all fun q => match sdefOf src 8 q with
      | some S => rulesOK S.rules S.body && targetsFree S.rules S.body
      | none => true) = true := by decide

/-- structural conditions of the container theorems, on both model containers: the struct-info
    (12 / 9 bytes) holds the 8-byte ID, the dispatched IDs are pairwise different, every element
    starts with the struct-info; and their elements satisfy the conditions of the Rehash theorems -/
theorem model_containers_ok :
    (containerNames.all fun q => match containerOf src 8 q (strictOf q) with
      | some C => C.ok && C.slots.all (fun s => rulesOK s.elem.rules s.elem.body && targetsFree s.elem.rules s.elem.body)
      | none => false) = true := by decide

theorem model_container_sizes :
    (containerOf src 8 "cbntbootpolicy.Manifest" true).map (·.siLen) = some 12 ∧
    (containerOf src 8 "bgbootpolicy.Manifest" true).map (·.siLen) = some 9 := by decide

/-! ### the stored signature offsets -/

/-- cbntkey.Manifest: Rehash sets the 2-byte field KeyManifestSignatureOffset to
    KeyAndSignatureOffset(), and KeyAndSignature is the last field, a sub-structure -/
def kmSigFacts (S : SDef) : Bool :=
  ruleFor S.rules ["KeyManifestSignatureOffset"] == some (.fieldOffset [] "KeyAndSignature")
  && numWidth S.body "KeyManifestSignatureOffset" == some 2
  && (match S.body.fromField "KeyAndSignature" with
      | .sub "KeyAndSignature" _ _ .done => true
      | _ => false)

theorem km_sigoffset_facts :
    (match sdefOf src 8 "cbntkey.Manifest" with | some S => kmSigFacts S | none => false) = true := by
  decide

/-- cbntbootpolicy.Manifest: slot 0 is the singleton BPMH, slot 6 the singleton PMSE; the container's
    Rehash (rehashedBPMH) sets the 2-byte field BPMH.KeySignatureOffset to
    PMSEOffset() + PMSE.KeySignatureOffset(); BPMH's own Rehash does not touch that field; and
    KeySignature is the last field of PMSE, a sub-structure -/
def bpmSigFacts (C : Container) : Bool :=
  match C.slots[0]?, C.slots[6]? with
  | some sg, some st =>
    sg.kind == .single && st.kind == .single && sg.name == "BPMH" && st.name == "PMSE"
    && slotIndex C.slots "PMSE" 0 == some 6
    && numWidth sg.elem.body "KeySignatureOffset" == some 2
    && ruleFor C.rules ["BPMH", "KeySignatureOffset"]
        == some (.add (.fieldOffset [] "PMSE") (.fieldOffset ["PMSE"] "KeySignature"))
    && (ruleFor sg.elem.rules ["KeySignatureOffset"]).isNone
    && (match st.elem.body.fromField "KeySignature" with
        | .sub "KeySignature" _ _ .done => true
        | _ => false)
  | _, _ => false

theorem bpm_sigoffset_facts :
    (match containerOf src 8 "cbntbootpolicy.Manifest" (strictOf "cbntbootpolicy.Manifest") with
      | some C => bpmSigFacts C && C.rulesOK
      | none => false) = true := by decide

theorem bg_bpm_rules_ok :
    (match containerOf src 8 "bgbootpolicy.Manifest" (strictOf "bgbootpolicy.Manifest") with
      | some C => C.rulesOK && C.rules.isEmpty
      | none => false) = true := by decide

/-! ### the hand-written length functions, as translated from their bodies -/

/-- `CountType(s.<expr>)` of structure `q`, evaluated on the fields read before the array -/
def lenOf (q e : String) (c : Nat) (env : Env) : Option Nat :=
  (countExprs.lookup (q, e)).map fun ce => countOf ce c env

/-- every `countValue` tag of a declaration has a translated length function -/
theorem len_functions_found :
    (decls.all fun d => d.fields.all fun f =>
      f.countValue == "" || (countExprs.lookup (d.name, f.countValue)).isSome) = true := by decide

/-- CBnT key data: RSA = 4-byte exponent + modulus; ECC / SM2 = x ‖ y; anything else −1 → 65535 -/
theorem len_cbnt_key :
    lenOf "cbnt.Key" "keyDataSize()" 2 [("KeySize", 1024), ("KeyAlg", 0x01)] = some 132 ∧
    lenOf "cbnt.Key" "keyDataSize()" 2 [("KeySize", 2048), ("KeyAlg", 0x01)] = some 260 ∧
    lenOf "cbnt.Key" "keyDataSize()" 2 [("KeySize", 3072), ("KeyAlg", 0x01)] = some 388 ∧
    lenOf "cbnt.Key" "keyDataSize()" 2 [("KeySize", 4096), ("KeyAlg", 0x01)] = some 516 ∧
    lenOf "cbnt.Key" "keyDataSize()" 2 [("KeySize", 256), ("KeyAlg", 0x23)] = some 64 ∧
    lenOf "cbnt.Key" "keyDataSize()" 2 [("KeySize", 384), ("KeyAlg", 0x23)] = some 96 ∧
    lenOf "cbnt.Key" "keyDataSize()" 2 [("KeySize", 256), ("KeyAlg", 0x1b)] = some 64 ∧
    lenOf "cbnt.Key" "keyDataSize()" 2 [("KeySize", 65535), ("KeyAlg", 0x01)] = some 8195 ∧
    lenOf "cbnt.Key" "keyDataSize()" 2 [("KeySize", 0), ("KeyAlg", 0x01)] = some 4 ∧
    lenOf "cbnt.Key" "keyDataSize()" 2 [("KeySize", 2048), ("KeyAlg", 0x00)] = some 65535 ∧
    lenOf "cbnt.Key" "keyDataSize()" 2 [("KeySize", 2048), ("KeyAlg", 0x18)] = some 65535 := by decide

/-- Boot Guard key data: RSA only -/
theorem len_bg_key :
    lenOf "bg.Key" "keyDataSize()" 2 [("KeySize", 2048), ("KeyAlg", 0x01)] = some 260 ∧
    lenOf "bg.Key" "keyDataSize()" 2 [("KeySize", 3072), ("KeyAlg", 0x01)] = some 388 ∧
    lenOf "bg.Key" "keyDataSize()" 2 [("KeySize", 256), ("KeyAlg", 0x23)] = some 65535 ∧
    lenOf "bg.Key" "keyDataSize()" 2 [("KeySize", 2048), ("KeyAlg", 0x00)] = some 65535 := by decide

/-- signature data: key size in bytes -/
theorem len_signature :
    lenOf "cbnt.Signature" "KeySize.InBytes()" 2 [("HashAlg", 11), ("KeySize", 2048)] = some 256 ∧
    lenOf "cbnt.Signature" "KeySize.InBytes()" 2 [("HashAlg", 12), ("KeySize", 3072)] = some 384 ∧
    lenOf "cbnt.Signature" "KeySize.InBytes()" 2 [("KeySize", 2047)] = some 255 ∧
    lenOf "cbnt.Signature" "KeySize.InBytes()" 2 [("KeySize", 65535)] = some 8191 ∧
    lenOf "bg.Signature" "KeySize.InBytes()" 2 [("KeySize", 2048)] = some 256 := by decide

/-- Boot Guard "fill" hash: 2-byte size field + digest; null / unknown algorithms are filled like
    SHA-256; an algorithm fiano has no size for leaves the size field only -/
theorem len_bg_hash_fill :
    lenOf "bg.HashStructureFill" "hashSize()" 2 [("HashAlg", 0x0b)] = some 34 ∧
    lenOf "bg.HashStructureFill" "hashSize()" 2 [("HashAlg", 0x04)] = some 22 ∧
    lenOf "bg.HashStructureFill" "hashSize()" 2 [("HashAlg", 0x00)] = some 34 ∧
    lenOf "bg.HashStructureFill" "hashSize()" 2 [("HashAlg", 0x10)] = some 34 ∧
    lenOf "bg.HashStructureFill" "hashSize()" 2 [("HashAlg", 0x0c)] = some 2 := by decide

end Fiano.Manifest.Tie
