/-
  Manifest codecs (pkg/intel/metadata/{cbnt,bg}/**): the small, hand-written datatypes in which the
  translator (translator/codegen.go) emits what it pattern-matches from the Go sources.  The
  regenerated file FianoModel/Gen/Manifest.lean imports this file and contains only *data* of these
  types.  Core Lean only.

  Two independent descriptions are regenerated for each of the 33 generated structures:
   * `GCodec`  what the *statements* of the checked-in generated methods do
               (ReadFrom/ReadDataFrom, WriteTo, <F>TotalSize, <F>Offset, TotalSize, Rehash, New<T>, and,
               for the two element containers, fieldIndexByStructID and the dispatch loop);
   * `GDecl`   what the hand-written struct declaration and its field tags say.
  FianoModel/Manifest/Tie.lean proves, per structure, that the former equals what the latter
  prescribes (`layoutOfDecl`, a Lean transcription of the rules of common/manifestcodegen).
-/
namespace Fiano.Manifest

/-- Integer expressions of the hand-written length functions referenced by `countValue` tags
    (`keyDataSize()`, `KeySize.InBytes()`, `hashSize()`), translated from their Go bodies.
    Booleans are 0 / 1. -/
inductive CExpr
  | lit (n : Int)
  | fld (name : String)                          -- numeric field of the receiver
  | add (a b : CExpr)
  | sub (a b : CExpr)
  | mul (a b : CExpr)
  | shr (a : CExpr) (k : Nat)
  | shl (a : CExpr) (k : Nat)
  | conv (bits : Nat) (signed : Bool) (a : CExpr) -- Go conversion to a fixed-width integer type
  | eq (a b : CExpr)
  | or (a b : CExpr)
  | ite (c t e : CExpr)
  deriving DecidableEq, Repr, Inhabited

/-- One observation about one field, pattern-matched from the statements of one generated method.
    Not every method reveals everything (WriteTo cannot tell a sub-structure from an element, the
    size methods cannot tell a number from a static array), hence the separate *views* in Tie. -/
inductive Obs
  | num (f : String) (k : Nat)                      -- binary.Read/Write(&s.F), k bytes
  | arr (f : String) (k : Nat)                      -- binary.Read/Write(s.F[:]), k bytes
  | const (f : String) (k : Nat)                    -- `return k` in <F>TotalSize
  | dynP (f : String) (c : Nat)                     -- c-byte length prefix, then the bytes
  | dynE (f : String) (c : Nat) (expr : String)     -- read: length = T(s.<expr>), no prefix
  | dynN (f : String)                               -- write / size: the bytes, no prefix
  | list (f : String) (c : Nat) (item : String)     -- c-byte count, then the items; item type if visible
  | sub (f : String) (ptr : Bool)                   -- s.F.ReadFrom / WriteTo / TotalSize (guarded by nil check if ptr)
  | si (f : String)                                 -- the StructInfo placeholder of ReadDataFrom
  | elems (f : String)                              -- items without a count (element list)
  deriving DecidableEq, Repr, Inhabited

/-- Right-hand sides of Rehash assignments. -/
inductive RExpr
  | const (n : Nat)
  | totalSize                                        -- s.TotalSize()
  | fieldOffset (inside : List String) (f : String)  -- s.<inside>.<f>Offset()
  | add (a b : RExpr)
  | call (fn : String)                               -- s.<fn>() : a hand-written function returning the new field value
  deriving DecidableEq, Repr, Inhabited

/-- `s.<target> = uintK(<e>)` ; `width` = byte width of the assigned integer (0 for a struct-valued `call`) -/
structure GRule where
  target : List String
  width : Nat
  e : RExpr
  deriving DecidableEq, Repr, Inhabited

inductive SlotKind | single | ptr | list
  deriving DecidableEq, Repr, Inhabited

/-- one `case` of an element container's dispatch -/
structure GSlot where
  idx : Nat
  id : String          -- the 8-byte structure ID
  field : String
  typ : String
  kind : SlotKind
  deriving DecidableEq, Repr, Inhabited

structure GContainer where
  siType : String        -- type of the struct-info read at the head of every element
  required : List Nat    -- indices initially marked missing
  slots : List GSlot
  strictOrder : Bool     -- value of the package variable StrictOrderCheck
  deriving DecidableEq, Repr, Inhabited

structure GCodec where
  name : String                          -- qualified: "cbnt.Key"
  siType : String                        -- result type of GetStructInfo ("" for a non-element)
  read : List Obs
  write : List Obs
  sizes : List Obs
  offsets : List (String × String)       -- (field, predecessor) ; "" for the first
  total : List String                    -- fields summed by TotalSize
  rehash : List GRule
  news : List (String × String)          -- New<T>(): recursively initialised children (field, type)
  container : Option GContainer
  deriving DecidableEq, Repr, Inhabited

/-- resolved Go type of a declared field -/
inductive DType
  | basic (size : Nat)                    -- (named) integer type
  | array (n : Nat) (elemSize : Nat)      -- [n]T with T an integer type
  | bytes                                 -- []byte
  | struct (q : String)                   -- named struct type, qualified
  | ptr (q : String)                      -- pointer to a named struct type
  | sliceStruct (q : String)
  | sliceBasic (q : String) (size : Nat)  -- slice of a named integer type
  | other (txt : String)
  deriving DecidableEq, Repr, Inhabited

structure DField where
  name : String
  ty : DType
  countType : Nat := 0        -- width of the `countType` tag's type; 0 = no tag
  countValue : String := ""
  rehashValue : Option RExpr := none   -- tag rehashValue:"…", parsed as a Go expression on the receiver
  id : String := ""                    -- tags of an embedded StructInfo
  var0 : Option RExpr := none
  var1 : Option RExpr := none
  deriving DecidableEq, Repr, Inhabited

structure GDecl where
  name : String
  fields : List DField
  deriving DecidableEq, Repr, Inhabited

end Fiano.Manifest
