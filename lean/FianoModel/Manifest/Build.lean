/-
  From declarations to layouts.

  * `layoutOfDecl` is a Lean transcription of what common/manifestcodegen derives from a struct
    declaration and its tags (pkg/analyze/field.go `ManifestFieldType`, `CountType`, `CountValue`;
    struct.go `ElementStructInfoField`, `IsElementsContainer`) : the step list the templates are
    instantiated with.
  * the `…View` functions say what each generated method family lets one observe of such a step list
    (cmd/manifestcodegen/template_methods.tpl.go); `CodecMatchesDecl` compares them with what the
    translator pattern-matched from the checked-in generated code.
  * `sdefOf` / `containerOf` turn the step list into the model's `Layout` / `Container`; this is
    the only source of the concrete layouts used by the driver and the theorems, so the model's
    layouts are always those the *current* declarations prescribe.
  Core Lean only (linked into the driver).
-/
import FianoModel.Manifest.Model

namespace Fiano.Manifest

/-- one field as the generator classifies it -/
inductive GStep
  | endValue (f : String) (k : Nat)
  | arrayStatic (f : String) (k : Nat)
  | arrayDynamic (f : String) (c : Nat)
  | arrayDynamicExpr (f : String) (c : Nat) (expr : String)
  | list (f : String) (c : Nat) (item : String) (basicSize : Nat)   -- basicSize ≠ 0: items of a named integer type
  | subStruct (f : String) (typ : String)
  | structInfo (f : String) (typ : String)
  | element (f : String) (typ : String) (ptr : Bool)
  | elementList (f : String) (typ : String)
  | unsupported (f : String)
  deriving DecidableEq, Repr, Inhabited

def GStep.field : GStep → String
  | .endValue f _ | .arrayStatic f _ | .arrayDynamic f _ | .arrayDynamicExpr f _ _ | .list f _ _ _
  | .subStruct f _ | .structInfo f _ | .element f _ _ | .elementList f _ | .unsupported f => f

def findDecl (decls : List GDecl) (q : String) : Option GDecl := decls.find? (·.name == q)

/-- analyze.Field.isElementStructInfo: the item type is *named* StructInfo (qualified names always
    carry their package: "cbnt.StructInfo") -/
def isStructInfoType (q : String) : Bool := ".StructInfo".toList.isSuffixOf q.toList

/-- analyze.Struct.ElementStructInfoField: the first field whose type is named StructInfo -/
def structInfoField (d : GDecl) : Option DField :=
  d.fields.find? fun f => match f.ty with | .struct q => isStructInfoType q | _ => false

/-- analyze.Field.IsElement -/
def isElementType (decls : List GDecl) (q : String) : Bool :=
  match findDecl decls q with
  | some d => (structInfoField d).isSome
  | none => false

def countTypeOf (f : DField) : Nat := if f.countType = 0 then 2 else f.countType   -- default uint16

/-- analyze.Field.ManifestFieldType -/
def stepOfField (decls : List GDecl) (f : DField) : GStep :=
  match f.ty with
  | .basic k => .endValue f.name k
  | .array n 1 => .arrayStatic f.name n
  | .array _ _ => .unsupported f.name                        -- "static array, but not of bytes"
  | .bytes => if f.countValue = "" then .arrayDynamic f.name (countTypeOf f)
              else .arrayDynamicExpr f.name (countTypeOf f) f.countValue
  | .struct q => if isStructInfoType q then .structInfo f.name q
                 else if isElementType decls q then .element f.name q false
                 else .subStruct f.name q
  | .ptr q => if isElementType decls q then .element f.name q true else .unsupported f.name
  | .sliceStruct q => if isElementType decls q then .elementList f.name q
                      else .list f.name (countTypeOf f) q 0
  | .sliceBasic q k => .list f.name (countTypeOf f) q k
  | .other _ => .unsupported f.name

/-- the step list the templates are instantiated with -/
def layoutOfDecl (decls : List GDecl) (d : GDecl) : List GStep := d.fields.map (stepOfField decls)

def isContainerSteps (steps : List GStep) : Bool :=
  steps.any fun s => match s with | .element .. | .elementList .. => true | _ => false

/-! ### what each generated method shows of a step list -/

def readObs1 : GStep → Obs
  | .endValue f k => .num f k
  | .arrayStatic f k => .arr f k
  | .arrayDynamic f c => .dynP f c
  | .arrayDynamicExpr f c e => .dynE f c e
  | .list f c item _ => .list f c item
  | .subStruct f _ => .sub f false
  | .structInfo f _ => .si f
  | .element f _ _ => .sub f false
  | .elementList f _ => .elems f
  | .unsupported f => .si f

/-- ReadFrom (ReadFrom + ReadDataFrom for an element: the struct-info is read first, and
    ReadDataFrom keeps an empty block at its declared position; a container has the dispatch loop
    instead) -/
def readView (steps : List GStep) : List Obs :=
  if isContainerSteps steps then [] else
  match steps.find? (fun s => match s with | .structInfo .. => true | _ => false) with
  | some si => .sub si.field false :: steps.map readObs1
  | none => steps.map readObs1

def writeObs1 : GStep → Obs
  | .endValue f k => .num f k
  | .arrayStatic f k => .arr f k
  | .arrayDynamic f c => .dynP f c
  | .arrayDynamicExpr f _ _ => .dynN f
  | .list f c _ _ => .list f c ""
  | .subStruct f _ => .sub f false
  | .structInfo f _ => .sub f false
  | .element f _ ptr => .sub f ptr
  | .elementList f _ => .elems f
  | .unsupported f => .si f

def writeView (steps : List GStep) : List Obs := steps.map writeObs1

def sizeObs1 : GStep → Obs
  | .endValue f k => .const f k
  | .arrayStatic f k => .const f k
  | .arrayDynamic f c => .dynP f c
  | .arrayDynamicExpr f _ _ => .dynN f
  | .list f c _ _ => .list f c ""
  | .subStruct f _ | .structInfo f _ | .element f _ _ => .sub f false
  | .elementList f _ => .elems f
  | .unsupported f => .si f

def sizeView (steps : List GStep) : List Obs := steps.map sizeObs1

def offsetsOf : String → List String → List (String × String)
  | _, [] => []
  | prev, f :: fs => (f, prev) :: offsetsOf f fs

def offsetView (steps : List GStep) : List (String × String) := offsetsOf "" (steps.map GStep.field)

def newsView (steps : List GStep) : List (String × String) :=
  steps.filterMap fun s => match s with
    | .subStruct f t => some (f, t)
    | .element f t false => some (f, t)
    | _ => none

/-- width of field `f` of structure `q` if it is an integer -/
def fieldWidth (decls : List GDecl) (q f : String) : Nat :=
  match findDecl decls q with
  | some d => match d.fields.find? (·.name == f) with
    | some fd => match fd.ty with | .basic k => k | _ => 0
    | none => 0
  | none => 0

/-- the assignments the Rehash template produces from the tags: `var0` / `var1` of the embedded
    StructInfo, then one per `rehashValue` -/
def rulesOfDecl (decls : List GDecl) (d : GDecl) : List GRule :=
  let si := match structInfoField d with
    | some f =>
      let q := match f.ty with | .struct q => q | _ => ""
      (match f.var0 with | some e => [{ target := [f.name, "Variable0"], width := fieldWidth decls q "Variable0", e := e : GRule }] | none => [])
      ++ (match f.var1 with | some e => [{ target := [f.name, "ElementSize"], width := fieldWidth decls q "ElementSize", e := e : GRule }] | none => [])
    | none => []
  si ++ d.fields.filterMap fun f => match f.rehashValue with
    | some e => some { target := [f.name], width := (match f.ty with | .basic k => k | _ => 0), e := e }
    | none => none

def slotOfStep (decls : List GDecl) (i : Nat) : GStep → Option GSlot
  | .element f t ptr =>
    some { idx := i, id := (match findDecl decls t with
                            | some d => (match structInfoField d with | some s => s.id | none => "")
                            | none => ""),
           field := f, typ := t, kind := if ptr then .ptr else .single }
  | .elementList f t =>
    some { idx := i, id := (match findDecl decls t with
                            | some d => (match structInfoField d with | some s => s.id | none => "")
                            | none => ""),
           field := f, typ := t, kind := .list }
  | _ => none

def slotsOf (decls : List GDecl) : Nat → List GStep → List GSlot
  | _, [] => []
  | i, s :: ss => (match slotOfStep decls i s with | some x => [x] | none => []) ++ slotsOf decls (i + 1) ss

def siTypeOfElem (decls : List GDecl) (t : String) : String :=
  match findDecl decls t with
  | some d => match structInfoField d with
    | some f => (match f.ty with | .struct q => q | _ => "")
    | none => ""
  | none => ""

/-- what the container template is instantiated with; `strict` is a package variable, not part of
    the declaration, and is compared separately -/
def containerView (decls : List GDecl) (steps : List GStep) (strict : Bool) : Option GContainer :=
  if isContainerSteps steps then
    let slots := slotsOf decls 0 steps
    some { siType := (match slots with | s :: _ => siTypeOfElem decls s.typ | [] => ""),
           required := (slots.filter (·.kind == .single)).map (·.idx),
           slots := slots, strictOrder := strict }
  else none

def siTypeView (steps : List GStep) : String :=
  if isContainerSteps steps then "" else
  match steps.find? (fun s => match s with | .structInfo .. => true | _ => false) with
  | some (.structInfo _ t) => t
  | _ => ""

/-- "the checked-in generated codec of this structure is what its declaration and tags prescribe":
    every method family shows exactly the view of the declared step list. -/
def CodecMatchesDecl (decls : List GDecl) (c : GCodec) (d : GDecl) : Bool :=
  let steps := layoutOfDecl decls d
  c.name == d.name
  && !(steps.any fun s => match s with | .unsupported _ => true | _ => false)
  && c.siType == siTypeView steps
  && c.read == readView steps
  && c.write == writeView steps
  && c.sizes == sizeView steps
  && c.offsets == offsetView steps
  && c.total == steps.map GStep.field
  && c.rehash == rulesOfDecl decls d
  && c.news == newsView steps
  && c.container == containerView decls steps (match c.container with | some g => g.strictOrder | none => false)
  -- an element's struct-info is read first but written at its declared position: it must be first
  && (match steps with
      | [] => true
      | _ :: rest => !(rest.any fun s => match s with | .structInfo .. => true | _ => false))

/-! ### from step lists to model layouts -/

structure Sources where
  decls : List GDecl
  countExprs : List ((String × String) × CExpr)
  helpers : List ((String × String) × List GRule)

/-- the structure's rules with the hand-written helper functions expanded -/
def expandRules (src : Sources) (q : String) (rs : List GRule) : Option (List GRule) :=
  rs.foldr (fun r acc => match acc with
    | none => none
    | some out => match r.e with
      | .call fn => match src.helpers.lookup (q, fn) with
        | some hs => if hs.all (fun h => h.target.head? == r.target.head?) then some (hs ++ out) else none
        | none => none
      | _ => some (r :: out)) (some [])

/-- the fields of a structure of type `q`; `sdef` gives the structures of the field types -/
def bodyOf (src : Sources) (sdef : String → Option SDef) (q : String) : List GStep → Option Layout
  | [] => some .done
  | s :: ss =>
    match bodyOf src sdef q ss with
    | none => none
    | some rest =>
      match s with
      | .endValue f k => some (.num f k rest)
      | .arrayStatic f k => some (.bytes f k rest)
      | .arrayDynamic f c => some (.dyn f c rest)
      | .arrayDynamicExpr f c e =>
        match src.countExprs.lookup (q, e) with
        | some ce => some (.dynE f c ce rest)
        | none => none
      | .list f c item 0 =>
        match sdef item with
        | some S => some (.list f c S.rules S.body rest)
        | none => none
      | .list f c _ (k + 1) => some (.list f c [] (.numV "" (k + 1) .done) rest)
      | .subStruct f t | .structInfo f t =>
        match sdef t with
        | some S => some (.sub f S.rules S.body rest)
        | none => none
      | .element .. | .elementList .. | .unsupported _ => none

/-- the model structure of type `q` (`fuel` bounds the nesting depth of declarations) -/
def sdefOf (src : Sources) : Nat → String → Option SDef
  | 0, _ => none
  | fuel + 1, q =>
    match findDecl src.decls q with
    | none => none
    | some d =>
      match expandRules src q (rulesOfDecl src.decls d),
            bodyOf src (sdefOf src fuel) q (layoutOfDecl src.decls d) with
      | some rules, some body => some { rules := rules, body := body }
      | _, _ => none

/-- structure IDs are ASCII -/
def idBytes (s : String) : Bytes := s.toList.map fun c => UInt8.ofNat c.toNat

/-- the model container of type `q` -/
def containerOf (src : Sources) (fuel : Nat) (q : String) (strict : Bool) : Option Container :=
  match findDecl src.decls q with
  | none => none
  | some d =>
    let steps := layoutOfDecl src.decls d
    match containerView src.decls steps strict, expandRules src q (rulesOfDecl src.decls d) with
    | some g, some rules =>
      let slots := g.slots.mapM fun s => match sdefOf src fuel s.typ with
        | some S => some ({ id := idBytes s.id, name := s.field, kind := s.kind, elem := S } : Slot)
        | none => none
      match slots, (sdefOf src fuel g.siType).bind (·.body.fixedSize) with
      | some sl, some n => some { siLen := n, slots := sl, rules := rules, strict := strict }
      | _, _ => none
    | _, _ => none

end Fiano.Manifest
