/-
  The element containers (Boot Guard and CBnT boot policy manifests): the dispatch loop of ReadFrom
  reads back what WriteTo emitted — elements in declaration order, singletons once — for any
  numbers of list elements and any optional elements, followed by fewer than a struct-info of bytes.
-/
import FianoModel.Manifest.RehashLemmas

namespace Fiano.Manifest
open Fiano

/-! ### elements -/

theorem fixedSize_totalSize (L : Layout) : ∀ (n : Nat) (env : Env) (vs : List Val),
    L.fixedSize = some n → wt L env vs = true → totalSize L vs = n := by
  induction L with
  | done => intro n env vs h hw; cases vs <;> simp_all [Layout.fixedSize, wt, totalSize]
  | num f k r ih =>
    intro n env vs h hw
    simp only [Layout.fixedSize, Option.map_eq_some_iff] at h
    obtain ⟨m, hm, rfl⟩ := h
    rcases vs with _ | ⟨v, tl⟩
    · simp [wt] at hw
    · cases v with
      | bytes _ => simp [wt] at hw
      | node _ => simp [wt] at hw
      | num x =>
        simp only [wt, Bool.and_eq_true] at hw
        simp only [totalSize]
        rw [ih m _ tl hm hw.2]
  | numV f k r ih => intro n env vs _ hw; simp [wt] at hw
  | bytes f k r ih =>
    intro n env vs h hw
    simp only [Layout.fixedSize, Option.map_eq_some_iff] at h
    obtain ⟨m, hm, rfl⟩ := h
    rcases vs with _ | ⟨v, tl⟩
    · simp [wt] at hw
    · cases v with
      | num _ => simp [wt] at hw
      | node _ => simp [wt] at hw
      | bytes b =>
        simp only [wt, Bool.and_eq_true, decide_eq_true_eq] at hw
        simp only [totalSize]
        rw [ih m _ tl hm hw.2, hw.1]
  | dyn f c r ih => intro n env vs h _; simp [Layout.fixedSize] at h
  | dynE f c e r ih => intro n env vs h _; simp [Layout.fixedSize] at h
  | list f c rs i r _ ih => intro n env vs h _; simp [Layout.fixedSize] at h
  | sub f rs i r ihi ihr =>
    intro n env vs h hw
    simp only [Layout.fixedSize] at h
    cases hi : i.fixedSize with
    | none => simp [hi] at h
    | some a =>
      cases hr : r.fixedSize with
      | none => simp [hi, hr] at h
      | some b =>
        simp only [hi, hr, Option.some.injEq] at h
        subst h
        rcases vs with _ | ⟨v, tl⟩
        · simp [wt] at hw
        · cases v with
          | num _ => simp [wt] at hw
          | bytes _ => simp [wt] at hw
          | node fs =>
            simp only [wt, Bool.and_eq_true] at hw
            simp only [totalSize]
            rw [ihi a _ fs hi hw.1, ihr b _ tl hr hw.2]

/-- a well-typed element is at least as long as its struct-info -/
theorem elem_len (n : Nat) (s : Slot) (hh : headOK n s = true) (fs : List Val)
    (hw : wt s.elem.body [] fs = true) : n ≤ (encodeRaw s.elem.body fs).length := by
  unfold headOK at hh
  cases hb : s.elem.body with
  | sub g rs si rest =>
    rw [hb] at hh hw
    simp only [beq_iff_eq] at hh
    rcases fs with _ | ⟨v, tl⟩
    · simp [wt] at hw
    · cases v with
      | num _ => simp [wt] at hw
      | bytes _ => simp [wt] at hw
      | node f0 =>
        simp only [wt, Bool.and_eq_true] at hw
        simp only [encodeRaw, List.length_append, encodeRaw_length]
        rw [fixedSize_totalSize si n [] f0 hh hw.1]
        omega
  | _ => rw [hb] at hh; simp at hh

/-! ### dispatch -/

theorem idsDistinct_not_mem (x : Bytes) (xs : List Bytes) (h : idsDistinct (x :: xs) = true) :
    x ∉ xs ∧ idsDistinct xs = true := by
  simp only [idsDistinct, Bool.and_eq_true, Bool.not_eq_true', List.contains_eq_mem,
    decide_eq_false_iff_not] at h
  exact h

theorem findSlot_of_distinct : ∀ (slots : List Slot) (i i0 : Nat) (s : Slot),
    idsDistinct (slots.map (·.id)) = true → slots[i]? = some s →
    findSlot slots s.id i0 = some (i0 + i, s) := by
  intro slots
  induction slots with
  | nil => intro i i0 s _ h; simp at h
  | cons s0 rest ih =>
    intro i i0 s hd hs
    simp only [List.map_cons] at hd
    obtain ⟨hnot, hd'⟩ := idsDistinct_not_mem _ _ hd
    cases i with
    | zero =>
      simp only [List.getElem?_cons_zero, Option.some.injEq] at hs
      subst hs
      simp [findSlot]
    | succ i' =>
      simp only [List.getElem?_cons_succ] at hs
      have hne : s0.id ≠ s.id := by
        intro he
        apply hnot
        rw [he]
        exact List.mem_map.mpr ⟨s, List.mem_of_getElem? hs, rfl⟩
      simp only [findSlot, hne, if_false]
      rw [ih i' (i0 + 1) s hd' hs]
      congr 2
      omega

theorem set_same {α} : ∀ (l : List α) (i : Nat) (x : α), l[i]? = some x → l.set i x = l := by
  intro l
  induction l with
  | nil => intro i x h; simp at h
  | cons a t ih =>
    intro i x h
    cases i with
    | zero => simp at h; simp [h]
    | succ j => simp at h; simp [ih j x h]

/-- one iteration of the loop on a well-typed element of slot `i` -/
theorem loop_step (C : Container) (hC : C.ok = true) (i : Nat) (s : Slot) (hs : C.slots[i]? = some s)
    (fs : List Val) (hel : elemOK s fs = true) (fuel prev : Nat) (seen : List Nat) (st : List Val)
    (tail : Bytes) (old : Val) (hprev : prev ≤ i + 1) (hdup : s.kind = .list ∨ prev ≤ i)
    (hst : st[i]? = some old) :
    containerLoop C (fuel + 1) prev seen st (encodeRaw s.elem.body fs ++ tail)
      = containerLoop C fuel (i + 1) (i :: seen) (st.set i (putElem s fs old)) tail := by
  simp only [Container.ok, Bool.and_eq_true, decide_eq_true_eq, List.all_eq_true] at hC
  obtain ⟨⟨h8, hdist⟩, hhead⟩ := hC
  simp only [elemOK, Bool.and_eq_true, beq_iff_eq] at hel
  obtain ⟨hwt, hid⟩ := hel
  have hmem : s ∈ C.slots := List.mem_of_getElem? hs
  have hlen := elem_len C.siLen s (hhead s hmem) fs hwt
  have hnlt : ¬ (encodeRaw s.elem.body fs ++ tail).length < C.siLen := by
    simp only [List.length_append]; omega
  have htake : (encodeRaw s.elem.body fs ++ tail).take 8 = s.id := by
    rw [List.take_append_of_le_length (by omega)]; exact hid
  have hfind := findSlot_of_distinct C.slots i 0 s hdist hs
  simp only [Nat.zero_add] at hfind
  have hstrict : (C.strict && decide (i + 1 < prev)) = false := by
    have : ¬ (i + 1 < prev) := by omega
    simp [this]
  have hdupc : (decide (s.kind ≠ SlotKind.list) && decide (i + 1 = prev)) = false := by
    rcases hdup with h | h
    · simp [h]
    · have : ¬ (i + 1 = prev) := by omega
      simp [this]
  have hdec : s.elem.decode (encodeRaw s.elem.body fs ++ tail) = .ok (fs, tail) :=
    decode_encodeRaw s.elem.body [] fs tail hwt
  rw [containerLoop]
  rw [if_neg hnlt, htake, hfind]
  simp only [hstrict, hdupc, hdec, hst, Bool.false_eq_true, if_false]

theorem initState_length (slots : List Slot) : (initState slots).length = slots.length := by
  induction slots <;> simp_all [initState]

/-- the items of a list slot, one iteration each -/
theorem loop_items (C : Container) (hC : C.ok = true) (i : Nat) (s : Slot) (hs : C.slots[i]? = some s)
    (hk : s.kind = .list) : ∀ (items acc : List Val) (fuel prev : Nat) (seen : List Nat) (st : List Val)
    (tail : Bytes), items.all (Val.onNode (elemOK s) false) = true → prev ≤ i + 1 →
    st[i]? = some (.node acc) →
    (items.flatMap (Val.onNode (encodeRaw s.elem.body) []) ++ tail).length + 1 ≤ fuel →
    ∃ fuel' prev' seen',
      containerLoop C fuel prev seen st (items.flatMap (Val.onNode (encodeRaw s.elem.body) []) ++ tail)
        = containerLoop C fuel' prev' seen' (st.set i (.node (acc ++ items))) tail
      ∧ tail.length + 1 ≤ fuel' ∧ prev' ≤ i + 1 ∧ (∀ x ∈ seen, x ∈ seen') := by
  intro items
  induction items with
  | nil =>
    intro acc fuel prev seen st tail _ hp hst hf
    refine ⟨fuel, prev, seen, ?_, by simpa using hf, hp, fun x hx => hx⟩
    simp only [List.flatMap_nil, List.nil_append, List.append_nil]
    rw [set_same st i _ hst]
  | cons it rest ih =>
    intro acc fuel prev seen st tail hall hp hst hf
    simp only [List.all_cons, Bool.and_eq_true] at hall
    cases it with
    | num _ => simp at hall
    | bytes _ => simp at hall
    | node fs =>
      simp only [Val.onNode_node] at hall
      simp only [List.flatMap_cons, Val.onNode_node, List.append_assoc] at hf ⊢
      obtain ⟨f, rfl⟩ : ∃ f, fuel = f + 1 := ⟨fuel - 1, by omega⟩
      rw [loop_step C hC i s hs fs hall.1 f prev seen st _ (.node acc) hp (Or.inl hk) hst]
      have hC' := hC
      simp only [Container.ok, Bool.and_eq_true, decide_eq_true_eq, List.all_eq_true] at hC'
      have hel := hall.1
      simp only [elemOK, Bool.and_eq_true] at hel
      have hlen := elem_len C.siLen s (hC'.2 s (List.mem_of_getElem? hs)) fs hel.1
      have hi : i < st.length := by
        rcases Nat.lt_or_ge i st.length with h | h
        · exact h
        · rw [List.getElem?_eq_none h] at hst; cases hst
      obtain ⟨fuel', prev', seen', h1, h2, h3, h4⟩ :=
        ih (acc ++ [.node fs]) f (i + 1) (i :: seen) (st.set i (putElem s fs (.node acc))) tail hall.2
          (Nat.le_refl _) (by simp [putElem, hk, hi])
          (by simp only [List.length_append] at hf ⊢; omega)
      refine ⟨fuel', prev', seen', ?_, h2, h3, fun x hx => h4 x (List.mem_cons_of_mem _ hx)⟩
      rw [h1]
      simp [List.set_set, List.append_assoc]

/-! ### the whole container -/

def slotsBytes (slots : List Slot) (vals : List Val) : Bytes := (zipSlots slotRaw slots vals).flatten

theorem slotsBytes_cons (s : Slot) (ss : List Slot) (v : Val) (vv : List Val) :
    slotsBytes (s :: ss) (v :: vv) = slotRaw s v ++ slotsBytes ss vv := by
  simp [slotsBytes, zipSlots]

theorem set_append_mid {α} (pv : List α) (x y : α) (t : List α) :
    (pv ++ x :: t).set pv.length y = pv ++ y :: t := by
  induction pv with
  | nil => simp
  | cons a p ih => simp [ih]

theorem getElem?_append_mid {α} (pv : List α) (x : α) (t : List α) :
    (pv ++ x :: t)[pv.length]? = some x := by
  induction pv with
  | nil => simp
  | cons a p ih => simp [ih]

/-- the loop on the encodings of the slots `suf` (the slots `pre` already done) -/
theorem loop_suffix (C : Container) (hC : C.ok = true) : ∀ (suf : List Slot) (vv : List Val)
    (pre : List Slot) (pv : List Val) (fuel prev : Nat) (seen : List Nat) (tail : Bytes),
    C.slots = pre ++ suf → pv.length = pre.length → vv.length = suf.length →
    (zipSlots slotWt suf vv).all id = true → prev ≤ pre.length → tail.length < C.siLen →
    (slotsBytes suf vv ++ tail).length + 1 ≤ fuel →
    ∃ seen', containerLoop C fuel prev seen (pv ++ initState suf) (slotsBytes suf vv ++ tail)
        = .ok (pv ++ vv, seen', tail)
      ∧ (∀ x ∈ seen, x ∈ seen')
      ∧ (∀ j s, suf[j]? = some s → s.kind = .single → (pre.length + j) ∈ seen') := by
  intro suf
  induction suf with
  | nil =>
    intro vv pre pv fuel prev seen tail _ _ hvl _ _ htail hf
    have : vv = [] := by cases vv <;> simp_all
    subst this
    obtain ⟨f, rfl⟩ : ∃ f, fuel = f + 1 := ⟨fuel - 1, by omega⟩
    refine ⟨seen, ?_, fun x hx => hx, fun j s h => by simp at h⟩
    simp only [slotsBytes, zipSlots, List.flatten_nil, List.nil_append, initState, List.append_nil]
    rw [containerLoop, if_pos htail]
  | cons s ss ih =>
    intro vv pre pv fuel prev seen tail hsl hpl hvl hwt hprev htail hf
    rcases vv with _ | ⟨v, vt⟩
    · simp at hvl
    simp only [zipSlots, List.all_cons, id, Bool.and_eq_true] at hwt
    simp only [List.length_cons, Nat.add_right_cancel_iff] at hvl
    have hsi : C.slots[pre.length]? = some s := by rw [hsl]; exact getElem?_append_mid pre s ss
    have hsl' : C.slots = (pre ++ [s]) ++ ss := by rw [hsl]; simp
    have hst0 : (pv ++ initState (s :: ss))[pre.length]? = some (.node []) := by
      rw [← hpl]; exact getElem?_append_mid pv _ _
    have hC' := hC
    simp only [Container.ok, Bool.and_eq_true, decide_eq_true_eq, List.all_eq_true] at hC'
    rw [slotsBytes_cons] at hf ⊢
    simp only [List.append_assoc] at hf ⊢
    -- what remains after this slot, by the induction hypothesis
    have finish : ∀ (fuel' prev' : Nat) (seen' : List Nat), prev' ≤ pre.length + 1 →
        (slotsBytes ss vt ++ tail).length + 1 ≤ fuel' → (∀ x ∈ seen, x ∈ seen') →
        (s.kind = .single → pre.length ∈ seen') →
        ∃ seen'', containerLoop C fuel' prev' seen' ((pv ++ [v]) ++ initState ss) (slotsBytes ss vt ++ tail)
            = .ok (pv ++ v :: vt, seen'', tail)
          ∧ (∀ x ∈ seen, x ∈ seen'')
          ∧ (∀ j s', (s :: ss)[j]? = some s' → s'.kind = .single → (pre.length + j) ∈ seen'') := by
      intro fuel' prev' seen' hp' hf' hsub hsing
      obtain ⟨seen'', h1, h2, h3⟩ := ih vt (pre ++ [s]) (pv ++ [v]) fuel' prev' seen' tail hsl'
        (by simp [hpl]) hvl hwt.2 (by simpa using hp') htail hf'
      refine ⟨seen'', ?_, fun x hx => h2 x (hsub x hx), ?_⟩
      · rw [h1]; simp
      · intro j s' hj hk
        cases j with
        | zero =>
          simp only [List.getElem?_cons_zero, Option.some.injEq] at hj
          subst hj
          exact h2 _ (hsing hk)
        | succ j' =>
          simp only [List.getElem?_cons_succ] at hj
          have := h3 j' s' hj hk
          simp only [List.length_append, List.length_cons, List.length_nil] at this
          have e : pre.length + (j' + 1) = pre.length + 0 + 1 + j' := by omega
          rw [e]; exact this
    have hstate : ∀ y : Val, (pv ++ initState (s :: ss)).set pre.length y = (pv ++ [y]) ++ initState ss := by
      intro y
      rw [← hpl]
      simp only [initState]
      rw [set_append_mid]
      simp
    cases v with
    | num _ => simp [slotWt] at hwt
    | bytes _ => simp [slotWt] at hwt
    | node vs =>
      simp only [slotWt] at hwt
      simp only [slotRaw] at hf ⊢
      cases hk : s.kind with
      | single =>
        simp only [hk] at hwt hf ⊢
        obtain ⟨f, rfl⟩ : ∃ f, fuel = f + 1 := ⟨fuel - 1, by omega⟩
        rw [loop_step C hC pre.length s hsi vs hwt.1 f prev seen _ _ (.node []) (by omega)
          (Or.inr hprev) hst0, hstate]
        have hel := hwt.1
        simp only [elemOK, Bool.and_eq_true] at hel
        have hlen := elem_len C.siLen s (hC'.2 s (List.mem_of_getElem? hsi)) vs hel.1
        have hput : putElem s vs (.node []) = .node vs := by simp [putElem, hk]
        rw [hput]
        exact finish f (pre.length + 1) (pre.length :: seen) (Nat.le_refl _)
          (by simp only [List.length_append] at hf ⊢; omega)
          (fun x hx => List.mem_cons_of_mem _ hx) (fun _ => List.mem_cons_self)
      | ptr =>
        simp only [hk] at hwt hf ⊢
        rcases vs with _ | ⟨e, et⟩
        · -- nil pointer: nothing written, the slot keeps its initial state
          simp only [List.nil_append] at hf ⊢
          have : pv ++ initState (s :: ss) = (pv ++ [Val.node []]) ++ initState ss := by simp [initState]
          rw [this]
          exact finish fuel prev seen (by omega) hf (fun x hx => hx) (fun h => by rw [hk] at h; cases h)
        · cases e with
          | num _ => simp at hwt
          | bytes _ => simp at hwt
          | node fs =>
            rcases et with _ | ⟨e2, et2⟩
            · simp only at hwt hf ⊢
              obtain ⟨f, rfl⟩ : ∃ f, fuel = f + 1 := ⟨fuel - 1, by omega⟩
              rw [loop_step C hC pre.length s hsi fs hwt.1 f prev seen _ _ (.node []) (by omega)
                (Or.inr hprev) hst0, hstate]
              have hel := hwt.1
              simp only [elemOK, Bool.and_eq_true] at hel
              have hlen := elem_len C.siLen s (hC'.2 s (List.mem_of_getElem? hsi)) fs hel.1
              have hput : putElem s fs (.node []) = .node [.node fs] := by simp [putElem, hk]
              rw [hput]
              exact finish f (pre.length + 1) (pre.length :: seen) (Nat.le_refl _)
                (by simp only [List.length_append] at hf ⊢; omega)
                (fun x hx => List.mem_cons_of_mem _ hx) (fun h => by rw [hk] at h; cases h)
            · simp at hwt
      | list =>
        simp only [hk] at hwt hf ⊢
        obtain ⟨fuel', prev', seen', h1, h2, h3, h4⟩ :=
          loop_items C hC pre.length s hsi hk vs [] fuel prev seen _ (slotsBytes ss vt ++ tail) hwt.1
            (by omega) hst0 hf
        rw [h1, hstate]
        simp only [List.nil_append]
        exact finish fuel' prev' seen' h3 h2 h4 (fun h => by rw [hk] at h; cases h)

theorem requiredSeen_of (slots : List Slot) : ∀ (i0 : Nat) (seen : List Nat),
    (∀ j s, slots[j]? = some s → s.kind = .single → (i0 + j) ∈ seen) → requiredSeen slots i0 seen = true := by
  induction slots with
  | nil => intro i0 seen _; simp [requiredSeen]
  | cons s ss ih =>
    intro i0 seen h
    simp only [requiredSeen, Bool.and_eq_true, Bool.or_eq_true]
    refine ⟨?_, ih (i0 + 1) seen (fun j s' hj hk => ?_)⟩
    · by_cases hk : s.kind = .single
      · right
        have := h 0 s (by simp) hk
        simpa using this
      · left; simpa using hk
    · have := h (j + 1) s' (by simpa using hj) hk
      have e : i0 + (j + 1) = i0 + 1 + j := by omega
      rw [e] at this; exact this

/-- **write → read for a container, raw**: the elements of a well-typed container value, written in
    slot order and followed by fewer bytes than a struct-info, are read back as that value; the
    trailing bytes are not counted. -/
theorem container_decode_raw (C : Container) (hC : C.ok = true) (W : List Val) (r : Bytes)
    (hwt : C.wt W = true) (hr : r.length < C.siLen) :
    C.decode (slotsBytes C.slots W ++ r) = .ok (W, r) := by
  simp only [Container.wt, Bool.and_eq_true, decide_eq_true_eq] at hwt
  obtain ⟨seen', h1, _, h3⟩ := loop_suffix C hC C.slots W [] [] ((slotsBytes C.slots W ++ r).length + 1) 0 []
    r (by simp) rfl hwt.1 hwt.2 (Nat.zero_le _) hr (Nat.le_refl _)
  unfold Container.decode
  simp only [List.nil_append] at h1
  rw [h1]
  simp only
  rw [requiredSeen_of C.slots 0 seen' (fun j s hj hk => by simpa using h3 j s hj hk)]
  simp

/-- **write → read for a container** (`decode_encode` for the two boot policy manifests):
    the output of WriteTo, followed by fewer bytes than a struct-info, is read back as the value as
    written (after Rehash). -/
theorem container_decode_encode (C : Container) (hC : C.ok = true) (vs : List Val) (r : Bytes)
    (hwt : C.wt (C.rehash vs) = true) (hr : r.length < C.siLen) :
    C.decode (C.encode vs ++ r) = .ok (C.rehash vs, r) :=
  container_decode_raw C hC (C.rehash vs) r hwt hr

/-! ### sizes, offsets, Rehash of a container -/

theorem zipSlots_zipSlots {α} (g : Slot → Val → α) (h : Slot → Val → Val) :
    ∀ (slots : List Slot) (vs : List Val),
      zipSlots g slots (zipSlots h slots vs) = zipSlots (fun s v => g s (h s v)) slots vs := by
  intro slots
  induction slots with
  | nil => intro vs; simp [zipSlots]
  | cons s ss ih => intro vs; cases vs <;> simp [zipSlots, ih]

theorem zipSlots_congr {α} (f g : Slot → Val → α) (h : ∀ s v, f s v = g s v) :
    ∀ (slots : List Slot) (vs : List Val), zipSlots f slots vs = zipSlots g slots vs := by
  intro slots
  induction slots with
  | nil => intro vs; simp [zipSlots]
  | cons s ss ih => intro vs; cases vs <;> simp [zipSlots, ih, h]

theorem zipSlots_getElem? {α} (f : Slot → Val → α) : ∀ (slots : List Slot) (vs : List Val) (i : Nat),
    (zipSlots f slots vs)[i]? = (match slots[i]?, vs[i]? with
      | some s, some v => some (f s v)
      | _, _ => none) := by
  intro slots
  induction slots with
  | nil => intro vs i; simp [zipSlots]
  | cons s ss ih =>
    intro vs i
    cases vs with
    | nil => simp [zipSlots]
    | cons v vt =>
      cases i with
      | zero => simp [zipSlots]
      | succ j => simp [zipSlots, ih]

theorem slotRaw_length (s : Slot) (v : Val) : (slotRaw s v).length = slotSize s v := by
  cases v with
  | num _ => simp [slotRaw, slotSize]
  | bytes _ => simp [slotRaw, slotSize]
  | node vs =>
    simp only [slotRaw, slotSize, SDef.totalSize]
    cases s.kind with
    | single => simp [encodeRaw_length]
    | ptr =>
      rcases vs with _ | ⟨e, et⟩
      · simp
      · cases e <;> rcases et with _ | ⟨e2, et2⟩ <;> simp [encodeRaw_length]
    | list =>
      simp only [List.length_flatMap]
      apply congrArg
      apply List.map_congr_left
      intro a _
      cases a <;> simp [encodeRaw_length, SDef.totalSize]

theorem flatten_length_zip (slots : List Slot) (vs : List Val) :
    (zipSlots slotRaw slots vs).flatten.length = (zipSlots slotSize slots vs).sum := by
  induction slots generalizing vs with
  | nil => simp [zipSlots]
  | cons s ss ih => cases vs <;> simp [zipSlots, ih, slotRaw_length]

/-- **sizes of a container**: the number of bytes WriteTo produces is TotalSize() of the value as
    written -/
theorem container_size (C : Container) (vs : List Val) :
    (C.encode vs).length = C.totalSize (C.rehash vs) := by
  unfold Container.encode Container.totalSize
  exact flatten_length_zip _ _

theorem take_zipSlots {α} (f : Slot → Val → α) : ∀ (slots : List Slot) (vs : List Val) (i : Nat),
    (zipSlots f slots vs).take i = zipSlots f (slots.take i) (vs.take i) := by
  intro slots
  induction slots with
  | nil => intro vs i; simp [zipSlots]
  | cons s ss ih =>
    intro vs i
    cases vs with
    | nil => cases i <;> simp [zipSlots]
    | cons v vt => cases i <;> simp [zipSlots, ih]

/-- **offsets of a container**: `<F>Offset()` of slot `i` is the length of what WriteTo emits for the
    slots before it; that is a prefix of the output and the bytes of the slots from `i` on follow. -/
theorem container_offset (C : Container) (vs : List Val) (i : Nat) :
    C.encode vs = ((zipSlots slotRaw C.slots (C.rehash vs)).take i).flatten
                    ++ ((zipSlots slotRaw C.slots (C.rehash vs)).drop i).flatten ∧
    C.slotOffset (C.rehash vs) i = ((zipSlots slotRaw C.slots (C.rehash vs)).take i).flatten.length := by
  refine ⟨?_, ?_⟩
  · unfold Container.encode
    rw [← List.flatten_append, List.take_append_drop]
  · unfold Container.slotOffset
    rw [take_zipSlots, take_zipSlots, flatten_length_zip]

theorem totalSize_assign (ev : RExpr → Nat) (rules : List GRule) (pre : List String) (L : Layout)
    (us : List Val) : totalSize L (assign ev rules pre L us) = totalSize L us := by
  rw [← totalSize_erase, erase_assign, totalSize_erase]

theorem slotSize_rehash (C : Container) (vs : List Val) (s : Slot) (v : Val) :
    slotSize s (slotRehash s (slotAssign C vs s v)) = slotSize s v := by
  cases v with
  | num _ => simp [slotAssign, slotRehash]
  | bytes _ => simp [slotAssign, slotRehash]
  | node fs =>
    cases hk : s.kind with
    | single =>
      simp only [slotAssign, slotRehash, slotSize, hk]
      rw [totalSize_rehash]
      exact totalSize_assign _ _ _ _ _
    | ptr =>
      simp only [slotAssign, slotRehash, hk]
      rcases fs with _ | ⟨e, et⟩
      · simp [slotSize, hk]
      · cases e with
        | num _ => simp [slotSize, hk]
        | bytes _ => simp [slotSize, hk]
        | node f0 =>
          rcases et with _ | ⟨e2, et2⟩
          · simp [slotSize, hk, totalSize_rehash]
          · simp [slotSize, hk]
    | list =>
      simp only [slotAssign, slotRehash, slotSize, hk, List.map_map]
      apply congrArg
      apply List.map_congr_left
      intro a _
      cases a <;> simp [totalSize_rehash]

theorem zipSize_rehash (C : Container) (vs : List Val) (slots : List Slot) (us : List Val) :
    zipSlots slotSize slots (zipSlots (fun s v => slotRehash s (slotAssign C vs s v)) slots us)
      = zipSlots slotSize slots us := by
  rw [zipSlots_zipSlots]
  exact zipSlots_congr _ _ (fun s v => slotSize_rehash C vs s v) slots us

/-- Rehash does not change the sizes of a container -/
theorem container_totalSize_rehash (C : Container) (vs : List Val) :
    C.totalSize (C.rehash vs) = C.totalSize vs := by
  unfold Container.totalSize Container.rehash
  rw [zipSize_rehash]

theorem container_slotOffset_rehash (C : Container) (vs : List Val) (i : Nat) :
    C.slotOffset (C.rehash vs) i = C.slotOffset vs i := by
  unfold Container.slotOffset Container.rehash
  rw [zipSize_rehash]

theorem relOffset_congr (L : Layout) (us us' : List Val) (p : List String) (f : String)
    (h : erase L us = erase L us') : relOffset L us p f = relOffset L us' p f := by
  rw [← relOffset_erase, h, relOffset_erase]

theorem container_evalR_rehash (C : Container) (vs : List Val) (e : RExpr) :
    C.evalR (C.rehash vs) e = C.evalR vs e := by
  induction e with
  | const n => simp [Container.evalR]
  | totalSize => simp [Container.evalR, container_totalSize_rehash]
  | call fn => simp [Container.evalR]
  | add a b iha ihb => simp [Container.evalR, iha, ihb]
  | fieldOffset inside f =>
    cases inside with
    | nil =>
      simp only [Container.evalR]
      cases slotIndex C.slots f 0 <;> simp [container_slotOffset_rehash]
    | cons g p =>
      simp only [Container.evalR]
      cases hi : slotIndex C.slots g 0 with
      | none => simp
      | some i =>
        simp only
        unfold Container.rehash
        rw [zipSlots_getElem?]
        cases hs : C.slots[i]? with
        | none => simp
        | some s =>
          cases hv : vs[i]? with
          | none => simp
          | some v =>
            simp only
            cases hk : s.kind with
            | single =>
              cases v with
              | num _ => simp [slotAssign, slotRehash]
              | bytes _ => simp [slotAssign, slotRehash]
              | node fs =>
                simp only [slotAssign, slotRehash, hk, if_true, Val.onNode_node]
                apply relOffset_congr
                rw [erase_rehash, erase_assign]
            | ptr => simp
            | list => simp

theorem slot_idem (C : Container) (vs vs' : List Val) (H : ∀ e, C.evalR vs' e = C.evalR vs e) (s : Slot)
    (hok : Manifest.rulesOK s.elem.rules s.elem.body = true)
    (hdis : s.kind = .single → disjointAt C.rules s.name s.elem.rules s.elem.body = true) (v : Val) :
    slotRehash s (slotAssign C vs' s (slotRehash s (slotAssign C vs s v)))
      = slotRehash s (slotAssign C vs s v) := by
  cases v with
  | num _ => simp [slotAssign, slotRehash]
  | bytes _ => simp [slotAssign, slotRehash]
  | node fs =>
    cases hk : s.kind with
    | single =>
      simp only [slotAssign, slotRehash, hk]
      congr 1
      have := assign_absorb C.rules s.name s.elem.rules (C.evalR vs) (C.evalR vs') s.elem.body
        (assign (C.evalR vs) C.rules [s.name] s.elem.body fs) H s.elem.body fs (hdis hk)
      unfold SDef.rehash at this ⊢
      rw [this]
      exact rehash_idem s.elem hok _
    | ptr =>
      simp only [slotAssign, slotRehash, hk]
      rcases fs with _ | ⟨e, et⟩
      · simp [slotAssign, slotRehash, hk]
      · cases e with
        | num _ => simp [slotAssign, slotRehash, hk]
        | bytes _ => simp [slotAssign, slotRehash, hk]
        | node f0 =>
          rcases et with _ | ⟨e2, et2⟩
          · simp [slotAssign, slotRehash, hk, rehash_idem s.elem hok]
          · simp [slotAssign, slotRehash, hk]
    | list =>
      simp only [slotAssign, slotRehash, hk, List.map_map, Val.node.injEq]
      apply List.map_congr_left
      intro a _
      cases a <;> simp [rehash_idem s.elem hok]

/-- **Rehash of a container is idempotent** -/
theorem container_rehash_idem (C : Container) (hok : C.rulesOK = true) (vs : List Val) :
    C.rehash (C.rehash vs) = C.rehash vs := by
  have H : ∀ e, C.evalR (C.rehash vs) e = C.evalR vs e := container_evalR_rehash C vs
  simp only [Container.rulesOK, List.all_eq_true, Bool.and_eq_true, Bool.or_eq_true, bne_iff_ne, ne_eq,
    decide_eq_true_eq] at hok
  show zipSlots _ C.slots (zipSlots _ C.slots vs) = zipSlots _ C.slots vs
  rw [zipSlots_zipSlots]
  -- pointwise on the slots of C
  have key : ∀ (slots : List Slot) (us : List Val), (∀ s ∈ slots, s ∈ C.slots) →
      zipSlots (fun s v => slotRehash s (slotAssign C (C.rehash vs) s (slotRehash s (slotAssign C vs s v)))) slots us
        = zipSlots (fun s v => slotRehash s (slotAssign C vs s v)) slots us := by
    intro slots
    induction slots with
    | nil => intro us _; simp [zipSlots]
    | cons s ss ih =>
      intro us hmem
      cases us with
      | nil => simp [zipSlots]
      | cons v vt =>
        simp only [zipSlots]
        have hs := hok s (hmem s List.mem_cons_self)
        rw [slot_idem C vs (C.rehash vs) H s hs.1 (fun hk => by
            rcases hs.2 with h | h
            · exact absurd hk h
            · exact h) v,
          ih vt (fun x hx => hmem x (List.mem_cons_of_mem _ hx))]
  exact key C.slots vs (fun s hs => hs)

/-! ### the stored signature offset of a container -/

theorem getNum_assign (ev : RExpr → Nat) (rules : List GRule) (pre : List String) (L : Layout) :
    ∀ (us : List Val) (f : String) (k : Nat) (e : RExpr), shaped L us = true → numWidth L f = some k →
    ruleFor rules (pre ++ [f]) = some e → getNum L (assign ev rules pre L us) f = some (ev e % 256 ^ k) := by
  induction L with
  | done => intro us f k e _ h; simp [numWidth] at h
  | num n w r ih =>
    intro us f k e hs hw hr
    rcases us with _ | ⟨v, tl⟩
    · simp [shaped] at hs
    · cases v with
      | bytes _ => simp [shaped] at hs
      | node _ => simp [shaped] at hs
      | num x =>
        simp only [shaped] at hs
        simp only [numWidth] at hw
        by_cases hn : n = f
        · subst hn
          simp only [if_true, Option.some.injEq] at hw
          subst hw
          simp [assign, getNum, hr]
        · simp only [hn, if_false] at hw
          simp only [assign, getNum, hn, if_false, List.tail_cons]
          exact ih tl f k e hs hw hr
  | numV n w r ih =>
    intro us f k e hs hw hr
    rcases us with _ | ⟨v, tl⟩
    · simp [shaped] at hs
    · cases v <;> simp only [shaped] at hs <;> try (cases hs)
      simp only [numWidth] at hw
      simp only [assign, getNum, List.tail_cons]
      exact ih tl f k e hs hw hr
  | bytes n w r ih =>
    intro us f k e hs hw hr
    rcases us with _ | ⟨v, tl⟩
    · simp [shaped] at hs
    · cases v <;> simp only [shaped] at hs <;> try (cases hs)
      simp only [numWidth] at hw
      simp only [assign, getNum, List.tail_cons]
      exact ih tl f k e hs hw hr
  | dyn n w r ih =>
    intro us f k e hs hw hr
    rcases us with _ | ⟨v, tl⟩
    · simp [shaped] at hs
    · cases v <;> simp only [shaped] at hs <;> try (cases hs)
      simp only [numWidth] at hw
      simp only [assign, getNum, List.tail_cons]
      exact ih tl f k e hs hw hr
  | dynE n w ce r ih =>
    intro us f k e hs hw hr
    rcases us with _ | ⟨v, tl⟩
    · simp [shaped] at hs
    · cases v <;> simp only [shaped] at hs <;> try (cases hs)
      simp only [numWidth] at hw
      simp only [assign, getNum, List.tail_cons]
      exact ih tl f k e hs hw hr
  | sub n rs i r _ ih =>
    intro us f k e hs hw hr
    rcases us with _ | ⟨v, tl⟩
    · simp [shaped] at hs
    · cases v with
      | num _ => simp [shaped] at hs
      | bytes _ => simp [shaped] at hs
      | node fs =>
        simp only [shaped, Bool.and_eq_true] at hs
        simp only [numWidth] at hw
        simp only [assign, getNum, List.tail_cons]
        exact ih tl f k e hs.2 hw hr
  | list n c rs i r _ ih =>
    intro us f k e hs hw hr
    rcases us with _ | ⟨v, tl⟩
    · simp [shaped] at hs
    · cases v with
      | num _ => simp [shaped] at hs
      | bytes _ => simp [shaped] at hs
      | node fs =>
        simp only [shaped, Bool.and_eq_true] at hs
        simp only [numWidth] at hw
        simp only [assign, getNum, List.tail_cons]
        exact ih tl f k e hs.2 hw hr

/-- a structure's own Rehash leaves the numeric fields it does not assign alone -/
theorem getNum_rehashWalk_none (L : Layout) : ∀ (Ls : Layout) (vs : List Val) (rules : List GRule)
    (us : List Val) (f : String), ruleFor rules [f] = none →
    getNum L (rehashWalk Ls vs rules L us) f = getNum L us f := by
  induction L with
  | done => intro Ls vs rules us f _; cases us <;> simp [rehashWalk, getNum]
  | num n w r ih =>
    intro Ls vs rules us f hr
    rcases us with _ | ⟨v, tl⟩
    · simp [rehashWalk]
    · by_cases hn : n = f
      · subst hn
        cases v <;> simp [rehashWalk, getNum, hr]
      · simp only [rehashWalk, getNum, hn, if_false, List.tail_cons]
        exact ih Ls vs rules tl f hr
  | numV n w r ih =>
    intro Ls vs rules us f hr
    rcases us with _ | ⟨v, tl⟩
    · simp [rehashWalk]
    · simp only [rehashWalk, getNum, List.tail_cons]; exact ih Ls vs rules tl f hr
  | bytes n w r ih =>
    intro Ls vs rules us f hr
    rcases us with _ | ⟨v, tl⟩
    · simp [rehashWalk]
    · simp only [rehashWalk, getNum, List.tail_cons]; exact ih Ls vs rules tl f hr
  | dyn n w r ih =>
    intro Ls vs rules us f hr
    rcases us with _ | ⟨v, tl⟩
    · simp [rehashWalk]
    · simp only [rehashWalk, getNum, List.tail_cons]; exact ih Ls vs rules tl f hr
  | dynE n w ce r ih =>
    intro Ls vs rules us f hr
    rcases us with _ | ⟨v, tl⟩
    · simp [rehashWalk]
    · simp only [rehashWalk, getNum, List.tail_cons]; exact ih Ls vs rules tl f hr
  | sub n rs i r _ ih =>
    intro Ls vs rules us f hr
    rcases us with _ | ⟨v, tl⟩
    · simp [rehashWalk]
    · simp only [rehashWalk, getNum, List.tail_cons]; exact ih Ls vs rules tl f hr
  | list n c rs i r _ ih =>
    intro Ls vs rules us f hr
    rcases us with _ | ⟨v, tl⟩
    · simp [rehashWalk]
    · simp only [rehashWalk, getNum, List.tail_cons]; exact ih Ls vs rules tl f hr

theorem shaped_assign (ev : RExpr → Nat) (rules : List GRule) (pre : List String) (L : Layout)
    (us : List Val) : shaped L (assign ev rules pre L us) = shaped L us := by
  rw [← shaped_erase, erase_assign, shaped_erase]

/-- **stored offsets of a container** (`sigoffset` for the CBnT boot policy manifest, generic form):
    a numeric field `f` (width `k`) of the singleton element `g` that the container's Rehash sets to
    `<T>Offset() + T.<U>Offset()` holds, in the written value, the number of bytes WriteTo emits
    before field `U` of element `T` (mod 256^k): it points at `T.U`. -/
theorem container_stored_offset (C : Container) (vs : List Val) (ig it : Nat) (sg st : Slot)
    (f u : String) (k : Nat) (fsg fst : List Val)
    (hsg : C.slots[ig]? = some sg) (hkg : sg.kind = .single) (hvg : vs[ig]? = some (.node fsg))
    (hshg : shaped sg.elem.body fsg = true)
    (hst : C.slots[it]? = some st) (hkt : st.kind = .single) (hvt : vs[it]? = some (.node fst))
    (hsht : shaped st.elem.body fst = true)
    (hit : slotIndex C.slots st.name 0 = some it)
    (hw : numWidth sg.elem.body f = some k)
    (hr : ruleFor C.rules [sg.name, f] = some (.add (.fieldOffset [] st.name) (.fieldOffset [st.name] u)))
    (hnone : ruleFor sg.elem.rules [f] = none) :
    ∃ Wg Wt, (C.rehash vs)[ig]? = some (.node Wg) ∧ (C.rehash vs)[it]? = some (.node Wt) ∧
      getNum sg.elem.body Wg f
        = some ((((zipSlots slotRaw C.slots (C.rehash vs)).take it).flatten.length
                  + (encodeRaw (st.elem.body.before u) Wt).length) % 256 ^ k) ∧
      slotRaw st (.node Wt) = encodeRaw (st.elem.body.before u) Wt
          ++ encodeRaw (st.elem.body.fromField u) (Wt.drop (st.elem.body.index u)) := by
  let Ag := assign (C.evalR vs) C.rules [sg.name] sg.elem.body fsg
  let At := assign (C.evalR vs) C.rules [st.name] st.elem.body fst
  refine ⟨sg.elem.rehash Ag, st.elem.rehash At, ?_, ?_, ?_, ?_⟩
  · unfold Container.rehash
    rw [zipSlots_getElem?, hsg, hvg]
    simp [slotAssign, slotRehash, hkg, Ag]
  · unfold Container.rehash
    rw [zipSlots_getElem?, hst, hvt]
    simp [slotAssign, slotRehash, hkt, At]
  · -- the stored number
    have hshWt : shaped st.elem.body (st.elem.rehash At) = true := by
      rw [shaped_rehash, shaped_assign]; exact hsht
    have h1 : getNum sg.elem.body (sg.elem.rehash Ag) f = getNum sg.elem.body Ag f :=
      getNum_rehashWalk_none sg.elem.body sg.elem.body Ag sg.elem.rules Ag f hnone
    have h2 : getNum sg.elem.body Ag f = some (C.evalR vs _ % 256 ^ k) :=
      getNum_assign (C.evalR vs) C.rules [sg.name] sg.elem.body fsg f k _ hshg hw (by simpa using hr)
    rw [h1, h2]
    congr 2
    -- the right-hand side, evaluated on the container
    simp only [Container.evalR, hit, hst, hvt, hkt, if_true, Val.onNode_node, relOffset]
    rw [← container_slotOffset_rehash C vs it, (container_offset C vs it).2]
    congr 1
    rw [← (split_at_field st.elem.body (st.elem.rehash At) u hshWt).2]
    rw [fieldOff_rehash]
    have hA : fieldOff st.elem.body At u = fieldOff st.elem.body fst u := by
      show fieldOff _ (assign _ _ _ _ _) _ = _
      rw [← fieldOff_erase, erase_assign, fieldOff_erase]
    rw [hA]
  · have hshWt : shaped st.elem.body (st.elem.rehash At) = true := by
      rw [shaped_rehash, shaped_assign]; exact hsht
    simp only [slotRaw, hkt]
    exact (split_at_field st.elem.body (st.elem.rehash At) u hshWt).1

end Fiano.Manifest
