/-
  `listing` (ParseAPCBBinaryTokens) on a serialised well-formed blob is the abstract listing.
-/
import FianoModel.Apcb.Refine

namespace Fiano.Apcb

theorem listPairs_step (e : TypeE) (sz : Nat) (hw : e.WF) (p : Nat × Nat) (ps : List (Nat × Nat))
    (hp : p.1 < 2 ^ 32 ∧ p.2 < 2 ^ 32) (acc : List LTok) :
    listPairs (encTypeHdr e sz) (ps.length + 1) (serPairs (p :: ps)) acc =
      match processValue e.tid p.2 with
      | none => (acc, .err)
      | some v => listPairs (encTypeHdr e sz) ps.length (serPairs ps) (acc ++ [e.ltok p v]) := by
  have htake : (serPairs (p :: ps)).take 8 = encPair p := take_append_len _ _ 8 (by simp)
  have hdrop : (serPairs (p :: ps)).drop 8 = serPairs ps := drop_append_len _ _ 8 (by simp)
  simp only [listPairs, pairSize, htake, hdrop, tOffTypeID, tOffPriorityMask, tOffBoardMask,
    rd_typeHdr_tid e sz hw.tid, rd_typeHdr_prio e sz hw.prio, rd_typeHdr_board e sz hw.board,
    rd_pair_id p hp.1, rd_pair_val p hp.2, TypeE.ltok]
  rfl

theorem listCb_onGroup (s : List LTok) (gh : Bytes) (goff : Nat) : listCb.onGroup s gh goff = s := rfl

theorem listPairs_some (e : TypeE) (sz : Nat) (hw : e.WF) (ps : List (Nat × Nat))
    (hps : ∀ p ∈ ps, p.1 < 2 ^ 32 ∧ p.2 < 2 ^ 32) (acc r : List LTok) (h : pairsToks e ps = some r) :
    listPairs (encTypeHdr e sz) ps.length (serPairs ps) acc = (acc ++ r, .ok) := by
  induction ps generalizing acc r with
  | nil => simp only [pairsToks, Option.some.injEq] at h; subst h; simp [listPairs]
  | cons p ps ih =>
    rw [List.length_cons, listPairs_step e sz hw p ps (hps p (by simp))]
    simp only [pairsToks] at h
    split at h
    · rename_i v r' hv hr
      injection h with h; subst h
      simp only [hv]
      rw [ih (fun q hq => hps q (by simp [hq])) _ r' hr]
      simp
    · cases h

theorem listPairs_none (e : TypeE) (sz : Nat) (hw : e.WF) (ps : List (Nat × Nat))
    (hps : ∀ p ∈ ps, p.1 < 2 ^ 32 ∧ p.2 < 2 ^ 32) (acc : List LTok) (h : pairsToks e ps = none) :
    (listPairs (encTypeHdr e sz) ps.length (serPairs ps) acc).2 = .err := by
  induction ps generalizing acc with
  | nil => simp [pairsToks] at h
  | cons p ps ih =>
    rw [List.length_cons, listPairs_step e sz hw p ps (hps p (by simp))]
    cases hv : processValue e.tid p.2 with
    | none => rfl
    | some v =>
      simp only []
      apply ih (fun q hq => hps q (by simp [hq]))
      cases hr : pairsToks e ps with
      | none => rfl
      | some r => simp [pairsToks, hv, hr] at h

theorem listCb_onType (e : TypeE) (_hw : e.WF) (s : List LTok) (gh : Bytes) (goff toff : Nat) :
    listCb.onType s gh goff (encTypeHdr e e.size) toff (serPairs e.pairs) =
      ((listPairs (encTypeHdr e e.size) e.pairs.length (serPairs e.pairs) s).1, serPairs e.pairs,
       (listPairs (encTypeHdr e e.size) e.pairs.length (serPairs e.pairs) s).2) := by
  have hmod : (serPairs e.pairs).length % 8 = 0 := by simp
  have hdiv : (serPairs e.pairs).length / 8 = e.pairs.length := by simp
  simp only [listCb, pairSize, hmod, hdiv, ne_eq, not_true, if_false]

theorem absTypes_list_some (gh : Bytes) (goff : Nat) (ts : List TypeE) (h : ∀ e ∈ ts, e.WF) (toff : Nat)
    (acc l : List LTok) (hl : typesTokens ts = some l) :
    absTypes listCb gh goff ts toff acc = (acc ++ l, serTypes ts, .ok) := by
  induction ts generalizing toff acc l with
  | nil => simp only [typesTokens, Option.some.injEq] at hl; subst hl; simp [absTypes, serTypes]
  | cons e es ih =>
    have hw := h e (by simp)
    simp only [typesTokens] at hl
    split at hl
    · rename_i a b ha hb
      injection hl with hl; subst hl
      simp only [absTypes, listCb_onType e hw, listPairs_some e _ hw e.pairs hw.pairs acc a ha,
        ih (fun e he => h e (by simp [he])) _ _ b hb, serTypes, serType, List.append_assoc]
    · cases hl

theorem absTypes_list_none (gh : Bytes) (goff : Nat) (ts : List TypeE) (h : ∀ e ∈ ts, e.WF) (toff : Nat)
    (acc : List LTok) (hl : typesTokens ts = none) :
    (absTypes listCb gh goff ts toff acc).2.2 = .err := by
  induction ts generalizing toff acc with
  | nil => simp [typesTokens] at hl
  | cons e es ih =>
    have hw := h e (by simp)
    simp only [absTypes, listCb_onType e hw]
    cases ha : e.toks with
    | none =>
      have := listPairs_none e e.size hw e.pairs hw.pairs acc ha
      generalize listPairs (encTypeHdr e e.size) e.pairs.length (serPairs e.pairs) acc = res at this ⊢
      obtain ⟨s', r⟩ := res
      simp only at this; subst this; rfl
    | some a =>
      rw [listPairs_some e _ hw e.pairs hw.pairs acc a ha]
      simp only []
      have hb : typesTokens es = none := by
        cases hb : typesTokens es with
        | none => rfl
        | some b => simp [typesTokens, ha, hb] at hl
      have := ih (fun e he => h e (by simp [he])) (toff + e.size) (acc ++ a) hb
      generalize absTypes listCb gh goff es (toff + e.size) (acc ++ a) = res at this ⊢
      obtain ⟨s', out, r⟩ := res
      exact this

theorem absGroups_list_some (gs : List Group) (h : ∀ g ∈ gs, g.WF) (goff : Nat) (acc l : List LTok)
    (hl : groupsTokens gs = some l) : absGroups listCb gs goff acc = (acc ++ l, serGroups gs, .ok) := by
  induction gs generalizing goff acc l with
  | nil => simp only [groupsTokens, Option.some.injEq] at hl; subst hl; simp [absGroups, serGroups]
  | cons g gs ih =>
    have hw := h g (by simp)
    simp only [groupsTokens] at hl
    split at hl
    · rename_i a b ha hb
      injection hl with hl; subst hl
      have ih' := ih (fun g hg => h g (by simp [hg])) (goff + (serGroup g).length)
      cases g with
      | tokens sig ver res extra types =>
        simp only [Group.toks] at ha
        simp only [absGroups, listCb_onGroup, absTypes_list_some _ goff types hw.2.2.2.2.1 0 acc a ha,
          ih' _ b hb]
        simp only [serGroups, serGroup, Group.hdr, List.append_assoc]
      | foreign sig gid sh ver res raw =>
        simp only [Group.toks, Option.some.injEq] at ha; subst ha
        simp only [absGroups, ih' _ b hb, serGroups, List.nil_append]
    · cases hl

theorem absGroups_list_none (gs : List Group) (h : ∀ g ∈ gs, g.WF) (goff : Nat) (acc : List LTok)
    (hl : groupsTokens gs = none) : (absGroups listCb gs goff acc).2.2 = .err := by
  induction gs generalizing goff acc with
  | nil => simp [groupsTokens] at hl
  | cons g gs ih =>
    have hw := h g (by simp)
    have ih' := ih (fun g hg => h g (by simp [hg])) (goff + (serGroup g).length)
    cases g with
    | tokens sig ver res extra types =>
      cases ha : typesTokens types with
      | none =>
        have := absTypes_list_none (Group.tokens sig ver res extra types).hdr goff types hw.2.2.2.2.1 0 acc ha
        simp only [absGroups, listCb_onGroup] at this ⊢
        generalize absTypes _ _ goff types 0 acc = res at this ⊢
        obtain ⟨s', out, r⟩ := res
        simp only at this; subst this; rfl
      | some a =>
        have hb : groupsTokens gs = none := by
          cases hb : groupsTokens gs with
          | none => rfl
          | some b => simp [groupsTokens, Group.toks, ha, hb] at hl
        have := ih' (acc ++ a) hb
        simp only [absGroups, listCb_onGroup, absTypes_list_some _ goff types hw.2.2.2.2.1 0 acc a ha]
        generalize absGroups listCb gs _ (acc ++ a) = res at this ⊢
        obtain ⟨s', out, r⟩ := res
        exact this
    | foreign sig gid sh ver res raw =>
      have hb : groupsTokens gs = none := by
        cases hb : groupsTokens gs with
        | none => rfl
        | some b => simp [groupsTokens, Group.toks, hb] at hl
      have := ih' acc hb
      simp only [absGroups]
      generalize absGroups listCb gs _ acc = res at this ⊢
      obtain ⟨s', out, r⟩ := res
      exact this

theorem listing_ser_some (a : Apcb) (slack : Bytes) (hw : a.WF) (hb : (ser a ++ slack).length < 2 ^ 32)
    (l : List LTok) (hl : tokensOf a = some l) : listing (ser a ++ slack) = (l, .ok) := by
  unfold listing
  simp only [parseHeader_ser a slack hw hb, hdrSize, body_ser a slack hw, groupsLoop_ser _ _ hw.groups,
    absGroups_list_some a.groups hw.groups 0 [] l hl, List.nil_append]

theorem listing_ser_none (a : Apcb) (slack : Bytes) (hw : a.WF) (hb : (ser a ++ slack).length < 2 ^ 32)
    (hl : tokensOf a = none) : (listing (ser a ++ slack)).2 = .err := by
  unfold listing
  have := absGroups_list_none a.groups hw.groups 0 [] hl
  simp only [parseHeader_ser a slack hw hb, hdrSize, body_ser a slack hw, groupsLoop_ser _ _ hw.groups]
  generalize absGroups listCb a.groups 0 [] = res at this ⊢
  obtain ⟨s', out, r⟩ := res
  exact this

end Fiano.Apcb
