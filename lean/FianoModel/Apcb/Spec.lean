/-
  Abstract APCB v3 blob, written from the format (AgesaPkg ApcbV3Arch.h as quoted in internal.go):
  a 128-byte header, then groups; a token group (GroupID 0x3000) holds types; a type holds
  (token id, value) pairs under one (type id, priority mask, board mask).  `ser` is the reference
  serialiser, `WF` the representability conditions, `tokensOf` the abstract listing and
  `absUpsert` the abstract upsert.  Nothing here looks at bytes of an existing blob.
-/
import FianoModel.Apcb.Model

namespace Fiano.Apcb

/-- one type entry of a token group: the header fields other than `SizeOfType`, and the pairs -/
structure TypeE where
  gid : Nat       -- uint16 (GroupID copy inside the type header)
  tid : Nat       -- uint16 TypeID = value width class (0 bool, 1, 2, 4 bytes)
  inst : Nat      -- uint16
  ctxT : Nat      -- uint8
  ctxF : Nat      -- uint8
  unit : Nat      -- uint8
  prio : Nat      -- uint8 PriorityMask
  keySize : Nat   -- uint8
  keyPos : Nat    -- uint8
  board : Nat     -- uint16 BoardMask
  pairs : List (Nat × Nat)   -- (token id, raw 32-bit value)
  deriving DecidableEq, Repr, Inhabited

inductive Group where
  /-- GroupID = 0x3000; `extra` = header bytes beyond the 16 fixed ones (SizeOfHeader = 16+|extra|) -/
  | tokens (sig ver res : Nat) (extra : Bytes) (types : List TypeE)
  /-- any other group: opaque payload; its SizeOfHeader field `sh` is not interpreted -/
  | foreign (sig gid sh ver res : Nat) (raw : Bytes)
  deriving DecidableEq, Repr, Inhabited

structure Apcb where
  pre : Bytes      -- header bytes 0..8   (Signature, SizeOfHeader, Version)
  post : Bytes     -- header bytes 12..128 (everything after SizeOfAPCB)
  groups : List Group
  deriving DecidableEq, Repr, Inhabited

/-! ### reference serialiser -/

def encPair (p : Nat × Nat) : Bytes := leN 4 p.1 ++ leN 4 p.2

def serPairs : List (Nat × Nat) → Bytes
  | [] => []
  | p :: ps => encPair p ++ serPairs ps

def TypeE.size (e : TypeE) : Nat := tHdrSize + pairSize * e.pairs.length

def encTypeHdr (e : TypeE) (size : Nat) : Bytes :=
  leN 2 e.gid ++ leN 2 e.tid ++ leN 2 size ++ leN 2 e.inst ++
    [UInt8.ofNat e.ctxT, UInt8.ofNat e.ctxF, UInt8.ofNat e.unit, UInt8.ofNat e.prio,
     UInt8.ofNat e.keySize, UInt8.ofNat e.keyPos] ++ leN 2 e.board

def serType (e : TypeE) : Bytes := encTypeHdr e e.size ++ serPairs e.pairs

def serTypes : List TypeE → Bytes
  | [] => []
  | e :: es => serType e ++ serTypes es

def encGroupHdr (sig gid sh ver res sg : Nat) : Bytes :=
  leN 4 sig ++ leN 2 gid ++ leN 2 sh ++ leN 2 ver ++ leN 2 res ++ leN 4 sg

def serGroup : Group → Bytes
  | .tokens sig ver res extra types =>
    encGroupHdr sig tokensGroupID (gHdrSize + extra.length) ver res
      (gHdrSize + extra.length + (serTypes types).length) ++ extra ++ serTypes types
  | .foreign sig gid sh ver res raw =>
    encGroupHdr sig gid sh ver res (gHdrSize + raw.length) ++ raw

def serGroups : List Group → Bytes
  | [] => []
  | g :: gs => serGroup g ++ serGroups gs

def Apcb.size (a : Apcb) : Nat := hdrSize + (serGroups a.groups).length

def ser (a : Apcb) : Bytes := a.pre ++ leN 4 a.size ++ a.post ++ serGroups a.groups

/-! ### well-formedness: every field is representable in its width, signatures are right -/

structure TypeE.WF (e : TypeE) : Prop where
  gid : e.gid < 2 ^ 16
  tid : e.tid < 2 ^ 16
  inst : e.inst < 2 ^ 16
  ctxT : e.ctxT < 2 ^ 8
  ctxF : e.ctxF < 2 ^ 8
  unit : e.unit < 2 ^ 8
  prio : e.prio < 2 ^ 8
  keySize : e.keySize < 2 ^ 8
  keyPos : e.keyPos < 2 ^ 8
  board : e.board < 2 ^ 16
  pairs : ∀ p ∈ e.pairs, p.1 < 2 ^ 32 ∧ p.2 < 2 ^ 32
  size : e.size < 2 ^ 16            -- SizeOfType is a uint16

def Group.WF : Group → Prop
  | .tokens sig ver res extra types =>
    sig < 2 ^ 32 ∧ ver < 2 ^ 16 ∧ res < 2 ^ 16 ∧ gHdrSize + extra.length < 2 ^ 16 ∧
    (∀ e ∈ types, e.WF) ∧ gHdrSize + extra.length + (serTypes types).length < 2 ^ 32
  | .foreign sig gid sh ver res raw =>
    sig < 2 ^ 32 ∧ gid < 2 ^ 16 ∧ gid ≠ tokensGroupID ∧ sh < 2 ^ 16 ∧ ver < 2 ^ 16 ∧ res < 2 ^ 16 ∧
    gHdrSize + raw.length < 2 ^ 32

structure Apcb.WF (a : Apcb) : Prop where
  pre : a.pre.length = 8
  post : a.post.length = 116
  sig : rd a.pre 0 4 = sigV2
  sig2 : rd a.post 20 4 = sigV3          -- absolute offset 32
  sigEnd : rd a.post 112 4 = sigEnd      -- absolute offset 124
  groups : ∀ g ∈ a.groups, g.WF
  size : a.size < 2 ^ 32                 -- SizeOfAPCB is a uint32

/-- the request is what `parseValue` can produce -/
structure Tok.WF (t : Tok) : Prop where
  id : t.id < 2 ^ 32
  prio : t.prio < 2 ^ 8
  board : t.board < 2 ^ 16
  tid : t.tid = 0 ∨ t.tid = 1 ∨ t.tid = 2 ∨ t.tid = 4
  val : t.val < 2 ^ 32

/-! ### abstract listing -/

/-- the listed form of one pair of a type entry -/
def TypeE.ltok (e : TypeE) (p : Nat × Nat) (v : Nat) : LTok :=
  { id := p.1, prio := e.prio, board := e.board, tid := e.tid, val := v }

def pairsToks (e : TypeE) : List (Nat × Nat) → Option (List LTok)
  | [] => some []
  | p :: ps =>
    match processValue e.tid p.2, pairsToks e ps with
    | some v, some r => some (e.ltok p v :: r)
    | _, _ => none

def TypeE.toks (e : TypeE) : Option (List LTok) := pairsToks e e.pairs

def typesTokens : List TypeE → Option (List LTok)
  | [] => some []
  | e :: es =>
    match e.toks, typesTokens es with
    | some a, some b => some (a ++ b)
    | _, _ => none

def Group.toks : Group → Option (List LTok)
  | .tokens _ _ _ _ types => typesTokens types
  | .foreign .. => some []

def groupsTokens : List Group → Option (List LTok)
  | [] => some []
  | g :: gs =>
    match g.toks, groupsTokens gs with
    | some a, some b => some (a ++ b)
    | _, _ => none

/-- every token of the blob in blob order; `none` iff some non-empty type has an unknown type id -/
def tokensOf (a : Apcb) : Option (List LTok) := groupsTokens a.groups

/-! ### abstract upsert -/

/-- same type id and *intersecting* masks -/
def TypeE.matches (t : Tok) (e : TypeE) : Bool :=
  t.tid = e.tid && (e.board &&& t.board) ≠ 0 && (e.prio &&& t.prio) ≠ 0

/-- a matching type that already holds the token id -/
def TypeE.holds (t : Tok) (e : TypeE) : Bool := e.matches t && e.pairs.any (fun p => p.1 = t.id)

def updPairs (id val : Nat) (ps : List (Nat × Nat)) : List (Nat × Nat) :=
  ps.map (fun p => if p.1 = id then (p.1, val) else p)

/-- number of pairs up to and including the last one whose id is `≤ id` (0 if there is none):
    the position at which the code inserts.  For a sorted list this is the sorted position. -/
def insIdx (id : Nat) : List (Nat × Nat) → Nat
  | [] => 0
  | p :: ps => if insIdx id ps > 0 then insIdx id ps + 1 else if p.1 ≤ id then 1 else 0

def insPairs (id val : Nat) (ps : List (Nat × Nat)) : List (Nat × Nat) :=
  ps.take (insIdx id ps) ++ (id, val) :: ps.drop (insIdx id ps)

def TypeE.upd (t : Tok) (e : TypeE) : TypeE :=
  if e.matches t then { e with pairs := updPairs t.id t.val e.pairs } else e

/-- `e` with the new pair inserted -/
def TypeE.insP (t : Tok) (e : TypeE) : TypeE := { e with pairs := insPairs t.id t.val e.pairs }

def TypeE.ins (t : Tok) (e : TypeE) : Option TypeE :=
  if e.matches t then some (e.insP t) else none

/-- apply `f` to the last element on which it is defined -/
def modifyLast? {α : Type} (f : α → Option α) : List α → Option (List α)
  | [] => none
  | x :: xs =>
    match modifyLast? f xs with
    | some xs' => some (x :: xs')
    | none => (f x).map (· :: xs)

/-- the last element on which `f` is defined, mapped -/
def findLast? {α β : Type} (f : α → Option β) : List α → Option β
  | [] => none
  | x :: xs =>
    match findLast? f xs with
    | some y => some y
    | none => f x

def Group.holds (t : Tok) : Group → Bool
  | .tokens _ _ _ _ types => types.any (TypeE.holds t)
  | .foreign .. => false

def Group.upd (t : Tok) : Group → Group
  | .tokens sig ver res extra types => .tokens sig ver res extra (types.map (TypeE.upd t))
  | g => g

def Group.ins (t : Tok) : Group → Option Group
  | .tokens sig ver res extra types =>
    (modifyLast? (TypeE.ins t) types).map (Group.tokens sig ver res extra)
  | .foreign .. => none

/-- the type created by `constructNewTypeForToken` -/
def newType (t : Tok) : TypeE :=
  { gid := tokensGroupID, tid := t.tid, inst := 0, ctxT := tokenV3ContextType,
    ctxF := sortAscContextFormat, unit := newUnitSize, prio := t.prio, keySize := newKeySize,
    keyPos := 0, board := t.board, pairs := [(t.id, t.val)] }

def Group.addType (t : Tok) : Group → Option Group
  | .tokens sig ver res extra types => some (.tokens sig ver res extra (types ++ [newType t]))
  | .foreign .. => none

/-- the group created by `constructNewGroupForToken` -/
def newGroup (t : Tok) : Group := .tokens sigTokGroup newGroupVersion 0 [] [newType t]

/-- the type an insertion would go into: the last matching type of the blob -/
def Group.target (t : Tok) : Group → Option TypeE
  | .tokens _ _ _ _ types => findLast? (fun e => if e.matches t then some e else none) types
  | .foreign .. => none

def target (t : Tok) (a : Apcb) : Option TypeE := findLast? (Group.target t) a.groups

/-- that type cannot take another pair (SizeOfType would exceed 0xFFFF) -/
def typeFull (t : Tok) (a : Apcb) : Bool :=
  match target t a with
  | some e => decide (e.size + pairSize > 0xFFFF)
  | none => false

/-- does some matching type already hold the id? -/
def holds (t : Tok) (a : Apcb) : Bool := a.groups.any (Group.holds t)

def Apcb.withGroups (a : Apcb) (gs : List Group) : Apcb := { a with groups := gs }

/-- the blob after the upsert and the number of bytes it grows by:
    update in every matching type that holds the id; else insert into the last matching type
    (after the last id ≤ new); else a new type at the end of the last token group; else a new
    token group at the end. -/
def absUpsert (t : Tok) (a : Apcb) : Apcb × Nat :=
  if holds t a then (a.withGroups (a.groups.map (Group.upd t)), 0)
  else match modifyLast? (Group.ins t) a.groups with
    | some gs => (a.withGroups gs, pairSize)
    | none =>
      match modifyLast? (Group.addType t) a.groups with
      | some gs => (a.withGroups gs, tHdrSize + pairSize)
      | none => (a.withGroups (a.groups ++ [newGroup t]), gHdrSize + tHdrSize + pairSize)

/-- what `UpsertToken` is specified to do on the buffer `ser a ++ slack` -/
def specUpsert (t : Tok) (a : Apcb) (slack : Bytes) : Bytes × Status :=
  if holds t a then (ser (absUpsert t a).1 ++ slack, .ok)
  else if typeFull t a then (ser a ++ slack, .err)
  else if (absUpsert t a).2 ≤ slack.length then
    (ser (absUpsert t a).1 ++ slack.drop (absUpsert t a).2, .ok)
  else (ser a ++ slack, .err)

end Fiano.Apcb
