/-
  Small consequences of the specification used by the property theorems: when the specified
  upsert succeeds / fails, by how much the blob grows, totality of `processValue` on requests,
  and the notion "every type is sorted".
-/
import FianoModel.Apcb.UpdateBytes
import FianoModel.Apcb.Total

namespace Fiano.Apcb

/-- when does the specified upsert succeed -/
def succeeds (t : Tok) (a : Apcb) (slack : Bytes) : Prop :=
  holds t a = true ∨ (typeFull t a = false ∧ (absUpsert t a).2 ≤ slack.length)

theorem specUpsert_ok (t : Tok) (a : Apcb) (slack : Bytes) (h : succeeds t a slack) :
    specUpsert t a slack = (ser (absUpsert t a).1 ++ slack.drop (absUpsert t a).2, .ok) := by
  unfold specUpsert
  rcases h with hh | ⟨hf, hr⟩
  · have : (absUpsert t a).2 = 0 := by simp [absUpsert, hh]
    simp [hh, this]
  · by_cases hh : holds t a
    · have : (absUpsert t a).2 = 0 := by simp [absUpsert, hh]
      simp [hh, this]
    · simp [hh, hf, hr]

theorem specUpsert_err (t : Tok) (a : Apcb) (slack : Bytes) (h : ¬ succeeds t a slack) :
    specUpsert t a slack = (ser a ++ slack, .err) := by
  unfold specUpsert
  unfold succeeds at h
  by_cases hh : holds t a
  · exact (h (Or.inl hh)).elim
  · by_cases hf : typeFull t a
    · simp [hh, hf]
    · by_cases hr : (absUpsert t a).2 ≤ slack.length
      · exact (h (Or.inr ⟨by simpa using hf, hr⟩)).elim
      · simp [hh, hf, hr]

/-- the grown blob still fits: its size is the old size plus the added bytes -/
theorem absUpsert_size (t : Tok) (a : Apcb) : (absUpsert t a).1.size = a.size + (absUpsert t a).2 := by
  cases absUpsert_cases t a with
  | update hh hr => rw [hr]; simp [Apcb.size, Apcb.withGroups, serGroups_upd_length]
  | pair hh gpre gpost sig ver res extra tpre tpost e hg he htp hgp htarget hr =>
    rw [hr]
    have hs1 : (e.insP t).size = e.size + 8 := by
      simp [TypeE.size, TypeE.insP, insPairs_length, tHdrSize, pairSize]; omega
    simp only [Apcb.size, Apcb.withGroups, hg, serGroups_append, serGroups_cons, List.length_append, serGroup,
      encGroupHdr_length, serTypes_append, serTypes_cons, serType_length, hs1]
    omega
  | type hh gpre gpost sig ver res extra types hg hpre htm hpost htarget hr =>
    rw [hr]
    have hs2 : (serTypes (types ++ [newType t])).length = (serTypes types).length + 24 := by
      simp [serTypes_append, serTypes, TypeE.size, newType, tHdrSize, pairSize]
    simp only [Apcb.size, Apcb.withGroups, hg, serGroups_append, serGroups_cons, List.length_append, serGroup,
      encGroupHdr_length, hs2]
    omega
  | group hh hf htarget hr =>
    rw [hr]
    have hl : (serGroup (newGroup t)).length = 40 := by
      rw [serGroup_newGroup]; simp [newGroupBytes, newTypeBytes]
    simp only [Apcb.size, Apcb.withGroups, serGroups_append, serGroups, List.length_append, hl, List.append_nil]
    omega

/-- the value as the listing will show it (`processValue`): total for requests out of `parseValue` -/
theorem processValue_req (t : Tok) (ht : t.WF) : ∃ pv, processValue t.tid t.val = some pv := by
  rcases ht.tid with h | h | h | h <;> simp [processValue, h]

def Group.sorted : Group → Prop
  | .tokens _ _ _ _ types => ∀ e ∈ types, SortedIds e.pairs
  | .foreign .. => True

/-- every type of every token group has ascending ids -/
def Apcb.sorted (a : Apcb) : Prop := ∀ g ∈ a.groups, g.sorted


end Fiano.Apcb
