/-
  Totality of the repaired code on *arbitrary* bytes (no well-formedness assumed): the model never
  reaches one of its slice-fault branches and the buffer keeps its length.  This is the C20 side
  of the package: it is what the two bounds-check fixes are for.
-/
import FianoModel.Apcb.Model

namespace Fiano.Apcb

/-! ### generic: the loops keep lengths and never invent a fault -/

/-- a callback that keeps the length of `typeData` and never faults -/
structure Cb.Tame {σ : Type} (cb : Cb σ) : Prop where
  len : ∀ s gh goff th toff td, (cb.onType s gh goff th toff td).2.1.length = td.length
  nopanic : ∀ s gh goff th toff td, (cb.onType s gh goff th toff td).2.2 ≠ .panic

theorem typesLoop_tame {σ : Type} (cb : Cb σ) (hc : cb.Tame) (gh : Bytes) (goff : Nat) (rem : Bytes)
    (toff : Nat) (s : σ) :
    (typesLoop cb gh goff rem toff s).2.1.length = rem.length ∧ (typesLoop cb gh goff rem toff s).2.2 ≠ .panic := by
  induction hn : rem.length using Nat.strongRecOn generalizing rem toff s with
  | _ n ih =>
    rw [typesLoop]
    split
    · exact ⟨hn, by simp⟩
    · split
      · exact ⟨hn, by simp⟩
      · simp only []
        split
        · exact ⟨hn, by simp⟩
        · split
          · exact ⟨hn, by simp⟩
          · rename_i h0 h1 h2 h3
            simp only [tHdrSize] at h1 h2 h3
            have hl := hc.len s gh goff (rem.take tHdrSize) toff
              ((rem.take (rd (rem.take tHdrSize) tOffSizeOfType 2)).drop tHdrSize)
            have hp := hc.nopanic s gh goff (rem.take tHdrSize) toff
              ((rem.take (rd (rem.take tHdrSize) tOffSizeOfType 2)).drop tHdrSize)
            generalize cb.onType s gh goff (rem.take tHdrSize) toff
              ((rem.take (rd (rem.take tHdrSize) tOffSizeOfType 2)).drop tHdrSize) = res at hl hp
            obtain ⟨s', td', r⟩ := res
            simp only [tHdrSize, List.length_drop, List.length_take] at hl hp
            have hst : rd (rem.take 16) tOffSizeOfType 2 ≤ rem.length := by omega
            cases r with
            | ok =>
              simp only []
              have := ih (rem.drop (rd (rem.take 16) tOffSizeOfType 2)).length
                (by simp only [List.length_drop]; omega) (rem.drop (rd (rem.take 16) tOffSizeOfType 2))
                (toff + rd (rem.take 16) tOffSizeOfType 2) s' rfl
              simp only [tHdrSize] at this ⊢
              generalize typesLoop cb gh goff _ _ s' = res2 at this
              obtain ⟨s'', out, r2⟩ := res2
              simp only [List.length_drop] at this
              refine ⟨?_, this.2⟩
              simp only [List.length_append, List.length_take, this.1, hl]
              omega
            | err =>
              refine ⟨?_, by simp⟩
              simp only [List.length_append, List.length_take, List.length_drop, hl, tHdrSize]
              omega
            | panic => exact (hp rfl).elim


theorem groupsLoop_tame {σ : Type} (cb : Cb σ) (hc : cb.Tame) (rem : Bytes) (goff : Nat) (s : σ) :
    (groupsLoop cb rem goff s).2.1.length = rem.length ∧ (groupsLoop cb rem goff s).2.2 ≠ .panic := by
  induction hn : rem.length using Nat.strongRecOn generalizing rem goff s with
  | _ n ih =>
    rw [groupsLoop]
    split
    · exact ⟨hn, by simp⟩
    · split
      · exact ⟨hn, by simp⟩
      · simp only []
        split
        · exact ⟨hn, by simp⟩
        · split
          · exact ⟨hn, by simp⟩
          · rename_i h0 h1 h2 h3
            simp only [gHdrSize] at h1 h2 h3
            have hsg : rd (rem.take 16) gOffSizeOfGroup 4 ≤ rem.length := by omega
            have hrec := fun goff' s' => ih (rem.drop (rd (rem.take 16) gOffSizeOfGroup 4)).length
                (by simp only [List.length_drop]; omega) (rem.drop (rd (rem.take 16) gOffSizeOfGroup 4)) goff' s' rfl
            simp only [gHdrSize]
            by_cases hgid : rd (rem.take 16) gOffGroupID 2 = tokensGroupID
            · simp only [hgid, if_true]
              by_cases hsh : rd (rem.take 16) gOffSizeOfHeader 2 > rd (rem.take 16) gOffSizeOfGroup 4
              · simp only [hsh, if_true]
                exact ⟨hn, by simp⟩
              · simp only [hsh, if_false]
                have ht := typesLoop_tame cb hc (rem.take 16) goff
                  ((rem.take (rd (rem.take 16) gOffSizeOfGroup 4)).drop (rd (rem.take 16) gOffSizeOfHeader 2)) 0
                  (cb.onGroup s (rem.take 16) goff)
                generalize typesLoop cb (rem.take 16) goff _ 0 _ = res at ht
                obtain ⟨s', gd', r⟩ := res
                simp only [List.length_drop, List.length_take] at ht
                cases r with
                | ok =>
                  simp only []
                  have := hrec (goff + rd (rem.take 16) gOffSizeOfGroup 4) s'
                  generalize groupsLoop cb _ _ s' = res2 at this
                  obtain ⟨s'', out, r2⟩ := res2
                  simp only [List.length_drop] at this
                  refine ⟨?_, this.2⟩
                  simp only [List.length_append, List.length_take, this.1, ht.1]
                  omega
                | err =>
                  refine ⟨?_, by simp⟩
                  simp only [List.length_append, List.length_take, List.length_drop, ht.1]
                  omega
                | panic => exact (ht.2 rfl).elim
            · simp only [hgid, if_false]
              have := hrec (goff + rd (rem.take 16) gOffSizeOfGroup 4) s
              generalize groupsLoop cb _ _ s = res2 at this
              obtain ⟨s'', out, r2⟩ := res2
              simp only [List.length_drop] at this
              refine ⟨?_, this.2⟩
              simp only [List.length_append, List.length_take, this.1]
              omega

/-! ### the two callbacks are tame -/

theorem upsertPairs_length (id val : Nat) (n : Nat) (td : Bytes) (poff to : Nat) (ch : Bool)
    (h : 8 * n ≤ td.length) :
    (upsertPairs id val n td poff to ch).1.length = td.length ∧
      (upsertPairs id val n td poff to ch).2.1 ≤ max to (poff + 8 * n) := by
  have h8 : pairSize = 8 := rfl
  induction n generalizing td poff to ch with
  | zero => simp only [upsertPairs]; exact ⟨trivial, by omega⟩
  | succ n ih =>
    simp only [upsertPairs]
    have hd : 8 * n ≤ (td.drop pairSize).length := by simp only [List.length_drop]; omega
    generalize hto : (if rd (td.take pairSize) 0 4 ≤ id then poff + pairSize else to) = to1
    have hto1 : to1 ≤ max to (poff + 8) := by rw [← hto]; split <;> omega
    by_cases hid : rd (td.take pairSize) 0 4 = id
    · simp only [hid, if_true]
      have := ih (td.drop pairSize) (poff + pairSize) to1 true hd
      generalize upsertPairs id val n (td.drop pairSize) (poff + pairSize) to1 true = res at this
      obtain ⟨out, to', ch'⟩ := res
      simp only [List.length_drop] at this
      refine ⟨by simp only [List.length_append, leN_length, this.1]; omega, ?_⟩
      have := this.2
      simp only [] at this ⊢
      omega
    · simp only [hid, if_false]
      have := ih (td.drop pairSize) (poff + pairSize) to1 ch hd
      generalize upsertPairs id val n (td.drop pairSize) (poff + pairSize) to1 ch = res at this
      obtain ⟨out, to', ch'⟩ := res
      simp only [List.length_drop] at this
      refine ⟨by simp only [List.length_append, List.length_take, this.1]; omega, ?_⟩
      have := this.2
      simp only [] at this ⊢
      omega

theorem upsertCb_tame (t : Tok) : (upsertCb t).Tame := by
  constructor
  · intro s gh goff th toff td
    simp only [upsertCb]
    split
    · rfl
    · split
      · rfl
      · rename_i hmod
        have := (upsertPairs_length t.id t.val (td.length / pairSize) td 0 0 s.changed
          (by simp only [pairSize] at hmod ⊢; omega)).1
        generalize upsertPairs t.id t.val (td.length / pairSize) td 0 0 s.changed = res at this
        obtain ⟨td', to, ch⟩ := res
        exact this
  · intro s gh goff th toff td
    simp only [upsertCb]
    split
    · simp
    · split
      · simp
      · generalize upsertPairs t.id t.val (td.length / pairSize) td 0 0 s.changed = res
        obtain ⟨td', to, ch⟩ := res
        simp

theorem listPairs_status (th : Bytes) (n : Nat) (td : Bytes) (acc : List LTok) :
    (listPairs th n td acc).2 ≠ .panic := by
  induction n generalizing td acc with
  | zero => simp [listPairs]
  | succ n ih =>
    simp only [listPairs]
    split
    · simp
    · exact ih _ _

theorem listCb_tame : listCb.Tame := by
  constructor
  · intro s gh goff th toff td
    simp only [listCb]
    split <;> rfl
  · intro s gh goff th toff td
    simp only [listCb]
    split
    · simp
    · exact listPairs_status _ _ _ _


/-! ### generic: a state predicate carried through the loops -/

theorem typesLoop_pres {σ : Type} (cb : Cb σ) (gh : Bytes) (goff D : Nat) (P : σ → Prop)
    (hstep : ∀ s th toff td, P s → th.length = 16 → 16 ≤ rd th tOffSizeOfType 2 →
      td.length = rd th tOffSizeOfType 2 - 16 → toff + rd th tOffSizeOfType 2 ≤ D →
      P (cb.onType s gh goff th toff td).1)
    (rem : Bytes) (toff : Nat) (s : σ) (hs : P s) (hfit : toff + rem.length ≤ D) :
    P (typesLoop cb gh goff rem toff s).1 := by
  induction hn : rem.length using Nat.strongRecOn generalizing rem toff s with
  | _ n ih =>
    rw [typesLoop]
    split
    · exact hs
    · split
      · exact hs
      · simp only []
        split
        · exact hs
        · split
          · exact hs
          · rename_i h0 h1 h2 h3
            simp only [tHdrSize] at h1 h2 h3
            have hst : rd (rem.take 16) tOffSizeOfType 2 ≤ rem.length := by omega
            have hp := hstep s (rem.take tHdrSize) toff
              ((rem.take (rd (rem.take tHdrSize) tOffSizeOfType 2)).drop tHdrSize) hs
              (by simp only [tHdrSize, List.length_take]; omega) (by simp only [tHdrSize]; omega)
              (by simp only [tHdrSize, List.length_drop, List.length_take]; omega)
              (by simp only [tHdrSize]; omega)
            generalize cb.onType s gh goff (rem.take tHdrSize) toff
              ((rem.take (rd (rem.take tHdrSize) tOffSizeOfType 2)).drop tHdrSize) = res at hp
            obtain ⟨s', td', r⟩ := res
            cases r with
            | ok =>
              simp only []
              have := ih (rem.drop (rd (rem.take 16) tOffSizeOfType 2)).length
                (by simp only [List.length_drop]; omega) (rem.drop (rd (rem.take 16) tOffSizeOfType 2))
                (toff + rd (rem.take 16) tOffSizeOfType 2) s' hp
                (by simp only [List.length_drop]; omega) rfl
              simp only [tHdrSize] at this ⊢
              generalize typesLoop cb gh goff _ _ s' = res2 at this
              obtain ⟨s'', out, r2⟩ := res2
              exact this
            | err => exact hp
            | panic => exact hp

theorem groupsLoop_pres {σ : Type} (cb : Cb σ) (L : Nat) (P : σ → Prop)
    (hgroup : ∀ s gh goff, P s → gh.length = 16 → 16 ≤ rd gh gOffSizeOfGroup 4 →
      goff + rd gh gOffSizeOfGroup 4 ≤ L → P (cb.onGroup s gh goff))
    (hstep : ∀ s gh goff th toff td, P s → gh.length = 16 → 16 ≤ rd gh gOffSizeOfGroup 4 →
      goff + rd gh gOffSizeOfGroup 4 ≤ L → rd gh gOffSizeOfHeader 2 ≤ rd gh gOffSizeOfGroup 4 →
      th.length = 16 → 16 ≤ rd th tOffSizeOfType 2 → td.length = rd th tOffSizeOfType 2 - 16 →
      rd gh gOffSizeOfHeader 2 + toff + rd th tOffSizeOfType 2 ≤ rd gh gOffSizeOfGroup 4 →
      P (cb.onType s gh goff th toff td).1)
    (rem : Bytes) (goff : Nat) (s : σ) (hs : P s) (hfit : goff + rem.length ≤ L) :
    P (groupsLoop cb rem goff s).1 := by
  induction hn : rem.length using Nat.strongRecOn generalizing rem goff s with
  | _ n ih =>
    rw [groupsLoop]
    split
    · exact hs
    · split
      · exact hs
      · simp only []
        split
        · exact hs
        · split
          · exact hs
          · rename_i h0 h1 h2 h3
            simp only [gHdrSize] at h1 h2 h3
            have hsg : rd (rem.take 16) gOffSizeOfGroup 4 ≤ rem.length := by omega
            have hghl : (rem.take 16).length = 16 := by simp only [List.length_take]; omega
            have hrec := fun goff' s' (hs' : P s') (hf : goff' + (rem.length - rd (rem.take 16) gOffSizeOfGroup 4) ≤ L) =>
              ih (rem.drop (rd (rem.take 16) gOffSizeOfGroup 4)).length
                (by simp only [List.length_drop]; omega) (rem.drop (rd (rem.take 16) gOffSizeOfGroup 4)) goff' s' hs'
                (by simp only [List.length_drop]; exact hf) rfl
            simp only [gHdrSize]
            by_cases hgid : rd (rem.take 16) gOffGroupID 2 = tokensGroupID
            · simp only [hgid, if_true]
              by_cases hsh : rd (rem.take 16) gOffSizeOfHeader 2 > rd (rem.take 16) gOffSizeOfGroup 4
              · simp only [hsh, if_true]; exact hs
              · simp only [hsh, if_false]
                have hg1 := hgroup s (rem.take 16) goff hs hghl (by omega) (by omega)
                have ht := typesLoop_pres cb (rem.take 16) goff
                  (rd (rem.take 16) gOffSizeOfGroup 4 - rd (rem.take 16) gOffSizeOfHeader 2) P
                  (fun s th toff td hps h1' h2' h3' h4' =>
                    hstep s (rem.take 16) goff th toff td hps hghl (by omega) (by omega) (by omega) h1' h2' h3'
                      (by omega))
                  ((rem.take (rd (rem.take 16) gOffSizeOfGroup 4)).drop (rd (rem.take 16) gOffSizeOfHeader 2)) 0
                  (cb.onGroup s (rem.take 16) goff) hg1
                  (by simp only [List.length_drop, List.length_take]; omega)
                generalize typesLoop cb (rem.take 16) goff _ 0 _ = res at ht
                obtain ⟨s', gd', r⟩ := res
                cases r with
                | ok =>
                  simp only []
                  have := hrec (goff + rd (rem.take 16) gOffSizeOfGroup 4) s' ht (by omega)
                  generalize groupsLoop cb _ _ s' = res2 at this
                  obtain ⟨s'', out, r2⟩ := res2
                  exact this
                | err => exact ht
                | panic => exact ht
            · simp only [hgid, if_false]
              have := hrec (goff + rd (rem.take 16) gOffSizeOfGroup 4) s hs (by omega)
              generalize groupsLoop cb _ _ s = res2 at this
              obtain ⟨s'', out, r2⟩ := res2
              exact this


/-! ### what the closure variables of UpsertToken guarantee on any input -/

/-- the matched group lies inside the body (of length `L`), the matched type inside the group's
    data, the token offset inside the type's pairs -/
def USt.Inv (L : Nat) (s : USt) : Prop :=
  match s.mg, s.mt with
  | some (gh, goff), some (th, toff) =>
    gh.length = 16 ∧ th.length = 16 ∧ goff + rd gh gOffSizeOfGroup 4 ≤ L ∧
    rd gh gOffSizeOfHeader 2 + toff + rd th tOffSizeOfType 2 ≤ rd gh gOffSizeOfGroup 4 ∧
    s.tokOff + 16 ≤ rd th tOffSizeOfType 2
  | some (gh, goff), none => gh.length = 16 ∧ goff + rd gh gOffSizeOfGroup 4 ≤ L ∧ 16 ≤ rd gh gOffSizeOfGroup 4
  | none, some _ => False
  | none, none => True

theorem upsert_walk_inv (t : Tok) (body : Bytes) :
    (groupsLoop (upsertCb t) body 0 { mg := none, mt := none, tokOff := 0, changed := false }).1.Inv body.length := by
  refine groupsLoop_pres (upsertCb t) body.length (USt.Inv body.length) ?_ ?_ body 0 _ trivial (by omega)
  · intro s gh goff hs hgh hsg hfit
    simp only [upsertCb]
    cases hmt : s.mt with
    | none => simp only [Option.isNone_none, if_true, USt.Inv]; exact ⟨hgh, hfit, hsg⟩
    | some x => simp only [Option.isNone_some, Bool.false_eq_true, if_false]; exact hs
  · intro s gh goff th toff td hs hgh hsg hfit hsh hth hst htd hin
    simp only [upsertCb]
    split
    · exact hs
    · split
      · simp only [USt.Inv]; exact ⟨hgh, hth, hfit, hin, by omega⟩
      · rename_i hmod
        have := (upsertPairs_length t.id t.val (td.length / pairSize) td 0 0 s.changed
          (by simp only [pairSize] at hmod ⊢; omega)).2
        generalize upsertPairs t.id t.val (td.length / pairSize) td 0 0 s.changed = res at this
        obtain ⟨td', to, ch⟩ := res
        simp only [USt.Inv]
        simp only [pairSize] at this hmod
        exact ⟨hgh, hth, hfit, hin, by omega⟩

/-! ### the second half never faults -/

theorem writeAt_fits (b d : Bytes) (pos : Nat) (h : pos + d.length ≤ b.length) :
    writeAt b pos d = (splice b pos d, .ok) ∧ (splice b pos d).length = b.length := by
  unfold writeAt
  rw [if_neg (by omega), if_pos h]
  exact ⟨rfl, splice_length b pos d h⟩

theorem shiftTail_fits (b : Bytes) (ins add size : Nat) (h1 : ins ≤ size) (h2 : size + add ≤ b.length) :
    ∃ b1, shiftTail b ins add size = (b1, .ok) ∧ b1.length = b.length := by
  unfold shiftTail
  rw [if_neg (by omega), if_neg (by omega)]
  refine ⟨_, rfl, ?_⟩
  apply splice_length
  simp only [List.length_take, slice, List.length_drop]
  omega

theorem insertNew_total (t : Tok) (b hdr : Bytes) (size : Nat) (s : USt)
    (hb : b.length + 40 < 2 ^ 32) (hhdr : hdr.length = 128) (hsz : 128 ≤ size) (hsb : size ≤ b.length)
    (hs : s.Inv (size - 128)) :
    (insertNew t b hdr size s).2 ≠ .panic ∧ (insertNew t b hdr size s).1.length = b.length := by
  have hnp : (newTypeBytes t).length = 24 := by simp [newTypeBytes]
  have hng : (newGroupBytes t).length = 40 := by simp [newGroupBytes, newTypeBytes]
  have hpl : (leN 4 t.id ++ leN 4 t.val).length = 8 := by simp
  unfold insertNew
  simp only [hdrSize, tHdrSize, pairSize]
  -- the three shapes of the state
  cases hmg : s.mg with
  | none =>
    cases hmt : s.mt with
    | some x => simp [USt.Inv, hmg, hmt] at hs
    | none =>
      simp only [hng]
      rw [if_neg (by simp)]
      split
      · exact ⟨by simp, rfl⟩
      · rename_i hroom
        rw [Nat.mod_eq_of_lt (by omega), Nat.mod_eq_of_lt (by omega)] at hroom
        obtain ⟨b1, h1, hl1⟩ := shiftTail_fits b size 40 size (Nat.le_refl _) (by omega)
        obtain ⟨h2, hl2⟩ := writeAt_fits b1 (newGroupBytes t) size (by omega)
        simp only [h1, h2]
        obtain ⟨h5, hl5⟩ := writeAt_fits (splice b1 size (newGroupBytes t)) (splice hdr offSizeOfAPCB (leN 4 ((size + 40) % 2 ^ 32))) 0
          (by simp [splice, offSizeOfAPCB, hhdr]; omega)
        rw [h5]
        exact ⟨by simp, by simp only []; omega⟩
  | some g =>
    obtain ⟨gh, goff⟩ := g
    cases hmt : s.mt with
    | none =>
      simp only [USt.Inv, hmg, hmt] at hs
      obtain ⟨hgh, hfit, hsg⟩ := hs
      simp only [Option.map_some, Option.getD_some, hnp]
      rw [if_neg (by simp)]
      split
      · exact ⟨by simp, rfl⟩
      · rename_i hroom
        rw [Nat.mod_eq_of_lt (by omega), Nat.mod_eq_of_lt (by omega)] at hroom
        obtain ⟨b1, h1, hl1⟩ := shiftTail_fits b (goff + 128 + rd gh gOffSizeOfGroup 4) 24 size (by omega) (by omega)
        obtain ⟨h2, hl2⟩ := writeAt_fits b1 (newTypeBytes t) (goff + 128 + rd gh gOffSizeOfGroup 4) (by omega)
        simp only [h1, h2]
        obtain ⟨h4, hl4⟩ := writeAt_fits (splice b1 (goff + 128 + rd gh gOffSizeOfGroup 4) (newTypeBytes t))
          (splice gh gOffSizeOfGroup (leN 4 ((rd gh gOffSizeOfGroup 4 + 24) % 2 ^ 32))) (goff + 128)
          (by simp [splice, gOffSizeOfGroup, hgh]; omega)
        rw [h4]
        simp only []
        obtain ⟨h5, hl5⟩ := writeAt_fits _ (splice hdr offSizeOfAPCB (leN 4 ((size + 24) % 2 ^ 32))) 0
          (by rw [hl4]; simp [splice, offSizeOfAPCB, hhdr]; omega)
        rw [h5]
        exact ⟨by simp, by simp only []; omega⟩
    | some ty =>
      obtain ⟨th, toff⟩ := ty
      simp only [USt.Inv, hmg, hmt] at hs
      obtain ⟨hgh, hth, hfit, hin, hto⟩ := hs
      simp only [Option.map_some, Option.getD_some, hpl]
      split
      · exact ⟨by simp, rfl⟩
      · split
        · exact ⟨by simp, rfl⟩
        · rename_i hfull hroom
          rw [Nat.mod_eq_of_lt (by omega), Nat.mod_eq_of_lt (by omega)] at hroom
          obtain ⟨b1, h1, hl1⟩ := shiftTail_fits b (goff + 128 + (toff + rd gh gOffSizeOfHeader 2) + 16 + s.tokOff) 8 size
            (by omega) (by omega)
          obtain ⟨h2, hl2⟩ := writeAt_fits b1 (leN 4 t.id ++ leN 4 t.val)
            (goff + 128 + (toff + rd gh gOffSizeOfHeader 2) + 16 + s.tokOff) (by omega)
          simp only [h1, h2]
          obtain ⟨h3, hl3⟩ := writeAt_fits (splice b1 (goff + 128 + (toff + rd gh gOffSizeOfHeader 2) + 16 + s.tokOff)
              (leN 4 t.id ++ leN 4 t.val))
            (splice th tOffSizeOfType (leN 2 ((rd th tOffSizeOfType 2 + 8) % 65536)))
            (goff + 128 + (toff + rd gh gOffSizeOfHeader 2))
            (by simp [splice, tOffSizeOfType, hth]; omega)
          rw [h3]
          simp only []
          obtain ⟨h4, hl4⟩ := writeAt_fits _
            (splice gh gOffSizeOfGroup (leN 4 ((rd gh gOffSizeOfGroup 4 + 8) % 2 ^ 32))) (goff + 128)
            (by rw [hl3]; simp [splice, gOffSizeOfGroup, hgh]; omega)
          rw [h4]
          simp only []
          obtain ⟨h5, hl5⟩ := writeAt_fits _ (splice hdr offSizeOfAPCB (leN 4 ((size + 8) % 2 ^ 32))) 0
            (by rw [hl4]; simp [splice, offSizeOfAPCB, hhdr]; omega)
          rw [h5]
          exact ⟨by simp, by simp only []; omega⟩


/-! ### the two entry points -/

theorem parseHeader_ok (b : Bytes) (size : Nat) (h : parseHeader b = .ok size) : 128 ≤ size ∧ size ≤ b.length := by
  unfold parseHeader at h
  have h128 : hdrSize = 128 := rfl
  by_cases c1 : b.length < hdrSize
  · rw [if_pos c1] at h; cases h
  rw [if_neg c1] at h
  by_cases c2 : rd b offSig 4 ≠ sigV2
  · rw [if_pos c2] at h; cases h
  rw [if_neg c2] at h
  by_cases c3 : rd b offSig2 4 ≠ sigV3
  · rw [if_pos c3] at h; cases h
  rw [if_neg c3] at h
  by_cases c4 : rd b offSigEnd 4 ≠ sigEnd
  · rw [if_pos c4] at h; cases h
  rw [if_neg c4] at h
  simp only [] at h
  by_cases c5 : rd b offSizeOfAPCB 4 < hdrSize
  · rw [if_pos c5] at h; cases h
  rw [if_neg c5] at h
  by_cases c6 : rd b offSizeOfAPCB 4 > b.length % 2 ^ 32
  · rw [if_pos c6] at h; cases h
  rw [if_neg c6] at h
  by_cases c7 : rd b offSizeOfAPCB 4 > b.length
  · rw [if_pos c7] at h; cases h
  rw [if_neg c7] at h
  injection h with h
  subst h
  exact ⟨by omega, by omega⟩

theorem parseHeader_nopanic (b : Bytes) : parseHeader b ≠ .error .panic := by
  unfold parseHeader
  by_cases c1 : b.length < hdrSize
  · rw [if_pos c1]; simp
  rw [if_neg c1]
  by_cases c2 : rd b offSig 4 ≠ sigV2
  · rw [if_pos c2]; simp
  rw [if_neg c2]
  by_cases c3 : rd b offSig2 4 ≠ sigV3
  · rw [if_pos c3]; simp
  rw [if_neg c3]
  by_cases c4 : rd b offSigEnd 4 ≠ sigEnd
  · rw [if_pos c4]; simp
  rw [if_neg c4]
  simp only []
  by_cases c5 : rd b offSizeOfAPCB 4 < hdrSize
  · rw [if_pos c5]; simp
  rw [if_neg c5]
  by_cases c6 : rd b offSizeOfAPCB 4 > b.length % 2 ^ 32
  · rw [if_pos c6]; simp
  rw [if_neg c6]
  have : b.length % 2 ^ 32 ≤ b.length := Nat.mod_le _ _
  rw [if_neg (by omega)]
  simp

/-- **UpsertToken is total on every buffer shorter than 4 GiB − 40**: it never reaches a slice
    fault and the buffer keeps its length (whatever the bytes are). -/
theorem upsert_total (t : Tok) (b : Bytes) (hb : b.length + 40 < 2 ^ 32) :
    (upsert t b).2 ≠ .panic ∧ (upsert t b).1.length = b.length := by
  unfold upsert
  cases hp : parseHeader b with
  | error e =>
    simp only []
    refine ⟨?_, trivial⟩
    intro he; subst he
    exact parseHeader_nopanic b hp
  | ok size =>
    simp only []
    obtain ⟨h1, h2⟩ := parseHeader_ok b size hp
    have htame := groupsLoop_tame (upsertCb t) (upsertCb_tame t) (slice b hdrSize (size - hdrSize)) 0
      { mg := none, mt := none, tokOff := 0, changed := false }
    have hinv := upsert_walk_inv t (slice b hdrSize (size - hdrSize))
    generalize groupsLoop (upsertCb t) (slice b hdrSize (size - hdrSize)) 0 _ = res at htame hinv
    obtain ⟨s, body', r⟩ := res
    simp only [] at htame hinv ⊢
    have hbl : (slice b hdrSize (size - hdrSize)).length = size - 128 := by
      rw [slice_length _ _ _ (by simp only [hdrSize]; omega)]; rfl
    have hbody : body'.length = size - 128 := by rw [htame.1, hbl]
    have hlen : (b.take hdrSize ++ body' ++ b.drop size).length = b.length := by
      simp only [List.length_append, List.length_take, List.length_drop, hbody, hdrSize]
      omega
    split
    · exact ⟨htame.2, hlen⟩
    · split
      · exact ⟨by simp, hlen⟩
      · have := insertNew_total t (b.take hdrSize ++ body' ++ b.drop size) (b.take hdrSize) size s
          (by rw [hlen]; exact hb) (by simp only [hdrSize, List.length_take]; omega) h1 (by rw [hlen]; exact h2)
          (by rw [hbl] at hinv; exact hinv)
        rw [hlen] at this
        exact this

/-- **ParseAPCBBinaryTokens is total**: no input reaches a slice fault. -/
theorem listing_total (b : Bytes) : (listing b).2 ≠ .panic := by
  unfold listing
  cases hp : parseHeader b with
  | error e =>
    simp only []
    intro he; subst he
    exact parseHeader_nopanic b hp
  | ok size =>
    simp only []
    have htame := groupsLoop_tame listCb listCb_tame (slice b hdrSize (size - hdrSize)) 0 []
    generalize groupsLoop listCb (slice b hdrSize (size - hdrSize)) 0 [] = res at htame
    obtain ⟨s, body', r⟩ := res
    exact htame.2

end Fiano.Apcb
