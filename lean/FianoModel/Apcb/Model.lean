/-
  Model of pkg/amd/apcb/{apcb,internal}.go: ParseAPCBBinaryTokens and UpsertToken, as repaired by
  fixes/C20-apcb-group-header-bounds.diff, fixes/C20-apcb-size-below-header.diff,
  fixes/C18-apcb-type-size-overflow.diff and fixes/C18-apcb-type-size-compare-truncated.diff.

  Hand-written transcription; tied to the Go code by
   * T1: `FianoModel.Gen.Apcb` (signatures, ids, struct layouts, slice/make inventory; `Apcb/Tie.lean`)
   * T2: the correspondence harness (harness/props/c18) driving `Driver/C18.lean`.

  Shape of the transcription.  The Go code walks `groups -> types -> token pairs` with three
  callback iterators over sub-slices that alias the caller's buffer, and `UpsertToken` overwrites
  the pair it is looking at from inside the innermost callback.  The model keeps that shape: each
  loop consumes the bytes of its level (`rem`) and returns the (possibly rewritten) bytes of the
  same length, the callback state and a status; offsets are counted exactly as the Go variables
  `offset` are.  A write from the innermost callback only touches the pair just read, so the
  rewritten level is `consumed-and-rewritten ++ untouched rest` - also when a later element makes
  the call fail (Go returns the error with the earlier in-place updates already made).

  Struct copies: Go decodes a header into a struct (`binary.Read`), keeps the copy, changes one
  size field and writes the whole struct back (`binary.Write`).  All fields are fixed-width
  integers, so the copy is represented by the raw bytes read at that moment and the write-back is
  those bytes with the one field replaced (encoding/binary round trip: modelled, not verified;
  field offsets are tied by T1).
-/
import FianoModel.Base.Bytes

namespace Fiano.Apcb

/-! ### constants (internal.go) -/

def hdrSize : Nat := 128        -- binary.Size(headerV3{})
def gHdrSize : Nat := 16        -- binary.Size(groupHeader{})
def tHdrSize : Nat := 16        -- binary.Size(typeHeaderV3{})
def pairSize : Nat := 8         -- binary.Size(tokenPair{})

def sigV2 : Nat := 0x42435041       -- "APCB"
def sigV3 : Nat := 0x32424345       -- "ECB2"
def sigEnd : Nat := 0x41424342      -- "BCBA"
def sigTokGroup : Nat := 0x4E4B4F54 -- "TOKN"
def tokensGroupID : Nat := 0x3000

-- field offsets inside the packed structs (tied to the layouts by Tie.lean)
def offSig : Nat := 0           -- headerV3.V2Header.Signature
def offSizeOfAPCB : Nat := 8    -- headerV3.V2Header.SizeOfAPCB
def offSig2 : Nat := 32         -- headerV3.Signature2
def offSigEnd : Nat := 124      -- headerV3.SignatureEnding
def gOffGroupID : Nat := 4      -- groupHeader.GroupID
def gOffSizeOfHeader : Nat := 6 -- groupHeader.SizeOfHeader
def gOffSizeOfGroup : Nat := 12 -- groupHeader.SizeOfGroup
def tOffTypeID : Nat := 2       -- typeHeaderV3.TypeID
def tOffSizeOfType : Nat := 4   -- typeHeaderV3.SizeOfType
def tOffPriorityMask : Nat := 11
def tOffBoardMask : Nat := 14

-- values written into a freshly created type / group header
def tokenV3ContextType : Nat := 2
def sortAscContextFormat : Nat := 1
def newUnitSize : Nat := 8
def newKeySize : Nat := 4       -- binary.Size(tokenID)
def newGroupVersion : Nat := 1

inductive Status where
  | ok | err | panic
  deriving DecidableEq, Repr, Inhabited

/-- little-endian field of `n` bytes at `off` -/
def rd (b : Bytes) (off n : Nat) : Nat := fromLE (slice b off n)

/-! ### the three iterators -/

/-- what `iterateTokenGroups` / `iterateTypes` call back into.  `gh`, `th` are the raw bytes of
    the headers as read (the Go struct copies), `goff` / `toff` the Go `offset` variables, `td`
    the slice `typeData`; `onType` returns the bytes of `typeData` after the callback ran. -/
structure Cb (σ : Type) where
  onGroup : σ → (gh : Bytes) → (goff : Nat) → σ
  onType : σ → (gh : Bytes) → (goff : Nat) → (th : Bytes) → (toff : Nat) → (td : Bytes) → σ × Bytes × Status

/-- `iterateTypes(group, cb)` on `rem = group[toff:]`.
    Repaired comparison (`int(SizeOfType) > len(remainBytes)`; the original compared with
    `uint16(len(remainBytes))`, see fixes/C18-apcb-type-size-compare-truncated.diff). -/
def typesLoop {σ : Type} (cb : Cb σ) (gh : Bytes) (goff : Nat) (rem : Bytes) (toff : Nat) (s : σ) :
    σ × Bytes × Status :=
  if rem.length = 0 then (s, rem, .ok)
  else if rem.length < tHdrSize then (s, rem, .err)            -- binary.Read: unexpected EOF
  else
    let th := rem.take tHdrSize
    let st := rd th tOffSizeOfType 2
    if _h2 : st < tHdrSize then (s, rem, .err)
    else if _h3 : st > rem.length then (s, rem, .err)
    else
      -- typeData := groupData[typeOffset+16 : typeOffset+SizeOfType]
      match cb.onType s gh goff th toff ((rem.take st).drop tHdrSize) with
      | (s', td', .ok) =>
        match typesLoop cb gh goff (rem.drop st) (toff + st) s' with
        | (s'', out, r) => (s'', th ++ td' ++ out, r)
      | (s', td', r) => (s', th ++ td' ++ rem.drop st, r)
termination_by rem.length
decreasing_by
  simp +zetaDelta only [tHdrSize, List.length_drop] at *
  omega

/-- `iterateTokenGroups(apcbBody, cb)` on `rem = apcbBody[goff:]`, with the callbacks' first
    statement `groupData := remainBytes[groupOffset+SizeOfHeader : groupOffset+SizeOfGroup]`
    and their `iterateTypes(groupData, ...)`.
    Repaired: a token group with `SizeOfHeader > SizeOfGroup` is an error (the original code
    panicked in that slice expression, see fixes/C20-apcb-group-header-bounds.diff).
    `SizeOfHeader < 16` is accepted by the code: the group data then overlaps the header. -/
def groupsLoop {σ : Type} (cb : Cb σ) (rem : Bytes) (goff : Nat) (s : σ) : σ × Bytes × Status :=
  if rem.length = 0 then (s, rem, .ok)
  else if rem.length < gHdrSize then (s, rem, .err)            -- binary.Read: unexpected EOF
  else
    let gh := rem.take gHdrSize
    let sg := rd gh gOffSizeOfGroup 4
    let sh := rd gh gOffSizeOfHeader 2
    if _h2 : sg < gHdrSize then (s, rem, .err)
    else if _h3 : sg > rem.length then (s, rem, .err)
    else if rd gh gOffGroupID 2 = tokensGroupID then
      if sh > sg then (s, rem, .err)
      else
        let grp := rem.take sg
        match typesLoop cb gh goff (grp.drop sh) 0 (cb.onGroup s gh goff) with
        | (s', gd', .ok) =>
          match groupsLoop cb (rem.drop sg) (goff + sg) s' with
          | (s'', out, r) => (s'', grp.take sh ++ gd' ++ out, r)
        | (s', gd', r) => (s', grp.take sh ++ gd' ++ rem.drop sg, r)
    else
      match groupsLoop cb (rem.drop sg) (goff + sg) s with
      | (s'', out, r) => (s'', rem.take sg ++ out, r)
termination_by rem.length
decreasing_by
  all_goals
    simp +zetaDelta only [gHdrSize, List.length_drop] at *
    omega

/-- `parseAPCBHeader`: the value of `SizeOfAPCB` (the body is `b[128:SizeOfAPCB]`).
    Repaired: `SizeOfAPCB < 128` is an error (the original code panicked in the final slice
    expression, see fixes/C20-apcb-size-below-header.diff). -/
def parseHeader (b : Bytes) : Except Status Nat :=
  if b.length < hdrSize then .error .err                       -- binary.Read: EOF
  else if rd b offSig 4 ≠ sigV2 then .error .err
  else if rd b offSig2 4 ≠ sigV3 then .error .err
  else if rd b offSigEnd 4 ≠ sigEnd then .error .err
  else
    let size := rd b offSizeOfAPCB 4
    if size < hdrSize then .error .err
    else if size > b.length % 2 ^ 32 then .error .err          -- uint32(len(apcbBinary))
    else if size > b.length then .error .panic                 -- apcbBinary[128:SizeOfAPCB]
    else .ok size

/-! ### ParseAPCBBinaryTokens -/

/-- a listed token; `val` is the value after `processValue` (bool as 0/1, masked to its width) -/
structure LTok where
  id : Nat
  prio : Nat
  board : Nat
  tid : Nat
  val : Nat
  deriving DecidableEq, Repr, Inhabited

/-- `processValue` -/
def processValue (tid v : Nat) : Option Nat :=
  if tid = 0 then some (v % 2)
  else if tid = 1 then some (v % 256)
  else if tid = 2 then some (v % 65536)
  else if tid = 4 then some v
  else none

/-- `iterateTokens` with the listing callback; `n` = tokensCount -/
def listPairs (th : Bytes) : Nat → Bytes → List LTok → List LTok × Status
  | 0, _, acc => (acc, .ok)
  | n+1, td, acc =>
    let pr := td.take pairSize
    match processValue (rd th tOffTypeID 2) (rd pr 4 4) with
    | none => (acc, .err)
    | some v =>
      listPairs th n (td.drop pairSize)
        (acc ++ [{ id := rd pr 0 4, prio := rd th tOffPriorityMask 1, board := rd th tOffBoardMask 2,
                   tid := rd th tOffTypeID 2, val := v }])

def listCb : Cb (List LTok) where
  onGroup s _ _ := s
  onType s _ _ th _ td :=
    if td.length % pairSize ≠ 0 then (s, td, .err)
    else match listPairs th (td.length / pairSize) td s with
      | (s', r) => (s', td, r)

/-- `ParseAPCBBinaryTokens`: the tokens collected so far and the status -/
def listing (b : Bytes) : List LTok × Status :=
  match parseHeader b with
  | .error e => ([], e)
  | .ok size =>
    match groupsLoop listCb (slice b hdrSize (size - hdrSize)) 0 [] with
    | (toks, _, r) => (toks, r)

/-! ### UpsertToken -/

/-- the request, after `parseValue`: `tid ∈ {0,1,2,4}` and `val` fits the width (the Go type
    switch guarantees both) -/
structure Tok where
  id : Nat      -- uint32
  prio : Nat    -- uint8
  board : Nat   -- uint16
  tid : Nat     -- tokenType
  val : Nat     -- uint32
  deriving DecidableEq, Repr, Inhabited

/-- the captured variables of `UpsertToken`'s closures -/
structure USt where
  mg : Option (Bytes × Nat)   -- matchedGroupHeader (struct copy), matchedGroupOffset
  mt : Option (Bytes × Nat)   -- matchedTypeHeader (struct copy), matchedTypeOffset
  tokOff : Nat                -- matchedTokenOffset
  changed : Bool              -- tokenChanged
  deriving DecidableEq, Repr, Inhabited

/-- `iterateTokens` with the upsert callback: returns the rewritten `typeData`,
    `matchedTokenOffset` and `tokenChanged`.  `n` = tokensCount, `poff` = tokenPairOffset. -/
def upsertPairs (id val : Nat) : Nat → Bytes → Nat → Nat → Bool → Bytes × Nat × Bool
  | 0, td, _, to, ch => (td, to, ch)
  | n+1, td, poff, to, ch =>
    let pr := td.take pairSize
    let pid := rd pr 0 4
    let to' := if pid ≤ id then poff + pairSize else to
    if pid = id then
      -- newTokenPair := tp; newTokenPair.Value = numValue; writeFixedBuffer(typeData[poff:], newTokenPair)
      match upsertPairs id val n (td.drop pairSize) (poff + pairSize) to' true with
      | (out, r) => (leN 4 pid ++ leN 4 val ++ out, r)
    else
      match upsertPairs id val n (td.drop pairSize) (poff + pairSize) to' ch with
      | (out, r) => (pr ++ out, r)

/-- does the type header match the request (same type id, intersecting masks)? -/
def typeMatches (t : Tok) (th : Bytes) : Bool :=
  t.tid = rd th tOffTypeID 2 && (rd th tOffBoardMask 2 &&& t.board) ≠ 0 &&
    (rd th tOffPriorityMask 1 &&& t.prio) ≠ 0

def upsertCb (t : Tok) : Cb USt where
  onGroup s gh goff := if s.mt.isNone then { s with mg := some (gh, goff) } else s
  onType s gh goff th toff td :=
    if !typeMatches t th then (s, td, .ok)
    else
      let s1 : USt := { mg := some (gh, goff), mt := some (th, toff), tokOff := 0, changed := s.changed }
      if td.length % pairSize ≠ 0 then (s1, td, .err)
      else match upsertPairs t.id t.val (td.length / pairSize) td 0 0 s.changed with
        | (td', to, ch) => ({ s1 with tokOff := to, changed := ch }, td', .ok)

/-- `writeFixedBuffer(buf[pos:], d)`: copies what fits; a short write is an error (io.EOF) -/
def writeAt (b : Bytes) (pos : Nat) (d : Bytes) : Bytes × Status :=
  if pos > b.length then (b, .panic)
  else if pos + d.length ≤ b.length then (splice b pos d, .ok)
  else (b.take pos ++ d.take (b.length - pos), .err)

/-- `typeHeaderV3` built by `constructNewTypeForToken`, followed by the token pair -/
def newTypeBytes (t : Tok) : Bytes :=
  leN 2 tokensGroupID ++ leN 2 t.tid ++ leN 2 ((tHdrSize + pairSize) % 65536) ++ leN 2 0 ++
    [UInt8.ofNat tokenV3ContextType, UInt8.ofNat sortAscContextFormat, UInt8.ofNat newUnitSize,
     UInt8.ofNat t.prio, UInt8.ofNat newKeySize, UInt8.ofNat 0] ++ leN 2 t.board ++
    (leN 4 t.id ++ leN 4 t.val)

/-- `groupHeader` built by `constructNewGroupForToken`, followed by the new type -/
def newGroupBytes (t : Tok) : Bytes :=
  leN 4 sigTokGroup ++ leN 2 tokensGroupID ++ leN 2 gHdrSize ++ leN 2 newGroupVersion ++ leN 2 0 ++
    leN 4 (gHdrSize + (tHdrSize + pairSize)) ++ newTypeBytes t

/-- `copy(b[ins+add:], b[ins:size])` -/
def shiftTail (b : Bytes) (ins add size : Nat) : Bytes × Status :=
  if ins + add > b.length then (b, .panic)
  else if ins > size ∨ size > b.length then (b, .panic)
  else
    let src := slice b ins (size - ins)
    let n := min (b.length - (ins + add)) src.length
    (splice b (ins + add) (src.take n), .ok)

/-- the second half of `UpsertToken` (no existing token was updated): choose the insertion
    point, check the capacity, shift the tail, write the new bytes, fix the three sizes.
    `hdr` is the header struct read at the start, `size` its `SizeOfAPCB`. -/
def insertNew (t : Tok) (b : Bytes) (hdr : Bytes) (size : Nat) (s : USt) : Bytes × Status :=
  let mgOff := (s.mg.map (·.2)).getD 0 + hdrSize
  -- matchedTypeOffset += SizeOfHeader (only when a group was matched)
  let mtOff := (s.mt.map (·.2)).getD 0 + (s.mg.map (fun g => rd g.1 gOffSizeOfHeader 2)).getD 0
  -- case 1: repaired - a full type is an error (the original let SizeOfType wrap to 0,
  -- see fixes/C18-apcb-type-size-overflow.diff)
  if (match s.mt with | some (th, _) => decide (rd th tOffSizeOfType 2 + pairSize > 0xFFFF) | none => false)
  then (b, .err)
  else
    let (ins, new) : Nat × Bytes :=
      match s.mt, s.mg with
      | some _, _ => (mgOff + mtOff + tHdrSize + s.tokOff, leN 4 t.id ++ leN 4 t.val)
      | none, some (gh, _) => (mgOff + rd gh gOffSizeOfGroup 4, newTypeBytes t)
      | none, none => (size, newGroupBytes t)
    let add := new.length
    if (size + add) % 2 ^ 32 > b.length % 2 ^ 32 then (b, .err)
    else
      match shiftTail b ins add size with
      | (b1, .ok) =>
        match writeAt b1 ins new with
        | (b2, .ok) =>
          let r3 : Bytes × Status := match s.mt with
            | some (th, _) =>
              writeAt b2 (mgOff + mtOff)
                (splice th tOffSizeOfType (leN 2 ((rd th tOffSizeOfType 2 + pairSize) % 65536)))
            | none => (b2, .ok)
          match r3 with
          | (b3, .ok) =>
            let r4 : Bytes × Status := match s.mg with
              | some (gh, _) =>
                writeAt b3 mgOff (splice gh gOffSizeOfGroup (leN 4 ((rd gh gOffSizeOfGroup 4 + add) % 2 ^ 32)))
              | none => (b3, .ok)
            match r4 with
            | (b4, .ok) => writeAt b4 0 (splice hdr offSizeOfAPCB (leN 4 ((size + add) % 2 ^ 32)))
            | r => r
          | r => r
        | r => r
      | r => r

/-- `UpsertToken` on the caller's buffer: the buffer afterwards and the status -/
def upsert (t : Tok) (b : Bytes) : Bytes × Status :=
  match parseHeader b with
  | .error e => (b, e)
  | .ok size =>
    match groupsLoop (upsertCb t) (slice b hdrSize (size - hdrSize)) 0
        { mg := none, mt := none, tokOff := 0, changed := false } with
    | (s, body', r) =>
      let b' := b.take hdrSize ++ body' ++ b.drop size
      if r ≠ .ok then (b', r)
      else if s.changed then (b', .ok)
      else insertNew t b' (b.take hdrSize) size s

end Fiano.Apcb
