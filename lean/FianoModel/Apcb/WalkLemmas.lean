/-
  The three-level walk of the model on a serialised well-formed blob is the fold of the same
  callbacks over the abstract structure (offsets = sums of the serialised sizes).
  Generic in the callbacks, so it serves the listing and the upsert alike.
-/
import FianoModel.Apcb.Lemmas

namespace Fiano.Apcb

/-- `typesLoop` on `serTypes ts`, expressed on the abstract types -/
def absTypes {σ : Type} (cb : Cb σ) (gh : Bytes) (goff : Nat) : List TypeE → Nat → σ → σ × Bytes × Status
  | [], _, s => (s, [], .ok)
  | e :: es, toff, s =>
    match cb.onType s gh goff (encTypeHdr e e.size) toff (serPairs e.pairs) with
    | (s', td', .ok) =>
      match absTypes cb gh goff es (toff + e.size) s' with
      | (s'', out, r) => (s'', encTypeHdr e e.size ++ td' ++ out, r)
    | (s', td', r) => (s', encTypeHdr e e.size ++ td' ++ serTypes es, r)

theorem typesLoop_ser {σ : Type} (cb : Cb σ) (gh : Bytes) (goff : Nat) (ts : List TypeE)
    (h : ∀ e ∈ ts, e.WF) (toff : Nat) (s : σ) :
    typesLoop cb gh goff (serTypes ts) toff s = absTypes cb gh goff ts toff s := by
  induction ts generalizing toff s with
  | nil => rw [typesLoop]; simp [serTypes, absTypes]
  | cons e es ih =>
    have hw := h e (by simp)
    have hsz : 16 ≤ e.size := by simp [TypeE.size, tHdrSize]
    have hrem : serTypes (e :: es) = encTypeHdr e e.size ++ (serPairs e.pairs ++ serTypes es) := by
      simp [serTypes, serType]
    have htake : (serTypes (e :: es)).take 16 = encTypeHdr e e.size := by
      rw [hrem]; exact take_append_len _ _ 16 (by simp)
    have hst : rd (encTypeHdr e e.size) 4 2 = e.size := rd_typeHdr_size e _ hw.size
    have hlen : (serTypes (e :: es)).length = e.size + (serTypes es).length := by
      rw [serTypes_cons]; simp
    have htd : ((serTypes (e :: es)).take e.size).drop 16 = serPairs e.pairs := by
      rw [serTypes_cons, take_append_len _ _ _ (by simp), serType]
      exact drop_append_len _ _ _ (by simp)
    have hdrop : (serTypes (e :: es)).drop e.size = serTypes es := by
      rw [serTypes_cons]; exact drop_append_len _ _ _ (by simp)
    rw [typesLoop]
    simp only [tHdrSize, tOffSizeOfType, htake, hst, hlen, htd, hdrop]
    rw [if_neg (by omega), if_neg (by omega), dif_neg (by omega), dif_neg (by omega)]
    simp only [absTypes]
    simp only [ih (fun e he => h e (by simp [he]))]
    rfl


/-- the 16 fixed header bytes of a serialised group -/
def Group.hdr : Group → Bytes
  | .tokens sig ver res extra types =>
    encGroupHdr sig tokensGroupID (gHdrSize + extra.length) ver res
      (gHdrSize + extra.length + (serTypes types).length)
  | .foreign sig gid sh ver res raw => encGroupHdr sig gid sh ver res (gHdrSize + raw.length)

/-- `groupsLoop` on `serGroups gs`, expressed on the abstract groups -/
def absGroups {σ : Type} (cb : Cb σ) : List Group → Nat → σ → σ × Bytes × Status
  | [], _, s => (s, [], .ok)
  | g :: gs, goff, s =>
    match g with
    | .tokens _ _ _ extra types =>
      match absTypes cb g.hdr goff types 0 (cb.onGroup s g.hdr goff) with
      | (s', gd', .ok) =>
        match absGroups cb gs (goff + (serGroup g).length) s' with
        | (s'', out, r) => (s'', g.hdr ++ extra ++ gd' ++ out, r)
      | (s', gd', r) => (s', g.hdr ++ extra ++ gd' ++ serGroups gs, r)
    | .foreign .. =>
      match absGroups cb gs (goff + (serGroup g).length) s with
      | (s'', out, r) => (s'', serGroup g ++ out, r)

theorem groupsLoop_ser {σ : Type} (cb : Cb σ) (gs : List Group) (h : ∀ g ∈ gs, g.WF) (goff : Nat) (s : σ) :
    groupsLoop cb (serGroups gs) goff s = absGroups cb gs goff s := by
  induction gs generalizing goff s with
  | nil => rw [groupsLoop]; simp [serGroups, absGroups]
  | cons g gs ih =>
    have hw := h g (by simp)
    have ih' := ih (fun g hg => h g (by simp [hg]))
    cases g with
    | tokens sig ver res extra types =>
      obtain ⟨h1, h2, h3, h4, h5, h6⟩ := hw
      simp only [gHdrSize] at h4 h6
      let gh := (Group.tokens sig ver res extra types).hdr
      have hgh : gh = encGroupHdr sig tokensGroupID (16 + extra.length) ver res (16 + extra.length + (serTypes types).length) := rfl
      have hghl : gh.length = 16 := by rw [hgh]; simp
      have hser : serGroup (.tokens sig ver res extra types) = gh ++ extra ++ serTypes types := rfl
      have hsl : (serGroup (.tokens sig ver res extra types)).length = 16 + extra.length + (serTypes types).length := by
        rw [hser]; simp [hghl]; omega
      have hrem : serGroups (.tokens sig ver res extra types :: gs) = gh ++ (extra ++ serTypes types ++ serGroups gs) := by
        rw [serGroups_cons, hser]; simp
      have htake : (serGroups (.tokens sig ver res extra types :: gs)).take 16 = gh := by
        rw [hrem]; exact take_append_len _ _ 16 hghl
      have hsg : rd gh 12 4 = 16 + extra.length + (serTypes types).length := by
        rw [hgh]; exact rd_groupHdr_sg _ _ _ _ _ _ h6
      have hsh : rd gh 6 2 = 16 + extra.length := by rw [hgh]; exact rd_groupHdr_sh _ _ _ _ _ _ h4
      have hgid : rd gh 4 2 = tokensGroupID := by
        rw [hgh]; exact rd_groupHdr_gid _ _ _ _ _ _ (by simp [tokensGroupID])
      have hlen : (serGroups (.tokens sig ver res extra types :: gs)).length =
          16 + extra.length + (serTypes types).length + (serGroups gs).length := by
        rw [serGroups_cons, List.length_append, hsl]
      have hgrp : (serGroups (.tokens sig ver res extra types :: gs)).take (16 + extra.length + (serTypes types).length)
          = gh ++ extra ++ serTypes types := by
        rw [serGroups_cons, hser]; exact take_append_len _ _ _ (by simp [hghl]; omega)
      have hgd : (gh ++ extra ++ serTypes types).drop (16 + extra.length) = serTypes types :=
        drop_append_len _ _ _ (by simp [hghl])
      have hpre : (gh ++ extra ++ serTypes types).take (16 + extra.length) = gh ++ extra :=
        take_append_len _ _ _ (by simp [hghl])
      have hdrop : (serGroups (.tokens sig ver res extra types :: gs)).drop (16 + extra.length + (serTypes types).length)
          = serGroups gs := by
        rw [serGroups_cons]; exact drop_append_len _ _ _ hsl
      rw [groupsLoop]
      simp only [gHdrSize, gOffSizeOfGroup, gOffSizeOfHeader, gOffGroupID, htake, hsg, hsh, hgid, hlen, hgrp, hgd,
        hpre, hdrop]
      rw [if_neg (by omega), if_neg (by omega), dif_neg (by omega), dif_neg (by omega), if_pos trivial, if_neg (by omega)]
      simp only [typesLoop_ser cb gh goff types h5, ih', absGroups, hsl]
      rfl
    | foreign sig gid sh ver res raw =>
      obtain ⟨h1, h2, h3, h4, h5, h6, h7⟩ := hw
      simp only [gHdrSize] at h7
      let gh := (Group.foreign sig gid sh ver res raw).hdr
      have hgh : gh = encGroupHdr sig gid sh ver res (16 + raw.length) := rfl
      have hghl : gh.length = 16 := by rw [hgh]; simp
      have hser : serGroup (.foreign sig gid sh ver res raw) = gh ++ raw := rfl
      have hsl : (serGroup (.foreign sig gid sh ver res raw)).length = 16 + raw.length := by
        rw [hser]; simp [hghl]
      have hrem : serGroups (.foreign sig gid sh ver res raw :: gs) = gh ++ (raw ++ serGroups gs) := by
        rw [serGroups_cons, hser]; simp
      have htake : (serGroups (.foreign sig gid sh ver res raw :: gs)).take 16 = gh := by
        rw [hrem]; exact take_append_len _ _ 16 hghl
      have hsg : rd gh 12 4 = 16 + raw.length := by rw [hgh]; exact rd_groupHdr_sg _ _ _ _ _ _ h7
      have hgid : rd gh 4 2 = gid := by rw [hgh]; exact rd_groupHdr_gid _ _ _ _ _ _ h2
      have hlen : (serGroups (.foreign sig gid sh ver res raw :: gs)).length = 16 + raw.length + (serGroups gs).length := by
        rw [serGroups_cons, List.length_append, hsl]
      have hgrp : (serGroups (.foreign sig gid sh ver res raw :: gs)).take (16 + raw.length)
          = serGroup (.foreign sig gid sh ver res raw) := by
        rw [serGroups_cons]; exact take_append_len _ _ _ hsl
      have hdrop : (serGroups (.foreign sig gid sh ver res raw :: gs)).drop (16 + raw.length) = serGroups gs := by
        rw [serGroups_cons]; exact drop_append_len _ _ _ hsl
      rw [groupsLoop]
      simp only [gHdrSize, gOffSizeOfGroup, gOffSizeOfHeader, gOffGroupID, htake, hsg, hgid, hlen, hgrp, hdrop]
      rw [if_neg (by omega), if_neg (by omega), dif_neg (by omega), dif_neg (by omega), if_neg h3]
      simp only [ih', absGroups, hsl]

end Fiano.Apcb
