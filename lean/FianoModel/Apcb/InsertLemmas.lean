/-
  The second half of `UpsertToken` (shift the tail, write the new bytes, fix the three sizes) as
  byte surgery on a buffer given as a concatenation.
-/
import FianoModel.Apcb.StateLemmas

namespace Fiano.Apcb

theorem splice_mid_eq (p m s d : Bytes) (off : Nat) (hp : p.length = off) (hd : d.length = m.length) :
    splice (p ++ m ++ s) off d = p ++ d ++ s := by
  subst hp
  unfold splice
  have h1 : (p ++ m ++ s).take p.length = p := by
    rw [List.append_assoc]; exact take_append_len _ _ _ rfl
  have h2 : (p ++ m ++ s).drop (p.length + d.length) = s := drop_append_len _ _ _ (by simp [hd])
  rw [h1, h2]

theorem writeAt_mid (p m s d : Bytes) (off : Nat) (hp : p.length = off) (hd : d.length = m.length) :
    writeAt (p ++ m ++ s) off d = (p ++ d ++ s, .ok) := by
  unfold writeAt
  rw [if_neg (by simp; omega), if_pos (by simp; omega), splice_mid_eq p m s d off hp hd]

/-- `copy(b[ins+add:], b[ins:size])` followed by the write of `new` at `ins` -/
theorem shift_write (X Y S new : Bytes) (ins add size : Nat) (hX : X.length = ins)
    (hY : X.length + Y.length = size) (hn : new.length = add) (hS : add ≤ S.length) :
    ∃ b1, shiftTail (X ++ Y ++ S) ins add size = (b1, .ok) ∧
      writeAt b1 ins new = (X ++ new ++ Y ++ S.drop add, .ok) := by
  have hsrc : slice (X ++ Y ++ S) ins (size - ins) = Y := slice_mid X Y S ins (size - ins) hX (by omega)
  have hlen : (X ++ Y ++ S).length = ins + Y.length + S.length := by simp [hX]; omega
  have hmin : min ((X ++ Y ++ S).length - (ins + add)) Y.length = Y.length := by rw [hlen]; omega
  -- the buffer seen as  X ++ Z ++ W  with |Z| = add, |W| = |Y| + |S| - add
  have hZ : (X ++ Y ++ S) = X ++ (Y ++ S).take add ++ (Y ++ S).drop add := by
    rw [List.append_assoc, List.append_assoc, List.take_append_drop]
  have hZl : ((Y ++ S).take add).length = add := by simp; omega
  refine ⟨X ++ (Y ++ S).take add ++ Y ++ S.drop add, ?_, ?_⟩
  · unfold shiftTail
    rw [if_neg (by rw [hlen]; omega), if_neg (by rw [hlen]; omega)]
    simp only [hsrc, hmin, List.take_length]
    congr 1
    -- splice at ins+add of Y into X ++ Z ++ W
    have hW : (Y ++ S).drop add = (Y ++ S).drop add := rfl
    have hsplit : (Y ++ S).drop add = ((Y ++ S).drop add).take Y.length ++ S.drop add := by
      have h1 : ((Y ++ S).drop add).drop Y.length = S.drop add := by
        rw [List.drop_drop, show add + Y.length = Y.length + add by omega, ← List.drop_drop,
          drop_append_len Y S _ rfl]
      rw [← h1, List.take_append_drop]
    have hml : (((Y ++ S).drop add).take Y.length).length = Y.length := by
      simp; omega
    conv => lhs; rw [hZ, hsplit, ← List.append_assoc]
    rw [splice_mid_eq (X ++ (Y ++ S).take add) _ (S.drop add) Y (ins + add) (by simp [hX]; omega) hml.symm]
  · have : X ++ (Y ++ S).take add ++ Y ++ S.drop add = X ++ (Y ++ S).take add ++ (Y ++ S.drop add) := by simp
    rw [this, writeAt_mid X _ _ new ins hX (by rw [hZl, hn])]
    simp


/-- case 3: no token group; a new group at `SizeOfAPCB` -/
theorem insertNew_group (t : Tok) (H G S : Bytes) (size : Nat) (s : USt)
    (hH : H.length = 128) (hsize : size = 128 + G.length) (hb : (H ++ G ++ S).length + 40 < 2 ^ 32)
    (hmg : s.mg = none) (hmt : s.mt = none) :
    insertNew t (H ++ G ++ S) H size s =
      if 40 ≤ S.length then
        (splice H 8 (leN 4 (size + 40)) ++ G ++ newGroupBytes t ++ S.drop 40, .ok)
      else (H ++ G ++ S, .err) := by
  have hnl : (newGroupBytes t).length = 40 := by simp [newGroupBytes, newTypeBytes]
  have hbl : (H ++ G ++ S).length = size + S.length := by simp [hH, hsize]; omega
  simp only [insertNew, hmg, hmt, hnl]
  rw [if_neg (by simp)]
  by_cases hroom : 40 ≤ S.length
  · rw [if_pos hroom, if_neg (by
      rw [Nat.mod_eq_of_lt (by omega), Nat.mod_eq_of_lt (by omega)]; omega)]
    obtain ⟨b1, h1, h2⟩ := shift_write (H ++ G) [] S (newGroupBytes t) size 40 size (by simp [hH, hsize])
      (by simp [hH, hsize]) hnl hroom
    simp only [List.append_nil] at h1 h2
    simp only [h1, h2]
    have hsp : (splice H offSizeOfAPCB (leN 4 ((size + 40) % 2 ^ 32))).length = H.length := by
      simp [splice, offSizeOfAPCB, hH]
    have := writeAt_mid [] H (G ++ newGroupBytes t ++ S.drop 40) _ 0 rfl hsp
    simp only [List.nil_append, List.append_assoc] at this ⊢
    rw [this, Nat.mod_eq_of_lt (by omega)]
    rfl
  · rw [if_neg hroom, if_pos (by
      rw [Nat.mod_eq_of_lt (by omega), Nat.mod_eq_of_lt (by omega)]; omega)]


/-- case 2: a token group but no matching type; a new type at the end of that group.
    The buffer is `H ++ A ++ GH ++ R ++ D ++ S`: header, earlier groups, the matched group's
    header and the rest of it, later groups, slack. -/
theorem insertNew_type (t : Tok) (H A GH R D S : Bytes) (size goff sg : Nat) (s : USt)
    (hH : H.length = 128) (hA : A.length = goff) (hGH : GH.length = 16) (hsg : rd GH 12 4 = sg)
    (hsgv : sg = 16 + R.length)
    (hsize : size = 128 + A.length + 16 + R.length + D.length)
    (hb : (H ++ A ++ GH ++ R ++ D ++ S).length + 40 < 2 ^ 32)
    (hmg : s.mg = some (GH, goff)) (hmt : s.mt = none) :
    insertNew t (H ++ A ++ GH ++ R ++ D ++ S) H size s =
      if 24 ≤ S.length then
        (splice H 8 (leN 4 (size + 24)) ++ A ++ splice GH 12 (leN 4 (sg + 24)) ++ R ++ newTypeBytes t ++ D ++
          S.drop 24, .ok)
      else (H ++ A ++ GH ++ R ++ D ++ S, .err) := by
  have hnl : (newTypeBytes t).length = 24 := by simp [newTypeBytes]
  have hbl : (H ++ A ++ GH ++ R ++ D ++ S).length = size + S.length := by simp [hH, hGH, hsize]; omega
  simp only [insertNew, hmg, hmt, hnl, Option.map_some, Option.getD_some, gOffSizeOfGroup, hsg, hdrSize]
  rw [if_neg (by simp)]
  by_cases hroom : 24 ≤ S.length
  · rw [if_pos hroom, if_neg (by
      rw [Nat.mod_eq_of_lt (by omega), Nat.mod_eq_of_lt (by omega)]; omega)]
    obtain ⟨b1, h1, h2⟩ := shift_write (H ++ A ++ GH ++ R) D S (newTypeBytes t) (goff + 128 + sg) 24 size
      (by simp [hH, hGH, hA, hsgv]; omega) (by simp [hH, hGH, hsize]; omega) hnl hroom
    simp only [h1, h2]
    have hg : (splice GH 12 (leN 4 ((sg + 24) % 2 ^ 32))).length = GH.length := by simp [splice, hGH]
    have e1 : H ++ A ++ GH ++ R ++ newTypeBytes t ++ D ++ S.drop 24 =
        (H ++ A) ++ GH ++ (R ++ newTypeBytes t ++ D ++ S.drop 24) := by simp
    rw [e1, writeAt_mid (H ++ A) GH _ _ (goff + 128) (by simp [hH, hA]; omega) hg]
    have hsp : (splice H offSizeOfAPCB (leN 4 ((size + 24) % 2 ^ 32))).length = H.length := by
      simp [splice, offSizeOfAPCB, hH]
    have := writeAt_mid [] H (A ++ splice GH 12 (leN 4 ((sg + 24) % 2 ^ 32)) ++ (R ++ newTypeBytes t ++ D ++ S.drop 24)) _ 0 rfl hsp
    simp only [List.nil_append, List.append_assoc] at this ⊢
    rw [this, Nat.mod_eq_of_lt (by omega), Nat.mod_eq_of_lt (by omega)]
    rfl
  · rw [if_neg hroom, if_pos (by
      rw [Nat.mod_eq_of_lt (by omega), Nat.mod_eq_of_lt (by omega)]; omega)]

/-- case 1: a matching type; a new pair after `P1`.
    The buffer is `H ++ A ++ GH ++ E ++ B ++ TH ++ P1 ++ P2 ++ C ++ D ++ S`: header, earlier
    groups, the matched group's header, its extra header bytes, its earlier types, the matched
    type's header, the pairs before / after the insertion point, later types, later groups, slack. -/
theorem insertNew_pair (t : Tok) (H A GH E B TH P1 P2 C D S : Bytes) (size goff toff sg st : Nat) (s : USt)
    (hH : H.length = 128) (hA : A.length = goff) (hGH : GH.length = 16) (hsg : rd GH 12 4 = sg)
    (hsh : rd GH 6 2 = 16 + E.length) (hB : B.length = toff) (hTH : TH.length = 16) (hst : rd TH 4 2 = st)
    (hsize : size = 128 + A.length + 16 + E.length + B.length + 16 + P1.length + P2.length + C.length + D.length)
    (hb : (H ++ A ++ GH ++ E ++ B ++ TH ++ P1 ++ P2 ++ C ++ D ++ S).length + 40 < 2 ^ 32)
    (hsgb : sg < 2 ^ 32 - 40)
    (hmg : s.mg = some (GH, goff)) (hmt : s.mt = some (TH, toff)) (hto : s.tokOff = P1.length) :
    insertNew t (H ++ A ++ GH ++ E ++ B ++ TH ++ P1 ++ P2 ++ C ++ D ++ S) H size s =
      if st + 8 > 0xFFFF then (H ++ A ++ GH ++ E ++ B ++ TH ++ P1 ++ P2 ++ C ++ D ++ S, .err)
      else if 8 ≤ S.length then
        (splice H 8 (leN 4 (size + 8)) ++ A ++ splice GH 12 (leN 4 (sg + 8)) ++ E ++ B ++
          splice TH 4 (leN 2 (st + 8)) ++ P1 ++ (leN 4 t.id ++ leN 4 t.val) ++ P2 ++ C ++ D ++ S.drop 8, .ok)
      else (H ++ A ++ GH ++ E ++ B ++ TH ++ P1 ++ P2 ++ C ++ D ++ S, .err) := by
  have hnl : (leN 4 t.id ++ leN 4 t.val).length = 8 := by simp
  have hbl : (H ++ A ++ GH ++ E ++ B ++ TH ++ P1 ++ P2 ++ C ++ D ++ S).length = size + S.length := by
    simp [hH, hGH, hTH, hsize]; omega
  simp only [insertNew, hmg, hmt, hnl, Option.map_some, Option.getD_some, gOffSizeOfGroup, gOffSizeOfHeader,
    tOffSizeOfType, hsg, hsh, hst, hdrSize, tHdrSize, pairSize, hto]
  by_cases hfull : st + 8 > 0xFFFF
  · rw [if_pos (by simpa using hfull), if_pos hfull]
  · rw [if_neg (by simpa using hfull), if_neg hfull]
    by_cases hroom : 8 ≤ S.length
    · rw [if_pos hroom, if_neg (by
        rw [Nat.mod_eq_of_lt (by omega), Nat.mod_eq_of_lt (by omega)]; omega)]
      obtain ⟨b1, h1, h2⟩ := shift_write (H ++ A ++ GH ++ E ++ B ++ TH ++ P1) (P2 ++ C ++ D) S
        (leN 4 t.id ++ leN 4 t.val) (goff + 128 + (toff + (16 + E.length)) + 16 + P1.length) 8 size
        (by simp [hH, hGH, hTH, hA, hB]; omega) (by simp [hH, hGH, hTH, hsize]; omega) hnl hroom
      have e0 : H ++ A ++ GH ++ E ++ B ++ TH ++ P1 ++ P2 ++ C ++ D ++ S =
          H ++ A ++ GH ++ E ++ B ++ TH ++ P1 ++ (P2 ++ C ++ D) ++ S := by simp
      rw [e0]
      simp only [h1, h2]
      have ht : (splice TH 4 (leN 2 ((st + 8) % 65536))).length = TH.length := by simp [splice, hTH]
      have hg : (splice GH 12 (leN 4 ((sg + 8) % 2 ^ 32))).length = GH.length := by simp [splice, hGH]
      have e1 : H ++ A ++ GH ++ E ++ B ++ TH ++ P1 ++ (leN 4 t.id ++ leN 4 t.val) ++ (P2 ++ C ++ D) ++ S.drop 8 =
          (H ++ A ++ GH ++ E ++ B) ++ TH ++ (P1 ++ (leN 4 t.id ++ leN 4 t.val) ++ (P2 ++ C ++ D) ++ S.drop 8) := by
        simp
      rw [e1, writeAt_mid (H ++ A ++ GH ++ E ++ B) TH _ _ (goff + 128 + (toff + (16 + E.length)))
        (by simp [hH, hA, hGH, hB]; omega) ht]
      simp only []
      have e2 : H ++ A ++ GH ++ E ++ B ++ splice TH 4 (leN 2 ((st + 8) % 65536)) ++
            (P1 ++ (leN 4 t.id ++ leN 4 t.val) ++ (P2 ++ C ++ D) ++ S.drop 8) =
          (H ++ A) ++ GH ++ (E ++ B ++ splice TH 4 (leN 2 ((st + 8) % 65536)) ++
            (P1 ++ (leN 4 t.id ++ leN 4 t.val) ++ (P2 ++ C ++ D) ++ S.drop 8)) := by simp
      rw [e2, writeAt_mid (H ++ A) GH _ _ (goff + 128) (by simp [hH, hA]; omega) hg]
      simp only []
      have hsp : (splice H offSizeOfAPCB (leN 4 ((size + 8) % 2 ^ 32))).length = H.length := by
        simp [splice, offSizeOfAPCB, hH]
      have := writeAt_mid [] H (A ++ splice GH 12 (leN 4 ((sg + 8) % 2 ^ 32)) ++ (E ++ B ++
        splice TH 4 (leN 2 ((st + 8) % 65536)) ++ (P1 ++ (leN 4 t.id ++ leN 4 t.val) ++ (P2 ++ C ++ D) ++ S.drop 8))) _ 0 rfl hsp
      simp only [List.nil_append, List.append_assoc] at this ⊢
      rw [this, Nat.mod_eq_of_lt (by omega), Nat.mod_eq_of_lt (show sg + 8 < 2 ^ 32 by omega),
        Nat.mod_eq_of_lt (show st + 8 < 65536 by omega)]
      rfl
    · rw [if_neg hroom, if_pos (by
        rw [Nat.mod_eq_of_lt (by omega), Nat.mod_eq_of_lt (by omega)]; omega)]

end Fiano.Apcb
