/-
  Byte-level facts about the reference serialiser: lengths, and what the model's field reads
  (`rd`) return on encoded headers and pairs.
-/
import FianoModel.Apcb.Spec

namespace Fiano.Apcb

/-! ### generic list / slice helpers -/

theorem take_append_len {α} (a b : List α) (n : Nat) (h : a.length = n) : (a ++ b).take n = a := by
  subst h; simp

theorem drop_append_len {α} (a b : List α) (n : Nat) (h : a.length = n) : (a ++ b).drop n = b := by
  subst h; simp

theorem rd_append_left (a b : Bytes) (off n : Nat) (h : off + n ≤ a.length) :
    rd (a ++ b) off n = rd a off n := by
  unfold rd slice
  congr 1
  rw [List.drop_append_of_le_length (by omega), List.take_append_of_le_length (by simp; omega)]

theorem rd_mid (p m s : Bytes) (off n : Nat) (hp : p.length = off) (hm : m.length = n) :
    rd (p ++ m ++ s) off n = fromLE m := by
  unfold rd; rw [slice_mid p m s off n hp hm]

theorem rd_mid' (p m : Bytes) (off n : Nat) (hp : p.length = off) (hm : m.length = n) :
    rd (p ++ m) off n = fromLE m := by
  unfold rd; rw [slice_mid' p m off n hp hm]

theorem fromLE_leN2 (x : Nat) (h : x < 2 ^ 16) : fromLE (leN 2 x) = x :=
  fromLE_leN_of_lt 2 x (by simpa using h)

theorem fromLE_leN4 (x : Nat) (h : x < 2 ^ 32) : fromLE (leN 4 x) = x :=
  fromLE_leN_of_lt 4 x (by simpa using h)

theorem fromLE_byte (x : Nat) (h : x < 2 ^ 8) : fromLE [UInt8.ofNat x] = x := by
  have := fromLE_leN_of_lt 1 x (by simpa using h)
  simpa [leN, Nat.mod_eq_of_lt (show x < 256 by simpa using h)] using this

/-! ### lengths -/

@[simp] theorem encPair_length (p : Nat × Nat) : (encPair p).length = 8 := by simp [encPair]

@[simp] theorem serPairs_length (ps : List (Nat × Nat)) : (serPairs ps).length = 8 * ps.length := by
  induction ps with
  | nil => rfl
  | cons p ps ih => simp [serPairs, ih]; omega

@[simp] theorem encTypeHdr_length (e : TypeE) (sz : Nat) : (encTypeHdr e sz).length = 16 := by
  simp [encTypeHdr]

@[simp] theorem serType_length (e : TypeE) : (serType e).length = e.size := by
  simp [serType, TypeE.size, tHdrSize, pairSize]

@[simp] theorem encGroupHdr_length (a b c d e f : Nat) : (encGroupHdr a b c d e f).length = 16 := by
  simp [encGroupHdr]

theorem serTypes_cons (e : TypeE) (es : List TypeE) : serTypes (e :: es) = serType e ++ serTypes es := rfl
theorem serGroups_cons (g : Group) (gs : List Group) : serGroups (g :: gs) = serGroup g ++ serGroups gs := rfl

theorem serTypes_append (as bs : List TypeE) : serTypes (as ++ bs) = serTypes as ++ serTypes bs := by
  induction as with
  | nil => rfl
  | cons a as ih => simp [serTypes, ih]

theorem serGroups_append (as bs : List Group) : serGroups (as ++ bs) = serGroups as ++ serGroups bs := by
  induction as with
  | nil => rfl
  | cons a as ih => simp [serGroups, ih]

theorem serPairs_append (as bs : List (Nat × Nat)) : serPairs (as ++ bs) = serPairs as ++ serPairs bs := by
  induction as with
  | nil => rfl
  | cons a as ih => simp [serPairs, ih]

/-! ### field reads -/

theorem rd_pair_id (p : Nat × Nat) (h : p.1 < 2 ^ 32) : rd (encPair p) 0 4 = p.1 := by
  unfold encPair
  have := rd_mid' [] (leN 4 p.1) 0 4 rfl (by simp)
  rw [rd_append_left _ _ _ _ (by simp)]
  simpa [fromLE_leN4 _ h] using this

theorem rd_pair_val (p : Nat × Nat) (h : p.2 < 2 ^ 32) : rd (encPair p) 4 4 = p.2 := by
  unfold encPair
  rw [rd_mid' _ _ 4 4 (by simp) (by simp), fromLE_leN4 _ h]


theorem rd_typeHdr_tid (e : TypeE) (sz : Nat) (h : e.tid < 2 ^ 16) : rd (encTypeHdr e sz) 2 2 = e.tid := by
  have : encTypeHdr e sz = leN 2 e.gid ++ leN 2 e.tid ++ (leN 2 sz ++ leN 2 e.inst ++
      [UInt8.ofNat e.ctxT, UInt8.ofNat e.ctxF, UInt8.ofNat e.unit, UInt8.ofNat e.prio,
       UInt8.ofNat e.keySize, UInt8.ofNat e.keyPos] ++ leN 2 e.board) := by
    simp [encTypeHdr]
  rw [this, rd_mid _ _ _ 2 2 (by simp) (by simp), fromLE_leN2 _ h]

theorem rd_typeHdr_size (e : TypeE) (sz : Nat) (h : sz < 2 ^ 16) : rd (encTypeHdr e sz) 4 2 = sz := by
  have : encTypeHdr e sz = (leN 2 e.gid ++ leN 2 e.tid) ++ leN 2 sz ++ (leN 2 e.inst ++
      [UInt8.ofNat e.ctxT, UInt8.ofNat e.ctxF, UInt8.ofNat e.unit, UInt8.ofNat e.prio,
       UInt8.ofNat e.keySize, UInt8.ofNat e.keyPos] ++ leN 2 e.board) := by
    simp [encTypeHdr]
  rw [this, rd_mid _ _ _ 4 2 (by simp) (by simp), fromLE_leN2 _ h]

theorem rd_typeHdr_prio (e : TypeE) (sz : Nat) (h : e.prio < 2 ^ 8) : rd (encTypeHdr e sz) 11 1 = e.prio := by
  have : encTypeHdr e sz = (leN 2 e.gid ++ leN 2 e.tid ++ leN 2 sz ++ leN 2 e.inst ++
      [UInt8.ofNat e.ctxT, UInt8.ofNat e.ctxF, UInt8.ofNat e.unit]) ++ [UInt8.ofNat e.prio] ++
      ([UInt8.ofNat e.keySize, UInt8.ofNat e.keyPos] ++ leN 2 e.board) := by
    simp [encTypeHdr]
  rw [this, rd_mid _ _ _ 11 1 (by simp) (by simp), fromLE_byte _ h]

theorem rd_typeHdr_board (e : TypeE) (sz : Nat) (h : e.board < 2 ^ 16) : rd (encTypeHdr e sz) 14 2 = e.board := by
  unfold encTypeHdr
  rw [rd_mid' _ _ 14 2 (by simp) (by simp), fromLE_leN2 _ h]

theorem rd_groupHdr_gid (a b c d e f : Nat) (h : b < 2 ^ 16) : rd (encGroupHdr a b c d e f) 4 2 = b := by
  have : encGroupHdr a b c d e f = leN 4 a ++ leN 2 b ++ (leN 2 c ++ leN 2 d ++ leN 2 e ++ leN 4 f) := by
    simp [encGroupHdr]
  rw [this, rd_mid _ _ _ 4 2 (by simp) (by simp), fromLE_leN2 _ h]

theorem rd_groupHdr_sh (a b c d e f : Nat) (h : c < 2 ^ 16) : rd (encGroupHdr a b c d e f) 6 2 = c := by
  have : encGroupHdr a b c d e f = (leN 4 a ++ leN 2 b) ++ leN 2 c ++ (leN 2 d ++ leN 2 e ++ leN 4 f) := by
    simp [encGroupHdr]
  rw [this, rd_mid _ _ _ 6 2 (by simp) (by simp), fromLE_leN2 _ h]

theorem rd_groupHdr_sg (a b c d e f : Nat) (h : f < 2 ^ 32) : rd (encGroupHdr a b c d e f) 12 4 = f := by
  unfold encGroupHdr
  rw [rd_mid' _ _ 12 4 (by simp) (by simp), fromLE_leN4 _ h]

/-- replacing the size field of an encoded header = encoding with the new size -/
theorem splice_typeHdr_size (e : TypeE) (sz sz' : Nat) :
    splice (encTypeHdr e sz) 4 (leN 2 sz') = encTypeHdr e sz' := by
  simp [splice, encTypeHdr, leN]

theorem splice_groupHdr_sg (a b c d e f f' : Nat) :
    splice (encGroupHdr a b c d e f) 12 (leN 4 f') = encGroupHdr a b c d e f' := by
  simp [splice, encGroupHdr, leN]

end Fiano.Apcb
