/-
  What the closure variables of `UpsertToken` hold after the walk, in terms of the abstract
  blob: `tokenChanged` iff some matching type holds the id; otherwise the matched group / type /
  token offset designate the last matching type of the blob, else the last token group, else
  nothing.  Pure reasoning on the abstract folds `typesState` / `groupsState`.
-/
import FianoModel.Apcb.UpsertWalk

namespace Fiano.Apcb

/-! ### modifyLast? / findLast? -/

theorem modifyLast?_none {α : Type} (f : α → Option α) (l : List α) (h : modifyLast? f l = none) :
    ∀ y ∈ l, f y = none := by
  induction l with
  | nil => simp
  | cons x xs ih =>
    simp only [modifyLast?] at h
    split at h
    · cases h
    · rename_i hx
      intro y hy
      simp only [List.mem_cons] at hy
      rcases hy with rfl | hy
      · cases hfy : f y with
        | none => rfl
        | some z => simp [hfy] at h
      · exact ih hx y hy

theorem modifyLast?_some {α : Type} (f : α → Option α) (l l' : List α) (h : modifyLast? f l = some l') :
    ∃ pre x x' post, l = pre ++ x :: post ∧ f x = some x' ∧ (∀ y ∈ post, f y = none) ∧
      l' = pre ++ x' :: post := by
  induction l generalizing l' with
  | nil => simp [modifyLast?] at h
  | cons a as ih =>
    simp only [modifyLast?] at h
    split at h
    · rename_i as' has
      obtain ⟨pre, x, x', post, h1, h2, h3, h4⟩ := ih as' has
      injection h with h
      exact ⟨a :: pre, x, x', post, by simp [h1], h2, h3, by simp [← h, h4]⟩
    · rename_i hnone
      cases hfa : f a with
      | none => simp [hfa] at h
      | some a' =>
        simp only [hfa, Option.map_some, Option.some.injEq] at h
        exact ⟨[], a, a', as, rfl, hfa, modifyLast?_none f as hnone, by simp [← h]⟩

theorem findLast?_none {α β : Type} (f : α → Option β) (l : List α) (h : ∀ y ∈ l, f y = none) :
    findLast? f l = none := by
  induction l with
  | nil => rfl
  | cons x xs ih =>
    simp only [findLast?, ih (fun y hy => h y (by simp [hy])), h x (by simp)]

theorem findLast?_decomp {α β : Type} (f : α → Option β) (pre post : List α) (x : α) (y : β)
    (hx : f x = some y) (hp : ∀ z ∈ post, f z = none) : findLast? f (pre ++ x :: post) = some y := by
  induction pre with
  | nil => simp only [List.nil_append, findLast?, findLast?_none f post hp, hx]
  | cons a as ih => simp only [List.cons_append, findLast?, ih]

/-! ### types of one group -/

theorem typesState_append (t : Tok) (gh : Bytes) (goff : Nat) (as bs : List TypeE) (toff : Nat) (s : USt) :
    typesState t gh goff (as ++ bs) toff s =
      typesState t gh goff bs (toff + (serTypes as).length) (typesState t gh goff as toff s) := by
  induction as generalizing toff s with
  | nil => simp [typesState, serTypes]
  | cons a as ih =>
    simp only [List.cons_append, typesState, ih, serTypes, List.length_append, serType_length]
    congr 1; omega

theorem typesState_nomatch (t : Tok) (gh : Bytes) (goff : Nat) (ts : List TypeE)
    (h : ∀ e ∈ ts, e.matches t = false) (toff : Nat) (s : USt) : typesState t gh goff ts toff s = s := by
  induction ts generalizing toff s with
  | nil => rfl
  | cons e es ih =>
    simp only [typesState, stepType, h e (by simp), Bool.false_eq_true, if_false]
    exact ih (fun e he => h e (by simp [he])) _ _

theorem typesState_changed (t : Tok) (gh : Bytes) (goff : Nat) (ts : List TypeE) (toff : Nat) (s : USt) :
    (typesState t gh goff ts toff s).changed = (s.changed || ts.any (TypeE.holds t)) := by
  induction ts generalizing toff s with
  | nil => simp [typesState]
  | cons e es ih =>
    simp only [typesState, ih, List.any_cons, TypeE.holds, stepType]
    by_cases hm : e.matches t <;> simp [hm, Bool.or_assoc]

/-- after a group's types `pre ++ e :: post` where `e` is the last matching one -/
theorem typesState_decomp (t : Tok) (gh : Bytes) (goff : Nat) (pre post : List TypeE) (e : TypeE)
    (he : e.matches t = true) (hp : ∀ x ∈ post, x.matches t = false) (s : USt) :
    let r := typesState t gh goff (pre ++ e :: post) 0 s
    r.mg = some (gh, goff) ∧ r.mt = some (encTypeHdr e e.size, (serTypes pre).length) ∧
      r.tokOff = 8 * insIdx t.id e.pairs := by
  simp only [typesState_append, typesState, Nat.zero_add, typesState_nomatch t gh goff post hp, stepType, he,
    if_true, and_self]

/-! ### groups -/

/-- no type of the group matches the request -/
def Group.noMatch (t : Tok) : Group → Prop
  | .tokens _ _ _ _ types => ∀ e ∈ types, e.matches t = false
  | .foreign .. => True

def Group.isForeign : Group → Prop
  | .tokens .. => False
  | .foreign .. => True

theorem groupsState_append (t : Tok) (as bs : List Group) (goff : Nat) (s : USt) :
    groupsState t (as ++ bs) goff s =
      groupsState t bs (goff + (serGroups as).length) (groupsState t as goff s) := by
  induction as generalizing goff s with
  | nil => simp [groupsState, serGroups]
  | cons a as ih =>
    cases a <;>
    · simp only [List.cons_append, groupsState, ih, serGroups, List.length_append]
      congr 1; omega

theorem groupsState_changed (t : Tok) (gs : List Group) (goff : Nat) (s : USt) :
    (groupsState t gs goff s).changed = (s.changed || gs.any (Group.holds t)) := by
  induction gs generalizing goff s with
  | nil => simp [groupsState]
  | cons g gs ih =>
    cases g with
    | tokens sig ver res extra types =>
      simp only [groupsState, ih, typesState_changed, List.any_cons, Group.holds]
      split <;> simp [Bool.or_assoc]
    | foreign => simp [groupsState, ih, Group.holds]

/-- once a type is matched, groups without a matching type change nothing -/
theorem groupsState_nomatch_some (t : Tok) (gs : List Group) (h : ∀ g ∈ gs, g.noMatch t) (goff : Nat)
    (s : USt) (hs : s.mt.isSome = true) : groupsState t gs goff s = s := by
  induction gs generalizing goff s with
  | nil => rfl
  | cons g gs ih =>
    have ih' := ih (fun g hg => h g (by simp [hg]))
    have hg := h g (by simp)
    cases g with
    | tokens sig ver res extra types =>
      have hn : s.mt.isNone = false := by cases hm : s.mt <;> simp_all
      simp only [groupsState, hn, Bool.false_eq_true, if_false, typesState_nomatch t _ goff types hg]
      exact ih' _ s hs
    | foreign => exact ih' _ s hs

/-- foreign groups change nothing -/
theorem groupsState_foreign (t : Tok) (gs : List Group) (h : ∀ g ∈ gs, g.isForeign) (goff : Nat) (s : USt) :
    groupsState t gs goff s = s := by
  induction gs generalizing goff s with
  | nil => rfl
  | cons g gs ih =>
    have hg := h g (by simp)
    cases g with
    | tokens => exact hg.elim
    | foreign => exact ih (fun g hg => h g (by simp [hg])) _ s

/-- while nothing matches, only the matched group moves -/
theorem groupsState_nomatch_none (t : Tok) (gs : List Group) (h : ∀ g ∈ gs, g.noMatch t) (goff : Nat)
    (s : USt) (hs : s.mt = none) :
    (groupsState t gs goff s).mt = none ∧ (groupsState t gs goff s).tokOff = s.tokOff := by
  induction gs generalizing goff s with
  | nil => exact ⟨hs, rfl⟩
  | cons g gs ih =>
    have ih' := ih (fun g hg => h g (by simp [hg]))
    have hg := h g (by simp)
    cases g with
    | tokens sig ver res extra types =>
      simp only [groupsState, hs, Option.isNone_none, if_true, typesState_nomatch t _ goff types hg]
      exact ih' _ _ rfl
    | foreign => exact ih' _ s hs

/-- case 1: the last matching type of the blob -/
theorem groupsState_type (t : Tok) (gpre gpost : List Group) (sig ver res : Nat) (extra : Bytes)
    (tpre tpost : List TypeE) (e : TypeE) (he : e.matches t = true)
    (htp : ∀ x ∈ tpost, x.matches t = false) (hgp : ∀ g ∈ gpost, g.noMatch t) (s : USt) :
    let g := Group.tokens sig ver res extra (tpre ++ e :: tpost)
    let r := groupsState t (gpre ++ g :: gpost) 0 s
    r.mg = some (g.hdr, (serGroups gpre).length) ∧
      r.mt = some (encTypeHdr e e.size, (serTypes tpre).length) ∧ r.tokOff = 8 * insIdx t.id e.pairs := by
  intro g r
  have hd := typesState_decomp t g.hdr (serGroups gpre).length tpre tpost e he htp
  simp only [r, groupsState_append, Nat.zero_add]
  simp only [g, groupsState] at hd ⊢
  generalize hs1 : (if (groupsState t gpre 0 s).mt.isNone = true then _ else _ : USt) = s1
  obtain ⟨h1, h2, h3⟩ := hd s1
  rw [groupsState_nomatch_some t gpost hgp _ _ (by rw [h2]; rfl)]
  exact ⟨h1, h2, h3⟩

/-- case 2: no type matches; the last token group -/
theorem groupsState_group (t : Tok) (gpre gpost : List Group) (sig ver res : Nat) (extra : Bytes)
    (types : List TypeE) (hpre : ∀ g ∈ gpre, g.noMatch t) (ht : ∀ x ∈ types, x.matches t = false)
    (hpost : ∀ g ∈ gpost, g.isForeign) (s : USt) (hs : s.mt = none) :
    let g := Group.tokens sig ver res extra types
    let r := groupsState t (gpre ++ g :: gpost) 0 s
    r.mg = some (g.hdr, (serGroups gpre).length) ∧ r.mt = none := by
  intro g r
  have h0 := groupsState_nomatch_none t gpre hpre 0 s hs
  simp only [r, groupsState_append, Nat.zero_add, g, groupsState, h0.1, Option.isNone_none, if_true,
    typesState_nomatch t _ _ types ht, groupsState_foreign t gpost hpost]
  exact ⟨trivial, trivial⟩

end Fiano.Apcb
