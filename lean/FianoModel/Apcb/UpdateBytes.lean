/-
  Updating an existing token changes only bytes inside the 4-byte value field of a pair that
  carries the token id in a matching type.  Positions are absolute offsets in the buffer.
-/
import FianoModel.Apcb.SortLemmas

namespace Fiano.Apcb

/-- is absolute offset `i` inside the value field of a pair with token id `id`, for a pair list
    serialised at offset `off`? -/
def pairsValAt (id : Nat) : List (Nat × Nat) → Nat → Nat → Prop
  | [], _, _ => False
  | p :: ps, off, i => (p.1 = id ∧ off + 4 ≤ i ∧ i < off + 8) ∨ pairsValAt id ps (off + 8) i

def typesValAt (t : Tok) : List TypeE → Nat → Nat → Prop
  | [], _, _ => False
  | e :: es, off, i =>
    (e.matches t = true ∧ pairsValAt t.id e.pairs (off + 16) i) ∨ typesValAt t es (off + e.size) i

def groupsValAt (t : Tok) : List Group → Nat → Nat → Prop
  | [], _, _ => False
  | g :: gs, off, i =>
    (match g with
     | .tokens _ _ _ extra types => typesValAt t types (off + 16 + extra.length) i
     | .foreign .. => False) ∨ groupsValAt t gs (off + (serGroup g).length) i

/-- `i` lies in the value field of a pair holding `t.id` in a type matching `t`, in `ser a` -/
def valueByte (t : Tok) (a : Apcb) (i : Nat) : Prop := groupsValAt t a.groups 128 i

/-- where two concatenations with equally long first parts differ -/
theorem diff_append (X X' Y Y' : Bytes) (hl : X.length = X'.length) (j : Nat)
    (h : (X ++ Y)[j]? ≠ (X' ++ Y')[j]?) :
    (j < X.length ∧ X[j]? ≠ X'[j]?) ∨ (X.length ≤ j ∧ Y[j - X.length]? ≠ Y'[j - X.length]?) := by
  by_cases hj : j < X.length
  · left
    rw [List.getElem?_append_left hj, List.getElem?_append_left (by omega)] at h
    exact ⟨hj, h⟩
  · right
    rw [List.getElem?_append_right (by omega), List.getElem?_append_right (by omega), ← hl] at h
    exact ⟨by omega, h⟩

theorem pairs_diff (id val : Nat) (ps : List (Nat × Nat)) (off j : Nat)
    (h : (serPairs (updPairs id val ps))[j]? ≠ (serPairs ps)[j]?) : pairsValAt id ps off (off + j) := by
  induction ps generalizing off j with
  | nil => exact (h rfl).elim
  | cons p ps ih =>
    have hcons : updPairs id val (p :: ps) = (if p.1 = id then (p.1, val) else p) :: updPairs id val ps := rfl
    rw [hcons] at h
    simp only [serPairs] at h
    rcases diff_append _ _ _ _ (by simp) j h with ⟨hj, hd⟩ | ⟨hj, hd⟩
    · left
      simp only [encPair_length] at hj
      by_cases hid : p.1 = id
      · refine ⟨hid, ?_, by omega⟩
        -- the first four bytes (the id) are equal
        simp only [hid, if_true, encPair] at hd
        by_cases h4 : j < 4
        · rw [List.getElem?_append_left (by simpa using h4), List.getElem?_append_left (by simpa using h4)] at hd
          exact (hd rfl).elim
        · omega
      · simp only [hid, if_false] at hd
        exact (hd rfl).elim
    · right
      simp only [encPair_length] at hj hd
      have := ih (off + 8) (j - 8) hd
      rw [show off + 8 + (j - 8) = off + j by omega] at this
      exact this

theorem types_diff (t : Tok) (ts : List TypeE) (off j : Nat)
    (h : (serTypes (ts.map (TypeE.upd t)))[j]? ≠ (serTypes ts)[j]?) : typesValAt t ts off (off + j) := by
  induction ts generalizing off j with
  | nil => exact (h rfl).elim
  | cons e es ih =>
    simp only [List.map_cons, serTypes, serType_upd] at h
    rw [show serType e = encTypeHdr e e.size ++ serPairs e.pairs from rfl] at h
    rcases diff_append _ _ _ _ (by simp [TypeE.upd]; split <;> simp [updPairs_length]) j h with ⟨hj, hd⟩ | ⟨hj, hd⟩
    · left
      rcases diff_append _ _ _ _ rfl j hd with ⟨_, hd'⟩ | ⟨hj', hd'⟩
      · exact (hd' rfl).elim
      · simp only [encTypeHdr_length] at hj' hd'
        by_cases hm : e.matches t
        · refine ⟨hm, ?_⟩
          simp only [TypeE.upd, hm, if_true] at hd'
          have := pairs_diff t.id t.val e.pairs (off + 16) (j - 16) hd'
          rw [show off + 16 + (j - 16) = off + j by omega] at this
          exact this
        · simp only [TypeE.upd, hm, Bool.false_eq_true, if_false] at hd'
          exact (hd' rfl).elim
    · right
      have hl : (encTypeHdr e e.size ++ serPairs (e.upd t).pairs).length = e.size := by
        rw [← serType_upd, serType_length, upd_size]
      rw [hl] at hj hd
      have := ih (off + e.size) (j - e.size) hd
      rw [show off + e.size + (j - e.size) = off + j by omega] at this
      exact this

theorem groups_diff (t : Tok) (gs : List Group) (off j : Nat)
    (h : (serGroups (gs.map (Group.upd t)))[j]? ≠ (serGroups gs)[j]?) : groupsValAt t gs off (off + j) := by
  induction gs generalizing off j with
  | nil => exact (h rfl).elim
  | cons g gs ih =>
    simp only [List.map_cons, serGroups] at h
    rcases diff_append _ _ _ _ (serGroup_upd_length t g) j h with ⟨hj, hd⟩ | ⟨hj, hd⟩
    · left
      cases g with
      | foreign => exact (hd rfl).elim
      | tokens sig ver res extra types =>
        simp only [Group.upd, serGroup, serTypes_upd_length] at hd
        rcases diff_append _ _ _ _ rfl j hd with ⟨_, hd'⟩ | ⟨hj', hd'⟩
        · exact (hd' rfl).elim
        · simp only [List.length_append, encGroupHdr_length] at hj' hd'
          have := types_diff t types (off + 16 + extra.length) (j - (16 + extra.length)) hd'
          rw [show off + 16 + extra.length + (j - (16 + extra.length)) = off + j by omega] at this
          exact this
    · right
      rw [serGroup_upd_length] at hj hd
      have := ih (off + (serGroup g).length) (j - (serGroup g).length) hd
      rw [show off + (serGroup g).length + (j - (serGroup g).length) = off + j by omega] at this
      exact this

/-- the two buffers of an update differ only in value bytes of the token -/
theorem update_diff (t : Tok) (a : Apcb) (slack : Bytes) (hw : a.WF) (i : Nat)
    (h : (ser (a.withGroups (a.groups.map (Group.upd t))) ++ slack)[i]? ≠ (ser a ++ slack)[i]?) :
    valueByte t a i := by
  have hsz : (a.withGroups (a.groups.map (Group.upd t))).size = a.size := by
    simp [Apcb.size, Apcb.withGroups, serGroups_upd_length]
  rw [ser_eq, ser_eq, hsz] at h
  have hh : hdrBytes (a.withGroups (a.groups.map (Group.upd t))) a.size = hdrBytes a a.size := rfl
  rw [hh, List.append_assoc, List.append_assoc] at h
  rcases diff_append _ _ _ _ rfl i h with ⟨_, hd⟩ | ⟨hj, hd⟩
  · exact (hd rfl).elim
  · rw [hdrBytes_length a _ hw] at hj hd
    rcases diff_append _ _ _ _ (by simp [Apcb.withGroups, serGroups_upd_length]) (i - 128) hd with ⟨_, hd'⟩ | ⟨_, hd'⟩
    · have := groups_diff t a.groups 128 (i - 128) hd'
      rw [show 128 + (i - 128) = i by omega] at this
      exact this
    · simp only [Apcb.withGroups, serGroups_upd_length] at hd'
      exact (hd' rfl).elim

end Fiano.Apcb
