/-
  Refinement: `upsert` (bytes) on `ser a ++ slack` is `specUpsert` (abstract).
-/
import FianoModel.Apcb.InsertLemmas

namespace Fiano.Apcb

/-- the 128 header bytes of a serialised blob whose SizeOfAPCB is `n` -/
def hdrBytes (a : Apcb) (n : Nat) : Bytes := a.pre ++ leN 4 n ++ a.post

theorem hdrBytes_length (a : Apcb) (n : Nat) (hw : a.WF) : (hdrBytes a n).length = 128 := by
  simp [hdrBytes, hw.pre, hw.post]

theorem ser_eq (a : Apcb) : ser a = hdrBytes a a.size ++ serGroups a.groups := rfl

theorem ser_length (a : Apcb) (hw : a.WF) : (ser a).length = a.size := by
  rw [ser_eq, List.length_append, hdrBytes_length a _ hw]; rfl

theorem size_ge (a : Apcb) : 128 ≤ a.size := by simp [Apcb.size, hdrSize]

theorem splice_hdrBytes (a : Apcb) (n n' : Nat) (hw : a.WF) :
    splice (hdrBytes a n) 8 (leN 4 n') = hdrBytes a n' := by
  unfold hdrBytes
  exact splice_mid_eq a.pre (leN 4 n) a.post (leN 4 n') 8 hw.pre (by simp)

theorem parseHeader_ser (a : Apcb) (slack : Bytes) (hw : a.WF) (hb : (ser a ++ slack).length < 2 ^ 32) :
    parseHeader (ser a ++ slack) = .ok a.size := by
  have hl : (ser a ++ slack).length = a.size + slack.length := by rw [List.length_append, ser_length a hw]
  have hge := size_ge a
  have e1 : ser a ++ slack = a.pre ++ (leN 4 a.size ++ a.post ++ serGroups a.groups ++ slack) := by
    simp [ser]
  have e2 : ser a ++ slack = a.pre ++ leN 4 a.size ++ (a.post ++ serGroups a.groups ++ slack) := by
    simp [ser]
  have e3 : ser a ++ slack = (a.pre ++ leN 4 a.size) ++ (a.post ++ (serGroups a.groups ++ slack)) := by
    simp [ser]
  have r0 : rd (ser a ++ slack) 0 4 = sigV2 := by
    rw [e1, rd_append_left _ _ _ _ (by rw [hw.pre]; omega), hw.sig]
  have r8 : rd (ser a ++ slack) 8 4 = a.size := by
    rw [e2, rd_mid _ _ _ 8 4 hw.pre (by simp), fromLE_leN4 _ hw.size]
  have rpost : ∀ off n, off + n ≤ 116 → rd (ser a ++ slack) (12 + off) n = rd a.post off n := by
    intro off n h
    rw [e3]
    unfold rd slice
    rw [show 12 + off = (a.pre ++ leN 4 a.size).length + off by simp [hw.pre], ← List.drop_drop,
      List.drop_left, List.drop_append_of_le_length (by rw [hw.post]; omega),
      List.take_append_of_le_length (by simp [hw.post]; omega)]
  have r32 : rd (ser a ++ slack) 32 4 = sigV3 := by rw [rpost 20 4 (by omega), hw.sig2]
  have r124 : rd (ser a ++ slack) 124 4 = sigEnd := by rw [rpost 112 4 (by omega), hw.sigEnd]
  unfold parseHeader
  simp only [hdrSize, offSig, offSig2, offSigEnd, offSizeOfAPCB, r0, r8, r32, r124, hl, ne_eq, not_true,
    if_false]
  rw [if_neg (by omega), if_neg (by omega), if_neg (by rw [Nat.mod_eq_of_lt (by omega)]; omega),
    if_neg (by omega)]

theorem body_ser (a : Apcb) (slack : Bytes) (hw : a.WF) :
    slice (ser a ++ slack) 128 (a.size - 128) = serGroups a.groups := by
  rw [ser_eq]
  exact slice_mid _ _ _ 128 _ (hdrBytes_length a _ hw) (by simp [Apcb.size, hdrSize])

theorem take_hdr_ser (a : Apcb) (slack : Bytes) (hw : a.WF) :
    (ser a ++ slack).take 128 = hdrBytes a a.size := by
  rw [ser_eq, List.append_assoc]; exact take_append_len _ _ _ (hdrBytes_length a _ hw)

theorem drop_size_ser (a : Apcb) (slack : Bytes) (hw : a.WF) : (ser a ++ slack).drop a.size = slack :=
  drop_append_len _ _ _ (ser_length a hw)

/-! ### nothing to update ⇒ the walk leaves the blob as it is -/

theorem updPairs_id (id val : Nat) (ps : List (Nat × Nat)) (h : ps.any (fun p => p.1 = id) = false) :
    updPairs id val ps = ps := by
  induction ps with
  | nil => rfl
  | cons p ps ih =>
    simp only [List.any_cons, Bool.or_eq_false_iff, decide_eq_false_iff_not] at h
    simp only [updPairs, List.map_cons, h.1, if_false]
    congr 1
    exact ih h.2

theorem TypeE.upd_id (t : Tok) (e : TypeE) (h : e.holds t = false) : e.upd t = e := by
  unfold TypeE.upd
  split
  · rename_i hm
    simp only [TypeE.holds, hm, Bool.true_and] at h
    rw [updPairs_id _ _ _ h]
  · rfl

theorem Group.upd_id (t : Tok) (g : Group) (h : g.holds t = false) : g.upd t = g := by
  cases g with
  | tokens sig ver res extra types =>
    simp only [Group.holds, List.any_eq_false] at h
    simp only [Group.upd]
    congr 1
    conv => rhs; rw [← List.map_id types]
    exact List.map_congr_left (fun e he => TypeE.upd_id t e (by simpa using h e he))
  | foreign => rfl

theorem groups_upd_id (t : Tok) (gs : List Group) (h : gs.any (Group.holds t) = false) :
    gs.map (Group.upd t) = gs := by
  conv => rhs; rw [← List.map_id gs]
  exact List.map_congr_left (fun g hg => Group.upd_id t g (by
    simp only [List.any_eq_false] at h; simpa using h g hg))

/-! ### the new bytes are the serialisation of the new type / group -/

theorem serType_newType (t : Tok) : serType (newType t) = newTypeBytes t := by
  simp [serType, newType, newTypeBytes, encTypeHdr, TypeE.size, serPairs, encPair, tHdrSize, pairSize]

theorem serGroup_newGroup (t : Tok) : serGroup (newGroup t) = newGroupBytes t := by
  simp only [newGroup, serGroup, serTypes, serType_newType, newGroupBytes, encGroupHdr, List.append_nil,
    List.length_nil, Nat.add_zero, gHdrSize, tHdrSize, pairSize, newGroupVersion]
  simp [newTypeBytes]


/-! ### first half: the walk -/

def s0 : USt := { mg := none, mt := none, tokOff := 0, changed := false }

theorem s0_eq : ({ mg := none, mt := none, tokOff := 0, changed := false } : USt) = s0 := rfl

theorem upsert_walk (t : Tok) (a : Apcb) (slack : Bytes) (hw : a.WF) (hb : (ser a ++ slack).length < 2 ^ 32) :
    upsert t (ser a ++ slack) =
      if holds t a then (ser (a.withGroups (a.groups.map (Group.upd t))) ++ slack, .ok)
      else insertNew t (ser a ++ slack) (hdrBytes a a.size) a.size (groupsState t a.groups 0 s0) := by
  have hch : (groupsState t a.groups 0 s0).changed = holds t a := by
    rw [groupsState_changed]; simp [s0, holds]
  unfold upsert
  simp only [parseHeader_ser a slack hw hb, hdrSize, body_ser a slack hw, groupsLoop_ser _ _ hw.groups,
    absGroups_upsert t _ hw.groups, take_hdr_ser a slack hw, drop_size_ser a slack hw, s0_eq, hch, ne_eq,
    not_true, if_false]
  by_cases hh : holds t a
  · simp only [hh, if_true]
    congr 1
    rw [ser_eq]
    simp only [Apcb.size, Apcb.withGroups, serGroups_upd_length, hdrSize]
    rfl
  · have hf : holds t a = false := by simpa using hh
    simp only [hf, Bool.false_eq_true, if_false]
    rw [groups_upd_id t a.groups hf, ← ser_eq]


/-! ### second half: the three ways of inserting -/

theorem TypeE.ins_none (t : Tok) (e : TypeE) (h : TypeE.ins t e = none) : e.matches t = false := by
  unfold TypeE.ins at h
  split at h
  · cases h
  · rename_i hm; simpa using hm

theorem TypeE.ins_some (t : Tok) (e e' : TypeE) (h : TypeE.ins t e = some e') :
    e.matches t = true ∧ e' = e.insP t := by
  unfold TypeE.ins at h
  split at h
  · rename_i hm; injection h with h; exact ⟨hm, h.symm⟩
  · cases h

theorem Group.ins_none (t : Tok) (g : Group) (h : Group.ins t g = none) : g.noMatch t := by
  cases g with
  | tokens sig ver res extra types =>
    simp only [Group.ins, Option.map_eq_none_iff] at h
    intro e he
    exact TypeE.ins_none t e (modifyLast?_none _ _ h e he)
  | foreign => trivial

theorem Group.ins_some (t : Tok) (g g' : Group) (h : Group.ins t g = some g') :
    ∃ sig ver res extra tpre e tpost, g = .tokens sig ver res extra (tpre ++ e :: tpost) ∧
      e.matches t = true ∧ (∀ x ∈ tpost, x.matches t = false) ∧
      g' = .tokens sig ver res extra (tpre ++ e.insP t :: tpost) := by
  cases g with
  | tokens sig ver res extra types =>
    simp only [Group.ins, Option.map_eq_some_iff] at h
    obtain ⟨types', hm, rfl⟩ := h
    obtain ⟨tpre, e, e', tpost, h1, h2, h3, h4⟩ := modifyLast?_some _ _ _ hm
    obtain ⟨hm, rfl⟩ := TypeE.ins_some t e e' h2
    exact ⟨sig, ver, res, extra, tpre, e, tpost, by rw [h1], hm, fun x hx => TypeE.ins_none t x (h3 x hx),
      by rw [h4]⟩
  | foreign => simp [Group.ins] at h

theorem Group.addType_none (t : Tok) (g : Group) (h : Group.addType t g = none) : g.isForeign := by
  cases g with
  | tokens => simp [Group.addType] at h
  | foreign => trivial

theorem Group.addType_some (t : Tok) (g g' : Group) (h : Group.addType t g = some g') :
    ∃ sig ver res extra types, g = .tokens sig ver res extra types ∧
      g' = .tokens sig ver res extra (types ++ [newType t]) := by
  cases g with
  | tokens sig ver res extra types =>
    simp only [Group.addType, Option.some.injEq] at h
    exact ⟨sig, ver, res, extra, types, rfl, h.symm⟩
  | foreign => simp [Group.addType] at h

theorem insPairs_ser (id val : Nat) (ps : List (Nat × Nat)) :
    serPairs (insPairs id val ps) =
      serPairs (ps.take (insIdx id ps)) ++ (leN 4 id ++ leN 4 val) ++ serPairs (ps.drop (insIdx id ps)) := by
  simp [insPairs, serPairs_append, serPairs, encPair]

theorem insPairs_length (id val : Nat) (ps : List (Nat × Nat)) : (insPairs id val ps).length = ps.length + 1 := by
  simp only [insPairs, List.length_append, List.length_take, List.length_cons, List.length_drop]
  omega

theorem insert_pair_case (t : Tok) (a : Apcb) (slack : Bytes) (hw : a.WF)
    (hb : (ser a ++ slack).length + 40 < 2 ^ 32)
    (gpre gpost : List Group) (sig ver res : Nat) (extra : Bytes) (tpre tpost : List TypeE) (e : TypeE)
    (hg : a.groups = gpre ++ Group.tokens sig ver res extra (tpre ++ e :: tpost) :: gpost)
    (he : e.matches t = true) (htp : ∀ x ∈ tpost, x.matches t = false) (hgp : ∀ g ∈ gpost, g.noMatch t) :
    insertNew t (ser a ++ slack) (hdrBytes a a.size) a.size (groupsState t a.groups 0 s0) =
      if e.size + 8 > 0xFFFF then (ser a ++ slack, .err)
      else if 8 ≤ slack.length then
        (ser (a.withGroups (gpre ++ Group.tokens sig ver res extra (tpre ++ e.insP t :: tpost) :: gpost)) ++
          slack.drop 8, .ok)
      else (ser a ++ slack, .err) := by
  have hgw : (Group.tokens sig ver res extra (tpre ++ e :: tpost)).WF := hw.groups _ (by rw [hg]; simp)
  obtain ⟨h1, h2, h3, h4, h5, h6⟩ := hgw
  have hew : e.WF := h5 e (by simp)
  simp only [gHdrSize] at h4 h6
  let k := insIdx t.id e.pairs
  let GH := (Group.tokens sig ver res extra (tpre ++ e :: tpost)).hdr
  have hGH : GH = encGroupHdr sig tokensGroupID (16 + extra.length) ver res
      (16 + extra.length + (serTypes (tpre ++ e :: tpost)).length) := rfl
  have hser : ser a ++ slack = hdrBytes a a.size ++ serGroups gpre ++ GH ++ extra ++ serTypes tpre ++
      encTypeHdr e e.size ++ serPairs (e.pairs.take k) ++ serPairs (e.pairs.drop k) ++ serTypes tpost ++
      serGroups gpost ++ slack := by
    have hsg : serGroup (Group.tokens sig ver res extra (tpre ++ e :: tpost)) =
        GH ++ extra ++ serTypes (tpre ++ e :: tpost) := rfl
    have hsplit : serPairs e.pairs = serPairs (e.pairs.take k) ++ serPairs (e.pairs.drop k) := by
      rw [← serPairs_append, List.take_append_drop]
    rw [ser_eq, hg, serGroups_append, serGroups_cons, hsg, serTypes_append, serTypes_cons, serType, hsplit]
    simp only [List.append_assoc]
  have hst := groupsState_type t gpre gpost sig ver res extra tpre tpost e he htp hgp s0
  simp only [] at hst
  obtain ⟨hmg, hmt, hto⟩ := hst
  have hsize : a.size = 128 + (serGroups gpre).length + 16 + extra.length + (serTypes tpre).length + 16 +
      (serPairs (e.pairs.take k)).length + (serPairs (e.pairs.drop k)).length + (serTypes tpost).length +
      (serGroups gpost).length := by
    have := congrArg List.length hser
    rw [List.length_append, ser_length a hw] at this
    simp only [List.length_append, hdrBytes_length a _ hw, encTypeHdr_length] at this
    have hghl : GH.length = 16 := by rw [hGH]; simp
    rw [hghl] at this
    omega
  have hP1 : (serPairs (e.pairs.take k)).length = 8 * k := by
    rw [serPairs_length, List.length_take]
    have : k ≤ e.pairs.length := by
      clear hser hsize hmg hmt hto
      show insIdx t.id e.pairs ≤ e.pairs.length
      generalize e.pairs = ps
      induction ps with
      | nil => simp [insIdx]
      | cons p ps ih => simp only [insIdx, List.length_cons]; split <;> (try split) <;> omega
    omega
  have hsgl : 16 + extra.length + (serTypes (tpre ++ e :: tpost)).length ≤ a.size := by
    have : (serGroups a.groups).length = (serGroups gpre).length +
        (16 + extra.length + (serTypes (tpre ++ e :: tpost)).length) + (serGroups gpost).length := by
      rw [hg, serGroups_append, serGroups_cons]
      simp [serGroup]; omega
    simp only [Apcb.size, hdrSize]; omega
  have hbl : (ser a ++ slack).length = a.size + slack.length := by rw [List.length_append, ser_length a hw]
  have hb' := hb
  rw [hser] at hb'
  have key := insertNew_pair t (hdrBytes a a.size) (serGroups gpre) GH extra (serTypes tpre) (encTypeHdr e e.size)
    (serPairs (e.pairs.take k)) (serPairs (e.pairs.drop k)) (serTypes tpost) (serGroups gpost) slack a.size
    (serGroups gpre).length (serTypes tpre).length
    (16 + extra.length + (serTypes (tpre ++ e :: tpost)).length) e.size (groupsState t a.groups 0 s0)
    (hdrBytes_length a _ hw) rfl (by rw [hGH]; simp) (by rw [hGH]; exact rd_groupHdr_sg _ _ _ _ _ _ h6)
    (by rw [hGH]; exact rd_groupHdr_sh _ _ _ _ _ _ h4) rfl (by simp) (rd_typeHdr_size e _ hew.size) hsize hb'
    (by rw [hbl] at hb; omega) (by rw [hg]; exact hmg) (by rw [hg]; exact hmt) (by rw [hg, hto, hP1])
  rw [← hser] at key
  rw [key]
  by_cases hfull : e.size + 8 > 65535
  · rw [if_pos hfull, if_pos hfull]
  · rw [if_neg hfull, if_neg hfull]
    by_cases hroom : 8 ≤ slack.length
    · rw [if_pos hroom, if_pos hroom]
      refine congrArg (fun x => (x, Status.ok)) (congrArg (· ++ slack.drop 8) ?_)
      have hs1 : (e.insP t).size = e.size + 8 := by
        simp [TypeE.size, TypeE.insP, insPairs_length, tHdrSize, pairSize]; omega
      have hs2 : (serTypes (tpre ++ e.insP t :: tpost)).length = (serTypes (tpre ++ e :: tpost)).length + 8 := by
        simp only [serTypes_append, serTypes_cons, List.length_append, serType_length, hs1]; omega
      have hs3 : (a.withGroups (gpre ++ Group.tokens sig ver res extra (tpre ++ e.insP t :: tpost) :: gpost)).size
          = a.size + 8 := by
        simp only [Apcb.size, Apcb.withGroups, hg, serGroups_append, serGroups_cons, List.length_append, serGroup,
          encGroupHdr_length, hs2]
        omega
      have hsg' : serGroup (Group.tokens sig ver res extra (tpre ++ e.insP t :: tpost)) =
          encGroupHdr sig tokensGroupID (16 + extra.length) ver res
            (16 + extra.length + (serTypes (tpre ++ e :: tpost)).length + 8) ++ extra ++
            serTypes (tpre ++ e.insP t :: tpost) := by
        simp only [serGroup, gHdrSize, hs2, Nat.add_assoc]
      have hty : serType (e.insP t) = encTypeHdr e (e.size + 8) ++ serPairs (e.pairs.take k) ++
          (leN 4 t.id ++ leN 4 t.val) ++ serPairs (e.pairs.drop k) := by
        rw [serType, hs1]
        simp only [TypeE.insP, insPairs_ser, List.append_assoc]
        rfl
      rw [splice_hdrBytes a _ _ hw, hGH, splice_groupHdr_sg, splice_typeHdr_size, ser_eq, hs3]
      simp only [Apcb.withGroups, serGroups_append, serGroups_cons, hsg', serTypes_append, serTypes_cons, hty,
        List.append_assoc]
      rfl
    · rw [if_neg hroom, if_neg hroom]


theorem insert_type_case (t : Tok) (a : Apcb) (slack : Bytes) (hw : a.WF)
    (hb : (ser a ++ slack).length + 40 < 2 ^ 32)
    (gpre gpost : List Group) (sig ver res : Nat) (extra : Bytes) (types : List TypeE)
    (hg : a.groups = gpre ++ Group.tokens sig ver res extra types :: gpost)
    (hpre : ∀ g ∈ gpre, g.noMatch t) (ht : ∀ x ∈ types, x.matches t = false)
    (hpost : ∀ g ∈ gpost, g.isForeign) :
    insertNew t (ser a ++ slack) (hdrBytes a a.size) a.size (groupsState t a.groups 0 s0) =
      if 24 ≤ slack.length then
        (ser (a.withGroups (gpre ++ Group.tokens sig ver res extra (types ++ [newType t]) :: gpost)) ++
          slack.drop 24, .ok)
      else (ser a ++ slack, .err) := by
  have hgw : (Group.tokens sig ver res extra types).WF := hw.groups _ (by rw [hg]; simp)
  obtain ⟨h1, h2, h3, h4, h5, h6⟩ := hgw
  simp only [gHdrSize] at h4 h6
  let GH := (Group.tokens sig ver res extra types).hdr
  have hGH : GH = encGroupHdr sig tokensGroupID (16 + extra.length) ver res
      (16 + extra.length + (serTypes types).length) := rfl
  have hsg : serGroup (Group.tokens sig ver res extra types) = GH ++ extra ++ serTypes types := rfl
  have hser : ser a ++ slack = hdrBytes a a.size ++ serGroups gpre ++ GH ++ (extra ++ serTypes types) ++
      serGroups gpost ++ slack := by
    rw [ser_eq, hg, serGroups_append, serGroups_cons, hsg]
    simp only [List.append_assoc]
  obtain ⟨hmg, hmt⟩ := groupsState_group t gpre gpost sig ver res extra types hpre ht hpost s0 rfl
  have hbl : (ser a ++ slack).length = a.size + slack.length := by rw [List.length_append, ser_length a hw]
  have hsize : a.size = 128 + (serGroups gpre).length + 16 + (extra ++ serTypes types).length +
      (serGroups gpost).length := by
    have := congrArg List.length hser
    rw [List.length_append, ser_length a hw] at this
    simp only [List.length_append, hdrBytes_length a _ hw] at this
    have hghl : GH.length = 16 := by rw [hGH]; simp
    rw [hghl] at this
    simp only [List.length_append]
    omega
  have hb' := hb
  rw [hser] at hb'
  have key := insertNew_type t (hdrBytes a a.size) (serGroups gpre) GH (extra ++ serTypes types) (serGroups gpost)
    slack a.size (serGroups gpre).length (16 + extra.length + (serTypes types).length)
    (groupsState t a.groups 0 s0) (hdrBytes_length a _ hw) rfl (by rw [hGH]; simp)
    (by rw [hGH]; exact rd_groupHdr_sg _ _ _ _ _ _ h6) (by simp; omega) hsize hb'
    (by rw [hg]; exact hmg) (by rw [hg]; exact hmt)
  rw [← hser] at key
  rw [key]
  by_cases hroom : 24 ≤ slack.length
  · rw [if_pos hroom, if_pos hroom]
    refine congrArg (fun x => (x, Status.ok)) (congrArg (· ++ slack.drop 24) ?_)
    have hs2 : (serTypes (types ++ [newType t])).length = (serTypes types).length + 24 := by
      simp [serTypes_append, serTypes, TypeE.size, newType, tHdrSize, pairSize]
    have hs3 : (a.withGroups (gpre ++ Group.tokens sig ver res extra (types ++ [newType t]) :: gpost)).size
        = a.size + 24 := by
      simp only [Apcb.size, Apcb.withGroups, hg, serGroups_append, serGroups_cons, List.length_append, serGroup,
        encGroupHdr_length, hs2]
      omega
    have hsg' : serGroup (Group.tokens sig ver res extra (types ++ [newType t])) =
        encGroupHdr sig tokensGroupID (16 + extra.length) ver res
          (16 + extra.length + (serTypes types).length + 24) ++ extra ++ serTypes types ++ newTypeBytes t := by
      have hnl : (newTypeBytes t).length = 24 := by simp [newTypeBytes]
      simp only [serGroup, gHdrSize, Nat.add_assoc, serTypes_append, serTypes, serType_newType,
        List.append_nil, List.append_assoc, List.length_append, hnl]
    rw [splice_hdrBytes a _ _ hw, hGH, splice_groupHdr_sg, ser_eq, hs3]
    simp only [Apcb.withGroups, serGroups_append, serGroups_cons, hsg', List.append_assoc]
    rfl
  · rw [if_neg hroom, if_neg hroom]

theorem insert_group_case (t : Tok) (a : Apcb) (slack : Bytes) (hw : a.WF)
    (hb : (ser a ++ slack).length + 40 < 2 ^ 32) (hf : ∀ g ∈ a.groups, g.isForeign) :
    insertNew t (ser a ++ slack) (hdrBytes a a.size) a.size (groupsState t a.groups 0 s0) =
      if 40 ≤ slack.length then (ser (a.withGroups (a.groups ++ [newGroup t])) ++ slack.drop 40, .ok)
      else (ser a ++ slack, .err) := by
  rw [groupsState_foreign t a.groups hf]
  have key := insertNew_group t (hdrBytes a a.size) (serGroups a.groups) slack a.size s0
    (hdrBytes_length a _ hw) rfl (by rw [← ser_eq]; exact hb) rfl rfl
  rw [← ser_eq] at key
  rw [key]
  by_cases hroom : 40 ≤ slack.length
  · rw [if_pos hroom, if_pos hroom]
    refine congrArg (fun x => (x, Status.ok)) (congrArg (· ++ slack.drop 40) ?_)
    have hs3 : (a.withGroups (a.groups ++ [newGroup t])).size = a.size + 40 := by
      simp only [Apcb.size, Apcb.withGroups, serGroups_append, serGroups, List.length_append, serGroup_newGroup,
        List.append_nil]
      simp [newGroupBytes, newTypeBytes]; omega
    rw [splice_hdrBytes a _ _ hw, ser_eq, hs3]
    simp only [Apcb.withGroups, serGroups_append, serGroups, serGroup_newGroup, List.append_nil, List.append_assoc]
    rfl
  · rw [if_neg hroom, if_neg hroom]


/-! ### assembly -/

theorem Group.target_none (t : Tok) (g : Group) (h : g.noMatch t) : Group.target t g = none := by
  cases g with
  | tokens sig ver res extra types =>
    exact findLast?_none _ _ (fun e he => by simp [h e he])
  | foreign => rfl

theorem upsert_refines (t : Tok) (a : Apcb) (slack : Bytes) (hw : a.WF)
    (hb : (ser a ++ slack).length + 40 < 2 ^ 32) :
    upsert t (ser a ++ slack) = specUpsert t a slack := by
  rw [upsert_walk t a slack hw (by omega)]
  unfold specUpsert
  by_cases hh : holds t a
  · simp only [hh, if_true, absUpsert]
  · simp only [hh, if_false, Bool.false_eq_true]
    cases hm : modifyLast? (Group.ins t) a.groups with
    | some gs' =>
      obtain ⟨gpre, g, g', gpost, hg, hgi, hpost, hgs'⟩ := modifyLast?_some _ _ _ hm
      obtain ⟨sig, ver, res, extra, tpre, e, tpost, rfl, he, htp, rfl⟩ := Group.ins_some t g g' hgi
      have hgp : ∀ g ∈ gpost, g.noMatch t := fun g hg => Group.ins_none t g (hpost g hg)
      have htarget : target t a = some e := by
        unfold target
        rw [hg]
        refine findLast?_decomp _ gpre gpost _ e ?_ (fun g hg => Group.target_none t g (hgp g hg))
        exact findLast?_decomp _ tpre tpost e e (by simp [he]) (fun x hx => by simp [htp x hx])
      rw [insert_pair_case t a slack hw hb gpre gpost sig ver res extra tpre tpost e hg he htp hgp]
      simp only [typeFull, htarget, absUpsert, hh, hm, Bool.false_eq_true, if_false, pairSize, hgs']
      by_cases hfull : e.size + 8 > 65535 <;> simp [hfull]
    | none =>
      have hall : ∀ g ∈ a.groups, g.noMatch t := fun g hg => Group.ins_none t g (modifyLast?_none _ _ hm g hg)
      have htarget : target t a = none :=
        findLast?_none _ _ (fun g hg => Group.target_none t g (hall g hg))
      cases ha : modifyLast? (Group.addType t) a.groups with
      | some gs' =>
        obtain ⟨gpre, g, g', gpost, hg, hga, hpost, hgs'⟩ := modifyLast?_some _ _ _ ha
        obtain ⟨sig, ver, res, extra, types, rfl, rfl⟩ := Group.addType_some t g g' hga
        rw [insert_type_case t a slack hw hb gpre gpost sig ver res extra types hg
          (fun g hgm => hall g (by rw [hg]; simp [hgm]))
          (hall (Group.tokens sig ver res extra types) (by rw [hg]; simp))
          (fun g hgm => Group.addType_none t g (hpost g hgm))]
        simp only [typeFull, htarget, absUpsert, hh, hm, ha, Bool.false_eq_true, if_false, pairSize, tHdrSize,
          hgs']
      | none =>
        rw [insert_group_case t a slack hw hb
          (fun g hg => Group.addType_none t g (modifyLast?_none _ _ ha g hg))]
        simp only [typeFull, htarget, absUpsert, hh, hm, ha, Bool.false_eq_true, if_false, pairSize, tHdrSize,
          gHdrSize]

end Fiano.Apcb
