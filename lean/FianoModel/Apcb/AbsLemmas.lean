/-
  Facts about the abstract upsert alone: the four ways it can go (as explicit decompositions of
  the group list), preservation of well-formedness, what it does to the abstract listing, and
  preservation of sortedness.
-/
import FianoModel.Apcb.ListLemmas

namespace Fiano.Apcb

/-- the four ways of `absUpsert`, with the decomposition of the blob that each one acts on -/
inductive UCase (t : Tok) (a : Apcb) : Prop where
  | update (hh : holds t a = true)
      (hr : absUpsert t a = (a.withGroups (a.groups.map (Group.upd t)), 0))
  | pair (hh : holds t a = false) (gpre gpost : List Group) (sig ver res : Nat) (extra : Bytes)
      (tpre tpost : List TypeE) (e : TypeE)
      (hg : a.groups = gpre ++ Group.tokens sig ver res extra (tpre ++ e :: tpost) :: gpost)
      (he : e.matches t = true) (htp : ∀ x ∈ tpost, x.matches t = false) (hgp : ∀ g ∈ gpost, g.noMatch t)
      (htarget : target t a = some e)
      (hr : absUpsert t a =
        (a.withGroups (gpre ++ Group.tokens sig ver res extra (tpre ++ e.insP t :: tpost) :: gpost), 8))
  | type (hh : holds t a = false) (gpre gpost : List Group) (sig ver res : Nat) (extra : Bytes)
      (types : List TypeE) (hg : a.groups = gpre ++ Group.tokens sig ver res extra types :: gpost)
      (hpre : ∀ g ∈ gpre, g.noMatch t) (ht : ∀ x ∈ types, x.matches t = false)
      (hpost : ∀ g ∈ gpost, g.isForeign) (htarget : target t a = none)
      (hr : absUpsert t a =
        (a.withGroups (gpre ++ Group.tokens sig ver res extra (types ++ [newType t]) :: gpost), 24))
  | group (hh : holds t a = false) (hf : ∀ g ∈ a.groups, g.isForeign) (htarget : target t a = none)
      (hr : absUpsert t a = (a.withGroups (a.groups ++ [newGroup t]), 40))

theorem absUpsert_cases (t : Tok) (a : Apcb) : UCase t a := by
  by_cases hh : holds t a
  · exact .update hh (by simp [absUpsert, hh])
  · have hf : holds t a = false := by simpa using hh
    cases hm : modifyLast? (Group.ins t) a.groups with
    | some gs' =>
      obtain ⟨gpre, g, g', gpost, hg, hgi, hpost, hgs'⟩ := modifyLast?_some _ _ _ hm
      obtain ⟨sig, ver, res, extra, tpre, e, tpost, rfl, he, htp, rfl⟩ := Group.ins_some t g g' hgi
      have hgp : ∀ g ∈ gpost, g.noMatch t := fun g hg => Group.ins_none t g (hpost g hg)
      have htarget : target t a = some e := by
        unfold target
        rw [hg]
        refine findLast?_decomp _ gpre gpost _ e ?_ (fun g hg => Group.target_none t g (hgp g hg))
        exact findLast?_decomp _ tpre tpost e e (by simp [he]) (fun x hx => by simp [htp x hx])
      exact .pair hf gpre gpost sig ver res extra tpre tpost e hg he htp hgp htarget
        (by simp [absUpsert, hf, hm, hgs', pairSize])
    | none =>
      have hall : ∀ g ∈ a.groups, g.noMatch t := fun g hg => Group.ins_none t g (modifyLast?_none _ _ hm g hg)
      have htarget : target t a = none :=
        findLast?_none _ _ (fun g hg => Group.target_none t g (hall g hg))
      cases ha : modifyLast? (Group.addType t) a.groups with
      | some gs' =>
        obtain ⟨gpre, g, g', gpost, hg, hga, hpost, hgs'⟩ := modifyLast?_some _ _ _ ha
        obtain ⟨sig, ver, res, extra, types, rfl, rfl⟩ := Group.addType_some t g g' hga
        exact .type hf gpre gpost sig ver res extra types hg (fun g hgm => hall g (by rw [hg]; simp [hgm]))
          (hall (Group.tokens sig ver res extra types) (by rw [hg]; simp))
          (fun g hgm => Group.addType_none t g (hpost g hgm)) htarget
          (by simp [absUpsert, hf, hm, ha, hgs', pairSize, tHdrSize])
      | none =>
        exact .group hf (fun g hg => Group.addType_none t g (modifyLast?_none _ _ ha g hg)) htarget
          (by simp [absUpsert, hf, hm, ha, pairSize, tHdrSize, gHdrSize])


/-! ### well-formedness is preserved -/

theorem TypeE.upd_WF (t : Tok) (e : TypeE) (hw : e.WF) (hv : t.val < 2 ^ 32) : (e.upd t).WF := by
  unfold TypeE.upd
  split
  · refine { hw with pairs := ?_, size := ?_ }
    · intro p hp
      simp only [updPairs, List.mem_map] at hp
      obtain ⟨q, hq, rfl⟩ := hp
      split
      · exact ⟨(hw.pairs q hq).1, hv⟩
      · exact hw.pairs q hq
    · have := hw.size
      simpa [TypeE.size, updPairs_length] using this
  · exact hw

theorem Group.upd_WF (t : Tok) (g : Group) (hw : g.WF) (hv : t.val < 2 ^ 32) : (g.upd t).WF := by
  cases g with
  | tokens sig ver res extra types =>
    obtain ⟨h1, h2, h3, h4, h5, h6⟩ := hw
    refine ⟨h1, h2, h3, h4, ?_, ?_⟩
    · intro e he
      simp only [List.mem_map] at he
      obtain ⟨e', he', rfl⟩ := he
      exact TypeE.upd_WF t e' (h5 e' he') hv
    · rw [serTypes_upd_length]; exact h6
  | foreign => exact hw

theorem insIdx_le (id : Nat) (ps : List (Nat × Nat)) : insIdx id ps ≤ ps.length := by
  induction ps with
  | nil => simp [insIdx]
  | cons p ps ih => simp only [insIdx, List.length_cons]; split <;> (try split) <;> omega

theorem TypeE.insP_WF (t : Tok) (e : TypeE) (hw : e.WF) (ht : t.WF) (hs : e.size + 8 ≤ 0xFFFF) :
    (e.insP t).WF := by
  refine { hw with pairs := ?_, size := ?_ }
  · intro p hp
    simp only [TypeE.insP, insPairs, List.mem_append, List.mem_cons] at hp
    rcases hp with hp | rfl | hp
    · exact hw.pairs p (List.mem_of_mem_take hp)
    · exact ⟨ht.id, ht.val⟩
    · exact hw.pairs p (List.mem_of_mem_drop hp)
  · simp only [TypeE.size, TypeE.insP, insPairs_length, tHdrSize, pairSize] at hs ⊢
    omega

theorem newType_WF (t : Tok) (ht : t.WF) : (newType t).WF := by
  have htid : t.tid < 2 ^ 16 := by rcases ht.tid with h | h | h | h <;> omega
  refine ⟨by simp [newType, tokensGroupID], htid, by simp [newType], by simp [newType, tokenV3ContextType],
    by simp [newType, sortAscContextFormat], by simp [newType, newUnitSize], ht.prio,
    by simp [newType, newKeySize], by simp [newType], ht.board, ?_, by simp [newType, TypeE.size, tHdrSize, pairSize]⟩
  intro p hp
  simp only [newType, List.mem_singleton] at hp
  subst hp
  exact ⟨ht.id, ht.val⟩

theorem withGroups_WF (a : Apcb) (gs : List Group) (hw : a.WF) (hg : ∀ g ∈ gs, g.WF)
    (hs : hdrSize + (serGroups gs).length < 2 ^ 32) : (a.withGroups gs).WF :=
  { hw with groups := hg, size := hs }

theorem absUpsert_WF (t : Tok) (a : Apcb) (hw : a.WF) (ht : t.WF) (hfull : typeFull t a = false)
    (hsz : a.size + (absUpsert t a).2 < 2 ^ 32) : (absUpsert t a).1.WF := by
  cases absUpsert_cases t a with
  | update hh hr =>
    rw [hr]
    refine withGroups_WF a _ hw ?_ ?_
    · intro g hg
      simp only [List.mem_map] at hg
      obtain ⟨g', hg', rfl⟩ := hg
      exact Group.upd_WF t g' (hw.groups g' hg') ht.val
    · rw [serGroups_upd_length]; exact hw.size
  | pair hh gpre gpost sig ver res extra tpre tpost e hg he htp hgp htarget hr =>
    rw [hr] at hsz ⊢
    simp [typeFull, htarget, pairSize] at hfull
    have hgw : (Group.tokens sig ver res extra (tpre ++ e :: tpost)).WF := hw.groups _ (by rw [hg]; simp)
    obtain ⟨h1, h2, h3, h4, h5, h6⟩ := hgw
    have hs1 : (e.insP t).size = e.size + 8 := by
      simp [TypeE.size, TypeE.insP, insPairs_length, tHdrSize, pairSize]; omega
    have hs2 : (serTypes (tpre ++ e.insP t :: tpost)).length = (serTypes (tpre ++ e :: tpost)).length + 8 := by
      simp only [serTypes_append, serTypes_cons, List.length_append, serType_length, hs1]; omega
    have hsz' : a.size = hdrSize + ((serGroups gpre).length + (gHdrSize + extra.length +
        (serTypes (tpre ++ e :: tpost)).length) + (serGroups gpost).length) := by
      simp only [Apcb.size, hg, serGroups_append, serGroups_cons, List.length_append, serGroup,
        encGroupHdr_length, gHdrSize]; omega
    refine withGroups_WF a _ hw ?_ ?_
    · intro g hgm
      simp only [List.mem_append, List.mem_cons] at hgm
      rcases hgm with hgm | rfl | hgm
      · exact hw.groups g (by rw [hg]; simp [hgm])
      · refine ⟨h1, h2, h3, h4, ?_, ?_⟩
        · intro x hx
          simp only [List.mem_append, List.mem_cons] at hx
          rcases hx with hx | rfl | hx
          · exact h5 x (by simp [hx])
          · exact TypeE.insP_WF t e (h5 e (by simp)) ht (by omega)
          · exact h5 x (by simp [hx])
        · rw [hs2]; simp only [gHdrSize] at hsz' ⊢; omega
      · exact hw.groups g (by rw [hg]; simp [hgm])
    · simp only [serGroups_append, serGroups_cons, List.length_append, serGroup, encGroupHdr_length, hs2]
      simp only [gHdrSize] at hsz'; omega
  | type hh gpre gpost sig ver res extra types hg hpre htm hpost htarget hr =>
    rw [hr] at hsz ⊢
    have hgw : (Group.tokens sig ver res extra types).WF := hw.groups _ (by rw [hg]; simp)
    obtain ⟨h1, h2, h3, h4, h5, h6⟩ := hgw
    have hs2 : (serTypes (types ++ [newType t])).length = (serTypes types).length + 24 := by
      simp [serTypes_append, serTypes, TypeE.size, newType, tHdrSize, pairSize]
    have hsz' : a.size = hdrSize + ((serGroups gpre).length + (gHdrSize + extra.length +
        (serTypes types).length) + (serGroups gpost).length) := by
      simp only [Apcb.size, hg, serGroups_append, serGroups_cons, List.length_append, serGroup,
        encGroupHdr_length, gHdrSize]; omega
    refine withGroups_WF a _ hw ?_ ?_
    · intro g hgm
      simp only [List.mem_append, List.mem_cons] at hgm
      rcases hgm with hgm | rfl | hgm
      · exact hw.groups g (by rw [hg]; simp [hgm])
      · refine ⟨h1, h2, h3, h4, ?_, ?_⟩
        · intro x hx
          simp only [List.mem_append, List.mem_singleton] at hx
          rcases hx with hx | rfl
          · exact h5 x hx
          · exact newType_WF t ht
        · rw [hs2]; simp only [gHdrSize] at hsz' ⊢; omega
      · exact hw.groups g (by rw [hg]; simp [hgm])
    · simp only [serGroups_append, serGroups_cons, List.length_append, serGroup, encGroupHdr_length, hs2]
      simp only [gHdrSize] at hsz'; omega
  | group hh hf htarget hr =>
    rw [hr] at hsz ⊢
    have hl : (serGroup (newGroup t)).length = 40 := by
      rw [serGroup_newGroup]; simp [newGroupBytes, newTypeBytes]
    refine withGroups_WF a _ hw ?_ ?_
    · intro g hgm
      simp only [List.mem_append, List.mem_singleton] at hgm
      rcases hgm with hgm | rfl
      · exact hw.groups g hgm
      · refine ⟨by simp [sigTokGroup], by simp [newGroupVersion], by simp, by simp [gHdrSize], ?_, ?_⟩
        · intro x hx
          simp only [List.mem_singleton] at hx
          subst hx
          exact newType_WF t ht
        · simp [serTypes, TypeE.size, newType, gHdrSize, tHdrSize, pairSize]
    · simp only [serGroups_append, serGroups, List.length_append, hl, List.append_nil]
      simp only [Apcb.size] at hsz; omega

end Fiano.Apcb
