/-
  T1 tie for pkg/amd/apcb: the model's constants, struct sizes, field offsets and the inventory of
  slice expressions are compared with the facts regenerated from the Go source
  (FianoModel/Gen/Apcb.lean) on every build.  Field and variable *names* are not compared (a
  rename is harmless); widths, order, values and the number of slice sites are.
-/
import FianoModel.Apcb.Spec
import FianoModel.Gen.Apcb

namespace Fiano.Apcb
open Fiano.Gen.Apcb

theorem tie_sigV2 : sigV2 = headerV2Signature := by decide
theorem tie_sigV3 : sigV3 = headerV3Signature := by decide
theorem tie_sigEnd : sigEnd = headerV3EndingSignature := by decide
theorem tie_sigTokGroup : sigTokGroup = tokenGroupSignature := by decide
theorem tie_tokensGroupID : Apcb.tokensGroupID = Gen.Apcb.tokensGroupID := by decide
theorem tie_ctxType : Apcb.tokenV3ContextType = Gen.Apcb.tokenV3ContextType := by decide
theorem tie_ctxFormat : sortAscContextFormat = sortAscByUnitSizeContextFormat := by decide

/-- the four value classes `processValue` / `parseValue` know -/
theorem tie_tokenTypes :
    [booleanTokenType, oneByteTokenType, twoBytesTokenType, fourBytesTokenType] = [0, 1, 2, 4] := by decide

theorem tie_hdrSize : hdrSize = size_headerV3 := by decide
theorem tie_gHdrSize : gHdrSize = size_groupHeader := by decide
theorem tie_tHdrSize : tHdrSize = size_typeHeaderV3 := by decide
theorem tie_pairSize : pairSize = size_tokenPair := by decide

/-- offset of the `k`-th field of a packed layout -/
def fieldOff (l : List (String × Nat)) (k : Nat) : Nat := ((l.take k).map (·.2)).sum

/-- headerV3 = headerV2 (32 bytes, `SizeOfAPCB` its 4th field) followed by 18 more fields;
    `Signature2` is the first of those and `SignatureEnding` the last -/
theorem tie_header_offsets :
    fieldOff layout_headerV2 0 = offSig ∧ fieldOff layout_headerV2 3 = offSizeOfAPCB ∧
    (layout_headerV2.map (·.2))[3]? = some 4 ∧
    (layout_headerV3.map (·.2))[0]? = some size_headerV2 ∧
    fieldOff layout_headerV3 1 = offSig2 ∧ (layout_headerV3.map (·.2))[1]? = some 4 ∧
    fieldOff layout_headerV3 18 = offSigEnd ∧ (layout_headerV3.map (·.2))[18]? = some 4 ∧
    layout_headerV3.length = 19 := by decide

/-- widths of the group header fields in order: Signature, GroupID, SizeOfHeader, Version,
    Reserved, SizeOfGroup (`encGroupHdr`, `gOff*`) -/
theorem tie_layout_groupHeader : layout_groupHeader.map (·.2) = [4, 2, 2, 2, 2, 4] := by decide

/-- widths of the type header fields in order: GroupID, TypeID, SizeOfType, InstanceID,
    ContextType, ContextFormat, UnitSize, PriorityMask, KeySize, KeyPos, BoardMask
    (`encTypeHdr`, `tOff*`) -/
theorem tie_layout_typeHeader :
    layout_typeHeaderV3.map (·.2) = [2, 2, 2, 2, 1, 1, 1, 1, 1, 1, 2] := by decide

theorem tie_group_offsets :
    fieldOff layout_groupHeader 1 = gOffGroupID ∧ fieldOff layout_groupHeader 2 = gOffSizeOfHeader ∧
    fieldOff layout_groupHeader 5 = gOffSizeOfGroup := by decide

theorem tie_type_offsets :
    fieldOff layout_typeHeaderV3 1 = tOffTypeID ∧ fieldOff layout_typeHeaderV3 2 = tOffSizeOfType ∧
    fieldOff layout_typeHeaderV3 7 = tOffPriorityMask ∧ fieldOff layout_typeHeaderV3 10 = tOffBoardMask := by
  decide

theorem tie_layout_tokenPair : layout_tokenPair.map (·.2) = [4, 4] := by decide

/-- number of slice / index / make expressions per anchored function: the sites the model
    transcribes (a new one is a new place where hostile sizes could fault) -/
theorem tie_site_counts :
    [sites_ParseAPCBBinaryTokens.length, sites_UpsertToken.length, sites_parseAPCBHeader.length,
     sites_iterateTokenGroups.length, sites_iterateTypes.length, sites_iterateTokens.length,
     sites_fixedSizeBuffer_Write.length] = [2, 8, 1, 1, 1, 0, 1] := by decide

/-- one decoding call per iterator / header parser, one encoding call per written struct -/
theorem tie_codec_call_counts :
    [calls_parseAPCBHeader_binary_Read.length, calls_iterateTokenGroups_binary_Read.length,
     calls_iterateTypes_binary_Read.length, calls_iterateTokens_binary_Read.length,
     calls_writeFixedBuffer_binary_Write.length, calls_constructNewTypeForToken_binary_Write.length,
     calls_constructNewGroupForToken_binary_Write.length, calls_UpsertToken_binary_Write.length,
     calls_UpsertToken_writeFixedBuffer.length] = [1, 1, 1, 1, 1, 2, 1, 1, 4] := by decide

end Fiano.Apcb
