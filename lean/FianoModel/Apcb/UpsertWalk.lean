/-
  The first half of `UpsertToken` (the walk that updates in place and remembers where an
  insertion would go) on a serialised well-formed blob: the rewritten bytes are the
  serialisation of the abstractly updated blob, and the closure variables are an explicit fold
  over the abstract structure.
-/
import FianoModel.Apcb.WalkLemmas

namespace Fiano.Apcb

/-! ### pairs -/

theorem updPairs_length (id val : Nat) (ps : List (Nat × Nat)) : (updPairs id val ps).length = ps.length := by
  simp [updPairs]

theorem upsertPairs_ser (id val : Nat) (ps : List (Nat × Nat)) (h : ∀ p ∈ ps, p.1 < 2 ^ 32)
    (poff to : Nat) (ch : Bool) :
    upsertPairs id val ps.length (serPairs ps) poff to ch =
      (serPairs (updPairs id val ps),
       if insIdx id ps > 0 then poff + 8 * insIdx id ps else to,
       ch || ps.any (fun p => p.1 = id)) := by
  induction ps generalizing poff to ch with
  | nil => simp [upsertPairs, serPairs, updPairs, insIdx]
  | cons p ps ih =>
    have hp := h p (by simp)
    have ih' := ih (fun q hq => h q (by simp [hq]))
    have htake : (serPairs (p :: ps)).take 8 = encPair p := take_append_len _ _ 8 (by simp)
    have hdrop : (serPairs (p :: ps)).drop 8 = serPairs ps := drop_append_len _ _ 8 (by simp)
    simp only [List.length_cons, upsertPairs, pairSize, htake, hdrop, rd_pair_id p hp, ih']
    by_cases hid : p.1 = id
    · simp only [hid, if_true, Nat.le_refl, updPairs, List.map_cons, serPairs, encPair, List.any_cons,
        decide_true, Bool.true_or, Bool.or_true]
      refine Prod.ext rfl (Prod.ext ?_ rfl)
      simp only [insIdx, hid, Nat.le_refl, if_true]
      split <;> split <;> omega
    · simp only [hid, if_false, updPairs, List.map_cons, serPairs, List.any_cons, decide_false, Bool.false_or]
      refine Prod.ext rfl (Prod.ext ?_ rfl)
      simp only [insIdx]
      by_cases hle : p.1 ≤ id <;> simp only [hle, if_true, if_false] <;> split <;> split <;> omega


/-! ### one type -/

theorem typeMatches_enc (t : Tok) (e : TypeE) (sz : Nat) (hw : e.WF) :
    typeMatches t (encTypeHdr e sz) = e.matches t := by
  simp only [typeMatches, TypeE.matches, tOffTypeID, tOffBoardMask, tOffPriorityMask,
    rd_typeHdr_tid e sz hw.tid, rd_typeHdr_board e sz hw.board, rd_typeHdr_prio e sz hw.prio]

/-- the closure variables after the type callback ran on `e` at offset `toff` -/
def stepType (t : Tok) (gh : Bytes) (goff : Nat) (s : USt) (e : TypeE) (toff : Nat) : USt :=
  if e.matches t then
    { mg := some (gh, goff), mt := some (encTypeHdr e e.size, toff),
      tokOff := 8 * insIdx t.id e.pairs,
      changed := s.changed || e.pairs.any (fun p => p.1 = t.id) }
  else s

theorem upd_size (t : Tok) (e : TypeE) : (e.upd t).size = e.size := by
  unfold TypeE.upd; split <;> simp [TypeE.size, updPairs_length]

theorem serType_upd (t : Tok) (e : TypeE) :
    serType (e.upd t) = encTypeHdr e e.size ++ serPairs (e.upd t).pairs := by
  unfold serType; rw [upd_size]; unfold TypeE.upd; split <;> rfl

theorem onType_ser (t : Tok) (gh : Bytes) (goff : Nat) (s : USt) (e : TypeE) (toff : Nat) (hw : e.WF) :
    (upsertCb t).onType s gh goff (encTypeHdr e e.size) toff (serPairs e.pairs) =
      (stepType t gh goff s e toff, serPairs (e.upd t).pairs, .ok) := by
  simp only [upsertCb, typeMatches_enc t e _ hw, stepType, TypeE.upd]
  by_cases hm : e.matches t
  · have hmod : (serPairs e.pairs).length % 8 = 0 := by simp
    have hdiv : (serPairs e.pairs).length / 8 = e.pairs.length := by simp
    simp only [hm, Bool.not_true, Bool.false_eq_true, if_false, if_true, pairSize, hmod, ne_eq, not_true, hdiv,
      upsertPairs_ser t.id t.val e.pairs (fun p hp => (hw.pairs p hp).1)]
    refine Prod.ext ?_ rfl
    simp only [Nat.zero_add]
    split
    · rfl
    · have : insIdx t.id e.pairs = 0 := by omega
      simp [this]
  · simp [hm]

/-! ### the types of one group -/

/-- closure variables after `iterateTypes` over `ts` starting at group-data offset `toff` -/
def typesState (t : Tok) (gh : Bytes) (goff : Nat) : List TypeE → Nat → USt → USt
  | [], _, s => s
  | e :: es, toff, s => typesState t gh goff es (toff + e.size) (stepType t gh goff s e toff)

theorem absTypes_upsert (t : Tok) (gh : Bytes) (goff : Nat) (ts : List TypeE) (h : ∀ e ∈ ts, e.WF)
    (toff : Nat) (s : USt) :
    absTypes (upsertCb t) gh goff ts toff s =
      (typesState t gh goff ts toff s, serTypes (ts.map (TypeE.upd t)), .ok) := by
  induction ts generalizing toff s with
  | nil => rfl
  | cons e es ih =>
    simp only [absTypes, onType_ser t gh goff s e toff (h e (by simp)), ih (fun e he => h e (by simp [he])),
      typesState, List.map_cons, serTypes, serType_upd, List.append_assoc]

theorem serTypes_upd_length (t : Tok) (ts : List TypeE) :
    (serTypes (ts.map (TypeE.upd t))).length = (serTypes ts).length := by
  induction ts with
  | nil => rfl
  | cons e es ih => simp [serTypes, ih, upd_size]

/-! ### the groups -/

/-- closure variables after `iterateTokenGroups` over `gs` starting at body offset `goff` -/
def groupsState (t : Tok) : List Group → Nat → USt → USt
  | [], _, s => s
  | g :: gs, goff, s =>
    match g with
    | .tokens _ _ _ _ types =>
      groupsState t gs (goff + (serGroup g).length)
        (typesState t g.hdr goff types 0 (if s.mt.isNone then { s with mg := some (g.hdr, goff) } else s))
    | .foreign .. => groupsState t gs (goff + (serGroup g).length) s

theorem hdr_upd (t : Tok) (g : Group) : (g.upd t).hdr = g.hdr := by
  cases g with
  | tokens sig ver res extra types => simp [Group.upd, Group.hdr, serTypes_upd_length]
  | foreign => rfl

theorem serGroup_upd_length (t : Tok) (g : Group) : (serGroup (g.upd t)).length = (serGroup g).length := by
  cases g with
  | tokens sig ver res extra types => simp [Group.upd, serGroup, serTypes_upd_length]
  | foreign => rfl

theorem absGroups_upsert (t : Tok) (gs : List Group) (h : ∀ g ∈ gs, g.WF) (goff : Nat) (s : USt) :
    absGroups (upsertCb t) gs goff s =
      (groupsState t gs goff s, serGroups (gs.map (Group.upd t)), .ok) := by
  induction gs generalizing goff s with
  | nil => rfl
  | cons g gs ih =>
    have ih' := ih (fun g hg => h g (by simp [hg]))
    have hw := h g (by simp)
    cases g with
    | tokens sig ver res extra types =>
      simp only [absGroups, absTypes_upsert t _ goff types hw.2.2.2.2.1, ih', groupsState, List.map_cons,
        serGroups]
      refine Prod.ext rfl (Prod.ext ?_ rfl)
      simp only [Group.upd, serGroup, Group.hdr, serTypes_upd_length, List.append_assoc]
    | foreign sig gid sh ver res raw =>
      simp only [absGroups, ih', groupsState, List.map_cons, serGroups, Group.upd]

theorem serGroups_upd_length (t : Tok) (gs : List Group) :
    (serGroups (gs.map (Group.upd t))).length = (serGroups gs).length := by
  induction gs with
  | nil => rfl
  | cons g gs ih => simp [serGroups, ih, serGroup_upd_length]

end Fiano.Apcb
