/-
  Inserting after the last id `≤ new` keeps a sorted pair list sorted (the format asks for
  ascending ids inside a type: ContextFormat = 1).
-/
import FianoModel.Apcb.TokLemmas

namespace Fiano.Apcb

/-- ids ascending (weakly: the code does not reject duplicates) -/
def SortedIds (ps : List (Nat × Nat)) : Prop := ps.Pairwise (fun a b => a.1 ≤ b.1)

theorem insIdx_pos_exists (id : Nat) (ps : List (Nat × Nat)) (h : insIdx id ps > 0) : ∃ q ∈ ps, q.1 ≤ id := by
  induction ps with
  | nil => simp [insIdx] at h
  | cons p ps ih =>
    simp only [insIdx] at h
    by_cases h1 : insIdx id ps > 0
    · obtain ⟨q, hq, hle⟩ := ih h1
      exact ⟨q, by simp [hq], hle⟩
    · simp only [h1, if_false] at h
      by_cases h2 : p.1 ≤ id
      · exact ⟨p, by simp, h2⟩
      · simp [h2] at h

theorem insIdx_zero_all (id : Nat) (ps : List (Nat × Nat)) (h : insIdx id ps = 0) : ∀ q ∈ ps, id < q.1 := by
  induction ps with
  | nil => simp
  | cons p ps ih =>
    simp only [insIdx] at h
    by_cases h1 : insIdx id ps > 0
    · simp [h1] at h
    · simp only [h1, if_false] at h
      by_cases h2 : p.1 ≤ id
      · simp [h2] at h
      · intro q hq
        simp only [List.mem_cons] at hq
        rcases hq with rfl | hq
        · omega
        · exact ih (by omega) q hq

theorem insPairs_cons_pos (id val : Nat) (p : Nat × Nat) (ps : List (Nat × Nat)) (h : insIdx id ps > 0) :
    insPairs id val (p :: ps) = p :: insPairs id val ps := by
  simp only [insPairs, insIdx, h, if_true, List.take_succ_cons, List.drop_succ_cons, List.cons_append]

theorem insPairs_sorted (id val : Nat) (ps : List (Nat × Nat)) (h : SortedIds ps) :
    SortedIds (insPairs id val ps) := by
  induction ps with
  | nil => simp [insPairs, insIdx, SortedIds]
  | cons p ps ih =>
    simp only [SortedIds, List.pairwise_cons] at h
    obtain ⟨hp, hps⟩ := h
    by_cases h1 : insIdx id ps > 0
    · rw [insPairs_cons_pos id val p ps h1]
      simp only [SortedIds, List.pairwise_cons]
      refine ⟨?_, ih hps⟩
      intro q hq
      simp only [insPairs, List.mem_append, List.mem_cons] at hq
      rcases hq with hq | rfl | hq
      · exact hp q (List.mem_of_mem_take hq)
      · obtain ⟨r, hr, hle⟩ := insIdx_pos_exists id ps h1
        exact Nat.le_trans (hp r hr) hle
      · exact hp q (List.mem_of_mem_drop hq)
    · have h0 : insIdx id ps = 0 := by omega
      have hall := insIdx_zero_all id ps h0
      by_cases h2 : p.1 ≤ id
      · have : insPairs id val (p :: ps) = p :: (id, val) :: ps := by
          simp [insPairs, insIdx, h0, h2]
        rw [this]
        simp only [SortedIds, List.pairwise_cons]
        refine ⟨?_, ?_, hps⟩
        · intro q hq
          simp only [List.mem_cons] at hq
          rcases hq with rfl | hq
          · exact h2
          · exact hp q hq
        · intro q hq; exact Nat.le_of_lt (hall q hq)
      · have : insPairs id val (p :: ps) = (id, val) :: p :: ps := by
          simp [insPairs, insIdx, h0, h2]
        rw [this]
        simp only [SortedIds, List.pairwise_cons]
        refine ⟨?_, hp, hps⟩
        intro q hq
        simp only [List.mem_cons] at hq
        rcases hq with rfl | hq
        · omega
        · exact Nat.le_of_lt (hall q hq)

theorem updPairs_sorted (id val : Nat) (ps : List (Nat × Nat)) (h : SortedIds ps) :
    SortedIds (updPairs id val ps) := by
  unfold SortedIds updPairs at *
  rw [List.pairwise_map]
  refine h.imp ?_
  intro a b hab
  split <;> split <;> exact hab

end Fiano.Apcb
