/-
  What the abstract upsert does to the abstract listing.
-/
import FianoModel.Apcb.AbsLemmas

namespace Fiano.Apcb

/-! ### listing of concatenations -/

theorem pairsToks_append (e : TypeE) (as bs : List (Nat × Nat)) :
    pairsToks e (as ++ bs) =
      match pairsToks e as, pairsToks e bs with
      | some x, some y => some (x ++ y)
      | _, _ => none := by
  induction as with
  | nil => cases h : pairsToks e bs <;> simp [pairsToks, h]
  | cons p ps ih =>
    simp only [List.cons_append, pairsToks, ih]
    cases processValue e.tid p.2 <;> cases pairsToks e ps <;> cases pairsToks e bs <;> simp

theorem typesTokens_append (as bs : List TypeE) :
    typesTokens (as ++ bs) =
      match typesTokens as, typesTokens bs with
      | some x, some y => some (x ++ y)
      | _, _ => none := by
  induction as with
  | nil => cases h : typesTokens bs <;> simp [typesTokens, h]
  | cons p ps ih =>
    simp only [List.cons_append, typesTokens, ih]
    cases p.toks <;> cases typesTokens ps <;> cases typesTokens bs <;> simp

theorem groupsTokens_append (as bs : List Group) :
    groupsTokens (as ++ bs) =
      match groupsTokens as, groupsTokens bs with
      | some x, some y => some (x ++ y)
      | _, _ => none := by
  induction as with
  | nil => cases h : groupsTokens bs <;> simp [groupsTokens, h]
  | cons p ps ih =>
    simp only [List.cons_append, groupsTokens, ih]
    cases p.toks <;> cases groupsTokens ps <;> cases groupsTokens bs <;> simp

/-- splitting the listing around one type of a type list -/
theorem typesTokens_split (pre post : List TypeE) (e : TypeE) (l : List LTok)
    (h : typesTokens (pre ++ e :: post) = some l) :
    ∃ lp le lq, typesTokens pre = some lp ∧ e.toks = some le ∧ typesTokens post = some lq ∧
      l = lp ++ (le ++ lq) := by
  rw [typesTokens_append] at h
  simp only [typesTokens] at h
  cases hp : typesTokens pre <;> cases he : e.toks <;> cases hq : typesTokens post <;>
    simp [hp, he, hq] at h
  exact ⟨_, _, _, rfl, rfl, rfl, h.symm⟩

theorem typesTokens_join (pre post : List TypeE) (e : TypeE) (lp le lq : List LTok)
    (hp : typesTokens pre = some lp) (he : e.toks = some le) (hq : typesTokens post = some lq) :
    typesTokens (pre ++ e :: post) = some (lp ++ (le ++ lq)) := by
  rw [typesTokens_append]
  simp [typesTokens, hp, he, hq]

theorem groupsTokens_split (pre post : List Group) (g : Group) (l : List LTok)
    (h : groupsTokens (pre ++ g :: post) = some l) :
    ∃ lp lg lq, groupsTokens pre = some lp ∧ g.toks = some lg ∧ groupsTokens post = some lq ∧
      l = lp ++ (lg ++ lq) := by
  rw [groupsTokens_append] at h
  simp only [groupsTokens] at h
  cases hp : groupsTokens pre <;> cases he : g.toks <;> cases hq : groupsTokens post <;>
    simp [hp, he, hq] at h
  exact ⟨_, _, _, rfl, rfl, rfl, h.symm⟩

theorem groupsTokens_join (pre post : List Group) (g : Group) (lp lg lq : List LTok)
    (hp : groupsTokens pre = some lp) (he : g.toks = some lg) (hq : groupsTokens post = some lq) :
    groupsTokens (pre ++ g :: post) = some (lp ++ (lg ++ lq)) := by
  rw [groupsTokens_append]
  simp [groupsTokens, hp, he, hq]

theorem groupsTokens_foreign (gs : List Group) (h : ∀ g ∈ gs, g.isForeign) : groupsTokens gs = some [] := by
  induction gs with
  | nil => rfl
  | cons g gs ih =>
    have hg := h g (by simp)
    cases g with
    | tokens => exact hg.elim
    | foreign => simp [groupsTokens, Group.toks, ih (fun g hg => h g (by simp [hg]))]

/-! ### update -/

/-- does a listed token answer the request (same type id, intersecting masks, same id)? -/
def LTok.hit (t : Tok) (l : LTok) : Bool :=
  t.tid = l.tid && (l.board &&& t.board) ≠ 0 && (l.prio &&& t.prio) ≠ 0 && l.id = t.id

/-- the listing after an update: entries answering the request carry the new value -/
def updTok (t : Tok) (pv : Nat) (l : LTok) : LTok := if l.hit t then { l with val := pv } else l

theorem processValue_total (tid v pv : Nat) (h : processValue tid v = some pv) (x : Nat) :
    ∃ y, processValue tid x = some y := by
  unfold processValue at h ⊢
  split
  · exact ⟨_, rfl⟩
  · split
    · exact ⟨_, rfl⟩
    · split
      · exact ⟨_, rfl⟩
      · split
        · exact ⟨_, rfl⟩
        · rename_i h0 h1 h2 h4
          simp [h0, h1, h2, h4] at h

theorem pairsToks_upd_match (t : Tok) (pv : Nat) (e : TypeE) (hm : e.matches t = true)
    (hpv : processValue t.tid t.val = some pv) (ps : List (Nat × Nat)) :
    pairsToks e (updPairs t.id t.val ps) = (pairsToks e ps).map (List.map (updTok t pv)) := by
  have htid : t.tid = e.tid := by
    simp only [TypeE.matches, Bool.and_eq_true, decide_eq_true_eq] at hm; exact hm.1.1
  rw [htid] at hpv
  induction ps with
  | nil => rfl
  | cons p ps ih =>
    have hhit : ∀ v, (e.ltok p v).hit t = decide (p.1 = t.id) := by
      intro v
      have : (e.ltok p v).hit t = (e.matches t && decide (p.1 = t.id)) := rfl
      rw [this, hm, Bool.true_and]
    obtain ⟨y, hy⟩ := processValue_total e.tid t.val pv hpv p.2
    have hcons : updPairs t.id t.val (p :: ps) =
        (if p.1 = t.id then (p.1, t.val) else p) :: updPairs t.id t.val ps := rfl
    rw [hcons]
    by_cases hid : p.1 = t.id
    · simp only [hid, if_true, pairsToks, hpv, hy, ih]
      cases hr : pairsToks e ps with
      | none => rfl
      | some r =>
        simp only [Option.map_some, List.map_cons, updTok, hhit, hid, decide_true, if_true]
        simp only [TypeE.ltok, hid]
    · simp only [hid, if_false, pairsToks, hy, ih]
      cases hr : pairsToks e ps with
      | none => rfl
      | some r =>
        simp only [Option.map_some, List.map_cons, updTok, hhit, hid, decide_false, Bool.false_eq_true, if_false]

theorem pairsToks_nohit (t : Tok) (pv : Nat) (e : TypeE) (hm : e.matches t = false)
    (ps : List (Nat × Nat)) (l : List LTok) (h : pairsToks e ps = some l) : l.map (updTok t pv) = l := by
  induction ps generalizing l with
  | nil => simp only [pairsToks, Option.some.injEq] at h; subst h; rfl
  | cons p ps ih =>
    simp only [pairsToks] at h
    split at h
    · rename_i v r hv hr
      injection h with h; subst h
      have : (e.ltok p v).hit t = false := by
        have h' : (e.ltok p v).hit t = (e.matches t && decide (p.1 = t.id)) := rfl
        rw [h', hm, Bool.false_and]
      simp only [List.map_cons, updTok, this, Bool.false_eq_true, if_false]
      congr 1
      exact ih r hr
    · cases h

/-- the listing of pairs only looks at the type id and the masks of the type entry -/
theorem pairsToks_congr (e e' : TypeE) (h1 : e'.tid = e.tid) (h2 : e'.prio = e.prio) (h3 : e'.board = e.board)
    (ps : List (Nat × Nat)) : pairsToks e' ps = pairsToks e ps := by
  induction ps with
  | nil => rfl
  | cons p ps ih => simp only [pairsToks, ih, h1, TypeE.ltok, h2, h3]

theorem toks_upd (t : Tok) (pv : Nat) (hpv : processValue t.tid t.val = some pv) (e : TypeE) :
    (e.upd t).toks = e.toks.map (List.map (updTok t pv)) := by
  unfold TypeE.upd
  by_cases hm : e.matches t
  · simp only [hm, if_true, TypeE.toks]
    have := pairsToks_congr e { e with pairs := updPairs t.id t.val e.pairs } rfl rfl rfl
      (updPairs t.id t.val e.pairs)
    rw [this]
    exact pairsToks_upd_match t pv e hm hpv e.pairs
  · have hf : e.matches t = false := by simpa using hm
    simp only [hf, Bool.false_eq_true, if_false, TypeE.toks]
    cases h : pairsToks e e.pairs with
    | none => rfl
    | some l => simp [pairsToks_nohit t pv e hf e.pairs l h]

theorem typesTokens_upd (t : Tok) (pv : Nat) (hpv : processValue t.tid t.val = some pv) (ts : List TypeE) :
    typesTokens (ts.map (TypeE.upd t)) = (typesTokens ts).map (List.map (updTok t pv)) := by
  induction ts with
  | nil => rfl
  | cons e es ih =>
    simp only [List.map_cons, typesTokens, ih, toks_upd t pv hpv]
    cases e.toks <;> cases typesTokens es <;> simp

theorem groupsTokens_upd (t : Tok) (pv : Nat) (hpv : processValue t.tid t.val = some pv) (gs : List Group) :
    groupsTokens (gs.map (Group.upd t)) = (groupsTokens gs).map (List.map (updTok t pv)) := by
  induction gs with
  | nil => rfl
  | cons g gs ih =>
    simp only [List.map_cons, groupsTokens, ih]
    cases g with
    | tokens sig ver res extra types =>
      simp only [Group.upd, Group.toks, typesTokens_upd t pv hpv]
      cases typesTokens types <;> cases groupsTokens gs <;> simp
    | foreign => simp only [Group.upd, Group.toks]; cases groupsTokens gs <;> simp

/-- a blob that holds the token lists an entry answering the request -/
theorem holds_listed (t : Tok) (a : Apcb) (l : List LTok) (hh : holds t a = true) (hl : tokensOf a = some l) :
    ∃ x ∈ l, x.hit t = true := by
  unfold holds at hh
  unfold tokensOf at hl
  generalize a.groups = gs at hh hl
  induction gs generalizing l with
  | nil => simp at hh
  | cons g gs ih =>
    simp only [groupsTokens] at hl
    split at hl
    · rename_i lg lr hg hr
      injection hl with hl; subst hl
      simp only [List.any_cons, Bool.or_eq_true] at hh
      rcases hh with hh | hh
      · cases g with
        | foreign => simp [Group.holds] at hh
        | tokens sig ver res extra types =>
          simp only [Group.holds] at hh
          simp only [Group.toks] at hg
          clear hr ih
          induction types generalizing lg with
          | nil => simp at hh
          | cons e es ihe =>
            simp only [typesTokens] at hg
            split at hg
            · rename_i le les he hes
              injection hg with hg; subst hg
              simp only [List.any_cons, Bool.or_eq_true] at hh
              rcases hh with hh | hh
              · simp only [TypeE.holds, Bool.and_eq_true, List.any_eq_true, decide_eq_true_eq] at hh
                obtain ⟨hm, p, hp, hid⟩ := hh
                -- the pair p of e is listed
                have : ∃ x ∈ le, x.hit t = true := by
                  simp only [TypeE.toks] at he
                  clear hes ihe
                  generalize e.pairs = ps at he hp
                  induction ps generalizing le with
                  | nil => simp at hp
                  | cons q qs ihq =>
                    simp only [pairsToks] at he
                    split at he
                    · rename_i v r hv hr
                      injection he with he; subst he
                      simp only [List.mem_cons] at hp
                      rcases hp with rfl | hp
                      · refine ⟨e.ltok p v, by simp, ?_⟩
                        have h' : (e.ltok p v).hit t = (e.matches t && decide (p.1 = t.id)) := rfl
                        rw [h', hm, hid]; simp
                      · obtain ⟨x, hx, hxh⟩ := ihq r hr hp
                        exact ⟨x, by simp [hx], hxh⟩
                    · cases he
                obtain ⟨x, hx, hxh⟩ := this
                exact ⟨x, by simp [hx], hxh⟩
              · obtain ⟨x, hx, hxh⟩ := ihe les hes hh
                exact ⟨x, by
                  simp only [List.mem_append] at hx ⊢
                  rcases hx with hx | hx
                  · exact Or.inl (Or.inr hx)
                  · exact Or.inr hx, hxh⟩
            · cases hg
      · obtain ⟨x, hx, hxh⟩ := ih lr hh hr
        exact ⟨x, by simp [hx], hxh⟩
    · cases hl


/-! ### insertion -/

/-- `l'` is `l` with the single entry `nt` inserted somewhere -/
def InsAt (nt : LTok) (l l' : List LTok) : Prop := ∃ l1 l2, l = l1 ++ l2 ∧ l' = l1 ++ nt :: l2

theorem InsAt.wrap (nt : LTok) (l l' x y : List LTok) (h : InsAt nt l l') :
    InsAt nt (x ++ (l ++ y)) (x ++ (l' ++ y)) := by
  obtain ⟨l1, l2, rfl, rfl⟩ := h
  exact ⟨x ++ l1, l2 ++ y, by simp, by simp⟩

/-- the entry the request creates: the request's id and (width-reduced) value under the given masks -/
def newTok (t : Tok) (pv prio board : Nat) : LTok :=
  { id := t.id, prio := prio, board := board, tid := t.tid, val := pv }

theorem toks_insP (t : Tok) (pv : Nat) (hpv : processValue t.tid t.val = some pv) (e : TypeE)
    (hm : e.matches t = true) (l : List LTok) (hl : e.toks = some l) :
    ∃ l', (e.insP t).toks = some l' ∧ InsAt (newTok t pv e.prio e.board) l l' := by
  have htid : t.tid = e.tid := by
    simp only [TypeE.matches, Bool.and_eq_true, decide_eq_true_eq] at hm; exact hm.1.1
  simp only [TypeE.toks] at hl ⊢
  have hc := pairsToks_congr e (e.insP t) rfl rfl rfl (e.insP t).pairs
  rw [hc]
  simp only [TypeE.insP, insPairs]
  have hs := pairsToks_append e (e.pairs.take (insIdx t.id e.pairs)) (e.pairs.drop (insIdx t.id e.pairs))
  rw [List.take_append_drop] at hs
  rw [hs] at hl
  rw [pairsToks_append]
  cases h1 : pairsToks e (e.pairs.take (insIdx t.id e.pairs)) with
  | none => simp [h1] at hl
  | some l1 =>
    cases h2 : pairsToks e (e.pairs.drop (insIdx t.id e.pairs)) with
    | none => simp [h1, h2] at hl
    | some l2 =>
      simp only [h1, h2, Option.some.injEq] at hl
      subst hl
      rw [htid] at hpv
      refine ⟨l1 ++ newTok t pv e.prio e.board :: l2, ?_, l1, l2, rfl, rfl⟩
      simp only [pairsToks, hpv, h2, TypeE.ltok, newTok, htid]

theorem toks_newType (t : Tok) (pv : Nat) (hpv : processValue t.tid t.val = some pv) :
    (newType t).toks = some [newTok t pv t.prio t.board] := by
  simp only [TypeE.toks, newType, pairsToks, hpv, TypeE.ltok, newTok]

/-- the entry listed for the request: right id, type id and value, under masks that intersect
    the requested ones - or are exactly the requested ones (a freshly created type) -/
def LTok.answers (t : Tok) (pv : Nat) (x : LTok) : Prop :=
  x.id = t.id ∧ x.tid = t.tid ∧ x.val = pv ∧
    (((x.board &&& t.board) ≠ 0 ∧ (x.prio &&& t.prio) ≠ 0) ∨ (x.prio = t.prio ∧ x.board = t.board))

theorem answers_match (t : Tok) (pv : Nat) (e : TypeE) (hm : e.matches t = true) :
    (newTok t pv e.prio e.board).answers t pv := by
  simp only [TypeE.matches, Bool.and_eq_true, decide_eq_true_eq] at hm
  exact ⟨rfl, rfl, rfl, Or.inl ⟨hm.1.2, hm.2⟩⟩

theorem answers_new (t : Tok) (pv : Nat) : (newTok t pv t.prio t.board).answers t pv :=
  ⟨rfl, rfl, rfl, Or.inr ⟨rfl, rfl⟩⟩

/-- the listing after an upsert, in terms of the listing before -/
theorem tokens_after (t : Tok) (a : Apcb) (pv : Nat) (hpv : processValue t.tid t.val = some pv)
    (l : List LTok) (hl : tokensOf a = some l) :
    if holds t a then tokensOf (absUpsert t a).1 = some (l.map (updTok t pv))
    else ∃ nt l', tokensOf (absUpsert t a).1 = some l' ∧ InsAt nt l l' ∧ nt.answers t pv := by
  cases absUpsert_cases t a with
  | update hh hr =>
    simp only [hh, if_true, hr, tokensOf, Apcb.withGroups, groupsTokens_upd t pv hpv]
    simp only [tokensOf] at hl
    rw [hl]; rfl
  | pair hh gpre gpost sig ver res extra tpre tpost e hg he htp hgp htarget hr =>
    simp only [hh, Bool.false_eq_true, if_false, hr, tokensOf, Apcb.withGroups]
    simp only [tokensOf, hg] at hl
    obtain ⟨lp, lg, lq, hp, hgt, hq, rfl⟩ := groupsTokens_split _ _ _ _ hl
    simp only [Group.toks] at hgt
    obtain ⟨tp, te, tq, htp', hte, htq, rfl⟩ := typesTokens_split _ _ _ _ hgt
    obtain ⟨te', hte', hins⟩ := toks_insP t pv hpv e he te hte
    refine ⟨newTok t pv e.prio e.board, lp ++ ((tp ++ (te' ++ tq)) ++ lq), ?_, ?_, answers_match t pv e he⟩
    · exact groupsTokens_join _ _ _ _ _ _ hp (by
        simp only [Group.toks]; exact typesTokens_join _ _ _ _ _ _ htp' hte' htq) hq
    · have := InsAt.wrap _ _ _ (lp ++ tp) (tq ++ lq) hins
      simpa [List.append_assoc] using this
  | type hh gpre gpost sig ver res extra types hg hpre htm hpost htarget hr =>
    simp only [hh, Bool.false_eq_true, if_false, hr, tokensOf, Apcb.withGroups]
    simp only [tokensOf, hg] at hl
    obtain ⟨lp, lg, lq, hp, hgt, hq, rfl⟩ := groupsTokens_split _ _ _ _ hl
    simp only [Group.toks] at hgt
    refine ⟨newTok t pv t.prio t.board, lp ++ ((lg ++ [newTok t pv t.prio t.board]) ++ lq), ?_, ?_,
      answers_new t pv⟩
    · refine groupsTokens_join _ _ _ _ _ _ hp ?_ hq
      simp only [Group.toks, typesTokens_append, hgt, typesTokens, toks_newType t pv hpv, List.append_nil]
    · exact ⟨lp ++ lg, lq, by simp, by simp⟩
  | group hh hf htarget hr =>
    simp only [hh, Bool.false_eq_true, if_false, hr, tokensOf, Apcb.withGroups]
    simp only [tokensOf] at hl
    refine ⟨newTok t pv t.prio t.board, l ++ [newTok t pv t.prio t.board], ?_, ⟨l, [], by simp, rfl⟩,
      answers_new t pv⟩
    rw [groupsTokens_append, hl]
    simp only [groupsTokens, newGroup, Group.toks, typesTokens, toks_newType t pv hpv, List.append_nil]

/-- the new value is listed (in both ways of succeeding) -/
theorem new_value_listed (t : Tok) (a : Apcb) (pv : Nat) (hpv : processValue t.tid t.val = some pv)
    (l : List LTok) (hl : tokensOf a = some l) :
    ∃ l', tokensOf (absUpsert t a).1 = some l' ∧ ∃ x ∈ l', x.answers t pv := by
  have h := tokens_after t a pv hpv l hl
  by_cases hh : holds t a
  · simp only [hh, if_true] at h
    obtain ⟨x, hx, hxh⟩ := holds_listed t a l hh hl
    refine ⟨_, h, updTok t pv x, List.mem_map_of_mem hx, ?_⟩
    simp only [updTok, hxh, if_true]
    simp only [LTok.hit, Bool.and_eq_true, decide_eq_true_eq] at hxh
    exact ⟨hxh.2, hxh.1.1.1.symm, rfl, Or.inl ⟨hxh.1.1.2, hxh.1.2⟩⟩
  · simp only [hh, if_false, Bool.false_eq_true] at h
    obtain ⟨nt, l', h1, ⟨l1, l2, _, rfl⟩, h3⟩ := h
    exact ⟨_, h1, nt, by simp, h3⟩

end Fiano.Apcb
