/-
  The loop of the x86 branch filter: a per-byte form `loopB` of the Go-shaped loop
  (`X86.loopBody` / `loopF` / `loop`), proof that the two coincide (so the fuel of `loopF` is
  never exhausted), and the inverse theorem: the decoder run on the encoder's output visits the
  same `(pos, mask)` sequence and restores every byte (DESIGN.md Appendix A.3).
-/
import FianoModel.Compress.X86Word

namespace Fiano.Compress.X86

/-! ### the 3-bit `mask` -/

theorem mask_cases (m : UInt32) (h : m < 8) :
    m = 0 ∨ m = 1 ∨ m = 2 ∨ m = 3 ∨ m = 4 ∨ m = 5 ∨ m = 6 ∨ m = 7 := by
  rw [UInt32.lt_iff_toNat_lt] at h
  have h8 : (8 : UInt32).toNat = 8 := by decide
  rw [h8] at h
  have : m.toNat = 0 ∨ m.toNat = 1 ∨ m.toNat = 2 ∨ m.toNat = 3 ∨ m.toNat = 4 ∨ m.toNat = 5 ∨
      m.toNat = 6 ∨ m.toNat = 7 := by omega
  rcases this with h | h | h | h | h | h | h | h
  · left; exact UInt32.toNat_inj.1 h
  · right; left; exact UInt32.toNat_inj.1 h
  · right; right; left; exact UInt32.toNat_inj.1 h
  · right; right; right; left; exact UInt32.toNat_inj.1 h
  · right; right; right; right; left; exact UInt32.toNat_inj.1 h
  · right; right; right; right; right; left; exact UInt32.toNat_inj.1 h
  · right; right; right; right; right; right; left; exact UInt32.toNat_inj.1 h
  · right; right; right; right; right; right; right; exact UInt32.toNat_inj.1 h

theorem shiftMask_zero (m : UInt32) : shiftMask m 0 = m := by
  simp only [shiftMask, show ¬ (0 > 2) by omega, if_false]
  apply UInt32.toNat_inj.1
  rw [UInt32.toNat_shiftRight]
  simp

theorem shiftMask_succ (m : UInt32) (h : m < 8) (d : Nat) :
    shiftMask m (d + 1) = shiftMask (m >>> 1) d := by
  match d with
  | 0 => rcases mask_cases m h with rfl | rfl | rfl | rfl | rfl | rfl | rfl | rfl <;> decide
  | 1 => rcases mask_cases m h with rfl | rfl | rfl | rfl | rfl | rfl | rfl | rfl <;> decide
  | 2 => rcases mask_cases m h with rfl | rfl | rfl | rfl | rfl | rfl | rfl | rfl <;> decide
  | d + 3 => simp [shiftMask]

theorem shiftMask_three (m : UInt32) (d : Nat) (hd : 3 ≤ d) : shiftMask m d = 0 := by
  simp only [shiftMask]; rw [if_pos (by omega)]

theorem shr1_lt (m : UInt32) (h : m < 8) : m >>> 1 < 8 := by
  rcases mask_cases m h with rfl | rfl | rfl | rfl | rfl | rfl | rfl | rfl <;> decide

theorem shr1_or4_lt (m : UInt32) (h : m < 8) : (m >>> 1) ||| 4 < 8 := by
  rcases mask_cases m h with rfl | rfl | rfl | rfl | rfl | rfl | rfl | rfl <;> decide

theorem shiftMask_lt (m : UInt32) (h : m < 8) (d : Nat) : shiftMask m d < 8 := by
  induction d generalizing m with
  | zero => rw [shiftMask_zero]; exact h
  | succ d ih => rw [shiftMask_succ m h]; exact ih _ (shr1_lt m h)

theorem zero_lt8 : (0 : UInt32) < 8 := by decide

theorem skip3_zero (b1 b2 b3 b4 : UInt8) : skip3 0 b1 b2 b3 b4 = false := by
  simp [skip3]

/-! ### per-byte form; the fuel is never exhausted -/

/-- per-byte form of the loop: one byte (or one converted instruction) per step -/
def loopB (e : Bool) (ip : UInt32) : Nat → UInt32 → Bytes → LoopResult
  | pos, mask, op :: b1 :: b2 :: b3 :: b4 :: tl =>
    if isOpcode op then
      if skip3 mask b1 b2 b3 b4 then
        let r := loopB e ip (pos+1) ((mask >>> 1) ||| 4) (b1 :: b2 :: b3 :: b4 :: tl)
        (op :: r.1, r.2)
      else if test86MSByte b4 then
        let v := convValue e mask (ip + UInt32.ofNat pos) (word b1 b2 b3 b4)
        let r := loopB e ip (pos+5) 0 tl
        (op :: st1 v :: st2 v :: st3 v :: st4 v :: r.1, r.2)
      else
        let r := loopB e ip (pos+1) ((mask >>> 1) ||| 4) (b1 :: b2 :: b3 :: b4 :: tl)
        (op :: r.1, r.2)
    else
      let r := loopB e ip (pos+1) (mask >>> 1) (b1 :: b2 :: b3 :: b4 :: tl)
      (op :: r.1, r.2)
  | pos, mask, rest => (rest, pos, mask)

theorem loopB_short (e : Bool) (ip : UInt32) (pos : Nat) (mask : UInt32) (rest : Bytes)
    (h : rest.length < 5) : loopB e ip pos mask rest = (rest, pos, mask) := by
  apply loopB.eq_2
  intro op b1 b2 b3 b4 tl hr
  rw [hr] at h
  simp only [List.length_cons] at h
  omega

theorem scan_zero (rest : Bytes) : scan rest 0 = 0 := by
  cases rest <;> simp [scan]

theorem loopBody_short (next : Nat → UInt32 → Bytes → LoopResult) (e : Bool) (ip : UInt32) (pos : Nat)
    (mask : UInt32) (rest : Bytes) (h : rest.length < 5) :
    loopBody next e ip pos mask rest = (rest, pos, mask) := by
  have hl : rest.length - 4 = 0 := by omega
  simp only [loopBody, hl, scan_zero, ge_iff_le, Nat.le_refl, if_true, Nat.add_zero, shiftMask_zero]

/-- the skip condition after one more scanned byte -/
theorem skipcond_succ (m : UInt32) (d : Nat) (b1 b2 b3 b4 : UInt8) :
    (decide (d + 1 ≤ 2) && skip3 (shiftMask m (d + 1)) b1 b2 b3 b4) =
    (decide (d ≤ 2) && skip3 (shiftMask m (d + 1)) b1 b2 b3 b4) := by
  by_cases h : d + 1 ≤ 2
  · have : d ≤ 2 := by omega
    simp [h, this]
  · by_cases h2 : d ≤ 2
    · have : d = 2 := by omega
      subst this
      simp [shiftMask_three m 3 (by omega), skip3_zero]
    · simp [h, h2]

/-- `loopB` satisfies the defining equation of the Go-shaped loop -/
theorem loopB_unfold (e : Bool) (ip : UInt32) (rest : Bytes) :
    ∀ (pos : Nat) (mask : UInt32), mask < 8 →
      loopB e ip pos mask rest = loopBody (loopB e ip) e ip pos mask rest := by
  induction rest with
  | nil => intro pos mask _; rw [loopB_short _ _ _ _ _ (by simp), loopBody_short _ _ _ _ _ _ (by simp)]
  | cons op tail ih =>
    intro pos mask hm
    by_cases hlen : (op :: tail).length < 5
    · rw [loopB_short _ _ _ _ _ hlen, loopBody_short _ _ _ _ _ _ hlen]
    · match tail, hlen, ih with
      | b1 :: b2 :: b3 :: b4 :: tl, _, ih =>
        have hl5 : (op :: b1 :: b2 :: b3 :: b4 :: tl).length - 4 = tl.length + 1 := by simp
        have hl4 : (b1 :: b2 :: b3 :: b4 :: tl).length - 4 = tl.length := by simp
        by_cases hop : isOpcode op = true
        · -- an opcode at the cursor: d = 0
          have hs : scan (op :: b1 :: b2 :: b3 :: b4 :: tl) (tl.length + 1) = 0 := by simp [scan, hop]
          rw [loopB.eq_1]
          simp only [loopBody, hl5, hs, ge_iff_le, Nat.le_zero_eq,
            Nat.add_one_ne_zero, if_false, List.drop_zero, shiftMask_zero, Nat.add_zero, List.take_zero,
            List.nil_append, hop, if_true, Nat.zero_le, decide_true, Bool.true_and]
        · -- no opcode at the cursor: the scan moves on
          have hs : scan (op :: b1 :: b2 :: b3 :: b4 :: tl) (tl.length + 1) =
              scan (b1 :: b2 :: b3 :: b4 :: tl) tl.length + 1 := by simp [scan, hop]
          rw [loopB.eq_1, if_neg hop, ih (pos + 1) (mask >>> 1) (shr1_lt mask hm)]
          simp only [loopBody, hl5, hl4, hs]
          generalize hd : scan (b1 :: b2 :: b3 :: b4 :: tl) tl.length = d
          by_cases hge : d ≥ tl.length
          · have hge' : d + 1 ≥ tl.length + 1 := by omega
            rw [if_pos hge, if_pos hge', shiftMask_succ mask hm]
            have : pos + (d + 1) = pos + 1 + d := by omega
            rw [this]
          · have hge' : ¬ d + 1 ≥ tl.length + 1 := by omega
            rw [if_neg hge, if_neg hge', List.drop_succ_cons, List.take_succ_cons]
            have hp : pos + (d + 1) = pos + 1 + d := by omega
            rw [hp]
            generalize List.drop d (b1 :: b2 :: b3 :: b4 :: tl) = dr
            match dr with
            | op' :: c1 :: c2 :: c3 :: c4 :: tl' =>
              simp only []
              rw [skipcond_succ, shiftMask_succ mask hm]
              split
              · rfl
              · split <;> rfl
            | [] => simp only [shiftMask_succ mask hm]
            | [_] => simp only [shiftMask_succ mask hm]
            | [_, _] => simp only [shiftMask_succ mask hm]
            | [_, _, _] => simp only [shiftMask_succ mask hm]
            | [_, _, _, _] => simp only [shiftMask_succ mask hm]
      | [], h, _ => simp at h
      | [_], h, _ => simp at h
      | [_, _], h, _ => simp at h
      | [_, _, _], h, _ => simp at h


/-- `loopBody` calls `next` only on strictly shorter suffixes and with 3-bit masks -/
theorem loopBody_congr (n1 n2 : Nat → UInt32 → Bytes → LoopResult) (e : Bool) (ip : UInt32) (pos : Nat)
    (mask : UInt32) (rest : Bytes) (hm : mask < 8)
    (h : ∀ pos' mask' rest', rest'.length < rest.length → mask' < 8 → n1 pos' mask' rest' = n2 pos' mask' rest') :
    loopBody n1 e ip pos mask rest = loopBody n2 e ip pos mask rest := by
  unfold loopBody
  simp only []
  generalize scan rest (rest.length - 4) = d
  by_cases hge : d ≥ rest.length - 4
  · rw [if_pos hge, if_pos hge]
  · rw [if_neg hge, if_neg hge]
    generalize hdr : List.drop d rest = dr
    have hlen : dr.length ≤ rest.length := by rw [← hdr, List.length_drop]; omega
    match dr, hlen with
    | op' :: c1 :: c2 :: c3 :: c4 :: tl', hlen =>
      simp only [List.length_cons] at hlen
      have hm' := shiftMask_lt mask hm d
      simp only []
      rw [h _ _ (c1 :: c2 :: c3 :: c4 :: tl') (by simp only [List.length_cons]; omega) (shr1_or4_lt _ hm'),
        h _ _ tl' (by omega) zero_lt8]
    | [], _ => rfl
    | [_], _ => rfl
    | [_, _], _ => rfl
    | [_, _, _], _ => rfl
    | [_, _, _, _], _ => rfl

/-- the fuel of `loopF` is never exhausted: with more fuel than bytes it is `loopB` -/
theorem loopF_eq_loopB (e : Bool) (ip : UInt32) (fuel : Nat) :
    ∀ (pos : Nat) (mask : UInt32) (rest : Bytes), rest.length < fuel → mask < 8 →
      loopF e ip fuel pos mask rest = loopB e ip pos mask rest := by
  induction fuel with
  | zero => intro _ _ _ h; omega
  | succ fuel ih =>
    intro pos mask rest hl hm
    rw [loopF, loopB_unfold e ip rest pos mask hm]
    apply loopBody_congr _ _ _ _ _ _ _ hm
    intro pos' mask' rest' hl' hm'
    exact ih pos' mask' rest' (by omega) hm'

theorem loop_eq_loopB (e : Bool) (ip : UInt32) (pos : Nat) (mask : UInt32) (rest : Bytes) (hm : mask < 8) :
    loop e ip pos mask rest = loopB e ip pos mask rest :=
  loopF_eq_loopB e ip _ pos mask rest (by omega) hm


/-! ### protected bytes keep their class; the decoder retraces the encoder -/

/-- bit `i` (0..2) of the mask: the byte at distance `i+1` after the cursor is the top operand
    byte of an earlier E8/E9 that was not converted ("protected") -/
def prot (m : UInt32) (i : Nat) : Bool := (m >>> i.toUInt32) &&& 1 == 1

theorem prot_shr1 (m : UInt32) (h : m < 8) (j : Nat) (hj : j < 2) (hp : prot m (j + 1) = true) :
    prot (m >>> 1) j = true := by
  have : j = 0 ∨ j = 1 := by omega
  rcases this with rfl | rfl <;>
    rcases mask_cases m h with rfl | rfl | rfl | rfl | rfl | rfl | rfl | rfl <;> revert hp <;> decide

theorem prot_shr1_or4 (m : UInt32) (h : m < 8) (j : Nat) (hj : j < 2) (hp : prot m (j + 1) = true) :
    prot ((m >>> 1) ||| 4) j = true := by
  have : j = 0 ∨ j = 1 := by omega
  rcases this with rfl | rfl <;>
    rcases mask_cases m h with rfl | rfl | rfl | rfl | rfl | rfl | rfl | rfl <;> revert hp <;> decide

theorem prot_or4_two (m : UInt32) (h : m < 8) : prot ((m >>> 1) ||| 4) 2 = true := by
  rcases mask_cases m h with rfl | rfl | rfl | rfl | rfl | rfl | rfl | rfl <;> decide

/-- when the instruction at the cursor is converted, the mask is 0 or a single bit whose
    look-ahead byte is neither 00 nor FF -/
theorem not_skip3_cases (m : UInt32) (h : m < 8) (b1 b2 b3 b4 : UInt8)
    (hs : ¬ skip3 m b1 b2 b3 b4 = true) :
    m = 0 ∨ (m = 1 ∧ test86MSByte b1 = false) ∨ (m = 2 ∧ test86MSByte b2 = false) ∨
      (m = 4 ∧ test86MSByte b3 = false) := by
  rcases mask_cases m h with rfl | rfl | rfl | rfl | rfl | rfl | rfl | rfl
  · left; rfl
  · right; left; refine ⟨rfl, ?_⟩
    simpa [skip3, lookahead_1] using hs
  · right; right; left; refine ⟨rfl, ?_⟩
    simpa [skip3, lookahead_2] using hs
  · exact absurd (by simp [skip3]) hs
  · right; right; right; refine ⟨rfl, ?_⟩
    simpa [skip3, lookahead_4] using hs
  · exact absurd (by simp [skip3]) hs
  · exact absurd (by simp [skip3]) hs
  · exact absurd (by simp [skip3]) hs


theorem prot_single (m : UInt32) (i : Nat) (hi : i < 3) (hp : prot m i = true)
    (hm : m = 0 ∨ m = 1 ∨ m = 2 ∨ m = 4) :
    (i = 0 ∧ m = 1) ∨ (i = 1 ∧ m = 2) ∨ (i = 2 ∧ m = 4) := by
  have : i = 0 ∨ i = 1 ∨ i = 2 := by omega
  rcases this with rfl | rfl | rfl <;> rcases hm with rfl | rfl | rfl | rfl <;> revert hp <;> decide

/-- the filter preserves the length -/
theorem loopB_length (e : Bool) (ip : UInt32) (pos : Nat) (mask : UInt32) (rest : Bytes) :
    (loopB e ip pos mask rest).1.length = rest.length := by
  induction pos, mask, rest using loopB.induct e ip with
  | case1 pos mask op b1 b2 b3 b4 tl hop hs ih =>
    rw [loopB.eq_1, if_pos hop, if_pos hs]; simp only [List.length_cons] at ih ⊢; rw [ih]
  | case2 pos mask op b1 b2 b3 b4 tl hop hs ht ih =>
    rw [loopB.eq_1, if_pos hop, if_neg hs, if_pos ht]; simp only [List.length_cons] at ih ⊢; rw [ih]
  | case3 pos mask op b1 b2 b3 b4 tl hop hs ht ih =>
    rw [loopB.eq_1, if_pos hop, if_neg hs, if_neg ht]; simp only [List.length_cons] at ih ⊢; rw [ih]
  | case4 pos mask op b1 b2 b3 b4 tl hop ih =>
    rw [loopB.eq_1, if_neg hop]; simp only [List.length_cons] at ih ⊢; rw [ih]
  | case5 pos mask rest h => rw [loopB.eq_2 _ _ _ _ _ h]

/-- **Encoder keeps the class of protected bytes.**  In the encoder's output the byte at the
    cursor is unchanged, and every byte that the mask marks (bit `i` ↔ distance `i+1`) is 00/FF
    iff it was before. -/
theorem enc_protected (ip : UInt32) (pos : Nat) (mask : UInt32) (rest : Bytes) :
    mask < 8 →
    (loopB true ip pos mask rest).1.head? = rest.head? ∧
    ∀ i, i < 3 → prot mask i = true →
      ((loopB true ip pos mask rest).1[i+1]?).map test86MSByte = (rest[i+1]?).map test86MSByte := by
  induction pos, mask, rest using loopB.induct true ip with
  | case1 pos mask op b1 b2 b3 b4 tl hop hs ih =>
    intro hm
    have ih := ih (shr1_or4_lt mask hm)
    rw [loopB.eq_1, if_pos hop, if_pos hs]
    refine ⟨rfl, ?_⟩
    intro i hi hp
    simp only [List.getElem?_cons_succ]
    match i, hi, hp with
    | 0, _, _ => rw [← List.head?_eq_getElem?, ← List.head?_eq_getElem?]; rw [ih.1]
    | j + 1, hi, hp => exact ih.2 j (by omega) (prot_shr1_or4 mask hm j (by omega) hp)
  | case2 pos mask op b1 b2 b3 b4 tl hop hs ht ih =>
    intro hm
    rw [loopB.eq_1, if_pos hop, if_neg hs, if_pos ht]
    refine ⟨rfl, ?_⟩
    intro i hi hp
    have hc := not_skip3_cases mask hm b1 b2 b3 b4 hs
    have hm4 : mask = 0 ∨ mask = 1 ∨ mask = 2 ∨ mask = 4 := by
      rcases hc with h | h | h | h
      · exact Or.inl h
      · exact Or.inr (Or.inl h.1)
      · exact Or.inr (Or.inr (Or.inl h.1))
      · exact Or.inr (Or.inr (Or.inr h.1))
    rcases prot_single mask i hi hp hm4 with ⟨rfl, rfl⟩ | ⟨rfl, rfl⟩ | ⟨rfl, rfl⟩
    · have hk : test86MSByte (lookahead 1 b1 b2 b3 b4) = false := by
        rcases hc with h | h | h | h
        · exact absurd h (by decide)
        · exact h.2
        · exact absurd h.1 (by decide)
        · exact absurd h.1 (by decide)
      have := (conv_inverse_masked 1 (ip + UInt32.ofNat pos) 8 b1 b2 b3 b4 (Or.inl ⟨rfl, rfl⟩) ht hk).2.1
      rw [lookahead_1] at this hk
      simp [this, hk]
    · have hk : test86MSByte (lookahead 2 b1 b2 b3 b4) = false := by
        rcases hc with h | h | h | h
        · exact absurd h (by decide)
        · exact absurd h.1 (by decide)
        · exact h.2
        · exact absurd h.1 (by decide)
      have := (conv_inverse_masked 2 (ip + UInt32.ofNat pos) 16 b1 b2 b3 b4 (Or.inr (Or.inl ⟨rfl, rfl⟩)) ht hk).2.1
      rw [lookahead_2] at this hk
      simp [this, hk]
    · have hk : test86MSByte (lookahead 4 b1 b2 b3 b4) = false := by
        rcases hc with h | h | h | h
        · exact absurd h (by decide)
        · exact absurd h.1 (by decide)
        · exact absurd h.1 (by decide)
        · exact h.2
      have := (conv_inverse_masked 4 (ip + UInt32.ofNat pos) 24 b1 b2 b3 b4 (Or.inr (Or.inr ⟨rfl, rfl⟩)) ht hk).2.1
      rw [lookahead_4] at this hk
      simp [this, hk]
  | case3 pos mask op b1 b2 b3 b4 tl hop hs ht ih =>
    intro hm
    have ih := ih (shr1_or4_lt mask hm)
    rw [loopB.eq_1, if_pos hop, if_neg hs, if_neg ht]
    refine ⟨rfl, ?_⟩
    intro i hi hp
    simp only [List.getElem?_cons_succ]
    match i, hi, hp with
    | 0, _, _ => rw [← List.head?_eq_getElem?, ← List.head?_eq_getElem?]; rw [ih.1]
    | j + 1, hi, hp => exact ih.2 j (by omega) (prot_shr1_or4 mask hm j (by omega) hp)
  | case4 pos mask op b1 b2 b3 b4 tl hop ih =>
    intro hm
    have ih := ih (shr1_lt mask hm)
    rw [loopB.eq_1, if_neg hop]
    refine ⟨rfl, ?_⟩
    intro i hi hp
    simp only [List.getElem?_cons_succ]
    match i, hi, hp with
    | 0, _, _ => rw [← List.head?_eq_getElem?, ← List.head?_eq_getElem?]; rw [ih.1]
    | j + 1, hi, hp => exact ih.2 j (by omega) (prot_shr1 mask hm j (by omega) hp)
  | case5 pos mask rest h =>
    intro _
    rw [loopB.eq_2 _ _ _ _ _ h]
    exact ⟨rfl, fun _ _ _ => rfl⟩


theorem exists_cons4 (l : Bytes) (n : Nat) (h : l.length = n + 4) :
    ∃ c1 c2 c3 c4 tl', l = c1 :: c2 :: c3 :: c4 :: tl' := by
  match l, h with
  | c1 :: c2 :: c3 :: c4 :: tl', _ => exact ⟨c1, c2, c3, c4, tl', rfl⟩
  | [], h => simp at h
  | [_], h => simp at h
  | [_, _], h => simp only [List.length_cons, List.length_nil] at h; omega
  | [_, _, _], h => simp only [List.length_cons, List.length_nil] at h; omega

/-- the skip decision of the decoder, reading encoded bytes, equals that of the encoder -/
theorem skip3_congr (m : UInt32) (hm : m < 8) (b1 b2 b3 b4 c1 c2 c3 c4 : UInt8) (h1 : c1 = b1)
    (h2 : prot ((m >>> 1) ||| 4) 0 = true → test86MSByte c2 = test86MSByte b2)
    (h3 : prot ((m >>> 1) ||| 4) 1 = true → test86MSByte c3 = test86MSByte b3) :
    skip3 m c1 c2 c3 c4 = skip3 m b1 b2 b3 b4 := by
  rcases mask_cases m hm with rfl | rfl | rfl | rfl | rfl | rfl | rfl | rfl
  · simp [skip3]
  · simp [skip3, lookahead_1, h1]
  · simp [skip3, lookahead_2, h2 (by decide)]
  · simp [skip3]
  · simp [skip3, lookahead_4, h3 (by decide)]
  · simp [skip3]
  · simp [skip3]
  · simp [skip3]

/-- what the encoder's continuation leaves in the four bytes after a skipped E8/E9 -/
theorem enc_after_skip (ip : UInt32) (pos : Nat) (m : UInt32) (hm : m < 8) (b1 b2 b3 b4 : UInt8) (tl : Bytes) :
    ∃ c1 c2 c3 c4 tl', (loopB true ip pos m (b1 :: b2 :: b3 :: b4 :: tl)).1 = c1 :: c2 :: c3 :: c4 :: tl' ∧
      c1 = b1 ∧
      (prot m 0 = true → test86MSByte c2 = test86MSByte b2) ∧
      (prot m 1 = true → test86MSByte c3 = test86MSByte b3) ∧
      (prot m 2 = true → test86MSByte c4 = test86MSByte b4) := by
  have hl := loopB_length true ip pos m (b1 :: b2 :: b3 :: b4 :: tl)
  obtain ⟨c1, c2, c3, c4, tl', hc⟩ := exists_cons4 _ tl.length (by rw [hl]; simp)
  have hp := enc_protected ip pos m (b1 :: b2 :: b3 :: b4 :: tl) hm
  rw [hc] at hp
  refine ⟨c1, c2, c3, c4, tl', hc, ?_, ?_, ?_, ?_⟩
  · have := hp.1; simpa using this
  · intro h; have := hp.2 0 (by omega) h; simpa using this
  · intro h; have := hp.2 1 (by omega) h; simpa using this
  · intro h; have := hp.2 2 (by omega) h; simpa using this


/-- **The decoder run on the encoder's output** starts every step at the same `(pos, mask)` as the
    encoder did, restores every byte, and ends with the same returned position and state. -/
theorem loopB_inverse (ip : UInt32) (pos : Nat) (mask : UInt32) (rest : Bytes) :
    mask < 8 →
    loopB false ip pos mask (loopB true ip pos mask rest).1 = (rest, (loopB true ip pos mask rest).2) := by
  induction pos, mask, rest using loopB.induct true ip with
  | case1 pos mask op b1 b2 b3 b4 tl hop hs ih =>
    -- E8/E9 skipped because of the mask / look-ahead byte
    intro hm
    have hm' := shr1_or4_lt mask hm
    have ih := ih hm'
    obtain ⟨c1, c2, c3, c4, tl', hc, h1, h2, h3, _⟩ := enc_after_skip ip (pos + 1) _ hm' b1 b2 b3 b4 tl
    rw [loopB.eq_1 true, if_pos hop, if_pos hs]
    simp only []
    rw [hc] at ih ⊢
    have hs' : skip3 mask c1 c2 c3 c4 = true := by rw [skip3_congr mask hm b1 b2 b3 b4 c1 c2 c3 c4 h1 h2 h3]; exact hs
    rw [loopB.eq_1 false, if_pos hop, if_pos hs']
    simp only [ih]
  | case2 pos mask op b1 b2 b3 b4 tl hop hs ht ih =>
    -- converted instruction
    intro hm
    have ih := ih zero_lt8
    rw [loopB.eq_1 true, if_pos hop, if_neg hs, if_pos ht]
    simp only []
    rcases not_skip3_cases mask hm b1 b2 b3 b4 hs with rfl | ⟨rfl, hk⟩ | ⟨rfl, hk⟩ | ⟨rfl, hk⟩
    · obtain ⟨h4, e1, e2, e3, e4⟩ := conv_inverse_unmasked (ip + UInt32.ofNat pos) b1 b2 b3 b4 ht
      rw [loopB.eq_1 false, if_pos hop, if_neg (by simp [skip3_zero]), if_pos h4]
      simp only [ih, e1, e2, e3, e4]
    · obtain ⟨h4, hk', e1, e2, e3, e4⟩ :=
        conv_inverse_masked 1 (ip + UInt32.ofNat pos) 8 b1 b2 b3 b4 (Or.inl ⟨rfl, rfl⟩) ht (by rw [lookahead_1]; exact hk)
      rw [lookahead_1] at hk'
      rw [loopB.eq_1 false, if_pos hop, if_neg (by simp [skip3, lookahead_1, hk']), if_pos h4]
      simp only [ih, e1, e2, e3, e4]
    · obtain ⟨h4, hk', e1, e2, e3, e4⟩ :=
        conv_inverse_masked 2 (ip + UInt32.ofNat pos) 16 b1 b2 b3 b4 (Or.inr (Or.inl ⟨rfl, rfl⟩)) ht
          (by rw [lookahead_2]; exact hk)
      rw [lookahead_2] at hk'
      rw [loopB.eq_1 false, if_pos hop, if_neg (by simp [skip3, lookahead_2, hk']), if_pos h4]
      simp only [ih, e1, e2, e3, e4]
    · obtain ⟨h4, hk', e1, e2, e3, e4⟩ :=
        conv_inverse_masked 4 (ip + UInt32.ofNat pos) 24 b1 b2 b3 b4 (Or.inr (Or.inr ⟨rfl, rfl⟩)) ht
          (by rw [lookahead_4]; exact hk)
      rw [lookahead_4] at hk'
      rw [loopB.eq_1 false, if_pos hop, if_neg (by simp [skip3, lookahead_4, hk']), if_pos h4]
      simp only [ih, e1, e2, e3, e4]
  | case3 pos mask op b1 b2 b3 b4 tl hop hs ht ih =>
    -- E8/E9 not converted because its top operand byte is neither 00 nor FF
    intro hm
    have hm' := shr1_or4_lt mask hm
    have ih := ih hm'
    obtain ⟨c1, c2, c3, c4, tl', hc, h1, h2, h3, h4⟩ := enc_after_skip ip (pos + 1) _ hm' b1 b2 b3 b4 tl
    rw [loopB.eq_1 true, if_pos hop, if_neg hs, if_neg ht]
    simp only []
    rw [hc] at ih ⊢
    have hs' : ¬ skip3 mask c1 c2 c3 c4 = true := by rw [skip3_congr mask hm b1 b2 b3 b4 c1 c2 c3 c4 h1 h2 h3]; exact hs
    have ht' : ¬ test86MSByte c4 = true := by rw [h4 (prot_or4_two mask hm)]; exact ht
    rw [loopB.eq_1 false, if_pos hop, if_neg hs', if_neg ht']
    simp only [ih]
  | case4 pos mask op b1 b2 b3 b4 tl hop ih =>
    -- not an opcode
    intro hm
    have hm' := shr1_lt mask hm
    have ih := ih hm'
    obtain ⟨c1, c2, c3, c4, tl', hc, _⟩ := enc_after_skip ip (pos + 1) _ hm' b1 b2 b3 b4 tl
    rw [loopB.eq_1 true, if_neg hop]
    simp only []
    rw [hc] at ih ⊢
    rw [loopB.eq_1 false, if_neg hop]
    simp only [ih]
  | case5 pos mask rest h =>
    intro _
    rw [loopB.eq_2 true _ _ _ _ h, loopB.eq_2 false _ _ _ _ h]


/-! ### the whole routine -/

theorem and7_lt8 (s : UInt32) : s &&& 7 < 8 := by
  rw [UInt32.lt_iff_toNat_lt, UInt32.toNat_and]
  have h7 : (7 : UInt32).toNat = 7 := by decide
  have h8 : (8 : UInt32).toNat = 8 := by decide
  rw [h7, h8]
  have : s.toNat &&& 7 ≤ 7 := Nat.and_le_right
  omega

/-- `x86Convert` preserves the length of the buffer -/
theorem x86Convert_length (d : Bytes) (ip state : UInt32) (e : Bool) :
    (x86Convert d ip state e).data.length = d.length := by
  unfold x86Convert
  simp only []
  split
  · rfl
  · rw [loop_eq_loopB _ _ _ _ _ (and7_lt8 state)]
    exact loopB_length _ _ _ _ _

/-- **Decode after encode is the identity, with the same returned position and final state**,
    for every buffer, every start address `ip` and every start state. -/
theorem x86Convert_inverse (d : Bytes) (ip state : UInt32) :
    x86Convert (x86Convert d ip state true).data ip state false =
      ⟨d, (x86Convert d ip state true).pos, (x86Convert d ip state true).state⟩ := by
  have hlen := x86Convert_length d ip state true
  unfold x86Convert at hlen ⊢
  simp only [] at hlen ⊢
  by_cases h : d.length < 5
  · simp only [h, if_true]
  · simp only [h, if_false] at hlen ⊢
    rw [if_neg (by rw [hlen]; exact h)]
    rw [loop_eq_loopB _ _ _ _ _ (and7_lt8 state), loop_eq_loopB _ _ _ _ _ (and7_lt8 state),
      loopB_inverse _ _ _ _ (and7_lt8 state)]

end Fiano.Compress.X86
