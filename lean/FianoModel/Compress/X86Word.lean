/-
  Arithmetic of one converted instruction of the x86 branch filter (DESIGN.md Appendix A.3):
  decoding the four stored bytes gives back the original operand, and the bytes that drive the
  state machine keep their class.  Kernel-only (no bv_decide): the 32-bit operations are mapped to
  `Nat` with explicit `% 2^32`, xor with a low mask is rewritten arithmetically, and the rest is
  linear arithmetic in small pieces.
-/
import FianoModel.Compress.X86

namespace Fiano.Compress.X86

/-! ### xor with a low mask, arithmetically -/

theorem nat_xor_lowmask (v n : Nat) :
    v ^^^ (2 ^ n - 1) = 2 ^ n * (v / 2 ^ n) + (2 ^ n - 1 - v % 2 ^ n) := by
  apply Nat.eq_of_testBit_eq
  intro i
  have hpos : 0 < 2 ^ n := Nat.two_pow_pos n
  have hm : v % 2 ^ n < 2 ^ n := Nat.mod_lt _ hpos
  have hb : 2 ^ n - 1 - v % 2 ^ n < 2 ^ n := by omega
  rw [Nat.testBit_xor, Nat.testBit_two_pow_sub_one, Nat.testBit_two_pow_mul_add _ hb]
  by_cases hi : i < n
  · have e : 2 ^ n - 1 - v % 2 ^ n = 2 ^ n - (v % 2 ^ n + 1) := by omega
    rw [e, Nat.testBit_two_pow_sub_succ hm, Nat.testBit_mod_two_pow]
    simp [hi]
  · have : (v / 2 ^ n).testBit (i - n) = v.testBit i := by
      rw [Nat.testBit_div_two_pow]; congr 1; omega
    simp [hi, this]

/-! ### the 32-bit operations as arithmetic on `Nat` -/


set_option maxRecDepth 100000 in
theorem test_iff (b : UInt8) : test86MSByte b = true ↔ (b.toNat = 0 ∨ b.toNat = 255) := by
  have h : ∀ n : Fin 256, (test86MSByte (UInt8.ofFin n) = true ↔ ((UInt8.ofFin n).toNat = 0 ∨ (UInt8.ofFin n).toNat = 255)) := by
    decide
  exact h b.toFin

theorem word_toNat (b1 b2 b3 b4 : UInt8) :
    (word b1 b2 b3 b4).toNat = b1.toNat + 256 * b2.toNat + 65536 * b3.toNat + 16777216 * b4.toNat := by
  have h1 := b1.toNat_lt
  have h2 := b2.toNat_lt
  have h3 := b3.toNat_lt
  have h4 := b4.toNat_lt
  simp only [word, UInt32.toNat_add, UInt32.toNat_shiftLeft, UInt8.toNat_toUInt32, Nat.shiftLeft_eq]
  have e24 : (24 : UInt32).toNat % 32 = 24 := by decide
  have e16 : (16 : UInt32).toNat % 32 = 16 := by decide
  have e8 : (8 : UInt32).toNat % 32 = 8 := by decide
  rw [e24, e16, e8]
  omega

theorem st1_toNat (v : UInt32) : (st1 v).toNat = v.toNat % 256 := by
  simp [st1, UInt32.toNat_toUInt8]
theorem st2_toNat (v : UInt32) : (st2 v).toNat = v.toNat / 256 % 256 := by
  simp only [st2, UInt32.toNat_toUInt8, UInt32.toNat_shiftRight, Nat.shiftRight_eq_div_pow]
  have e8 : (8 : UInt32).toNat % 32 = 8 := by decide
  rw [e8]
theorem st3_toNat (v : UInt32) : (st3 v).toNat = v.toNat / 65536 % 256 := by
  simp only [st3, UInt32.toNat_toUInt8, UInt32.toNat_shiftRight, Nat.shiftRight_eq_div_pow]
  have e : (16 : UInt32).toNat % 32 = 16 := by decide
  rw [e]
theorem st4_toNat (v : UInt32) : (st4 v).toNat = 255 * (v.toNat / 16777216 % 2) := by
  simp only [st4, UInt32.toNat_toUInt8, UInt32.toNat_sub, UInt32.toNat_and, UInt32.toNat_shiftRight, Nat.shiftRight_eq_div_pow]
  have e : (24 : UInt32).toNat % 32 = 24 := by decide
  have e1 : (1 : UInt32).toNat = 1 := by decide
  have e0 : (0 : UInt32).toNat = 0 := by decide
  rw [e, e1, e0, Nat.and_one_is_mod]
  omega

/-! ### linear-arithmetic pieces (25 significant bits) -/


/-- arithmetic form of `v ^^^ (2^n - 1)` -/
def xorP (n v : Nat) : Nat := 2 ^ n * (v / 2 ^ n) + (2 ^ n - 1 - v % 2 ^ n)
/-- the byte the fix-up inspects: bits n-8 .. n-1 -/
def byteP (n v : Nat) : Nat := v / 2 ^ (n - 8) % 256

def Sh (n : Nat) : Prop := n = 8 ∨ n = 16 ∨ n = 24

theorem sub_congr (a b c : Nat) (_hc : c < 2 ^ 32) (h : a % 2 ^ 25 = b % 2 ^ 25) :
    (2 ^ 32 - c + a) % 2 ^ 32 % 2 ^ 25 = (2 ^ 32 - c + b) % 2 ^ 32 % 2 ^ 25 := by omega

theorem add_sub_cancel32 (x c : Nat) (hx : x < 2 ^ 32) (hc : c < 2 ^ 32) :
    (2 ^ 32 - c + (x + c) % 2 ^ 32) % 2 ^ 32 = x := by omega

theorem xorP_congr (n a b : Nat) (hn : Sh n) (h : a % 2 ^ 25 = b % 2 ^ 25) :
    xorP n a % 2 ^ 25 = xorP n b % 2 ^ 25 := by
  unfold xorP
  rcases hn with rfl | rfl | rfl <;> omega

theorem xorP_invol (n a : Nat) (hn : Sh n) : xorP n (xorP n a) = a := by
  unfold xorP
  rcases hn with rfl | rfl | rfl <;> omega

theorem byteP_congr (n a b : Nat) (hn : Sh n) (h : a % 2 ^ 25 = b % 2 ^ 25) : byteP n a = byteP n b := by
  unfold byteP
  rcases hn with rfl | rfl | rfl <;> omega

theorem byteP_xorP (n a : Nat) (hn : Sh n) : byteP n (xorP n a) = 255 - byteP n a := by
  unfold byteP xorP
  rcases hn with rfl | rfl | rfl <;> omega

theorem byteP_fix (n x c : Nat) (hn : Sh n) (_hx : x < 2 ^ 32) (_hc : c < 2 ^ 32) :
    byteP n ((xorP n ((x + c) % 2 ^ 32) + c) % 2 ^ 32) = 255 - byteP n x := by
  unfold byteP xorP
  rcases hn with rfl | rfl | rfl <;> omega


end Fiano.Compress.X86

namespace Fiano.Compress.X86

/-! ### one converted operand, on `Nat` -/

/-- `if encoding { v += cur } else { v -= cur }` on `Nat` (32-bit wrap explicit) -/
def nAdj (e : Bool) (v c : Nat) : Nat := if e then (v + c) % 2 ^ 32 else (2 ^ 32 - c + v) % 2 ^ 32

/-- `convValue` for `mask ∈ {1,2,4}` (`n = 8, 16, 24`) on `Nat` -/
def nConv (e : Bool) (n c v : Nat) : Nat :=
  if byteP n (nAdj e v c) = 0 ∨ byteP n (nAdj e v c) = 255 then nAdj e (xorP n (nAdj e v c)) c
  else nAdj e v c

/-- class preservation: the inspected byte of the encoded operand is again neither 00 nor FF -/
theorem nConv_class (n x c : Nat) (hn : Sh n) (hx : x < 2 ^ 32) (hc : c < 2 ^ 32)
    (hk : ¬ (byteP n x = 0 ∨ byteP n x = 255)) :
    ¬ (byteP n (nConv true n c x) = 0 ∨ byteP n (nConv true n c x) = 255) := by
  unfold nConv
  simp only [nAdj, if_true]
  split
  · rw [byteP_fix n x c hn hx hc]
    have : byteP n x < 256 := by unfold byteP; omega
    omega
  · assumption

/-- the decoder, fed with any word that agrees with the encoder's result on the low 25 bits,
    restores the low 25 bits of the original operand -/
theorem nConv_inv (n x c w : Nat) (hn : Sh n) (hx : x < 2 ^ 32) (hc : c < 2 ^ 32)
    (hk : ¬ (byteP n x = 0 ∨ byteP n x = 255))
    (hw : w % 2 ^ 25 = nConv true n c x % 2 ^ 25) :
    nConv false n c w % 2 ^ 25 = x % 2 ^ 25 := by
  have hbx : byteP n x < 256 := by unfold byteP; omega
  unfold nConv at hw ⊢
  simp only [nAdj, if_true, Bool.false_eq_true, if_false] at hw ⊢
  split at hw
  · -- the encoder applied the fix-up
    rename_i hfix
    have h1 : (2 ^ 32 - c + w) % 2 ^ 32 % 2 ^ 25 = xorP n ((x + c) % 2 ^ 32) % 2 ^ 25 := by
      rw [sub_congr _ _ c hc hw, add_sub_cancel32 _ c _ hc]
      unfold xorP
      rcases hn with rfl | rfl | rfl <;> omega
    have hb : byteP n ((2 ^ 32 - c + w) % 2 ^ 32) = 255 - byteP n ((x + c) % 2 ^ 32) := by
      rw [byteP_congr n _ _ hn h1, byteP_xorP n _ hn]
    have hcond : byteP n ((2 ^ 32 - c + w) % 2 ^ 32) = 0 ∨ byteP n ((2 ^ 32 - c + w) % 2 ^ 32) = 255 := by
      omega
    rw [if_pos hcond]
    have h2 : xorP n ((2 ^ 32 - c + w) % 2 ^ 32) % 2 ^ 25 = (x + c) % 2 ^ 32 % 2 ^ 25 := by
      rw [xorP_congr n _ _ hn h1, xorP_invol n _ hn]
    rw [sub_congr _ _ c hc h2, add_sub_cancel32 x c hx hc]
  · -- no fix-up in the encoder
    rename_i hnofix
    have h1 : (2 ^ 32 - c + w) % 2 ^ 32 % 2 ^ 25 = x % 2 ^ 25 := by
      rw [sub_congr _ _ c hc hw, add_sub_cancel32 x c hx hc]
    have hb : byteP n ((2 ^ 32 - c + w) % 2 ^ 32) = byteP n x := byteP_congr n _ _ hn h1
    have hcond : ¬ (byteP n ((2 ^ 32 - c + w) % 2 ^ 32) = 0 ∨ byteP n ((2 ^ 32 - c + w) % 2 ^ 32) = 255) := by
      rw [hb]; exact hk
    rw [if_neg hcond]
    exact h1

/-- `mask = 0`: plain add / subtract -/
theorem nAdj_inv (x c w : Nat) (hx : x < 2 ^ 32) (hc : c < 2 ^ 32)
    (hw : w % 2 ^ 25 = nAdj true x c % 2 ^ 25) : nAdj false w c % 2 ^ 25 = x % 2 ^ 25 := by
  simp only [nAdj, if_true, Bool.false_eq_true, if_false] at hw ⊢
  rw [sub_congr _ _ c hc hw, add_sub_cancel32 x c hx hc]

end Fiano.Compress.X86
namespace Fiano.Compress.X86

/-! ### back to `UInt32` / `UInt8`: the per-instruction inverse theorems -/


theorem adj_toNat (e : Bool) (v c : UInt32) : (adj e v c).toNat = nAdj e v.toNat c.toNat := by
  cases e <;> simp [adj, nAdj, UInt32.toNat_add, UInt32.toNat_sub]

theorem xor_toNat (v m : UInt32) (n : Nat) (hm : m.toNat = 2 ^ n - 1) : (v ^^^ m).toNat = xorP n v.toNat := by
  rw [UInt32.toNat_xor, hm, nat_xor_lowmask]; rfl

theorem byte_toNat (v s : UInt32) (n : Nat) (hs : s.toNat % 32 = n - 8) :
    ((v >>> s).toUInt8).toNat = byteP n v.toNat := by
  rw [UInt32.toNat_toUInt8, UInt32.toNat_shiftRight, hs, Nat.shiftRight_eq_div_pow]; rfl

theorem convValue_toNat (e : Bool) (m c v : UInt32) (n : Nat)
    (hm0 : (m != 0) = true)
    (hs : ((m &&& 6) <<< 2).toNat % 32 = n - 8)
    (hM : (((0x100 : UInt32) <<< ((m &&& 6) <<< 2)) - 1).toNat = 2 ^ n - 1) :
    (convValue e m c v).toNat = nConv e n c.toNat v.toNat := by
  unfold convValue nConv
  simp only [hm0, if_true]
  rw [← adj_toNat, ← byte_toNat _ _ n hs]
  by_cases ht : test86MSByte (adj e v c >>> ((m &&& 6) <<< 2)).toUInt8 = true
  · rw [if_pos ht, if_pos ((test_iff _).1 ht), adj_toNat, xor_toNat _ _ n hM]
  · rw [if_neg ht, if_neg (fun h => ht ((test_iff _).2 h))]

theorem convValue_toNat_1 (e : Bool) (c v : UInt32) : (convValue e 1 c v).toNat = nConv e 8 c.toNat v.toNat :=
  convValue_toNat e 1 c v 8 (by decide) (by decide) (by decide)
theorem convValue_toNat_2 (e : Bool) (c v : UInt32) : (convValue e 2 c v).toNat = nConv e 16 c.toNat v.toNat :=
  convValue_toNat e 2 c v 16 (by decide) (by decide) (by decide)
theorem convValue_toNat_4 (e : Bool) (c v : UInt32) : (convValue e 4 c v).toNat = nConv e 24 c.toNat v.toNat :=
  convValue_toNat e 4 c v 24 (by decide) (by decide) (by decide)
theorem convValue_toNat_0 (e : Bool) (c v : UInt32) : (convValue e 0 c v).toNat = nAdj e v.toNat c.toNat := by
  unfold convValue
  simp only [show ((0 : UInt32) != 0) = false by decide]
  exact adj_toNat e v c


theorem lookahead_1 (a b c d : UInt8) : lookahead 1 a b c d = a := rfl
theorem lookahead_2 (a b c d : UInt8) : lookahead 2 a b c d = b := rfl
theorem lookahead_4 (a b c d : UInt8) : lookahead 4 a b c d = c := rfl

theorem st4_class (v : UInt32) : test86MSByte (st4 v) = true := by
  rw [test_iff, st4_toNat]; omega

theorem byteP8 (v : UInt32) : byteP 8 v.toNat = (st1 v).toNat := by rw [st1_toNat]; simp [byteP]
theorem byteP16 (v : UInt32) : byteP 16 v.toNat = (st2 v).toNat := by rw [st2_toNat]; simp [byteP]
theorem byteP24 (v : UInt32) : byteP 24 v.toNat = (st3 v).toNat := by rw [st3_toNat]; simp [byteP]

/-- re-reading the four stored bytes gives a word that agrees with `v` on the low 25 bits -/
theorem word_store (v : UInt32) :
    (word (st1 v) (st2 v) (st3 v) (st4 v)).toNat % 2 ^ 25 = v.toNat % 2 ^ 25 := by
  rw [word_toNat, st1_toNat, st2_toNat, st3_toNat, st4_toNat]; omega

/-- storing a value that agrees on the low 25 bits with an operand whose top byte is 00 / FF
    writes exactly that operand -/
theorem store_word (v : UInt32) (b1 b2 b3 b4 : UInt8) (h4 : test86MSByte b4 = true)
    (h : v.toNat % 2 ^ 25 = (word b1 b2 b3 b4).toNat % 2 ^ 25) :
    st1 v = b1 ∧ st2 v = b2 ∧ st3 v = b3 ∧ st4 v = b4 := by
  rw [test_iff] at h4
  rw [word_toNat] at h
  have h1 := b1.toNat_lt
  have h2 := b2.toNat_lt
  have h3 := b3.toNat_lt
  refine ⟨?_, ?_, ?_, ?_⟩
  · rw [← UInt8.toNat_inj, st1_toNat]; omega
  · rw [← UInt8.toNat_inj, st2_toNat]; omega
  · rw [← UInt8.toNat_inj, st3_toNat]; omega
  · rw [← UInt8.toNat_inj, st4_toNat]; omega


theorem test_false_iff (b : UInt8) : test86MSByte b = false ↔ ¬ (b.toNat = 0 ∨ b.toNat = 255) := by
  rw [← test_iff]; simp

theorem lookahead_word (m : UInt32) (n : Nat) (b1 b2 b3 b4 : UInt8)
    (hmn : (m = 1 ∧ n = 8) ∨ (m = 2 ∧ n = 16) ∨ (m = 4 ∧ n = 24)) :
    byteP n (word b1 b2 b3 b4).toNat = (lookahead m b1 b2 b3 b4).toNat := by
  have h1 := b1.toNat_lt
  have h2 := b2.toNat_lt
  have h3 := b3.toNat_lt
  have h4 := b4.toNat_lt
  rw [word_toNat]
  rcases hmn with ⟨rfl, rfl⟩ | ⟨rfl, rfl⟩ | ⟨rfl, rfl⟩
  · rw [lookahead_1]; unfold byteP; omega
  · rw [lookahead_2]; unfold byteP; omega
  · rw [lookahead_4]; unfold byteP; omega

theorem lookahead_store (m : UInt32) (n : Nat) (v : UInt32)
    (hmn : (m = 1 ∧ n = 8) ∨ (m = 2 ∧ n = 16) ∨ (m = 4 ∧ n = 24)) :
    byteP n v.toNat = (lookahead m (st1 v) (st2 v) (st3 v) (st4 v)).toNat := by
  rcases hmn with ⟨rfl, rfl⟩ | ⟨rfl, rfl⟩ | ⟨rfl, rfl⟩
  · rw [lookahead_1, byteP8]
  · rw [lookahead_2, byteP16]
  · rw [lookahead_4, byteP24]

theorem convValue_toNat' (e : Bool) (m c v : UInt32) (n : Nat)
    (hmn : (m = 1 ∧ n = 8) ∨ (m = 2 ∧ n = 16) ∨ (m = 4 ∧ n = 24)) :
    (convValue e m c v).toNat = nConv e n c.toNat v.toNat := by
  rcases hmn with ⟨rfl, rfl⟩ | ⟨rfl, rfl⟩ | ⟨rfl, rfl⟩
  · exact convValue_toNat_1 e c v
  · exact convValue_toNat_2 e c v
  · exact convValue_toNat_4 e c v

/-- **One converted instruction, `mask ∈ {1,2,4}`.**  If the operand's top byte is 00/FF and the
    look-ahead byte is not, then in the encoded operand the top byte is again 00/FF, the
    look-ahead byte is again neither, and decoding restores the four original bytes. -/
theorem conv_inverse_masked (m cur : UInt32) (n : Nat) (b1 b2 b3 b4 : UInt8)
    (hmn : (m = 1 ∧ n = 8) ∨ (m = 2 ∧ n = 16) ∨ (m = 4 ∧ n = 24))
    (h4 : test86MSByte b4 = true) (hk : test86MSByte (lookahead m b1 b2 b3 b4) = false) :
    let v := convValue true m cur (word b1 b2 b3 b4)
    let v' := convValue false m cur (word (st1 v) (st2 v) (st3 v) (st4 v))
    test86MSByte (st4 v) = true ∧
    test86MSByte (lookahead m (st1 v) (st2 v) (st3 v) (st4 v)) = false ∧
    st1 v' = b1 ∧ st2 v' = b2 ∧ st3 v' = b3 ∧ st4 v' = b4 := by
  intro v v'
  have hn : Sh n := by
    rcases hmn with ⟨_, rfl⟩ | ⟨_, rfl⟩ | ⟨_, rfl⟩ <;> simp [Sh]
  have hx := (word b1 b2 b3 b4).toNat_lt
  have hc := cur.toNat_lt
  have hk' : ¬ (byteP n (word b1 b2 b3 b4).toNat = 0 ∨ byteP n (word b1 b2 b3 b4).toNat = 255) := by
    rw [lookahead_word m n _ _ _ _ hmn]; exact (test_false_iff _).1 hk
  have hv : v.toNat = nConv true n cur.toNat (word b1 b2 b3 b4).toNat := convValue_toNat' true m cur _ n hmn
  refine ⟨st4_class v, ?_, ?_⟩
  · rw [test_false_iff, ← lookahead_store m n v hmn, hv]
    exact nConv_class n _ _ hn hx hc hk'
  · apply store_word v' b1 b2 b3 b4 h4
    have hv' : v'.toNat = nConv false n cur.toNat (word (st1 v) (st2 v) (st3 v) (st4 v)).toNat :=
      convValue_toNat' false m cur _ n hmn
    rw [hv']
    apply nConv_inv n _ _ _ hn hx hc hk'
    rw [word_store v, hv]

/-- **One converted instruction, `mask = 0`.** -/
theorem conv_inverse_unmasked (cur : UInt32) (b1 b2 b3 b4 : UInt8) (h4 : test86MSByte b4 = true) :
    let v := convValue true 0 cur (word b1 b2 b3 b4)
    let v' := convValue false 0 cur (word (st1 v) (st2 v) (st3 v) (st4 v))
    test86MSByte (st4 v) = true ∧ st1 v' = b1 ∧ st2 v' = b2 ∧ st3 v' = b3 ∧ st4 v' = b4 := by
  intro v v'
  have hx := (word b1 b2 b3 b4).toNat_lt
  have hc := cur.toNat_lt
  refine ⟨st4_class v, ?_⟩
  apply store_word v' b1 b2 b3 b4 h4
  have hv : v.toNat = nAdj true (word b1 b2 b3 b4).toNat cur.toNat := convValue_toNat_0 true cur _
  have hv' : v'.toNat = nAdj false (word (st1 v) (st2 v) (st3 v) (st4 v)).toNat cur.toNat :=
    convValue_toNat_0 false cur _
  rw [hv']
  apply nAdj_inv _ _ _ hx hc
  rw [word_store v, hv]

end Fiano.Compress.X86
