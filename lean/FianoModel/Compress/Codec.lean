/-
  Third-party compression cores as parameters with explicit laws (DESIGN.md §3): the LZMA
  (ulikunitz/xz, xz(1)), zlib (compress/zlib) and LZ4 (pierrec/lz4) encoders/decoders are not
  modelled; a `Codec` is any pair of functions, and losslessness of a core is the *hypothesis*
  `Codec.Lawful`, never an axiom.  Concrete lawful instances (`stored`, `hdr13`) show that the
  conditional theorems are not vacuous.  Core Lean only.
-/
import FianoModel.Base.Bytes

namespace Fiano.Compress

/-- result of a Go call `([]byte, error)` that may also fault on a slice bound -/
inductive Res (α : Type) where
  | ok (a : α)
  | err            -- the call returned a non-nil error
  | fault          -- the Go code would index/slice out of range (see `patchSize`)
  deriving Repr, DecidableEq

/-- a compression core: `enc` is `Encode`, `dec` is `Decode` (`none` = error) -/
structure Codec where
  enc : Bytes → Res Bytes
  dec : Bytes → Option Bytes

/-- losslessness: whatever `Encode` emits, `Decode` maps back to the input -/
def Codec.Lawful (c : Codec) : Prop := ∀ x y, c.enc x = .ok y → c.dec y = some x

/-- the identity ("stored") codec -/
def stored : Codec := ⟨fun x => .ok x, fun y => some y⟩

theorem stored_lawful : stored.Lawful := by
  intro x y h
  simp only [stored, Res.ok.injEq] at h
  simp [stored, h]

/-- a stand-in for an `.lzma` ("LZMA alone") encoder as `xz --format=lzma` behaves: 13-byte header
    (properties byte, 4-byte dictionary size, 8-byte uncompressed size written as "unknown" =
    all ones) followed by the payload (stored here).  The decoder accepts a size field that is
    either "unknown" or the true payload length (mod 2^64), as the real decoders do. -/
def hdr13 : Codec where
  enc x := .ok (0x5D :: leN 4 (2 ^ 24) ++ List.replicate 8 0xFF ++ x)
  dec y :=
    if y.length < 13 then none
    else
      let s := fromLE (slice y 5 8)
      if s = 2 ^ 64 - 1 ∨ s = (y.length - 13) % 2 ^ 64 then some (y.drop 13) else none

theorem hdr13_lawful : hdr13.Lawful := by
  intro x y h
  simp only [hdr13, Res.ok.injEq] at h
  subst h
  have h5 : slice (0x5D :: leN 4 (2 ^ 24) ++ List.replicate 8 0xFF ++ x) 5 8 = List.replicate 8 0xFF := by
    have := slice_mid (0x5D :: leN 4 (2 ^ 24)) (List.replicate 8 0xFF) x 5 8 (by simp) (by simp)
    simpa using this
  have hl : ¬ (0x5D :: leN 4 (2 ^ 24) ++ List.replicate 8 0xFF ++ x).length < 13 := by
    simp only [List.cons_append, List.length_cons, List.length_append, leN_length,
      List.length_replicate]
    omega
  have hd : (0x5D :: leN 4 (2 ^ 24) ++ List.replicate 8 0xFF ++ x).drop 13 = x := by
    have : (0x5D :: leN 4 (2 ^ 24) ++ List.replicate 8 0xFF).length = 13 := by simp
    rw [List.drop_append_of_le_length (by omega), ← this, List.drop_length]
    rfl
  have h8 : fromLE (List.replicate 8 (0xFF : UInt8)) = 2 ^ 64 - 1 := by decide
  simp only [hdr13, hl, if_false, h5, hd, h8, true_or, if_true]

end Fiano.Compress
