/-
  Model of the framing that fiano itself adds around the third-party compression cores
  (pkg/compression/{zlib,systemlzma,lzma,x86}.go).  The cores are `Codec` parameters.
  Core Lean only.
-/
import FianoModel.Compress.Codec
import FianoModel.Compress.X86

namespace Fiano.Compress

/-! ### zlib.go — 256-byte section header, compressed size (LE32) at offset 20 -/

def zlibSectionHeaderSize : Nat := 256
def zlibSizeOffset : Nat := 20

/-- `zlib_header := make([]byte, zlibSectionHeaderSize);
     binary.LittleEndian.PutUint32(zlib_header[zlibSizeOffset:], uint32(n))` -/
def zlibHeader (n : Nat) : Bytes :=
  List.replicate zlibSizeOffset 0 ++ leN 4 n ++
    List.replicate (zlibSectionHeaderSize - zlibSizeOffset - 4) 0

/-- `ZLIB.Encode`: `append(zlib_header, encodedData.Bytes()...)` -/
def zlibEncode (core : Codec) (x : Bytes) : Res Bytes :=
  match core.enc x with
  | .ok z => .ok (zlibHeader z.length ++ z)
  | .err => .err
  | .fault => .fault

/-- `ZLIB.Decode`: length check (literal 256), size check
    `size != uint32(len(encodedData)-zlibSectionHeaderSize)`, then the core on
    `encodedData[zlibSectionHeaderSize:]` -/
def zlibDecode (core : Codec) (e : Bytes) : Option Bytes :=
  if e.length < 256 then none
  else if fromLE (slice e zlibSizeOffset 4) ≠ (e.length - zlibSectionHeaderSize) % 2 ^ 32 then none
  else core.dec (e.drop zlibSectionHeaderSize)

def zlib (core : Codec) : Codec := ⟨zlibEncode core, zlibDecode core⟩

/-! ### systemlzma.go / lzma.go — uncompressed size written into the 13-byte `.lzma` header -/

def lzmaHeaderLen : Nat := 13
def lzmaSizeOffset : Nat := 5

/-- `copy(encodedData[5:5+8], LE64(uint64(n)))`.  For `len(encodedData) < 13` the Go slice
    expression is bounded by the *capacity* of what `cmd.Output()` returned; that case (xz
    emitting less than a header) is not modelled further: `fault`. -/
def patchSize (out : Bytes) (n : Nat) : Res Bytes :=
  if out.length < lzmaHeaderLen then .fault else .ok (splice out lzmaSizeOffset (leN 8 n))

/-- `SystemLZMA.Encode` (core = `xz --format=lzma -7 --stdout`) and, after the repair of the
    empty-input defect, `LZMA.Encode` (core = ulikunitz/xz writer): run the core, then patch. -/
def lzmaSizedEncode (core : Codec) (x : Bytes) : Res Bytes :=
  match core.enc x with
  | .ok out => patchSize out x.length
  | .err => .err
  | .fault => .fault

/-- `SystemLZMA.Decode` = `LZMA.Decode` = the Go decoder, unframed -/
def lzmaSized (core : Codec) : Codec := ⟨lzmaSizedEncode core, core.dec⟩

/-- the 13-byte header both encoders are configured to emit: properties byte for
    `LC: 3, LP: 0, PB: 2`, dictionary size `1 << lzmaDictCapExps[compressionLevel]` (LE32),
    uncompressed size (LE64) -/
def lzmaProps (lc lp pb : Nat) : Nat := (pb * 5 + lp) * 9 + lc
/-- `lzmaDictCapExps[compressionLevel]` (= the dictionary of `xz -7`) -/
def lzmaDictExp : Nat := 24
def lzmaHeader (n : Nat) : Bytes :=
  UInt8.ofNat (lzmaProps 3 0 2) :: leN 4 (2 ^ lzmaDictExp) ++ leN 8 n

/-! ### x86.go — `LZMAX86` = x86 branch filter layered on an LZMA codec -/

/-- `LZMAX86.Encode`: copy, `x86Convert(copy, len, 0, &x86State /* = 0 */, true)`, then
    `c.lzma.Encode` -/
def lzmax86Encode (lz : Codec) (x : Bytes) : Res Bytes :=
  lz.enc (X86.x86Convert x 0 0 true).data

/-- `LZMAX86.Decode`: `c.lzma.Decode`, then `x86Convert(decoded, len, 0, &x86State, false)` -/
def lzmax86Decode (lz : Codec) (e : Bytes) : Option Bytes :=
  match lz.dec e with
  | some d => some (X86.x86Convert d 0 0 false).data
  | none => none

def lzmax86 (lz : Codec) : Codec := ⟨lzmax86Encode lz, lzmax86Decode lz⟩

end Fiano.Compress
