/-
  Tie T1 "code as code" for pkg/compression/x86.go (property C08): the model of the BCJ filter
  (Compress/X86.lean, proved self-inverse in X86Loop.lean / Props/C08.lean) against the Go functions
  translated from the source on every run (Gen/CodeCompression.lean, kind `loopfn`).

    test86MSByte   → X86.test86MSByte       test86MSByte_tie
    x86Convert     → X86.x86Convert         x86Convert_tie   (position, buffer and *state, all inputs)

  Plan of the proof: `scan_tie` (inner scan loop = `X86.scan`), six single-pass lemmas for the
  generated outer loop (`loop1_ret`, `loop1_near_skip`, `loop1_{near,far}_{conv,noconv}`: each
  unfolds the generated body once along one path), the identification of the generated
  sub-expressions with the model's (`maskAfter_eq`, `genCond_eq`, `genV_eq`, `store4_eq`), then
  `pass_tie` (one pass agrees if the later ones do) and `loop_tie` (induction on the distance to the
  end of the buffer).  The generated code works on the whole buffer with an index, the model on
  the unprocessed suffix: `pack` relates the two.
-/
import FianoModel.Gen.CodeCompression
import FianoModel.CodeTie.Lemmas
import FianoModel.Compress.X86
import FianoModel.Compress.X86Loop

-- the single-pass lemmas deliberately carry a generous simp set (robust against harmless rewrites of the Go code)
set_option linter.unusedSimpArgs false

namespace Fiano.Compress.CodeTie
open Fiano Fiano.GoRt Fiano.Compress
open Fiano.Gen.CodeCompression

/-- `test86MSByte` as translated from the source is the model's function (definitionally) -/
theorem test86MSByte_tie (b : UInt8) : X86.test86MSByte b = fn_test86MSByte b := rfl

/-! ### uint64 positions -/

theorem u64_add_toNat (p : UInt64) (k : Nat) (h : p.toNat + k < 2 ^ 64) : (p + UInt64.ofNat k).toNat = p.toNat + k := by
  rw [UInt64.toNat_add, UInt64.toNat_ofNat']
  have : k % 2 ^ 64 = k := Nat.mod_eq_of_lt (by omega)
  rw [this]; exact Nat.mod_eq_of_lt h

theorem u64_add1 (p : UInt64) (h : p.toNat + 1 < 2 ^ 64) : (p + 1).toNat = p.toNat + 1 := by
  have := u64_add_toNat p 1 h
  simpa using this

/-! ### the inner scan `for ; p < size; p++ { if data[p]&0xFE == 0xE8 { break } }` -/

theorem scan_stop (D : Bytes) (sz : UInt64) (fuel : Nat) (p : UInt64) (h : ¬ (p < sz)) :
    fn_x86Convert.loop2 D sz (fuel + 1) p = some p := by
  simp [fn_x86Convert.loop2, h]

theorem scan_hit (D : Bytes) (sz : UInt64) (fuel : Nat) (p : UInt64) (b : UInt8) (h : p < sz)
    (hb : D[p.toNat]? = some b) (ho : X86.isOpcode b = true) :
    fn_x86Convert.loop2 D sz (fuel + 1) p = some p := by
  have : b &&& 254 = 232 := by simpa [X86.isOpcode] using ho
  simp [fn_x86Convert.loop2, h, hb, this]

theorem scan_miss (D : Bytes) (sz : UInt64) (fuel : Nat) (p : UInt64) (b : UInt8) (h : p < sz)
    (hb : D[p.toNat]? = some b) (ho : X86.isOpcode b = false) :
    fn_x86Convert.loop2 D sz (fuel + 1) p = fn_x86Convert.loop2 D sz fuel (p + 1) := by
  have : ¬ (b &&& 254 = 232) := by simpa [X86.isOpcode] using ho
  simp [fn_x86Convert.loop2, h, hb, this]

theorem scan_tie (D : Bytes) (sz : UInt64) (hsz : sz.toNat ≤ D.length) (hN : D.length < 2 ^ 64) :
    ∀ (lim : Nat) (p : UInt64) (fuel : Nat), p.toNat + lim = sz.toNat → lim < fuel →
    ∃ p', fn_x86Convert.loop2 D sz fuel p = some p' ∧ p'.toNat = p.toNat + X86.scan (D.drop p.toNat) lim := by
  intro lim
  induction lim with
  | zero =>
    intro p fuel hp hf
    obtain ⟨f, rfl⟩ : ∃ f, fuel = f + 1 := ⟨fuel - 1, by omega⟩
    have : ¬ (p < sz) := by rw [UInt64.lt_iff_toNat_lt]; omega
    refine ⟨p, scan_stop D sz f p this, ?_⟩
    cases D.drop p.toNat <;> simp [X86.scan]
  | succ lim ih =>
    intro p fuel hp hf
    obtain ⟨f, rfl⟩ : ∃ f, fuel = f + 1 := ⟨fuel - 1, by omega⟩
    have hlt : p < sz := by rw [UInt64.lt_iff_toNat_lt]; omega
    have hpl : p.toNat < D.length := by omega
    have hd : D.drop p.toNat = D[p.toNat] :: D.drop (p.toNat + 1) := List.drop_eq_getElem_cons hpl
    have hb : D[p.toNat]? = some D[p.toNat] := List.getElem?_eq_getElem hpl
    by_cases ho : X86.isOpcode D[p.toNat] = true
    · refine ⟨p, scan_hit D sz f p _ hlt hb ho, ?_⟩
      rw [hd]; simp [X86.scan, ho]
    · have ho' : X86.isOpcode D[p.toNat] = false := by simpa using ho
      have h1 := u64_add1 p (by omega)
      obtain ⟨p', hp1, hp2⟩ := ih (p + 1) f (by omega) (by omega)
      refine ⟨p', ?_, ?_⟩
      · rw [scan_miss D sz f p _ hlt hb ho']; exact hp1
      · rw [hp2, h1, hd]; simp [X86.scan, ho']; omega

/-! ### single passes of the generated outer loop -/

def maskAfter (mask : UInt32) (d : UInt64) : UInt32 := if d > 2 then 0 else GoRt.shr32 mask d.toNat

/-- the value `v` the generated code stores (before it is split into four bytes) -/
def genV (enc : Bool) (m ip : UInt32) (pos : UInt64) (b1 b2 b3 b4 : UInt8) : UInt32 :=
  let v : UInt32 := (b4.toUInt32 <<< 24) + (b3.toUInt32 <<< 16) + (b2.toUInt32 <<< 8) + b1.toUInt32
  let cur : UInt32 := ip + pos.toUInt32
  let v : UInt32 := if enc then v + cur else v - cur
  if m != 0 then
    let sh : UInt64 := ((m &&& 6) <<< 2).toUInt64
    if fn_test86MSByte (GoRt.shr32 v sh.toNat).toUInt8 then
      let v : UInt32 := v ^^^ ((GoRt.shl32 256 sh.toNat) - 1)
      if enc then v + cur else v - cur
    else v
  else v

/-- the buffer after the four stores -/
def store4 (D : Bytes) (p : UInt64) (v : UInt32) : Bytes :=
  (((D.set (p + 1).toNat v.toUInt8).set (p + 2).toNat (v >>> 8).toUInt8).set (p + 3).toNat (v >>> 16).toUInt8).set
    (p + 4).toNat ((0 : UInt32) - ((v >>> 24) &&& 1)).toUInt8

/-- the short-circuit condition `mask != 0 && (mask > 4 || mask == 3 || test86MSByte(data[p+uint(mask>>1)+1]))`
    exactly as the generated code evaluates it -/
def genCond (D : Bytes) (p : UInt64) (m : UInt32) : Option Bool :=
  (if (m != (0 : UInt32)) then (do pure (← (if ((decide (m > (4 : UInt32))) || (m == (3 : UInt32))) then pure true else (do pure (fn_test86MSByte (← D[(((p + ((m >>> (1 : UInt32))).toUInt64) + (1 : UInt64))).toNat]?)))))) else pure false)

theorem loop1_near_skip (sz : UInt64) (ip : UInt32) (enc : Bool) (fuel : Nat) (D : Bytes) (st : UInt32) (pos : UInt64)
    (mask : UInt32) (p' : UInt64)
    (hs : fn_x86Convert.loop2 D sz (sz.toNat - pos.toNat + 1) pos = some p') (hlt : ¬ (p' ≥ sz)) (hd : ¬ (p' - pos > 2))
    (hc : genCond D p' (GoRt.shr32 mask (p' - pos).toNat) = some true) :
    fn_x86Convert.loop1 sz ip enc (fuel + 1) D st pos mask
      = fn_x86Convert.loop1 sz ip enc fuel D st (p' + 1) (((GoRt.shr32 mask (p' - pos).toNat) >>> 1) ||| 4) := by
  simp only [genCond] at hc
  simp only [fn_x86Convert.loop1, hs, hlt, hd, bind, Option.bind, decide_true, decide_false, if_true, if_false, pure,
    Bool.false_eq_true]
  simp only [bind, Option.bind, pure] at hc
  rw [hc]
  simp

theorem loop1_near_noconv (sz : UInt64) (ip : UInt32) (enc : Bool) (fuel : Nat) (D : Bytes) (st : UInt32) (pos : UInt64)
    (mask : UInt32) (p' : UInt64)
    (hs : fn_x86Convert.loop2 D sz (sz.toNat - pos.toNat + 1) pos = some p') (hlt : ¬ (p' ≥ sz)) (hd : ¬ (p' - pos > 2))
    (hc : genCond D p' (GoRt.shr32 mask (p' - pos).toNat) = some false)
    (b4 : UInt8) (h4 : D[(p' + 4).toNat]? = some b4) (ht : fn_test86MSByte b4 = false) :
    fn_x86Convert.loop1 sz ip enc (fuel + 1) D st pos mask
      = fn_x86Convert.loop1 sz ip enc fuel D st (p' + 1) (((GoRt.shr32 mask (p' - pos).toNat) >>> 1) ||| 4) := by
  simp only [genCond] at hc
  simp only [fn_x86Convert.loop1, hs, hlt, hd, bind, Option.bind, decide_true, decide_false, if_true, if_false, pure,
    Bool.false_eq_true]
  simp only [bind, Option.bind, pure] at hc
  rw [hc]
  simp only [Bool.false_eq_true, if_false, h4, ht]

theorem loop1_near_conv (sz : UInt64) (ip : UInt32) (enc : Bool) (fuel : Nat) (D : Bytes) (st : UInt32) (pos : UInt64)
    (mask : UInt32) (p' : UInt64)
    (hs : fn_x86Convert.loop2 D sz (sz.toNat - pos.toNat + 1) pos = some p') (hlt : ¬ (p' ≥ sz)) (hd : ¬ (p' - pos > 2))
    (hc : genCond D p' (GoRt.shr32 mask (p' - pos).toNat) = some false)
    (b1 b2 b3 b4 : UInt8) (h1 : D[(p' + 1).toNat]? = some b1) (h2 : D[(p' + 2).toNat]? = some b2)
    (h3 : D[(p' + 3).toNat]? = some b3) (h4 : D[(p' + 4).toNat]? = some b4) (ht : fn_test86MSByte b4 = true)
    (l1 : (p' + 1).toNat < D.length) (l2 : (p' + 2).toNat < D.length) (l3 : (p' + 3).toNat < D.length)
    (l4 : (p' + 4).toNat < D.length) :
    fn_x86Convert.loop1 sz ip enc (fuel + 1) D st pos mask
      = fn_x86Convert.loop1 sz ip enc fuel
          (store4 D p' (genV enc (GoRt.shr32 mask (p' - pos).toNat) ip p' b1 b2 b3 b4)) st (p' + 5) 0 := by
  simp only [genCond] at hc
  simp only [fn_x86Convert.loop1, hs, hlt, hd, bind, Option.bind, decide_true, decide_false, if_true, if_false, pure,
    Bool.false_eq_true]
  simp only [bind, Option.bind, pure] at hc
  rw [hc]
  simp only [Bool.false_eq_true, if_false, h1, h2, h3, h4, ht, if_true, GoRt.setN, l1, l2, l3, l4, List.length_set]
  by_cases hm : GoRt.shr32 mask (p' - pos).toNat != 0
  · simp only [hm, if_true, store4, genV]
  · simp only [hm, Bool.false_eq_true, if_false, store4, genV]
    have : GoRt.shr32 mask (p' - pos).toNat = 0 := by simpa using hm
    rw [this]

theorem loop1_far_conv (sz : UInt64) (ip : UInt32) (enc : Bool) (fuel : Nat) (D : Bytes) (st : UInt32) (pos : UInt64)
    (mask : UInt32) (p' : UInt64)
    (hs : fn_x86Convert.loop2 D sz (sz.toNat - pos.toNat + 1) pos = some p') (hlt : ¬ (p' ≥ sz)) (hd : p' - pos > 2)
    (b1 b2 b3 b4 : UInt8) (h1 : D[(p' + 1).toNat]? = some b1) (h2 : D[(p' + 2).toNat]? = some b2)
    (h3 : D[(p' + 3).toNat]? = some b3) (h4 : D[(p' + 4).toNat]? = some b4) (ht : fn_test86MSByte b4 = true)
    (l1 : (p' + 1).toNat < D.length) (l2 : (p' + 2).toNat < D.length) (l3 : (p' + 3).toNat < D.length)
    (l4 : (p' + 4).toNat < D.length) :
    fn_x86Convert.loop1 sz ip enc (fuel + 1) D st pos mask
      = fn_x86Convert.loop1 sz ip enc fuel (store4 D p' (genV enc 0 ip p' b1 b2 b3 b4)) st (p' + 5) 0 := by
  simp only [fn_x86Convert.loop1, hs, hlt, hd, bind, Option.bind, decide_true, decide_false, if_true, if_false, pure,
    Bool.false_eq_true, h1, h2, h3, h4, ht, GoRt.setN, l1, l2, l3, l4, List.length_set]
  have : ((0 : UInt32) != 0) = false := by decide
  simp only [this, Bool.false_eq_true, if_false, store4, genV]

theorem loop1_far_noconv (sz : UInt64) (ip : UInt32) (enc : Bool) (fuel : Nat) (D : Bytes) (st : UInt32) (pos : UInt64)
    (mask : UInt32) (p' : UInt64)
    (hs : fn_x86Convert.loop2 D sz (sz.toNat - pos.toNat + 1) pos = some p') (hlt : ¬ (p' ≥ sz)) (hd : p' - pos > 2)
    (b4 : UInt8) (h4 : D[(p' + 4).toNat]? = some b4) (ht : fn_test86MSByte b4 = false) :
    fn_x86Convert.loop1 sz ip enc (fuel + 1) D st pos mask
      = fn_x86Convert.loop1 sz ip enc fuel D st (p' + 1) (((0 : UInt32) >>> 1) ||| 4) := by
  simp only [fn_x86Convert.loop1, hs, hlt, hd, bind, Option.bind, decide_true, decide_false, if_true, if_false, pure,
    Bool.false_eq_true, h4, ht]

theorem loop1_ret (sz : UInt64) (ip : UInt32) (enc : Bool) (fuel : Nat) (D : Bytes) (st : UInt32) (pos : UInt64)
    (mask : UInt32) (p' : UInt64)
    (hs : fn_x86Convert.loop2 D sz (sz.toNat - pos.toNat + 1) pos = some p') (hge : p' ≥ sz) :
    fn_x86Convert.loop1 sz ip enc (fuel + 1) D st pos mask = some (p', D, maskAfter mask (p' - pos)) := by
  simp only [fn_x86Convert.loop1, hs, hge, bind, Option.bind, decide_true, if_true, pure, maskAfter]
  by_cases hd : p' - pos > 2 <;> simp [hd]

/-! ### the generated expressions are the model's -/

theorem maskAfter_eq (mask : UInt32) (d : UInt64) : maskAfter mask d = X86.shiftMask mask d.toNat := by
  unfold maskAfter X86.shiftMask GoRt.shr32
  by_cases h : d > 2
  · have : d.toNat > 2 := by have := UInt64.lt_iff_toNat_lt.mp h; simpa using this
    simp [h, this]
  · have h' : ¬ (d.toNat > 2) := by
      intro hc; apply h; apply UInt64.lt_iff_toNat_lt.mpr; simpa using hc
    have : d.toNat < 32 := by omega
    simp [h, h', this]

theorem sh_lt (m : UInt32) : ((m &&& 6) <<< 2).toNat < 32 := by
  rw [UInt32.toNat_shiftLeft, UInt32.toNat_and]
  have h6 : (6 : UInt32).toNat = 6 := by decide
  have h2 : (2 : UInt32).toNat % 32 = 2 := by decide
  rw [h6, h2, Nat.shiftLeft_eq]
  have : m.toNat &&& 6 ≤ 6 := Nat.and_le_right
  omega

theorem shr32_sh (v m : UInt32) : GoRt.shr32 v (((m &&& 6) <<< 2).toUInt64).toNat = v >>> ((m &&& 6) <<< 2) := by
  unfold GoRt.shr32
  have h := sh_lt m
  have e : (((m &&& 6) <<< 2).toUInt64).toNat = ((m &&& 6) <<< 2).toNat := UInt32.toNat_toUInt64 _
  rw [e, if_pos h]
  congr 1
  apply UInt32.toNat_inj.mp
  rw [Nat.toUInt32, UInt32.toNat_ofNat']
  exact Nat.mod_eq_of_lt (by omega)

theorem shl32_sh (v m : UInt32) : GoRt.shl32 v (((m &&& 6) <<< 2).toUInt64).toNat = v <<< ((m &&& 6) <<< 2) := by
  unfold GoRt.shl32
  have h := sh_lt m
  have e : (((m &&& 6) <<< 2).toUInt64).toNat = ((m &&& 6) <<< 2).toNat := UInt32.toNat_toUInt64 _
  rw [e, if_pos h]
  congr 1
  apply UInt32.toNat_inj.mp
  rw [Nat.toUInt32, UInt32.toNat_ofNat']
  exact Nat.mod_eq_of_lt (by omega)

theorem genV_eq (enc : Bool) (m ip : UInt32) (pos : UInt64) (b1 b2 b3 b4 : UInt8) :
    genV enc m ip pos b1 b2 b3 b4 = X86.convValue enc m (ip + pos.toUInt32) (X86.word b1 b2 b3 b4) := by
  unfold genV X86.convValue X86.adj X86.word
  simp only [shr32_sh, shl32_sh]
  rfl

theorem mask_cases (m : UInt32) (h0 : m ≠ 0) (h4 : ¬ (m > 4)) (h3 : m ≠ 3) : m = 1 ∨ m = 2 ∨ m = 4 := by
  have a0 : m.toNat ≠ 0 := fun e => h0 (UInt32.toNat_inj.mp (by simpa using e))
  have a3 : m.toNat ≠ 3 := fun e => h3 (UInt32.toNat_inj.mp (by simpa using e))
  have a4 : ¬ (m.toNat > 4) := by
    intro hc; apply h4; apply UInt32.lt_iff_toNat_lt.mpr; simpa using hc
  have : m.toNat = 1 ∨ m.toNat = 2 ∨ m.toNat = 4 := by omega
  rcases this with h | h | h
  · left; exact UInt32.toNat_inj.mp (by simpa using h)
  · right; left; exact UInt32.toNat_inj.mp (by simpa using h)
  · right; right; exact UInt32.toNat_inj.mp (by simpa using h)

theorem genCond_eq (D : Bytes) (p : UInt64) (m : UInt32) (b1 b2 b3 b4 : UInt8)
    (h1 : D[p.toNat + 1]? = some b1) (h2 : D[p.toNat + 2]? = some b2) (h3 : D[p.toNat + 3]? = some b3)
    (hno : p.toNat + 4 < 2 ^ 64) :
    genCond D p m = some (X86.skip3 m b1 b2 b3 b4) := by
  unfold genCond X86.skip3
  by_cases h0 : m = 0
  · subst h0; simp
  · by_cases hbig : m > 4
    · simp [h0, hbig]
    · by_cases h3' : m = 3
      · subst h3'; simp
      · rcases mask_cases m h0 hbig h3' with rfl | rfl | rfl
        · have e : ((p + ((1 : UInt32) >>> 1).toUInt64) + 1).toNat = p.toNat + 1 := by
            have : ((1 : UInt32) >>> 1).toUInt64 = 0 := by decide
            rw [this, UInt64.add_zero]
            exact u64_add_toNat p 1 (by omega)
          have l : X86.lookahead 1 b1 b2 b3 b4 = b1 := by
            unfold X86.lookahead
            have : ((1 : UInt32) >>> 1).toNat = 0 := by decide
            rw [this]; rfl
          simp only [e, h1, l]
          rfl
        · have e : ((p + ((2 : UInt32) >>> 1).toUInt64) + 1).toNat = p.toNat + 2 := by
            have : ((2 : UInt32) >>> 1).toUInt64 = 1 := by decide
            rw [this, UInt64.add_assoc]
            exact u64_add_toNat p 2 (by omega)
          have l : X86.lookahead 2 b1 b2 b3 b4 = b2 := by
            unfold X86.lookahead
            have : ((2 : UInt32) >>> 1).toNat = 1 := by decide
            rw [this]; rfl
          simp only [e, h2, l]
          rfl
        · have e : ((p + ((4 : UInt32) >>> 1).toUInt64) + 1).toNat = p.toNat + 3 := by
            have : ((4 : UInt32) >>> 1).toUInt64 = 2 := by decide
            rw [this, UInt64.add_assoc]
            exact u64_add_toNat p 3 (by omega)
          have l : X86.lookahead 4 b1 b2 b3 b4 = b3 := by
            unfold X86.lookahead
            have : ((4 : UInt32) >>> 1).toNat = 2 := by decide
            rw [this]; rfl
          simp only [e, h3, l]
          rfl

/-! ### the outer loop and the whole function -/

theorem store4_eq (P tl : Bytes) (op b1 b2 b3 b4 : UInt8) (p : UInt64) (v : UInt32)
    (e1 : (p + 1).toNat = P.length + 1) (e2 : (p + 2).toNat = P.length + 2) (e3 : (p + 3).toNat = P.length + 3)
    (e4 : (p + 4).toNat = P.length + 4) :
    store4 (P ++ op :: b1 :: b2 :: b3 :: b4 :: tl) p v
      = P ++ op :: X86.st1 v :: X86.st2 v :: X86.st3 v :: X86.st4 v :: tl := by
  unfold store4
  rw [e1, e2, e3, e4]
  simp [X86.st1, X86.st2, X86.st3, X86.st4]

theorem u64_ofNat_toNat (p : UInt64) : UInt64.ofNat p.toNat = p := by
  apply UInt64.toNat_inj.mp
  rw [UInt64.toNat_ofNat']
  exact Nat.mod_eq_of_lt p.toNat_lt

theorem toUInt32_ofNat (p : UInt64) : p.toUInt32 = UInt32.ofNat p.toNat := by
  apply UInt32.toNat_inj.mp
  rw [UInt64.toNat_toUInt32, UInt32.toNat_ofNat']

theorem exists_five (l : Bytes) (h : 5 ≤ l.length) : ∃ a b c d e tl, l = a :: b :: c :: d :: e :: tl := by
  match l, h with
  | a :: b :: c :: d :: e :: tl, _ => exact ⟨a, b, c, d, e, tl, rfl⟩

theorem drop5 (P tl : Bytes) (a b c d e : UInt8) (q : Nat) (h : P.length = q) :
    (P ++ a :: b :: c :: d :: e :: tl).drop (q + 5) = tl := by
  subst h
  simp

theorem take5 (P tl : Bytes) (a b c d e : UInt8) (q : Nat) (h : P.length = q) :
    (P ++ a :: b :: c :: d :: e :: tl).take (q + 5) = P ++ [a, b, c, d, e] := by
  subst h
  rw [List.take_append]
  simp
  exact List.take_of_length_le (by omega)

theorem scan_zero (rest : Bytes) : X86.scan rest 0 = 0 := by
  cases rest <;> simp [X86.scan]

/-- the triple the generated loop returns, in terms of the model's result on the suffix -/
def pack (D : Bytes) (pos : Nat) (r : X86.LoopResult) : UInt64 × Bytes × UInt32 :=
  (UInt64.ofNat r.2.1, D.take pos ++ r.1, r.2.2)

/-- one pass of the outer loop: if the following passes (at any later position, on any buffer of the
    same length) agree, this pass agrees -/
theorem pass_tie (sz : UInt64) (ip : UInt32) (enc : Bool) (N : Nat) (hN : N < 2 ^ 64) (hsz : sz.toNat + 4 = N)
    (g m : Nat) (D : Bytes) (pos : UInt64) (mask st : UInt32) (hD : D.length = N) (hpos : pos.toNat ≤ N)
    (ih : ∀ (D' : Bytes) (pos' : UInt64) (mask' : UInt32), D'.length = N → pos'.toNat ≤ N → pos.toNat < pos'.toNat →
      fn_x86Convert.loop1 sz ip enc g D' st pos' mask' =
        some (pack D' pos'.toNat (X86.loopF enc ip m pos'.toNat mask' (D'.drop pos'.toNat)))) :
    fn_x86Convert.loop1 sz ip enc (g + 1) D st pos mask =
      some (pack D pos.toNat (X86.loopF enc ip (m + 1) pos.toNat mask (D.drop pos.toNat))) := by
  have hlim : (D.drop pos.toNat).length - 4 = sz.toNat - pos.toNat := by simp; omega
  -- the scan
  have hscan : ∃ p', fn_x86Convert.loop2 D sz (sz.toNat - pos.toNat + 1) pos = some p' ∧
      p'.toNat = pos.toNat + X86.scan (D.drop pos.toNat) (sz.toNat - pos.toNat) := by
    by_cases hle : pos.toNat ≤ sz.toNat
    · exact scan_tie D sz (by omega) (by omega) (sz.toNat - pos.toNat) pos _ (by omega) (by omega)
    · have e : sz.toNat - pos.toNat = 0 := by omega
      rw [e, scan_zero]
      refine ⟨pos, scan_stop D sz 0 pos ?_, by omega⟩
      rw [UInt64.lt_iff_toNat_lt]; omega
  obtain ⟨p', hp1, hp2⟩ := hscan
  have hdle := X86.scan_le_lim (D.drop pos.toNat) (sz.toNat - pos.toNat)
  simp only [X86.loopF, X86.loopBody, hlim]
  generalize hdd : X86.scan (D.drop pos.toNat) (sz.toNat - pos.toNat) = d at hp2 hdle ⊢
  have hple : pos ≤ p' := by rw [UInt64.le_iff_toNat_le]; omega
  have hdsub : (p' - pos).toNat = d := by rw [UInt64.toNat_sub_of_le _ _ hple]; omega
  have hp'eq : UInt64.ofNat (pos.toNat + d) = p' := by rw [← hp2]; exact u64_ofNat_toNat p'
  by_cases hret : d ≥ sz.toNat - pos.toNat
  · -- `if p >= size { *state = …; return pos }`
    have hge : p' ≥ sz := by show sz ≤ p'; rw [UInt64.le_iff_toNat_le]; omega
    rw [loop1_ret sz ip enc g D st pos mask p' hp1 hge, if_pos hret]
    simp only [pack, hp'eq, List.take_append_drop, maskAfter_eq, hdsub]
  · rw [if_neg hret]
    have hlt : ¬ (p' ≥ sz) := by
      intro hc; have : sz ≤ p' := hc; rw [UInt64.le_iff_toNat_le] at this; omega
    -- the opcode and the four bytes behind it
    have h5 : 5 ≤ (D.drop (pos.toNat + d)).length := by simp; omega
    obtain ⟨op, b1, b2, b3, b4, tl, hdrop⟩ := exists_five _ h5
    have hrd : (D.drop pos.toNat).drop d = op :: b1 :: b2 :: b3 :: b4 :: tl := by
      rw [List.drop_drop]; exact hdrop
    simp only [hrd]
    have e1 : (p' + 1).toNat = pos.toNat + d + 1 := by rw [← hp2]; exact u64_add_toNat p' 1 (by omega)
    have e2 : (p' + 2).toNat = pos.toNat + d + 2 := by rw [← hp2]; exact u64_add_toNat p' 2 (by omega)
    have e3 : (p' + 3).toNat = pos.toNat + d + 3 := by rw [← hp2]; exact u64_add_toNat p' 3 (by omega)
    have e4 : (p' + 4).toNat = pos.toNat + d + 4 := by rw [← hp2]; exact u64_add_toNat p' 4 (by omega)
    have e5 : (p' + 5).toNat = pos.toNat + d + 5 := by rw [← hp2]; exact u64_add_toNat p' 5 (by omega)
    have hk : ∀ k, D[pos.toNat + d + k]? = (op :: b1 :: b2 :: b3 :: b4 :: tl)[k]? := by
      intro k; rw [← hdrop, List.getElem?_drop]
    have g1 : D[pos.toNat + d + 1]? = some b1 := by rw [hk]; rfl
    have g2 : D[pos.toNat + d + 2]? = some b2 := by rw [hk]; rfl
    have g3 : D[pos.toNat + d + 3]? = some b3 := by rw [hk]; rfl
    have g4 : D[pos.toNat + d + 4]? = some b4 := by rw [hk]; rfl
    have hDsplit : D = D.take (pos.toNat + d) ++ op :: b1 :: b2 :: b3 :: b4 :: tl := by
      rw [← hdrop, List.take_append_drop]
    have htake1 : D.take (pos.toNat + d + 1) = D.take pos.toNat ++ ((D.drop pos.toNat).take d ++ [op]) := by
      rw [← List.append_assoc, ← List.take_add, List.take_succ_eq_append_getElem (by omega)]
      congr 2
      have := g1
      have h0 : D[pos.toNat + d]? = some op := by have := hk 0; simpa using this
      rw [List.getElem?_eq_getElem (by omega)] at h0
      exact Option.some.inj h0
    have hdrop1 : D.drop (pos.toNat + d + 1) = b1 :: b2 :: b3 :: b4 :: tl := by
      have : (D.drop (pos.toNat + d)).drop 1 = b1 :: b2 :: b3 :: b4 :: tl := by rw [hdrop]; rfl
      rw [List.drop_drop] at this; exact this
    -- continuing one byte further (the two `pos++` paths)
    have hnext1 : ∀ (M : UInt32), fn_x86Convert.loop1 sz ip enc g D st (p' + 1) M =
        some (pack D pos.toNat
          ((D.drop pos.toNat).take d ++ op :: (X86.loopF enc ip m (pos.toNat + d + 1) M (b1 :: b2 :: b3 :: b4 :: tl)).1,
           (X86.loopF enc ip m (pos.toNat + d + 1) M (b1 :: b2 :: b3 :: b4 :: tl)).2)) := by
      intro M
      rw [ih D (p' + 1) M hD (by omega) (by omega), e1, hdrop1]
      simp only [pack, htake1, List.append_assoc, List.singleton_append]
    -- continuing behind a converted operand (`pos += 5`, `mask = 0`)
    have hPlen : (D.take (pos.toNat + d)).length = pos.toNat + d := by simp; omega
    have hconv : ∀ (M : UInt32), fn_x86Convert.loop1 sz ip enc g (store4 D p' (genV enc M ip p' b1 b2 b3 b4)) st (p' + 5) 0 =
        some (pack D pos.toNat
          ((D.drop pos.toNat).take d ++ op ::
              X86.st1 (X86.convValue enc M (ip + UInt32.ofNat (pos.toNat + d)) (X86.word b1 b2 b3 b4)) ::
              X86.st2 (X86.convValue enc M (ip + UInt32.ofNat (pos.toNat + d)) (X86.word b1 b2 b3 b4)) ::
              X86.st3 (X86.convValue enc M (ip + UInt32.ofNat (pos.toNat + d)) (X86.word b1 b2 b3 b4)) ::
              X86.st4 (X86.convValue enc M (ip + UInt32.ofNat (pos.toNat + d)) (X86.word b1 b2 b3 b4)) ::
              (X86.loopF enc ip m (pos.toNat + d + 5) 0 tl).1,
           (X86.loopF enc ip m (pos.toNat + d + 5) 0 tl).2)) := by
      intro M
      have hv : genV enc M ip p' b1 b2 b3 b4 = X86.convValue enc M (ip + UInt32.ofNat (pos.toNat + d)) (X86.word b1 b2 b3 b4) := by
        rw [genV_eq, toUInt32_ofNat, hp2]
      rw [hv]
      generalize X86.convValue enc M (ip + UInt32.ofNat (pos.toNat + d)) (X86.word b1 b2 b3 b4) = v
      have hst : store4 D p' v = D.take (pos.toNat + d) ++ op :: X86.st1 v :: X86.st2 v :: X86.st3 v :: X86.st4 v :: tl := by
        have := store4_eq (D.take (pos.toNat + d)) tl op b1 b2 b3 b4 p' v
          (by rw [e1, hPlen]) (by rw [e2, hPlen]) (by rw [e3, hPlen]) (by rw [e4, hPlen])
        rw [← hDsplit] at this
        exact this
      have hlen'' : (store4 D p' v).length = N := by
        rw [hst]; simp only [List.length_append, List.length_cons, hPlen]
        have := congrArg List.length hdrop
        simp at this; omega
      rw [ih (store4 D p' v) (p' + 5) 0 hlen'' (by omega) (by omega), e5, hst]
      rw [drop5 _ _ _ _ _ _ _ _ hPlen]
      simp only [pack]
      rw [take5 _ _ _ _ _ _ _ _ hPlen]
      have hP : D.take (pos.toNat + d) = D.take pos.toNat ++ (D.drop pos.toNat).take d := List.take_add
      rw [hP]
      simp
    by_cases hd2 : p' - pos > 2
    · -- `if d > 2 { mask = 0 }`
      have hdn : d > 2 := by have := UInt64.lt_iff_toNat_lt.mp hd2; rw [hdsub] at this; simpa using this
      have hsm : X86.shiftMask mask d = 0 := by simp [X86.shiftMask, hdn]
      have hnle : ¬ (d ≤ 2) := by omega
      simp only [hsm, hnle, decide_false, Bool.false_and, Bool.false_eq_true, if_false]
      by_cases ht : X86.test86MSByte b4 = true
      · have ht' : fn_test86MSByte b4 = true := by rw [← test86MSByte_tie]; exact ht
        rw [loop1_far_conv sz ip enc g D st pos mask p' hp1 hlt hd2 b1 b2 b3 b4
          (by rw [e1]; exact g1) (by rw [e2]; exact g2) (by rw [e3]; exact g3) (by rw [e4]; exact g4) ht'
          (by omega) (by omega) (by omega) (by omega), hconv 0]
        simp only [ht, if_true]
      · have ht' : fn_test86MSByte b4 = false := by simpa [← test86MSByte_tie] using ht
        rw [loop1_far_noconv sz ip enc g D st pos mask p' hp1 hlt hd2 b4 (by rw [e4]; exact g4) ht', hnext1]
        simp only [ht, Bool.false_eq_true, if_false]
    · -- `else { mask >>= d; if mask != 0 && (…) { …; continue } }`
      have hdn : d ≤ 2 := by
        have : ¬ ((2 : UInt64).toNat < (p' - pos).toNat) := fun hc => hd2 (UInt64.lt_iff_toNat_lt.mpr hc)
        rw [hdsub] at this; simpa using this
      have hm : GoRt.shr32 mask (p' - pos).toNat = X86.shiftMask mask d := by
        have := maskAfter_eq mask (p' - pos)
        rw [hdsub] at this
        rw [← this]; simp [maskAfter, hd2]
      have hc := genCond_eq D p' (X86.shiftMask mask d) b1 b2 b3 b4
        (by rw [hp2]; exact g1) (by rw [hp2]; exact g2) (by rw [hp2]; exact g3) (by omega)
      rw [← hm] at hc
      simp only [hdn, decide_true, Bool.true_and]
      by_cases hsk : X86.skip3 (X86.shiftMask mask d) b1 b2 b3 b4 = true
      · rw [hm, hsk] at hc
        rw [loop1_near_skip sz ip enc g D st pos mask p' hp1 hlt hd2 (by rw [hm]; exact hc), hm, hnext1]
        simp only [hsk, if_true]
      · have hsk' : X86.skip3 (X86.shiftMask mask d) b1 b2 b3 b4 = false := by simpa using hsk
        rw [hm, hsk'] at hc
        simp only [hsk', Bool.false_eq_true, if_false]
        by_cases ht : X86.test86MSByte b4 = true
        · have ht' : fn_test86MSByte b4 = true := by rw [← test86MSByte_tie]; exact ht
          rw [loop1_near_conv sz ip enc g D st pos mask p' hp1 hlt hd2 (by rw [hm]; exact hc) b1 b2 b3 b4
            (by rw [e1]; exact g1) (by rw [e2]; exact g2) (by rw [e3]; exact g3) (by rw [e4]; exact g4) ht'
            (by omega) (by omega) (by omega) (by omega), hm, hconv]
          simp only [ht, if_true]
        · have ht' : fn_test86MSByte b4 = false := by simpa [← test86MSByte_tie] using ht
          rw [loop1_near_noconv sz ip enc g D st pos mask p' hp1 hlt hd2 (by rw [hm]; exact hc) b4
            (by rw [e4]; exact g4) ht', hm, hnext1]
          simp only [ht, Bool.false_eq_true, if_false]

/-- **the outer loop of `x86Convert` as translated from the source = the model's loop on the suffix**
    (same returned position, same buffer, same final state), for every buffer, cursor and mask -/
theorem loop_tie (sz : UInt64) (ip : UInt32) (enc : Bool) (N : Nat) (hN : N < 2 ^ 64) (hsz : sz.toNat + 4 = N)
    (st : UInt32) :
    ∀ (n : Nat) (D : Bytes) (pos : UInt64) (mask : UInt32) (fuelG fuelM : Nat),
      D.length = N → pos.toNat ≤ N → N - pos.toNat ≤ n → n < fuelG → n < fuelM →
      fn_x86Convert.loop1 sz ip enc fuelG D st pos mask =
        some (pack D pos.toNat (X86.loopF enc ip fuelM pos.toNat mask (D.drop pos.toNat))) := by
  intro n
  induction n with
  | zero =>
    intro D pos mask fuelG fuelM hD hpos hn hg hm
    obtain ⟨g, rfl⟩ : ∃ g, fuelG = g + 1 := ⟨fuelG - 1, by omega⟩
    obtain ⟨m, rfl⟩ : ∃ m, fuelM = m + 1 := ⟨fuelM - 1, by omega⟩
    apply pass_tie sz ip enc N hN hsz g m D pos mask st hD hpos
    intro D' pos' mask' _ hp' hlt
    omega
  | succ n ih =>
    intro D pos mask fuelG fuelM hD hpos hn hg hm
    obtain ⟨g, rfl⟩ : ∃ g, fuelG = g + 1 := ⟨fuelG - 1, by omega⟩
    obtain ⟨m, rfl⟩ : ∃ m, fuelM = m + 1 := ⟨fuelM - 1, by omega⟩
    apply pass_tie sz ip enc N hN hsz g m D pos mask st hD hpos
    intro D' pos' mask' hD' hp' hlt
    exact ih D' pos' mask' g m hD' hp' (by omega) (by omega) (by omega)

/-- **`x86Convert` as translated from the source on every run equals the model `X86.x86Convert`** (the
    function whose decode∘encode = id is proved in X86Loop.lean / Props/C08.lean): called as fiano calls
    it, with `size = len(data)`, it returns the model's position, leaves the model's bytes in the buffer
    and the model's value in `*state` — for every buffer (shorter than 2^64 bytes), start address, state
    and direction; it never indexes out of range and needs at most `len(data) + 1` passes. -/
theorem x86Convert_tie (data : Bytes) (ip state : UInt32) (enc : Bool) (hlen : data.length < 2 ^ 64) :
    fn_x86Convert data (UInt64.ofNat data.length) ip state enc =
      some (UInt64.ofNat (X86.x86Convert data ip state enc).pos, (X86.x86Convert data ip state enc).data,
        (X86.x86Convert data ip state enc).state) := by
  unfold fn_x86Convert X86.x86Convert
  have hsize : (UInt64.ofNat data.length).toNat = data.length := by
    rw [UInt64.toNat_ofNat']; exact Nat.mod_eq_of_lt hlen
  by_cases h5 : data.length < 5
  · have : UInt64.ofNat data.length < 5 := by
      rw [UInt64.lt_iff_toNat_lt, hsize]; exact h5
    simp [h5, this]
  · have hn5 : ¬ (UInt64.ofNat data.length < 5) := by
      rw [UInt64.lt_iff_toNat_lt, hsize]; exact h5
    have hle : (4 : UInt64) ≤ UInt64.ofNat data.length := by
      rw [UInt64.le_iff_toNat_le, hsize]
      have : (4 : UInt64).toNat = 4 := by decide
      omega
    have hsz : (UInt64.ofNat data.length - 4).toNat + 4 = data.length := by
      rw [UInt64.toNat_sub_of_le _ _ hle, hsize]
      have : (4 : UInt64).toNat = 4 := by decide
      omega
    have hfuel : ((data.length : Int) + 1).toNat = data.length + 1 := by omega
    have := loop_tie (UInt64.ofNat data.length - 4) (ip + 5) enc data.length hlen hsz state data.length data 0 (state &&& 7)
      (data.length + 1) (data.length + 1) rfl (by simp) (by simp) (by omega) (by omega)
    simp only [hn5, h5, decide_false, Bool.false_eq_true, if_false, hfuel, this, X86.loop, pack]
    simp

/-- the length hypothesis of `x86Convert_tie` is satisfiable (and true of every Go slice) -/
example : ([0xE8, 0, 0, 0, 0, 1] : Bytes).length < 2 ^ 64 := by decide

/-- **Corollary on the code itself.**  The Go routine as it is written today (translated on this run),
    run as encoder and then as decoder on its own output with the same start address and state,
    restores every byte of every input, returns the same position and leaves the same `*state` —
    `c08_x86_decode_encode_general` transported from the model to the regenerated code. -/
theorem x86_code_decode_encode (d : Bytes) (ip state : UInt32) (hlen : d.length < 2 ^ 64) :
    ∃ (pos : UInt64) (e : Bytes) (st : UInt32),
      fn_x86Convert d (UInt64.ofNat d.length) ip state true = some (pos, e, st) ∧
      fn_x86Convert e (UInt64.ofNat e.length) ip state false = some (pos, d, st) := by
  have hl := X86.x86Convert_length d ip state true
  refine ⟨_, _, _, x86Convert_tie d ip state true hlen, ?_⟩
  rw [x86Convert_tie _ ip state false (by rw [hl]; exact hlen), X86.x86Convert_inverse]

end Fiano.Compress.CodeTie
