/-
  T1 tie for pkg/compression: the constants, literal sets and call shapes the model relies on are
  compared with the facts regenerated from the Go source (FianoModel/Gen/Compression.lean) on
  every build.  x86.go has no tables; its state machine is tied by the exhaustive correspondence
  run (T2), and here by the set of integer literals of the routine and the shape of its two call
  sites.
-/
import FianoModel.Compress.Framing
import FianoModel.Gen.Compression

namespace Fiano.Compress
open Fiano.Gen

/-! ### zlib.go -/

theorem tie_zlib_header_size : zlibSectionHeaderSize = Compression.zlibSectionHeaderSize := by decide
theorem tie_zlib_size_offset : zlibSizeOffset = Compression.zlibSizeOffset := by decide

/-- `ZLIB.Decode` uses exactly two literals: the length check `len < 256` (which must be the
    header size) and the width 4 of the size field -/
theorem tie_zlib_decode_literals :
    Compression.intlits_ZLIB_Decode = [4, Compression.zlibSectionHeaderSize] := by decide

/-- the size is read little endian from `[zlibSizeOffset, zlibSizeOffset+4)` -/
theorem tie_zlib_decode_size_read : Compression.callshape_ZLIB_Decode_binary_LittleEndian_Uint32 =
    ["binary.LittleEndian.Uint32(_[zlibSizeOffset : zlibSizeOffset+4])"] := by decide

/-- the size written is the 32-bit length of the compressed payload, little endian, at
    `zlibSizeOffset`; `Encode` has no literal of its own -/
theorem tie_zlib_encode_size_write : Compression.callshape_ZLIB_Encode_binary_LittleEndian_PutUint32 =
    ["binary.LittleEndian.PutUint32(_[zlibSizeOffset:], uint32(len(_.Bytes())))"] ∧
    Compression.intlits_ZLIB_Encode = [] := by decide

/-- the output is header followed by the whole payload -/
theorem tie_zlib_encode_append :
    Compression.callshape_ZLIB_Encode_append = ["append(_, _.Bytes()[:]...)"] := by decide

/-! ### lzma.go / systemlzma.go -/

/-- the dictionary exponent of the model is `lzmaDictCapExps[compressionLevel]` -/
theorem tie_lzma_dict :
    Compression.lzmaDictCapExps[Compression.compressionLevel]? = some lzmaDictExp := by decide

/-- literals of (the repaired) `LZMA.Encode`: empty-input test 0, `1 <<`, `LC: 3, LP: 0, PB: 2`,
    and the size patch `[5:5+8]` -/
theorem tie_lzma_encode_literals : Compression.intlits_LZMA_Encode = [0, 1, 2, 3, lzmaSizeOffset, 8] := by
  decide

theorem tie_lzma_encode_patch : Compression.callshape_LZMA_Encode_binary_LittleEndian_PutUint64 =
    ["binary.LittleEndian.PutUint64(_[5:5+8], uint64(len(_)))"] := by decide

/-- `SystemLZMA.Encode`: `xz --format=lzma -7 --stdout`, then the 64-bit little-endian input
    length copied to `[5, 5+8)`; 5 + 8 is the header length of the model -/
theorem tie_syslzma_command : Compression.callshape_SystemLZMA_Encode_exec_Command =
    ["exec.Command(_.xzPath, \"--format=lzma\", \"-7\", \"--stdout\")"] := by decide

theorem tie_syslzma_patch :
    Compression.intlits_SystemLZMA_Encode = [lzmaSizeOffset, 8] ∧
    lzmaSizeOffset + 8 = lzmaHeaderLen ∧
    Compression.callshape_SystemLZMA_Encode_binary_Write =
      ["binary.Write(_, binary.LittleEndian, uint64(len(_)))"] ∧
    Compression.callshape_SystemLZMA_Encode_copy = ["copy(_[5:5+8], _.Bytes())"] := by decide

/-! ### x86.go -/

/-- the integer literals of `x86Convert` (as a set): `& 7`, `size < 5`, `-= 4`, `+= 5`, `0xFE`,
    `0xE8`, `d > 2`, `mask > 4`, `== 3`, `>> 1`, `| 4`, shifts 8/16/24, `& 6`, `<< 2`, `0x100` -/
theorem tie_x86_literals : Compression.intlits_x86Convert =
    [0, 1, 2, 3, 4, 5, 6, 7, 8, 16, 24, 0xE8, 0xFE, 0x100] := by decide

theorem tie_test86_literals : Compression.intlits_test86MSByte = [0, 1, 0xFE] := by decide

/-- both call sites run the filter over the whole buffer with `ip = 0` and a fresh (zero) state;
    `Encode` passes `true`, `Decode` passes `false` — as `lzmax86Encode` / `lzmax86Decode` do -/
theorem tie_x86_call_sites :
    Compression.callshape_LZMAX86_Encode_x86Convert = ["x86Convert(_, uint(len(_)), 0, &_, true)"] ∧
    Compression.callshape_LZMAX86_Decode_x86Convert = ["x86Convert(_, uint(len(_)), 0, &_, false)"] := by
  decide

end Fiano.Compress
