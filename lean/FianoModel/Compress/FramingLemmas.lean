/-
  Lemmas about the framing fiano adds around the compression cores (model: Compress/Framing.lean).
-/
import FianoModel.Compress.Framing
import FianoModel.Compress.X86Loop

namespace Fiano.Compress

theorem drop_prefix (h z : Bytes) (n : Nat) (hl : h.length = n) : (h ++ z).drop n = z := by
  subst hl; simp

/-! ### ZLIB section header -/

theorem zlibHeader_length (n : Nat) : (zlibHeader n).length = 256 := by
  simp only [zlibHeader, List.length_append, List.length_replicate, leN_length, zlibSizeOffset,
    zlibSectionHeaderSize]

theorem zlibHeader_length' (n : Nat) : (zlibHeader n).length = zlibSectionHeaderSize :=
  zlibHeader_length n

theorem zlibHeader_size (n : Nat) (z : Bytes) : slice (zlibHeader n ++ z) 20 4 = leN 4 n := by
  unfold zlibHeader
  rw [List.append_assoc]
  exact slice_mid _ _ _ 20 4 (by simp only [List.length_replicate, zlibSizeOffset]) (by simp)

theorem zlibHeader_zero (n : Nat) (i : Nat) (hi : i < 256) (h : i < 20 ∨ 24 ≤ i) :
    (zlibHeader n)[i]? = some 0 := by
  unfold zlibHeader
  have h20 : (List.replicate zlibSizeOffset (0 : UInt8)).length = 20 := by
    simp only [List.length_replicate, zlibSizeOffset]
  have h24 : (List.replicate zlibSizeOffset (0 : UInt8) ++ leN 4 n).length = 24 := by
    rw [List.length_append, h20, leN_length]
  have h232 : zlibSectionHeaderSize - zlibSizeOffset - 4 = 232 := by
    simp only [zlibSizeOffset, zlibSectionHeaderSize]
  rcases h with h | h
  · rw [List.append_assoc, List.getElem?_append_left (by rw [h20]; exact h), List.getElem?_replicate,
      if_pos (by simp only [zlibSizeOffset]; exact h)]
  · rw [List.getElem?_append_right (by rw [h24]; exact h), List.getElem?_replicate, h24, h232,
      if_pos (by omega)]

theorem zlibEncode_ok (core : Codec) (x y : Bytes) (h : zlibEncode core x = .ok y) :
    ∃ z, core.enc x = .ok z ∧ y = zlibHeader z.length ++ z := by
  unfold zlibEncode at h
  split at h
  · rename_i z hz
    simp only [Res.ok.injEq] at h
    exact ⟨z, hz, h.symm⟩
  · cases h
  · cases h

theorem zlibDecode_frame (core : Codec) (z : Bytes) :
    zlibDecode core (zlibHeader z.length ++ z) = core.dec z := by
  have hl : (zlibHeader z.length ++ z).length = 256 + z.length := by
    rw [List.length_append, zlibHeader_length]
  have e2 : (256 : Nat) ^ 4 = 2 ^ 32 := by decide
  have hsz : fromLE (slice (zlibHeader z.length ++ z) zlibSizeOffset 4) =
      ((zlibHeader z.length ++ z).length - zlibSectionHeaderSize) % 2 ^ 32 := by
    show fromLE (slice (zlibHeader z.length ++ z) 20 4) = ((zlibHeader z.length ++ z).length - 256) % 2 ^ 32
    have e : 256 + z.length - 256 = z.length := by omega
    rw [zlibHeader_size, fromLE_leN, hl, e2, e]
  have hdrop : (zlibHeader z.length ++ z).drop zlibSectionHeaderSize = z :=
    drop_prefix (zlibHeader z.length) z zlibSectionHeaderSize (zlibHeader_length' z.length)
  unfold zlibDecode
  rw [if_neg (by omega), if_neg (fun h => h hsz), hdrop]

/-! ### size patched into the .lzma header -/

theorem patchSize_ok (out : Bytes) (n : Nat) (h : 13 ≤ out.length) :
    patchSize out n = .ok (splice out 5 (leN 8 n)) := by
  unfold patchSize
  by_cases h' : out.length < lzmaHeaderLen
  · simp only [lzmaHeaderLen] at h'; omega
  · rw [if_neg h']; rfl

theorem lzmaSizedEncode_ok (core : Codec) (x y : Bytes) (h : lzmaSizedEncode core x = .ok y) :
    ∃ out, core.enc x = .ok out ∧ 13 ≤ out.length ∧ y = splice out 5 (leN 8 x.length) := by
  unfold lzmaSizedEncode at h
  split at h
  · rename_i out ho
    by_cases h' : out.length < 13
    · unfold patchSize at h
      rw [if_pos (by simp only [lzmaHeaderLen]; exact h')] at h
      cases h
    · rw [patchSize_ok out _ (by omega)] at h
      simp only [Res.ok.injEq] at h
      exact ⟨out, ho, by omega, h.symm⟩
  · cases h
  · cases h

/-- what the Go decoder must accept for the patched stream to be usable: the encoder's output has
    a full header, and the decoder maps the stream *with the true size written into bytes 5..12*
    back to the input.  This is a law about the third-party encoder/decoder pair (xz's output with
    end marker and "unknown" size vs. the ulikunitz/xz reader), assumed, checked by T2 only. -/
def PatchCompatible (core : Codec) : Prop :=
  ∀ x out, core.enc x = .ok out →
    13 ≤ out.length ∧ core.dec (splice out 5 (leN 8 x.length)) = some x

theorem hdr13_patchCompatible : PatchCompatible hdr13 := by
  intro x out h
  simp only [hdr13, Res.ok.injEq] at h
  subst h
  have hlen : (0x5D :: leN 4 (2 ^ 24) ++ List.replicate 8 0xFF ++ x).length = 13 + x.length := by
    simp only [List.cons_append, List.length_cons, List.length_append, leN_length, List.length_replicate]
    omega
  refine ⟨by omega, ?_⟩
  -- the patched stream is  header[0..5) ++ LE64 |x| ++ x
  have hs : splice (0x5D :: leN 4 (2 ^ 24) ++ List.replicate 8 0xFF ++ x) 5 (leN 8 x.length) =
      (0x5D :: leN 4 (2 ^ 24)) ++ leN 8 x.length ++ x := by
    unfold splice
    have h5 : (0x5D :: leN 4 (2 ^ 24) : Bytes).length = 5 := by simp
    have h13 : (0x5D :: leN 4 (2 ^ 24) ++ List.replicate 8 (0xFF : UInt8)).length = 5 + (leN 8 x.length).length := by
      simp
    rw [List.append_assoc (0x5D :: leN 4 (2 ^ 24)), List.take_append_of_le_length (by omega), ← h5,
      List.take_length, ← List.append_assoc (0x5D :: leN 4 (2 ^ 24)), h5,
      List.drop_append_of_le_length (by omega), ← h13, List.drop_length]
    rfl
  rw [hs]
  have hl2 : ((0x5D :: leN 4 (2 ^ 24)) ++ leN 8 x.length ++ x).length = 13 + x.length := by
    simp only [List.cons_append, List.length_cons, List.length_append, leN_length]
    omega
  have h58 : slice ((0x5D :: leN 4 (2 ^ 24)) ++ leN 8 x.length ++ x) 5 8 = leN 8 x.length :=
    slice_mid _ _ _ 5 8 (by simp) (by simp)
  have hd : ((0x5D :: leN 4 (2 ^ 24)) ++ leN 8 x.length ++ x).drop 13 = x := by
    have : ((0x5D :: leN 4 (2 ^ 24)) ++ leN 8 x.length).length = 13 := by simp
    rw [List.drop_append_of_le_length (by omega), ← this, List.drop_length]
    rfl
  have e2 : (256 : Nat) ^ 8 = 2 ^ 64 := by decide
  have hsz : fromLE (slice ((0x5D :: leN 4 (2 ^ 24)) ++ leN 8 x.length ++ x) 5 8) =
      (((0x5D :: leN 4 (2 ^ 24)) ++ leN 8 x.length ++ x).length - 13) % 2 ^ 64 := by
    have e : 13 + x.length - 13 = x.length := by omega
    rw [h58, hl2, fromLE_leN, e2, e]
  simp only [hdr13]
  rw [if_neg (by omega), if_pos (Or.inr hsz), hd]

end Fiano.Compress
