/-
  Model of pkg/compression/x86.go: the x86 branch (BCJ) filter `x86Convert` and `test86MSByte`,
  transcribed statement by statement.  Core Lean only.

  Representation.  The Go routine works in place on `data []byte` with the cursor `pos`; it never
  reads or writes `data[i]` for `i < pos` again.  The model therefore carries the not yet
  processed suffix `rest = data[pos:]` together with the absolute `pos` (needed for
  `cur = ip + uint32(pos)`), and returns the processed suffix.  `size` is always `len(data)` in
  fiano (both call sites pass `uint(len(data))`); after `size -= 4` the loop bound `size - pos` is
  `rest.length - 4`.  `mask`, `v`, `cur`, `ip`, `*state` are `uint32` in Go and `UInt32` here
  (wrapping arithmetic); `pos`, `p`, `d`, `size` are `uint` (64 bit, never wrap for data that fits
  in memory) and `Nat` here; `uint32(pos)` is `UInt32.ofNat pos` (truncating).
-/
import FianoModel.Base.Bytes

namespace Fiano.Compress.X86

/-- `func test86MSByte(b byte) bool { return (b+1)&0xFE == 0 }` -/
def test86MSByte (b : UInt8) : Bool := (b + 1) &&& 0xFE == 0

/-- `data[p]&0xFE == 0xE8` -/
def isOpcode (b : UInt8) : Bool := b &&& 0xFE == 0xE8

/-- `v := (uint32(data[p+4]) << 24) + (uint32(data[p+3]) << 16) + (uint32(data[p+2]) << 8) + uint32(data[p+1])` -/
def word (b1 b2 b3 b4 : UInt8) : UInt32 :=
  (b4.toUInt32 <<< 24) + (b3.toUInt32 <<< 16) + (b2.toUInt32 <<< 8) + b1.toUInt32

/-- `if encoding { v += cur } else { v -= cur }` -/
def adj (encoding : Bool) (v cur : UInt32) : UInt32 := if encoding then v + cur else v - cur

/-- the statements between `pos += 5` and the four stores: the value `v` finally stored.
    ```
    if encoding { v += cur } else { v -= cur }
    if mask != 0 {
        sh := uint((mask & 6) << 2)
        if test86MSByte(uint8(v >> sh)) {
            v ^= (uint32(0x100) << sh) - 1
            if encoding { v += cur } else { v -= cur }
        }
        mask = 0
    }
    ``` -/
def convValue (encoding : Bool) (mask cur v : UInt32) : UInt32 :=
  let v := adj encoding v cur
  if mask != 0 then
    let sh := (mask &&& 6) <<< 2
    if test86MSByte (v >>> sh).toUInt8 then
      adj encoding (v ^^^ (((0x100 : UInt32) <<< sh) - 1)) cur
    else v
  else v

/-- `data[p+1] = uint8(v)` -/
def st1 (v : UInt32) : UInt8 := v.toUInt8
/-- `data[p+2] = uint8(v >> 8)` -/
def st2 (v : UInt32) : UInt8 := (v >>> 8).toUInt8
/-- `data[p+3] = uint8(v >> 16)` -/
def st3 (v : UInt32) : UInt8 := (v >>> 16).toUInt8
/-- `data[p+4] = uint8(0 - ((v >> 24) & 1))` -/
def st4 (v : UInt32) : UInt8 := ((0 : UInt32) - ((v >>> 24) &&& 1)).toUInt8

/-- `data[p+uint(mask>>1)+1]` given the four bytes after the opcode (index 1..4; `mask ≤ 7`) -/
def lookahead (mask : UInt32) (b1 b2 b3 b4 : UInt8) : UInt8 :=
  match (mask >>> 1).toNat with
  | 0 => b1 | 1 => b2 | 2 => b3 | _ => b4

/-- `mask != 0 && (mask > 4 || mask == 3 || test86MSByte(data[p+uint(mask>>1)+1]))` -/
def skip3 (mask : UInt32) (b1 b2 b3 b4 : UInt8) : Bool :=
  mask != 0 && (decide (mask > 4) || mask == 3 || test86MSByte (lookahead mask b1 b2 b3 b4))

/-- inner scan `for ; p < size; p++ { if data[p]&0xFE == 0xE8 { break } }` on the suffix
    `rest = data[pos:]` with `lim = size - pos`; the result is `d = p - pos`. -/
def scan : Bytes → Nat → Nat
  | b :: bs, lim + 1 => if isOpcode b then 0 else scan bs lim + 1
  | _, _ => 0

theorem scan_le_lim (rest : Bytes) (lim : Nat) : scan rest lim ≤ lim := by
  induction rest generalizing lim with
  | nil => simp [scan]
  | cons b bs ih =>
    cases lim with
    | zero => simp [scan]
    | succ n =>
      simp only [scan]
      split
      · omega
      · have := ih n; omega

/-- `*state` / `mask` after the scan: `if d > 2 { 0 } else { mask >> d }` -/
def shiftMask (mask : UInt32) (d : Nat) : UInt32 := if d > 2 then 0 else mask >>> d.toUInt32

/-- result of the loop: (processed suffix, returned `pos`, final `*state`) -/
abbrev LoopResult := Bytes × Nat × UInt32

/-- one pass through the body of the outer `for { … }` loop of `x86Convert`, from the scan to
    the `continue` / end of the body; `next pos mask rest` stands for the following iterations. -/
def loopBody (next : Nat → UInt32 → Bytes → LoopResult) (encoding : Bool) (ip : UInt32)
    (pos : Nat) (mask : UInt32) (rest : Bytes) : LoopResult :=
  let lim := rest.length - 4                  -- size - pos   (size already reduced by 4)
  let d := scan rest lim                      -- p := pos; for ; p < size; p++ {…};  d := p - pos
  if d ≥ lim then                             -- if p >= size { *state = …; return pos }
    (rest, pos + d, shiftMask mask d)
  else
    match rest.drop d with
    | op :: b1 :: b2 :: b3 :: b4 :: tl =>     -- data[p], data[p+1..p+4], data[p+5:]
      let p := pos + d                        -- pos = p
      let mask := shiftMask mask d            -- if d > 2 { mask = 0 } else { mask >>= d; …
      if d ≤ 2 && skip3 mask b1 b2 b3 b4 then -- … if mask != 0 && (…) { mask = (mask>>1)|4; pos++; continue } }
        let r := next (p + 1) ((mask >>> 1) ||| 4) (b1 :: b2 :: b3 :: b4 :: tl)
        (rest.take d ++ op :: r.1, r.2)
      else if test86MSByte b4 then            -- if test86MSByte(data[p+4]) {
        let cur := ip + UInt32.ofNat p        --   cur := ip + uint32(pos)
        let v := convValue encoding mask cur (word b1 b2 b3 b4)
        let r := next (p + 5) 0 tl            --   pos += 5; …; mask = 0
        (rest.take d ++ op :: st1 v :: st2 v :: st3 v :: st4 v :: r.1, r.2)
      else                                    -- } else { mask = (mask >> 1) | 4; pos++ }
        let r := next (p + 1) ((mask >>> 1) ||| 4) (b1 :: b2 :: b3 :: b4 :: tl)
        (rest.take d ++ op :: r.1, r.2)
    | _ => (rest, pos + d, shiftMask mask d)  -- not reachable: d < lim = |rest| - 4

/-- the outer `for { … }` loop with fuel (DESIGN.md §3: loops that are not structurally
    decreasing take fuel; `X86Loop.loopF_eq_loopB` shows that `|rest| + 1` is never exhausted:
    every pass consumes at least one byte). -/
def loopF (encoding : Bool) (ip : UInt32) : Nat → Nat → UInt32 → Bytes → LoopResult
  | 0, pos, mask, rest => (rest, pos, mask)
  | fuel + 1, pos, mask, rest => loopBody (loopF encoding ip fuel) encoding ip pos mask rest

/-- the outer `for { … }` loop of `x86Convert` -/
def loop (encoding : Bool) (ip : UInt32) (pos : Nat) (mask : UInt32) (rest : Bytes) : LoopResult :=
  loopF encoding ip (rest.length + 1) pos mask rest

/-- what one call of `x86Convert(data, uint(len(data)), ip, &state, encoding)` does -/
structure Result where
  data : Bytes       -- the buffer afterwards
  pos : Nat          -- the returned value
  state : UInt32     -- `*state` afterwards
  deriving Repr, DecidableEq

/-- `x86Convert(data, uint(len(data)), ip, &state, encoding)` -/
def x86Convert (data : Bytes) (ip : UInt32) (state : UInt32) (encoding : Bool) : Result :=
  let mask := state &&& 7                     -- mask := *state & 7
  if data.length < 5 then                     -- if size < 5 { return 0 }
    ⟨data, 0, state⟩
  else                                        -- size -= 4; ip += 5
    let r := loop encoding (ip + 5) 0 mask data
    ⟨r.1, r.2.1, r.2.2⟩

end Fiano.Compress.X86
