/-
  Generic lemmas about the run-time support of translated Go code (GoRt): indexing, slicing and
  element writes on lists, the little-endian word readers.  Used by the `<Area>/CodeTie.lean`
  files, which tie the hand-written models to the code regenerated in `Gen/Code*.lean`.
  Core Lean only.
-/
import FianoModel.CodeTie.GoRt

namespace Fiano.GoRt

/-! ### idx / set -/

theorem idx_ofNat (b : List UInt8) (i : Nat) : idx b (i : Int) = b[i]? := by
  unfold idx
  have : ¬ ((i : Int) < 0) := by omega
  simp [this]

theorem idx_lt (b : List UInt8) (i : Nat) (h : i < b.length) : idx b (i : Int) = some b[i] := by
  rw [idx_ofNat]; exact List.getElem?_eq_getElem h

theorem idx_neg (b : List UInt8) (i : Int) (h : i < 0) : idx b i = none := by
  unfold idx; simp [h]

theorem idx_ge (b : List UInt8) (i : Nat) (h : b.length ≤ i) : idx b (i : Int) = none := by
  rw [idx_ofNat]; exact List.getElem?_eq_none h

theorem set_ofNat (b : List UInt8) (i : Nat) (v : UInt8) (h : i < b.length) :
    set b (i : Int) v = some (b.set i v) := by
  unfold set
  have : ¬ ((i : Int) < 0) := by omega
  simp [this, h]

theorem setN_lt (b : List UInt8) (i : Nat) (v : UInt8) (h : i < b.length) :
    setN b i v = some (b.set i v) := by
  unfold setN; simp [h]

theorem take_succ_set (b : List UInt8) (k : Nat) (v : UInt8) (h : k < b.length) :
    (b.set k v).take (k + 1) = b.take k ++ [v] := by
  rw [List.take_succ_eq_append_getElem (by simpa using h), List.take_set_of_le (Nat.le_refl k)]
  simp

/-- the value a translated loop hands to its caller when it executed `return` -/
def exitVal {σ ρ : Type} : Exit σ ρ → Option ρ
  | .ret r => some r
  | .fall _ => none

/-- the two stores of a Go swap `c[p], c[q] = c[q], c[p]` (`p ≠ q`, both in range), pointwise -/
theorem swap_getElem? (c : List UInt8) (p q : Nat) (hp : p < c.length) (hq : q < c.length) (hpq : p ≠ q) (j : Nat) :
    ((c.set p c[q]).set q c[p])[j]? = if j = p then some c[q] else if j = q then some c[p] else c[j]? := by
  by_cases h1 : j = q
  · subst h1
    have : ¬ (j = p) := fun e => hpq e.symm
    rw [if_neg this, if_pos rfl, List.getElem?_set_self (by simp; omega)]
  · rw [List.getElem?_set_ne (fun e => h1 e.symm)]
    by_cases h2 : j = p
    · subst h2
      rw [if_pos rfl, List.getElem?_set_self (by omega)]
    · rw [if_neg h2, if_neg h1, List.getElem?_set_ne (fun e => h2 e.symm)]

/-- a list that is pointwise the mirror image is the reverse -/
theorem eq_reverse_of_getElem? (c c' : List UInt8) (hl : c'.length = c.length)
    (h : ∀ j, j < c.length → c'[j]? = c[c.length - 1 - j]?) : c' = c.reverse := by
  apply List.ext_getElem?
  intro j
  by_cases hj : j < c.length
  · rw [h j hj, List.getElem?_reverse hj]
  · rw [List.getElem?_eq_none (by omega), List.getElem?_eq_none (by simp; omega)]

/-! ### slices -/

theorem sliceN_ok (b : List UInt8) (lo hi : Nat) (h1 : lo ≤ hi) (h2 : hi ≤ b.length) :
    sliceN b lo hi = some ((b.drop lo).take (hi - lo)) := by
  unfold sliceN; simp [h1, h2]

theorem sliceN_bad (b : List UInt8) (lo hi : Nat) (h : ¬ (lo ≤ hi ∧ hi ≤ b.length)) :
    sliceN b lo hi = none := by
  unfold sliceN; simp [h]

theorem sliceN_from (b : List UInt8) (lo : Nat) (h : lo ≤ b.length) :
    sliceN b lo b.length = some (b.drop lo) := by
  rw [sliceN_ok b lo b.length h (Nat.le_refl _)]
  congr 1
  apply List.take_of_length_le
  simp

theorem slice_ofNat (b : List UInt8) (lo hi : Nat) : slice b (lo : Int) (hi : Int) = sliceN b lo hi := by
  unfold slice
  have : ¬ (((lo : Int) < 0) ∨ ((hi : Int) < 0)) := by omega
  simp [this]

/-! ### little-endian words -/

/-- `a | b<<8` is `a + 256·b` on uint16 -/
theorem le16_word (a b : UInt8) : a.toUInt16 ||| (b.toUInt16 <<< 8) = a.toUInt16 + b.toUInt16 * 256 := by
  apply UInt16.toNat_inj.mp
  have ha := a.toNat_lt
  have hb := b.toNat_lt
  simp only [UInt16.toNat_or, UInt16.toNat_shiftLeft, UInt16.toNat_add, UInt16.toNat_mul, UInt8.toNat_toUInt16]
  have h8 : (8 : UInt16).toNat % 16 = 8 := by decide
  have h256 : (256 : UInt16).toNat = 256 := by decide
  rw [h8, h256, Nat.shiftLeft_eq]
  have e : b.toNat * 2 ^ 8 % 2 ^ 16 = b.toNat * 256 := by omega
  rw [e]
  have := Nat.shiftLeft_add_eq_or_of_lt (a := b.toNat) (b := a.toNat) (i := 8) (by omega)
  rw [Nat.shiftLeft_eq] at this
  rw [Nat.or_comm, ← this]
  omega

theorem readLE16_cons2 (a b : UInt8) (rest : List UInt8) (old : UInt16) :
    readLE16 (a :: b :: rest) old = (a.toUInt16 + b.toUInt16 * 256, rest, nilErr) := by
  simp [readLE16, le16, le16_word]

/-! ### exhaustive statements about one byte, `int64(x)` of a small `uint64` -/

/-- a statement about every byte follows from its 256 instances (which `decide` can check) -/
theorem u8_forall (P : UInt8 → Prop) (h : ∀ n : Fin 256, P (UInt8.ofNat n.val)) : ∀ a : UInt8, P a := by
  intro a
  have := h ⟨a.toNat, a.toNat_lt⟩
  simpa using this

/-- `int64(x)` keeps a value below 2^63 -/
theorem i64_small (x : UInt64) (h : x.toNat < 2 ^ 63) : i64 x = (x.toNat : Int) := by
  unfold i64 Int64.toInt
  rw [UInt64.toBitVec_toInt64, BitVec.toInt_eq_toNat_of_lt]
  · rfl
  · have : x.toBitVec.toNat = x.toNat := rfl
    rw [this]; omega

end Fiano.GoRt
