/-
  GoRt — run-time support for Go functions translated *as code* by translator/exprfn_loops.go
  (item kind `loopfn`).  Every `Gen/Code*.lean` file imports this module; nothing here is
  generated.  Core Lean only.

  Conventions of the translation (see reports/T1X.md):
    []byte                → List UInt8 (a value; functions that write elements return the new list)
    uint8 … uint64        → UInt8 … UInt64 (wrap-around arithmetic identical to Go's)
    uint                  → UInt64 (64-bit platforms)
    int, int64            → Int   (exact as long as no intermediate value leaves the int64 range;
                                   the translated functions only do index / length arithmetic)
    error                 → GoRt.Error (= Bool: only nil-ness is kept; texts are never compared)
    a run-time panic      → `none`  (index / slice out of range, make with a negative length,
                                   explicit panic) — such a function is `Option`-valued
    a loop that is not a  → a recursive helper with explicit fuel; running out of fuel is `none` too, so a
    range over a slice       theorem `Gen.fn x = some (model x)` proves *both* panic-freedom and termination
-/
namespace Fiano.GoRt

/-- a Go `error` value: only whether it is nil is modelled -/
abbrev Error := Bool
/-- `nil` -/
@[reducible] def nilErr : Error := false
/-- any non-nil error (`fmt.Errorf`, `errors.New`, a sentinel, an error returned by a callee) -/
@[reducible] def anErr : Error := true

/-- how a translated loop ends when its body contains a `return` -/
inductive Exit (σ ρ : Type) where
  | fall (s : σ)   -- the loop was left normally (condition false, `break`, range exhausted): state `s`
  | ret (r : ρ)    -- a `return r` was executed inside the loop
  deriving Repr, DecidableEq

/-! ### indexing and slicing (`none` = run-time panic) -/

/-- `b[i]` with a signed index -/
def idx (b : List UInt8) (i : Int) : Option UInt8 := if i < 0 then none else b[i.toNat]?

/-- `b[i] = v` with a signed index; the updated slice -/
def set (b : List UInt8) (i : Int) (v : UInt8) : Option (List UInt8) :=
  if i < 0 then none else if i.toNat < b.length then some (b.set i.toNat v) else none

/-- `b[i] = v` with an unsigned index -/
def setN (b : List UInt8) (i : Nat) (v : UInt8) : Option (List UInt8) :=
  if i < b.length then some (b.set i v) else none

/-- `b[lo:hi]` with unsigned bounds.  Go allows `hi ≤ cap(b)`; a list has no capacity, so reslicing
    beyond the length is treated like a panic (`none`) -/
def sliceN (b : List UInt8) (lo hi : Nat) : Option (List UInt8) :=
  if lo ≤ hi ∧ hi ≤ b.length then some ((b.drop lo).take (hi - lo)) else none

/-- `b[lo:hi]` with signed bounds -/
def slice (b : List UInt8) (lo hi : Int) : Option (List UInt8) :=
  if lo < 0 ∨ hi < 0 then none else sliceN b lo.toNat hi.toNat

/-- `make([]byte, n)` with a signed length -/
def make (n : Int) : Option (List UInt8) := if n < 0 then none else some (List.replicate n.toNat 0)

/-- `copy(dst, src)`: the new contents of `dst` -/
def copy (dst src : List UInt8) : List UInt8 :=
  src.take dst.length ++ dst.drop (min src.length dst.length)

/-- `bytes.Index(s, pat)`: the first position at which `pat` occurs in `s`, `-1` if none
    (standard-library behaviour, modelled; an empty pattern is found at 0) -/
def indexAux (pat : List UInt8) : List UInt8 → Nat → Int
  | [], i => if pat.isEmpty then (i : Int) else -1
  | x :: xs, i => if pat.isPrefixOf (x :: xs) then (i : Int) else indexAux pat xs (i + 1)

def index (s pat : List UInt8) : Int := indexAux pat s 0

/-! ### encoding/binary byte orders on a slice (`none` = the bounds check of `binary` panics) -/

def le16 : List UInt8 → Option UInt16
  | a :: b :: _ => some (a.toUInt16 ||| (b.toUInt16 <<< 8))
  | _ => none

def le32 : List UInt8 → Option UInt32
  | a :: b :: c :: d :: _ =>
    some (a.toUInt32 ||| (b.toUInt32 <<< 8) ||| (c.toUInt32 <<< 16) ||| (d.toUInt32 <<< 24))
  | _ => none

def le64 : List UInt8 → Option UInt64
  | a :: b :: c :: d :: e :: f :: g :: h :: _ =>
    some (a.toUInt64 ||| (b.toUInt64 <<< 8) ||| (c.toUInt64 <<< 16) ||| (d.toUInt64 <<< 24) |||
      (e.toUInt64 <<< 32) ||| (f.toUInt64 <<< 40) ||| (g.toUInt64 <<< 48) ||| (h.toUInt64 <<< 56))
  | _ => none

def be16 : List UInt8 → Option UInt16
  | a :: b :: _ => some (b.toUInt16 ||| (a.toUInt16 <<< 8))
  | _ => none

def be32 : List UInt8 → Option UInt32
  | a :: b :: c :: d :: _ =>
    some (d.toUInt32 ||| (c.toUInt32 <<< 8) ||| (b.toUInt32 <<< 16) ||| (a.toUInt32 <<< 24))
  | _ => none

def be64 : List UInt8 → Option UInt64
  | a :: b :: c :: d :: e :: f :: g :: h :: _ =>
    some (h.toUInt64 ||| (g.toUInt64 <<< 8) ||| (f.toUInt64 <<< 16) ||| (e.toUInt64 <<< 24) |||
      (d.toUInt64 <<< 32) ||| (c.toUInt64 <<< 40) ||| (b.toUInt64 <<< 48) ||| (a.toUInt64 <<< 56))
  | _ => none

/-! ### `bytes.NewReader` + `binary.Read(r, order, &v)` for a fixed-width unsigned `v`.
    The reader is represented by the bytes it has not consumed yet.  On a short read `v` keeps its
    old value, the reader is drained (io.ReadFull consumed what was there) and the error is non-nil.
    Result: (v, reader, err). -/

def readU8 (r : List UInt8) (old : UInt8) : UInt8 × List UInt8 × Error :=
  match r with
  | a :: rest => (a, rest, nilErr)
  | [] => (old, [], anErr)

def readLE16 (r : List UInt8) (old : UInt16) : UInt16 × List UInt8 × Error :=
  match le16 r with
  | some v => (v, r.drop 2, nilErr)
  | none => (old, [], anErr)

def readLE32 (r : List UInt8) (old : UInt32) : UInt32 × List UInt8 × Error :=
  match le32 r with
  | some v => (v, r.drop 4, nilErr)
  | none => (old, [], anErr)

def readLE64 (r : List UInt8) (old : UInt64) : UInt64 × List UInt8 × Error :=
  match le64 r with
  | some v => (v, r.drop 8, nilErr)
  | none => (old, [], anErr)

def readBE16 (r : List UInt8) (old : UInt16) : UInt16 × List UInt8 × Error :=
  match be16 r with
  | some v => (v, r.drop 2, nilErr)
  | none => (old, [], anErr)

def readBE32 (r : List UInt8) (old : UInt32) : UInt32 × List UInt8 × Error :=
  match be32 r with
  | some v => (v, r.drop 4, nilErr)
  | none => (old, [], anErr)

def readBE64 (r : List UInt8) (old : UInt64) : UInt64 × List UInt8 × Error :=
  match be64 r with
  | some v => (v, r.drop 8, nilErr)
  | none => (old, [], anErr)

/-! ### integer operations that core Lean spells differently from Go -/

/-- `a & b` on `int`: infinite-precision two's complement (`-[n+1]` is `…111 ¬n`), which agrees
    with Go's 64-bit `&` for all operands in range — and never leaves the range -/
def iand : Int → Int → Int
  | .ofNat m, .ofNat n => ((m &&& n : Nat) : Int)
  | .ofNat m, .negSucc n => ((m - (m &&& n) : Nat) : Int)        -- m AND NOT n
  | .negSucc m, .ofNat n => ((n - (n &&& m) : Nat) : Int)
  | .negSucc m, .negSucc n => Int.negSucc (m ||| n)
/-- `a | b` on `int` -/
def ior : Int → Int → Int
  | .ofNat m, .ofNat n => ((m ||| n : Nat) : Int)
  | .ofNat m, .negSucc n => Int.negSucc (n - (n &&& m))
  | .negSucc m, .ofNat n => Int.negSucc (m - (m &&& n))
  | .negSucc m, .negSucc n => Int.negSucc (m &&& n)
/-- `a ^ b` on `int` -/
def ixor : Int → Int → Int
  | .ofNat m, .ofNat n => ((m ^^^ n : Nat) : Int)
  | .ofNat m, .negSucc n => Int.negSucc (m ^^^ n)
  | .negSucc m, .ofNat n => Int.negSucc (m ^^^ n)
  | .negSucc m, .negSucc n => ((m ^^^ n : Nat) : Int)
/-- `int64(x)` / `int(x)` of a 64-bit unsigned value (reinterpretation) -/
def i64 (x : UInt64) : Int := x.toInt64.toInt

/-- `x << n` / `x >> n` with a *variable* count: Go yields 0 once the count reaches the width,
    Lean's `<<<` on `UIntN` reduces the count modulo the width -/
def shl8 (x : UInt8) (n : Nat) : UInt8 := if n < 8 then x <<< n.toUInt8 else 0
def shr8 (x : UInt8) (n : Nat) : UInt8 := if n < 8 then x >>> n.toUInt8 else 0
def shl16 (x : UInt16) (n : Nat) : UInt16 := if n < 16 then x <<< n.toUInt16 else 0
def shr16 (x : UInt16) (n : Nat) : UInt16 := if n < 16 then x >>> n.toUInt16 else 0
def shl32 (x : UInt32) (n : Nat) : UInt32 := if n < 32 then x <<< n.toUInt32 else 0
def shr32 (x : UInt32) (n : Nat) : UInt32 := if n < 32 then x >>> n.toUInt32 else 0
def shl64 (x : UInt64) (n : Nat) : UInt64 := if n < 64 then x <<< n.toUInt64 else 0
def shr64 (x : UInt64) (n : Nat) : UInt64 := if n < 64 then x >>> n.toUInt64 else 0

end Fiano.GoRt
