#!/usr/bin/env python3
"""Run the checks against behaviour-preserving refactorings kept under seeded/harmless-<x><n>/ (patch.diff, meta.json with
"checks": [property ids]).  tools_harmless.py [id ...]   — each patch is applied to a scratch worktree of /repo HEAD
(VERIF_REPO), the listed checks run in the quick tier; expected verdict: silent (exit 0, no VIOLATION line). A VIOLATION that
ends in no-failing-input-found is a broken tie (T1 inventory / proof) without a failing input — tolerated by the brief but
recorded; a VIOLATION with a concrete replay on a harmless change is a FALSE ALARM of the machinery and must be repaired.
Results are appended to seeded/HARMLESS.md."""
import glob, json, os, subprocess, sys, time
ROOT = os.path.dirname(os.path.abspath(__file__))
WT = "/tmp/verif-harmless-wt-%d" % os.getpid()
ENV = dict(os.environ, GOFLAGS="-mod=mod", GOPROXY="off", GOSUMDB="off", GOTOOLCHAIN="local", VERIF_REPO=WT)
def sh(cmd, cwd=None):
    p = subprocess.run(cmd, cwd=cwd, env=ENV, stdout=subprocess.PIPE, stderr=subprocess.STDOUT, text=True)
    return p.returncode, p.stdout
ids = sys.argv[1:]
rows = []
sh(["git", "-C", "/repo", "worktree", "remove", "--force", WT])
rc, out = sh(["git", "-C", "/repo", "worktree", "add", "--detach", WT, "HEAD"])
if rc: sys.exit("cannot create worktree: " + out)
try:
    for d in sorted(glob.glob(os.path.join(ROOT, "seeded", "harmless-*", ""))):
        hid = os.path.basename(os.path.dirname(d))
        if ids and hid not in ids: continue
        meta = json.load(open(d + "meta.json"))
        rc, out = sh(["git", "apply", d + "patch.diff"], cwd=WT)
        if rc: rows.append((hid, "-", "patch does not apply", "")); continue
        try:
            for prop in meta["checks"]:
                ev = os.path.join(ROOT, "evidence", prop + ".json")
                keep = open(ev).read() if os.path.exists(ev) else None
                t0 = time.time()
                rc, out = sh([os.path.join(ROOT, "check"), prop, "--tier", "quick"], cwd=ROOT)
                if keep is not None: open(ev, "w").write(keep)
                vio = [l for l in out.split("\n") if l.startswith("VIOLATION")]
                if rc == 0 and not vio: v = "silent"
                elif vio and all(l.rstrip().endswith("no-failing-input-found") for l in vio): v = "tie broke (no-failing-input-found)"
                else: v = "FALSE ALARM (concrete replay)"
                why = ""
                if v != "silent":
                    why = "; ".join([l.strip()[:160] for l in out.split("\n") if ("broken" in l or ("theorem" in l.lower() and "fail" in l.lower()) or l.startswith("TIE") or "disagree" in l)][:3])
                rows.append((hid, prop, v, "%ds %s" % (time.time() - t0, why)))
                print(rows[-1], flush=True)
        finally:
            sh(["git", "checkout", "--", "."], cwd=WT); sh(["git", "clean", "-fdq"], cwd=WT)
finally:
    sh(["git", "-C", "/repo", "worktree", "remove", "--force", WT]); sh(["git", "-C", "/repo", "worktree", "prune"])
with open(os.path.join(ROOT, "seeded", "HARMLESS.md"), "a") as f:
    f.write("\n## run %s\n\n| harmless change | check | verdict | time / detail |\n|---|---|---|---|\n" % time.strftime("%Y-%m-%d %H:%M"))
    for r in rows: f.write("| %s | %s | %s | %s |\n" % r)
