package c01

// The few cases at and above the 16 MiB boundary (extended file and section headers, the FFSv3
// switch).  Thorough tier only: each costs tens of seconds in the list-based model.

import (
	"fmt"

	"verif/harness/core"
	hu "verif/harness/props/uefi"
)

func bigFV(v3 bool, files ...*hu.File) *hu.FV {
	v := &hu.FV{ZV: make([]byte, 16), V3: v3, Attrs: 0x0004FEFF, Rev: 2, Blocks: []hu.Block{{Count: 1, Size: 8}}, Files: files, Free: 64}
	v.Free += (8 - v.Size()%8) % 8
	v.Blocks[0].Count = uint32(v.Size() / 8)
	return v
}

func bigCases() []core.Case {
	var cs []core.Case
	// a sectioned file whose rebuilt size is 0xFFFFFF-1, 0xFFFFFF (DESIGN §8 row 17), 0xFFFFFF+1
	for _, d := range []int{-1, 0, 1} {
		f := &hu.File{Kind: "fs", GUID: guidN(1), Type: 7, Attrs: 0x40, State: 0xF8,
			Secs: []*hu.Sec{{Kind: "sl", Type: 0x19, Body: make([]byte, 0xFFFFFF-28+d)}}}
		cs = append(cs, imgCase(fmt.Sprintf("wf-big-file%+d", d), single(bigFV(true, f)), "1"))
	}
	// an unparsed 16 MiB file with extended header, followed by a file whose data is aligned
	// behind a 32-byte header, and a section of more than 16 MiB (extended section header)
	rawBig := &hu.File{Kind: "fl", GUID: guidN(2), Type: 1, Attrs: 0x01, State: 0xF8, Ext: true, CkF: 0xAA, Body: make([]byte, 0x1000010)}
	rawBig.CkH = hu.HeaderChecksum(rawBig, 32+len(rawBig.Body))
	al := &hu.File{Kind: "fl", GUID: guidN(3), Type: 1, Attrs: 0x01 | 0x10, State: 0xF8, Ext: true, CkF: 0xAA, Body: make([]byte, 100)}
	al.CkH = hu.HeaderChecksum(al, 132)
	v := bigFV(true, rawBig)
	g := &hu.Gen{}
	if pad := placePad(g, v, al); pad != nil {
		v.Files = append(v.Files, pad)
	}
	v.Files = append(v.Files, al)
	v.Free = 64 + (8-(v.FilesEnd()%8))%8
	v.Blocks[0].Count = uint32(v.Size() / 8)
	cs = append(cs, imgCase("wf-big-raw-ext", single(v), "1"))
	// a freeform file with one 16 MiB raw section behind an extended section header; the bytes of
	// the file's extended size (0x01000130) do not sum to zero, so they matter for the header checksum
	ff := &hu.File{Kind: "fs", GUID: guidN(6), Type: 2, Attrs: 0x40, State: 0xF8,
		Secs: []*hu.Sec{{Kind: "sl", Type: 0x19, Ext: true, Body: make([]byte, 0x1000108)}}}
	cs = append(cs, imgCase("wf-big-freeform-extsec", single(bigFV(true, ff)), "1"))
	// a nested volume of more than 16 MiB: extended section header, both volumes FFSv3
	inner := bigFV(true, &hu.File{Kind: "fs", GUID: guidN(4), Type: 7, Attrs: 0, State: 0xF8,
		Secs: []*hu.Sec{{Kind: "sl", Type: 0x10, Ext: true, Body: make([]byte, 0x1000100)}}})
	outer := bigFV(true, &hu.File{Kind: "fs", GUID: guidN(5), Type: 0x0B, Attrs: 0x40, State: 0xF8,
		Secs: []*hu.Sec{{Kind: "su", Name: []rune("Nested")}, {Kind: "sf", FV: inner}}})
	cs = append(cs, imgCase("wf-big-nested", single(outer), "1"))
	// two volumes: an FFSv3 volume with a rebuilt file above 16 MiB, padding with data, then a small FFSv2
	// volume with a file — what the large file tells its own volume (Assemble.useFFS3) must not reach the
	// next one (seeded defects c01-5 / c03-3); and the other order
	bigFF := &hu.File{Kind: "fs", GUID: guidN(7), Type: 2, Attrs: 0x40, State: 0xF8,
		Secs: []*hu.Sec{{Kind: "sl", Type: 0x19, Ext: true, Body: make([]byte, 0x1000020)}, {Kind: "sl", Type: 0x19, Body: []byte{1, 2, 3}}}}
	small := func(n byte) *hu.FV {
		return bigFV(false, &hu.File{Kind: "fs", GUID: guidN(n), Type: 7, Attrs: 0x40, State: 0xF8,
			Secs: []*hu.Sec{{Kind: "sl", Type: 0x19, Body: []byte{n, 2, 3, 4, 5}}, {Kind: "su", Name: []rune("Small")}}})
	}
	gap := make([]byte, 48)
	for i := range gap {
		gap[i] = 0x5A
	}
	cs = append(cs, imgCase("wf-big-ffs3-then-ffs2", &hu.Img{Bios: &hu.Bios{Items: []hu.Item{{FV: bigFV(true, bigFF)}, {Pad: gap, FV: small(8)}}}}, "1"))
	cs = append(cs, imgCase("wf-big-ffs2-then-ffs3", &hu.Img{Bios: &hu.Bios{Items: []hu.Item{{FV: small(9)}, {Pad: gap, FV: bigFV(true, bigFF)}, {Pad: gap, FV: small(10)}}}}, "1"))
	return cs
}

func placePad(g *hu.Gen, v *hu.FV, f *hu.File) *hu.File {
	return hu.PlaceAligned(v.FilesEnd(), f.StoredAttrs())
}
