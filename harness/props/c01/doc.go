// Package c01: harness for property C01 (not built yet).
package c01
