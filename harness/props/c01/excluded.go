package c01

// Excluded points: images built from the grammar's constructors that violate exactly one clause of
// Spec.wf (the hypotheses the proof of save_identity forces).  The model must still agree with the
// implementation on them (M check, expected wf=0); what the real code does there is recorded in
// the outcome histogram (x:<parse>/<save>[:identical|:differs]) and in reports/C01.md.

import (
	"math/rand"

	"verif/harness/core"
	hu "verif/harness/props/uefi"
)

func guidN(n byte) []byte {
	g := make([]byte, 16)
	for i := range g {
		g[i] = n + byte(i)
	}
	return g
}

func mkFV(free int, files ...*hu.File) *hu.FV {
	v := &hu.FV{ZV: make([]byte, 16), Attrs: 0x0004FEFF, Rev: 2, Blocks: []hu.Block{{Count: 1, Size: 8}}, Files: files, Free: free}
	v.Blocks[0] = hu.Block{Count: uint32(v.Size() / 8), Size: 8}
	return v
}

func single(v *hu.FV) *hu.Img { return &hu.Img{Bios: &hu.Bios{Items: []hu.Item{{FV: v}}}} }

func sectFile(secs ...*hu.Sec) *hu.File {
	return &hu.File{Kind: "fs", GUID: guidN(0x10), Type: 7, Attrs: 0x40, State: 0xF8, Secs: secs}
}

// leafAs builds a *leaf* file record of a parsed type whose body is the given section area and whose
// checksums are right — the reader will parse the sections and the writer rebuild the file.
func leafAs(typ uint8, attrs uint8, body []byte) *hu.File {
	f := &hu.File{Kind: "fl", GUID: guidN(0x20), Type: typ, Attrs: attrs, State: 0xF8, Body: body, CkF: 0xAA}
	f.CkH = hu.HeaderChecksum(f, 24+len(body))
	return f
}

func raw(n int) *hu.Sec { return &hu.Sec{Kind: "sl", Type: 0x19, Body: make([]byte, n)} }

func excluded(r *rand.Rand, tier string) []core.Case {
	var cs []core.Case
	add := func(kind string, img *hu.Img) { cs = append(cs, imgCase("x-"+kind, img, "0")) }
	sl := func(t uint8, body []byte) *hu.Sec { return &hu.Sec{Kind: "sl", Type: t, Body: body} }

	// non-canonical strings in UI / version sections
	add("ui-noterm", single(mkFV(64, sectFile(sl(0x15, []byte{'A', 0, 'B', 0})))))
	add("ui-odd", single(mkFV(64, sectFile(sl(0x15, []byte{'A', 0, 'B', 0, 0})))))
	add("ui-lone-surrogate", single(mkFV(64, sectFile(sl(0x15, []byte{0x3d, 0xd8, 'B', 0, 0, 0})))))
	add("ui-empty", single(mkFV(64, sectFile(sl(0x15, nil)))))
	add("ver-noterm", single(mkFV(64, sectFile(sl(0x14, []byte{1, 0, '1', 0, '.', 0})))))
	add("ver-short", single(mkFV(64, sectFile(sl(0x14, []byte{1, 0})))))
	// dependency expressions
	push := append([]byte{2}, guidN(0x30)...)
	add("depex-noend", single(mkFV(64, sectFile(sl(0x13, push)))))
	add("depex-trailing", single(mkFV(64, sectFile(sl(0x13, append(append([]byte{}, push...), 8, 0xAA, 0xBB))))))
	add("depex-badop", single(mkFV(64, sectFile(sl(0x1b, []byte{0x0A, 8})))))
	add("depex-short-guid", single(mkFV(64, sectFile(sl(0x1c, []byte{2, 1, 2, 3})))))
	add("depex-empty", single(mkFV(64, sectFile(sl(0x13, nil)))))
	// a volume image section with bytes after the nested volume
	inner := mkFV(32, sectFile(raw(10)))
	add("fvimg-trailing", single(mkFV(64, sectFile(sl(0x17, append(inner.Ser(), 1, 2, 3, 4))))))
	add("fvimg-short", single(mkFV(64, sectFile(sl(0x17, make([]byte, 40))))))
	// file area tail shapes
	hdrOnly := &hu.File{Kind: "fl", GUID: rep16(0xFF), Type: 0xF0, State: 0xF8, CkF: 0xAA}
	hdrOnly.CkH = hu.HeaderChecksum(hdrOnly, 24)
	// since fixes 8039e86 (erased 24-byte tail) and F52 (`offset <= Length-24`) these two are inside the grammar:
	// they were "excluded points" of round 1, compared with the model only — model and code agreed on losing
	// the header-only file, and no oracle looked (DESIGN §14 finding 40)
	cs = append(cs, imgCase("wf-last-file-header-only", single(mkFV(0, sectFile(raw(12)), hdrOnly)), "1"))
	cs = append(cs, imgCase("wf-tail-window", single(mkFV(30, sectFile(raw(6)))), "1")) // file ends at ≡ 2 mod 8, 30 bytes follow
	for _, free := range []int{22, 38, 46} { // tails of 16, 32 and 40 bytes behind the aligned end (30 above gives the 24-byte tail)
		cs = append(cs, imgCase("wf-tail-window", single(mkFV(free, sectFile(raw(6)))), "1"))
	}
	add("length-unaligned", single(mkFV(37, sectFile(raw(8)))))
	// BIOS region shapes
	add("no-volume", &hu.Img{Bios: &hu.Bios{Tail: rep(0xFF, 1000)}})
	v := mkFV(64, sectFile(raw(8)))
	v.Blocks = nil
	add("no-blocks", single(v))
	padSig := rep(0xFF, 64)
	copy(padSig[40:], "_FVH")
	add("fvh-in-padding", &hu.Img{Bios: &hu.Bios{Items: []hu.Item{{Pad: padSig, FV: mkFV(64, sectFile(raw(8)))}}}})
	pad32 := rep(0xFF, 64)
	copy(pad32[32:], "_FVH")
	add("fvh-at-32", &hu.Img{Bios: &hu.Bios{Items: []hu.Item{{Pad: pad32, FV: mkFV(64, sectFile(raw(8)))}}}})
	add("padding-unaligned", &hu.Img{Bios: &hu.Bios{Items: []hu.Item{{Pad: rep(0xFF, 12), FV: mkFV(64, sectFile(raw(8)))}}}})
	// sectioned files whose stored header is not the canonical one
	two := append(append(raw(1).Ser(), 0, 0, 0), raw(4).Ser()...)
	add("stale-header-checksum", single(mkFV(64, func() *hu.File { f := leafAs(7, 0, two); f.CkH ^= 0x55; return f }())))
	add("stale-body-checksum", single(mkFV(64, func() *hu.File { f := leafAs(7, 0x40, two); return f }())))
	add("large-bit-on-small-file", single(mkFV(64, leafAs(7, 0x01, two))))
	bad := append(append(raw(1).Ser(), 0xFF, 0xFF, 0xFF), raw(4).Ser()...)
	add("section-padding-nonzero", single(mkFV(64, leafAs(7, 0, bad))))
	add("file-trailing-padding", single(mkFV(64, leafAs(7, 0, append(raw(1).Ser(), 0, 0, 0)))))
	add("sect-file-without-sections", single(mkFV(64, &hu.File{Kind: "fs", GUID: guidN(0x40), Type: 7, State: 0xF8})))
	// erase polarity
	p0 := mkFV(64, sectFile(raw(8)))
	p0.Attrs = 0x0004F6FF
	add("polarity-0", single(p0))
	add("polarity-conflict", &hu.Img{Bios: &hu.Bios{Items: []hu.Item{{FV: mkFV(64, sectFile(raw(8)))}, {FV: p0}}}})
	// an aligned file that does not sit where the rule puts it (the writer moves it)
	al := sectFile(raw(8))
	al.Attrs = 0x08 // 16-byte data alignment
	add("misaligned-file", single(mkFV(64, sectFile(raw(12)), al)))
	// a region table entry that does not tile: flash with a BIOS region only, descriptor says 2 blocks
	g := &hu.Gen{R: r, MaxAlign: 2, Depth: 0}
	f := g.Flash(1)
	if len(f.Regions) == 1 {
		f.Regions = append(f.Regions, &hu.Region{Kind: "gap", Data: rep(0xFF, 100)}) // flash not block sized
		add("flash-size-not-block-multiple", &hu.Img{Flash: f})
	}
	if tier == "thorough" {
		// an FFSv2 volume holding a 16 MiB file: the writer turns it into FFSv3
		big := sectFile(&hu.Sec{Kind: "sl", Type: 0x19, Body: make([]byte, 0x1000000)})
		add("ffs2-big-file", single(mkFV(64, big)))
	}
	return cs
}

func rep(b byte, n int) []byte {
	out := make([]byte, n)
	for i := range out {
		out[i] = b
	}
	return out
}

func rep16(b byte) []byte { return rep(b, 16) }
