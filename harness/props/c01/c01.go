// Package c01: saving an unedited image reproduces it byte for byte
// (uefi.Parse + visitors.Save / Assemble against the UEFI core model and the reference grammar).
package c01

import (
	"fmt"
	"math/rand"
	"os"
	"path/filepath"

	fuefi "github.com/linuxboot/fiano/pkg/uefi"
	"github.com/linuxboot/fiano/pkg/visitors"

	"verif/harness/core"
	hu "verif/harness/props/uefi"
)

type prop struct{}

func init() { core.Register(prop{}) }

func (prop) ID() string { return "C01" }

// result of uefi.Parse followed by visitors.Save in one "process"
type result struct {
	parseClass string // ok | err | panic | fatal
	parseDig   string
	nodes      int
	short      string
	saveClass  string // ok | err | panic | fatal ("" when parse failed)
	saved      []byte
	afterDig   string
	detail     string
}

var tmpDir string

func scratch() string {
	if tmpDir == "" {
		d, err := os.MkdirTemp("", "c01-")
		if err != nil {
			panic(err)
		}
		tmpDir = d
	}
	return filepath.Join(tmpDir, "saved.rom")
}

// runFiano parses `in` in a fresh process state and saves the tree through visitors.Save.
func runFiano(in []byte) result {
	var res result
	hu.ResetState()
	keep := append([]byte{}, in...)
	var tree fuefi.Firmware
	stdout := os.Stdout
	devnull, _ := os.OpenFile(os.DevNull, os.O_WRONLY, 0)
	os.Stdout = devnull // NewFlashImage prints skipped regions with fmt.Printf
	res.parseClass, res.detail = hu.Guard(func() error {
		t, err := fuefi.Parse(in)
		tree = t
		return err
	})
	os.Stdout = stdout
	devnull.Close()
	if string(keep) != string(in) {
		res.detail = "parser modified the caller's buffer"
	}
	if res.parseClass != "ok" {
		return res
	}
	res.parseDig = hu.Digest(tree)
	res.nodes, res.short = hu.Short(tree)
	path := scratch()
	os.Remove(path)
	res.saveClass, res.detail = hu.Guard(func() error {
		return (&visitors.Save{DirPath: path}).Run(tree)
	})
	if res.saveClass == "ok" {
		b, err := os.ReadFile(path)
		if err != nil {
			res.saveClass, res.detail = "err", "saved file unreadable: "+err.Error()
			return res
		}
		res.saved = b
		res.afterDig = hu.Digest(tree)
	} else if _, err := os.Stat(path); err == nil {
		res.detail += " (a file was written although save failed)"
	}
	return res
}

func (r result) parseField() string {
	if r.parseClass == "ok" {
		return r.parseDig
	}
	return r.parseClass
}

func (r result) saveField() string {
	switch {
	case r.parseClass != "ok":
		return "parse:" + r.parseClass
	case r.saveClass != "ok":
		return "asm:" + r.saveClass
	}
	return fmt.Sprintf("%016x:%d:%s", core.FNV(r.saved), len(r.saved), r.afterDig)
}

func digLen(b []byte) string { return fmt.Sprintf("%016x:%d", core.FNV(b), len(b)) }

func firstDiff(a, b []byte) string {
	n := len(a)
	if len(b) < n {
		n = len(b)
	}
	for i := 0; i < n; i++ {
		if a[i] != b[i] {
			cnt := 0
			for j := i; j < n; j++ {
				if a[j] != b[j] {
					cnt++
				}
			}
			return fmt.Sprintf("first difference at %#x (%d bytes differ; %02x -> %02x)", i, cnt, a[i], b[i])
		}
	}
	return fmt.Sprintf("lengths %d / %d", len(a), len(b))
}

// identityChecks are the C01 oracles on the implementation's own output.
func identityChecks(in []byte, res result, img *hu.Img) []core.Check {
	var cs []core.Check
	cs = append(cs, core.Check{Tag: "O", What: "parse-accepts-wellformed", Exp: "ok", Got: res.parseClass, Sig: "parse-" + res.parseClass})
	if res.parseClass != "ok" {
		return cs
	}
	cs = append(cs, core.Check{Tag: "O", What: "save-succeeds", Exp: "ok", Got: res.saveClass, Sig: "save-" + res.saveClass})
	if res.saveClass != "ok" {
		return cs
	}
	got := digLen(res.saved)
	if string(res.saved) != string(in) {
		got += " " + firstDiff(in, res.saved)
	}
	cs = append(cs, core.Check{Tag: "O", What: "save-identity", Exp: digLen(in), Got: got, Sig: "save-identity"})
	if img != nil && img.Flash != nil && len(res.saved) == len(in) {
		// nothing the tool does not understand is altered: descriptor, non-BIOS regions, gaps
		same := func(lo, hi int) string {
			if string(in[lo:hi]) == string(res.saved[lo:hi]) {
				return "untouched"
			}
			return "altered: " + firstDiff(in[lo:hi], res.saved[lo:hi])
		}
		cs = append(cs, core.Check{Tag: "O", What: "descriptor-untouched", Exp: "untouched", Got: same(0, 4096), Sig: "descriptor-untouched"})
		off := 4096
		g := "untouched"
		for _, r := range img.Flash.Regions {
			n := len(r.Bytes())
			if r.Kind != "rb" {
				if s := same(off, off+n); s != "untouched" && g == "untouched" {
					g = r.Kind + " region at " + fmt.Sprintf("%#x ", off) + s
				}
			} else {
				// paddings between the volumes of the BIOS region
				o := off
				for _, it := range r.Bios.Items {
					if s := same(o, o+len(it.Pad)); s != "untouched" && g == "untouched" {
						g = fmt.Sprintf("BIOS padding at %#x ", o) + s
					}
					o += len(it.Pad) + it.FV.Size()
				}
				if s := same(o, o+len(r.Bios.Tail)); s != "untouched" && g == "untouched" {
					g = fmt.Sprintf("BIOS padding at %#x ", o) + s
				}
			}
			off += n
		}
		cs = append(cs, core.Check{Tag: "O", What: "opaque-parts-untouched", Exp: "untouched", Got: g, Sig: "opaque-parts-untouched"})
	}
	return cs
}

func (prop) Run(c core.Case) core.Outcome {
	switch c.Op {
	case "img":
		img := hu.ParseRecipe(c.Args["recipe"])
		in := img.Ser()
		res := runFiano(in)
		wf := c.Args["wf"]
		tree := "-"
		if wf == "1" {
			tree = res.parseField()
		}
		exp := fmt.Sprintf("ok ser=%s wf=%s tree=%s parse=%s save=%s", digLen(in), wf, tree, res.parseField(), res.saveField())
		out := core.Outcome{Key: res.parseField() + res.saveField()}
		if c.Args["oracle_only"] != "1" {
			// (the 16 MiB cases run without the model in the quick tier: tens of seconds each in the
			// list-based model, well under a second in Go)
			out.Checks = append(out.Checks, core.Check{Tag: "M", What: "img", Req: "img " + c.Args["recipe"], Exp: exp})
		}
		if wf == "1" {
			out.Checks = append(out.Checks, identityChecks(in, res, img)...)
			out.Class = "wf:" + res.parseClass + "/" + res.saveClass
			if res.saveClass == "ok" && string(res.saved) == string(in) {
				out.Class = "wf:identical"
			}
		} else {
			out.Class = c.Kind + ":" + res.parseClass + "/" + res.saveClass
			if res.saveClass == "ok" {
				if string(res.saved) == string(in) {
					out.Class += ":identical"
				} else {
					out.Class += ":differs"
				}
			}
		}
		return out
	case "hex", "file":
		var in []byte
		if c.Op == "file" {
			root := os.Getenv("VERIF_REPO")
			if root == "" {
				root = "/repo"
			}
			b, err := os.ReadFile(filepath.Join(root, c.Args["path"]))
			if err != nil {
				return core.Outcome{Class: "file-missing", Trivial: true}
			}
			in = b
		} else {
			in = core.UnHex(c.Args["hex"])
		}
		res := runFiano(in)
		h := core.Hex(in)
		pexp := res.parseClass
		if res.parseClass == "ok" {
			pexp = fmt.Sprintf("ok %s %d %s", res.parseDig, res.nodes, res.short)
		}
		sexp := res.saveField()
		if res.saveClass == "ok" {
			sexp = fmt.Sprintf("ok %016x %d %s", core.FNV(res.saved), len(res.saved), res.afterDig)
		}
		out := core.Outcome{Key: res.parseField() + res.saveField(), Class: c.Op + ":" + res.parseClass + "/" + res.saveClass}
		out.Checks = append(out.Checks,
			core.Check{Tag: "M", What: "parse", Req: "parse " + h, Exp: pexp},
			core.Check{Tag: "M", What: "asm", Req: "asm " + h, Exp: sexp})
		if c.Op == "file" {
			out.Checks = append(out.Checks, identityChecks(in, res, nil)...)
			if res.saveClass == "ok" && string(res.saved) == string(in) {
				out.Class = "file:identical"
			}
		}
		return out
	}
	panic("c01: unknown op " + c.Op)
}

func imgCase(kind string, img *hu.Img, wf string) core.Case {
	return core.Case{Kind: kind, Op: "img", Args: map[string]string{"recipe": img.Recipe(), "wf": wf}}
}

func (prop) Gen(r *rand.Rand, tier string) []core.Case {
	var cs []core.Case
	cs = append(cs, core.Case{Kind: "file", Op: "file", Args: map[string]string{"path": "integration/roms/ovmfSECFV.fv"}})
	cs = append(cs, excluded(r, tier)...)
	n := 600
	if tier == "thorough" {
		n = 12000
		cs = append(cs, bigCases()...)
	} else {
		for _, c := range bigCases() {
			c.Kind += "-oracle"
			c.Args["oracle_only"] = "1"
			cs = append(cs, c)
		}
	}
	for i := 0; i < n; i++ {
		g := &hu.Gen{R: r, MaxAlign: 4, Depth: 2}
		if r.Intn(6) == 0 {
			g.MaxAlign = 5
		}
		if tier == "thorough" && r.Intn(40) == 0 {
			g.MaxAlign = 6 + r.Intn(3)
		}
		switch k := r.Intn(10); {
		case k < 3: // a single firmware volume
			budget := 256 + r.Intn(8*1024)
			if r.Intn(6) == 0 {
				budget = 64 * 1024
			}
			fv := g.FV(budget, r.Intn(4) == 0)
			cs = append(cs, imgCase("wf-fv", &hu.Img{Bios: &hu.Bios{Items: []hu.Item{{FV: fv}}}}, "1"))
		case k < 6: // a bare BIOS region
			cs = append(cs, imgCase("wf-bios", &hu.Img{Bios: g.Bios(0, 1+r.Intn(3))}, "1"))
		default: // a flash image with descriptor
			blocks := 1 + r.Intn(6)
			if r.Intn(5) == 0 {
				blocks = 8 + r.Intn(8)
			}
			cs = append(cs, imgCase("wf-flash", &hu.Img{Flash: g.Flash(blocks)}, "1"))
		}
	}
	cs = append(cs, mutants(r, tier)...)
	return cs
}

// mutants: small well-formed images with a few header bytes changed — outside the grammar; only the
// model/implementation correspondence is checked on them.
func mutants(r *rand.Rand, tier string) []core.Case {
	n := 150
	if tier == "thorough" {
		n = 2500
	}
	var cs []core.Case
	for i := 0; i < n; i++ {
		g := &hu.Gen{R: r, MaxAlign: 3, Depth: 1}
		var img *hu.Img
		if r.Intn(3) == 0 {
			img = &hu.Img{Flash: g.Flash(1 + r.Intn(2))}
		} else {
			img = &hu.Img{Bios: g.Bios(0, 1+r.Intn(2))}
		}
		b := img.Ser()
		if len(b) > 20000 {
			continue
		}
		marks := img.Marks()
		for k := 1 + r.Intn(2); k > 0; k-- {
			// aim at structure: a byte of some volume / file / section / descriptor header
			off := r.Intn(len(b))
			if len(marks) > 0 && r.Intn(8) != 0 {
				m := marks[r.Intn(len(marks))]
				off = m.Off + r.Intn(m.Len)
			}
			switch r.Intn(5) {
			case 0:
				b[off] = 0xFF
			case 1:
				b[off] = 0
			case 2:
				b[off] ^= 1 << uint(r.Intn(8))
			case 3:
				b[off]++
			default:
				b[off] = byte(r.Intn(256))
			}
		}
		cs = append(cs, core.Case{Kind: "mutant", Op: "hex", Args: map[string]string{"hex": core.Hex(b)}})
	}
	return cs
}
