package c15

// Reflection over fiano's own manifest types: the registry of the 33 generated structures, the
// value syntax shared with Driver/C15.lean, and the *reference encoder* — an encoder written from
// the struct declarations and field tags alone (the rules of common/manifestcodegen/pkg/analyze),
// independent both of the checked-in generated methods and of the Lean model.

import (
	"encoding/hex"
	"fmt"
	"io"
	"reflect"
	"strconv"
	"strings"

	"github.com/linuxboot/fiano/pkg/intel/metadata/bg"
	"github.com/linuxboot/fiano/pkg/intel/metadata/bg/bgbootpolicy"
	"github.com/linuxboot/fiano/pkg/intel/metadata/bg/bgkey"
	"github.com/linuxboot/fiano/pkg/intel/metadata/cbnt"
	"github.com/linuxboot/fiano/pkg/intel/metadata/cbnt/cbntbootpolicy"
	"github.com/linuxboot/fiano/pkg/intel/metadata/cbnt/cbntkey"
)

// structure is what every generated structure implements.
type structure interface {
	io.ReaderFrom
	io.WriterTo
	TotalSize() uint64
}

var registry = map[string]func() structure{
	"bg.HashStructure":                   func() structure { return &bg.HashStructure{} },
	"bg.HashStructureFill":               func() structure { return &bg.HashStructureFill{} },
	"bg.Key":                             func() structure { return &bg.Key{} },
	"bg.KeySignature":                    func() structure { return &bg.KeySignature{} },
	"bg.Signature":                       func() structure { return &bg.Signature{} },
	"bg.StructInfo":                      func() structure { return &bg.StructInfo{} },
	"bgbootpolicy.BPMH":                  func() structure { return &bgbootpolicy.BPMH{} },
	"bgbootpolicy.IBBSegment":            func() structure { return &bgbootpolicy.IBBSegment{} },
	"bgbootpolicy.Manifest":              func() structure { return &bgbootpolicy.Manifest{} },
	"bgbootpolicy.PM":                    func() structure { return &bgbootpolicy.PM{} },
	"bgbootpolicy.SE":                    func() structure { return &bgbootpolicy.SE{} },
	"bgbootpolicy.Signature":             func() structure { return &bgbootpolicy.Signature{} },
	"bgkey.Manifest":                     func() structure { return &bgkey.Manifest{} },
	"cbnt.ChipsetACModuleInformation":    func() structure { return &cbnt.ChipsetACModuleInformation{} },
	"cbnt.ChipsetACModuleInformationV5":  func() structure { return &cbnt.ChipsetACModuleInformationV5{} },
	"cbnt.HashList":                      func() structure { return &cbnt.HashList{} },
	"cbnt.HashStructure":                 func() structure { return &cbnt.HashStructure{} },
	"cbnt.Key":                           func() structure { return &cbnt.Key{} },
	"cbnt.KeySignature":                  func() structure { return &cbnt.KeySignature{} },
	"cbnt.Signature":                     func() structure { return &cbnt.Signature{} },
	"cbnt.StructInfo":                    func() structure { return &cbnt.StructInfo{} },
	"cbnt.TPMInfoList":                   func() structure { return &cbnt.TPMInfoList{} },
	"cbntbootpolicy.BPMH":                func() structure { return &cbntbootpolicy.BPMH{} },
	"cbntbootpolicy.IBBSegment":          func() structure { return &cbntbootpolicy.IBBSegment{} },
	"cbntbootpolicy.Manifest":            func() structure { return &cbntbootpolicy.Manifest{} },
	"cbntbootpolicy.PCD":                 func() structure { return &cbntbootpolicy.PCD{} },
	"cbntbootpolicy.PM":                  func() structure { return &cbntbootpolicy.PM{} },
	"cbntbootpolicy.Reserved":            func() structure { return &cbntbootpolicy.Reserved{} },
	"cbntbootpolicy.SE":                  func() structure { return &cbntbootpolicy.SE{} },
	"cbntbootpolicy.Signature":           func() structure { return &cbntbootpolicy.Signature{} },
	"cbntbootpolicy.TXT":                 func() structure { return &cbntbootpolicy.TXT{} },
	"cbntkey.Hash":                       func() structure { return &cbntkey.Hash{} },
	"cbntkey.Manifest":                   func() structure { return &cbntkey.Manifest{} },
}

// qualName is the name used on the wire for a struct type: "<package>.<Type>".
func qualName(t reflect.Type) string {
	p := t.PkgPath()
	return p[strings.LastIndex(p, "/")+1:] + "." + t.Name()
}

func isUint(k reflect.Kind) bool {
	return k == reflect.Uint8 || k == reflect.Uint16 || k == reflect.Uint32 || k == reflect.Uint64
}

// ---------------------------------------------------------------- value syntax

// dump renders a Go value in the driver's value syntax.
func dump(v reflect.Value) string {
	var sb strings.Builder
	dumpTo(&sb, v)
	return sb.String()
}

func dumpTo(sb *strings.Builder, v reflect.Value) {
	switch k := v.Kind(); {
	case isUint(k):
		sb.WriteString(strconv.FormatUint(v.Uint(), 10))
	case k == reflect.Array && v.Type().Elem().Kind() == reflect.Uint8:
		sb.WriteByte('x')
		b := make([]byte, v.Len())
		reflect.Copy(reflect.ValueOf(b), v)
		sb.WriteString(hex.EncodeToString(b))
	case k == reflect.Slice && v.Type().Elem().Kind() == reflect.Uint8:
		sb.WriteByte('x')
		sb.WriteString(hex.EncodeToString(v.Bytes()))
	case k == reflect.Slice:
		sb.WriteByte('(')
		for i := 0; i < v.Len(); i++ {
			if i > 0 {
				sb.WriteByte(',')
			}
			if isUint(v.Type().Elem().Kind()) { // items of a named integer type are one-field nodes
				sb.WriteByte('(')
				dumpTo(sb, v.Index(i))
				sb.WriteByte(')')
			} else {
				dumpTo(sb, v.Index(i))
			}
		}
		sb.WriteByte(')')
	case k == reflect.Struct:
		sb.WriteByte('(')
		for i := 0; i < v.NumField(); i++ {
			if i > 0 {
				sb.WriteByte(',')
			}
			dumpTo(sb, v.Field(i))
		}
		sb.WriteByte(')')
	case k == reflect.Ptr:
		if v.IsNil() {
			sb.WriteString("()")
		} else {
			sb.WriteByte('(')
			dumpTo(sb, v.Elem())
			sb.WriteByte(')')
		}
	default:
		panic("harness: cannot dump kind " + k.String())
	}
}

type node struct {
	num   uint64
	bytes []byte
	kids  []*node
	kind  byte // 'n' 'x' '('
}

func parseNode(s string, i int) (*node, int) {
	if i >= len(s) {
		panic("harness: truncated value")
	}
	switch c := s[i]; {
	case c == '(':
		n := &node{kind: '('}
		i++
		if s[i] == ')' {
			return n, i + 1
		}
		for {
			var k *node
			k, i = parseNode(s, i)
			n.kids = append(n.kids, k)
			if s[i] == ',' {
				i++
				continue
			}
			if s[i] == ')' {
				return n, i + 1
			}
			panic("harness: bad value syntax")
		}
	case c == 'x':
		j := i + 1
		for j < len(s) && strings.IndexByte("0123456789abcdef", s[j]) >= 0 {
			j++
		}
		b, err := hex.DecodeString(s[i+1 : j])
		if err != nil {
			panic(err)
		}
		return &node{kind: 'x', bytes: b}, j
	case c >= '0' && c <= '9':
		j := i
		for j < len(s) && s[j] >= '0' && s[j] <= '9' {
			j++
		}
		u, err := strconv.ParseUint(s[i:j], 10, 64)
		if err != nil {
			panic(err)
		}
		return &node{kind: 'n', num: u}, j
	}
	panic("harness: bad value syntax at " + strconv.Itoa(i))
}

// build fills the Go value v (settable) from a parsed value.
func build(n *node, v reflect.Value) {
	switch k := v.Kind(); {
	case isUint(k):
		v.SetUint(n.num)
	case k == reflect.Array && v.Type().Elem().Kind() == reflect.Uint8:
		if len(n.bytes) != v.Len() {
			panic("harness: static array length mismatch")
		}
		reflect.Copy(v, reflect.ValueOf(n.bytes))
	case k == reflect.Slice && v.Type().Elem().Kind() == reflect.Uint8:
		v.SetBytes(append([]byte{}, n.bytes...))
	case k == reflect.Slice:
		s := reflect.MakeSlice(v.Type(), len(n.kids), len(n.kids))
		for i, kid := range n.kids {
			if isUint(v.Type().Elem().Kind()) {
				build(kid.kids[0], s.Index(i))
			} else {
				build(kid, s.Index(i))
			}
		}
		v.Set(s)
	case k == reflect.Struct:
		if len(n.kids) != v.NumField() {
			panic(fmt.Sprintf("harness: %s has %d fields, value has %d", v.Type(), v.NumField(), len(n.kids)))
		}
		for i, kid := range n.kids {
			build(kid, v.Field(i))
		}
	case k == reflect.Ptr:
		if len(n.kids) == 0 {
			v.Set(reflect.Zero(v.Type()))
		} else {
			p := reflect.New(v.Type().Elem())
			build(n.kids[0], p.Elem())
			v.Set(p)
		}
	default:
		panic("harness: cannot build kind " + k.String())
	}
}

func fromText(typ, val string) structure {
	mk, ok := registry[typ]
	if !ok {
		panic("harness: unknown structure type " + typ)
	}
	s := mk()
	n, end := parseNode(val, 0)
	if end != len(val) {
		panic("harness: trailing characters in value")
	}
	build(n, reflect.ValueOf(s).Elem())
	return s
}

// ---------------------------------------------------------------- reference encoder (declarations + tags)

func le(n uint64, k int) []byte {
	b := make([]byte, k)
	for i := 0; i < k; i++ {
		b[i] = byte(n >> (8 * uint(i)))
	}
	return b
}

var widthOfName = map[string]int{"uint8": 1, "uint16": 2, "uint32": 4, "uint64": 8}

func countWidth(tag reflect.StructTag) int {
	if ct, ok := tag.Lookup("countType"); ok {
		w, ok := widthOfName[ct]
		if !ok {
			panic("harness: unknown countType " + ct)
		}
		return w
	}
	return 2 // uint16, the generator's default
}

// isElementType: the struct has a field whose type is named StructInfo (analyze.Field.IsElement).
func isElementType(t reflect.Type) bool {
	if t.Kind() != reflect.Struct {
		return false
	}
	for i := 0; i < t.NumField(); i++ {
		if ft := t.Field(i).Type; ft.Kind() == reflect.Struct && ft.Name() == "StructInfo" {
			return true
		}
	}
	return false
}

// refField is the declared wire form of one field.
func refField(f reflect.StructField, v reflect.Value) []byte {
	switch k := v.Kind(); {
	case isUint(k):
		return le(v.Uint(), int(v.Type().Size()))
	case k == reflect.Array && v.Type().Elem().Kind() == reflect.Uint8:
		b := make([]byte, v.Len())
		reflect.Copy(reflect.ValueOf(b), v)
		return b
	case k == reflect.Slice && v.Type().Elem().Kind() == reflect.Uint8:
		if _, derived := f.Tag.Lookup("countValue"); derived {
			return append([]byte{}, v.Bytes()...)
		}
		return append(le(uint64(v.Len()), countWidth(f.Tag)), v.Bytes()...)
	case k == reflect.Slice:
		var out []byte
		et := v.Type().Elem()
		if !isElementType(et) {
			out = le(uint64(v.Len()), countWidth(f.Tag))
		}
		for i := 0; i < v.Len(); i++ {
			if isUint(et.Kind()) {
				out = append(out, le(v.Index(i).Uint(), int(et.Size()))...)
			} else {
				out = append(out, refStruct(v.Index(i))...)
			}
		}
		return out
	case k == reflect.Struct:
		return refStruct(v)
	case k == reflect.Ptr:
		if v.IsNil() {
			return nil
		}
		return refStruct(v.Elem())
	}
	panic("harness: field kind not covered by the reference encoder: " + v.Kind().String())
}

func refStruct(v reflect.Value) []byte {
	var out []byte
	for i := 0; i < v.NumField(); i++ {
		out = append(out, refField(v.Type().Field(i), v.Field(i))...)
	}
	return out
}

// refPositions: for every field, its declared position and wire bytes.
func refPositions(v reflect.Value) (names []string, pos []int, enc [][]byte) {
	p := 0
	for i := 0; i < v.NumField(); i++ {
		b := refField(v.Type().Field(i), v.Field(i))
		names = append(names, v.Type().Field(i).Name)
		pos = append(pos, p)
		enc = append(enc, b)
		p += len(b)
	}
	return
}

// callUint calls the niladic method `name` of the pointer receiver and returns its uint64 result.
func callUint(s structure, name string) (uint64, bool) {
	m := reflect.ValueOf(s).MethodByName(name)
	if !m.IsValid() || m.Type().NumIn() != 0 || m.Type().NumOut() != 1 {
		return 0, false
	}
	return m.Call(nil)[0].Uint(), true
}
