package c15

// Type-directed generator: walks fiano's own Go types by reflection.  Derived lengths (key data,
// signature data, BG "fill" hashes) follow the Intel formats, *not* fiano's helper functions; every
// structure ID comes from the `id` tag of the declaration.  The generator tracks whether the value
// it built is one the format can carry ("wt"): counts fit their count type, derived lengths are
// right, structure IDs are the declared ones.  A small share of values is made non-wt on purpose.

import (
	"math/rand"
	"reflect"
)

type gen struct {
	r     *rand.Rand
	wt    bool // still a value the format can carry
	bad   bool // allowed to inject ill-typed parts
	large bool // allowed to build > 64 KiB parts
}

func (g *gen) chance(n int) bool { return g.r.Intn(n) == 0 }

func (g *gen) uintOf(bits int) uint64 {
	max := uint64(1)<<uint(bits) - 1
	if bits == 64 {
		max = ^uint64(0)
	}
	switch g.r.Intn(8) {
	case 0:
		return 0
	case 1:
		return max
	case 2:
		return 1
	case 3:
		return max - 1
	}
	return g.r.Uint64() & max
}

func (g *gen) bytes(n int) []byte {
	b := make([]byte, n)
	switch g.r.Intn(4) {
	case 0: // zeros
	case 1:
		for i := range b {
			b[i] = 0xff
		}
	default:
		g.r.Read(b)
	}
	return b
}

var commonLens = []int{0, 0, 1, 2, 20, 32, 48, 64, 255, 256, 257}

// prefixedLen picks the length of a byte array with a c-byte length prefix.
func (g *gen) prefixedLen(c int) int {
	switch {
	case g.chance(3):
		return commonLens[g.r.Intn(len(commonLens))]
	case c == 2 && g.large && g.chance(30):
		return 65535 // largest length a uint16 prefix can carry
	case c == 2 && g.large && g.bad && g.chance(40):
		g.wt = false
		return 65536 + g.r.Intn(3) // the prefix wraps
	}
	return g.r.Intn(120)
}

func (g *gen) listLen(c int, itemIsSmall bool) int {
	switch {
	case g.chance(4):
		return 0
	case g.chance(5):
		return 4 + g.r.Intn(9) // 4..12
	case itemIsSmall && g.chance(20):
		return 13 + g.r.Intn(60)
	case c == 1 && itemIsSmall && g.chance(25):
		return 255 // largest count a uint8 can carry
	case c == 1 && itemIsSmall && g.bad && g.chance(25):
		g.wt = false
		return 256 + g.r.Intn(2) // the count wraps
	case c == 2 && itemIsSmall && g.large && g.chance(60):
		return 256 + g.r.Intn(300) // more than a one-byte count could carry
	}
	return 1 + g.r.Intn(3)
}

var keyBits = []uint64{0, 8, 256, 384, 1024, 2048, 3072, 4096, 2047, 65535, 65528}

func (g *gen) setBytes(v reflect.Value, n int) { v.SetBytes(g.bytes(n)) }

// derivedLen applies a wrong length now and then (only when allowed).
func (g *gen) derivedLen(right int) int {
	if g.bad && g.chance(12) {
		g.wt = false
		switch g.r.Intn(3) {
		case 0:
			return right + 1
		case 1:
			if right > 0 {
				return right - 1
			}
			return right + 2
		}
		return g.r.Intn(40) + right + 1
	}
	return right
}

const (
	algRSA = 0x01
	algECC = 0x23
	algSM2 = 0x1b
)

// fixups: inContainer = the structure is an element of an element container (its ID is dispatched on).
func (g *gen) fixups(v reflect.Value, inContainer bool) {
	t := v.Type()
	// every element carries the structure ID of its declaration
	for i := 0; i < t.NumField(); i++ {
		f := t.Field(i)
		if id, ok := f.Tag.Lookup("id"); ok && f.Type.Kind() == reflect.Struct {
			idv := v.Field(i).FieldByName("ID")
			var a [8]byte
			copy(a[:], id)
			if inContainer && g.bad && g.chance(40) {
				a[g.r.Intn(8)] ^= 0x20 // an ID the container does not know: written, skipped when read
				g.wt = false
			}
			reflect.Copy(idv, reflect.ValueOf(a[:]))
		}
	}
	switch qualName(t) {
	case "cbnt.Key", "bg.Key":
		algs := []uint64{algRSA, algECC, algSM2}
		if qualName(t) == "bg.Key" {
			algs = []uint64{algRSA}
		}
		alg := algs[g.r.Intn(len(algs))]
		ks := keyBits[g.r.Intn(len(keyBits))]
		if g.chance(6) {
			ks = g.uintOf(16)
		}
		n := 0
		if alg == algRSA {
			n = int(ks>>3) + 4 // public exponent (4 bytes) + modulus
		} else {
			n = int(ks>>3) * 2 // x ‖ y
		}
		if g.large && g.chance(40) {
			// a key whose algorithm fiano does not know: the reader takes uint16(-1) bytes
			unknown := []uint64{0, 0x10, 0x18, 0x14, 0xffff, algECC, algSM2}
			alg = unknown[g.r.Intn(len(unknown))]
			if qualName(t) == "cbnt.Key" && (alg == algECC || alg == algSM2) {
				alg = 0
			}
			n = 65535
			if g.bad && g.chance(2) {
				n = g.r.Intn(64)
				g.wt = false
			}
		} else {
			n = g.derivedLen(n)
		}
		v.FieldByName("KeyAlg").SetUint(alg)
		v.FieldByName("KeySize").SetUint(ks)
		g.setBytes(v.FieldByName("Data"), n)
	case "cbnt.Signature", "bg.Signature":
		ks := keyBits[g.r.Intn(len(keyBits))]
		if g.chance(6) {
			ks = g.uintOf(16)
		}
		v.FieldByName("KeySize").SetUint(ks)
		g.setBytes(v.FieldByName("Data"), g.derivedLen(int(ks>>3)))
	case "bg.HashStructureFill":
		algs := []uint64{0x00, 0x10, 0x04, 0x0b, 0x0c, 0x12, 0xffff}
		alg := algs[g.r.Intn(len(algs))]
		n := 2 // the 2-byte size field is part of the buffer
		switch alg {
		case 0x00, 0x10, 0x0b: // null / unknown are filled like SHA-256
			n += 32
		case 0x04:
			n += 20
		}
		v.FieldByName("HashAlg").SetUint(alg)
		g.setBytes(v.FieldByName("HashBuffer"), g.derivedLen(n))
	case "cbnt.TPMInfoList":
		if v.FieldByName("Algorithms").Len() > 0 {
			g.wt = false // the generated Algorithm.ReadFrom cannot read (value receiver)
		}
	}
}

func (g *gen) fillStruct(v reflect.Value, inContainer bool) {
	t := v.Type()
	for i := 0; i < t.NumField(); i++ {
		g.fill(t.Field(i), v.Field(i))
	}
	g.fixups(v, inContainer)
}

func (g *gen) fill(f reflect.StructField, v reflect.Value) {
	switch k := v.Kind(); {
	case isUint(k):
		v.SetUint(g.uintOf(int(v.Type().Size()) * 8))
	case k == reflect.Array:
		reflect.Copy(v, reflect.ValueOf(g.bytes(v.Len())))
	case k == reflect.Slice && v.Type().Elem().Kind() == reflect.Uint8:
		if _, derived := f.Tag.Lookup("countValue"); derived {
			g.setBytes(v, 0) // set by the fix-up of the enclosing structure
			return
		}
		g.setBytes(v, g.prefixedLen(countWidth(f.Tag)))
	case k == reflect.Slice:
		et := v.Type().Elem()
		n := 0
		if isElementType(et) {
			n = g.r.Intn(4)
			if g.chance(12) {
				n = 4 + g.r.Intn(5)
			}
		} else {
			n = g.listLen(countWidth(f.Tag), et.Kind() != reflect.Struct || et.NumField() <= 4)
		}
		s := reflect.MakeSlice(v.Type(), n, n)
		for i := 0; i < n; i++ {
			if et.Kind() == reflect.Struct {
				g.fillStruct(s.Index(i), isElementType(et))
			} else {
				s.Index(i).SetUint(g.uintOf(int(et.Size()) * 8))
			}
		}
		v.Set(s)
	case k == reflect.Struct:
		g.fillStruct(v, isElementType(v.Type()))
	case k == reflect.Ptr:
		if g.chance(2) {
			v.Set(reflect.Zero(v.Type()))
			return
		}
		p := reflect.New(v.Type().Elem())
		g.fillStruct(p.Elem(), isElementType(p.Elem().Type()))
		v.Set(p)
	default:
		panic("harness: generator does not cover kind " + k.String())
	}
}

// genValue builds a value of the registered type.
func genValue(r *rand.Rand, typ string, bad, large bool) (structure, bool) {
	g := &gen{r: r, wt: true, bad: bad, large: large}
	s := registry[typ]()
	g.fillStruct(reflect.ValueOf(s).Elem(), false)
	return s, g.wt
}
