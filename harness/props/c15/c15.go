// Package c15: Boot Guard / CBnT manifests round-trip with truthful sizes and offsets
// (pkg/intel/metadata/{cbnt,bg}/**: the 33 generated structures).
//
// ops
//
//	rt    type, val, wt, rest   build the value, WriteTo, every accessor, ReadFrom(out ++ rest), WriteTo again
//	read  type, hex             ReadFrom on a (malformed) stream: outcome class and value vs the model
//
// M checks compare the implementation with the Lean model driven by the regenerated declarations
// (enc / rehash / dec / offs / size / wt).  O checks are the property, evaluated in Go on the
// implementation's own output against the reference encoder of reflect.go.
package c15

import (
	"bytes"
	"fmt"
	"math/rand"
	"reflect"
	"sort"
	"strings"

	"verif/harness/core"
)

type prop struct{}

func init() { core.Register(prop{}) }

func (prop) ID() string { return "C15" }

var manifests = []string{"cbntbootpolicy.Manifest", "cbntkey.Manifest", "bgbootpolicy.Manifest", "bgkey.Manifest"}

func typeNames() []string {
	var ns []string
	for n := range registry {
		ns = append(ns, n)
	}
	sort.Strings(ns)
	return ns
}

func isContainer(typ string) bool {
	return typ == "cbntbootpolicy.Manifest" || typ == "bgbootpolicy.Manifest"
}

// siLen: binary.Size of the struct-info the container reads at the head of every element
func siLen(typ string) int {
	if strings.HasPrefix(typ, "bg") {
		return 9
	}
	return 12
}

func hexOrDigest(b []byte) string {
	if len(b) <= 1500 {
		return core.Hex(b)
	}
	return fmt.Sprintf("len=%d fnv=%016x", len(b), core.FNV(b))
}

// ---------------------------------------------------------------- generation

func pickType(r *rand.Rand, all []string) string {
	if r.Intn(10) < 6 {
		return manifests[r.Intn(len(manifests))]
	}
	return all[r.Intn(len(all))]
}

// elementsOf splits the declared encoding of a container value into its elements.
func elementsOf(v reflect.Value) [][]byte {
	var out [][]byte
	for i := 0; i < v.NumField(); i++ {
		f := v.Field(i)
		switch f.Kind() {
		case reflect.Struct:
			out = append(out, refStruct(f))
		case reflect.Ptr:
			if !f.IsNil() {
				out = append(out, refStruct(f.Elem()))
			}
		case reflect.Slice:
			for j := 0; j < f.Len(); j++ {
				out = append(out, refStruct(f.Index(j)))
			}
		}
	}
	return out
}

func boundaryByte(r *rand.Rand) byte {
	return []byte{0x00, 0x01, 0x7f, 0x80, 0xfe, 0xff}[r.Intn(6)]
}

// hostile derives a malformed / unusual stream from a valid value.
func hostile(r *rand.Rand, typ string, s structure) (string, []byte) {
	v := reflect.ValueOf(s).Elem()
	enc := refStruct(v)
	if isContainer(typ) && r.Intn(3) != 0 {
		els := elementsOf(v)
		kind := ""
		switch r.Intn(6) {
		case 0: // unknown ID between elements: the reader skips one struct-info, not the element
			kind = "unknown-id"
			junk := make([]byte, siLen(typ)+r.Intn(2)*r.Intn(30))
			r.Read(junk)
			copy(junk, "__JUNK__")
			i := r.Intn(len(els) + 1)
			els = append(els[:i:i], append([][]byte{junk}, els[i:]...)...)
		case 1:
			kind = "swapped"
			if len(els) >= 2 {
				i := r.Intn(len(els) - 1)
				els[i], els[i+1] = els[i+1], els[i]
			}
		case 2:
			kind = "duplicated"
			i := r.Intn(len(els))
			els = append(els[:i+1:i+1], els[i:]...)
		case 3:
			kind = "dropped"
			i := r.Intn(len(els))
			els = append(els[:i:i], els[i+1:]...)
		case 4: // trailing bytes: shorter than a struct-info (ignored) or longer (unknown ID)
			kind = "tail"
			tail := make([]byte, r.Intn(2*siLen(typ)+2))
			r.Read(tail)
			els = append(els, tail)
		case 5: // a second copy of a singleton later in the stream
			kind = "late-duplicate"
			i := r.Intn(len(els))
			els = append(els, els[i])
		}
		return kind, bytes.Join(els, nil)
	}
	switch r.Intn(6) {
	case 0:
		if len(enc) > 0 {
			return "truncated", enc[:r.Intn(len(enc))]
		}
		return "truncated", enc
	case 1: // cut exactly at a field boundary
		_, pos, _ := refPositions(v)
		return "truncated-at-field", enc[:pos[r.Intn(len(pos))]]
	case 2:
		b := append([]byte{}, enc...)
		for k := 0; k < 1+r.Intn(3) && len(b) > 0; k++ {
			i := r.Intn(len(b))
			if r.Intn(2) == 0 && len(b) > 40 {
				i = r.Intn(40)
			}
			if r.Intn(2) == 0 {
				b[i] = boundaryByte(r)
			} else {
				b[i] ^= 1 << uint(r.Intn(8))
			}
		}
		return "mutated", b
	case 3:
		b := make([]byte, r.Intn(80))
		r.Read(b)
		return "random", b
	case 4:
		tail := make([]byte, 1+r.Intn(40))
		r.Read(tail)
		return "valid+tail", append(append([]byte{}, enc...), tail...)
	}
	return "valid", enc
}

func (prop) Gen(r *rand.Rand, tier string) []core.Case {
	nRT, nRead := 450, 250
	if tier == "thorough" {
		nRT, nRead = 14000, 8000
	}
	all := typeNames()
	var cs []core.Case
	// every structure type at least a few times, then the weighted stream
	for round := 0; round < 2; round++ {
		for _, typ := range all {
			s, wt := genValue(r, typ, round == 1, false)
			cs = append(cs, rtCase(r, typ, s, wt))
		}
	}
	for i := 0; i < nRT; i++ {
		typ := pickType(r, all)
		s, wt := genValue(r, typ, r.Intn(4) == 0, r.Intn(3) == 0)
		cs = append(cs, rtCase(r, typ, s, wt))
	}
	for i := 0; i < nRead; i++ {
		typ := pickType(r, all)
		if r.Intn(3) == 0 { // the element loop of the two containers has the most behaviour
			typ = []string{"cbntbootpolicy.Manifest", "bgbootpolicy.Manifest"}[r.Intn(2)]
		}
		s, _ := genValue(r, typ, r.Intn(8) == 0, false)
		kind, b := hostile(r, typ, s)
		cs = append(cs, core.Case{Kind: "read/" + kind, Op: "read", Args: map[string]string{"type": typ, "hex": core.Hex(b)}})
	}
	return cs
}

func rtCase(r *rand.Rand, typ string, s structure, wt bool) core.Case {
	rest := []byte{}
	if r.Intn(3) == 0 {
		n := r.Intn(24)
		if isContainer(typ) {
			n = r.Intn(siLen(typ)) // shorter than a struct-info: ignored by the element loop
		}
		rest = make([]byte, n)
		r.Read(rest)
	}
	kind := "rt/sub"
	for _, m := range manifests {
		if m == typ {
			kind = "rt/" + typ
		}
	}
	if !wt {
		kind += "/ill-typed"
	}
	w := "0"
	if wt {
		w = "1"
	}
	return core.Case{Kind: kind, Op: "rt", Args: map[string]string{
		"type": typ, "val": dump(reflect.ValueOf(s).Elem()), "wt": w, "rest": core.Hex(rest)}}
}

// ---------------------------------------------------------------- running the implementation

func readRes(s structure, n int64, err error) string {
	if err != nil {
		return "err" // error texts and kinds are not part of the property
	}
	return fmt.Sprintf("ok %d %s", n, dump(reflect.ValueOf(s).Elem()))
}

func (prop) Run(c core.Case) core.Outcome {
	var out core.Outcome
	M := func(what, req, exp string) {
		out.Checks = append(out.Checks, core.Check{Tag: "M", What: what, Req: req, Exp: exp})
	}
	O := func(what, exp, got string) {
		out.Checks = append(out.Checks, core.Check{Tag: "O", What: what, Exp: exp, Got: got, Sig: what + ":" + c.Args["type"]})
	}
	typ := c.Args["type"]
	switch c.Op {
	case "read":
		in := core.UnHex(c.Args["hex"])
		s := registry[typ]()
		n, err := s.ReadFrom(bytes.NewReader(in))
		M("decode", "dec "+typ+" "+c.Args["hex"], readRes(s, n, err))
		out.Class = "read:" + core.ErrClass(err)
		out.Trivial = len(in) == 0
		if err == nil {
			// what the byte count means: never more than the input, and TotalSize of what was read
			// when nothing was skipped (non-containers)
			O("read-n-within-input", "true", fmt.Sprint(n >= 0 && n <= int64(len(in))))
			if !isContainer(typ) {
				O("read-n-is-totalsize", fmt.Sprint(n), fmt.Sprint(s.TotalSize()))
			}
		}
	case "rt":
		val := c.Args["val"]
		wt := c.Args["wt"] == "1"
		rest := core.UnHex(c.Args["rest"])
		s := fromText(typ, val)
		var buf bytes.Buffer
		n, err := s.WriteTo(&buf)
		enc := append([]byte{}, buf.Bytes()...)
		sv := reflect.ValueOf(s).Elem()
		after := dump(sv) // WriteTo runs Rehash: the value as written

		M("wt", "wt "+typ+" "+val, "ok "+fmt.Sprint(wt))
		M("encode", "enc "+typ+" "+val, "ok "+core.Hex(enc))
		M("rehash", "rehash "+typ+" "+val, "ok "+after)
		M("size", "size "+typ+" "+after, fmt.Sprintf("ok %d", s.TotalSize()))

		O("write-ok", "ok", core.ErrClass(err))
		O("write-n-is-length", fmt.Sprint(len(enc)), fmt.Sprint(n))
		O("totalsize-is-length", fmt.Sprint(len(enc)), fmt.Sprint(s.TotalSize()))
		// the wire layout is the one the declaration and tags prescribe
		O("wire-is-declared-layout", hexOrDigest(refStruct(sv)), hexOrDigest(enc))

		// every <F>Offset() is the position of the field in the output, every <F>TotalSize() its length
		names, pos, fenc := refPositions(sv)
		var expOff, gotOff, expSz, gotSz []string
		pointsAt := "all"
		for i, f := range names {
			off, ok1 := callUint(s, f+"Offset")
			sz, ok2 := callUint(s, f+"TotalSize")
			if !ok1 || !ok2 {
				panic("harness: accessor missing for field " + f)
			}
			expOff = append(expOff, fmt.Sprintf("%s=%d", f, pos[i]))
			gotOff = append(gotOff, fmt.Sprintf("%s=%d", f, off))
			expSz = append(expSz, fmt.Sprintf("%s=%d", f, len(fenc[i])))
			gotSz = append(gotSz, fmt.Sprintf("%s=%d", f, sz))
			lo, hi := int(off), int(off+sz)
			if pointsAt == "all" && (hi > len(enc) || lo > hi || !bytes.Equal(enc[lo:hi], fenc[i])) {
				pointsAt = "not " + f
			}
		}
		O("offsets-are-positions", strings.Join(expOff, ","), strings.Join(gotOff, ","))
		O("field-sizes", strings.Join(expSz, ","), strings.Join(gotSz, ","))
		O("offsets-point-at-fields", "all", pointsAt)
		M("offsets", "offs "+typ+" "+after, "ok "+strings.Join(gotOff, ","))

		sigOffsetOracle(typ, s, enc, O)

		// read back (with unread bytes behind the structure)
		s2 := registry[typ]()
		in := append(append([]byte{}, enc...), rest...)
		rd := bytes.NewReader(in)
		n2, err2 := s2.ReadFrom(rd)
		M("decode", "dec "+typ+" "+core.Hex(in), readRes(s2, n2, err2))
		cls := "ill-typed"
		if wt {
			cls = "wt"
			O("read-ok", "ok", core.ErrClass(err2))
			if err2 == nil {
				O("read-n-is-length", fmt.Sprint(len(enc)), fmt.Sprint(n2))
				if !isContainer(typ) || len(rest) == 0 {
					// the count returned is what was taken from the reader (an element loop also drains
					// a trailing partial struct-info without counting it: Appendix B, not a written manifest)
					O("read-consumed-is-n", fmt.Sprint(n2), fmt.Sprint(len(in)-rd.Len()))
				}
				O("write-read-equal", after, dump(reflect.ValueOf(s2).Elem()))
				O("read-totalsize-is-length", fmt.Sprint(len(enc)), fmt.Sprint(s2.TotalSize()))
				var buf2 bytes.Buffer
				n3, err3 := s2.WriteTo(&buf2)
				O("read-write-identical", "ok "+hexOrDigest(enc), core.ErrClass(err3)+" "+hexOrDigest(buf2.Bytes()))
				O("rewrite-n-is-length", fmt.Sprint(len(enc)), fmt.Sprint(n3))
			}
		}
		out.Class = "rt:" + cls + ",read:" + core.ErrClass(err2)
		out.Trivial = len(enc) == 0
	default:
		panic("unknown op " + c.Op)
	}
	return out
}

// sigOffsetOracle: the stored signature-offset fields point at the key-and-signature structure
// (cbntkey.Manifest.KeyManifestSignatureOffset, cbntbootpolicy BPMH.KeySignatureOffset).  Both are
// uint16: a manifest whose signature starts at or beyond 64 KiB cannot be described by the format.
func sigOffsetOracle(typ string, s structure, enc []byte, O func(what, exp, got string)) {
	sv := reflect.ValueOf(s).Elem()
	var stored uint64
	var ks reflect.Value
	switch typ {
	case "cbntkey.Manifest":
		stored = sv.FieldByName("KeyManifestSignatureOffset").Uint()
		ks = sv.FieldByName("KeyAndSignature")
	case "cbntbootpolicy.Manifest":
		stored = sv.FieldByName("BPMH").FieldByName("KeySignatureOffset").Uint()
		ks = sv.FieldByName("PMSE").FieldByName("KeySignature")
	default:
		return
	}
	want := refStruct(ks)
	// where the structure really is: the last len(want)-long window for the KM (it is the last field),
	// computed from the declared positions for the BPM
	real := -1
	if typ == "cbntkey.Manifest" {
		_, pos, _ := refPositions(sv)
		real = pos[len(pos)-1]
	} else {
		_, pos, _ := refPositions(sv)
		_, ipos, _ := refPositions(sv.FieldByName("PMSE"))
		real = pos[len(pos)-1] + ipos[len(ipos)-1]
	}
	if real >= 1<<16 {
		return
	}
	O("sigoffset-stored", fmt.Sprint(real), fmt.Sprint(stored))
	lo := int(stored)
	got := "outside"
	if lo+len(want) <= len(enc) {
		got = fmt.Sprint(bytes.Equal(enc[lo:lo+len(want)], want))
	}
	O("sigoffset-points-at-keysignature", "true", got)
}
