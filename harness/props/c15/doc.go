// Package c15: harness for property C15 (not built yet).
package c15
