package uefi

// Parser of the recipe text (the inverse of the Recipe() methods), so that a stored case can be
// replayed from its recipe alone.

import (
	"encoding/hex"
	"fmt"
	"strconv"
	"strings"
)

type tokens struct {
	t []string
	i int
}

func tokenize(s string) *tokens {
	s = strings.ReplaceAll(s, "(", " ( ")
	s = strings.ReplaceAll(s, ")", " ) ")
	return &tokens{t: strings.Fields(s)}
}

func (t *tokens) peek() string {
	if t.i < len(t.t) {
		return t.t[t.i]
	}
	return ""
}
func (t *tokens) next() string {
	x := t.peek()
	t.i++
	return x
}
func (t *tokens) expect(s string) {
	if x := t.next(); x != s {
		panic(fmt.Sprintf("recipe: expected %q, got %q at token %d", s, x, t.i-1))
	}
}
func (t *tokens) num() int {
	n, err := strconv.ParseUint(t.next(), 10, 64)
	if err != nil {
		panic("recipe: bad number: " + err.Error())
	}
	return int(n)
}
func (t *tokens) bool01() bool { return t.num() == 1 }

// UnRLE parses the run-length byte form.
func UnRLE(s string) []byte {
	if s == "-" {
		return nil
	}
	var out []byte
	for _, r := range strings.Split(s, ".") {
		if i := strings.IndexByte(r, '*'); i >= 0 {
			b, err := hex.DecodeString(r[:i])
			n, err2 := strconv.Atoi(r[i+1:])
			if err != nil || err2 != nil || len(b) != 1 {
				panic("recipe: bad run " + r)
			}
			out = append(out, rep(b[0], n)...)
		} else {
			b, err := hex.DecodeString(r)
			if err != nil {
				panic("recipe: bad hex " + r)
			}
			out = append(out, b...)
		}
	}
	return out
}

func (t *tokens) bytes() []byte { return UnRLE(t.next()) }

func parseCps(s string) []rune {
	if s == "-" {
		return nil
	}
	var out []rune
	for _, p := range strings.Split(s, ".") {
		n, err := strconv.Atoi(p)
		if err != nil {
			panic("recipe: bad code point")
		}
		out = append(out, rune(n))
	}
	return out
}

func parseBlocks(s string) []Block {
	if s == "-" {
		return nil
	}
	var out []Block
	for _, p := range strings.Split(s, ",") {
		cs := strings.Split(p, ":")
		c, _ := strconv.ParseUint(cs[0], 10, 64)
		z, _ := strconv.ParseUint(cs[1], 10, 64)
		out = append(out, Block{uint32(c), uint32(z)})
	}
	return out
}

func (t *tokens) sec() *Sec {
	t.expect("(")
	s := &Sec{Kind: t.next()}
	switch s.Kind {
	case "sl":
		s.Type = uint8(t.num())
		s.Ext = t.bool01()
		s.Body = t.bytes()
	case "sg":
		s.Ext = t.bool01()
		s.GUID = t.bytes()
		s.DataOffset = uint16(t.num())
		s.Attrs = uint16(t.num())
		s.Body = t.bytes()
	case "su":
		s.Name = parseCps(t.next())
	case "sv":
		s.Build = uint16(t.num())
		s.Name = parseCps(t.next())
	case "sd":
		s.Type = uint8(t.num())
		if o := t.next(); o != "-" {
			for _, p := range strings.Split(o, ",") {
				cs := strings.Split(p, ":")
				n, _ := strconv.Atoi(cs[0])
				op := DepOp{Op: uint8(n)}
				if len(cs) == 2 {
					op.GUID = mustHex(cs[1])
				}
				s.Ops = append(s.Ops, op)
			}
		}
	case "sf":
		s.FV = t.fv()
	default:
		panic("recipe: bad section kind " + s.Kind)
	}
	t.expect(")")
	return s
}

func (t *tokens) file() *File {
	t.expect("(")
	f := &File{Kind: t.next()}
	switch f.Kind {
	case "fl":
		f.GUID = t.bytes()
		f.CkH = uint8(t.num())
		f.CkF = uint8(t.num())
		f.Type = uint8(t.num())
		f.Attrs = uint8(t.num())
		f.State = uint8(t.num())
		f.Ext = t.bool01()
		f.Body = t.bytes()
	case "fs":
		f.GUID = t.bytes()
		f.Type = uint8(t.num())
		f.Attrs = uint8(t.num())
		f.State = uint8(t.num())
		for t.peek() == "(" {
			f.Secs = append(f.Secs, t.sec())
		}
	default:
		panic("recipe: bad file kind " + f.Kind)
	}
	t.expect(")")
	return f
}

func (t *tokens) fv() *FV {
	t.expect("(")
	v := &FV{}
	switch k := t.next(); k {
	case "fv":
		v.ZV = t.bytes()
		v.V3 = t.bool01()
		v.Attrs = uint32(t.num())
		v.Rev = uint8(t.num())
		v.Rsv = uint8(t.num())
		v.Blocks = parseBlocks(t.next())
		if t.peek() == "-" {
			t.next()
		} else {
			t.expect("(")
			t.expect("ext")
			v.ExtHdr = &ExtHdr{Gap: t.bytes(), FVName: t.bytes(), Data: t.bytes()}
			t.expect(")")
		}
		t.expect("(")
		t.expect("files")
		for t.peek() == "(" {
			v.Files = append(v.Files, t.file())
		}
		t.expect(")")
		v.Free = t.num()
	case "fvo":
		v.Other = true
		v.ZV = t.bytes()
		v.GUID = t.bytes()
		v.Attrs = uint32(t.num())
		v.Rev = uint8(t.num())
		v.Rsv = uint8(t.num())
		v.Blocks = parseBlocks(t.next())
		v.Body = t.bytes()
	default:
		panic("recipe: bad volume kind " + k)
	}
	t.expect(")")
	return v
}

func (t *tokens) biosBody() *Bios {
	b := &Bios{}
	for {
		t.expect("(")
		switch k := t.next(); k {
		case "it":
			pad := t.bytes()
			b.Items = append(b.Items, Item{Pad: pad, FV: t.fv()})
			t.expect(")")
		case "tail":
			b.Tail = t.bytes()
			t.expect(")")
			return b
		default:
			panic("recipe: bad BIOS element " + k)
		}
	}
}

// ParseRecipe is the inverse of (*Img).Recipe; it panics on malformed text.
func ParseRecipe(s string) *Img {
	t := tokenize(s)
	t.expect("(")
	img := &Img{}
	switch k := t.next(); k {
	case "flash":
		f := &Flash{Desc: t.bytes()}
		for t.peek() == "(" {
			t.expect("(")
			r := &Region{Kind: t.next()}
			switch r.Kind {
			case "rb":
				r.Bios = t.biosBody()
			case "me", "gap":
				r.Data = t.bytes()
				if r.Kind == "me" {
					r.Idx = 1
				}
			case "raw":
				r.Idx = t.num()
				r.Data = t.bytes()
			default:
				panic("recipe: bad region kind " + r.Kind)
			}
			t.expect(")")
			f.Regions = append(f.Regions, r)
		}
		img.Flash = f
	case "bios":
		img.Bios = t.biosBody()
	default:
		panic("recipe: bad image kind " + k)
	}
	t.expect(")")
	if t.i != len(t.t) {
		panic("recipe: trailing tokens")
	}
	return img
}
