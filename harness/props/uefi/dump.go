// Package uefi is the shared Go side of the UEFI core model: the canonical dump of a
// uefi.Firmware tree (same text as lean/FianoModel/Uefi/Dump.lean), process-state helpers, and the
// reference image builder / generator (image.go, gen.go).  Property packages import it.
//
// Dump format: one record per node, pre-order, records joined by " | "; inside a record the node
// kind, then key=value fields separated by one space in a fixed order.  Numbers are decimal, byte
// strings lower-case hex ("-" when empty), fnv = FNV-1a-64 of the node's buffer (16 hex digits),
// len = length of the node's buffer, n = number of children that follow.
//
//	flash size len fnv                                  children: ifd, regions…
//	ifd   ms rs mas map ers regs=b:l,… master=id:r:w,… len fnv
//	bios  base limit blen n len fnv                     (base/limit "-" for a bare BIOS region)
//	me    base limit len fnv
//	raw   t base limit len fnv                          (t = -1 for gap regions)
//	pad   off len fnv
//	fv    off guid length sig attrs hlen ck eho rsv rev blocks=c:s,… name ehs doff resz free n len fnv
//	file  guid ckh ckf type attrs size3 state ext doff nvar n len fnv
//	sec   ord size3 type ext ts=guid:doff:attrs:comp|- name=cp.cp…|- build ver=cp.cp…|-
//	      depex=op[:guid],…|- n len fnv
package uefi

import (
	"bytes"
	"encoding/binary"
	"encoding/hex"
	"fmt"
	"strconv"
	"strings"

	fuefi "github.com/linuxboot/fiano/pkg/uefi"

	"verif/harness/core"
)

func hexOf(b []byte) string {
	if len(b) == 0 {
		return "-"
	}
	return hex.EncodeToString(b)
}

func tail(b []byte) string { return fmt.Sprintf("len=%d fnv=%016x", len(b), core.FNV(b)) }

func orDash(s string) string {
	if s == "" {
		return "-"
	}
	return s
}

func cpsOf(s string) string {
	var ps []string
	for _, r := range s {
		ps = append(ps, strconv.Itoa(int(r)))
	}
	return orDash(strings.Join(ps, "."))
}

func frOf(fr *fuefi.FlashRegion) string {
	if fr == nil {
		return "base=- limit=-"
	}
	return fmt.Sprintf("base=%d limit=%d", fr.Base, fr.Limit)
}

func b2i(b bool) int {
	if b {
		return 1
	}
	return 0
}

// DumpRecords returns the canonical pre-order records of a tree.
func DumpRecords(f fuefi.Firmware) []string {
	var out []string
	dump(f, &out)
	return out
}

// Dump is the canonical dump text.
func Dump(f fuefi.Firmware) string { return strings.Join(DumpRecords(f), " | ") }

// Digest is FNV-1a-64 of the dump text, 16 hex digits.
func Digest(f fuefi.Firmware) string { return fmt.Sprintf("%016x", core.FNV([]byte(Dump(f)))) }

// Short is the "kind:len" list of all nodes.
func Short(f fuefi.Firmware) (int, string) {
	recs := DumpRecords(f)
	var ps []string
	for _, r := range recs {
		ws := strings.Split(r, " ")
		l := "?"
		for _, w := range ws {
			if strings.HasPrefix(w, "len=") {
				l = w[4:]
				break
			}
		}
		ps = append(ps, ws[0]+":"+l)
	}
	return len(recs), strings.Join(ps, ",")
}

func dump(f fuefi.Firmware, out *[]string) {
	switch f := f.(type) {
	case *fuefi.FlashImage:
		*out = append(*out, fmt.Sprintf("flash size=%d %s", f.FlashSize, tail(f.Buf())))
		dump(&f.IFD, out)
		for _, r := range f.Regions {
			dump(r.Value, out)
		}
	case *fuefi.FlashDescriptor:
		var m bytes.Buffer
		if f.DescriptorMap != nil {
			binary.Write(&m, binary.LittleEndian, f.DescriptorMap)
		}
		var regs, mas []string
		ers := 0
		if f.Region != nil {
			ers = int(f.Region.FlashBlockEraseSize)
			for _, r := range f.Region.FlashRegions {
				regs = append(regs, fmt.Sprintf("%d:%d", r.Base, r.Limit))
			}
		}
		if f.Master != nil {
			for _, p := range []fuefi.RegionPermissions{f.Master.BIOS, f.Master.ME, f.Master.GBE} {
				mas = append(mas, fmt.Sprintf("%d:%d:%d", p.ID, p.Read, p.Write))
			}
		}
		*out = append(*out, fmt.Sprintf("ifd ms=%d rs=%d mas=%d map=%s ers=%d regs=%s master=%s %s",
			f.DescriptorMapStart, f.RegionStart, f.MasterStart, hexOf(m.Bytes()), ers,
			strings.Join(regs, ","), strings.Join(mas, ","), tail(f.Buf())))
	case *fuefi.BIOSRegion:
		*out = append(*out, fmt.Sprintf("bios %s blen=%d n=%d %s", frOf(f.FRegion), f.Length, len(f.Elements), tail(f.Buf())))
		for _, e := range f.Elements {
			dump(e.Value, out)
		}
	case *fuefi.MERegion:
		*out = append(*out, fmt.Sprintf("me %s %s", frOf(f.FRegion), tail(f.Buf())))
	case *fuefi.RawRegion:
		*out = append(*out, fmt.Sprintf("raw t=%d %s %s", int(f.RegionType), frOf(f.FRegion), tail(f.Buf())))
	case *fuefi.BIOSPadding:
		*out = append(*out, fmt.Sprintf("pad off=%d %s", f.Offset, tail(f.Buf())))
	case *fuefi.FirmwareVolume:
		var bl []string
		for _, b := range f.Blocks {
			bl = append(bl, fmt.Sprintf("%d:%d", b.Count, b.Size))
		}
		*out = append(*out, fmt.Sprintf("fv off=%d guid=%s length=%d sig=%d attrs=%d hlen=%d ck=%d eho=%d rsv=%d rev=%d blocks=%s name=%s ehs=%d doff=%d resz=%d free=%d n=%d %s",
			f.FVOffset, hexOf(f.FileSystemGUID[:]), f.Length, f.Signature, f.Attributes, f.HeaderLen, f.Checksum,
			f.ExtHeaderOffset, f.Reserved, f.Revision, orDash(strings.Join(bl, ",")), hexOf(f.FVName[:]),
			f.ExtHeaderSize, f.DataOffset, b2i(f.Resizable), f.FreeSpace, len(f.Files), tail(f.Buf())))
		for _, x := range f.Files {
			dump(x, out)
		}
	case *fuefi.File:
		h := f.Header
		*out = append(*out, fmt.Sprintf("file guid=%s ckh=%d ckf=%d type=%d attrs=%d size3=%d state=%d ext=%d doff=%d nvar=%d n=%d %s",
			hexOf(h.GUID[:]), h.Checksum.Header, h.Checksum.File, uint8(h.Type), uint8(h.Attributes),
			fuefi.Read3Size(h.Size), uint8(h.State), h.ExtendedSize, f.DataOffset, b2i(f.NVarStore != nil),
			len(f.Sections), tail(f.Buf())))
		for _, s := range f.Sections {
			dump(s, out)
		}
	case *fuefi.Section:
		ts := "-"
		if f.TypeSpecific != nil {
			if g, ok := f.TypeSpecific.Header.(*fuefi.SectionGUIDDefined); ok && g != nil {
				ts = fmt.Sprintf("%s:%d:%d:%s", hexOf(g.GUID[:]), g.DataOffset, g.Attributes, orDash(g.Compression))
			}
		}
		var ops []string
		for _, d := range f.DepEx {
			code, ok := fuefi.DepExNamesToOpCodes[d.OpCode]
			c := int(code)
			if !ok {
				c = 255
			}
			if d.GUID != nil {
				ops = append(ops, fmt.Sprintf("%d:%s", c, hexOf(d.GUID[:])))
			} else {
				ops = append(ops, strconv.Itoa(c))
			}
		}
		*out = append(*out, fmt.Sprintf("sec ord=%d size3=%d type=%d ext=%d ts=%s name=%s build=%d ver=%s depex=%s n=%d %s",
			f.FileOrder, fuefi.Read3Size(f.Header.Size), uint8(f.Header.Type), f.Header.ExtendedSize, ts,
			cpsOf(f.Name), f.BuildNumber, cpsOf(f.Version), orDash(strings.Join(ops, ",")), len(f.Encapsulated), tail(f.Buf())))
		for _, e := range f.Encapsulated {
			dump(e.Value, out)
		}
	default:
		*out = append(*out, fmt.Sprintf("other %T %s", f, tail(f.Buf())))
	}
}
