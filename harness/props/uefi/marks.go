package uefi

// Marks: the offsets of every header in a built image (for structure-aware mutants).

type Mark struct {
	Off  int
	Len  int
	Kind string // "desc", "fv", "file", "sec"
}

func (s *Sec) marks(off int, out *[]Mark) {
	hl := 4
	b := s.Ser()
	if len(b) >= 4 && b[0] == 0xFF && b[1] == 0xFF && b[2] == 0xFF {
		hl = 8
	}
	if s.Kind == "sg" {
		*out = append(*out, Mark{off, hl + 20, "sec"})
		return
	}
	*out = append(*out, Mark{off, hl, "sec"})
	if s.Kind == "sf" {
		s.FV.marks(off+hl, out)
	}
}

func (f *File) marks(off int, out *[]Mark) {
	b := f.Ser()
	hl := 24
	if b[20] == 0xFF && b[21] == 0xFF && b[22] == 0xFF {
		hl = 32
	}
	*out = append(*out, Mark{off, hl, "file"})
	if f.Kind == "fs" {
		rel := 0
		for _, s := range f.Secs {
			rel = alignUp(rel, 4)
			s.marks(off+hl+rel, out)
			rel += len(s.Ser())
		}
	}
}

func (v *FV) marks(off int, out *[]Mark) {
	*out = append(*out, Mark{off, v.hdrLen(), "fv"})
	if v.Other {
		return
	}
	if v.ExtHdr != nil {
		*out = append(*out, Mark{off + v.hdrLen() + len(v.ExtHdr.Gap), 20, "fv"})
	}
	o := v.preLen()
	for _, f := range v.Files {
		o = alignUp(o, 8)
		f.marks(off+o, out)
		o += len(f.Ser())
	}
}

func (b *Bios) marks(off int, out *[]Mark) {
	for _, it := range b.Items {
		off += len(it.Pad)
		it.FV.marks(off, out)
		off += it.FV.Size()
	}
}

// Marks lists the headers of the image in offset order.
func (i *Img) Marks() []Mark {
	var out []Mark
	if i.Flash != nil {
		out = append(out, Mark{16, 20, "desc"})
		rs := int(i.Flash.Desc[mapStart(i.Flash.Desc)+2]) * 16
		out = append(out, Mark{rs, 64, "desc"})
		off := 4096
		for _, r := range i.Flash.Regions {
			if r.Kind == "rb" {
				r.Bios.marks(off, &out)
			}
			off += len(r.Bytes())
		}
		return out
	}
	i.Bios.marks(0, &out)
	return out
}

func mapStart(desc []byte) int {
	if string(desc[16:20]) == "\x5a\xa5\xf0\x0f" {
		return 20
	}
	return 4
}
