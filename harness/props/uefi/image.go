package uefi

// Reference image builder: the Go twin of lean/FianoModel/Uefi/Spec.lean (`Img`, `ser`) and
// Recipe.lean (the text form).  It is written from the PI specification / IFD layout and does not
// call fiano's assemble code: sizes, alignment padding and checksums are computed here.

import (
	"encoding/binary"
	"encoding/hex"
	"fmt"
	"strconv"
	"strings"
)

type DepOp struct {
	Op   uint8
	GUID []byte // nil or 16 bytes
}

type Block struct{ Count, Size uint32 }

type ExtHdr struct {
	Gap    []byte
	FVName []byte // 16
	Data   []byte
}

// Sec is one of: "sl" leaf, "sg" GUID-defined (not decoded), "su" UI, "sv" version, "sd" depex,
// "sf" firmware volume image.
type Sec struct {
	Kind       string
	Type       uint8
	Ext        bool
	Body       []byte
	GUID       []byte
	DataOffset uint16
	Attrs      uint16
	Name       []rune // su, sv
	Build      uint16
	Ops        []DepOp
	FV         *FV
}

// File is "fl" (leaf, verbatim body) or "fs" (sectioned, sizes and checksums computed).
type File struct {
	Kind  string
	GUID  []byte
	CkH   uint8 // fl only
	CkF   uint8 // fl only
	Type  uint8
	Attrs uint8
	State uint8
	Ext   bool // fl only
	Body  []byte
	Secs  []*Sec
}

// FV is an FFSv2/v3 volume, or (Other) a volume of another file system with an opaque body.
type FV struct {
	Other  bool
	ZV     []byte // 16
	V3     bool
	GUID   []byte // Other only
	Attrs  uint32
	Rev    uint8
	Rsv    uint8
	Blocks []Block
	ExtHdr *ExtHdr
	Files  []*File
	Free   int
	Body   []byte // Other only
}

type Item struct {
	Pad []byte
	FV  *FV
}

type Bios struct {
	Items []Item
	Tail  []byte
}

// Region kinds: "rb" BIOS (table entry 0), "me" (entry 1), "raw" (entry Idx), "gap".
type Region struct {
	Kind string
	Idx  int
	Bios *Bios
	Data []byte
}

type Flash struct {
	Desc    []byte // 4096
	Regions []*Region
}

type Img struct {
	Flash *Flash
	Bios  *Bios
}

var (
	GuidFFS2 = mustHex("78e58c8c3d8a1c4f9935896185c32dd3")
	GuidFFS3 = mustHex("7ac07354cb3dca4dbd6f1e9689e7349a")
	GuidNVAR = mustHex("a3b9f5ce6d477f499fdce98143e0422c")
)

func mustHex(s string) []byte {
	b, err := hex.DecodeString(s)
	if err != nil {
		panic(err)
	}
	return b
}

func alignUp(n, a int) int { return (n + a - 1) / a * a }

func rep(b byte, n int) []byte {
	if n < 0 {
		panic("negative fill")
	}
	out := make([]byte, n)
	for i := range out {
		out[i] = b
	}
	return out
}

func le(n int, v uint64) []byte {
	out := make([]byte, n)
	for i := 0; i < n; i++ {
		out[i] = byte(v >> (8 * i))
	}
	return out
}

// UCS2 encodes code points as UTF-16LE with one NUL terminator (what a UI / version section holds).
func UCS2(name []rune) []byte {
	var out []byte
	unit := func(u int) { out = append(out, byte(u), byte(u>>8)) }
	for _, r := range append(append([]rune{}, name...), 0) {
		switch {
		case r <= 0xFFFF:
			unit(int(r))
		case r <= 0x10FFFF:
			unit(0xD800 + int(r-0x10000)>>10&0x3FF)
			unit(0xDC00 + int(r-0x10000)&0x3FF)
		default:
			unit(0xFFFD)
			unit(0xFFFD)
		}
	}
	return out
}

func secHdr(typ uint8, ext bool, total int) []byte {
	if ext {
		return append([]byte{0xFF, 0xFF, 0xFF, typ}, le(4, uint64(total))...)
	}
	return append(le(3, uint64(total)), typ)
}

func canonSec(typ uint8, body []byte) []byte {
	if len(body)+4 >= 0xFFFFFF {
		return append(secHdr(typ, true, len(body)+8), body...)
	}
	return append(secHdr(typ, false, len(body)+4), body...)
}

func encodeOps(ops []DepOp) []byte {
	var out []byte
	for _, o := range ops {
		out = append(out, o.Op)
		out = append(out, o.GUID...)
	}
	return out
}

func (s *Sec) Ser() []byte {
	hl := 4
	if s.Ext {
		hl = 8
	}
	switch s.Kind {
	case "sl":
		return append(secHdr(s.Type, s.Ext, hl+len(s.Body)), s.Body...)
	case "sg":
		out := secHdr(0x02, s.Ext, hl+20+len(s.Body))
		out = append(out, s.GUID...)
		out = append(out, le(2, uint64(s.DataOffset))...)
		out = append(out, le(2, uint64(s.Attrs))...)
		return append(out, s.Body...)
	case "su":
		return canonSec(0x15, UCS2(s.Name))
	case "sv":
		return canonSec(0x14, append(le(2, uint64(s.Build)), UCS2(s.Name)...))
	case "sd":
		return canonSec(s.Type, encodeOps(s.Ops))
	case "sf":
		return canonSec(0x17, s.FV.Ser())
	}
	panic("bad section kind " + s.Kind)
}

func serSecs(secs []*Sec) []byte {
	var out []byte
	for _, s := range secs {
		out = append(out, rep(0, alignUp(len(out), 4)-len(out))...)
		out = append(out, s.Ser()...)
	}
	return out
}

func sum8(b []byte) uint8 {
	var s uint8
	for _, x := range b {
		s += x
	}
	return s
}

func fileHdr(guid []byte, ckh, ckf, typ, attrs uint8, ext bool, total int, state uint8) []byte {
	out := append([]byte{}, guid...)
	out = append(out, ckh, ckf, typ, attrs)
	if ext {
		out = append(out, 0xFF, 0xFF, 0xFF)
	} else {
		out = append(out, le(3, uint64(total))...)
	}
	out = append(out, state)
	if ext {
		out = append(out, le(8, uint64(total))...)
	}
	return out
}

// StoredAttrs is the attribute byte as stored (bit 0 follows the size for sectioned files).
func (f *File) StoredAttrs() uint8 {
	if f.Kind == "fl" {
		return f.Attrs
	}
	d := len(serSecs(f.Secs))
	if 24+d >= 0xFFFFFF {
		return f.Attrs | 1
	}
	return f.Attrs &^ 1
}

func (f *File) Ser() []byte {
	if f.Kind == "fl" {
		hl := 24
		if f.Ext {
			hl = 32
		}
		return append(fileHdr(f.GUID, f.CkH, f.CkF, f.Type, f.Attrs, f.Ext, hl+len(f.Body), f.State), f.Body...)
	}
	data := serSecs(f.Secs)
	large := 24+len(data) >= 0xFFFFFF
	total := 24 + len(data)
	attrs := f.Attrs &^ 1
	if large {
		total = 32 + len(data)
		attrs = f.Attrs | 1
	}
	ckf := uint8(0xAA)
	if f.Attrs&0x40 != 0 {
		ckf = 0 - sum8(data)
	}
	ckh := 0 - sum8(fileHdr(f.GUID, 0, 0, f.Type, attrs, large, total, 0))
	return append(fileHdr(f.GUID, ckh, ckf, f.Type, attrs, large, total, f.State), data...)
}

func (v *FV) hdrLen() int { return 56 + 8*(len(v.Blocks)+1) }

func (v *FV) preLen() int {
	if v.ExtHdr == nil {
		return v.hdrLen()
	}
	return alignUp(v.hdrLen()+len(v.ExtHdr.Gap)+20+len(v.ExtHdr.Data), 8)
}

func (v *FV) header(guid []byte, length int, eho int) []byte {
	mk := func(ck uint16) []byte {
		out := append([]byte{}, v.ZV...)
		out = append(out, guid...)
		out = append(out, le(8, uint64(length))...)
		out = append(out, '_', 'F', 'V', 'H')
		out = append(out, le(4, uint64(v.Attrs))...)
		out = append(out, le(2, uint64(v.hdrLen()))...)
		out = append(out, le(2, uint64(ck))...)
		out = append(out, le(2, uint64(eho))...)
		out = append(out, v.Rsv, v.Rev)
		for _, b := range v.Blocks {
			out = append(out, le(4, uint64(b.Count))...)
			out = append(out, le(4, uint64(b.Size))...)
		}
		return append(out, rep(0, 8)...)
	}
	h := mk(0)
	var sum uint16
	for i := 0; i+1 < len(h); i += 2 {
		sum += binary.LittleEndian.Uint16(h[i:])
	}
	return mk(0 - sum)
}

// FilesEnd is the end offset of the last file.
func (v *FV) FilesEnd() int {
	off := v.preLen()
	for _, f := range v.Files {
		off = alignUp(off, 8) + len(f.Ser())
	}
	return off
}

func (v *FV) Size() int {
	if v.Other {
		return v.hdrLen() + len(v.Body)
	}
	return v.FilesEnd() + v.Free
}

func (v *FV) Ser() []byte {
	if v.Other {
		return append(v.header(v.GUID, v.hdrLen()+len(v.Body), 0), v.Body...)
	}
	guid := GuidFFS2
	if v.V3 {
		guid = GuidFFS3
	}
	var body []byte
	eho := 0
	if e := v.ExtHdr; e != nil {
		eho = v.hdrLen() + len(e.Gap)
		body = append(body, e.Gap...)
		body = append(body, e.FVName...)
		body = append(body, le(4, uint64(20+len(e.Data)))...)
		body = append(body, e.Data...)
		x := v.hdrLen() + len(body)
		body = append(body, rep(0xFF, alignUp(x, 8)-x)...)
	}
	off := v.hdrLen() + len(body)
	for _, f := range v.Files {
		body = append(body, rep(0xFF, alignUp(off, 8)-off)...)
		fb := f.Ser()
		body = append(body, fb...)
		off = alignUp(off, 8) + len(fb)
	}
	body = append(body, rep(0xFF, v.Free)...)
	return append(v.header(guid, v.hdrLen()+len(body), eho), body...)
}

func (b *Bios) Ser() []byte {
	var out []byte
	for _, it := range b.Items {
		out = append(out, it.Pad...)
		out = append(out, it.FV.Ser()...)
	}
	return append(out, b.Tail...)
}

func (r *Region) Bytes() []byte {
	if r.Kind == "rb" {
		return r.Bios.Ser()
	}
	return r.Data
}

func (i *Img) Ser() []byte {
	if i.Flash != nil {
		out := append([]byte{}, i.Flash.Desc...)
		for _, r := range i.Flash.Regions {
			out = append(out, r.Bytes()...)
		}
		return out
	}
	return i.Bios.Ser()
}

// ---------------------------------------------------------------- recipe text

// RLE renders bytes in the run-length form of Recipe.lean.
func RLE(b []byte) string {
	if len(b) == 0 {
		return "-"
	}
	var parts []string
	var lit []byte
	flush := func() {
		if len(lit) > 0 {
			parts = append(parts, hex.EncodeToString(lit))
			lit = nil
		}
	}
	for i := 0; i < len(b); {
		j := i
		for j < len(b) && b[j] == b[i] {
			j++
		}
		if j-i >= 12 {
			flush()
			parts = append(parts, fmt.Sprintf("%02x*%d", b[i], j-i))
		} else {
			lit = append(lit, b[i:j]...)
		}
		i = j
	}
	flush()
	return strings.Join(parts, ".")
}

func b01(b bool) string {
	if b {
		return "1"
	}
	return "0"
}

func cps(r []rune) string {
	if len(r) == 0 {
		return "-"
	}
	var ps []string
	for _, c := range r {
		ps = append(ps, strconv.Itoa(int(c)))
	}
	return strings.Join(ps, ".")
}

func (s *Sec) Recipe() string {
	switch s.Kind {
	case "sl":
		return fmt.Sprintf("(sl %d %s %s)", s.Type, b01(s.Ext), RLE(s.Body))
	case "sg":
		return fmt.Sprintf("(sg %s %s %d %d %s)", b01(s.Ext), RLE(s.GUID), s.DataOffset, s.Attrs, RLE(s.Body))
	case "su":
		return fmt.Sprintf("(su %s)", cps(s.Name))
	case "sv":
		return fmt.Sprintf("(sv %d %s)", s.Build, cps(s.Name))
	case "sd":
		var ps []string
		for _, o := range s.Ops {
			if o.GUID != nil {
				ps = append(ps, fmt.Sprintf("%d:%s", o.Op, hex.EncodeToString(o.GUID)))
			} else {
				ps = append(ps, strconv.Itoa(int(o.Op)))
			}
		}
		ops := "-"
		if len(ps) > 0 {
			ops = strings.Join(ps, ",")
		}
		return fmt.Sprintf("(sd %d %s)", s.Type, ops)
	case "sf":
		return fmt.Sprintf("(sf %s)", s.FV.Recipe())
	}
	panic("bad section kind")
}

func (f *File) Recipe() string {
	if f.Kind == "fl" {
		return fmt.Sprintf("(fl %s %d %d %d %d %d %s %s)", RLE(f.GUID), f.CkH, f.CkF, f.Type, f.Attrs, f.State, b01(f.Ext), RLE(f.Body))
	}
	var ss []string
	for _, s := range f.Secs {
		ss = append(ss, s.Recipe())
	}
	return fmt.Sprintf("(fs %s %d %d %d %s)", RLE(f.GUID), f.Type, f.Attrs, f.State, strings.Join(ss, " "))
}

func blocksText(bs []Block) string {
	if len(bs) == 0 {
		return "-"
	}
	var ps []string
	for _, b := range bs {
		ps = append(ps, fmt.Sprintf("%d:%d", b.Count, b.Size))
	}
	return strings.Join(ps, ",")
}

func (v *FV) Recipe() string {
	if v.Other {
		return fmt.Sprintf("(fvo %s %s %d %d %d %s %s)", RLE(v.ZV), RLE(v.GUID), v.Attrs, v.Rev, v.Rsv, blocksText(v.Blocks), RLE(v.Body))
	}
	ext := "-"
	if e := v.ExtHdr; e != nil {
		ext = fmt.Sprintf("(ext %s %s %s)", RLE(e.Gap), RLE(e.FVName), RLE(e.Data))
	}
	var fs []string
	for _, f := range v.Files {
		fs = append(fs, f.Recipe())
	}
	return fmt.Sprintf("(fv %s %s %d %d %d %s %s (files %s) %d)", RLE(v.ZV), b01(v.V3), v.Attrs, v.Rev, v.Rsv,
		blocksText(v.Blocks), ext, strings.Join(fs, " "), v.Free)
}

func (b *Bios) recipeBody() string {
	var ps []string
	for _, it := range b.Items {
		ps = append(ps, fmt.Sprintf("(it %s %s)", RLE(it.Pad), it.FV.Recipe()))
	}
	ps = append(ps, fmt.Sprintf("(tail %s)", RLE(b.Tail)))
	return strings.Join(ps, " ")
}

func (r *Region) Recipe() string {
	switch r.Kind {
	case "rb":
		return "(rb " + r.Bios.recipeBody() + ")"
	case "me":
		return "(me " + RLE(r.Data) + ")"
	case "raw":
		return fmt.Sprintf("(raw %d %s)", r.Idx, RLE(r.Data))
	case "gap":
		return "(gap " + RLE(r.Data) + ")"
	}
	panic("bad region kind")
}

func (i *Img) Recipe() string {
	if i.Flash != nil {
		ps := []string{"(flash", RLE(i.Flash.Desc)}
		for _, r := range i.Flash.Regions {
			ps = append(ps, r.Recipe())
		}
		return strings.Join(ps, " ") + ")"
	}
	return "(bios " + i.Bios.recipeBody() + ")"
}
