package uefi

// Structured generator of well-formed images straight from the reference grammar
// (lean/FianoModel/Uefi/Spec.lean).  Every random choice comes from the *rand.Rand passed in.
// Pad files, alignment and checksums are computed here (not by fiano).

import (
	"math/rand"
)

// Gen carries the generator's knobs.
type Gen struct {
	R        *rand.Rand
	MaxAlign int  // largest data alignment index (into fileAlignments) that may be requested
	Depth    int  // remaining nesting depth for volume-image sections
	NoNested bool // never generate nested volumes
}

var fileAlignments = []int{1, 16, 128, 512, 1024, 4096, 32768, 65536, 131072, 262144, 524288, 1048576,
	2097152, 4194304, 8388608, 16777216}

var supportedTypes = []uint8{2, 3, 4, 5, 7, 8, 9, 10, 11, 12, 13, 14, 15}
var leafFileTypes = []uint8{1, 1, 1, 6, 6, 0, 0x10, 0x7f, 0xC0, 0xDF, 0xE0, 0xEF, 0xF1, 0xFF}
var leafSecTypes = []uint8{0x10, 0x10, 0x11, 0x12, 0x19, 0x19, 0x16, 0x18, 0x03, 0x01, 0x00, 0x1a, 0x40, 0xFF, 0x04}

func (g *Gen) bytesN(n int) []byte {
	b := make([]byte, n)
	switch g.R.Intn(4) {
	case 0:
		for i := range b {
			b[i] = 0xFF
		}
	case 1:
		// zeros
	default:
		g.R.Read(b)
	}
	return b
}

func (g *Gen) guid() []byte {
	b := make([]byte, 16)
	g.R.Read(b)
	return b
}

func (g *Gen) size(small, big int) int {
	if small < 0 {
		small = 0
	}
	if big < small {
		big = small
	}
	switch g.R.Intn(10) {
	case 0:
		return 0
	case 1:
		return 1 + g.R.Intn(4)
	case 2:
		return g.R.Intn(big + 1)
	default:
		return g.R.Intn(small + 1)
	}
}

func (g *Gen) name() []rune {
	n := g.R.Intn(12)
	if g.R.Intn(8) == 0 {
		n = 0
	}
	var out []rune
	if g.R.Intn(6) == 0 {
		// Latin-1 only: every code unit has a zero high byte, some are above U+007F ("Intel® GOP Driver") —
		// the strings on which a single-byte fast path and the real UCS-2 decoder differ (seeded defect c01-7)
		for i := 0; i < n; i++ {
			if g.R.Intn(3) == 0 {
				out = append(out, rune(0x80+g.R.Intn(0x80)))
			} else {
				out = append(out, rune(' '+g.R.Intn(95)))
			}
		}
		return out
	}
	for i := 0; i < n; i++ {
		switch g.R.Intn(12) {
		case 0:
			out = append(out, rune(0x80+g.R.Intn(0xD800-0x80))) // BMP below the surrogates
		case 1:
			out = append(out, rune(0xE000+g.R.Intn(0x2000))) // BMP above the surrogates (incl. U+FFFD)
		case 2:
			out = append(out, rune(0x10000+g.R.Intn(0x100000))) // surrogate pair
		case 3:
			out = append(out, 0) // embedded NUL
		default:
			out = append(out, rune('A'+g.R.Intn(58)))
		}
	}
	return out
}

func (g *Gen) depex() []DepOp {
	var ops []DepOp
	for n := g.R.Intn(6); n > 0; n-- {
		op := uint8([]int{0, 1, 2, 2, 2, 3, 4, 5, 6, 7, 9}[g.R.Intn(11)])
		d := DepOp{Op: op}
		if op <= 2 {
			d.GUID = g.guid()
		}
		ops = append(ops, d)
	}
	return append(ops, DepOp{Op: 8})
}

var codecGuids = [][]byte{
	mustHex("5020533dda5cd04f879e0f7f630d5afb"), // BROTLI
	mustHex("98584eee143959429d6edc7bd79403cf"), // LZMA
	mustHex("bde62ad45213fb4b909aca72a6eae889"), // LZMAX86
	mustHex("f53332ced62c874d91524a238bb6d1c4"), // ZLIB
}

// Sec generates one section; budget bounds the payload.
func (g *Gen) Sec(budget int) *Sec {
	k := g.R.Intn(20)
	switch {
	case k < 8:
		t := leafSecTypes[g.R.Intn(len(leafSecTypes))]
		s := &Sec{Kind: "sl", Type: t, Body: g.bytesN(g.size(min(200, budget), min(2000, budget)))}
		if t == 0x10 && len(s.Body) >= 2 {
			s.Body[0], s.Body[1] = 'M', 'Z'
		}
		known := t <= 3 || (t >= 0x10 && t <= 0x19) || t == 0x1b || t == 0x1c
		if known && g.R.Intn(8) == 0 {
			s.Ext = true
		}
		return s
	case k < 10:
		s := &Sec{Kind: "sg", GUID: g.guid(), Body: g.bytesN(g.size(min(100, budget), min(1000, budget)))}
		s.Ext = g.R.Intn(10) == 0
		hl := 4
		if s.Ext {
			hl = 8
		}
		s.DataOffset = uint16(hl + 20)
		switch g.R.Intn(6) {
		case 0:
			s.Attrs = 1 // processing required, but nobody knows the GUID
		case 1:
			s.Attrs = 2
		case 2:
			s.GUID = codecGuids[g.R.Intn(4)] // a codec GUID without the processing bit: not decoded
			s.Attrs = uint16(g.R.Intn(2) * 2)
		case 3:
			s.DataOffset = uint16(g.R.Intn(65536))
			s.Attrs = uint16(g.R.Intn(0x8000) * 2)
		}
		return s
	case k < 13:
		return &Sec{Kind: "su", Name: g.name()}
	case k < 15:
		return &Sec{Kind: "sv", Build: uint16(g.R.Intn(65536)), Name: g.name()}
	case k < 18:
		return &Sec{Kind: "sd", Type: []uint8{0x13, 0x1b, 0x1c}[g.R.Intn(3)], Ops: g.depex()}
	default:
		if g.Depth <= 0 || g.NoNested || budget < 200 {
			return &Sec{Kind: "sl", Type: 0x19, Body: g.bytesN(g.size(min(64, budget), min(64, budget)))}
		}
		sub := *g
		sub.Depth--
		sub.MaxAlign = min(g.MaxAlign, 3)
		return &Sec{Kind: "sf", FV: sub.FV(min(budget, 1500+g.R.Intn(2000)), g.R.Intn(4) == 0)}
	}
}

func attrsFor(alignIdx int) uint8 {
	return uint8((alignIdx&7)<<3 | (alignIdx>>3)<<1)
}

// HeaderChecksum is the spec's header checksum of a file header whose checksum, body-checksum and
// state bytes are taken as zero.
func HeaderChecksum(f *File, total int) uint8 {
	return 0 - sum8(fileHdr(f.GUID, 0, 0, f.Type, f.Attrs, f.Ext, total, 0))
}

// File generates one file (without placing it).
func (g *Gen) File(budget int, alignIdx int) *File {
	attrs := attrsFor(alignIdx)
	if g.R.Intn(2) == 0 {
		attrs |= 0x40
	}
	if g.R.Intn(4) == 0 {
		attrs |= 0x04
	}
	if g.R.Intn(16) == 0 {
		attrs |= 0x80
	}
	state := uint8(0xF8)
	if g.R.Intn(8) == 0 {
		state = uint8(g.R.Intn(256))
	}
	if g.R.Intn(3) == 0 {
		// leaf file
		f := &File{Kind: "fl", GUID: g.guid(), Type: leafFileTypes[g.R.Intn(len(leafFileTypes))], Attrs: attrs, State: state}
		if g.R.Intn(10) == 0 {
			f.Type = supportedTypes[g.R.Intn(len(supportedTypes))] // header-only file of a parsed type
		} else {
			f.Body = g.bytesN(g.size(min(300, budget), min(4000, budget)))
		}
		if g.R.Intn(8) == 0 {
			f.Ext = true // Size = FFFFFF with a small extended size: accepted by the reader
		}
		if f.Ext != (g.R.Intn(10) == 0) {
			f.Attrs |= 1
		}
		hl := 24
		if f.Ext {
			hl = 32
		}
		f.CkH = HeaderChecksum(f, hl+len(f.Body))
		f.CkF = 0xAA
		if f.Attrs&0x40 != 0 {
			f.CkF = 0 - sum8(f.Body)
		}
		if g.R.Intn(10) == 0 { // checksums of unparsed files are never looked at
			f.CkH, f.CkF = uint8(g.R.Intn(256)), uint8(g.R.Intn(256))
		}
		return f
	}
	f := &File{Kind: "fs", GUID: g.guid(), Type: supportedTypes[g.R.Intn(len(supportedTypes))], Attrs: attrs, State: state}
	if g.R.Intn(4) == 0 {
		f.Attrs |= 1 // ignored: bit 0 follows the size
	}
	n := 1 + g.R.Intn(4)
	for i := 0; i < n; i++ {
		f.Secs = append(f.Secs, g.Sec(budget/n))
	}
	return f
}

// PadFile builds a pad file of exactly `size` bytes (size >= 24).
func PadFile(size int) *File {
	f := &File{Kind: "fl", GUID: rep(0xFF, 16), Type: 0xF0, State: 0xF8, CkF: 0xAA}
	hl := 24
	if size >= 0xFFFFFF {
		f.Ext = true
		f.Attrs = 1
		hl = 32
	}
	f.Body = rep(0xFF, size-hl)
	f.CkH = HeaderChecksum(f, size)
	return f
}

// placeAligned returns the pad file (or nil) needed before a file with the given stored attribute
// byte when the previous file ended at `off`.
func (g *Gen) placeAligned(off int, attrs uint8) *File {
	a := fileAlignments[int(attrs&0x38)>>3|int(attrs&2)<<2]
	if a == 1 {
		return nil
	}
	al := alignUp(off, 8)
	hl := 24
	if attrs&1 != 0 {
		hl = 32
	}
	target := alignUp(al+hl, a) - hl
	for target != al && target-al < 24 {
		target += a
	}
	if target != al && g.R.Intn(6) == 0 {
		target += a * (1 + g.R.Intn(2)) // any later aligned slot is equally well-formed
	}
	if target == al {
		return nil
	}
	return PadFile(target - al)
}

// PlaceAligned returns the minimal pad file (or nil) needed before a file with the given stored
// attribute byte when the previous file ended at `off`.
func PlaceAligned(off int, attrs uint8) *File {
	a := fileAlignments[int(attrs&0x38)>>3|int(attrs&2)<<2]
	if a == 1 {
		return nil
	}
	al := alignUp(off, 8)
	hl := 24
	if attrs&1 != 0 {
		hl = 32
	}
	target := alignUp(al+hl, a) - hl
	for target != al && target-al < 24 {
		target += a
	}
	if target == al {
		return nil
	}
	return PadFile(target - al)
}

// FV generates an FFS volume of roughly `budget` bytes.
func (g *Gen) FV(budget int, v3 bool) *FV {
	v := &FV{ZV: make([]byte, 16), V3: v3, Attrs: 0x0004FEFF, Rev: 2}
	switch g.R.Intn(4) {
	case 0:
		g.R.Read(v.ZV)
	case 1:
		v.ZV = rep(0xFF, 16)
	}
	if g.R.Intn(4) == 0 {
		v.Attrs = g.R.Uint32() | 0x800
	}
	if g.R.Intn(8) == 0 {
		v.Rev = uint8(g.R.Intn(256))
		v.Rsv = uint8(g.R.Intn(256))
	}
	nb := 1
	if g.R.Intn(5) == 0 {
		nb = 2 + g.R.Intn(2)
	}
	v.Blocks = make([]Block, nb)
	if g.R.Intn(4) == 0 {
		e := &ExtHdr{FVName: g.guid()}
		switch g.R.Intn(3) {
		case 0:
			e.Gap = PadFile(24).Ser() // the extended header lives in the body of a leading pad file
		case 1:
			e.Gap = g.bytesN(g.R.Intn(20))
		}
		e.Data = g.bytesN(g.R.Intn(30))
		v.ExtHdr = e
	}
	nfiles := g.R.Intn(13)
	if g.R.Intn(8) == 0 {
		nfiles = 0
	}
	off := v.preLen()
	for i := 0; i < nfiles && off < budget; i++ {
		ai := 0
		if g.R.Intn(3) == 0 {
			ai = 1 + g.R.Intn(max(g.MaxAlign, 1))
		}
		f := g.File(max(24, (budget-off)/2), ai)
		if pad := g.placeAligned(off, f.StoredAttrs()); pad != nil {
			v.Files = append(v.Files, pad)
			off = alignUp(off, 8) + len(pad.Ser())
		} else if g.R.Intn(12) == 0 {
			pad := PadFile(24 + 8*g.R.Intn(6)) // a pad file nobody needs
			if g.placeAligned(alignUp(off, 8)+len(pad.Ser()), f.StoredAttrs()) == nil {
				v.Files = append(v.Files, pad)
				off = alignUp(off, 8) + len(pad.Ser())
			}
		}
		v.Files = append(v.Files, f)
		off = alignUp(off, 8) + len(f.Ser())
	}
	// free space: the volume length is a multiple of 8; a header-only last file must not end the volume
	free := alignUp(off, 8) - off
	switch g.R.Intn(8) {
	case 0: // nothing (file exactly fills the volume)
	case 1:
		free += 8
	case 2:
		free += 16
	case 3:
		free += 24
	case 4:
		free += 32
	default:
		free += 8 * g.R.Intn(64)
		if budget > off {
			free += alignUp(g.R.Intn(budget-off+1), 8)
		}
	}
	v.Free = free
	g.fixFree(v)
	g.fillBlocks(v)
	return v
}

// fixFree repairs the two tail shapes the grammar excludes.
func (g *Gen) fixFree(v *FV) {
	end := v.FilesEnd()
	length := end + v.Free
	// every file header must start strictly before length-24
	off := v.preLen()
	last := off
	for _, f := range v.Files {
		last = alignUp(off, 8)
		off = last + len(f.Ser())
	}
	if len(v.Files) > 0 && last+24 >= length {
		v.Free += 8
		length += 8
	}
	if end+24 < length && alignUp(end, 8)+32 > length {
		v.Free += 8
	}
	if v.Size() < 64 {
		v.Free += alignUp(64-v.Size(), 8)
	}
}

func (g *Gen) fillBlocks(v *FV) {
	length := v.Size()
	bs := []int{4096, 512, 256, 64, 16, 8}
	size := 8
	for _, b := range bs {
		if length%b == 0 {
			size = b
			break
		}
	}
	if g.R.Intn(8) == 0 {
		size = bs[g.R.Intn(len(bs))]
	}
	n := len(v.Blocks)
	total := length / size
	for i := 0; i < n; i++ {
		c := total / n
		if i == 0 {
			c = total - (total/n)*(n-1)
		}
		if c == 0 {
			c = 1
		}
		v.Blocks[i] = Block{uint32(c), uint32(size)}
	}
}

// OtherFV generates a volume of a file system the tool does not parse.
func (g *Gen) OtherFV(budget int) *FV {
	v := &FV{Other: true, ZV: make([]byte, 16), Attrs: 0x0004FEFF, Rev: 2, GUID: g.guid()}
	if g.R.Intn(2) == 0 {
		v.GUID = GuidNVAR // an NVRAM volume, as found in real images
	}
	v.Blocks = []Block{{1, 0}}
	v.Body = g.bytesN(alignUp(g.size(min(300, budget), min(3000, budget)), 8))
	v.Blocks[0] = Block{uint32(v.Size()/8 + 1), 8}
	return v
}

// plant writes "_FVH" where the volume scan does not look (off < 32, or an offset that is not a
// multiple of 8, relative to the start of the padding).
func (g *Gen) plant(p []byte) {
	if len(p) < 16 {
		return
	}
	var q int
	if g.R.Intn(2) == 0 {
		q = 8 * g.R.Intn(min(4, (len(p)-4)/8+1))
		if q+4 > len(p) {
			return
		}
	} else {
		q = g.R.Intn(len(p) - 4)
		if q%8 == 0 {
			q++
		}
	}
	copy(p[q:], "_FVH")
}

func hasProbeHit(buf []byte) bool {
	for o := 32; o+4 < len(buf); o += 8 {
		if string(buf[o:o+4]) == "_FVH" {
			return true
		}
	}
	return false
}

// Bios generates a BIOS region of `want` bytes (exactly, when want > 0 and the volumes fit) with
// nfv >= 1 volumes.
func (g *Gen) Bios(want int, nfv int) *Bios {
	b := &Bios{}
	budget := want
	if budget <= 0 {
		budget = 1024 + g.R.Intn(16*1024)
	}
	used := 0
	for i := 0; i < nfv; i++ {
		var pad []byte
		if g.R.Intn(2) == 0 || (i == 0 && g.R.Intn(3) > 0) {
			pad = nil
		} else {
			pad = g.bytesN(8 * (1 + g.R.Intn(24)))
			if g.R.Intn(4) == 0 {
				g.plant(pad)
			}
		}
		per := max((budget-used)/(nfv-i), 256)
		var fv *FV
		if g.R.Intn(8) == 0 {
			fv = g.OtherFV(per / 2)
		} else {
			fv = g.FV(per*3/4, g.R.Intn(4) == 0)
		}
		// the scan must find this volume exactly after the padding
		probe := append(append([]byte{}, pad...), fv.Ser()[:48]...)
		if hasProbeHitBefore(probe, len(pad)+40) {
			pad = rep(0xFF, len(pad))
			fv.ZV = make([]byte, 16)
		}
		b.Items = append(b.Items, Item{Pad: pad, FV: fv})
		used += len(pad) + fv.Size()
	}
	tl := 0
	if want > 0 {
		if used <= want {
			tl = want - used
		} else {
			tl = alignUp(used, 4096) - used
		}
	} else {
		tl = []int{0, 0, 1, 7, 8, 33, 100}[g.R.Intn(7)]
	}
	b.Tail = g.bytesN(tl)
	if g.R.Intn(4) == 0 {
		g.plant(b.Tail)
	}
	if hasProbeHit(b.Tail) {
		b.Tail = rep(0xFF, tl)
	}
	return b
}

func hasProbeHitBefore(buf []byte, limit int) bool {
	for o := 32; o+4 < len(buf) && o < limit; o += 8 {
		if string(buf[o:o+4]) == "_FVH" {
			return true
		}
	}
	return false
}

// Flash generates a flash image with `blocks` 4 KiB blocks after the descriptor.
func (g *Gen) Flash(blocks int) *Flash {
	f := &Flash{Desc: make([]byte, 4096)}
	g.R.Read(f.Desc)
	if g.R.Intn(3) == 0 {
		for i := range f.Desc {
			f.Desc[i] = 0xFF
		}
	}
	ms := 20
	if g.R.Intn(8) == 0 {
		copy(f.Desc[0:], []byte{0x5a, 0xa5, 0xf0, 0x0f})
		f.Desc[16] = 0 // not a second signature
		ms = 4
	} else {
		copy(f.Desc[16:], []byte{0x5a, 0xa5, 0xf0, 0x0f})
	}
	// region and master sections: outside the map, not overlapping each other
	rb := 3 + g.R.Intn(0xF8)
	mb := g.R.Intn(256)
	for mb*16 < 36 || (mb*16+12 > rb*16 && mb*16 < rb*16+64) {
		mb = g.R.Intn(256)
	}
	f.Desc[ms+2] = byte(rb)
	f.Desc[ms+4] = byte(mb)
	rs := rb * 16
	f.Desc[rs], f.Desc[rs+1] = 0, 0 // reserved; see Gen.ReservedBytes
	// choose the regions
	nreg := 1 + g.R.Intn(4)
	idxs := []int{0}
	pool := g.R.Perm(14)
	for _, p := range pool {
		if len(idxs) >= nreg {
			break
		}
		idxs = append(idxs, p+1)
	}
	g.R.Shuffle(len(idxs), func(i, j int) { idxs[i], idxs[j] = idxs[j], idxs[i] })
	// distribute the blocks: every region >= 1 block, optional gaps
	type seg struct {
		idx int // -1 = gap
		n   int
	}
	var segs []seg
	for _, i := range idxs {
		if g.R.Intn(4) == 0 {
			segs = append(segs, seg{-1, 1})
		}
		segs = append(segs, seg{i, 1})
	}
	if g.R.Intn(4) == 0 {
		segs = append(segs, seg{-1, 1})
	}
	for len(segs) > blocks && len(segs) > 1 { // too many: drop gaps, then regions (never the BIOS region)
		dropped := false
		for i, s := range segs {
			if s.idx == -1 {
				segs = append(segs[:i], segs[i+1:]...)
				dropped = true
				break
			}
		}
		if !dropped {
			for i, s := range segs {
				if s.idx != 0 {
					segs = append(segs[:i], segs[i+1:]...)
					break
				}
			}
		}
	}
	total := 0
	for _, s := range segs {
		total += s.n
	}
	for total < blocks {
		segs[g.R.Intn(len(segs))].n++
		total++
	}
	// contents first (a BIOS region may come out larger than planned)
	for k := range segs {
		s := &segs[k]
		size := s.n * 4096
		switch {
		case s.idx == -1:
			f.Regions = append(f.Regions, &Region{Kind: "gap", Data: g.bytesN(size)})
		case s.idx == 0:
			bios := g.Bios(size, 1+g.R.Intn(3))
			s.n = len(bios.Ser()) / 4096
			f.Regions = append(f.Regions, &Region{Kind: "rb", Bios: bios})
		case s.idx == 1:
			d := g.bytesN(size)
			if g.R.Intn(2) == 0 { // a flash partition table the ME parser will look at
				copy(d[16:], "$FPT")
				copy(d[20:], le(4, uint64(g.R.Intn(4))))
			}
			f.Regions = append(f.Regions, &Region{Kind: "me", Idx: 1, Data: d})
		default:
			f.Regions = append(f.Regions, &Region{Kind: "raw", Idx: s.idx, Data: g.bytesN(size)})
		}
	}
	// the table
	maxIdx := 0
	tbl := make([][2]int, 15)
	used := make([]bool, 15)
	blk := 1
	for _, s := range segs {
		if s.idx >= 0 {
			tbl[s.idx] = [2]int{blk, blk + s.n - 1}
			used[s.idx] = true
			if s.idx > maxIdx {
				maxIdx = s.idx
			}
		}
		blk += s.n
	}
	nr := 0
	if g.R.Intn(3) == 0 {
		nr = maxIdx + 1 + g.R.Intn(15-maxIdx)
		if nr > 15 {
			nr = 15
		}
	}
	f.Desc[ms+3] = byte(nr)
	for i := 0; i < 15; i++ {
		if used[i] {
			continue
		}
		switch g.R.Intn(6) {
		case 0:
			tbl[i] = [2]int{0, 0}
		case 1:
			tbl[i] = [2]int{0xFFFF, 0xFFFF}
		case 2:
			tbl[i] = [2]int{0x7FFF, 0}
		case 3:
			tbl[i] = [2]int{5 + g.R.Intn(100), 4} // limit < base
		case 4:
			tbl[i] = [2]int{blk + g.R.Intn(50), blk + 60} // valid but outside the flash
		default:
			if nr != 0 && i >= nr {
				tbl[i] = [2]int{1, 1 + g.R.Intn(3)} // "falsely valid" entry past NumberOfRegions
			} else {
				tbl[i] = [2]int{1 + g.R.Intn(20), 0}
			}
		}
	}
	for i, e := range tbl {
		copy(f.Desc[rs+4+4*i:], le(2, uint64(e[0])))
		copy(f.Desc[rs+6+4*i:], le(2, uint64(e[1])))
	}
	return f
}
