package uefi

import (
	"fmt"

	flog "github.com/linuxboot/fiano/pkg/log"
	fuefi "github.com/linuxboot/fiano/pkg/uefi"
)

// Fatal is what the harness logger panics with instead of exiting the process.
type Fatal struct{ Msg string }

type quietLogger struct{}

func (quietLogger) Warnf(string, ...interface{})  {}
func (quietLogger) Errorf(string, ...interface{}) {}
func (quietLogger) Fatalf(f string, a ...interface{}) {
	panic(Fatal{fmt.Sprintf(f, a...)})
}

// ResetState puts fiano's process-wide switches back to what a fresh process has, and makes
// log.Fatalf observable (it panics with a Fatal value instead of calling os.Exit).
func ResetState() {
	fuefi.Attributes = fuefi.ROMAttributes{ErasePolarity: 0xF0} // poisonedPolarity
	fuefi.ReadOnly = false
	fuefi.DisableDecompression = false
	fuefi.SuppressErasePolarityError = false
	flog.DefaultLogger = quietLogger{}
}

// Outcome of running a piece of fiano code: "ok", "err", "panic" or "fatal".
func Guard(f func() error) (class string, detail string) {
	defer func() {
		if r := recover(); r != nil {
			if ft, ok := r.(Fatal); ok {
				class, detail = "fatal", ft.Msg
				return
			}
			class, detail = "panic", fmt.Sprint(r)
		}
	}()
	if err := f(); err != nil {
		return "err", err.Error()
	}
	return "ok", ""
}
