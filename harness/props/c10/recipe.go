// Package c10: NVAR stores round-trip, and compaction keeps every live variable
// (pkg/uefi/nvram.go, pkg/visitors/nvramcompact.go, nvarinvalidate.go, assemble.go, pkg/unicode).
package c10

import (
	"bytes"
	"fmt"
	"sort"
	"strconv"
	"strings"
	"unicode/utf8"

	"github.com/linuxboot/fiano/pkg/uefi"
	"verif/harness/core"
)

// ---- the reference grammar on the Go side (mirror of lean/FianoModel/Nvram/Spec.lean; the two
// serializers are compared by digest on every recipe case)

type ext struct {
	Attrs byte
	Body  []byte
}

type entry struct {
	Kind   byte // 'v' variable, 'd' data-only, 'x' dead (valid bit clear)
	Flags  int  // v,d: subset of 0x01|0x20|0x40 ; x: the whole attribute byte (< 0x80)
	Inline []byte
	Index  int    // used when Inline == nil
	ASCII  bool   // v
	Name   []byte // v, ascii
	Chars  []rune // v, ucs2: scalar values (may hold surrogates in non-WF recipes)
	Value  []byte // v,d: value ; x: body
	Nested *recipe // v,d: the value is itself a store (then Value is ignored)
	Ext    *ext
	Next   int // relative offset of the successor, -1 = none ; x: raw 24-bit value
}

// value is the value bytes: nested stores are serialized first.
func (e *entry) value() []byte {
	if e.Nested != nil {
		return e.Nested.ser()
	}
	return e.Value
}

// valueWire: hex bytes, or "n" + hex of the wire form of the nested recipe.
func (e *entry) valueWire() string {
	if e.Nested != nil {
		return "n" + core.Hex([]byte(e.Nested.wire()))
	}
	return core.Hex(e.Value)
}

func (r *recipe) hasNested() bool {
	for i := range r.Entries {
		if r.Entries[i].Nested != nil {
			return true
		}
	}
	return false
}

type recipe struct {
	Pol     byte
	Free    int
	Guids   [][]byte
	Entries []entry
	tgt     []int // generator bookkeeping only: index of the entry each link targets (-1 = none)
}

var nvarSig = []byte{0x4E, 0x56, 0x41, 0x52}

func u16le(u int) []byte { return []byte{byte(u), byte(u >> 8)} }

func scalarUnits(c rune) []byte {
	if c < 0x10000 {
		return u16le(int(c))
	}
	c -= 0x10000
	return append(u16le(0xD800+int(c)/1024), u16le(0xDC00+int(c)%1024)...)
}

func (e *entry) nameSer() []byte {
	if e.ASCII {
		return append(append([]byte{}, e.Name...), 0)
	}
	var b []byte
	for _, c := range e.Chars {
		b = append(b, scalarUnits(c)...)
	}
	return append(b, 0, 0)
}

func (e *entry) guidSer() []byte {
	if e.Inline != nil {
		return e.Inline
	}
	return []byte{byte(e.Index)}
}

func (x *ext) ser() []byte {
	if x == nil {
		return nil
	}
	b := append([]byte{x.Attrs}, x.Body...)
	return append(b, u16le(len(x.Body)+3)...)
}

func (e *entry) content() []byte {
	if e.Kind == 'x' {
		return nil
	}
	return append(append([]byte{}, e.value()...), e.Ext.ser()...)
}

func (e *entry) body() []byte {
	switch e.Kind {
	case 'v':
		b := append([]byte{}, e.guidSer()...)
		b = append(b, e.nameSer()...)
		return append(b, e.content()...)
	case 'd':
		return e.content()
	}
	return e.Value
}

func (e *entry) size() int { return 10 + len(e.body()) }

func (e *entry) attrs() byte {
	xb := 0
	if e.Ext != nil {
		xb = 0x10
	}
	switch e.Kind {
	case 'v':
		a := 0x80 + e.Flags + xb
		if e.ASCII {
			a += 2
		}
		if e.Inline != nil {
			a += 4
		}
		return byte(a)
	case 'd':
		return byte(0x80 + 8 + e.Flags + xb)
	}
	return byte(e.Flags)
}

func (e *entry) nextField(pol byte) int {
	if e.Kind == 'x' {
		return e.Next
	}
	if e.Next < 0 {
		if pol == 0xFF {
			return 0xFFFFFF
		}
		return 0
	}
	return e.Next
}

func (e *entry) ser(pol byte) []byte {
	b := append([]byte{}, nvarSig...)
	b = append(b, u16le(e.size())...)
	n := e.nextField(pol)
	b = append(b, byte(n), byte(n>>8), byte(n>>16), e.attrs())
	return append(b, e.body()...)
}

func (r *recipe) ser() []byte {
	var b []byte
	for i := range r.Entries {
		b = append(b, r.Entries[i].ser(r.Pol)...)
	}
	for i := 0; i < r.Free; i++ {
		b = append(b, r.Pol)
	}
	for i := len(r.Guids) - 1; i >= 0; i-- {
		b = append(b, r.Guids[i]...)
	}
	return b
}

// ---- wire format (parsed by lean/Driver/C10.lean parseRecipe)

func extWire(x *ext) string {
	if x == nil {
		return "-"
	}
	return fmt.Sprintf("%d:%s", x.Attrs, core.Hex(x.Body))
}

func nextWire(n int) string {
	if n < 0 {
		return "-"
	}
	return strconv.Itoa(n)
}

func (e *entry) wire() string {
	switch e.Kind {
	case 'v':
		g := "i" + strconv.Itoa(e.Index)
		if e.Inline != nil {
			g = "x" + core.Hex(e.Inline)
		}
		n := "a" + core.Hex(e.Name)
		if !e.ASCII {
			var cs []string
			for _, c := range e.Chars {
				cs = append(cs, strconv.Itoa(int(c)))
			}
			n = "u" + strings.Join(cs, ".")
		}
		return fmt.Sprintf("v,%d,%s,%s,%s,%s,%s", e.Flags, g, n, e.valueWire(), extWire(e.Ext), nextWire(e.Next))
	case 'd':
		return fmt.Sprintf("d,%d,%s,%s,%s", e.Flags, e.valueWire(), extWire(e.Ext), nextWire(e.Next))
	}
	return fmt.Sprintf("x,%d,%d,%s", e.Flags, e.Next, core.Hex(e.Value))
}

func (r *recipe) wire() string {
	gs := "-"
	if len(r.Guids) > 0 {
		var ss []string
		for _, g := range r.Guids {
			ss = append(ss, core.Hex(g))
		}
		gs = strings.Join(ss, ".")
	}
	es := "-"
	if len(r.Entries) > 0 {
		var ss []string
		for i := range r.Entries {
			ss = append(ss, r.Entries[i].wire())
		}
		es = strings.Join(ss, ";")
	}
	return fmt.Sprintf("%d~%d~%s~%s", r.Pol, r.Free, gs, es)
}

func parseRecipe(s string) (*recipe, error) {
	p := strings.Split(s, "~")
	if len(p) != 4 {
		return nil, fmt.Errorf("bad recipe")
	}
	r := &recipe{}
	pol, err := strconv.Atoi(p[0])
	if err != nil {
		return nil, err
	}
	r.Pol = byte(pol)
	if r.Free, err = strconv.Atoi(p[1]); err != nil {
		return nil, err
	}
	if p[2] != "-" {
		for _, g := range strings.Split(p[2], ".") {
			r.Guids = append(r.Guids, core.UnHex(g))
		}
	}
	if p[3] == "-" {
		return r, nil
	}
	pext := func(s string) *ext {
		if s == "-" {
			return nil
		}
		q := strings.SplitN(s, ":", 2)
		a, _ := strconv.Atoi(q[0])
		return &ext{Attrs: byte(a), Body: core.UnHex(q[1])}
	}
	var perr error
	pval := func(e *entry, s string) {
		if strings.HasPrefix(s, "n") {
			n, err := parseRecipe(string(core.UnHex(s[1:])))
			if err != nil {
				perr = err
			}
			e.Nested = n
			return
		}
		e.Value = core.UnHex(s)
	}
	pnext := func(s string) int {
		if s == "-" {
			return -1
		}
		n, _ := strconv.Atoi(s)
		return n
	}
	for _, es := range strings.Split(p[3], ";") {
		f := strings.Split(es, ",")
		var e entry
		switch {
		case f[0] == "v" && len(f) == 7:
			e.Kind = 'v'
			e.Flags, _ = strconv.Atoi(f[1])
			if f[2][0] == 'i' {
				e.Index, _ = strconv.Atoi(f[2][1:])
			} else {
				e.Inline = core.UnHex(f[2][1:])
				if e.Inline == nil {
					e.Inline = []byte{}
				}
			}
			if f[3][0] == 'a' {
				e.ASCII = true
				e.Name = core.UnHex(f[3][1:])
			} else if len(f[3]) > 1 {
				for _, c := range strings.Split(f[3][1:], ".") {
					n, _ := strconv.Atoi(c)
					e.Chars = append(e.Chars, rune(n))
				}
			}
			pval(&e, f[4])
			e.Ext = pext(f[5])
			e.Next = pnext(f[6])
		case f[0] == "d" && len(f) == 5:
			e.Kind = 'd'
			e.Flags, _ = strconv.Atoi(f[1])
			pval(&e, f[2])
			e.Ext = pext(f[3])
			e.Next = pnext(f[4])
		case f[0] == "x" && len(f) == 4:
			e.Kind = 'x'
			e.Flags, _ = strconv.Atoi(f[1])
			e.Next, _ = strconv.Atoi(f[2])
			e.Value = core.UnHex(f[3])
		default:
			return nil, fmt.Errorf("bad entry %q", es)
		}
		if perr != nil {
			return nil, perr
		}
		r.Entries = append(r.Entries, e)
	}
	return r, nil
}

// ---- the generator's own reading of a recipe (independent of the Lean model and of fiano):
// the live variables, by following every variable's chain FORWARD from its head.

type liveVar struct {
	GUID, Name, Content []byte
}

func (v liveVar) key() string { return core.Hex(v.GUID) + "," + core.Hex(v.Name) }
func (v liveVar) String() string {
	return fmt.Sprintf("%s,%s,%d:%x", core.Hex(v.GUID), core.Hex(v.Name), len(v.Content), core.FNV(v.Content))
}

func sortedLive(l []liveVar) string {
	var ss []string
	for _, v := range l {
		ss = append(ss, v.String())
	}
	sort.Strings(ss)
	if len(ss) == 0 {
		return "-"
	}
	return strings.Join(ss, "/")
}

// nameText is the UTF-8 text of the name as a tool shows it.
func (e *entry) nameText() []byte {
	if e.ASCII {
		return e.Name
	}
	var b []byte
	for _, c := range e.Chars {
		b = utf8.AppendRune(b, c)
	}
	return b
}

func (r *recipe) guidOf(e *entry) []byte {
	if e.Inline != nil {
		return e.Inline
	}
	if e.Index < len(r.Guids) {
		return r.Guids[e.Index]
	}
	return make([]byte, 16)
}

// live follows each variable's chain from its head: the value of a variable is the content of the
// last entry of its chain; a chain whose link leads nowhere (no data-only entry at the target)
// has no current value.
func (r *recipe) live() []liveVar {
	offs := make([]int, len(r.Entries))
	at := map[int]int{}
	o := 0
	for i := range r.Entries {
		offs[i] = o
		at[o] = i
		o += r.Entries[i].size()
	}
	var out []liveVar
	for i := range r.Entries {
		h := &r.Entries[i]
		if h.Kind != 'v' {
			continue
		}
		cur := i
		ok := true
		for r.Entries[cur].Next >= 0 {
			j, found := at[offs[cur]+r.Entries[cur].Next]
			if !found || r.Entries[j].Kind != 'd' || j <= cur {
				ok = false
				break
			}
			cur = j
		}
		if ok {
			out = append(out, liveVar{r.guidOf(h), h.nameText(), r.Entries[cur].content()})
		}
	}
	return out
}

// ---- independent well-formedness flags (what the generator believes about its recipe)

type wfFlags struct{ wf, links, fits, uniq bool }

func (f wfFlags) String() string {
	if !(f.wf && f.links) {
		// the two readings of "current variables" (forward chase here, ownership table in the Lean
		// specification) only coincide under the link discipline; do not compare uniqueness outside it
		return fmt.Sprintf("wf=%v links=%v fits=%v uniq=?", f.wf, f.links, f.fits)
	}
	return fmt.Sprintf("wf=%v links=%v fits=%v uniq=%v", f.wf, f.links, f.fits, f.uniq)
}
func (f wfFlags) all() bool { return f.wf && f.links && f.fits && f.uniq }

func okScalar(c rune) bool { return (0 < c && c < 0xD800) || (0xE000 <= c && c < 0x110000) }

func okExt(flags int, dataOnly bool, x *ext) bool {
	if x == nil {
		return true
	}
	need := 8
	if dataOnly {
		need = 40
	}
	return flags&0x40 != 0 || len(x.Body) >= need
}

func (r *recipe) flags() wfFlags {
	f := wfFlags{true, true, true, true}
	if r.Pol != 0xFF && r.Pol != 0 {
		f.wf = false
	}
	if len(r.Guids) > 255 {
		f.wf = false
	}
	for _, g := range r.Guids {
		if len(g) != 16 {
			f.wf = false
		}
	}
	maxIdx := -1
	offs := make([]int, len(r.Entries))
	at := map[int]int{}
	o := 0
	for i := range r.Entries {
		e := &r.Entries[i]
		offs[i] = o
		at[o] = i
		o += e.size()
		if e.size() > 65535 {
			f.wf = false
		}
		if e.Kind != 'x' {
			if e.Nested != nil {
				// a store value: no extended header, the parent's polarity, and the four groups of
				// conditions hold inside (at every level)
				nf := e.Nested.flags()
				if e.Ext != nil || e.Nested.Pol != r.Pol || !nf.wf {
					f.wf = false
				}
				f.links = f.links && nf.links
				f.fits = f.fits && nf.fits
				f.uniq = f.uniq && nf.uniq
			} else if e.Ext == nil && bytes.HasPrefix(e.content(), nvarSig) && takenForStore(r.Pol, e.content()) {
				// a raw value that begins with the signature is fine when the entry has an extended header
				// (since fixes/C10-nested-ext-header.diff fiano never reads such content as a store: Lean
				// `valueOk`'s `x.isSome`), or as long as NewNVarStore refuses it (Lean: `notStore`, decided by
				// the model's parser: the two verdicts are compared by M `wf`)
				f.wf = false
			}
		}
		switch e.Kind {
		case 'v', 'd':
			if e.Flags&^0x61 != 0 || !okExt(e.Flags, e.Kind == 'd', e.Ext) {
				f.wf = false
			}
			if e.Next == 0 || e.Next >= 0xFFFFFF {
				f.wf = false
			}
		case 'x':
			if e.Flags >= 128 || e.Next >= 1<<24 {
				f.wf = false
			}
		}
		if e.Kind == 'v' {
			if e.Inline != nil {
				if len(e.Inline) != 16 {
					f.wf = false
				}
			} else {
				if e.Index >= len(r.Guids) {
					f.wf = false
				}
				if e.Index > maxIdx {
					maxIdx = e.Index
				}
			}
			if e.ASCII {
				if bytes.IndexByte(e.Name, 0) >= 0 {
					f.wf = false
				}
			} else {
				for _, c := range e.Chars {
					if !okScalar(c) {
						f.wf = false
					}
				}
			}
		}
	}
	if len(r.Guids) > 0 && maxIdx != len(r.Guids)-1 {
		f.wf = false
	}
	// ownership, forwards: walk every chain from its head, marking members
	owner := make([]int, len(r.Entries)) // index of the head, -1 = nobody
	for i := range owner {
		owner[i] = -1
	}
	// an entry is owned if it is a head, or the first earlier owned entry linking to it exists;
	// computed in physical order (links only go forward)
	targetCount := map[int]int{}
	for i := range r.Entries {
		e := &r.Entries[i]
		switch e.Kind {
		case 'v':
			owner[i] = i
		case 'd':
			for j := 0; j < i; j++ {
				if owner[j] >= 0 && r.Entries[j].Next >= 0 && offs[j]+r.Entries[j].Next == offs[i] {
					owner[i] = owner[j]
					break
				}
			}
		}
		if owner[i] >= 0 && e.Next >= 0 {
			targetCount[offs[i]+e.Next]++
		}
	}
	for t, n := range targetCount {
		if n > 1 {
			f.links = false
		}
		if j, ok := at[t]; ok && r.Entries[j].Kind == 'v' {
			f.links = false
		}
	}
	seen := map[string]bool{}
	for i := range r.Entries {
		e := &r.Entries[i]
		if owner[i] >= 0 {
			h := &r.Entries[owner[i]]
			if 10+len(h.guidSer())+len(h.nameSer())+len(e.content()) > 65535 {
				f.fits = false
			}
		}
	}
	// the current variables have pairwise different (GUID, name)
	for _, v := range r.live() {
		if seen[v.key()] {
			f.uniq = false
		}
		seen[v.key()] = true
	}
	return f
}

// ---- the TREE of current variables (mirror of Spec.NStore.deepLive, computed by the forward chase
// of `live` at every level): a value is bytes or, for a nested store, the current variables of
// that store.

type node struct {
	GUID, Name []byte
	Store      bool
	Leaf       []byte // !Store
	Kids       []node // Store
	Erased     []byte // Store: what compaction leaves when the nested store has no current variable
}

func (r *recipe) deepLive() []node {
	offs := make([]int, len(r.Entries))
	at := map[int]int{}
	o := 0
	for i := range r.Entries {
		offs[i] = o
		at[o] = i
		o += r.Entries[i].size()
	}
	var out []node
	for i := range r.Entries {
		h := &r.Entries[i]
		if h.Kind != 'v' {
			continue
		}
		cur := i
		ok := true
		for r.Entries[cur].Next >= 0 {
			j, found := at[offs[cur]+r.Entries[cur].Next]
			if !found || r.Entries[j].Kind != 'd' || j <= cur {
				ok = false
				break
			}
			cur = j
		}
		if !ok {
			continue
		}
		n := node{GUID: r.guidOf(h), Name: h.nameText()}
		if c := &r.Entries[cur]; c.Nested != nil {
			n.Store = true
			n.Kids = c.Nested.deepLive()
			n.Erased = bytes.Repeat([]byte{r.Pol}, len(c.Nested.ser()))
		} else {
			n.Leaf = c.content()
		}
		out = append(out, n)
	}
	return out
}

// showTree is the canonical text of a tree of current variables, sorted at every level (same
// format as Driver/C10.lean showDeep).
func showTree(ns []node) string {
	var ss []string
	for _, n := range ns {
		s := core.Hex(n.GUID) + "," + core.Hex(n.Name) + ","
		if n.Store {
			s += "{" + showTree(n.Kids) + "}"
		} else {
			s += fmt.Sprintf("=%d:%d", len(n.Leaf), core.FNV(n.Leaf))
		}
		ss = append(ss, s)
	}
	sort.Strings(ss)
	if len(ss) == 0 {
		return "-"
	}
	return strings.Join(ss, "/")
}

// afterCompact is the tree compaction must leave: the variables whose (top-level) name was not
// invalidated; a nested store without current variables has become erased space (plain bytes).
func afterCompact(ns []node, dropped map[string]bool) []node {
	var out []node
	for _, n := range ns {
		if dropped != nil && dropped[string(n.Name)] {
			continue
		}
		if n.Store {
			k := afterCompact(n.Kids, nil)
			if len(k) == 0 {
				n = node{GUID: n.GUID, Name: n.Name, Leaf: n.Erased}
			} else {
				n.Kids = k
			}
		}
		out = append(out, n)
	}
	return out
}

// shape: number of entries, and for every entry that carries a nested store with entries its shape
func (r *recipe) shape() string {
	var ss []string
	for i := range r.Entries {
		e := &r.Entries[i]
		if e.Kind != 'x' && e.Nested != nil && len(e.Nested.Entries) > 0 {
			ss = append(ss, e.Nested.shape())
		} else {
			ss = append(ss, ".")
		}
	}
	return "[" + strings.Join(ss, "") + "]"
}

// checksums: what a reader must report for the extended-header checksums of a well-formed
// recipe, computed from the grammar (independent of fiano and of the Lean model): entries with an
// extended header whose attribute bit 0 is set store a checksum in the byte before the 16-bit size;
// the sum over entry size, attributes and everything behind the header (signature and Next
// excluded) must be 0 mod 256, otherwise the value that would make it so is reported.
func (r *recipe) checksums() string {
	var ss []string
	for i := range r.Entries {
		e := &r.Entries[i]
		if e.Kind == 'x' || e.Ext == nil || e.Ext.Attrs&1 == 0 {
			ss = append(ss, "-")
			continue
		}
		b := e.ser(r.Pol)
		sum := byte(0)
		for k, c := range b {
			if k >= 4 && !(k >= 6 && k <= 8) {
				sum += c
			}
		}
		stored := b[len(b)-3]
		if sum == 0 {
			ss = append(ss, fmt.Sprintf("%d/-", stored))
		} else {
			ss = append(ss, fmt.Sprintf("%d/%d", stored, byte(-sum)))
		}
	}
	if len(ss) == 0 {
		return "-"
	}
	return strings.Join(ss, ",")
}

// fixChecksums makes the stored checksum of some entries correct (the byte before the size field
// of the extended header), so that both verdicts of the reader are exercised.
func fixChecksums(rnd interface{ Intn(int) int }, r *recipe) {
	for i := range r.Entries {
		e := &r.Entries[i]
		if e.Kind == 'x' || e.Ext == nil || e.Ext.Attrs&1 == 0 || len(e.Ext.Body) == 0 || rnd.Intn(2) == 0 {
			continue
		}
		b := e.ser(r.Pol)
		sum := byte(0)
		for k, c := range b {
			if k >= 4 && !(k >= 6 && k <= 8) {
				sum += c
			}
		}
		e.Ext.Body[len(e.Ext.Body)-1] -= sum
	}
}

// normalizeExtNested rewrites every store value that sits in an entry WITH an extended header into
// the raw bytes of that store, at every level: fiano never reads the content of an entry with an extended
// header as a store (fixes/C10-nested-ext-header.diff; before it handed content + header to NewNVarStore),
// so the grammar treats the value as plain bytes that begin with the signature (valueOk: `x.isSome`).
func (r *recipe) normalizeExtNested() {
	for i := range r.Entries {
		e := &r.Entries[i]
		if e.Nested == nil {
			continue
		}
		e.Nested.normalizeExtNested()
		if e.Ext != nil {
			e.Value = e.Nested.ser()
			e.Nested = nil
		}
	}
}

// takenForStore: does uefi.NewNVarStore accept the content under the erase polarity pol?  (a panic
// counts as "taken": the recipe is then outside the well-formed grammar and only T2 looks at it)
func takenForStore(pol byte, content []byte) (taken bool) {
	saved := uefi.Attributes
	defer func() {
		uefi.Attributes = saved
		if recover() != nil {
			taken = true
		}
	}()
	uefi.Attributes = uefi.ROMAttributes{ErasePolarity: pol}
	_, err := uefi.NewNVarStore(append([]byte{}, content...))
	return err == nil
}
