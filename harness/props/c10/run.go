package c10

import (
	"bytes"
	"fmt"
	"math/rand"
	"os"
	"regexp"
	"strconv"
	"strings"
	"unicode/utf8"

	"github.com/linuxboot/fiano/pkg/uefi"
	fu "github.com/linuxboot/fiano/pkg/unicode"
	"github.com/linuxboot/fiano/pkg/visitors"

	"verif/harness/core"
)

type prop struct{}

func init() { core.Register(prop{}) }

func (prop) ID() string { return "C10" }

// ---- canonical forms shared with Driver/C10.lean (showStore / showEntry)

func typeLetter(t uefi.NVarEntryType) string {
	switch t {
	case uefi.InvalidNVarEntry:
		return "I"
	case uefi.InvalidLinkNVarEntry:
		return "IL"
	case uefi.LinkNVarEntry:
		return "L"
	case uefi.DataNVarEntry:
		return "D"
	case uefi.FullNVarEntry:
		return "F"
	}
	return "?"
}

func entryContent(e *uefi.NVar) []byte {
	b := e.Buf()
	if e.DataOffset < 0 || int(e.DataOffset) > len(b) {
		return nil
	}
	return b[e.DataOffset:]
}

func showEntry(e *uefi.NVar) string {
	name := e.Name
	if strings.HasPrefix(name, "Invalid ExtHeader") {
		name = "Invalid ExtHeader" // the rest is the error text
	}
	idx := "-"
	if e.GUIDIndex != nil {
		idx = strconv.Itoa(int(*e.GUIDIndex))
	}
	nested := "-"
	if e.NVarStore != nil && len(e.NVarStore.Entries) > 0 {
		nested = "n"
	}
	return fmt.Sprintf("%s,%s,%s,%s,%d,%d,%d,%d,%d,%d,%d,%s", typeLetter(e.Type), core.Hex(e.GUID[:]), core.Hex([]byte(name)),
		idx, e.Offset, e.NextOffset, e.DataOffset, e.Header.Size, uefi.Read3Size(e.Header.Next), uint8(e.Header.Attributes),
		core.FNV(entryContent(e)), nested)
}

func join(sep string, ss []string) string {
	if len(ss) == 0 {
		return "-"
	}
	return strings.Join(ss, sep)
}

func showStore(s *uefi.NVarStore) string {
	var gs, es []string
	for _, g := range s.GUIDStore {
		gs = append(gs, core.Hex(g[:]))
	}
	for _, e := range s.Entries {
		es = append(es, showEntry(e))
	}
	return fmt.Sprintf("ok %d,%d,%d,%d;G:%s;E:%s", s.FreeSpaceOffset, s.GUIDStoreOffset, s.Length, core.FNV(s.Buf()),
		join(".", gs), join("/", es))
}

// showStoreDeep: as showStore, every entry followed by the nested store fiano attached to it
// (same format as Driver/C10.lean showStoreDeep)
func showStoreDeep(s *uefi.NVarStore) string {
	var gs, es []string
	for _, g := range s.GUIDStore {
		gs = append(gs, core.Hex(g[:]))
	}
	for _, e := range s.Entries {
		x := showEntry(e)
		if e.NVarStore != nil && len(e.NVarStore.Entries) > 0 {
			x += "{" + showStoreDeep(e.NVarStore) + "}"
		}
		es = append(es, x)
	}
	return fmt.Sprintf("ok %d,%d,%d,%d;G:%s;E:%s", s.FreeSpaceOffset, s.GUIDStoreOffset, s.Length, core.FNV(s.Buf()),
		join(".", gs), join("/", es))
}

// showChecksums: what parseExtendedHeader reported per entry (same format as the driver op cksum)
func showChecksums(s *uefi.NVarStore) string {
	var ss []string
	for _, e := range s.Entries {
		switch {
		case e.Checksum == nil:
			ss = append(ss, "-")
		case e.ExpectedChecksum == nil:
			ss = append(ss, fmt.Sprintf("%d/-", *e.Checksum))
		default:
			ss = append(ss, fmt.Sprintf("%d/%d", *e.Checksum, *e.ExpectedChecksum))
		}
	}
	return join(",", ss)
}

// ---- running the implementation, one step at a time

var debug = os.Getenv("C10_DEBUG") != ""

// guard runs f, mapping a panic to "panic" and an error to "err".
func guard(f func() error) (res string) {
	defer func() {
		if r := recover(); r != nil {
			if debug {
				fmt.Fprintln(os.Stderr, "C10 debug: panic:", r)
			}
			res = "panic"
		}
	}()
	if err := f(); err != nil {
		if debug {
			fmt.Fprintln(os.Stderr, "C10 debug: error:", err)
		}
		return "err"
	}
	return "ok"
}

func namePredicate(name []byte) func(f uefi.Firmware) bool {
	if utf8.Valid(name) {
		// the CLI's own predicate: anchored regular expression on the name
		if p, err := visitors.FindNVarPredicate(regexp.QuoteMeta(string(name))); err == nil {
			return p
		}
	}
	return func(f uefi.Firmware) bool {
		nv, ok := f.(*uefi.NVar)
		return ok && nv.Name == string(name)
	}
}

// session is the in-memory tree the ops are applied to: a standalone store, or a firmware
// volume with the store inside a RAW file.
type session struct {
	fvMode   bool
	fv       *uefi.FirmwareVolume
	store    *uefi.NVarStore
	storeOff int
	fvOrig   []byte
}

func (ss *session) root() uefi.Firmware {
	if ss.fvMode {
		return ss.fv
	}
	return ss.store
}

func (ss *session) parse(pol byte, img []byte) string {
	if !ss.fvMode {
		uefi.Attributes = uefi.ROMAttributes{ErasePolarity: pol}
		return guard(func() error {
			s, err := uefi.NewNVarStore(append([]byte(nil), img...))
			ss.store = s
			return err
		})
	}
	uefi.Attributes = uefi.ROMAttributes{ErasePolarity: 0xF0} // unset: the volume decides
	ss.store = nil
	return guard(func() error {
		fv, err := uefi.NewFirmwareVolume(append([]byte(nil), img...), 0, false)
		if err != nil {
			return err
		}
		ss.fv = fv
		if len(fv.Files) != 1 {
			return fmt.Errorf("volume holds %d files", len(fv.Files))
		}
		if fv.Files[0].NVarStore == nil {
			return fmt.Errorf("the NVAR store was not parsed")
		}
		ss.store = fv.Files[0].NVarStore
		return nil
	})
}

func (ss *session) apply(op string) string {
	switch {
	case op == "asm":
		return guard(func() error { return (&visitors.Assemble{}).Run(ss.root()) })
	case op == "compact":
		return guard(func() error { return (&visitors.NVRamCompact{}).Run(ss.root()) })
	case strings.HasPrefix(op, "inv:"):
		name := core.UnHex(op[4:])
		return guard(func() error {
			return (&visitors.NVarInvalidate{Predicate: namePredicate(name)}).Run(ss.root())
		})
	case op == "reparse":
		if ss.fvMode {
			return ss.parse(0, ss.fv.Buf())
		}
		return ss.parse(uefi.Attributes.ErasePolarity, ss.store.Buf())
	}
	panic("harness: unknown op " + op)
}

// ---- oracles

func entriesAsLive(s *uefi.NVarStore) []liveVar {
	var out []liveVar
	for _, e := range s.Entries {
		out = append(out, liveVar{append([]byte(nil), e.GUID[:]...), []byte(e.Name), entryContent(e)})
	}
	return out
}

func allFull(s *uefi.NVarStore) string {
	for i, e := range s.Entries {
		if e.Type != uefi.FullNVarEntry || e.NextOffset != 0 || !e.Header.Attributes.IsValid() ||
			e.Header.Attributes&uefi.NVarEntryDataOnly != 0 {
			return fmt.Sprintf("entry %d: type %v, next offset %d, attributes %#x", i, e.Type, e.NextOffset, uint8(e.Header.Attributes))
		}
	}
	return "all full"
}

// treeOf reads a (compacted) store as a tree of variables: every entry is a variable; its value is
// the nested store fiano attached to it (when it has entries) or the content bytes.
func treeOf(s *uefi.NVarStore) []node {
	var out []node
	for _, e := range s.Entries {
		n := node{GUID: append([]byte(nil), e.GUID[:]...), Name: []byte(e.Name)}
		if e.NVarStore != nil && len(e.NVarStore.Entries) > 0 {
			n.Store = true
			n.Kids = treeOf(e.NVarStore)
		} else {
			n.Leaf = entryContent(e)
		}
		out = append(out, n)
	}
	return out
}

func shapeOf(s *uefi.NVarStore) string {
	var ss []string
	for _, e := range s.Entries {
		if e.NVarStore != nil && len(e.NVarStore.Entries) > 0 {
			ss = append(ss, shapeOf(e.NVarStore))
		} else {
			ss = append(ss, ".")
		}
	}
	return "[" + strings.Join(ss, "") + "]"
}

func allFullDeep(s *uefi.NVarStore) string {
	if r := allFull(s); r != "all full" {
		return r
	}
	for i, e := range s.Entries {
		if e.NVarStore != nil {
			if r := allFullDeep(e.NVarStore); r != "all full" {
				return fmt.Sprintf("nested in entry %d: %s", i, r)
			}
		}
	}
	return "all full"
}

func uniqueDeep(ns []node) string {
	seen := map[string]bool{}
	for _, n := range ns {
		k := core.Hex(n.GUID) + "," + core.Hex(n.Name)
		if seen[k] {
			return "duplicate " + k
		}
		seen[k] = true
		if n.Store {
			if r := uniqueDeep(n.Kids); r != "unique" {
				return r
			}
		}
	}
	return "unique"
}

func uniqueKeys(l []liveVar) string {
	seen := map[string]bool{}
	for _, v := range l {
		if seen[v.key()] {
			return "duplicate " + v.key()
		}
		seen[v.key()] = true
	}
	return "unique"
}

func diffPos(a, b []byte) string {
	if bytes.Equal(a, b) {
		return "identical"
	}
	n := len(a)
	if len(b) < n {
		n = len(b)
	}
	for i := 0; i < n; i++ {
		if a[i] != b[i] {
			return fmt.Sprintf("differs at %d (len %d vs %d)", i, len(a), len(b))
		}
	}
	return fmt.Sprintf("length %d vs %d", len(a), len(b))
}

func (prop) Run(c core.Case) core.Outcome {
	var out core.Outcome
	M := func(what, req, exp string) {
		out.Checks = append(out.Checks, core.Check{Tag: "M", What: what, Req: req, Exp: exp})
	}
	O := func(what, exp, got string) {
		out.Checks = append(out.Checks, core.Check{Tag: "O", What: what, Exp: exp, Got: got})
	}
	switch c.Op {
	case "ucs2dec":
		in := core.UnHex(c.Args["hex"])
		var got []byte
		res := guard(func() error { got = []byte(fu.UCS2ToUTF8(in)); return nil })
		if res != "ok" {
			got = []byte(res)
			M("ucs2dec", "ucs2dec "+c.Args["hex"], res)
		} else {
			M("ucs2dec", "ucs2dec "+c.Args["hex"], core.Hex(got))
		}
		out.Class = "ucs2dec:" + res
		out.Trivial = len(in) == 0
		return out
	case "ucs2enc":
		in := core.UnHex(c.Args["hex"])
		got := fu.UTF8ToUCS2(string(in))
		M("ucs2enc", "ucs2enc "+c.Args["hex"], core.Hex(got))
		out.Class = "ucs2enc:ok"
		return out
	case "ucs2name":
		// oracle: a well-formed UTF-16 name survives decode + encode, terminator appended
		var cs []rune
		var units []byte
		for _, f := range strings.Split(c.Args["chars"], ".") {
			if f == "" {
				continue
			}
			n, _ := strconv.Atoi(f)
			cs = append(cs, rune(n))
			units = append(units, scalarUnits(rune(n))...)
		}
		var back []byte
		res := guard(func() error { back = fu.UTF8ToUCS2(fu.UCS2ToUTF8(units)); return nil })
		O("ucs2-name-roundtrip", "ok "+core.Hex(append(append([]byte{}, units...), 0, 0)), res+" "+core.Hex(back))
		M("ucs2dec", "ucs2dec "+core.Hex(units), core.Hex([]byte(string(cs))))
		out.Class = "ucs2name:" + res
		out.Trivial = len(cs) == 0
		return out
	}

	// store cases
	var img []byte
	var pol byte
	var rc *recipe
	var flags wfFlags
	switch c.Op {
	case "recipe":
		var err error
		rc, err = parseRecipe(c.Args["recipe"])
		if err != nil {
			panic("harness: " + err.Error())
		}
		rc.normalizeExtNested() // store value + extended header = raw bytes (fiano reads both as the store)
		img = rc.ser()
		pol = rc.Pol
		flags = rc.flags()
		// the two serializers of the reference grammar agree, and so do the two WF deciders
		M("ser", "ser "+c.Args["recipe"], fmt.Sprintf("%d %d", len(img), core.FNV(img)))
		M("wf", "wf "+c.Args["recipe"], flags.String())
		if flags.all() {
			var ls []string
			for _, v := range rc.live() {
				ls = append(ls, fmt.Sprintf("%s,%s,%d", core.Hex(v.GUID), core.Hex(v.Name), core.FNV(v.Content)))
			}
			sortStrings(ls)
			M("live", "live "+c.Args["recipe"], join("/", ls))
			// the tree of current variables of the recursive grammar (two independent readings)
			M("deep", "deep "+c.Args["recipe"], showTree(rc.deepLive()))
		}
		if strings.HasPrefix(c.Kind, "wf") {
			// self-check of the generator (not an oracle on fiano)
			out.Checks = append(out.Checks, core.Check{Tag: "M", What: "generator-wf",
				Exp: "wf=true links=true fits=true uniq=true", Got: flags.String()})
		}
	case "raw":
		img = core.UnHex(c.Args["hex"])
		p, _ := strconv.Atoi(c.Args["pol"])
		pol = byte(p)
	default:
		panic("harness: unknown op " + c.Op)
	}
	ops := strings.Fields(c.Args["ops"])
	ss := &session{fvMode: c.Args["container"] == "fv" && len(img) > 0} // a RAW file without body is refused by NewFile
	wfBasicOverride := false
	full := img
	withSum := false
	if ss.fvMode {
		withSum = len(img)%2 == 1
		full, ss.storeOff = buildFV(pol, img, withSum, 32*(len(img)%4)) // free space of 0 or ≥ 32 bytes (less makes NewFile hit EOF)
		if pol != 0xFF && pol != 0 {
			wfBasicOverride = true
		}
		ss.fvOrig = full
	}
	wfBasic := rc != nil && flags.wf && !wfBasicOverride
	wfAll := rc != nil && flags.all() && !wfBasicOverride
	var results, resultsDeep []string
	var modelOps []string
	live := []liveVar{}
	nested := rc != nil && rc.hasNested()
	var tree []node
	if wfAll {
		live = rc.live()
		tree = rc.deepLive()
	}
	deepM := wfAll && nested
	invalidated := map[string]bool{}
	compacted := false
	var lastBuf []byte
	classes := []string{}
	if c.Kind == "semi:nested-ext" && rc != nil {
		// measured: how many stores behind an extended header are inside the grammar (NewNVarStore refuses
		// content + header) and so pass every oracle
		if flags.all() {
			classes = append(classes, "nx:in-grammar")
		} else {
			classes = append(classes, "nx:outside")
		}
	}

	res := ss.parse(pol, full)
	step := func(res string) bool {
		if res != "ok" {
			results = append(results, res)
			resultsDeep = append(resultsDeep, res)
			return false
		}
		results = append(results, showStore(ss.store))
		if deepM {
			resultsDeep = append(resultsDeep, showStoreDeep(ss.store))
		}
		return true
	}
	okSoFar := step(res)
	classes = append(classes, "parse:"+res)
	if res == "ok" {
		// the extended-header checksum fiano reports (stored byte, expected byte when the sum is not 0)
		cp := pol
		if ss.fvMode && pol != 0xFF {
			cp = 0
		}
		M("cksum", fmt.Sprintf("cksum %d %s", cp, core.Hex(img)), showChecksums(ss.store))
		// every store NewNVarStore accepts, hostile ones included: the entries end before the GUID table
		// (Lean: parseStore_fso_le_gso, for every byte string; the defect of DESIGN §14 finding 51, fixed by
		// fixes/C04-nvar-table-overlap.diff, reappears here if the guard is removed)
		if ss.store.FreeSpaceOffset > ss.store.GUIDStoreOffset {
			O("entries-below-guid-table", "FreeSpaceOffset <= GUIDStoreOffset",
				fmt.Sprintf("FreeSpaceOffset %d > GUIDStoreOffset %d", ss.store.FreeSpaceOffset, ss.store.GUIDStoreOffset))
		} else {
			O("entries-below-guid-table", "FreeSpaceOffset <= GUIDStoreOffset", "FreeSpaceOffset <= GUIDStoreOffset")
		}
		if rc != nil && flags.wf {
			// oracle from the recipe alone: which entries carry a checksum, and whether it holds
			O("ext-checksum-report", rc.checksums(), showChecksums(ss.store))
		}
	}
	if wfBasic {
		O("wf-parse-ok", "ok", res)
		if res == "ok" {
			O("wf-parse-count", fmt.Sprint(len(rc.Entries)), fmt.Sprint(len(ss.store.Entries)))
			if nested {
				// every value that is a store (with entries) was found and parsed, to any depth
				O("nested-parse-shape", rc.shape(), shapeOf(ss.store))
			}
		}
	}
	for _, op := range ops {
		if !okSoFar {
			break
		}
		if ss.fvMode && op == "reparse" {
			// the volume must be assembled before its bytes can be parsed again
			r0 := ss.apply("asm")
			modelOps = append(modelOps, "asm")
			if okSoFar = step(r0); !okSoFar {
				classes = append(classes, "asm:"+r0)
				if wfBasic {
					O("wf-asm-ok", "ok", r0)
				}
				break
			}
		}
		res := ss.apply(op)
		modelOps = append(modelOps, op)
		okSoFar = step(res)
		name := op
		if strings.HasPrefix(op, "inv:") {
			name = "inv"
		}
		classes = append(classes, name+":"+res)
		if !wfBasic {
			continue
		}
		if name == "compact" && !flags.fits {
			// a variable whose compacted form exceeds 65535 bytes: refused (repaired code), never a
			// store that cannot be parsed again
			if c.Kind == "semi:size-overflow" {
				O("compact-refuses-oversize", "err", res)
			}
			wfBasic, wfAll = false, false
			continue
		}
		O("wf-"+name+"-ok", "ok", res)
		if res != "ok" {
			break
		}
		buf := ss.store.Buf()
		switch name {
		case "asm":
			if !compacted {
				O("roundtrip-identical", "identical", diffPos(img, buf))
			} else {
				O("asm-after-compact-stable", "identical", diffPos(lastBuf, buf))
			}
		case "inv":
			invalidated[string(core.UnHex(op[4:]))] = true
		case "reparse":
			invalidated = map[string]bool{} // invalidation is in-memory only
			if compacted && wfAll && nested {
				O("reparse-deep-live", showTree(tree), showTree(treeOf(ss.store)))
				O("reparse-all-full-deep", "all full", allFullDeep(ss.store))
			} else if compacted && wfAll {
				O("reparse-live-set", sortedLive(live), sortedLive(entriesAsLive(ss.store)))
				O("reparse-all-full", "all full", allFull(ss.store))
			} else if !compacted {
				O("reparse-count", fmt.Sprint(len(rc.Entries)), fmt.Sprint(len(ss.store.Entries)))
			}
		case "compact":
			O("compact-same-length", fmt.Sprint(len(img)), fmt.Sprint(len(buf)))
			if !wfAll {
				compacted = true
				lastBuf = append([]byte(nil), buf...)
				break
			}
			if nested {
				// nested stores: the TREE of current variables is what compaction keeps (the bytes of a
				// nested store change: it is compacted too), at every depth only Full entries are left
				tree = afterCompact(tree, invalidated)
				invalidated = map[string]bool{}
				got := treeOf(ss.store)
				O("compact-all-full-deep", "all full", allFullDeep(ss.store))
				O("compact-deep-live", showTree(tree), showTree(got))
				O("compact-unique-keys-deep", "unique", uniqueDeep(got))
				var s2 *uefi.NVarStore
				r2 := guard(func() error {
					var err error
					s2, err = uefi.NewNVarStore(append([]byte(nil), buf...))
					return err
				})
				O("compact-reparse-ok", "ok", r2)
				if r2 == "ok" {
					O("compact-reparse-deep", showTree(tree), showTree(treeOf(s2)))
					O("compact-reparse-all-full-deep", "all full", allFullDeep(s2))
				}
				compacted = true
				lastBuf = append([]byte(nil), buf...)
				break
			}
			var keep []liveVar
			for _, v := range live {
				if !invalidated[string(v.Name)] {
					keep = append(keep, v)
				}
			}
			live = keep
			invalidated = map[string]bool{}
			got := entriesAsLive(ss.store)
			O("compact-all-full", "all full", allFull(ss.store))
			O("compact-live-set", sortedLive(live), sortedLive(got))
			O("compact-unique-keys", "unique", uniqueKeys(got))
			// re-parse the produced bytes with a fresh parser
			var s2 *uefi.NVarStore
			r2 := guard(func() error {
				var err error
				s2, err = uefi.NewNVarStore(append([]byte(nil), buf...))
				return err
			})
			O("compact-reparse-ok", "ok", r2)
			if r2 == "ok" {
				O("compact-reparse-set", sortedLive(live), sortedLive(entriesAsLive(s2)))
				O("compact-reparse-all-full", "all full", allFull(s2))
			}
			compacted = true
			lastBuf = append([]byte(nil), buf...)
		}
	}
	// container oracle: after assembling the volume, nothing but the store (and the two checksum
	// bytes of the file header) changed, and the checksums hold
	if ss.fvMode && okSoFar && wfBasic {
		r := ss.apply("asm")
		modelOps = append(modelOps, "asm")
		okSoFar = step(r)
		O("fv-final-asm-ok", "ok", r)
		if r == "ok" {
			fo := ss.fv.Buf()
			so, sl := ss.storeOff, len(img)
			if len(fo) != len(full) {
				O("fv-same-length", fmt.Sprint(len(full)), fmt.Sprint(len(fo)))
			} else {
				a := append([]byte(nil), full...)
				b := append([]byte(nil), fo...)
				for _, x := range [][]byte{a, b} {
					x[fvHeaderLen+16], x[fvHeaderLen+17] = 0, 0
					for i := so; i < so+sl; i++ {
						x[i] = 0
					}
				}
				O("fv-outside-store-unchanged", "identical", diffPos(a, b))
				O("fv-store-bytes", "identical", diffPos(ss.store.Buf(), fo[so:so+sl]))
				hdr := fo[fvHeaderLen : fvHeaderLen+fileHeaderLen]
				sumOK := fileHeaderSumOK(hdr)
				if withSum {
					sumOK = sumOK && hdr[17] == 0-sum8(fo[so:so+sl])
				} else {
					sumOK = sumOK && hdr[17] == 0xAA
				}
				O("fv-file-checksums", "true", fmt.Sprint(sumOK))
			}
		}
	}
	polArg := pol
	if ss.fvMode && pol != 0xFF {
		polArg = 0 // the volume's attribute bit decides: only FF and 00 exist there
	}
	req := fmt.Sprintf("run %d %s %s", polArg, core.Hex(img), strings.Join(modelOps, " "))
	M("run", strings.TrimSpace(req), strings.Join(results, " | "))
	if deepM {
		// well-formed nested stores: the in-memory nested stores too, after every step
		reqd := fmt.Sprintf("rund %d %s %s", polArg, core.Hex(img), strings.Join(modelOps, " "))
		M("run-deep", strings.TrimSpace(reqd), strings.Join(resultsDeep, " | "))
	}
	out.Class = strings.Join(classes, ",")
	if len(out.Class) > 60 {
		out.Class = out.Class[:60]
	}
	out.Trivial = len(img) == 0 || (ss.store != nil && len(ss.store.Entries) == 0 && !compacted)
	return out
}

func sortStrings(a []string) {
	for i := 1; i < len(a); i++ {
		for j := i; j > 0 && a[j] < a[j-1]; j-- {
			a[j], a[j-1] = a[j-1], a[j]
		}
	}
}

// ---- generation

func (prop) Gen(r *rand.Rand, tier string) []core.Case {
	n := 3000
	if tier == "thorough" {
		n = 120000
	}
	var cs []core.Case
	for i := 0; i < n; i++ {
		switch k := r.Intn(20); {
		case k < 9: // well-formed stores, standalone
			o := genOpts{maxVars: 5}
			kind := "wf"
			if r.Intn(10) == 0 {
				o.emptyName = true
				kind = "wf:empty-name"
			}
			rc := genWF(r, o)
			if r.Intn(4) == 0 {
				// stores whose values are stores (depth 2 or 3), link chains at every level
				kind, rc = "wf:nested", genNested(r, 2+r.Intn(2), -1)
			}
			cs = append(cs, recipeCase(kind, rc, genOps(r, rc), "standalone"))
		case k < 12: // well-formed stores inside a volume
			rc := genWF(r, genOpts{maxVars: 4})
			kind := "wf:fv"
			if r.Intn(5) == 0 {
				kind, rc = "wf:fv-nested", genNested(r, 2, -1)
			}
			cs = append(cs, recipeCase(kind, rc, genOps(r, rc), "fv"))
		case k < 15:
			kind, rc := genSemi(r)
			cont := "standalone"
			if r.Intn(6) == 0 {
				cont = "fv"
			}
			cs = append(cs, recipeCase(kind, rc, genOps(r, rc), cont))
		case k < 18:
			cs = append(cs, genMutant(r))
		case k < 19:
			cs = append(cs, genUnicode(r))
		default:
			b := append([]byte("NVAR"), randBytes(r, r.Intn(60))...)
			if r.Intn(2) == 0 && len(b) >= 10 {
				b[4], b[5] = byte(10+r.Intn(len(b)-9)), 0
			}
			cs = append(cs, rawCase("random", []byte{0xFF, 0}[r.Intn(2)], b, []string{"asm", "compact", "reparse"}))
		}
	}
	// headless chains: a variable whose head entry was invalidated (valid bit cleared in place, as the
	// firmware does when it deletes a variable) while two or more chained data-only successors are still
	// valid.  Every successor is then an orphan ("Invalid link"), not a value of anything — a parser that
	// resolves a link through the dead head's stale next pointer revives them (seeded defect c10-6).
	nHeadless := 25
	if tier == "thorough" {
		nHeadless = 400
	}
	for made, tries := 0, 0; made < nHeadless && tries < 40*nHeadless; tries++ {
		rc := genWF(r, genOpts{maxVars: 4})
		offs := make([]int, len(rc.Entries))
		o := 0
		for i := range rc.Entries {
			offs[i] = o
			o += rc.Entries[i].size()
		}
		head := -1
		for i, j := range rc.tgt {
			if rc.Entries[i].Kind == 'v' && j >= 0 && j < len(rc.tgt) && rc.tgt[j] >= 0 {
				head = i
				break
			}
		}
		if head < 0 {
			continue
		}
		// the same bytes with the valid bit cleared, as a dead entry of the recipe: the store stays
		// well-formed (its successors become orphans), so every oracle of the property applies
		hb := rc.Entries[head].ser(rc.Pol)
		rc.Entries[head] = entry{Kind: 'x', Flags: int(hb[9] &^ 0x80), Next: int(hb[6]) | int(hb[7])<<8 | int(hb[8])<<16, Value: hb[10:]}
		rc.tgt[head] = -1
		if fl := rc.flags(); !fl.all() {
			continue
		}
		// unreferenced GUIDs may remain in the table only if the generator's WF allows it: checked by flags()
		cs = append(cs, recipeCase("semi:headless-chain", rc, genOps(r, rc), "standalone"))
		made++
	}
	if tier == "thorough" {
		for i := 0; i < 6; i++ {
			cs = append(cs, genBig(r, i))
		}
	} else {
		cs = append(cs, genBig(r, r.Intn(6)))
	}
	return cs
}
