package c10

import (
	"fmt"
	"math/rand"
	"strings"

	"verif/harness/core"
)

// ---- structured generator of NVAR stores

func randBytes(r *rand.Rand, n int) []byte {
	b := make([]byte, n)
	r.Read(b)
	return b
}

func randValue(r *rand.Rand) []byte {
	n := r.Intn(24)
	switch r.Intn(12) {
	case 0:
		n = 0
	case 1:
		n = 1
	case 2:
		n = 2
	case 3:
		n = 40 + r.Intn(200)
	}
	v := randBytes(r, n)
	switch r.Intn(10) {
	case 0: // erased-looking value
		for i := range v {
			v[i] = 0xFF
		}
	case 1:
		for i := range v {
			v[i] = 0
		}
	case 2: // value ending like an extended-header size field
		if n >= 2 {
			v[n-2], v[n-1] = byte(r.Intn(n+12)), 0
		}
	}
	// never start with the NVAR signature by accident (nested stores are a separate kind)
	if len(v) >= 4 && v[0] == 0x4E && v[1] == 0x56 && v[2] == 0x41 && v[3] == 0x52 {
		v[0] = 0x4D
	}
	return v
}

func randExt(r *rand.Rand, flags int, dataOnly bool) *ext {
	if r.Intn(3) != 0 {
		return nil
	}
	need := 0
	if flags&0x40 == 0 {
		need = 8
		if dataOnly {
			need = 40
		}
	}
	n := need
	switch r.Intn(4) {
	case 0:
		n = need + r.Intn(6)
	case 1:
		n = need + 1 // room for a checksum byte
	}
	x := &ext{Body: randBytes(r, n)}
	switch r.Intn(4) {
	case 0:
		x.Attrs = 0x01 // checksum
	case 1:
		x.Attrs = 0x20 // time based
	case 2:
		x.Attrs = byte(r.Intn(256))
	}
	return x
}

var sampleScalars = []rune{'A', 'b', 'Z', '0', '_', 'r', 0xE9, 0xFF, 0x100, 0x1FF, 0x7FF, 0x800, 0x4E2D, 0xD7FF, 0xE000,
	0xFFFD, 0xFFFF, 0x10000, 0x1F600, 0x10FFFF, 1, 0x7F, 0x80}

func randName(r *rand.Rand, e *entry, uniq int) {
	e.ASCII = r.Intn(2) == 0
	n := r.Intn(9)
	switch r.Intn(8) {
	case 0:
		n = 0
	case 1:
		n = 1
	}
	if e.ASCII {
		for i := 0; i < n; i++ {
			c := byte('a' + r.Intn(26))
			if r.Intn(12) == 0 {
				c = byte(1 + r.Intn(255)) // any non-NUL byte, also invalid UTF-8
			}
			e.Name = append(e.Name, c)
		}
		if uniq >= 0 {
			e.Name = append(e.Name, []byte(fmt.Sprintf("%d", uniq))...)
		}
		return
	}
	for i := 0; i < n; i++ {
		c := rune('A' + r.Intn(26))
		if r.Intn(3) == 0 {
			c = sampleScalars[r.Intn(len(sampleScalars))]
		}
		e.Chars = append(e.Chars, c)
	}
	if uniq >= 0 {
		// the number that keeps names distinct goes last (then the name ends with a character below
		// U+0100, which is what the defect of DESIGN §8 row 21 needs) or first
		var ds []rune
		for _, c := range fmt.Sprintf("%d", uniq) {
			ds = append(ds, c)
		}
		if r.Intn(2) == 0 {
			e.Chars = append(e.Chars, ds...)
		} else {
			e.Chars = append(append(ds, '.'), e.Chars...)
		}
	}
}

func randFlags(r *rand.Rand) int {
	f := 0
	if r.Intn(2) == 0 {
		f |= 0x01
	}
	if r.Intn(6) == 0 {
		f |= 0x20
	}
	if r.Intn(4) == 0 {
		f |= 0x40
	}
	return f
}

type genOpts struct {
	maxVars   int
	dupKey    bool // two variables share (GUID, name)
	emptyName bool
	small     bool // short values (stores that are nested into others)
}

// genWF builds a store that satisfies WFC by construction: variables with chains of data-only
// entries, interleaved in a random order that keeps every chain ascending, with dead entries and
// orphan data-only entries sprinkled in; the GUID table holds exactly the referenced GUIDs.
func genWF(r *rand.Rand, o genOpts) *recipe {
	rc := &recipe{Pol: 0xFF}
	if r.Intn(3) == 0 {
		rc.Pol = 0
	}
	randValue := func(r *rand.Rand) []byte {
		v := randValue(r)
		if o.small && len(v) > 20 {
			v = v[:20]
		}
		return v
	}
	nv := r.Intn(o.maxVars + 1)
	nGuids := r.Intn(4)
	if r.Intn(10) == 0 {
		nGuids = 4 + r.Intn(14)
	}
	for i := 0; i < nGuids; i++ {
		rc.Guids = append(rc.Guids, randBytes(r, 16))
	}
	if nGuids >= 2 && r.Intn(3) == 0 {
		rc.Guids[1] = append([]byte{}, rc.Guids[0]...) // duplicate GUID in the table
	}
	if nGuids >= 1 && r.Intn(6) == 0 {
		rc.Guids[nGuids-1] = make([]byte, 16) // the zero GUID
	}
	// chains
	type chain struct{ es []entry }
	var chains []chain
	for i := 0; i < nv; i++ {
		var c chain
		h := entry{Kind: 'v', Flags: randFlags(r), Next: -1}
		if nGuids > 0 && r.Intn(3) != 0 {
			h.Index = r.Intn(nGuids)
		} else {
			h.Inline = randBytes(r, 16)
			if nGuids > 0 && r.Intn(4) == 0 {
				h.Inline = append([]byte{}, rc.Guids[r.Intn(nGuids)]...) // same GUID, inline
			}
		}
		u := i
		if o.emptyName && i == 0 {
			u = -1
		}
		randName(r, &h, u)
		if o.emptyName && i == 0 {
			h.Name, h.Chars = nil, nil
		}
		h.Value = randValue(r)
		h.Ext = randExt(r, h.Flags, false)
		c.es = append(c.es, h)
		nver := 0
		switch r.Intn(6) {
		case 0, 1:
			nver = 1
		case 2:
			nver = 2
		case 3:
			nver = 1 + r.Intn(5)
		}
		for k := 0; k < nver; k++ {
			d := entry{Kind: 'd', Flags: randFlags(r), Next: -1}
			if r.Intn(2) == 0 {
				d.Flags = h.Flags // the usual case: an update keeps the attributes
			}
			d.Value = randValue(r)
			d.Ext = randExt(r, d.Flags, true)
			if r.Intn(2) == 0 && h.Ext == nil {
				d.Ext = nil
			}
			c.es = append(c.es, d)
		}
		chains = append(chains, c)
	}
	if o.dupKey && len(chains) >= 2 {
		a, b := &chains[0].es[0], &chains[1].es[0]
		b.ASCII, b.Name, b.Chars = a.ASCII, a.Name, a.Chars
		b.Inline, b.Index = a.Inline, a.Index
	}
	// make sure the highest table index is referenced (else fiano cannot find the end of the
	// table: DESIGN/report "unreferenced GUID"); reference it from some variable
	if nGuids > 0 {
		top := false
		for _, c := range chains {
			if c.es[0].Inline == nil && c.es[0].Index == nGuids-1 {
				top = true
			}
		}
		if !top {
			if len(chains) == 0 {
				rc.Guids = nil
			} else {
				k := r.Intn(len(chains))
				if o.dupKey && k <= 1 && len(chains) >= 2 {
					chains[0].es[0].Inline, chains[0].es[0].Index = nil, nGuids-1
					chains[1].es[0].Inline, chains[1].es[0].Index = nil, nGuids-1
				} else {
					chains[k].es[0].Inline = nil
					chains[k].es[0].Index = nGuids - 1
				}
			}
		}
	}
	// interleave: position of every entry; tag = chain number (-1 = filler)
	type slot struct {
		chain, pos int
		e          entry
	}
	var slots []slot
	idx := make([]int, len(chains))
	remaining := 0
	for _, c := range chains {
		remaining += len(c.es)
	}
	filler := func() {
		switch r.Intn(3) {
		case 0: // dead entry
			e := entry{Kind: 'x', Flags: r.Intn(128), Next: r.Intn(1 << 24), Value: randBytes(r, r.Intn(30))}
			if r.Intn(2) == 0 {
				e.Next = 0xFFFFFF
			}
			if r.Intn(3) == 0 { // a formerly valid variable: same bytes, valid bit cleared
				e.Flags = 0x02 | 0x04
				e.Value = append(append(randBytes(r, 16), []byte("Old\x00")...), randBytes(r, 4)...)
			}
			slots = append(slots, slot{-1, 0, e})
		case 1: // orphan data-only entry (nobody links to it)
			d := entry{Kind: 'd', Flags: randFlags(r), Next: -1, Value: randValue(r)}
			d.Ext = randExt(r, d.Flags, true)
			slots = append(slots, slot{-1, 0, d})
		}
	}
	for remaining > 0 {
		if r.Intn(5) == 0 {
			filler()
		}
		k := r.Intn(len(chains))
		for idx[k] >= len(chains[k].es) {
			k = (k + 1) % len(chains)
		}
		if r.Intn(3) == 0 { // keep chains contiguous sometimes
			for j := idx[k]; j < len(chains[k].es); j++ {
				slots = append(slots, slot{k, j, chains[k].es[j]})
				remaining--
			}
			idx[k] = len(chains[k].es)
			continue
		}
		slots = append(slots, slot{k, idx[k], chains[k].es[idx[k]]})
		idx[k]++
		remaining--
	}
	if r.Intn(4) == 0 {
		filler()
	}
	// offsets and links
	offs := make([]int, len(slots))
	o2 := 0
	for i := range slots {
		offs[i] = o2
		o2 += slots[i].e.size()
	}
	rc.tgt = make([]int, len(slots))
	for i := range slots {
		rc.tgt[i] = -1
		if slots[i].chain < 0 {
			continue
		}
		for j := i + 1; j < len(slots); j++ {
			if slots[j].chain == slots[i].chain && slots[j].pos == slots[i].pos+1 {
				slots[i].e.Next = offs[j] - offs[i]
				rc.tgt[i] = j
			}
		}
	}
	for _, s := range slots {
		rc.Entries = append(rc.Entries, s.e)
	}
	rc.Free = r.Intn(40)
	switch r.Intn(8) {
	case 0:
		rc.Free = 0
	case 1:
		rc.Free = 1
	case 2:
		rc.Free = 9
	case 3:
		rc.Free = 10
	case 4:
		rc.Free = 100 + r.Intn(300)
	}
	fixChecksums(r, rc)
	return rc
}

// genNested builds a store of the RECURSIVE grammar that satisfies WFCN by construction: a genWF
// store some of whose values — of heads, superseded, current and orphan entries alike — are stores
// again (depth ≤ `depth`), each built the same way, so that nested stores have link chains, dead
// and orphan entries of their own and compaction has work to do at every level.
func genNested(r *rand.Rand, depth int, pol int) *recipe {
	var rc *recipe
	for try := 0; ; try++ {
		rc = genWF(r, genOpts{maxVars: 3, small: pol >= 0})
		if pol >= 0 {
			// a nested store: prefer one with a link chain inside
			chain := false
			for i := range rc.Entries {
				if rc.Entries[i].Kind != 'x' && rc.Entries[i].Next >= 0 {
					chain = true
				}
			}
			if !chain && try < 4 {
				continue
			}
			rc.Pol = byte(pol)
			rc.Free = r.Intn(14)
		}
		break
	}
	if depth <= 1 {
		return rc
	}
	var carriers []int
	for i := range rc.Entries {
		if rc.Entries[i].Kind != 'x' {
			carriers = append(carriers, i)
		}
	}
	if len(carriers) == 0 {
		return rc
	}
	n := 1
	if r.Intn(3) == 0 {
		n = 2
	}
	// the interesting carrier: the CURRENT value of a superseded variable (a data-only entry)
	var current []int
	for i := range rc.Entries {
		if rc.Entries[i].Kind == 'd' && rc.Entries[i].Next < 0 {
			for _, t := range rc.tgt {
				if t == i {
					current = append(current, i)
					break
				}
			}
		}
	}
	for k := 0; k < n; k++ {
		i := carriers[r.Intn(len(carriers))]
		if k == 0 && len(current) > 0 && r.Intn(3) != 0 {
			i = current[r.Intn(len(current))]
		}
		e := &rc.Entries[i]
		d := depth - 1
		if d > 1 && r.Intn(2) == 0 {
			d = 1
		}
		e.Nested = genNested(r, d, int(rc.Pol))
		if r.Intn(12) == 0 {
			e.Nested = &recipe{Pol: rc.Pol, Free: r.Intn(9)} // a store without entries: erased space
		}
		e.Value, e.Ext = nil, nil
	}
	relink(rc)
	return rc
}

// innerNames: variable names of the nested stores (invalidating them must not touch anything
// unless a top-level variable has the same name)
func (rc *recipe) innerNames() [][]byte {
	var out [][]byte
	for i := range rc.Entries {
		if n := rc.Entries[i].Nested; n != nil {
			for j := range n.Entries {
				if n.Entries[j].Kind == 'v' {
					out = append(out, n.Entries[j].nameText())
				}
			}
			out = append(out, n.innerNames()...)
		}
	}
	return out
}

// names usable for invalidation: every variable name of the recipe, plus decoys
func (rc *recipe) someName(r *rand.Rand) []byte {
	var names [][]byte
	for i := range rc.Entries {
		if rc.Entries[i].Kind == 'v' {
			names = append(names, rc.Entries[i].nameText())
		}
	}
	if in := rc.innerNames(); len(in) > 0 && r.Intn(4) == 0 {
		return in[r.Intn(len(in))]
	}
	switch {
	case len(names) == 0 || r.Intn(8) == 0:
		return [][]byte{[]byte("absent"), []byte("Invalid"), []byte("Invalid link"), []byte(".*"), {}}[r.Intn(5)]
	}
	return names[r.Intn(len(names))]
}

func genOps(r *rand.Rand, rc *recipe) []string {
	inv := func() string { return "inv:" + core.Hex(rc.someName(r)) }
	switch r.Intn(14) {
	case 0:
		return []string{"asm"}
	case 1:
		return []string{"asm", "reparse", "asm"}
	case 2, 3:
		return []string{"compact", "reparse"}
	case 4, 5:
		return []string{inv(), "compact", "reparse"}
	case 6:
		return []string{"compact", "compact", "reparse", "compact"}
	case 7:
		return []string{"asm", "compact", "asm", "reparse"}
	case 8:
		return []string{inv(), inv(), "compact", "reparse"}
	case 9:
		return []string{"compact", inv(), "compact", "reparse"}
	case 10:
		return []string{inv(), "asm", "compact", "reparse"}
	case 11:
		return []string{"compact", "reparse", inv(), "asm", "compact", "reparse"}
	case 12:
		return []string{inv(), "compact", inv(), "compact"}
	}
	return []string{"asm", "compact", "reparse", "asm"}
}

// ---- cases

func mkCase(kind, op string, kv ...string) core.Case {
	a := map[string]string{}
	for i := 0; i+1 < len(kv); i += 2 {
		a[kv[i]] = kv[i+1]
	}
	return core.Case{Kind: kind, Op: op, Args: a}
}

func recipeCase(kind string, rc *recipe, ops []string, container string) core.Case {
	return mkCase(kind, "recipe", "recipe", rc.wire(), "ops", strings.Join(ops, " "), "container", container)
}

func rawCase(kind string, pol byte, b []byte, ops []string) core.Case {
	return mkCase(kind, "raw", "pol", fmt.Sprint(pol), "hex", core.Hex(b), "ops", strings.Join(ops, " "))
}

// semi-well-formed variations: each breaks (or goes to the edge of) one well-formedness condition
func genSemi(r *rand.Rand) (string, *recipe) {
	rc := genWF(r, genOpts{maxVars: 4})
	vars := []int{}
	datas := []int{}
	offs := []int{}
	o := 0
	for i := range rc.Entries {
		offs = append(offs, o)
		o += rc.Entries[i].size()
		switch rc.Entries[i].Kind {
		case 'v':
			vars = append(vars, i)
		case 'd':
			datas = append(datas, i)
		}
	}
	pick := func(l []int) int { return l[r.Intn(len(l))] }
	switch r.Intn(14) {
	case 0:
		return "semi:dup-key", genWF(r, genOpts{maxVars: 4, dupKey: true})
	case 1: // dangling link: into the free space, beyond the store, or into the middle of an entry
		if len(vars) > 0 {
			i := pick(vars)
			if rc.Entries[i].Next < 0 {
				rc.Entries[i].Next = []int{o - offs[i] + 3, 0xFFFFFE, rc.Entries[i].size() + 1, 1}[r.Intn(4)]
				return "semi:dangling", rc
			}
		}
	case 2: // a link that points at a variable entry
		if len(vars) >= 2 {
			i, j := vars[0], vars[len(vars)-1]
			if rc.Entries[i].Next < 0 && j > i {
				rc.Entries[i].Next = offs[j] - offs[i]
				return "semi:link-to-var", rc
			}
		}
	case 3: // two links to the same data-only entry
		if len(datas) > 0 && len(vars) >= 1 {
			j := pick(datas)
			for _, i := range vars {
				if i < j && rc.Entries[i].Next < 0 {
					rc.Entries[i].Next = offs[j] - offs[i]
					return "semi:multi-link", rc
				}
			}
		}
	case 4: // GUID table with an unreferenced top entry
		rc.Guids = append(rc.Guids, randBytes(r, 16))
		return "semi:unref-guid", rc
	case 5: // GUID index beyond the table
		if len(vars) > 0 {
			i := pick(vars)
			rc.Entries[i].Inline = nil
			rc.Entries[i].Index = len(rc.Guids) + r.Intn(3)
			if r.Intn(4) == 0 {
				rc.Entries[i].Index = 255
			}
			return "semi:idx-oob", rc
		}
	case 6: // ill-formed UTF-16 in a UCS-2 name
		if len(vars) > 0 {
			i := pick(vars)
			e := &rc.Entries[i]
			e.ASCII, e.Name = false, nil
			bad := [][]rune{{0xD800}, {0xDC00}, {'a', 0xDBFF}, {0xDC00, 0xDC00}, {0xD800, 'x'}, {0xDFFF, 0xD800, 0xDC00}}[r.Intn(6)]
			e.Chars = append(append([]rune{}, e.Chars...), bad...)
			return "semi:bad-utf16", rc
		}
	case 7: // link distance 0 / the erased value of the other polarity
		if len(vars) > 0 {
			i := pick(vars)
			rc.Entries[i].Next = []int{0, 0xFFFFFF}[r.Intn(2)]
			return "semi:next-edge", rc
		}
	case 8: // erase polarity that is neither 00 nor FF
		rc.Pol = []byte{0xF0, 0x01, 0xFE}[r.Intn(3)]
		return "semi:polarity", rc
	case 9: // nested store as the value of a variable
		if len(vars) > 0 {
			i := pick(vars)
			in := genWF(r, genOpts{maxVars: 2})
			in.Pol = rc.Pol
			in.Free = r.Intn(12)
			if r.Intn(4) == 0 && len(in.Entries) > 0 { // nested in nested
				in2 := genWF(r, genOpts{maxVars: 1})
				in2.Pol = rc.Pol
				for k := range in.Entries {
					if in.Entries[k].Kind == 'v' {
						in.Entries[k].Value = in2.ser()
						in.Entries[k].Ext = nil
						break
					}
				}
			}
			// re-link the inner store after the size change
			relink(in)
			rc.Entries[i].Value = in.ser()
			rc.Entries[i].Ext = nil
			relink(rc)
			return "semi:nested", rc
		}
	case 12, 13: // nested stores just outside the well-formedness of the recursive grammar
		nr := genNested(r, 2+r.Intn(2), -1)
		for i := range nr.Entries {
			e := &nr.Entries[i]
			if e.Nested == nil {
				continue
			}
			switch r.Intn(4) {
			case 0: // an extended header behind the nested store: fiano reads it as part of the store
				e.Ext = &ext{Attrs: 0, Body: randBytes(r, 8+32*r.Intn(2))}
				if e.Kind == 'd' {
					e.Ext.Body = randBytes(r, 40)
				}
				relink(nr)
				return "semi:nested-ext", nr
			case 1: // nested store of the other erase polarity
				e.Nested.Pol ^= 0xFF
				return "semi:nested-pol", nr
			case 2: // duplicate keys inside
				in := genWF(r, genOpts{maxVars: 3, dupKey: true, small: true})
				in.Pol = nr.Pol
				e.Nested = in
				relink(nr)
				return "semi:nested-dup", nr
			case 3: // a dangling link inside
				for j := range e.Nested.Entries {
					if f := &e.Nested.Entries[j]; f.Kind == 'v' && f.Next < 0 {
						f.Next = 0xFFFF
						return "semi:nested-dangling", nr
					}
				}
			}
		}
		return "semi:nested-wf", nr
	case 10: // extended header too small for what the attributes promise
		for _, i := range append(append([]int{}, vars...), datas...) {
			e := &rc.Entries[i]
			if e.Ext != nil && e.Flags&0x40 == 0 {
				e.Ext.Body = e.Ext.Body[:r.Intn(8)]
				relink(rc)
				return "semi:short-ext", rc
			}
		}
	case 11: // value whose tail looks like an extended header size, with the flag forced on
		if len(vars) > 0 {
			i := pick(vars)
			e := &rc.Entries[i]
			e.Ext = &ext{Attrs: 0, Body: randBytes(r, 8)}
			e.Flags &^= 0x40
			relink(rc)
			return "semi:ext-ok", rc
		}
	}
	return "semi:none", rc
}

// relink recomputes the link distances of a genWF-built recipe after entry sizes changed (the
// target of every link stays the same entry).
func relink(rc *recipe) {
	if rc.tgt == nil {
		return
	}
	offs := make([]int, len(rc.Entries))
	o := 0
	for i := range rc.Entries {
		offs[i] = o
		o += rc.Entries[i].size()
	}
	for i, j := range rc.tgt {
		if j >= 0 && rc.Entries[i].Kind != 'x' {
			rc.Entries[i].Next = offs[j] - offs[i]
		}
	}
}
