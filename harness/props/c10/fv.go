package c10

import "encoding/binary"

// A minimal firmware volume (FFS2) holding one RAW file with the NVAR GUID whose body is the store.

var ffs2GUID = []byte{0x78, 0xe5, 0x8c, 0x8c, 0x3d, 0x8a, 0x1c, 0x4f, 0x99, 0x35, 0x89, 0x61, 0x85, 0xc3, 0x2d, 0xd3}
var nvarFileGUID = []byte{0xa3, 0xb9, 0xf5, 0xce, 0x6d, 0x47, 0x7f, 0x49, 0x9f, 0xdc, 0xe9, 0x81, 0x43, 0xe0, 0x42, 0x2c}

const fvHeaderLen = 0x48
const fileHeaderLen = 24

func sum8(b []byte) byte {
	var s byte
	for _, c := range b {
		s += c
	}
	return s
}

// fileHeaderSumOK: the header sums to zero with the File checksum and State bytes taken as zero.
func fileHeaderSumOK(h []byte) bool {
	return sum8(h[:fileHeaderLen])-h[17]-h[23] == 0
}

func buildFile(pol byte, store []byte, withChecksum bool) []byte {
	h := make([]byte, fileHeaderLen)
	copy(h, nvarFileGUID)
	h[18] = 0x01 // EFI_FV_FILETYPE_RAW
	if withChecksum {
		h[19] = 0x40
	}
	size := fileHeaderLen + len(store)
	h[20], h[21], h[22] = byte(size), byte(size>>8), byte(size>>16)
	if pol == 0xFF {
		h[23] = 0xF8
	} else {
		h[23] = 0x07
	}
	h[17] = 0xAA
	if withChecksum {
		h[17] = 0 - sum8(store)
	}
	h[16] = 0 - (sum8(h) - h[17] - h[23])
	return append(h, store...)
}

// buildFV returns the volume and the offset of the store inside it.
func buildFV(pol byte, store []byte, withChecksum bool, free int) ([]byte, int) {
	file := buildFile(pol, store, withChecksum)
	length := fvHeaderLen + len(file)
	length = (length + 7) &^ 7
	if pol == 0xFF {
		length += free &^ 7 // erased free space (only representable with polarity FF in fiano)
	}
	h := make([]byte, fvHeaderLen)
	copy(h[16:], ffs2GUID)
	binary.LittleEndian.PutUint64(h[32:], uint64(length))
	copy(h[40:], "_FVH")
	attrs := uint32(0x0004F6FF)
	if pol == 0xFF {
		attrs |= 0x800
	}
	binary.LittleEndian.PutUint32(h[44:], attrs)
	binary.LittleEndian.PutUint16(h[48:], fvHeaderLen)
	h[55] = 2                                               // revision
	binary.LittleEndian.PutUint32(h[56:], uint32(length/8)) // one block map entry: 8-byte blocks
	binary.LittleEndian.PutUint32(h[60:], 8)
	var s uint16
	for i := 0; i < fvHeaderLen; i += 2 {
		s += binary.LittleEndian.Uint16(h[i:])
	}
	binary.LittleEndian.PutUint16(h[50:], 0-s)
	fv := append(h, file...)
	for len(fv) < length {
		fv = append(fv, pol)
	}
	return fv, fvHeaderLen + fileHeaderLen
}
