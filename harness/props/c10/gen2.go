package c10

import (
	"math/rand"
	"os"
	"strings"

	"verif/harness/core"
)

// byte-level boundary mutants of a well-formed store: one header field of one entry replaced by a
// boundary value (model correspondence only — hostile stores are property C05's subject)
func genMutant(r *rand.Rand) core.Case {
	rc := genWF(r, genOpts{maxVars: 4})
	if len(rc.Entries) == 0 {
		rc.Entries = append(rc.Entries, entry{Kind: 'v', Inline: randBytes(r, 16), ASCII: true, Name: []byte("only"), Value: []byte{1, 2, 3}, Next: -1})
	}
	b := rc.ser()
	i := r.Intn(len(rc.Entries))
	off := 0
	for k := 0; k < i; k++ {
		off += rc.Entries[k].size()
	}
	e := &rc.Entries[i]
	sz := e.size()
	rem := len(b) - off
	total := 0
	for k := range rc.Entries {
		total += rc.Entries[k].size()
	}
	kind := "mutant:"
	put16 := func(p, v int) { b[p], b[p+1] = byte(v), byte(v>>8) }
	switch r.Intn(9) {
	case 0: // Size (never 0: the unrepaired parser does not terminate on it — corpus/C05)
		vals := []int{1, 9, 10, 11, sz - 1, sz + 1, rem - 1, rem, rem + 1, 0xFFFF, total - off, total - off + 1}
		v := vals[r.Intn(len(vals))]
		if v <= 0 {
			v = 1
		}
		put16(off+4, v)
		kind += "size"
	case 1: // Next
		vals := []int{0, 1, sz, sz - 1, 0xFFFFFE, 0xFFFFFF, total - off, r.Intn(total + 1)}
		v := vals[r.Intn(len(vals))]
		b[off+6], b[off+7], b[off+8] = byte(v), byte(v>>8), byte(v>>16)
		kind += "next"
	case 2: // Attributes
		if r.Intn(2) == 0 {
			b[off+9] ^= 1 << uint(r.Intn(8))
		} else {
			b[off+9] = byte(r.Intn(256))
		}
		kind += "attrs"
	case 3: // signature
		b[off+r.Intn(4)] ^= byte(1 + r.Intn(255))
		kind += "sig"
	case 4: // extended header size field (last two bytes of the entry)
		vals := []int{0, 1, 2, 3, 10, 11, sz - 10, sz - 9, sz, 0xFFFF, 9, 41, 42}
		put16(off+sz-2, vals[r.Intn(len(vals))])
		if r.Intn(2) == 0 {
			b[off+9] |= 0x10
		}
		kind += "extsize"
	case 5: // GUID index byte / first GUID byte
		if sz > 10 {
			vals := []int{0, len(rc.Guids) - 1, len(rc.Guids), len(rc.Guids) + 1, 254, 255}
			v := vals[r.Intn(len(vals))]
			if v < 0 {
				v = 0
			}
			b[off+10] = byte(v)
		}
		kind += "guididx"
	case 6: // remove the name terminator / plant an early one
		if sz > 12 {
			p := off + 10 + r.Intn(sz-10)
			if r.Intn(2) == 0 {
				b[p] = 0
				if p+1 < off+sz && r.Intn(2) == 0 {
					b[p+1] = 0
				}
			} else {
				for q := off + 10; q < off+sz; q++ {
					if b[q] == 0 {
						b[q] = 'A'
					}
				}
			}
		}
		kind += "nameterm"
	case 7: // truncate the store / cut into the GUID table
		if len(b) > 1 {
			b = b[:1+r.Intn(len(b)-1)]
		}
		kind += "truncate"
	case 8: // a non-erased byte in the free space, or the free space removed
		if rc.Free > 0 {
			b[total+r.Intn(rc.Free)] ^= 0x10
		} else {
			b = append(b[:total], b[total+rc.Free:]...)
		}
		kind += "free"
	}
	return rawCase(kind, rc.Pol, b, genOps(r, rc))
}

func genUnicode(r *rand.Rand) core.Case {
	switch r.Intn(4) {
	case 0: // arbitrary bytes through the UTF-16 decoder
		b := randBytes(r, r.Intn(12))
		for i := range b {
			if r.Intn(3) == 0 {
				b[i] = []byte{0xD8, 0xDC, 0xDF, 0xDB, 0x00, 0xFF, 0xFE}[r.Intn(7)]
			}
		}
		return mkCase("unicode", "ucs2dec", "hex", core.Hex(b))
	case 1: // arbitrary bytes through the UTF-16 encoder (ill-formed UTF-8 included)
		b := randBytes(r, r.Intn(10))
		for i := range b {
			switch r.Intn(4) {
			case 0:
				b[i] = []byte{0xC0, 0xC2, 0xE0, 0xED, 0xF0, 0xF4, 0xF5, 0x80, 0xBF, 0xA0, 0x9F, 0x90, 0x8F}[r.Intn(13)]
			case 1:
				b[i] = byte('a' + r.Intn(26))
			}
		}
		return mkCase("unicode", "ucs2enc", "hex", core.Hex(b))
	case 2: // valid UTF-8 through the encoder
		var s []rune
		for i := r.Intn(6); i > 0; i-- {
			s = append(s, sampleScalars[r.Intn(len(sampleScalars))])
		}
		return mkCase("unicode", "ucs2enc", "hex", core.Hex([]byte(string(s))))
	}
	var cs []string
	for i := r.Intn(7); i > 0; i-- {
		c := sampleScalars[r.Intn(len(sampleScalars))]
		if r.Intn(3) == 0 {
			c = rune(1 + r.Intn(0xD7FF))
		}
		cs = append(cs, itoa(int(c)))
	}
	return mkCase("unicode", "ucs2name", "chars", strings.Join(cs, "."))
}

func itoa(n int) string {
	if n == 0 {
		return "0"
	}
	var d []byte
	for n > 0 {
		d = append([]byte{byte('0' + n%10)}, d...)
		n /= 10
	}
	return string(d)
}

// stores at the limits of the 16-bit Size field and of the GUID table
func genBig(r *rand.Rand, which int) core.Case {
	rc := &recipe{Pol: 0xFF}
	name := []byte(strings.Repeat("n", 100))
	ops := []string{"asm", "compact", "reparse"}
	kind := "wf:big"
	switch which {
	case 0, 1: // head with a long name, tail with a value so large that the merged entry is
		// exactly 65535 bytes (still fits) or 65536 bytes (does not)
		head := entry{Kind: 'v', Inline: randBytes(r, 16), ASCII: true, Name: name, Value: []byte{1}, Next: -1}
		hl := 10 + 16 + len(name) + 1
		tail := entry{Kind: 'd', Next: -1, Value: make([]byte, 65535-hl+which)}
		r.Read(tail.Value)
		tail.Value[0] = 7
		head.Next = head.size()
		rc.Entries = []entry{head, tail}
		rc.Free = 64
		if which == 1 {
			kind = "semi:size-overflow"
		}
	case 2: // one entry of the maximal size
		e := entry{Kind: 'v', Inline: randBytes(r, 16), ASCII: true, Name: []byte("max"), Next: -1}
		e.Value = make([]byte, 65535-10-16-4)
		r.Read(e.Value)
		e.Value[0] = 7
		rc.Entries = []entry{e}
		rc.Free = 3
	case 3: // the largest GUID table: 255 GUIDs, every one referenced
		for i := 0; i < 255; i++ {
			rc.Guids = append(rc.Guids, randBytes(r, 16))
		}
		for i := 0; i < 255; i++ {
			j := 254 - i
			if i%3 == 0 {
				j = i
			}
			rc.Entries = append(rc.Entries, entry{Kind: 'v', Index: j, ASCII: true, Name: []byte("g" + itoa(i)), Value: []byte{byte(i)}, Next: -1})
		}
		rc.Entries = append(rc.Entries, entry{Kind: 'v', Index: 254, ASCII: true, Name: []byte("top"), Value: []byte{9}, Next: -1})
		rc.Entries = append(rc.Entries, entry{Kind: 'v', Index: 0, ASCII: true, Name: []byte("zero"), Value: []byte{9}, Next: -1})
		rc.Free = 20
	case 4: // one long chain, interleaved with a second one
		a := entry{Kind: 'v', Inline: randBytes(r, 16), Chars: []rune("Long"), Value: []byte{0}, Next: -1}
		b := entry{Kind: 'v', Inline: randBytes(r, 16), ASCII: true, Name: []byte("Other"), Value: []byte{0}, Next: -1}
		rc.Entries = []entry{a, b}
		for i := 0; i < 120; i++ {
			rc.Entries = append(rc.Entries, entry{Kind: 'd', Value: []byte{byte(i), byte(i >> 3)}, Next: -1})
		}
		// a -> 2 -> 4 -> …, b -> 3 -> 5 -> … (all entries of data have size 12)
		rc.Entries[0].Next = rc.Entries[0].size() + rc.Entries[1].size()
		rc.Entries[1].Next = rc.Entries[1].size() + 12
		for i := 2; i+2 < len(rc.Entries); i++ {
			rc.Entries[i].Next = 24
		}
		rc.Free = 0
		ops = []string{"compact", "reparse", "inv:" + core.Hex([]byte("Long")), "compact", "reparse"}
	default: // a 70 KiB store with a very large free space
		e := entry{Kind: 'v', Inline: randBytes(r, 16), ASCII: true, Name: []byte("small"), Value: []byte{1, 2}, Next: -1}
		rc.Entries = []entry{e}
		rc.Free = 70000
	}
	return recipeCase(kind, rc, ops, "standalone")
}

// ---- shrinking (on the recipe: drop ops, entries, free space)

func (p prop) Shrink(c core.Case) []core.Case {
	if os.Getenv("C10_NOSHRINK") != "" {
		return nil
	}
	cands := p.shrink(c)
	if !strings.HasPrefix(c.Kind, "wf") {
		return cands
	}
	// a case of a well-formed kind must stay well formed while it shrinks
	var out []core.Case
	for _, n := range cands {
		if n.Op == "recipe" {
			rc, err := parseRecipe(n.Args["recipe"])
			if err != nil || !rc.flags().all() {
				continue
			}
		}
		out = append(out, n)
	}
	return out
}

func (prop) shrink(c core.Case) []core.Case {
	var out []core.Case
	clone := func() core.Case {
		a := map[string]string{}
		for k, v := range c.Args {
			a[k] = v
		}
		return core.Case{Kind: c.Kind, Op: c.Op, Args: a}
	}
	ops := strings.Fields(c.Args["ops"])
	for i := len(ops) - 1; i >= 0; i-- {
		n := clone()
		n.Args["ops"] = strings.Join(append(append([]string{}, ops[:i]...), ops[i+1:]...), " ")
		out = append(out, n)
	}
	if c.Op != "recipe" {
		return out
	}
	rc, err := parseRecipe(c.Args["recipe"])
	if err != nil {
		return out
	}
	for i := range rc.Entries {
		// dropping an entry keeps the links of the others pointing at the same entries
		n2 := &recipe{Pol: rc.Pol, Free: rc.Free, Guids: rc.Guids}
		offs := make([]int, len(rc.Entries)+1)
		for k := range rc.Entries {
			offs[k+1] = offs[k] + rc.Entries[k].size()
		}
		gone := rc.Entries[i].size()
		for k := range rc.Entries {
			if k == i {
				continue
			}
			e := rc.Entries[k]
			if e.Kind != 'x' && e.Next >= 0 && k < i && offs[k]+e.Next > offs[i] {
				e.Next -= gone
			}
			n2.Entries = append(n2.Entries, e)
		}
		n := clone()
		n.Args["recipe"] = n2.wire()
		out = append(out, n)
	}
	if rc.Free > 0 {
		n2 := *rc
		n2.Free = 0
		n := clone()
		n.Args["recipe"] = n2.wire()
		out = append(out, n)
	}
	for i := range rc.Entries {
		if len(rc.Entries[i].Value) > 1 && rc.Entries[i].Kind != 'x' {
			n2 := &recipe{Pol: rc.Pol, Free: rc.Free, Guids: rc.Guids, Entries: append([]entry{}, rc.Entries...)}
			cut := len(n2.Entries[i].Value) - 1
			n2.Entries[i].Value = n2.Entries[i].Value[:1]
			for k := 0; k < i; k++ {
				e := &n2.Entries[k]
				if e.Kind != 'x' && e.Next >= 0 {
					// links that jump over entry i get shorter
					o := 0
					for q := 0; q < k; q++ {
						o += rc.Entries[q].size()
					}
					oi := 0
					for q := 0; q < i; q++ {
						oi += rc.Entries[q].size()
					}
					if o+e.Next > oi {
						e.Next -= cut
					}
				}
			}
			n := clone()
			n.Args["recipe"] = n2.wire()
			out = append(out, n)
		}
	}
	return out
}
