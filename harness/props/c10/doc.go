// Package c10: harness for property C10 (not built yet).
package c10
