package c04

// Extended canonical dump (follow-up wp-c04b): the parts of the tree the shared dump leaves out — the
// NVAR store below a RAW file and the partition table below an ME region.  One line per store / table
// in tree order; the Lean side is FianoModel/Uefi/DumpC04.lean (format documented there).  The M check
// `parse` compares the FNV-1a of these lines with what the model derives from the input bytes alone.

import (
	"fmt"
	"strings"

	fuefi "github.com/linuxboot/fiano/pkg/uefi"

	"verif/harness/core"
)

func hexOrDash(b []byte) string {
	if len(b) == 0 {
		return "-"
	}
	return core.Hex(b)
}

func fnv16(b []byte) string { return fmt.Sprintf("%016x", core.FNV(b)) }

func nvTypeLetter(t fuefi.NVarEntryType) string {
	switch t {
	case fuefi.InvalidNVarEntry:
		return "I"
	case fuefi.InvalidLinkNVarEntry:
		return "IL"
	case fuefi.LinkNVarEntry:
		return "L"
	case fuefi.DataNVarEntry:
		return "D"
	case fuefi.FullNVarEntry:
		return "F"
	}
	return fmt.Sprintf("?%d", uint8(t))
}

func xExt(v *fuefi.NVar) string {
	a := uint8(v.Header.Attributes)
	if a&0x80 == 0 || a&0x10 == 0 {
		return "-"
	}
	opt8 := func(p *uint8) string {
		if p == nil {
			return "-"
		}
		return fmt.Sprint(*p)
	}
	xa := "-"
	if v.ExtAttributes != nil {
		xa = fmt.Sprint(uint8(*v.ExtAttributes))
	}
	ts := "-"
	if v.TimeStamp != nil {
		ts = fmt.Sprint(*v.TimeStamp)
	}
	unk := 0
	if v.UnknownExtendedHeaderFormat {
		unk = 1
	}
	return fmt.Sprintf("x%d:%s:%s:%s:%s:%s:%d", v.ExtOffset, xa, opt8(v.Checksum), opt8(v.ExpectedChecksum), ts, hexOrDash(v.Hash), unk)
}

func xEntry(v *fuefi.NVar) string {
	name := "-"
	if v.IsValid() {
		name = hexOrDash([]byte(v.Name))
	}
	gi := "-"
	if v.GUIDIndex != nil {
		gi = fmt.Sprint(*v.GUIDIndex)
	}
	s := fmt.Sprintf("%s,%s,%s,%s,%d,%d,%d,%d,%d,%d,%s,%s", nvTypeLetter(v.Type), core.Hex(v.GUID[:]), name, gi, v.Offset, v.NextOffset,
		v.DataOffset, v.Header.Size, fuefi.Read3Size(v.Header.Next), uint8(v.Header.Attributes), fnv16(v.Buf()), xExt(v))
	if v.NVarStore != nil {
		s += "{" + xStore(v.NVarStore) + "}"
	}
	return s
}

func xStore(s *fuefi.NVarStore) string {
	var gs, es []string
	for _, g := range s.GUIDStore {
		gs = append(gs, core.Hex(g[:]))
	}
	for _, v := range s.Entries {
		es = append(es, xEntry(v))
	}
	j := func(l []string, sep string) string {
		if len(l) == 0 {
			return "-"
		}
		return strings.Join(l, sep)
	}
	return fmt.Sprintf("S%d,%d,%d,%s;G:%s;E:%s", s.FreeSpaceOffset, s.GUIDStoreOffset, s.Length, fnv16(s.Buf()), j(gs, "."), j(es, "/"))
}

func xFpt(m *fuefi.MERegion) string {
	fp := m.FPT
	if fp == nil {
		return "M-"
	}
	var es []string
	for _, e := range fp.Entries {
		es = append(es, fmt.Sprintf("%s,%s,%d,%d,%d.%d.%d,%d", core.Hex(e.Name[:]), core.Hex(e.Owner[:]), e.Offset, e.Length,
			e.Reserved[0], e.Reserved[1], e.Reserved[2], e.Flags))
	}
	el := "-"
	if len(es) > 0 {
		el = strings.Join(es, "/")
	}
	return fmt.Sprintf("M%d,%d,%d,%s,%d;E:%s", fp.PartitionCount, fp.PartitionMapStart, len(fp.Buf()), fnv16(fp.Buf()), m.FreeSpaceOffset, el)
}

// xLines walks the tree in the model's order.
func xLines(t fuefi.Firmware) []string {
	var out []string
	var walk func(f fuefi.Firmware)
	walk = func(f fuefi.Firmware) {
		switch x := f.(type) {
		case *fuefi.FlashImage:
			for _, r := range x.Regions {
				walk(r.Value)
			}
		case *fuefi.BIOSRegion:
			for _, e := range x.Elements {
				walk(e.Value)
			}
		case *fuefi.MERegion:
			out = append(out, "me "+xFpt(x))
		case *fuefi.FirmwareVolume:
			for _, y := range x.Files {
				walk(y)
			}
		case *fuefi.File:
			if x.NVarStore != nil {
				out = append(out, "nvar "+xStore(x.NVarStore))
			}
			for _, s := range x.Sections {
				walk(s)
			}
		case *fuefi.Section:
			for _, e := range x.Encapsulated {
				walk(e.Value)
			}
		}
	}
	walk(t)
	return out
}

func xDigest(t fuefi.Firmware) string {
	return fnv16([]byte(strings.Join(xLines(t), " | ")))
}
