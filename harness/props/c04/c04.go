// Package c04: the parsed tree accounts for every input byte, once
// (uefi.Parse against the UEFI core model, the Faithful walker of faithful.go, both parser modes).
//
// Per case (one byte string):
//
//	run uefi.Parse on a private copy under ReadOnly=false and ReadOnly=true (fresh process state each); what each
//	tree holds is recorded the moment Parse returns (a private copy of every node's buffer, the canonical dumps,
//	the JSON rendering) and everything below judges that record; then a fixed unrelated image is parsed in both
//	modes (disturb.go) before the trees are looked at again;
//	O  caller-buffer-untouched      the copy handed to Parse is bit-identical afterwards (both modes)
//	O  mode-independent-outcome     ok / err is the same in both modes
//	O  mode-independent-tree        the canonical tree dump is the same in both modes
//	O  mode-independent-json        the visitors.JSON rendering is the same in both modes
//	O  mode-independent-nvar-me     the extended dump (NVAR stores, ME partition tables; xdump.go) is the same in both modes
//	O  tree-unchanged-by-later-parse the tree the caller holds is still the tree Parse returned after the parse in the
//	                                other mode and the parse of the disturber image (a node "holds exactly the input
//	                                bytes at its offset and size" for as long as the caller holds the tree)
//	O  decoded-content-is-what-was-encoded  (cases that carry the argument "decoded": multi.go) the decoded content
//	                                shown by the tree is the multiset of streams the generator compressed
//	O  <the twelve oracles of faithful.go / nvwalk.go> on the tree of each mode
//	O  walker-covers-tree           the walker saw exactly the nodes a uefi.Visitor reaches
//	M  parse                        the Lean model (drv_c04) answers the same "ok <digest> <nodes> <x digest>" | "err"
//	                                (x digest: NVAR stores and ME partition tables, derived by the model from the input alone)
//	M  parse-nodecompress           the same with uefi.DisableDecompression (only when the input holds a codec GUID)
//
// The model's codec hook is fed with what the walker observed by re-running the decoders on the tree Go
// returned (the NVAR hook is the model's own: C10's NewNVarStore); when Go refuses an input that contains a codec GUID the table cannot be
// reconstructed and the M check with decompression is skipped (the one without is still made).
//
// A panic / log.Fatalf / hang inside Parse is property C05's business: it is counted (class "panic",
// "fatal", "hang") and C04 makes no check on that case.
package c04

import (
	"bytes"
	"fmt"
	"math/rand"
	"os"
	"strings"
	"time"

	fuefi "github.com/linuxboot/fiano/pkg/uefi"
	"github.com/linuxboot/fiano/pkg/visitors"

	"verif/harness/core"
	hu "verif/harness/props/uefi"
)

type prop struct{}

func init() { core.Register(prop{}) }

func (prop) ID() string { return "C04" }

// PanicIsViolation: a panic while parsing is caught below and only counted (C05 owns totality); a
// panic anywhere else in Run is a harness fault and surfaces as a broken correspondence, not as a
// C04 violation.
func (prop) PanicIsViolation() bool { return false }

var devNull *os.File

type parsed struct {
	class   string // ok | err | panic | fatal | hang
	detail  string
	tree    fuefi.Firmware
	touched bool // the buffer handed to Parse was modified
	pol     byte // uefi.Attributes.ErasePolarity when Parse returned
	// what the tree held at the moment Parse returned (before any other Parse or decoder call):
	snap map[fuefi.Firmware][]byte // a private copy of every node's buffer
	dig  string                    // hu.Digest
	xdig string                    // xDigest
	json string                    // jsonOf (not under DisableDecompression)
}

// snapshot copies the buffer of every node a uefi.Visitor reaches.
type snapshot struct{ m map[fuefi.Firmware][]byte }

func (s *snapshot) Run(f fuefi.Firmware) error { return f.Apply(s) }
func (s *snapshot) Visit(f fuefi.Firmware) error {
	s.m[f] = append([]byte(nil), f.Buf()...)
	return f.ApplyChildren(s)
}

// parseOnce runs uefi.Parse on a private copy of `in` in a fresh process state.
func parseOnce(in []byte, readOnly, noDecompress bool) parsed {
	if devNull == nil {
		devNull, _ = os.OpenFile(os.DevNull, os.O_WRONLY, 0)
	}
	buf := append([]byte(nil), in...)
	done := make(chan parsed, 1)
	go func() {
		var p parsed
		hu.ResetState()
		fuefi.ReadOnly = readOnly
		fuefi.DisableDecompression = noDecompress
		stdout := os.Stdout
		os.Stdout = devNull // NewFlashImage prints skipped regions with fmt.Printf
		p.class, p.detail = hu.Guard(func() error {
			t, err := fuefi.Parse(buf)
			p.tree = t
			return err
		})
		p.pol = fuefi.Attributes.ErasePolarity
		os.Stdout = stdout
		done <- p
	}()
	var p parsed
	select {
	case p = <-done:
	case <-time.After(30 * time.Second):
		return parsed{class: "hang"}
	}
	p.touched = !bytes.Equal(buf, in)
	if p.class != "ok" {
		p.tree = nil
	}
	hu.ResetState()
	if p.tree != nil {
		// The property is about the tree Parse returned: record it now.  Everything the oracles compare
		// (buffers, canonical dumps, JSON) is taken from this record, so neither the next Parse nor the
		// decoder calls of the walker can repair or damage what is judged.
		sn := &snapshot{m: map[fuefi.Firmware][]byte{}}
		sn.Run(p.tree)
		p.snap = sn.m
		p.dig = hu.Digest(p.tree)
		p.xdig = xDigest(p.tree)
		if !noDecompress {
			p.json = jsonOf(p.tree)
		}
	}
	return p
}

type counter struct{ n int }

func (c *counter) Run(f fuefi.Firmware) error { return f.Apply(c) }
func (c *counter) Visit(f fuefi.Firmware) error {
	switch f.(type) {
	case *fuefi.NVarStore, *fuefi.NVar, *fuefi.MEFPT:
		return nil // opaque to this property (C10, C12)
	}
	c.n++
	return f.ApplyChildren(c)
}

func jsonOf(t fuefi.Firmware) string {
	var b bytes.Buffer
	if err := (&visitors.JSON{W: &b}).Run(t); err != nil {
		return "json-error: " + err.Error()
	}
	return fmt.Sprintf("%016x:%d", core.FNV(b.Bytes()), b.Len())
}

var codecGUIDs = [][]byte{
	{0x50, 0x20, 0x53, 0x3D, 0xDA, 0x5C, 0xD0, 0x4F, 0x87, 0x9E, 0x0F, 0x7F, 0x63, 0x0D, 0x5A, 0xFB}, // BROTLI
	{0x98, 0x58, 0x4E, 0xEE, 0x14, 0x39, 0x59, 0x42, 0x9D, 0x6E, 0xDC, 0x7B, 0xD7, 0x94, 0x03, 0xCF}, // LZMA
	{0xBD, 0xE6, 0x2A, 0xD4, 0x52, 0x13, 0xFB, 0x4B, 0x90, 0x9A, 0xCA, 0x72, 0xA6, 0xEA, 0xE8, 0x89}, // LZMAX86
	{0xF5, 0x33, 0x32, 0xCE, 0xD6, 0x2C, 0x87, 0x4D, 0x91, 0x52, 0x4A, 0x23, 0x8B, 0xB6, 0xD1, 0xC4}, // ZLIB
}

func hasCodecGUID(in []byte) bool {
	for _, g := range codecGUIDs {
		if bytes.Contains(in, g) {
			return true
		}
	}
	return false
}

// hookArgs: the model's NVAR hook is C10's model of NewNVarStore ("c10"); the codec hook is fed with what
// the walker observed by re-running the decoders.
func hookArgs(w *walker) (nv, codecs string) {
	nv, codecs = "c10", "-"
	if w == nil {
		return
	}
	if len(w.decodes) > 0 {
		seen := map[string]bool{}
		var es []string
		for _, d := range w.decodes {
			if seen[d.key] {
				continue
			}
			seen[d.key] = true
			if d.err {
				es = append(es, d.key+":!")
			} else {
				es = append(es, d.key+":"+core.Hex(d.out))
			}
		}
		codecs = strings.Join(es, ",")
	}
	return
}

// modelLimit: above this size the Lean model (lists, a quadratic volume scan) is too slow to be
// asked on every case; the oracles on the implementation are still evaluated.
const modelLimit = 160 * 1024

func expOf(p parsed, w *walker) string {
	if p.class != "ok" {
		return p.class
	}
	return fmt.Sprintf("ok %s %d %s", p.dig, w.nodes, p.xdig)
}

func runBytes(kind string, in []byte) core.Outcome { return runBytesX(kind, in, "") }

// runBytesX: `decoded` (optional, from the generator) is the sorted list of fnv:len keys of the streams that
// were encoded into the compressed sections of the image.
func runBytesX(kind string, in []byte, decoded string) core.Outcome {
	out := core.Outcome{}
	cp := parseOnce(in, false, false) // copy mode
	ro := parseOnce(in, true, false)  // read-only (aliasing) mode
	if cp.class == "ok" || ro.class == "ok" {
		disturb(hasCodecGUID(in)) // unrelated images are parsed in both modes (disturb.go)
	}
	for _, p := range []parsed{cp, ro} {
		if p.class == "panic" || p.class == "fatal" || p.class == "hang" {
			// C05's business: counted, not judged here
			return core.Outcome{Class: p.class, Trivial: true, Key: p.class}
		}
	}
	add := func(what, exp, got string) {
		out.Checks = append(out.Checks, core.Check{Tag: "O", What: what, Exp: exp, Got: got, Sig: what})
	}
	untouched := func(p parsed) string {
		if p.touched {
			return "modified"
		}
		return "untouched"
	}
	add("caller-buffer-untouched", "untouched/untouched", untouched(cp)+"/"+untouched(ro))
	add("mode-independent-outcome", cp.class, ro.class)

	var wcp *walker
	if cp.class == "ok" && ro.class == "ok" {
		add("mode-independent-tree", cp.dig, ro.dig)
		add("mode-independent-json", cp.json, ro.json)
		add("mode-independent-nvar-me", cp.xdig, ro.xdig)
		// the trees the caller still holds are the trees Parse returned: nothing that ran since (the parse
		// in the other mode, the parse of the disturber image) changed a node
		add("tree-unchanged-by-later-parse",
			"copy "+cp.dig+" "+cp.xdig+" / read-only "+ro.dig+" "+ro.xdig,
			"copy "+hu.Digest(cp.tree)+" "+xDigest(cp.tree)+" / read-only "+hu.Digest(ro.tree)+" "+xDigest(ro.tree))
		if decoded != "" {
			// the generator knows what it compressed: the decoded content in the tree is those streams (the
			// walker below re-runs the implementation's decoders, so it cannot tell a decoder that answers
			// with another stream's content)
			add("decoded-content-is-what-was-encoded", "copy "+decoded+" / read-only "+decoded,
				"copy "+decodedStreams(cp.tree, cp.snap)+" / read-only "+decodedStreams(ro.tree, ro.snap))
		}
		wcp = checkFaithfulAt(cp, in, false)
		wro := checkFaithfulAt(ro, in, false)
		for _, name := range oracleNames {
			got := "ok"
			if s, bad := wcp.bad[name]; bad {
				got = "copy mode: " + s
			} else if s, bad := wro.bad[name]; bad {
				got = "read-only mode: " + s
			}
			add(name, "ok", got)
		}
		var c counter
		c.Run(cp.tree)
		add("walker-covers-tree", fmt.Sprint(c.n), fmt.Sprint(wcp.nodes))
	} else if cp.class == "ok" {
		wcp = checkFaithfulAt(cp, in, false)
	}

	// model correspondence
	codecIn := hasCodecGUID(in)
	if len(in) <= modelLimit {
		var nd parsed
		var wnd *walker
		if codecIn {
			nd = parseOnce(in, false, true)
			if nd.class == "ok" {
				wnd = checkFaithfulAt(nd, in, true)
				for _, name := range oracleNames {
					if s, bad := wnd.bad[name]; bad {
						add(name, "ok", "decompression disabled: "+s)
					}
				}
			}
		}
		switch {
		case cp.class == "ok" || !codecIn:
			nv, cs := hookArgs(wcp)
			out.Checks = append(out.Checks, core.Check{Tag: "M", What: "parse",
				Req: fmt.Sprintf("parse %s 0 %s %s", core.Hex(in), nv, cs), Exp: expOf(cp, wcp)})
		case nd.class == "ok":
			// Go refused the input with decompression on, so no tree tells which payloads the decoders
			// saw.  The tree parsed *without* decompression does, one level deep: re-run the decoders on
			// its GUID-defined sections.  If a decoded payload itself holds a codec GUID the table may be
			// incomplete and the comparison is skipped.
			probe := checkFaithfulAt(nd, in, false)
			complete := true
			for _, d := range probe.decodes {
				if !d.err && hasCodecGUID(d.out) {
					complete = false
				}
			}
			if complete {
				_, cs := hookArgs(probe)
				out.Checks = append(out.Checks, core.Check{Tag: "M", What: "parse",
					Req: fmt.Sprintf("parse %s 0 c10 %s", core.Hex(in), cs), Exp: cp.class})
			}
		}
		if codecIn && (nd.class == "ok" || nd.class == "err") {
			nv, _ := hookArgs(wnd)
			out.Checks = append(out.Checks, core.Check{Tag: "M", What: "parse-nodecompress",
				Req: fmt.Sprintf("parse %s 1 %s -", core.Hex(in), nv), Exp: expOf(nd, wnd)})
		}
	}

	out.Class = kindClass(kind) + ":" + cp.class
	if cp.class == "ok" {
		out.Class += ":" + shapeOf(cp.tree)
		if wcp != nil {
			if wcp.nvStores > 0 {
				out.Class += fmt.Sprintf(" nvar=%s", bucket(wcp.nvEntries))
				if wcp.nvOverlap > 0 {
					out.Class += " nvar-overlap"
				}
			}
			if wcp.meTables > 0 {
				out.Class += " fpt"
			}
		}
		out.Key = cp.dig + cp.xdig
	} else {
		out.Key = fmt.Sprintf("err:%016x", core.FNV(in))
		out.Trivial = len(in) < 32
	}
	return out
}

func bucket(n int) string {
	switch {
	case n == 0:
		return "0"
	case n == 1:
		return "1"
	case n < 5:
		return "2-4"
	default:
		return "5+"
	}
}

func kindClass(kind string) string {
	if i := strings.Index(kind, ":"); i > 0 {
		return kind[:i]
	}
	return kind
}

// shapeOf summarises an accepted tree for the outcome histogram.
func shapeOf(t fuefi.Firmware) string {
	var fvs, files, secs, nested, decoded int
	var walk func(f fuefi.Firmware, depth int)
	walk = func(f fuefi.Firmware, depth int) {
		switch x := f.(type) {
		case *fuefi.FlashImage:
			for _, r := range x.Regions {
				walk(r.Value, depth)
			}
		case *fuefi.BIOSRegion:
			for _, e := range x.Elements {
				walk(e.Value, depth)
			}
		case *fuefi.FirmwareVolume:
			fvs++
			if depth > 0 {
				nested++
			}
			for _, y := range x.Files {
				walk(y, depth)
			}
		case *fuefi.File:
			files++
			for _, s := range x.Sections {
				walk(s, depth)
			}
		case *fuefi.Section:
			secs++
			if uint8(x.Header.Type) == 2 && len(x.Encapsulated) > 0 {
				decoded++
			}
			for _, e := range x.Encapsulated {
				walk(e.Value, depth+1)
			}
		}
	}
	walk(t, 0)
	root := "bios"
	if _, ok := t.(*fuefi.FlashImage); ok {
		root = "flash"
	}
	b := func(n int) string {
		switch {
		case n == 0:
			return "0"
		case n == 1:
			return "1"
		case n < 5:
			return "2-4"
		default:
			return "5+"
		}
	}
	s := fmt.Sprintf("%s fv=%s files=%s secs=%s", root, b(fvs), b(files), b(secs))
	if nested > 0 {
		s += " nested"
	}
	if decoded > 0 {
		s += " decoded"
	}
	return s
}

func (prop) Run(c core.Case) core.Outcome {
	switch c.Op {
	case "hex":
		return runBytesX(c.Kind, core.UnHex(c.Args["hex"]), c.Args["decoded"])
	case "fuzzfile":
		b := fuzzMember(c.Args["name"])
		if b == nil {
			return core.Outcome{Class: "fuzz-input-missing", Trivial: true}
		}
		return runBytes(c.Kind, b)
	}
	panic("c04: unknown op " + c.Op)
}

func hexCase(kind string, b []byte) core.Case {
	return core.Case{Kind: kind, Op: "hex", Args: map[string]string{"hex": core.Hex(b)}}
}

// Shrink: shorter inputs (drop the tail, drop a middle chunk).
func (prop) Shrink(c core.Case) []core.Case {
	if c.Op != "hex" {
		return nil
	}
	b := core.UnHex(c.Args["hex"])
	var out []core.Case
	for _, cut := range []int{len(b) / 2, 4096, 1024, 256, 64, 8, 1} {
		if cut > 0 && cut < len(b) {
			out = append(out, hexCase(c.Kind, b[:len(b)-cut]))
		}
	}
	return out
}

func (prop) Gen(r *rand.Rand, tier string) []core.Case {
	thorough := tier == "thorough"
	var cs []core.Case
	cs = append(cs, handPicked()...)
	cs = append(cs, grammarCases(r, thorough)...)
	cs = append(cs, extHeaderCases(r)...)
	cs = append(cs, compressedCases(r, thorough)...)
	cs = append(cs, mutantCases(r, thorough)...)
	cs = append(cs, nvarCases(r, thorough)...)
	cs = append(cs, meCases(r, thorough)...)
	cs = append(cs, fuzzCases(r, thorough)...)
	cs = append(cs, multiCompressedCases(r, thorough)...) // last: the streams above stay what they were per seed
	return cs
}

// grammarCases: well-formed images straight from the reference grammar.
func grammarCases(r *rand.Rand, thorough bool) []core.Case {
	n := 300
	if thorough {
		n = 5000
	}
	var cs []core.Case
	for i := 0; i < n; i++ {
		g := &hu.Gen{R: r, MaxAlign: 4, Depth: 2}
		if r.Intn(6) == 0 {
			g.MaxAlign = 5
		}
		switch k := r.Intn(10); {
		case k < 3:
			budget := 256 + r.Intn(8*1024)
			if r.Intn(8) == 0 {
				budget = 48 * 1024
			}
			fv := g.FV(budget, r.Intn(4) == 0)
			cs = append(cs, hexCase("grammar-fv", (&hu.Img{Bios: &hu.Bios{Items: []hu.Item{{FV: fv}}}}).Ser()))
		case k < 6:
			cs = append(cs, hexCase("grammar-bios", (&hu.Img{Bios: g.Bios(0, 1+r.Intn(3))}).Ser()))
		default:
			blocks := 1 + r.Intn(5)
			if thorough && r.Intn(6) == 0 {
				blocks = 8 + r.Intn(8)
			}
			cs = append(cs, hexCase("grammar-flash", (&hu.Img{Flash: g.Flash(blocks)}).Ser()))
		}
	}
	return cs
}
