package c04

// The historical fuzz inputs of the repository (pkg/uefi/testdata/fuzz_in.txz, 3945 byte strings that
// TestFuzzInputs only checks for "no crash").  They are unpacked in memory at run time, never copied
// into /verif.  Small ones travel as self-contained hex cases; the few large ones (≈1 MiB) are
// referenced by their archive member name.

import (
	"archive/tar"
	"io"
	"math/rand"
	"os"
	"path/filepath"
	"sort"

	"github.com/ulikunitz/xz"

	"verif/harness/core"
)

var fuzzLoaded bool
var fuzzData map[string][]byte
var fuzzNames []string

func repoRoot() string {
	if r := os.Getenv("VERIF_REPO"); r != "" {
		return r
	}
	return "/repo"
}

func loadFuzz() {
	if fuzzLoaded {
		return
	}
	fuzzLoaded = true
	fuzzData = map[string][]byte{}
	f, err := os.Open(filepath.Join(repoRoot(), "pkg/uefi/testdata/fuzz_in.txz"))
	if err != nil {
		return
	}
	defer f.Close()
	x, err := xz.NewReader(f)
	if err != nil {
		return
	}
	tr := tar.NewReader(x)
	for {
		h, err := tr.Next()
		if err != nil {
			break
		}
		if h.Typeflag != tar.TypeReg {
			continue
		}
		b, err := io.ReadAll(tr)
		if err != nil {
			break
		}
		fuzzData[h.Name] = b
		fuzzNames = append(fuzzNames, h.Name)
	}
	sort.Strings(fuzzNames)
}

func fuzzMember(name string) []byte {
	loadFuzz()
	return fuzzData[name]
}

func fuzzCases(r *rand.Rand, thorough bool) []core.Case {
	loadFuzz()
	var cs []core.Case
	var big []string
	for _, n := range fuzzNames {
		b := fuzzData[n]
		if len(b) <= 64*1024 {
			cs = append(cs, hexCase("fuzz", b))
		} else {
			big = append(big, n)
		}
	}
	// the large inputs: a few in the quick tier (rotating with the seed), all of them in the thorough tier
	k := 3
	if thorough {
		k = len(big)
	}
	r.Shuffle(len(big), func(i, j int) { big[i], big[j] = big[j], big[i] })
	for i := 0; i < k && i < len(big); i++ {
		cs = append(cs, core.Case{Kind: "fuzz-big", Op: "fuzzfile", Args: map[string]string{"name": big[i]}})
	}
	// byte-level mutants of fuzz inputs (they are already near-valid volumes)
	n := 200
	if thorough {
		n = 4000
	}
	for i := 0; i < n && len(fuzzNames) > 0; i++ {
		b := fuzzData[fuzzNames[r.Intn(len(fuzzNames))]]
		if len(b) == 0 || len(b) > 16*1024 {
			continue
		}
		for _, m := range core.RandomMutants(r, b, 1) {
			cs = append(cs, hexCase("fuzz-mutant", m))
		}
	}
	return cs
}
