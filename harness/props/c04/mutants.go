package c04

// Structure-aware mutants of grammar images: every length / offset / count / type field of every
// descriptor, volume, file and section header of a seed image is replaced by each boundary value
// (core.BoundaryMutants: exhaustive over fields, not sampled), plus "cut" values derived from the
// layout (a volume length that ends inside / exactly at / one past a file, a file size that reaches
// exactly / one past the end of its volume, a section size that reaches past its file).  After a
// mutation the checksums of the touched volume / file header are recomputed, so that the mutant is
// what a consistent-looking but wrong image would be — this is where DESIGN.md §8 row 18 lives.

import (
	"encoding/binary"
	"fmt"
	"math/rand"
	"strings"

	"verif/harness/core"
	hu "verif/harness/props/uefi"
)

type namedField struct {
	core.Field
	mark hu.Mark
}

// fieldsOf lists the header fields of a built image from its marks.
func fieldsOf(b []byte, marks []hu.Mark) []namedField {
	var fs []namedField
	add := func(m hu.Mark, name string, off, w, hdr int) {
		if off+w <= len(b) {
			fs = append(fs, namedField{core.Field{Name: m.Kind + "." + name, Off: off, W: w, Hdr: hdr}, m})
		}
	}
	for _, m := range marks {
		o := m.Off
		switch {
		case m.Kind == "desc" && m.Len == 20: // signature + first map bytes
			add(m, "Signature", o, 4, 0)
			for i, n := range []string{"ComponentBase", "NumberOfFlashChips", "RegionBase", "NumberOfRegions", "MasterBase", "NumberOfMasters"} {
				add(m, n, o+4+i, 1, 0)
			}
		case m.Kind == "desc": // region section
			add(m, "EraseSize", o+2, 2, 64)
			for i := 0; i < 15; i++ {
				add(m, fmt.Sprintf("Base%d", i), o+4+4*i, 2, 64)
				add(m, fmt.Sprintf("Limit%d", i), o+6+4*i, 2, 64)
			}
		case m.Kind == "fv" && m.Len == 20: // extended header
			add(m, "ExtHeaderSize", o+16, 4, 20)
		case m.Kind == "fv":
			add(m, "FileSystemGUID0", o+16, 1, m.Len)
			add(m, "Length", o+32, 8, m.Len)
			add(m, "Signature", o+40, 4, m.Len)
			add(m, "Attributes", o+44, 4, m.Len)
			add(m, "HeaderLen", o+48, 2, m.Len)
			add(m, "ExtHeaderOffset", o+52, 2, m.Len)
			add(m, "Block0Count", o+56, 4, m.Len)
			add(m, "Block0Size", o+60, 4, m.Len)
		case m.Kind == "file":
			add(m, "Type", o+18, 1, m.Len)
			add(m, "Attributes", o+19, 1, m.Len)
			add(m, "Size", o+20, 3, m.Len)
			add(m, "State", o+23, 1, m.Len)
			if m.Len == 32 {
				add(m, "ExtendedSize", o+24, 8, m.Len)
			}
		case m.Kind == "sec":
			hl := 4
			if m.Len == 8 || m.Len == 28 {
				hl = 8
			}
			add(m, "Size", o, 3, hl)
			add(m, "Type", o+3, 1, hl)
			if hl == 8 {
				add(m, "ExtendedSize", o+4, 4, hl)
			}
			if m.Len == hl+20 {
				add(m, "GuidDataOffset", o+hl+16, 2, hl+20)
				add(m, "GuidAttributes", o+hl+18, 2, hl+20)
			}
		}
	}
	return fs
}

func sum8(b []byte) uint8 {
	var s uint8
	for _, x := range b {
		s += x
	}
	return s
}

// refix recomputes the checksum of the header a mutated field belongs to (volume: 16-bit sum over
// HeaderLen bytes; file: 8-bit header sum without the body checksum and state bytes).
func refix(b []byte, m hu.Mark) {
	switch m.Kind {
	case "fv":
		if m.Len == 20 || m.Off+56 > len(b) {
			return
		}
		hl := int(binary.LittleEndian.Uint16(b[m.Off+48:]))
		if hl < 56 || hl%2 != 0 || m.Off+hl > len(b) {
			hl = m.Len
		}
		if m.Off+hl > len(b) {
			return
		}
		b[m.Off+50], b[m.Off+51] = 0, 0
		var s uint16
		for i := 0; i+1 < hl; i += 2 {
			s += binary.LittleEndian.Uint16(b[m.Off+i:])
		}
		binary.LittleEndian.PutUint16(b[m.Off+50:], 0-s)
	case "file":
		if m.Off+m.Len > len(b) {
			return
		}
		h := append([]byte(nil), b[m.Off:m.Off+m.Len]...)
		h[16], h[17], h[23] = 0, 0, 0
		b[m.Off+16] = 0 - sum8(h)
	}
}

func put(b []byte, off, w int, v uint64) {
	for i := 0; i < w && off+i < len(b); i++ {
		b[off+i] = byte(v >> (8 * uint(i)))
	}
}

func get(b []byte, off, w int) uint64 {
	var v uint64
	for i := w - 1; i >= 0; i-- {
		v = v<<8 | uint64(b[off+i])
	}
	return v
}

// cutValues: layout-derived values for a size field, relative to the start of its own header:
// distances to the start / header end / end of every later header of the image and to the end of
// the enclosing nodes, each −1 / +0 / +1 / +8.
func cutValues(b []byte, f namedField, marks []hu.Mark) []uint64 {
	base := f.mark.Off
	seen := map[uint64]bool{}
	var out []uint64
	addv := func(abs int) {
		for _, d := range []int{-8, -1, 0, 1, 8, 24, 25} {
			if v := abs - base + d; v > 0 {
				if !seen[uint64(v)] {
					seen[uint64(v)] = true
					out = append(out, uint64(v))
				}
			}
		}
	}
	n := 0
	for _, m := range marks {
		if m.Off <= base || n >= 6 {
			continue
		}
		addv(m.Off)
		switch m.Kind {
		case "file":
			sz := int(get(b, m.Off+20, 3))
			if sz == 0xFFFFFF && m.Len == 32 {
				sz = int(get(b, m.Off+24, 8))
			}
			addv(m.Off + sz)
		case "fv":
			if m.Len != 20 && m.Off+40 <= len(b) {
				addv(m.Off + int(get(b, m.Off+32, 8)))
			}
		}
		n++
	}
	addv(len(b))
	// end of the enclosing volume (the closest volume mark before this header)
	for i := len(marks) - 1; i >= 0; i-- {
		m := marks[i]
		if m.Kind == "fv" && m.Len != 20 && m.Off < base && m.Off+40 <= len(b) {
			addv(m.Off + int(get(b, m.Off+32, 8)))
			break
		}
	}
	return out
}

func isSizeField(name string) bool {
	switch name {
	case "fv.Length", "file.Size", "file.ExtendedSize", "sec.Size", "sec.ExtendedSize":
		return true
	}
	return false
}

// mutantsOf enumerates the mutants of one seed image.
func mutantsOf(img *hu.Img) []core.Case {
	seed := img.Ser()
	marks := img.Marks()
	var cs []core.Case
	for _, f := range fieldsOf(seed, marks) {
		vals := core.BoundaryValues(f.Field, len(seed))
		if isSizeField(f.Name) {
			vals = append(vals, cutValues(seed, f, marks)...)
		}
		if f.Name == "fv.ExtHeaderOffset" && f.mark.Off+40 <= len(seed) {
			// the boundary of "is the extended header honoured": ExtHeaderOffset vs Length − 20
			l := get(seed, f.mark.Off+32, 8)
			vals = append(vals, l-21, l-20, l-19, l-36, uint64(f.mark.Len), uint64(f.mark.Len)+4)
		}
		seen := map[uint64]bool{}
		for _, v := range vals {
			if f.W < 8 {
				v &= 1<<(8*uint(f.W)) - 1
			}
			if seen[v] || v == get(seed, f.Off, f.W) {
				continue
			}
			seen[v] = true
			b := append([]byte(nil), seed...)
			put(b, f.Off, f.W, v)
			refix(b, f.mark)
			cs = append(cs, hexCase("mutant:"+f.Name, b))
		}
	}
	return cs
}

func smallSeed(r *rand.Rand, k int) *hu.Img {
	g := &hu.Gen{R: r, MaxAlign: 2, Depth: 1}
	switch k % 4 {
	case 0: // one volume, several files
		return &hu.Img{Bios: &hu.Bios{Items: []hu.Item{{FV: g.FV(500+r.Intn(700), r.Intn(4) == 0)}}}}
	case 1: // padding, two volumes, tail
		return &hu.Img{Bios: g.Bios(0, 2)}
	case 2: // a volume that exactly fills its buffer (the last file ends the volume, nothing follows)
		for try := 0; try < 50; try++ {
			fv := g.FV(400+r.Intn(400), false)
			if fv.Free == 0 && len(fv.Files) > 0 {
				return &hu.Img{Bios: &hu.Bios{Items: []hu.Item{{FV: fv}}, Tail: make([]byte, 8*r.Intn(8))}}
			}
		}
		return &hu.Img{Bios: g.Bios(0, 1)}
	default: // flash image, one or two blocks
		g.NoNested = true
		return &hu.Img{Flash: g.Flash(1 + r.Intn(2))}
	}
}

func mutantCases(r *rand.Rand, thorough bool) []core.Case {
	seeds, perSeed := 4, 800
	if thorough {
		seeds, perSeed = 64, 1000
	}
	var cs []core.Case
	for k := 0; k < seeds; k++ {
		img := smallSeed(r, k)
		if len(img.Ser()) > 20000 {
			continue
		}
		ms := mutantsOf(img)
		// descriptor and volume-header fields decide the tiling: never thinned
		var keep, rest []core.Case
		for _, m := range ms {
			if strings.HasPrefix(m.Kind, "mutant:desc.") || strings.HasPrefix(m.Kind, "mutant:fv.") {
				keep = append(keep, m)
			} else {
				rest = append(rest, m)
			}
		}
		if room := perSeed - len(keep); room > 0 && len(rest) > room {
			// exhaustive over fields: thin out values (a different residue per seed), never fields
			step := (len(rest) + room - 1) / room
			var kept []core.Case
			for i := r.Intn(step); i < len(rest); i += step {
				kept = append(kept, rest[i])
			}
			rest = kept
		} else if room <= 0 {
			rest = nil
		}
		ms = append(keep, rest...)
		cs = append(cs, ms...)
	}
	// unstructured stream: truncations, byte flips, splices of grammar images
	n := 150
	if thorough {
		n = 3000
	}
	for i := 0; i < n; i++ {
		img := smallSeed(r, r.Intn(4))
		for _, b := range core.RandomMutants(r, img.Ser(), 1) {
			if len(b) <= 20000 {
				cs = append(cs, hexCase("random-mutant", b))
			}
		}
	}
	return cs
}
