package c04

// The disturber (gap closing round 3): a fixed flash image (in two variants) that makes the parser use every source of
// node bytes it has — three decoders (decoded sizes 12, 60 and 700 bytes, in this order, so that a decoder
// that reuses its output buffer overwrites it in place before it has any reason to regrow it), a volume
// image inside decoded content, an NVAR store, an ME partition table.  runBytes parses it in read-only and
// in copy mode between parsing the case and judging the case's trees; the image is also a case of its own
// ("multi-disturber"), so its outcome class in the evidence shows that it is accepted with that shape.

import (
	"math/rand"
	"os"
	"sync"

	fuefi "github.com/linuxboot/fiano/pkg/uefi"

	hu "verif/harness/props/uefi"
)

var (
	disturberOnce sync.Once
	disturberImgs [2][]byte // 0: light (ZLIB only), 1: full (LZMA, LZMA+x86, ZLIB)
)

func buildDisturber(full bool) []byte {
	r := rand.New(rand.NewSource(0xC04))
	z := func(kind int, payload []byte) *hu.Sec {
		if !full {
			kind = ckZLIB
		}
		return smallDict(compressedSec(kind, payload))
	}
	store := nvStoreOf(r, 150, 0xFF).b
	nv := &hu.File{Kind: "fl", GUID: hu.GuidNVAR, Type: 1, State: 0xF8, CkF: 0xAA, Body: store}
	nv.CkH = hu.HeaderChecksum(nv, 24+len(store))
	var files []*hu.File
	if full {
		innerFV := closeFV(newFV(
			secFile(0xD8, z(ckLZMA, serSecs([]*hu.Sec{rawSec(0x66, 40)}))),
			leafFile(0xD9, 1, rep(0x3C, 10))), 0)
		files = []*hu.File{
			secFile(0xD1, z(ckLZMA, serSecs([]*hu.Sec{rawSec(0xE1, 8)}))),   // 12 bytes
			secFile(0xD5, z(ckZLIB, serSecs([]*hu.Sec{rawSec(0xE5, 8)}))),   // 12 bytes
			secFile(0xD2, z(ckX86, serSecs([]*hu.Sec{rawSec(0xE2, 56)}))),   // 60 bytes
			secFile(0xD3, z(ckZLIB, serSecs([]*hu.Sec{rawSec(0xE3, 696)}))), // 700 bytes
			secFile(0xD4, z(ckLZMA, serSecs([]*hu.Sec{{Kind: "su", Name: []rune("Disturber")}, {Kind: "sf", FV: innerFV}}))),
			nv}
	} else {
		innerFV := closeFV(newFV(
			secFile(0xD8, rawSec(0x66, 40), &hu.Sec{Kind: "sv", Build: 7, Name: []rune("1.0")}),
			leafFile(0xD9, 1, rep(0x3C, 10))), 0)
		files = []*hu.File{
			secFile(0xD1, rawSec(0xE1, 8), &hu.Sec{Kind: "sd", Type: 0x13, Ops: []hu.DepOp{{Op: 0x02, GUID: guid(0x31)}, {Op: 0x08}}}),
			secFile(0xD4, z(ckZLIB, serSecs([]*hu.Sec{{Kind: "su", Name: []rune("Disturber")}, {Kind: "sf", FV: innerFV}, rawSec(0xE3, 300)}))),
			leafFile(0xD6, 1, rep(0x11, 30)),
			nv}
	}
	fv := closeFV(newFV(files...), 64)
	bios := fv.Ser()
	if len(bios) > 4096 {
		panic("c04: disturber volume does not fit its region")
	}
	ents := []meEntry{{"FTPR", "OWN1", 0x400, 0x200, 1, 2, 3, 0x80}, {"NFTP", "\x00\x00\x00\x00", 0, 0x300, 0, 0, 0, 0x02}}
	out := meDescriptor(1)
	out = append(out, bios...)
	out = append(out, rep(0xFF, 4096-len(bios))...)
	region := rep(0xFF, 4096)
	copy(region, fptAt(16, 2, ents))
	return append(out, region...)
}

// disturberImage: the light one (parsed after every accepted case) has one ZLIB stream holding a volume image,
// leaf sections of every decoded kind, an NVAR store and an ME partition table; the full one adds what only a
// tree with decoder output can be hurt by: LZMA, LZMA+x86 and ZLIB streams decoding to 12, 12, 60, 700 bytes (in
// this order) and an LZMA stream holding a volume image with another LZMA stream.  The LZMA reader sets up an
// 8 MiB window per stream (~2.5 ms), so the full one is parsed only after cases whose input holds a codec GUID.
func disturberImage(full bool) []byte {
	disturberOnce.Do(func() {
		disturberImgs[0] = buildDisturber(false)
		disturberImgs[1] = buildDisturber(true)
	})
	if full {
		return disturberImgs[1]
	}
	return disturberImgs[0]
}

// disturb parses the disturber(s) in read-only and in copy mode (fresh process state each, results dropped).
func disturb(full bool) {
	if devNull == nil {
		devNull, _ = os.OpenFile(os.DevNull, os.O_WRONLY, 0)
	}
	imgs := [][]byte{disturberImage(false)}
	if full {
		imgs = append(imgs, disturberImage(true))
	}
	for _, img := range imgs {
		for _, ro := range []bool{true, false} {
			buf := append([]byte(nil), img...)
			hu.ResetState()
			fuefi.ReadOnly = ro
			stdout := os.Stdout
			os.Stdout = devNull
			hu.Guard(func() error { _, err := fuefi.Parse(buf); return err })
			os.Stdout = stdout
		}
	}
	hu.ResetState()
}
