package c04

// Generators of the follow-up wp-c04b: NVAR stores inside RAW files and ME partition tables inside flash
// images, each with boundary mutants of EVERY field the model now speaks about.
//
//   NVAR  a store is built from entry recipes (GUID by index / inline, ASCII / UCS-2 name, link + data-only
//         chains, extended header with checksum / time stamp / hash / authenticated write, deleted entries,
//         nested stores, hostile tails) + erased free space + GUID table, wrapped into a RAW file with the
//         NVAR GUID inside an FFSv2 volume of erase polarity 0xFF (free space behind the file) or 0x00 (the
//         file fills the volume).  Mutants: per entry the signature, Size, Next, every Attributes bit, the
//         GUID index byte, the name terminator, the extended-header size / attribute bytes, the first
//         content byte of a nested store; the file's Size field at EVERY value that moves the end of the
//         store (the GUID table moves with it); the volume's polarity bit.
//   ME    a 3-block flash image (descriptor, BIOS block, ME region of one or two blocks) whose ME region
//         holds "$FPT" at chosen positions (start, 16, just before / across the end of the region, twice,
//         absent, partial), the count at every boundary (0, 1, exact fit, fit+1, 2^31, 2^32-1) and
//         entries with offset 0 / FFFFFFFF / ending beyond the region.
//
// The builders follow harness/props/c05/gen.go (nvarStore / meRegion), which are package-private there.

import (
	"encoding/binary"
	"fmt"
	"math/rand"

	"verif/harness/core"
	hu "verif/harness/props/uefi"
)

type nvEnt struct {
	attrs   byte
	next    uint32
	guidIdx byte
	guid    []byte // with attrs&4
	name    []byte // terminator included; nil for data-only
	data    []byte
	ext     []byte
}

func (e nvEnt) ser() []byte {
	var body []byte
	if e.attrs&0x08 == 0 {
		if e.attrs&0x04 != 0 {
			body = append(body, e.guid...)
		} else {
			body = append(body, e.guidIdx)
		}
		body = append(body, e.name...)
	}
	body = append(body, e.data...)
	body = append(body, e.ext...)
	size := 10 + len(body)
	h := []byte{'N', 'V', 'A', 'R', byte(size), byte(size >> 8), byte(e.next), byte(e.next >> 8), byte(e.next >> 16), e.attrs}
	return append(h, body...)
}

// nvExt builds an extended header: attribute byte, optional time stamp, optional hash, filler, checksum
// slot, 2-byte size.
func nvExt(extAttrs byte, ts, hash bool, filler int) []byte {
	x := []byte{extAttrs}
	if ts {
		x = append(x, 0x11, 0x12, 0x13, 0x14, 0x15, 0x16, 0x17, 0x18)
	}
	if hash {
		for i := 0; i < 32; i++ {
			x = append(x, byte(0xC0+i))
		}
	}
	x = append(x, rep(0xEE, filler)...)
	x = append(x, 0) // checksum slot
	n := len(x) + 2
	return append(x, byte(n), byte(n>>8))
}

type nvStoreBuilt struct {
	b      []byte
	fields []core.Field // offsets relative to the store
}

// nvStoreOf builds one store of roughly `size` bytes for erase polarity `pol`.
func nvStoreOf(r *rand.Rand, size int, pol byte) nvStoreBuilt {
	var out nvStoreBuilt
	last := uint32(0)
	if pol == 0xFF {
		last = 0xFFFFFF
	}
	nguids := 1 + r.Intn(3)
	add := func(e nvEnt, tag string) {
		o := len(out.b)
		b := e.ser()
		f := func(name string, off, w int) {
			out.fields = append(out.fields, core.Field{Name: "nvar." + name, Off: o + off, W: w, Hdr: 10})
		}
		f("Signature0", 0, 1)
		f("Size", 4, 2)
		f("Next", 6, 3)
		f("Attributes", 9, 1)
		if e.attrs&0x08 == 0 {
			nameOff := 11
			if e.attrs&0x04 != 0 {
				nameOff = 26
				f("GuidByte", 10, 1)
			} else {
				f("GuidIndex", 10, 1)
			}
			if len(e.name) > 0 {
				f("NameTerminator", nameOff+len(e.name)-1, 1)
				f("NameFirst", nameOff, 1)
			}
		}
		if len(e.ext) > 0 {
			f("ExtSize", len(b)-2, 2)
			f("ExtAttributes", len(b)-len(e.ext), 1)
			f("ExtChecksum", len(b)-3, 1)
		}
		if tag == "nested" {
			f("NestedSignature0", len(b)-len(e.ext)-len(e.data), 1)
			f("NestedSize", len(b)-len(e.ext)-len(e.data)+4, 2)
		}
		out.b = append(out.b, b...)
	}
	n := 3 + r.Intn(5)
	for i := 0; i < n; i++ {
		e := nvEnt{attrs: 0x80 | 0x02, next: last, guidIdx: byte(r.Intn(nguids)), name: append([]byte(fmt.Sprintf("V%d", i)), 0),
			data: rep(byte(0x20+i), 1+r.Intn(20))}
		tag := ""
		switch r.Intn(11) {
		case 0: // UCS-2 name
			e.attrs &^= 0x02
			e.name = hu.UCS2([]rune(fmt.Sprintf("Ünï%d", i)))
		case 1: // GUID in the entry
			e.attrs |= 0x04
			e.guid = guid(byte(0x30 + i))
		case 2: // link to the data-only entry that follows
			e.next = uint32(len(e.ser()))
			add(e, "")
			e = nvEnt{attrs: 0x80 | 0x08, next: last, data: rep(0x77, 1+r.Intn(8))}
		case 3: // extended header with checksum and time stamp
			e.attrs |= 0x10
			e.ext = nvExt(0x01, true, false, r.Intn(3))
		case 4: // deleted entry
			e.attrs &^= 0x80
		case 5: // nested store in the content
			inner := nvEnt{attrs: 0x80 | 0x02 | 0x04, next: last, guid: guid(0x50), name: []byte("In\x00"), data: []byte{1, 2, 3}}
			e.data = append(inner.ser(), rep(pol, r.Intn(24))...)
			tag = "nested"
		case 6: // link to a data-only entry with time stamp and hash
			e.next = uint32(len(e.ser()))
			add(e, "")
			e = nvEnt{attrs: 0x80 | 0x08 | 0x10, next: last, data: rep(0x66, 2+r.Intn(6)), ext: nvExt(0x00, true, true, 0)}
		case 7: // authenticated write: no time stamp
			e.attrs |= 0x10 | 0x40
			e.ext = nvExt(byte(r.Intn(2)), false, false, 4+r.Intn(8))
		case 8: // chain of two links
			e.next = uint32(len(e.ser()))
			add(e, "")
			mid := nvEnt{attrs: 0x80 | 0x08, data: rep(0x55, 3)}
			mid.next = uint32(len(mid.ser()))
			add(mid, "")
			e = nvEnt{attrs: 0x80 | 0x08, next: last, data: rep(0x44, 4)}
		case 9: // data-only entry nobody links to
			e = nvEnt{attrs: 0x80 | 0x08, next: last, data: rep(0x33, 5)}
		}
		add(e, tag)
	}
	if len(out.b)+16*nguids+4 > size {
		size = len(out.b) + 16*nguids + 4 + r.Intn(16)
	}
	out.b = append(out.b, rep(pol, size-len(out.b)-16*nguids)...)
	for i := nguids - 1; i >= 0; i-- {
		out.b = append(out.b, guid(byte(0xA0+16*i))...)
	}
	return out
}

// nvVolume wraps a store into RAW file + FFSv2 volume.  pol 0xFF: free space behind the file; pol 0x00: the
// file fills the volume (an erased header of zeros is not "free space" to the parser).
func nvVolume(store []byte, pol byte, freeAfter int) (img []byte, bodyOff int, marks []hu.Mark) {
	f := &hu.File{Kind: "fl", GUID: hu.GuidNVAR, Type: 1, State: 0xF8, CkF: 0xAA, Body: store}
	if pol == 0 {
		f.State = 0x07
		// the file must fill the volume: pad the store's free space so that 72+24+len is a multiple of 8
		if (24+len(store))%8 != 0 {
			return nil, 0, nil // the caller passes stores that fill the volume exactly
		}
		freeAfter = 0
	}
	f.CkH = hu.HeaderChecksum(f, 24+len(store))
	attrs := uint32(0x0004FEFF)
	if pol == 0 {
		attrs &^= 0x800
	}
	total := 72 + 24 + len(store)
	total = (total+7)/8*8 + freeAfter
	fv := &hu.FV{ZV: make([]byte, 16), Attrs: attrs, Rev: 2, Blocks: []hu.Block{{Count: uint32(total / 8), Size: 8}}, Files: []*hu.File{f},
		Free: total - (72 + 24 + len(store))}
	im := &hu.Img{Bios: &hu.Bios{Items: []hu.Item{{FV: fv}}}}
	return im.Ser(), 72 + 24, im.Marks()
}

func nvarCases(r *rand.Rand, thorough bool) []core.Case {
	var cs []core.Case
	seeds := 6
	if thorough {
		seeds = 60
	}
	for k := 0; k < seeds; k++ {
		pol := byte(0xFF)
		if k%3 == 2 {
			pol = 0
		}
		st := nvStoreOf(r, 160+r.Intn(200), pol)
		for try := 0; pol == 0 && (24+len(st.b))%8 != 0 && try < 200; try++ {
			st = nvStoreOf(r, 160+r.Intn(200), pol) // a polarity-0 volume has no free space: the file must fill it
		}
		img, bodyOff, _ := nvVolume(st.b, pol, 8*(1+r.Intn(6)))
		if img == nil {
			continue
		}
		cs = append(cs, hexCase("nvar-store", img))
		// every field x every boundary value
		for _, f0 := range st.fields {
			f := f0
			f.Off += bodyOff
			vals := core.BoundaryValues(f, bodyOff+len(st.b))
			cur := get(img, f.Off, f.W)
			switch f0.Name {
			case "nvar.Size", "nvar.NestedSize":
				// cut values: to the end of the store, to the GUID table (1..3 GUIDs), to every later entry, +-1
				for _, g := range st.fields {
					if g.Name == "nvar.Size" && g.Off > f0.Off {
						d := uint64(g.Off - 4 - (f0.Off - 4))
						vals = append(vals, d-1, d, d+1)
					}
				}
				rest := uint64(len(st.b) - (f0.Off - 4))
				for _, t := range []uint64{0, 16, 32, 48, 64} {
					vals = append(vals, rest-t-1, rest-t, rest-t+1)
				}
				vals = append(vals, cur-1, cur+1, 9, 10, 11, 12, 13, 25, 26, 27)
			case "nvar.Next":
				vals = append(vals, cur-1, cur+1, 0xFFFFFE, 0xFFFFFF, 0)
				for _, g := range st.fields {
					if g.Name == "nvar.Size" && g.Off != f0.Off-2 {
						d := int64(g.Off-4) - int64(f0.Off-6)
						vals = append(vals, uint64(d)&0xFFFFFF)
					}
				}
			case "nvar.Attributes":
				for bit := uint(0); bit < 8; bit++ {
					vals = append(vals, cur^(1<<bit))
				}
				vals = append(vals, cur^0x18, cur^0x50, cur^0x06, cur^0x0C)
			case "nvar.GuidIndex":
				n16 := uint64(len(st.b) / 16)
				vals = append(vals, 0, 1, 2, 3, 4, n16-1, n16, n16+1, 254, 255)
			case "nvar.NameTerminator", "nvar.NameFirst", "nvar.Signature0", "nvar.NestedSignature0":
				vals = []uint64{0, 1, 0x4E, 0xFF}
			case "nvar.ExtSize":
				sz := uint64(0)
				// own entry size: the Size field of the entry this ext header belongs to is the last nvar.Size before f0
				for _, g := range st.fields {
					if g.Name == "nvar.Size" && g.Off < f0.Off {
						sz = get(img, g.Off+bodyOff, 2)
					}
				}
				vals = append(vals, 0, 1, 2, 3, 8, 9, 10, 11, 12, 40, 41, 42, 43, sz-11, sz-10, sz-9, sz, cur-1, cur+1)
			case "nvar.ExtAttributes":
				vals = []uint64{0, 1, 0x10, 0x20, 0x31, 0xCE, 0xFF}
			}
			seen := map[uint64]bool{cur: true}
			for _, v := range vals {
				if f.W < 8 {
					v &= 1<<(8*uint(f.W)) - 1
				}
				if seen[v] {
					continue
				}
				seen[v] = true
				b := append([]byte(nil), img...)
				put(b, f.Off, f.W, v)
				cs = append(cs, hexCase("nvar-mutant:"+f0.Name, b))
			}
		}
		// the end of the store at every position: the file's Size field (the GUID table moves with it)
		step := 1
		if !thorough && len(st.b) > 120 {
			step = 1 + len(st.b)/120
		}
		for sz := 24; sz <= 24+len(st.b)+9; sz += step {
			b := append([]byte(nil), img...)
			put(b, 72+20, 3, uint64(sz))
			refix(b, hu.Mark{Off: 72, Len: 24, Kind: "file"})
			cs = append(cs, hexCase("nvar-mutant:file.Size", b))
		}
		// the other polarity in the volume header (the store then is not erased where the parser expects it)
		b := append([]byte(nil), img...)
		b[45] ^= 0x08
		refix(b, hu.Mark{Off: 0, Len: 72, Kind: "fv"})
		cs = append(cs, hexCase("nvar-mutant:fv.Polarity", b))
	}
	cs = append(cs, nvarSpecials(r)...)
	return cs
}

// nvarSpecials: hand-built stores for the corner cases of the theorems.
func nvarSpecials(r *rand.Rand) []core.Case {
	var cs []core.Case
	wrap := func(kind string, store []byte) {
		img, _, _ := nvVolume(store, 0xFF, 32)
		cs = append(cs, hexCase(kind, img))
	}
	// the overlap quirk (Props/C04.lean nvar_overlap_witness): one entry fills the store, its GUID index 0 makes
	// its own last 16 bytes the GUID table
	ov := nvEnt{attrs: 0x82, next: 0xFFFFFF, guidIdx: 0, name: []byte("A\x00"), data: guid(0xA0)}.ser()
	wrap("nvar-overlap", ov)
	// the same with the table one byte short of fitting / fitting exactly behind the entry
	for _, extra := range []int{0, 1, 15, 16, 17} {
		wrap("nvar-overlap", append(append([]byte(nil), ov...), rep(0xFF, extra)...))
	}
	// empty store, store of erased bytes only, store shorter than a header, store = exactly one header
	wrap("nvar-special", nil)
	wrap("nvar-special", rep(0xFF, 40))
	wrap("nvar-special", []byte("NVAR"))
	wrap("nvar-special", nvEnt{attrs: 0x02}.ser()[:10])
	wrap("nvar-special", nvEnt{attrs: 0x00, next: 0xFFFFFF}.ser()[:10])
	// 255 GUID indexes: index 254 grows the table to 255 GUIDs (4080 bytes), index 255 never resolves
	big := nvEnt{attrs: 0x82, next: 0xFFFFFF, guidIdx: 254, name: []byte("B\x00"), data: []byte{1}}.ser()
	big = append(big, nvEnt{attrs: 0x82, next: 0xFFFFFF, guidIdx: 255, name: []byte("C\x00"), data: []byte{2}}.ser()...)
	bigStore := append(append([]byte(nil), big...), rep(0xFF, 16)...)
	tbl := make([]byte, 4080)
	r.Read(tbl)
	wrap("nvar-special", append(bigStore, tbl...))
	wrap("nvar-special", append(append([]byte(nil), big...), tbl[:4064]...)) // one GUID short: index 254 does not fit
	// link whose Next is 0 with polarity FF: a link to itself (NextOffset = Offset)
	self := nvEnt{attrs: 0x82, next: 0, guidIdx: 0, name: []byte("S\x00"), data: []byte{9}}.ser()
	wrap("nvar-special", append(append(self, rep(0xFF, 20)...), guid(0xA0)...))
	// nested store two levels deep, and a nested store that does not parse (content starts with NVAR, bad size)
	in2 := nvEnt{attrs: 0x86, next: 0xFFFFFF, guid: guid(0x60), name: []byte("i2\x00"), data: []byte{7}}.ser()
	in1 := nvEnt{attrs: 0x86, next: 0xFFFFFF, guid: guid(0x50), name: []byte("i1\x00"), data: append(in2, rep(0xFF, 5)...)}.ser()
	outer := nvEnt{attrs: 0x82, next: 0xFFFFFF, guidIdx: 0, name: []byte("o\x00"), data: append(in1, rep(0xFF, 3)...)}.ser()
	wrap("nvar-special", append(append(outer, rep(0xFF, 12)...), guid(0xA0)...))
	badIn := append([]byte("NVAR"), 0xFF, 0x7F, 0xFF, 0xFF, 0xFF, 0x82, 0, 0)
	outer2 := nvEnt{attrs: 0x82, next: 0xFFFFFF, guidIdx: 0, name: []byte("o\x00"), data: badIn}.ser()
	wrap("nvar-special", append(append(outer2, rep(0xFF, 12)...), guid(0xA0)...))
	// an NVAR file inside a nested volume (volume-image section) — the store is reached through decoded structure
	inner := &hu.FV{ZV: make([]byte, 16), Attrs: 0x0004FEFF, Rev: 2, Blocks: []hu.Block{{Count: 40, Size: 8}}}
	st := nvStoreOf(r, 150, 0xFF)
	nf := &hu.File{Kind: "fl", GUID: hu.GuidNVAR, Type: 1, State: 0xF8, CkF: 0xAA, Body: st.b}
	nf.CkH = hu.HeaderChecksum(nf, 24+len(st.b))
	inner.Files = []*hu.File{nf}
	isz := (72 + 24 + len(st.b) + 7) / 8 * 8
	inner.Free = isz + 16 - (72 + 24 + len(st.b))
	inner.Blocks = []hu.Block{{Count: uint32((isz + 16) / 8), Size: 8}}
	sec := &hu.Sec{Kind: "sf", Type: 0x17, FV: inner}
	host := &hu.File{Kind: "fs", GUID: guid(0x10), Type: 0x0B, State: 0xF8, Secs: []*hu.Sec{sec}}
	ofv := &hu.FV{ZV: make([]byte, 16), Attrs: 0x0004FEFF, Rev: 2, Files: []*hu.File{host}, Free: 64}
	osz := 72 + len(host.Ser())
	osz = (osz+7)/8*8 + 64
	ofv.Free = osz - (72 + len(host.Ser()))
	ofv.Blocks = []hu.Block{{Count: uint32(osz / 8), Size: 8}}
	cs = append(cs, hexCase("nvar-nested-volume", (&hu.Img{Bios: &hu.Bios{Items: []hu.Item{{FV: ofv}}}}).Ser()))
	return cs
}

// ---------------------------------------------------------------- ME partition tables

// meDescriptor: signature at 16, region section at 0x40 (BIOS = block 1, ME = blocks 2..1+meBlocks), master
// section at 0x80.
func meDescriptor(meBlocks int) []byte {
	d := rep(0xFF, 4096)
	copy(d[16:], []byte{0x5a, 0xa5, 0xf0, 0x0f})
	copy(d[20:], []byte{0x00, 0x00, 0x04, 0x00, 0x08, 0x00, 0x00, 0x00, 0x00, 0x00, 0x00, 0x00, 0x00, 0x00, 0x00, 0x00})
	rs := 0x40
	d[rs], d[rs+1], d[rs+2], d[rs+3] = 0, 0, 0x34, 0x12
	for i := 0; i < 15; i++ {
		binary.LittleEndian.PutUint16(d[rs+4+4*i:], 0x7FFF) // base > limit: not valid
		binary.LittleEndian.PutUint16(d[rs+6+4*i:], 0)
	}
	binary.LittleEndian.PutUint16(d[rs+4:], 1)
	binary.LittleEndian.PutUint16(d[rs+6:], 1)
	binary.LittleEndian.PutUint16(d[rs+8:], 2)
	binary.LittleEndian.PutUint16(d[rs+10:], uint16(1+meBlocks))
	copy(d[0x80:], []byte{0, 1, 2, 3, 4, 5, 6, 7, 8, 9, 10, 11})
	return d
}

type meEntry struct {
	name, owner    string
	off, length    uint32
	r0, r1, r2, fl uint32
}

func (e meEntry) ser() []byte {
	b := make([]byte, 32)
	copy(b[0:4], e.name)
	copy(b[4:8], e.owner)
	for i, v := range []uint32{e.off, e.length, e.r0, e.r1, e.r2, e.fl} {
		binary.LittleEndian.PutUint32(b[8+4*i:], v)
	}
	return b
}

// meFlash: a flash image whose ME region (meBlocks * 4096 bytes) starts with `me` and is filled with `fill`.
func meFlash(r *rand.Rand, meBlocks int, me []byte, fill byte) []byte {
	g := &hu.Gen{R: r, MaxAlign: 2, Depth: 1, NoNested: true}
	bios := (&hu.Bios{Items: []hu.Item{{FV: g.FV(600, false)}}}).Ser()
	if len(bios) > 4096 {
		bios = (&hu.Bios{}).Ser()
	}
	out := meDescriptor(meBlocks)
	out = append(out, bios...)
	out = append(out, rep(0xFF, 4096-len(bios))...)
	region := rep(fill, meBlocks*4096)
	copy(region, me)
	return append(out, region...)
}

// fptAt: `pre` filler bytes, "$FPT", count, 24 header bytes, the entries.
func fptAt(pre int, count uint32, entries []meEntry) []byte {
	b := rep(0x00, pre)
	b = append(b, '$', 'F', 'P', 'T')
	b = append(b, byte(count), byte(count>>8), byte(count>>16), byte(count>>24))
	for i := 0; i < 24; i++ {
		b = append(b, byte(0x40+i))
	}
	for _, e := range entries {
		b = append(b, e.ser()...)
	}
	return b
}

func meCases(r *rand.Rand, thorough bool) []core.Case {
	var cs []core.Case
	ents := []meEntry{
		{"FTPR", "OWN1", 0x400, 0x200, 1, 2, 3, 0x80},
		{"MFS\x00", "\xff\xff\xff\xff", 0xFFFFFFFF, 0x100, 0, 0, 0, 0x01},
		{"NFTP", "\x00\x00\x00\x00", 0, 0x300, 0, 0, 0, 0x02},
		{"BIG\x00", "OWN2", 0x1800, 0x1000, 7, 8, 9, 0x7F}, // ends beyond a one-block region
	}
	add := func(kind string, b []byte) { cs = append(cs, hexCase(kind, b)) }
	seeds := 2
	if thorough {
		seeds = 8
	}
	for s := 0; s < seeds; s++ {
		blocks := 1 + s%2
		L := blocks * 4096
		fill := []byte{0xFF, 0x5A, 0x00}[s%3]
		// positions of the signature: region start, +16, unaligned, such that the 28-byte header ends at / one
		// past / one before the end of the region, and such that only part of the signature fits
		for _, pre := range []int{0, 16, 5, L - 32 - 64, L - 32 - 32, L - 32, L - 31, L - 33, L - 4, L - 3, L - 8} {
			for _, cnt := range []uint32{0, 1, 2, 3, 4} {
				if int(cnt) > len(ents) {
					continue
				}
				me := fptAt(pre, cnt, ents[:cnt])
				if len(me) > L {
					me = me[:L]
				}
				add("me-fpt", meFlash(r, blocks, me, fill))
			}
		}
		// the count at every boundary, signature at 16: exact fit, fit+-1, huge values
		base := fptAt(16, 2, ents[:2])
		fit := uint32((L - 48) / 32)
		for _, cnt := range []uint32{0, 1, 2, 3, fit - 1, fit, fit + 1, 0x7FFFFFF, 0x8000000, 0x7FFFFFFF, 0x80000000, 0xFFFFFFFF, 0xFFFFFFFE} {
			b := meFlash(r, blocks, base, fill)
			binary.LittleEndian.PutUint32(b[8192+20:], cnt)
			add("me-mutant:PartitionCount", b)
		}
		// every field of every entry at its boundaries (Offset / Length decide FreeSpaceOffset)
		seed := meFlash(r, blocks, fptAt(16, 3, ents[:3]), fill)
		for e := 0; e < 3; e++ {
			for fi, name := range []string{"Name", "Owner", "Offset", "Length", "Reserved0", "Reserved1", "Reserved2", "Flags"} {
				f := core.Field{Name: "me." + name, Off: 8192 + 48 + 32*e + 4*fi, W: 4}
				for _, v := range append(core.BoundaryValues(f, len(seed)), 0xFFFFFFFF, 0xFFFFFFFE, 0, 1, uint64(L), uint64(L)-1, uint64(L)+1) {
					v &= 0xFFFFFFFF
					if v == get(seed, f.Off, 4) {
						continue
					}
					if !thorough && fi != 2 && fi != 3 && v != 0 && v != 0xFFFFFFFF {
						continue
					}
					b := append([]byte(nil), seed...)
					put(b, f.Off, 4, v)
					add("me-mutant:"+f.Name, b)
				}
			}
		}
		// signature bytes: every byte of "$FPT" changed; two signatures (the first wins); none
		for i := 0; i < 4; i++ {
			b := append([]byte(nil), seed...)
			b[8192+16+i] ^= 0x01
			add("me-mutant:Signature", b)
		}
		two := fptAt(16, 1, ents[:1])
		two = append(two, fptAt(8, 2, ents[1:3])...)
		add("me-fpt", meFlash(r, blocks, two, fill))
		add("me-fpt", meFlash(r, blocks, nil, fill))
		add("me-fpt", meFlash(r, blocks, []byte("$FP"), fill))
		// a signature produced by the filler itself further down: the region is "$FPT$FPT…"
		rp := make([]byte, 0, L)
		for len(rp)+4 <= 256 {
			rp = append(rp, '$', 'F', 'P', 'T')
		}
		add("me-fpt", meFlash(r, blocks, rp, 0x00))
	}
	return cs
}
