// Package c04: harness for property C04 (not built yet).
package c04
