package c04

// The C04 oracle on the implementation's own output, independent of the Lean model and of fiano's
// parser: a walker that takes the tree uefi.Parse returned and the input bytes, re-derives where
// every node must sit (running offsets, 8- / 4-byte alignment, 4 KiB region blocks) and checks, byte
// for byte, what the property says:
//
//   flash     buffer = input, FlashSize = len; descriptor = input[0:4096) and every descriptor field is
//             the bytes at its layout offset; the regions in tree order start at 4096, each where the
//             previous one ended, the last one ends at len(input); region buffer = input[start:end);
//             reported base = start/4096; a declared region is the table entry of its type and ends
//             at (limit+1)*4096
//   BIOS      buffer = the region's bytes; paddings and volumes are consecutive: reported offsets are
//             the running sum, buffers concatenate to the region, nothing is empty
//   volume    header fields / block map / extended header = bytes at their layout offsets;
//             Length <= available; buffer = data[0:Length); files at 8-aligned running offsets from
//             DataOffset, non-empty, increasing, and *inside the volume* (offset+size <= Length)
//   file      header fields = bytes; buffer = volume[offset:offset+size); sections at 4-aligned running
//             offsets from DataOffset, non-empty, inside the file, covering it to the end
//   section   header fields = bytes; buffer = parent[offset:offset+size) inside the parent; GUID-defined
//             sub-header = bytes; decoded content (the decoder is re-run here on parent[DataOffset:])
//             is partitioned by the child sections; a volume-image section has exactly one child
//             volume, faithful to buffer[headerSize:]; UI / version / depex fields = decoding of the
//             section's bytes
//   ME        buffer = the region's bytes; partition table fields = bytes (when a table was found)
//   NVAR      the store below a RAW file with the NVAR GUID: nvwalk.go
//   cover     behind the last file of a volume: free space reported and an erased header there, or fewer
//             than 24 bytes left
//
// Violations are grouped into a few named oracles (one core.Check each).

import (
	"bytes"
	"encoding/binary"
	"fmt"

	"github.com/linuxboot/fiano/pkg/compression"
	fuefi "github.com/linuxboot/fiano/pkg/uefi"

	"verif/harness/core"
)

// oracle names (the What of the O checks)
const (
	oFlash   = "flash-tiles-input"
	oDesc    = "descriptor-fields-are-bytes"
	oBios    = "bios-elements-concatenate"
	oVolume  = "volume-bytes-and-fields"
	oInside  = "file-inside-volume"
	oFile    = "file-bytes-and-fields"
	oSection = "section-bytes-and-fields"
	oEncap   = "decoded-content-partitioned"
	oME      = "me-region-bytes-and-fields"
	oCover   = "files-and-free-space-cover-volume"          // no free space reported although a file header fits behind the last file
	oWalkEnd = "file-walk-ends-at-free-space-or-volume-end" // free space reported that does not start with an erased file header
)

var oracleNames = []string{oFlash, oDesc, oBios, oVolume, oInside, oFile, oSection, oEncap, oME, oCover, oWalkEnd, oNvar}

type decodeRec struct {
	key string // fnv:len of the decoder's input
	out []byte
	err bool
}

type walker struct {
	in        []byte
	snap      map[fuefi.Firmware][]byte // node buffers as they were when Parse returned (nil: read them now)
	dd        bool                      // uefi.DisableDecompression during the parse
	pol       byte                      // uefi.Attributes.ErasePolarity when the parse ended
	bad       map[string]string
	nodes     int
	decodes   []decodeRec
	nvStores  int // NVAR stores seen (any depth of the UEFI tree; nested NVAR stores not counted)
	nvEntries int
	nvOverlap int // stores whose last entry grew the GUID table into the entries (oracle failure since the table-overlap fix)
	meTables  int
}

func keyOf(b []byte) string { return fmt.Sprintf("%016x:%d", core.FNV(b), len(b)) }

func (w *walker) fail(cat, format string, a ...interface{}) {
	if _, ok := w.bad[cat]; !ok {
		s := fmt.Sprintf(format, a...)
		if len(s) > 300 {
			s = s[:300]
		}
		w.bad[cat] = s
	}
}

func up(n uint64, a uint64) uint64 { return (n + a - 1) / a * a }

func le(b []byte) uint64 {
	var v uint64
	for i := len(b) - 1; i >= 0; i-- {
		v = v<<8 | uint64(b[i])
	}
	return v
}

var flashSig = []byte{0x5a, 0xa5, 0xf0, 0x0f}

// buf is the node's buffer as it was when Parse returned.
func (w *walker) buf(n fuefi.Firmware) []byte {
	if b, ok := w.snap[n]; ok {
		return b
	}
	return n.Buf()
}

// checkFaithfulAt judges the tree as recorded when Parse returned (parsed.snap).
func checkFaithfulAt(p parsed, in []byte, dd bool) *walker {
	return checkFaithfulSnap(p.tree, p.snap, in, dd, p.pol)
}

// checkFaithful walks the tree and returns the verdicts.
func checkFaithful(root fuefi.Firmware, in []byte, dd bool, pol byte) *walker {
	return checkFaithfulSnap(root, nil, in, dd, pol)
}

func checkFaithfulSnap(root fuefi.Firmware, snap map[fuefi.Firmware][]byte, in []byte, dd bool, pol byte) *walker {
	w := &walker{in: in, snap: snap, dd: dd, pol: pol, bad: map[string]string{}}
	switch t := root.(type) {
	case *fuefi.FlashImage:
		w.flash(t)
	case *fuefi.BIOSRegion:
		if t.FRegion != nil {
			w.fail(oBios, "bare BIOS region reports a flash region %v", *t.FRegion)
		}
		w.bios(t, in, "input")
	default:
		w.fail(oFlash, "root node of unexpected type %T", root)
	}
	return w
}

func (w *walker) flash(f *fuefi.FlashImage) {
	w.nodes++
	in := w.in
	if !bytes.Equal(w.buf(f), in) {
		w.fail(oFlash, "flash buffer (%d bytes) differs from the input (%d bytes)", len(w.buf(f)), len(in))
	}
	if f.FlashSize != uint64(len(in)) {
		w.fail(oFlash, "FlashSize %d, input has %d bytes", f.FlashSize, len(in))
	}
	if len(in) < 4096 {
		w.fail(oFlash, "flash image accepted with %d bytes (< descriptor)", len(in))
		return
	}
	w.descriptor(&f.IFD, in[:4096])
	off := uint64(4096)
	for i, tf := range f.Regions {
		r, ok := tf.Value.(fuefi.Region)
		if !ok {
			w.fail(oFlash, "region %d has type %T", i, tf.Value)
			return
		}
		fr := r.FlashRegion()
		buf := w.buf(r)
		n := uint64(len(buf))
		if fr == nil {
			w.fail(oFlash, "region %d has no flash region record", i)
			return
		}
		if uint64(fr.Base)*4096 != off {
			w.fail(oFlash, "region %d (type %d) reports base %#x but the previous node ended at %#x (gap or overlap)",
				i, int(r.Type()), uint64(fr.Base)*4096, off)
		}
		if n == 0 {
			w.fail(oFlash, "region %d is empty", i)
		}
		if off+n > uint64(len(in)) {
			w.fail(oFlash, "region %d [%#x,%#x) ends beyond the input (%#x)", i, off, off+n, len(in))
			return
		}
		if !bytes.Equal(buf, in[off:off+n]) {
			w.fail(oFlash, "region %d buffer differs from input[%#x:%#x)", i, off, off+n)
		}
		if t := int(r.Type()); t != -1 {
			if (uint64(fr.Limit)+1)*4096 != off+n {
				w.fail(oFlash, "region %d (type %d) reports limit %#x (end %#x) but its buffer ends at %#x",
					i, t, fr.Limit, (uint64(fr.Limit)+1)*4096, off+n)
			}
			if f.IFD.Region == nil || t < 0 || t >= len(f.IFD.Region.FlashRegions) || f.IFD.Region.FlashRegions[t] != *fr {
				w.fail(oFlash, "region %d (type %d) reports %v, which is not entry %d of the descriptor's table", i, t, *fr, t)
			}
		}
		switch t := r.(type) {
		case *fuefi.BIOSRegion:
			if t.FRegion == nil {
				w.fail(oBios, "BIOS region of a flash image without flash region record")
			}
			w.bios(t, in[off:off+n], fmt.Sprintf("region %d", i))
		case *fuefi.MERegion:
			w.me(t, in[off:off+n])
		case *fuefi.RawRegion:
			w.nodes++
		default:
			w.fail(oFlash, "region %d has unexpected type %T", i, r)
		}
		off += n
	}
	if off != uint64(len(in)) {
		w.fail(oFlash, "regions end at %#x, the input at %#x: %d bytes unaccounted", off, len(in), uint64(len(in))-off)
	}
}

func (w *walker) descriptor(d *fuefi.FlashDescriptor, dbuf []byte) {
	w.nodes++
	if !bytes.Equal(w.buf(d), dbuf) {
		w.fail(oDesc, "descriptor buffer differs from input[0:4096)")
	}
	ms := d.DescriptorMapStart
	switch {
	case ms == 20 && bytes.Equal(dbuf[16:20], flashSig):
	case ms == 4 && bytes.Equal(dbuf[0:4], flashSig):
	default:
		w.fail(oDesc, "DescriptorMapStart %d does not follow a flash signature", ms)
		return
	}
	if d.DescriptorMap == nil || d.Region == nil || d.Master == nil {
		w.fail(oDesc, "descriptor accepted without map / region / master section")
		return
	}
	var mb bytes.Buffer
	binary.Write(&mb, binary.LittleEndian, d.DescriptorMap)
	if !bytes.Equal(mb.Bytes(), dbuf[ms:ms+16]) {
		w.fail(oDesc, "descriptor map fields %x differ from the bytes at %d: %x", mb.Bytes(), ms, dbuf[ms:ms+16])
	}
	rs := uint(dbuf[ms+2]) * 16
	if d.RegionStart != rs {
		w.fail(oDesc, "RegionStart %#x, byte RegionBase says %#x", d.RegionStart, rs)
	}
	if rs+64 > 4096 {
		w.fail(oDesc, "region section [%#x,%#x) outside the descriptor", rs, rs+64)
		return
	}
	if uint64(d.Region.FlashBlockEraseSize) != le(dbuf[rs+2:rs+4]) {
		w.fail(oDesc, "FlashBlockEraseSize %#x, bytes say %#x", d.Region.FlashBlockEraseSize, le(dbuf[rs+2:rs+4]))
	}
	for i, fr := range d.Region.FlashRegions {
		o := rs + 4 + 4*uint(i)
		if uint64(fr.Base) != le(dbuf[o:o+2]) || uint64(fr.Limit) != le(dbuf[o+2:o+4]) {
			w.fail(oDesc, "region table entry %d reports %#x..%#x, bytes at %#x say %#x..%#x", i, fr.Base, fr.Limit, o,
				le(dbuf[o:o+2]), le(dbuf[o+2:o+4]))
		}
	}
	mas := uint(dbuf[ms+4]) * 16
	if d.MasterStart != mas {
		w.fail(oDesc, "MasterStart %#x, byte MasterBase says %#x", d.MasterStart, mas)
	}
	if mas+12 > 4096 {
		w.fail(oDesc, "master section outside the descriptor")
		return
	}
	for i, p := range []fuefi.RegionPermissions{d.Master.BIOS, d.Master.ME, d.Master.GBE} {
		o := mas + 4*uint(i)
		if uint64(p.ID) != le(dbuf[o:o+2]) || p.Read != dbuf[o+2] || p.Write != dbuf[o+3] {
			w.fail(oDesc, "master entry %d reports %v, bytes at %#x say %x", i, p, o, dbuf[o:o+4])
		}
	}
}

func (w *walker) me(m *fuefi.MERegion, rbuf []byte) {
	w.nodes++
	if !bytes.Equal(w.buf(m), rbuf) {
		w.fail(oME, "ME region buffer differs from the region's bytes")
	}
	fp := m.FPT
	if fp == nil {
		if m.FreeSpaceOffset != 0 {
			w.fail(oME, "FreeSpaceOffset %#x without partition table", m.FreeSpaceOffset)
		}
		return
	}
	w.meTables++
	idx := bytes.Index(rbuf, []byte("$FPT"))
	if idx < 0 {
		w.fail(oME, "partition table reported but the region holds no $FPT")
		return
	}
	o := idx + 4
	if o+28 > len(rbuf) {
		w.fail(oME, "partition table header outside the region")
		return
	}
	cnt := le(rbuf[o : o+4])
	if uint64(fp.PartitionCount) != cnt {
		w.fail(oME, "PartitionCount %d, bytes say %d", fp.PartitionCount, cnt)
	}
	if fp.PartitionMapStart != o+28 {
		w.fail(oME, "PartitionMapStart %d, signature position says %d", fp.PartitionMapStart, o+28)
	}
	l := uint64(o+28) + 32*cnt
	if l > uint64(len(rbuf)) {
		w.fail(oME, "partition table [0,%#x) outside the region (%#x)", l, len(rbuf))
		return
	}
	if !bytes.Equal(w.buf(fp), rbuf[:l]) {
		w.fail(oME, "partition table buffer differs from region[0:%#x)", l)
	}
	if uint64(len(fp.Entries)) != cnt {
		w.fail(oME, "%d entries, count says %d", len(fp.Entries), cnt)
		return
	}
	var free uint64
	for i, e := range fp.Entries {
		b := rbuf[o+28+32*i : o+28+32*i+32]
		ok := bytes.Equal(e.Name[:], b[0:4]) && bytes.Equal(e.Owner[:], b[4:8]) && uint64(e.Offset) == le(b[8:12]) &&
			uint64(e.Length) == le(b[12:16]) && uint64(e.Reserved[0]) == le(b[16:20]) && uint64(e.Reserved[1]) == le(b[20:24]) &&
			uint64(e.Reserved[2]) == le(b[24:28]) && uint64(e.Flags) == le(b[28:32])
		if !ok {
			w.fail(oME, "partition entry %d differs from its 32 bytes", i)
		}
		if off := le(b[8:12]); off != 0 && off != 0xffffffff {
			if end := off + le(b[12:16]); end > free {
				free = end
			}
		}
	}
	if m.FreeSpaceOffset != free {
		w.fail(oME, "FreeSpaceOffset %#x, entries say %#x", m.FreeSpaceOffset, free)
	}
}

func (w *walker) bios(b *fuefi.BIOSRegion, rbuf []byte, where string) {
	w.nodes++
	if !bytes.Equal(w.buf(b), rbuf) {
		w.fail(oBios, "%s: BIOS region buffer (%d bytes) differs from the region's bytes (%d)", where, len(w.buf(b)), len(rbuf))
	}
	if b.Length != uint64(len(rbuf)) {
		w.fail(oBios, "%s: BIOS region Length %d, region has %d bytes", where, b.Length, len(rbuf))
	}
	run := uint64(0)
	total := uint64(len(rbuf))
	for i, e := range b.Elements {
		switch t := e.Value.(type) {
		case *fuefi.BIOSPadding:
			w.nodes++
			n := uint64(len(w.buf(t)))
			if t.Offset != run {
				w.fail(oBios, "%s: padding %d reports offset %#x, the elements before it end at %#x", where, i, t.Offset, run)
			}
			if n == 0 {
				w.fail(oBios, "%s: padding %d is empty", where, i)
			}
			if run+n > total {
				w.fail(oBios, "%s: padding %d [%#x,%#x) ends beyond the region (%#x)", where, i, run, run+n, total)
				return
			}
			if !bytes.Equal(w.buf(t), rbuf[run:run+n]) {
				w.fail(oBios, "%s: padding %d differs from region[%#x:%#x)", where, i, run, run+n)
			}
			run += n
		case *fuefi.FirmwareVolume:
			if t.FVOffset != run {
				w.fail(oBios, "%s: volume %d reports FVOffset %#x, the elements before it end at %#x (bytes accounted twice or skipped)",
					where, i, t.FVOffset, run)
			}
			if t.Resizable {
				w.fail(oBios, "%s: top-level volume %d marked resizable", where, i)
			}
			if run > total {
				return
			}
			w.fv(t, rbuf[run:])
			if t.Length == 0 {
				w.fail(oBios, "%s: volume %d has length 0", where, i)
			}
			if run+t.Length > total {
				w.fail(oBios, "%s: volume %d [%#x,%#x) ends beyond the region (%#x)", where, i, run, run+t.Length, total)
				return
			}
			run += t.Length
		default:
			w.fail(oBios, "%s: element %d has type %T", where, i, e.Value)
			return
		}
	}
	if run != total {
		w.fail(oBios, "%s: elements end at %#x, the region at %#x: %d bytes unaccounted", where, run, total, total-run)
	}
}

var nvarGUID = []byte{0xa3, 0xb9, 0xf5, 0xce, 0x6d, 0x47, 0x7f, 0x49, 0x9f, 0xdc, 0xe9, 0x81, 0x43, 0xe0, 0x42, 0x2c}

var (
	ffs2 = []byte{0x78, 0xe5, 0x8c, 0x8c, 0x3d, 0x8a, 0x1c, 0x4f, 0x99, 0x35, 0x89, 0x61, 0x85, 0xc3, 0x2d, 0xd3}
	ffs3 = []byte{0x7a, 0xc0, 0x73, 0x54, 0xcb, 0x3d, 0xca, 0x4d, 0xbd, 0x6f, 0x1e, 0x96, 0x89, 0xe7, 0x34, 0x9a}
)

func (w *walker) fv(v *fuefi.FirmwareVolume, data []byte) {
	w.nodes++
	if len(data) < 64 {
		w.fail(oVolume, "volume accepted on %d bytes", len(data))
		return
	}
	chk := func(name string, got uint64, lo, n int) {
		if want := le(data[lo : lo+n]); got != want {
			w.fail(oVolume, "volume field %s reports %#x, bytes at %d say %#x", name, got, lo, want)
		}
	}
	if !bytes.Equal(v.FileSystemGUID[:], data[16:32]) {
		w.fail(oVolume, "volume FileSystemGUID %x, bytes say %x", v.FileSystemGUID[:], data[16:32])
	}
	chk("Length", v.Length, 32, 8)
	chk("Signature", uint64(v.Signature), 40, 4)
	chk("Attributes", uint64(v.Attributes), 44, 4)
	chk("HeaderLen", uint64(v.HeaderLen), 48, 2)
	chk("Checksum", uint64(v.Checksum), 50, 2)
	chk("ExtHeaderOffset", uint64(v.ExtHeaderOffset), 52, 2)
	chk("Reserved", uint64(v.Reserved), 54, 1)
	chk("Revision", uint64(v.Revision), 55, 1)
	// block map: the listed entries, then the {0,0} terminator
	o := 56
	for i, b := range v.Blocks {
		if o+8 > len(data) {
			w.fail(oVolume, "block map entry %d outside the data", i)
			break
		}
		c, s := le(data[o:o+4]), le(data[o+4:o+8])
		if uint64(b.Count) != c || uint64(b.Size) != s || (c == 0 && s == 0) {
			w.fail(oVolume, "block map entry %d reports %d:%d, bytes at %d say %d:%d", i, b.Count, b.Size, o, c, s)
		}
		o += 8
	}
	if o+8 > len(data) || le(data[o:o+8]) != 0 {
		w.fail(oVolume, "block map does not end with a zero entry at %d", o)
	}
	L := v.Length
	if L > uint64(len(data)) {
		w.fail(oVolume, "volume Length %#x exceeds the %#x bytes it was parsed from", L, len(data))
		return
	}
	fvbuf := data[:L]
	if !bytes.Equal(w.buf(v), fvbuf) {
		w.fail(oVolume, "volume buffer (%d bytes) differs from data[0:%#x)", len(w.buf(v)), L)
	}
	// extended header: either none is reported (zero name and size, data after HeaderLen), or the reported
	// fields are the bytes at ExtHeaderOffset (inside the volume) and the data start after it.  Which of
	// the two applies is the parser's acceptance rule, not part of this property.
	eho := uint64(v.ExtHeaderOffset)
	noExt := v.FVName == [16]byte{} && v.ExtHeaderSize == 0 && v.DataOffset == up(uint64(v.HeaderLen), 8)
	withExt := eho != 0 && eho+20 <= L && bytes.Equal(v.FVName[:], data[eho:eho+16]) &&
		uint64(v.ExtHeaderSize) == le(data[eho+16:eho+20]) && v.DataOffset == up(eho+uint64(v.ExtHeaderSize), 8)
	if !noExt && !withExt {
		w.fail(oVolume, "extended header fields (name %x, size %#x, DataOffset %#x) are neither absent nor the bytes at ExtHeaderOffset %#x (HeaderLen %#x, Length %#x)",
			v.FVName[:], v.ExtHeaderSize, v.DataOffset, eho, v.HeaderLen, L)
	}
	// files
	if !bytes.Equal(data[16:32], ffs2) && !bytes.Equal(data[16:32], ffs3) {
		if len(v.Files) != 0 || v.FreeSpace != 0 {
			w.fail(oVolume, "files / free space reported in a volume of an unparsed file system")
		}
		return
	}
	off := v.DataOffset
	for i, f := range v.Files {
		o := up(off, 8)
		ext := f.Header.ExtendedSize
		if o+24 > L {
			w.fail(oInside, "file %d header [%#x,%#x) is not inside its volume (Length %#x)", i, o, o+24, L)
			return
		}
		if ext == 0 {
			w.fail(oFile, "file %d at %#x has size 0", i, o)
			return
		}
		if o+ext > L {
			w.fail(oInside, "file %d [%#x,%#x) ends outside its volume (Length %#x): %d bytes belong to whatever follows",
				i, o, o+ext, L, o+ext-L)
			if o+ext <= uint64(len(data)) && bytes.Equal(w.buf(f), data[o:o+ext]) {
				w.fail(oBios, "file %d of the volume holds bytes [%#x,%#x) past the volume's end %#x, which the next node accounts for again", i, L, o+ext, L)
			}
			return
		}
		w.file(f, fvbuf[o:], i)
		off = o + ext
	}
	// completeness ("accounts for every input byte", Props/C04.lean `volume_covered`): behind the last file —
	// which ends at `off` — either free space is reported: then it starts at the next 8-aligned offset, runs to
	// the end of the volume and begins with an erased file header (Size FFFFFF and extended size all ones, or
	// fewer than 8 bytes behind 24 erased ones); or no free space is reported: then fewer than 24 bytes are
	// left (the walk runs while offset <= Length-24, known finding F52 repaired by commit cce350a).
	o8 := up(off, 8)
	if v.FreeSpace != 0 {
		if o8+24 > L || v.FreeSpace != L-o8 {
			w.fail(oVolume, "FreeSpace %#x, the last file ends at %#x in a volume of %#x", v.FreeSpace, off, L)
		} else {
			hdr := fvbuf[o8:]
			erasedHdr := le(hdr[20:23]) == 0xFFFFFF
			if len(hdr) >= 32 {
				erasedHdr = erasedHdr && le(hdr[24:32]) == 0xFFFFFFFFFFFFFFFF
			} else {
				for _, x := range hdr[:24] {
					erasedHdr = erasedHdr && x == 0xFF
				}
			}
			if !erasedHdr {
				w.fail(oWalkEnd, "FreeSpace %#x reported from %#x on, but the 24 bytes there (%x) are not an erased file header: %d bytes dropped",
					v.FreeSpace, o8, hdr[:24], v.FreeSpace)
			}
		}
	} else if off <= L {
		if rest := L - off; rest >= 24 {
			w.fail(oCover, "%d bytes at [%#x,%#x) belong to no file node although a file header fits, FreeSpace is 0", rest, off, L)
		}
	}
}

func minU(a, b uint64) uint64 {
	if a < b {
		return a
	}
	return b
}

func (w *walker) file(f *fuefi.File, ctx []byte, idx int) {
	w.nodes++
	h := f.Header
	if len(ctx) < 24 {
		w.fail(oFile, "file %d accepted on %d bytes", idx, len(ctx))
		return
	}
	size3 := le(ctx[20:23])
	ok := bytes.Equal(h.GUID[:], ctx[0:16]) && h.Checksum.Header == ctx[16] && h.Checksum.File == ctx[17] &&
		uint8(h.Type) == ctx[18] && uint8(h.Attributes) == ctx[19] && bytes.Equal(h.Size[:], ctx[20:23]) && uint8(h.State) == ctx[23]
	if !ok {
		w.fail(oFile, "file %d header fields (guid %x ck %d/%d type %d attrs %#x size %x state %#x) differ from its 24 bytes %x",
			idx, h.GUID[:], h.Checksum.Header, h.Checksum.File, uint8(h.Type), uint8(h.Attributes), h.Size[:], uint8(h.State), ctx[:24])
	}
	ext := h.ExtendedSize
	if size3 == 0xFFFFFF {
		if len(ctx) < 32 {
			w.fail(oFile, "file %d: extended header outside the volume", idx)
			return
		}
		if ext != le(ctx[24:32]) || f.DataOffset != 32 {
			w.fail(oFile, "file %d: ExtendedSize %#x / DataOffset %d, bytes say %#x / 32", idx, ext, f.DataOffset, le(ctx[24:32]))
		}
	} else if ext != size3 || f.DataOffset != 24 {
		w.fail(oFile, "file %d: ExtendedSize %#x / DataOffset %d, Size field says %#x / 24", idx, ext, f.DataOffset, size3)
	}
	if ext > uint64(len(ctx)) {
		w.fail(oInside, "file %d size %#x exceeds the %#x bytes left in its volume", idx, ext, len(ctx))
		return
	}
	fbuf := ctx[:ext]
	if !bytes.Equal(w.buf(f), fbuf) {
		w.fail(oFile, "file %d buffer (%d bytes) differs from the volume's bytes at its offset and size (%d)", idx, len(w.buf(f)), ext)
	}
	if f.NVarStore != nil {
		if ctx[18] != 0x01 || !bytes.Equal(ctx[0:16], nvarGUID) {
			w.fail(oNvar, "file %d (type %#x, guid %x) reports an NVAR store but is not a RAW file with the NVAR GUID", idx, ctx[18], ctx[0:16])
		} else if f.DataOffset >= ext {
			w.fail(oNvar, "file %d reports an NVAR store but has no body (DataOffset %d, size %d)", idx, f.DataOffset, ext)
		} else {
			w.nvStores++
			w.nvEntries += len(f.NVarStore.Entries)
			w.nvStore(f.NVarStore, fbuf[f.DataOffset:], w.pol, fmt.Sprintf("file %d NVAR store", idx), 0)
		}
	}
	if !fuefi.SupportedFiles[fuefi.FVFileType(ctx[18])] {
		// the implementation's own table says: a leaf, its bytes are the node
		if len(f.Sections) != 0 {
			w.fail(oSection, "file %d of type %#x (not in SupportedFiles) reports sections", idx, ctx[18])
		}
		return
	}
	off := f.DataOffset
	for i, s := range f.Sections {
		if off >= ext {
			w.fail(oSection, "file %d: section %d would start at %#x, at or beyond the end of the file (%#x)", idx, i, off, ext)
			return
		}
		sext := w.section(s, fbuf[off:], i, fmt.Sprintf("file %d section %d", idx, i))
		if sext == 0 {
			return
		}
		off = up(off+sext, 4)
	}
	if off < ext {
		w.fail(oSection, "file %d: sections end at %#x, the file at %#x: %d bytes unaccounted", idx, off, ext, ext-off)
	}
}

// section checks one section parsed from ctx = parent[offset:] and returns its size (0 = stop).
func (w *walker) section(s *fuefi.Section, ctx []byte, idx int, where string) uint64 {
	w.nodes++
	if len(ctx) < 4 {
		w.fail(oSection, "%s accepted on %d bytes", where, len(ctx))
		return 0
	}
	size3 := le(ctx[0:3])
	typ := ctx[3]
	if !bytes.Equal(s.Header.Size[:], ctx[0:3]) || uint8(s.Header.Type) != typ {
		w.fail(oSection, "%s: header reports size %x type %#x, bytes say %x", where, s.Header.Size[:], uint8(s.Header.Type), ctx[:4])
	}
	if s.FileOrder != idx {
		w.fail(oSection, "%s: FileOrder %d", where, s.FileOrder)
	}
	// reported size: the 24-bit field, or the 32-bit extended size after a field of FFFFFF, or (quirk kept
	// by the parser for section types it does not know) the field clamped to what is left of the parent
	ext := uint64(s.Header.ExtendedSize)
	hs := uint64(4)
	switch {
	case size3 != 0xFFFFFF && ext == size3:
	case size3 == 0xFFFFFF && len(ctx) >= 8 && ext == le(ctx[4:8]):
		hs = 8
	case size3 > uint64(len(ctx)) && ext == uint64(len(ctx)):
	default:
		w.fail(oSection, "%s: ExtendedSize %#x is neither the Size field %#x nor the extended size field nor the clamp to the parent (%#x)",
			where, ext, size3, len(ctx))
	}
	if ext == 0 {
		w.fail(oSection, "%s has size 0", where)
		return 0
	}
	if ext > uint64(len(ctx)) {
		w.fail(oSection, "%s: size %#x exceeds the %#x bytes left in its parent", where, ext, len(ctx))
		return 0
	}
	sbuf := ctx[:ext]
	if !bytes.Equal(w.buf(s), sbuf) {
		w.fail(oSection, "%s: buffer (%d bytes) differs from the parent's bytes at its offset and size (%d)", where, len(w.buf(s)), ext)
	}
	if typ != 0x02 && s.TypeSpecific != nil {
		w.fail(oSection, "%s: type-specific header on a section of type %#x", where, typ)
	}
	switch {
	case typ == 0x02:
		w.guided(s, ctx, hs, where)
	case typ == 0x17:
		if len(s.Encapsulated) != 1 {
			w.fail(oSection, "%s: volume image section with %d children", where, len(s.Encapsulated))
			break
		}
		v, ok := s.Encapsulated[0].Value.(*fuefi.FirmwareVolume)
		if !ok || uint64(len(sbuf)) <= hs {
			w.fail(oSection, "%s: volume image section whose child is %T", where, s.Encapsulated[0].Value)
			break
		}
		if v.FVOffset != 0 || !v.Resizable {
			w.fail(oSection, "%s: nested volume reports FVOffset %d resizable %v", where, v.FVOffset, v.Resizable)
		}
		w.fv(v, sbuf[hs:])
	default:
		if len(s.Encapsulated) != 0 {
			w.fail(oSection, "%s: leaf section of type %#x reports %d children", where, typ, len(s.Encapsulated))
		}
	}
	// decoded leaf fields
	switch {
	case typ == 0x15:
		if uint64(len(sbuf)) <= hs || s.Name != ucs2(sbuf[hs:]) {
			w.fail(oSection, "%s: UI name %q is not the decoding of its bytes", where, s.Name)
		}
	case typ == 0x14:
		if uint64(len(sbuf)) <= hs+2 || uint64(s.BuildNumber) != le(sbuf[hs:hs+2]) || s.Version != ucs2(sbuf[hs+2:]) {
			w.fail(oSection, "%s: version fields (%d, %q) are not the decoding of its bytes", where, s.BuildNumber, s.Version)
		}
	case typ == 0x13 || typ == 0x1b || typ == 0x1c:
		if uint64(len(sbuf)) <= hs {
			w.fail(oSection, "%s: depex section without body", where)
		} else if got, want := depexText(s.DepEx), depexOf(sbuf[hs:]); got != want {
			w.fail(oSection, "%s: depex %s, bytes say %s", where, got, want)
		}
	}
	return ext
}

func (w *walker) guided(s *fuefi.Section, ctx []byte, hs uint64, where string) {
	var g *fuefi.SectionGUIDDefined
	if s.TypeSpecific != nil {
		g, _ = s.TypeSpecific.Header.(*fuefi.SectionGUIDDefined)
	}
	if g == nil || uint64(len(ctx)) < hs+20 {
		w.fail(oSection, "%s: GUID-defined section without sub-header", where)
		return
	}
	if !bytes.Equal(g.GUID[:], ctx[hs:hs+16]) || uint64(g.DataOffset) != le(ctx[hs+16:hs+18]) || uint64(g.Attributes) != le(ctx[hs+18:hs+20]) {
		w.fail(oSection, "%s: sub-header reports guid %x offset %#x attrs %#x, bytes say %x", where, g.GUID[:], g.DataOffset, g.Attributes, ctx[hs:hs+20])
	}
	var enc []byte
	decoded := false
	if g.Attributes&1 != 0 && !w.dd {
		if c := compression.CompressorFromGUID(&g.GUID); c != nil {
			if int(g.DataOffset) > len(ctx) {
				w.fail(oEncap, "%s: DataOffset %#x beyond the parent (%#x) yet the section was accepted", where, g.DataOffset, len(ctx))
				return
			}
			src := ctx[g.DataOffset:]
			out, err := c.Decode(append([]byte(nil), src...))
			out = append([]byte(nil), out...) // ours: a decoder that reuses its output buffer must not rewrite this record
			w.decodes = append(w.decodes, decodeRec{key: keyOf(src), out: out, err: err != nil})
			if err == nil {
				enc, decoded = out, true
				if g.Compression != c.Name() {
					w.fail(oEncap, "%s: decodable %s payload reported as %q", where, c.Name(), g.Compression)
				}
			}
		}
	}
	if !decoded {
		if len(s.Encapsulated) != 0 {
			w.fail(oEncap, "%s: %d children although nothing was decoded", where, len(s.Encapsulated))
		}
		return
	}
	off := uint64(0)
	for i, tf := range s.Encapsulated {
		c, ok := tf.Value.(*fuefi.Section)
		if !ok {
			w.fail(oEncap, "%s: child %d of decoded content has type %T", where, i, tf.Value)
			return
		}
		if off >= uint64(len(enc)) {
			w.fail(oEncap, "%s: child %d would start at %#x, beyond the decoded content (%#x)", where, i, off, len(enc))
			return
		}
		n := w.section(c, enc[off:], i, fmt.Sprintf("%s / decoded child %d", where, i))
		if n == 0 {
			return
		}
		off = up(off+n, 4)
	}
	if off < uint64(len(enc)) {
		w.fail(oEncap, "%s: children end at %#x, the decoded content at %#x: %d bytes unaccounted", where, off, len(enc), uint64(len(enc))-off)
	}
}

// ucs2 decodes UTF-16LE the way the property's model does (FianoModel/Uefi/Types.lean utf16Dec):
// surrogate pairs combined, ill-formed units and a trailing odd byte become U+FFFD, one trailing NUL dropped.
func ucs2(b []byte) string {
	var units []int
	for i := 0; i+1 < len(b); i += 2 {
		units = append(units, int(b[i])|int(b[i+1])<<8)
	}
	if len(b)%2 == 1 {
		units = append(units, -1)
	}
	var rs []rune
	for i := 0; i < len(units); i++ {
		x := units[i]
		switch {
		case x < 0:
			rs = append(rs, 0xFFFD)
		case x >= 0xD800 && x <= 0xDFFF:
			if i+1 >= len(units) {
				rs = append(rs, 0xFFFD)
			} else if y := units[i+1]; y >= 0xDC00 && y <= 0xDFFF {
				if x < 0xDC00 {
					rs = append(rs, rune((x-0xD800)*1024+(y-0xDC00)+0x10000))
				} else {
					rs = append(rs, 0xFFFD)
				}
				i++
			} else {
				rs = append(rs, 0xFFFD)
			}
		default:
			rs = append(rs, rune(x))
		}
	}
	if n := len(rs); n > 0 && rs[n-1] == 0 {
		rs = rs[:n-1]
	}
	return string(rs)
}

var depexNames = []string{"BEFORE", "AFTER", "PUSH", "AND", "OR", "NOT", "TRUE", "FALSE", "END", "SOR"}

func depexText(ops []fuefi.DepExOp) string {
	s := ""
	for _, o := range ops {
		s += string(o.OpCode)
		if o.GUID != nil {
			s += fmt.Sprintf(":%x", o.GUID[:])
		}
		s += ","
	}
	return s
}

// depexOf parses a dependency expression from its bytes; "" when it is malformed (the parser only
// warns then and reports no expression).
func depexOf(b []byte) string {
	s := ""
	for {
		if len(b) == 0 {
			return ""
		}
		c := b[0]
		b = b[1:]
		if int(c) >= len(depexNames) {
			return ""
		}
		s += depexNames[c]
		if c <= 2 {
			if len(b) < 16 {
				return ""
			}
			s += fmt.Sprintf(":%x", b[:16])
			b = b[16:]
		}
		s += ","
		if c == 8 {
			return s
		}
	}
}
