package c04

// The C04 oracle for NVAR stores (follow-up wp-c04b), on the implementation's own output and independent
// of the Lean model and of fiano's NVAR parser: given the store `uefi.Parse` hung below a RAW file, the
// file's bytes behind its header and the erase polarity in force, re-derive from the bytes where every
// entry must sit and what every reported field must be:
//
//   store    buffer = body, Length = len(body)
//   entries  the first at offset 0, each where the previous one ended (Offset = running sum of Size);
//            "NVAR" at Offset; Size = the 2 bytes at +4 (>= 10), Next = the 3 bytes at +6, Attributes = the
//            byte at +9; buffer = body[Offset:Offset+Size]; the entry ends at or before the GUID table as
//            it was when the entry was read
//   decoded  Valid bit clear -> Invalid, nothing decoded; NextOffset = Offset+Next unless Next is the
//            last-variable flag of the polarity; broken extended header -> Invalid; data-only -> GUID and
//            name of the first earlier valid entry linking here, else Invalid link; else GUID = the 16
//            bytes at +10 or the table entry the index byte at +10 names (the 16 bytes at
//            len-16*(index+1); zero GUID when the table would not fit or the index is 255), name = the
//            bytes behind it up to the first NUL / first aligned 16-bit NUL, DataOffset behind the terminator
//   ext hdr  ExtOffset = Size - (the 2 bytes at Size-2), ExtAttributes = the byte there, Checksum = the byte
//            at Size-3, Hash = the 32 bytes behind the 8-byte time stamp that follows the attributes (the time
//            stamp itself is never reported by the code that exists: TimeStamp must be nil)
//   table    GUIDStore[k] = body[len-16(k+1):len-16k], exactly as many as the indexes ask for (max 255);
//            GUIDStoreOffset = len - 16*n
//   free     FreeSpaceOffset = the end of the last entry; from there to the table everything is the
//            polarity byte, or the table has been reached
//   nested   content starting with "NVAR": the nested store (if one is reported) is checked the same way
//            against buf[DataOffset:]; no "NVAR" -> no nested store
//
// Former quirk (DESIGN §14 finding 51, fixed by fixes/C04-nvar-table-overlap.diff; Props/C04.lean
// `nvar_overlap_refused`): the LAST entry could grow the GUID table into the entries (FreeSpaceOffset >
// GUIDStoreOffset). NewNVarStore refuses such a store now; a store reported with it is an oracle failure.

import (
	"bytes"
	"fmt"

	fuefi "github.com/linuxboot/fiano/pkg/uefi"
	funicode "github.com/linuxboot/fiano/pkg/unicode"
)

const oNvar = "nvar-store-bytes-and-fields"

// extOf re-derives the extended-header fields from the entry bytes; ok=false: the parser must have
// turned the entry into an Invalid one.
type extInfo struct {
	off     int64
	attrs   *uint8
	ck, exp *uint8
	ts      *uint64
	hash    []byte
	unknown bool
	ok      bool
}

func extOf(attrs uint8, buf []byte) extInfo {
	size := len(buf)
	var x extInfo
	es := int(le(buf[size-2:]))
	if es > size-10 {
		return x
	}
	eo := size - es
	x.off = int64(eo)
	if eo >= size {
		return x
	}
	xa := buf[eo]
	x.attrs = &xa
	known := false
	if xa&1 != 0 {
		c := buf[size-3]
		x.ck = &c
		var s uint8
		s = buf[4] + buf[5]
		for _, b := range buf[9:] {
			s += b
		}
		if s != 0 {
			e := -s
			x.exp = &e
		}
		known = true
	}
	if attrs&0x40 == 0 {
		if eo+9 > size {
			return x
		}
		// the 8-byte time stamp must fit; fiano reads it into a local and never reports it (NVar.TimeStamp stays nil)
		if attrs&0x08 != 0 {
			if eo+41 > size {
				return x
			}
			x.hash = buf[eo+9 : eo+41]
		}
		known = true
	}
	x.unknown = !known
	x.ok = true
	return x
}

func (w *walker) nvStore(s *fuefi.NVarStore, body []byte, pol byte, where string, depth int) {
	fail := func(format string, a ...interface{}) { w.fail(oNvar, where+": "+format, a...) }
	if depth > 64 {
		fail("nesting deeper than 64")
		return
	}
	if !bytes.Equal(w.buf(s), body) {
		fail("store buffer (%d bytes) differs from the bytes it was parsed from (%d)", len(w.buf(s)), len(body))
	}
	L := len(body)
	if s.Length != uint64(L) {
		fail("Length %d, the body has %d bytes", s.Length, L)
	}
	lastFlag := uint64(0)
	if pol == 0xFF {
		lastFlag = 0xFFFFFF
	}
	n := 0 // GUIDs in the table so far
	run := 0
	for k, v := range s.Entries {
		lim := L - 16*n
		if v.Offset != uint64(run) {
			fail("entry %d reports Offset %#x, the entries before it end at %#x", k, v.Offset, run)
			return
		}
		if run+10 > lim {
			fail("entry %d header [%#x,%#x) does not fit before the GUID table (%#x)", k, run, run+10, lim)
			return
		}
		h := body[run:]
		if !bytes.Equal(h[:4], []byte("NVAR")) {
			fail("entry %d: no NVAR signature at %#x", k, run)
		}
		size := int(le(h[4:6]))
		if uint64(v.Header.Size) != uint64(size) || uint64(fuefi.Read3Size(v.Header.Next)) != le(h[6:9]) || uint8(v.Header.Attributes) != h[9] {
			fail("entry %d header reports size %d next %#x attrs %#x, bytes at %#x say %x", k, v.Header.Size, fuefi.Read3Size(v.Header.Next),
				uint8(v.Header.Attributes), run, h[:10])
		}
		if size < 10 {
			fail("entry %d accepted with Size %d", k, size)
			return
		}
		if run+size > lim {
			fail("entry %d [%#x,%#x) runs into the GUID table as it was when the entry was read (%#x)", k, run, run+size, lim)
			return
		}
		buf := body[run : run+size]
		if !bytes.Equal(w.buf(v), buf) {
			fail("entry %d buffer differs from body[%#x:%#x)", k, run, run+size)
		}
		attrs := h[9]
		next := le(h[6:9])
		zero := [16]byte{}
		plain := func(what string) { // nothing decoded behind the header
			if v.DataOffset != 10 || v.GUIDIndex != nil || v.NVarStore != nil {
				fail("entry %d (%s) reports DataOffset %d, GUID index %v, nested store %v", k, what, v.DataOffset, v.GUIDIndex != nil, v.NVarStore != nil)
			}
		}
		noExt := func() {
			if v.ExtAttributes != nil || v.Checksum != nil || v.ExpectedChecksum != nil || v.TimeStamp != nil || v.Hash != nil ||
				v.ExtOffset != 0 || v.UnknownExtendedHeaderFormat {
				fail("entry %d reports extended-header fields although it has no (valid) extended header bit", k)
			}
		}
		switch {
		case attrs&0x80 == 0:
			if v.Type != fuefi.InvalidNVarEntry || v.NextOffset != 0 {
				fail("entry %d has the Valid bit clear but reports type %v NextOffset %#x", k, v.Type, v.NextOffset)
			}
			plain("deleted")
			noExt()
		default:
			wantNext := uint64(0)
			if next != lastFlag {
				wantNext = uint64(run) + next
			}
			if v.NextOffset != wantNext {
				fail("entry %d reports NextOffset %#x, Next field %#x at offset %#x says %#x", k, v.NextOffset, next, run, wantNext)
			}
			x := extInfo{ok: true}
			if attrs&0x10 != 0 {
				x = extOf(attrs, buf)
				eq8 := func(a, b *uint8) bool { return (a == nil) == (b == nil) && (a == nil || *a == *b) }
				var ga *uint8
				if v.ExtAttributes != nil {
					t := uint8(*v.ExtAttributes)
					ga = &t
				}
				if v.ExtOffset != x.off || !eq8(ga, x.attrs) || !eq8(v.Checksum, x.ck) || !eq8(v.ExpectedChecksum, x.exp) ||
					(v.TimeStamp == nil) != (x.ts == nil) || (v.TimeStamp != nil && *v.TimeStamp != *x.ts) || !bytes.Equal(v.Hash, x.hash) ||
					(x.ok && v.UnknownExtendedHeaderFormat != x.unknown) {
					fail("entry %d: extended-header fields (ExtOffset %d …) are not the bytes at their offsets (Size %d, ext size field %d)",
						k, v.ExtOffset, size, le(buf[size-2:]))
				}
			} else {
				noExt()
			}
			switch {
			case !x.ok:
				if v.Type != fuefi.InvalidNVarEntry {
					fail("entry %d has a broken extended header but reports type %v", k, v.Type)
				}
				plain("broken extended header")
			case attrs&0x08 != 0: // data only
				var link *fuefi.NVar
				for _, l := range s.Entries[:k] {
					if l.IsValid() && l.NextOffset == uint64(run) {
						link = l
						break
					}
				}
				if v.DataOffset != 10 || v.GUIDIndex != nil {
					fail("data-only entry %d reports DataOffset %d / a GUID index", k, v.DataOffset)
				}
				if link == nil {
					if v.Type != fuefi.InvalidLinkNVarEntry {
						fail("data-only entry %d: no earlier valid entry links to %#x but the type is %v", k, run, v.Type)
					}
				} else {
					want := fuefi.LinkNVarEntry
					if wantNext == 0 {
						want = fuefi.DataNVarEntry
					}
					if v.Type != want || v.GUID != link.GUID || v.Name != link.Name {
						fail("data-only entry %d: type %v / key (%x,%q) is not %v / the key of the entry that links to it (%x,%q)",
							k, v.Type, v.GUID[:], v.Name, want, link.GUID[:], link.Name)
					}
				}
				w.nvContent(v, buf, pol, fmt.Sprintf("%s entry %d", where, k), depth)
			default:
				wantType := fuefi.FullNVarEntry
				if next != lastFlag {
					wantType = fuefi.LinkNVarEntry
				}
				if v.Type != wantType {
					fail("entry %d reports type %v, Next field says %v", k, v.Type, wantType)
				}
				doff := 0
				if attrs&0x04 != 0 {
					if size < 26 {
						fail("entry %d with inline GUID accepted on %d bytes", k, size)
						return
					}
					if !bytes.Equal(v.GUID[:], buf[10:26]) || v.GUIDIndex != nil {
						fail("entry %d: GUID %x is not the 16 bytes at +10 (%x)", k, v.GUID[:], buf[10:26])
					}
					doff = 26
				} else {
					if size < 11 {
						fail("entry %d with GUID index accepted on %d bytes", k, size)
						return
					}
					i := int(buf[10])
					if v.GUIDIndex == nil || int(*v.GUIDIndex) != i {
						fail("entry %d: GUID index is not the byte at +10 (%d)", k, i)
					}
					if i1 := (i + 1) & 0xFF; n < i1 && 16*i1 <= L {
						n = i1
					}
					want := zero
					if i < n {
						copy(want[:], body[L-16*(i+1):L-16*i])
					}
					if v.GUID != want {
						fail("entry %d: GUID %x is not what index %d names (%x; table of %d in a store of %d bytes)", k, v.GUID[:], i, want[:], n, L)
					}
					doff = 11
				}
				nb := buf[doff:]
				e, step := -1, 1
				if attrs&0x02 != 0 {
					e = bytes.IndexByte(nb, 0)
				} else {
					step = 2
					for j := 0; j+1 < len(nb); j += 2 {
						if nb[j] == 0 && nb[j+1] == 0 {
							e = j
							break
						}
					}
				}
				if e < 0 {
					fail("entry %d accepted without a name terminator", k)
					return
				}
				wantName := string(nb[:e])
				if step == 2 {
					wantName = funicode.UCS2ToUTF8(nb[:e])
				}
				if v.Name != wantName || v.DataOffset != int64(doff+e+step) {
					fail("entry %d: name %q / DataOffset %d, the bytes at +%d say %q / %d", k, v.Name, v.DataOffset, doff, wantName, doff+e+step)
				}
				w.nvContent(v, buf, pol, fmt.Sprintf("%s entry %d", where, k), depth)
			}
		}
		run += size
	}
	if s.FreeSpaceOffset != uint64(run) {
		fail("FreeSpaceOffset %#x, the entries end at %#x", s.FreeSpaceOffset, run)
	}
	if len(s.GUIDStore) != n {
		fail("GUID store has %d entries, the indexes of the entries ask for %d", len(s.GUIDStore), n)
		return
	}
	for k, g := range s.GUIDStore {
		if !bytes.Equal(g[:], body[L-16*(k+1):L-16*k]) {
			fail("GUID %d of the store (%x) is not body[%#x:%#x)", k, g[:], L-16*(k+1), L-16*k)
		}
	}
	gso := L - 16*n
	if s.GUIDStoreOffset != uint64(gso) {
		fail("GUIDStoreOffset %#x, a table of %d GUIDs starts at %#x", s.GUIDStoreOffset, n, gso)
	}
	switch {
	case run > gso:
		// the former quirk (DESIGN §14 finding 51): the last entry grew the table into the entries. Refused by
		// NewNVarStore since fixes/C04-nvar-table-overlap.diff (Lean: parseStore_fso_le_gso, a clause of NvF)
		w.nvOverlap++
		fail("FreeSpaceOffset %#x > GUIDStoreOffset %#x: the same bytes are entry content and GUID table", run, gso)
	case run < gso:
		for i := run; i < gso; i++ {
			if body[i] != pol {
				fail("walk stopped at %#x but byte %#x before the GUID table (%#x) is %#x, not the polarity %#x", run, i, gso, body[i], pol)
				break
			}
		}
	}
}

// nvContent: the nested store of an entry whose content was looked at.
func (w *walker) nvContent(v *fuefi.NVar, buf []byte, pol byte, where string, depth int) {
	if v.DataOffset < 0 || v.DataOffset > int64(len(buf)) {
		w.fail(oNvar, "%s: DataOffset %d outside the entry (%d)", where, v.DataOffset, len(buf))
		return
	}
	c := buf[v.DataOffset:]
	if v.NVarStore == nil {
		return // no nested store, or one that did not parse (only logged by the parser)
	}
	if len(c) < 4 || !bytes.Equal(c[:4], []byte("NVAR")) {
		w.fail(oNvar, "%s: nested store reported but the content does not start with NVAR", where)
		return
	}
	w.nvStore(v.NVarStore, c, pol, where+" nested", depth+1)
}
