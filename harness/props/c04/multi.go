package c04

// Gap closing round 3: several decoded sections in one image, decoding inside decoded content, and
// what a tree looks like after *another* Parse ran.
//
// The decoders are the only place where the parser obtains bytes that are neither the caller's buffer
// nor a private copy made by a New* constructor, so "each node holds exactly the bytes at its reported
// offset and size" is, for everything below a compressed section, a statement about the lifetime of the
// decoder's output.  A decoder (or any other constructor) that hands out a buffer it will use again
// (seeded defect c04-7: LZMA.Decode returns the Bytes() of one package-level bytes.Buffer) is invisible
// on an image with a single compressed section, which is all compressedCases ever built.  This stream
// builds what such a mistake needs:
//
//   flat      2-4 compressed sections in different files / in one file / in two volumes, decoded sizes
//             descending, ascending, equal and mixed (a later stream that fits into the capacity reached
//             so far overwrites in place; a larger one makes a shared buffer regrow and hides the defect),
//             LZMA, LZMA+x86 and (really decodable) ZLIB mixed
//   twins     two streams of the same length that differ in one late byte, and two identical streams
//             (a memo keyed by length / prefix / a stale key would serve the wrong content)
//   nested    compressed inside compressed (depth 2 and 3) with siblings *behind* the inner stream, so the
//             outer stream is still being walked after the inner one was decoded (copy mode is hit as well)
//   deep      compressed → volume image → files with compressed sections, twice in one volume
//   flash     the same inside the BIOS region of a flash image
//
// and runBytes looks at every accepted tree a second time after a fixed "disturber" image (decoded
// sections of 12, 60 and 700 bytes, LZMA / LZMA+x86 / ZLIB, a nested volume, an NVAR store, an ME
// partition table) was parsed in both modes: oracle tree-unchanged-by-later-parse.

import (
	"fmt"
	"math/rand"
	"sort"
	"strings"

	"github.com/linuxboot/fiano/pkg/compression"
	fuefi "github.com/linuxboot/fiano/pkg/uefi"

	"verif/harness/core"
	hu "verif/harness/props/uefi"
)

const (
	ckLZMA = iota
	ckX86
	ckZLIB
)

// patterned returns n bytes that compress well but differ per tag (so streams are distinguishable).
func patterned(tag byte, n int) []byte {
	b := make([]byte, n)
	for i := range b {
		b[i] = tag + byte(i%(7+int(tag%13)))
	}
	return b
}

// compressedSec wraps a section stream into a GUID-defined section the parser really decodes.
func compressedSec(kind int, payload []byte) *hu.Sec {
	var gd, body []byte
	switch kind {
	case ckX86:
		gd = lzmaX86GUID
		body, _ = compression.CompressorFromGUID(&compression.LZMAX86GUID).Encode(payload)
	case ckZLIB:
		gd = zlibGUID
		body, _ = (&compression.ZLIB{}).Encode(payload)
	}
	if body == nil {
		gd = lzmaGUID
		body, _ = (&compression.LZMA{}).Encode(payload)
	}
	return &hu.Sec{Kind: "sg", GUID: gd, DataOffset: 24, Attrs: 1, Body: body}
}

// smallDict rewrites the dictionary size of an LZMA header (byte 1..4) to 4 KiB, the smallest the format
// has.  A stream whose decoded size is below 4 KiB has no longer match distance, so it decodes to the same
// bytes, and the decoder does not set up the 8 MiB window the repository's encoder announces.
func smallDict(s *hu.Sec) *hu.Sec {
	if len(s.Body) >= 13 && (string(s.GUID) == string(lzmaGUID) || string(s.GUID) == string(lzmaX86GUID)) {
		size := uint64(0)
		for i := 12; i >= 5; i-- {
			size = size<<8 | uint64(s.Body[i])
		}
		if size < 4096 {
			s.Body[1], s.Body[2], s.Body[3], s.Body[4] = 0x00, 0x10, 0x00, 0x00
		}
	}
	return s
}

// twins returns two payloads of the same length that differ in one late byte (both break the period of
// the pattern there, with different values) and, if one of 8 candidates does, encode to streams of the same
// length: the same decoded length, the same header, the same first bytes — whatever a decoder could mistake
// for "the same stream" short of comparing all of it.
func twins(kind int, base []byte) (a, b []byte) {
	encLen := func(p []byte) int {
		return len(compressedSec(kind, serSecs([]*hu.Sec{{Kind: "sl", Type: 0x19, Body: p}})).Body)
	}
	at := len(base) - 1 - min(len(base)-1, 2)
	a = append([]byte(nil), base...)
	a[at] ^= 0x80
	want := encLen(a)
	for k := 0; k < 8; k++ {
		c := append([]byte(nil), base...)
		c[at] ^= byte(0x40>>uint(k%7)) | byte(k/7)<<7 | 0x01
		if c[at] == a[at] {
			continue
		}
		if b == nil {
			b = c
		}
		if encLen(c) == want {
			return a, c
		}
	}
	return a, b
}

func rawSec(tag byte, n int) *hu.Sec { return &hu.Sec{Kind: "sl", Type: 0x19, Body: patterned(tag, n)} }

func secFile(seed byte, secs ...*hu.Sec) *hu.File {
	return &hu.File{Kind: "fs", GUID: guid(seed), Type: 7, Attrs: 0x40, State: 0xF8, Secs: secs}
}

// closeFV gives the volume a block map that matches its content (8-byte blocks, some free space).
func closeFV(fv *hu.FV, free int) *hu.FV {
	fv.Free = free
	for fv.Size()%8 != 0 {
		fv.Free++
	}
	if fv.Free < 32 && fv.Free != 0 {
		fv.Free += 32
	}
	fv.Blocks = []hu.Block{{Count: uint32(fv.Size() / 8), Size: 8}}
	return fv
}

func newFV(files ...*hu.File) *hu.FV {
	return &hu.FV{ZV: make([]byte, 16), Attrs: 0x0004FEFF, Rev: 2, Blocks: []hu.Block{{Count: 1, Size: 8}}, Files: files}
}

// sizesFor returns k decoded sizes in the given order pattern.
func sizesFor(r *rand.Rand, k int, pattern int) []int {
	out := make([]int, k)
	base := 40 + r.Intn(900)
	for i := range out {
		switch pattern {
		case 0: // descending
			out[i] = base + (k-1-i)*(16+r.Intn(300))
		case 1: // ascending
			out[i] = base + i*(16+r.Intn(300))
		case 2: // equal
			out[i] = base
		default:
			out[i] = 8 + r.Intn(1500)
		}
	}
	return out
}

// leafStream: a section stream of roughly n bytes made of one to three leaf sections (RAW, UI, version, depex).
func leafStream(r *rand.Rand, tag byte, n int) []*hu.Sec {
	var secs []*hu.Sec
	switch r.Intn(4) {
	case 0:
		secs = append(secs, &hu.Sec{Kind: "su", Name: []rune(fmt.Sprintf("Name%02x", tag))})
	case 1:
		secs = append(secs, &hu.Sec{Kind: "sv", Build: uint16(tag) * 257, Name: []rune("1." + fmt.Sprint(tag))})
	}
	secs = append(secs, rawSec(tag, n))
	if r.Intn(3) == 0 {
		secs = append(secs, &hu.Sec{Kind: "sd", Type: 0x13, Ops: []hu.DepOp{{Op: 0x02, GUID: guid(tag)}, {Op: 0x08}}})
	}
	return secs
}

func pickCodec(r *rand.Rand) int {
	switch r.Intn(6) {
	case 0:
		return ckX86
	case 1:
		return ckZLIB
	}
	return ckLZMA
}

func biosOf(fvs ...*hu.FV) []byte {
	var items []hu.Item
	for i, v := range fvs {
		it := hu.Item{FV: v}
		if i > 0 {
			it.Pad = rep(0xFF, 16)
		}
		items = append(items, it)
	}
	return (&hu.Img{Bios: &hu.Bios{Items: items}}).Ser()
}

func multiCompressedCases(r *rand.Rand, thorough bool) []core.Case {
	var cs []core.Case
	// Every payload handed to an encoder is recorded: the case carries, as argument "decoded", the multiset of
	// streams the tree must show as decoded content (oracle decoded-content-is-what-was-encoded).
	var rec []string
	z := func(kind int, payload []byte) *hu.Sec {
		rec = append(rec, keyOf(payload))
		return compressedSec(kind, payload)
	}
	add := func(kind string, b []byte) {
		c := hexCase("multi-"+kind, b)
		if len(rec) > 0 {
			sort.Strings(rec)
			c.Args["decoded"] = strings.Join(rec, ",")
		}
		rec = nil
		cs = append(cs, c)
	}

	// fixed shapes first: the smallest image of each kind (these do not depend on the seed)
	{
		// two files, one LZMA section each, the second decoding to less than the first (seeded c04-7's "needs")
		add("flat", biosOf(closeFV(newFV(
			secFile(0xA1, z(ckLZMA, serSecs([]*hu.Sec{rawSec(0x40, 0x300)}))),
			secFile(0xB2, z(ckLZMA, serSecs([]*hu.Sec{rawSec(0x90, 0x1F0)})))), 64)))
		// the same two streams in one file, a leaf section between and behind them
		add("flat", biosOf(closeFV(newFV(secFile(0xA3,
			z(ckLZMA, serSecs([]*hu.Sec{rawSec(0x41, 0x200)})), rawSec(0x11, 9),
			z(ckX86, serSecs([]*hu.Sec{rawSec(0x91, 0x100)})), rawSec(0x12, 5))), 0)))
		// two LZMA+x86 streams (the branch filter runs in place on the decoder's output), then one plain LZMA
		add("flat", biosOf(closeFV(newFV(
			secFile(0xAA, z(ckX86, serSecs([]*hu.Sec{rawSec(0xE8, 0x240)}))),
			secFile(0xAB, z(ckX86, serSecs([]*hu.Sec{rawSec(0xE9, 0x120)}))),
			secFile(0xAC, z(ckLZMA, serSecs([]*hu.Sec{rawSec(0x23, 0x90)})))), 16)))
		// twins: same length, one late byte differs (encoded length equal as well); and identical streams
		a, b := twins(ckLZMA, patterned(0x55, 0x180))
		add("twins", biosOf(closeFV(newFV(
			secFile(0xA4, z(ckLZMA, serSecs([]*hu.Sec{{Kind: "sl", Type: 0x19, Body: a}}))),
			secFile(0xA5, z(ckLZMA, serSecs([]*hu.Sec{{Kind: "sl", Type: 0x19, Body: b}}))),
			secFile(0xA6, z(ckLZMA, serSecs([]*hu.Sec{{Kind: "sl", Type: 0x19, Body: a}})))), 40)))
		// nested: outer stream = [inner compressed section, RAW leaf]; the leaf is read after the inner decode
		inner := z(ckLZMA, serSecs([]*hu.Sec{rawSec(0x33, 0x60)}))
		add("nested", biosOf(closeFV(newFV(secFile(0xA7,
			z(ckLZMA, serSecs([]*hu.Sec{inner, rawSec(0x77, 0x90), {Kind: "su", Name: []rune("AfterInner")}})))), 48)))
		// ZLIB, really decodable, twice (the decoder insists on being the last section of its file)
		add("flat", biosOf(closeFV(newFV(
			secFile(0xA8, z(ckZLIB, serSecs([]*hu.Sec{rawSec(0x21, 0x140)}))),
			secFile(0xA9, z(ckZLIB, serSecs([]*hu.Sec{rawSec(0x22, 0x80)})))), 0)))
	}

	add("disturber", disturberImage(false))
	add("disturber", disturberImage(true))

	n := 36
	if thorough {
		n = 600
	}
	for i := 0; i < n; i++ {
		tag := byte(i*7 + 1)
		switch shape := r.Intn(10); {
		case shape < 4: // flat: k streams over files / one file / two volumes
			k := 2 + r.Intn(3)
			sizes := sizesFor(r, k, r.Intn(4))
			layout := r.Intn(3)
			var files []*hu.File
			var one []*hu.Sec
			for j, sz := range sizes {
				kind := pickCodec(r)
				if layout == 1 && kind == ckZLIB && j != k-1 {
					kind = ckLZMA // ZLIB only decodes as the last section of a file
				}
				s := z(kind, serSecs(leafStream(r, tag+byte(j), sz)))
				if layout == 1 {
					one = append(one, s)
					if r.Intn(3) == 0 && j != k-1 {
						one = append(one, rawSec(tag^0x5A, 1+r.Intn(12)))
					}
				} else {
					files = append(files, secFile(tag+byte(j), s))
					if r.Intn(4) == 0 {
						files = append(files, leafFile(tag+0x80+byte(j), 1, rep(byte(j), r.Intn(24))))
					}
				}
			}
			switch layout {
			case 1:
				add("flat", biosOf(closeFV(newFV(secFile(tag, one...)), 8*r.Intn(8))))
			case 2:
				h := 1 + r.Intn(len(files)-1)
				add("flat", biosOf(closeFV(newFV(files[:h]...), 8*r.Intn(8)), closeFV(newFV(files[h:]...), 8*r.Intn(8))))
			default:
				add("flat", biosOf(closeFV(newFV(files...), 8*r.Intn(8))))
			}
		case shape < 5: // twins
			sz := 16 + r.Intn(600)
			kind := pickCodec(r)
			a, b := twins(kind, patterned(tag, sz))
			files := []*hu.File{
				secFile(tag, z(kind, serSecs([]*hu.Sec{{Kind: "sl", Type: 0x19, Body: a}}))),
				secFile(tag+1, z(kind, serSecs([]*hu.Sec{{Kind: "sl", Type: 0x19, Body: b}}))),
			}
			if r.Intn(2) == 0 {
				files = append(files, secFile(tag+2, z(kind, serSecs([]*hu.Sec{{Kind: "sl", Type: 0x19, Body: a}}))))
			}
			add("twins", biosOf(closeFV(newFV(files...), 8*r.Intn(8))))
		case shape < 8: // nested: depth 2 or 3, siblings before and behind the inner stream
			depth := 2 + r.Intn(2)
			stream := leafStream(r, tag, 8+r.Intn(300))
			for d := 1; d < depth; d++ {
				kind := pickCodec(r)
				var outer []*hu.Sec
				if r.Intn(3) == 0 {
					outer = append(outer, rawSec(tag+byte(d), 1+r.Intn(40)))
				}
				if kind == ckZLIB {
					// last in its stream
					outer = append(outer, leafStream(r, tag+0x20+byte(d), 8+r.Intn(200))...)
					outer = append(outer, z(kind, serSecs(stream)))
				} else {
					outer = append(outer, z(kind, serSecs(stream)))
					outer = append(outer, leafStream(r, tag+0x20+byte(d), 8+r.Intn(200))...)
					if r.Intn(4) == 0 { // a second inner stream behind the first
						outer = append(outer, z(ckLZMA, serSecs(leafStream(r, tag+0x30+byte(d), 8+r.Intn(100)))))
					}
				}
				stream = outer
			}
			f := secFile(tag, z(pickLZ(r), serSecs(stream)))
			files := []*hu.File{f}
			if r.Intn(2) == 0 {
				files = append(files, secFile(tag+1, z(ckLZMA, serSecs(leafStream(r, tag+0x44, 8+r.Intn(100))))))
			}
			add("nested", biosOf(closeFV(newFV(files...), 8*r.Intn(8))))
		case shape < 9: // deep: compressed → volume image → files with compressed sections; twice
			mk := func(t byte) *hu.Sec {
				in := closeFV(newFV(
					secFile(t, z(pickLZ(r), serSecs(leafStream(r, t, 8+r.Intn(300))))),
					leafFile(t+1, 1, rep(t, r.Intn(30))),
					secFile(t+2, z(pickLZ(r), serSecs(leafStream(r, t+2, 8+r.Intn(200)))))), 8*r.Intn(6))
				return z(pickLZ(r), serSecs([]*hu.Sec{{Kind: "sf", FV: in}, rawSec(t+3, 1+r.Intn(20))}))
			}
			add("deep", biosOf(closeFV(newFV(secFile(tag, mk(tag)), secFile(tag+8, mk(tag+8))), 8*r.Intn(8))))
		default: // the BIOS region of a flash image
			g := &hu.Gen{R: r, MaxAlign: 1, Depth: 0, NoNested: true}
			fl := g.Flash(2 + r.Intn(2))
			fv := closeFV(newFV(
				secFile(tag, z(pickLZ(r), serSecs(leafStream(r, tag, 200+r.Intn(300))))),
				secFile(tag+1, z(pickLZ(r), serSecs(leafStream(r, tag+1, 8+r.Intn(200)))))), 0)
			placed := false
			for _, reg := range fl.Regions {
				if reg.Kind == "rb" && reg.Bios != nil && !placed {
					want := len(reg.Bios.Ser())
					fvb := fv.Ser()
					if len(fvb) <= want {
						reg.Bios = &hu.Bios{Items: []hu.Item{{FV: fv}}, Tail: rep(0xFF, want-len(fvb))}
						placed = true
					}
				}
			}
			if placed {
				add("flash", (&hu.Img{Flash: fl}).Ser())
			} else {
				add("flat", biosOf(fv))
			}
		}
	}
	return cs
}

// pickLZ: LZMA or LZMA+x86 (never ZLIB, which only decodes at the end of a file).
func pickLZ(r *rand.Rand) int {
	if r.Intn(4) == 0 {
		return ckX86
	}
	return ckLZMA
}

// decodedStreams: what the tree shows as decoded content — for every GUID-defined section with children, the
// children's bytes (as they were when Parse returned) laid out at 4-byte aligned offsets — as a sorted list of
// fnv:len keys.
func decodedStreams(root fuefi.Firmware, snap map[fuefi.Firmware][]byte) string {
	var keys []string
	var walk func(f fuefi.Firmware)
	walk = func(f fuefi.Firmware) {
		switch x := f.(type) {
		case *fuefi.FlashImage:
			for _, r := range x.Regions {
				walk(r.Value)
			}
		case *fuefi.BIOSRegion:
			for _, e := range x.Elements {
				walk(e.Value)
			}
		case *fuefi.FirmwareVolume:
			for _, y := range x.Files {
				walk(y)
			}
		case *fuefi.File:
			for _, y := range x.Sections {
				walk(y)
			}
		case *fuefi.Section:
			if uint8(x.Header.Type) == 2 && len(x.Encapsulated) > 0 {
				var stream []byte
				for _, e := range x.Encapsulated {
					for len(stream)%4 != 0 {
						stream = append(stream, 0)
					}
					b, ok := snap[e.Value]
					if !ok {
						b = e.Value.Buf()
					}
					stream = append(stream, b...)
				}
				keys = append(keys, keyOf(stream))
			}
			for _, e := range x.Encapsulated {
				walk(e.Value)
			}
		}
	}
	walk(root)
	sort.Strings(keys)
	return strings.Join(keys, ",")
}
