package c04

// Hand-built inputs: the §8 row 18 image, scan quirks, compressed (decoded) content.

import (
	"math/rand"

	"github.com/linuxboot/fiano/pkg/compression"

	"verif/harness/core"
	hu "verif/harness/props/uefi"
)

func rep(b byte, n int) []byte {
	out := make([]byte, n)
	for i := range out {
		out[i] = b
	}
	return out
}

func guid(seed byte) []byte {
	g := make([]byte, 16)
	for i := range g {
		g[i] = seed + byte(i)
	}
	return g
}

func leafFile(seed byte, typ uint8, body []byte) *hu.File {
	f := &hu.File{Kind: "fl", GUID: guid(seed), Type: typ, State: 0xF8, CkF: 0xAA, Body: body}
	f.CkH = hu.HeaderChecksum(f, 24+len(body))
	return f
}

// row18 builds DESIGN.md §8 row 18: a 4 KiB volume whose single file fills it to the end, then the
// volume's Length field is lowered to `length` (checksum re-fixed).
func row18(length int) []byte {
	fv := &hu.FV{ZV: make([]byte, 16), Attrs: 0x0004FEFF, Rev: 2, Blocks: []hu.Block{{Count: 1, Size: 4096}}}
	fv.Files = []*hu.File{leafFile(1, 1, rep(0x5A, 4096-72-24))}
	b := fv.Ser()
	if len(b) != 4096 {
		panic("row18: unexpected size")
	}
	put(b, 32, 8, uint64(length))
	refix(b, hu.Mark{Off: 0, Len: 72, Kind: "fv"})
	return b
}

func handPicked() []core.Case {
	var cs []core.Case
	// §8 row 18 and its neighbours: Length ends inside the file / at the file / one past
	for _, l := range []int{0xF00, 0xFF8, 0xFFF, 0x1000, 72 + 24, 72 + 25, 72 + 32} {
		cs = append(cs, hexCase("row18", row18(l)))
	}
	// the same volume followed by a second volume: a file reaching into the next volume
	two := append(row18(0x800), row18(0x1000)...)
	cs = append(cs, hexCase("row18", two))
	// volumes filled to their last byte whose last file is small: the file walk is bounded by Length-24 and a
	// header of 24 (32) bytes must still be found when it starts exactly there (seeded defect c04-6 used the
	// 32-byte constant; finding 40: the unrepaired bound `offset < Length-24` skipped a 24-byte file at the end)
	for _, n := range []int{24, 25, 28, 31, 32, 33, 40} {
		for _, k := range []string{"raw", "pad"} {
			last := leafFile(9, 1, rep(0x33, n-24))
			if k == "pad" {
				last = hu.PadFile(n)
			}
			fv := &hu.FV{ZV: make([]byte, 16), Attrs: 0x0004FEFF, Rev: 2, Blocks: []hu.Block{{Count: 1, Size: 8}},
				Files: []*hu.File{leafFile(1, 1, rep(0x5A, 40)), last}}
			for pre := 0; fv.Size()%8 != 0 && pre < 8; pre++ { // lengthen the first file until the volume is a multiple of 8
				fv.Files[0] = leafFile(1, 1, rep(0x5A, 41+pre))
			}
			if fv.Size()%8 != 0 {
				continue
			}
			fv.Blocks[0].Count = uint32(fv.Size() / 8)
			kind := "full-volume-last"
			if n == 24 {
				kind = "full-volume-last-24"
			}
			cs = append(cs, hexCase(kind, fv.Ser()))
			// alone in its volume
			one := &hu.FV{ZV: make([]byte, 16), Attrs: 0x0004FEFF, Rev: 2, Blocks: []hu.Block{{Count: 1, Size: 8}}, Files: []*hu.File{last}}
			if one.Size()%8 == 0 {
				one.Blocks[0].Count = uint32(one.Size() / 8)
				cs = append(cs, hexCase(kind, one.Ser()))
			}
		}
	}
	// FindFirmwareVolumeOffset quirk: a signature at offset 32 (volume would start at −8) is not a volume
	q := rep(0xFF, 256)
	copy(q[32:], "_FVH")
	cs = append(cs, hexCase("scan-quirk", q))
	// … and one probe later it is (volume at offset 0 of what follows 8 bytes of padding)
	v := row18(0x1000)
	cs = append(cs, hexCase("scan-quirk", append(rep(0xFF, 8), v...)))
	cs = append(cs, hexCase("scan-quirk", append(rep(0xFF, 4), v...))) // misaligned: never found
	// degenerate inputs
	for _, n := range []int{0, 1, 19, 20, 31, 32, 36, 37, 63, 64} {
		cs = append(cs, hexCase("tiny", rep(0xFF, n)))
		cs = append(cs, hexCase("tiny", rep(0, n)))
	}
	return cs
}

// extHeaderCases: every section kind that the parser decodes, written with the 8-byte extended header
// (Size = FFFFFF) although it is small — accepted by the reader, never produced by the writers, and
// the only inputs on which "header size 8" matters for UI / version / depex / volume-image sections.
func extHeaderCases(r *rand.Rand) []core.Case {
	g := &hu.Gen{R: r, MaxAlign: 1, Depth: 0, NoNested: true}
	inner := g.FV(400, false)
	bodies := []struct {
		typ  uint8
		body []byte
	}{
		{0x15, hu.UCS2([]rune("ExtUI"))},
		{0x15, []byte{0x41, 0x00, 0x42}}, // odd length, no terminator
		{0x14, append([]byte{0x34, 0x12}, hu.UCS2([]rune("1.0"))...)},
		{0x13, append(append([]byte{0x02}, guid(7)...), 0x08)},
		{0x1b, []byte{0x06, 0x08}},
		{0x1c, []byte{0x09, 0x06, 0x08, 0xEE}}, // trailing byte after END
		{0x17, inner.Ser()},
		{0x19, rep(0x77, 9)},
	}
	var cs []core.Case
	for i, b := range bodies {
		secs := []*hu.Sec{{Kind: "sl", Type: b.typ, Ext: true, Body: b.body}}
		if i%2 == 0 {
			secs = append(secs, &hu.Sec{Kind: "sl", Type: 0x19, Body: rep(1, 5)})
		}
		f := &hu.File{Kind: "fs", GUID: guid(byte(0x60 + i)), Type: 7, State: 0xF8, Secs: secs}
		fv := &hu.FV{ZV: make([]byte, 16), Attrs: 0x0004FEFF, Rev: 2, Blocks: []hu.Block{{Count: 1, Size: 8}}, Files: []*hu.File{f}}
		for fv.Size()%8 != 0 {
			fv.Free++
		}
		fv.Free += 40
		fv.Blocks[0].Count = uint32(fv.Size() / 8)
		cs = append(cs, hexCase("ext-header", (&hu.Img{Bios: &hu.Bios{Items: []hu.Item{{FV: fv}}}}).Ser()))
	}
	return cs
}

var (
	lzmaGUID    = codecGUIDs[1]
	lzmaX86GUID = codecGUIDs[2]
	zlibGUID    = codecGUIDs[3]
	brotliGUID  = codecGUIDs[0]
)

func serSecs(secs []*hu.Sec) []byte {
	var out []byte
	for _, s := range secs {
		for len(out)%4 != 0 {
			out = append(out, 0)
		}
		out = append(out, s.Ser()...)
	}
	return out
}

// compressedCases: GUID-defined sections whose payload really is decoded by the parser (LZMA and
// LZMA+x86 through the repository's pure-Go encoder; ZLIB / BROTLI GUIDs with undecodable payloads),
// at the end of a file and followed by another section (the decoder is handed the rest of the *file*).
func compressedCases(r *rand.Rand, thorough bool) []core.Case {
	n := 24
	if thorough {
		n = 400
	}
	var cs []core.Case
	for i := 0; i < n; i++ {
		g := &hu.Gen{R: r, MaxAlign: 1, Depth: 1}
		// inner sections (leaf kinds, sometimes a nested volume)
		var inner []*hu.Sec
		for k := 1 + r.Intn(3); k > 0; k-- {
			s := g.Sec(300)
			if s.Kind == "sg" {
				s = &hu.Sec{Kind: "sl", Type: 0x19, Body: rep(byte(k), r.Intn(40))}
			}
			inner = append(inner, s)
		}
		payload := serSecs(inner)
		if r.Intn(8) == 0 {
			payload = append(payload, rep(0, r.Intn(4))...) // trailing bytes after the last child
		}
		var body []byte
		gd := lzmaGUID
		switch r.Intn(8) {
		case 0:
			gd = lzmaX86GUID
			body, _ = compression.CompressorFromGUID(&compression.LZMAX86GUID).Encode(payload)
		case 1:
			gd = zlibGUID
			body = payload // not a zlib stream: decode error, "UNKNOWN"
		case 2:
			gd = brotliGUID
			body = payload
		default:
			body, _ = (&compression.LZMA{}).Encode(payload)
		}
		if body == nil {
			body, _ = (&compression.LZMA{}).Encode(payload)
			gd = lzmaGUID
		}
		if r.Intn(10) == 0 && len(body) > 20 {
			body[13+r.Intn(len(body)-13)] ^= 0x40 // corrupt the stream
		}
		sg := &hu.Sec{Kind: "sg", GUID: gd, DataOffset: 24, Attrs: 1, Body: body}
		secs := []*hu.Sec{sg}
		if r.Intn(3) == 0 {
			secs = append([]*hu.Sec{{Kind: "su", Name: []rune("Before")}}, secs...)
		}
		if r.Intn(3) == 0 {
			secs = append(secs, &hu.Sec{Kind: "sl", Type: 0x19, Body: rep(0xEE, 1+r.Intn(30))})
		}
		f := &hu.File{Kind: "fs", GUID: guid(byte(i)), Type: 7, Attrs: 0x40, State: 0xF8, Secs: secs}
		fv := &hu.FV{ZV: make([]byte, 16), Attrs: 0x0004FEFF, Rev: 2, Blocks: []hu.Block{{Count: 1, Size: 8}}}
		fv.Files = []*hu.File{leafFile(0x40, 1, rep(1, r.Intn(20))), f}
		fv.Free = 8 * r.Intn(8)
		for fv.Size()%8 != 0 {
			fv.Free++
		}
		if fv.Free < 32 && fv.Free != 0 {
			fv.Free += 32
		}
		fv.Blocks[0].Count = uint32(fv.Size() / 8)
		img := &hu.Img{Bios: &hu.Bios{Items: []hu.Item{{FV: fv}}}}
		cs = append(cs, hexCase("compressed", img.Ser()))
	}
	return cs
}
