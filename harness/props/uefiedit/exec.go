package uefiedit

// exec.go — one `utk <image> <op>…` run, in process: visitors.ParseCLI builds every visitor first (as
// pkg/utk does), then uefi.Parse, then the visitors one at a time through visitors.ExecuteCLI so
// that the tree can be observed after each of them.

import (
	"fmt"
	"os"
	"path/filepath"
	"strings"

	fuefi "github.com/linuxboot/fiano/pkg/uefi"
	"github.com/linuxboot/fiano/pkg/visitors"

	"verif/harness/core"
	hu "verif/harness/props/uefi"
)

// Step is what one visitor did.
type Step struct {
	Op     Op
	Class  string // ok | err | panic | fatal
	Detail string
	Digest string // canonical digest of the whole tree after the visitor (ok only)
	Saved  []byte // save: the bytes of the written file
	// save that failed: did it leave a file behind?
	LeftFile bool
}

// Result of a run.
type Result struct {
	Stage   string // "cli" (ParseCLI failed), "parse" (uefi.Parse failed) or "run"
	Class   string // class of the failing stage, or of ExecuteCLI as a whole
	Detail  string
	Digest0 string // digest of the parsed tree
	Steps   []Step // executed visitors; the last one is the one that failed, if any
	NilFile bool   // an inserted blob parsed to a nil *uefi.File (free-space look-alike)
	NilStep int    // the first visitor that carries one (-1 = none)
}

var scratchDir string

func scratch() string {
	if scratchDir == "" {
		d, err := os.MkdirTemp("", "uefiedit-")
		if err != nil {
			panic(err)
		}
		scratchDir = d
	}
	return scratchDir
}

func cleanScratch(dir string) {
	ents, _ := os.ReadDir(dir)
	for _, e := range ents {
		os.Remove(filepath.Join(dir, e.Name()))
	}
}

// Execute runs the operations on the image.
func Execute(image []byte, ops []Op) Result {
	dir := scratch()
	cleanScratch(dir)
	write := func(name string, data []byte) string {
		p := filepath.Join(dir, name)
		if err := os.WriteFile(p, data, 0o644); err != nil {
			panic(err)
		}
		return p
	}
	var args []string
	var argOps [][]string
	for i, o := range ops {
		a := o.cliArgs(i, dir, write)
		argOps = append(argOps, a)
		args = append(args, a...)
	}

	hu.ResetState()
	// the visitors print to os.Stdout (captured when they are built, or when they run)
	stdout := os.Stdout
	devnull, _ := os.OpenFile(os.DevNull, os.O_WRONLY, 0)
	os.Stdout = devnull
	defer func() { os.Stdout = stdout; devnull.Close() }()

	var res Result
	var vs []fuefi.Visitor
	res.Class, res.Detail = hu.Guard(func() error {
		v, err := visitors.ParseCLI(args)
		vs = v
		return err
	})
	if res.Class != "ok" {
		res.Stage = "cli"
		return res
	}
	if len(vs) != len(ops) {
		panic(fmt.Sprintf("uefiedit: %d visitors for %d operations", len(vs), len(ops)))
	}
	res.NilStep = -1
	for i, v := range vs {
		if ins, ok := v.(*visitors.Insert); ok && ins.NewFile == nil && !res.NilFile {
			res.NilFile = true
			res.NilStep = i
		}
	}
	in := append([]byte{}, image...)
	var tree fuefi.Firmware
	res.Class, res.Detail = hu.Guard(func() error {
		t, err := fuefi.Parse(in)
		tree = t
		return err
	})
	if res.Class != "ok" {
		res.Stage = "parse"
		return res
	}
	res.Stage = "run"
	res.Digest0 = hu.Digest(tree)
	for i, o := range ops {
		st := Step{Op: o}
		out := ""
		if o.IsSave() {
			out = argOps[i][1]
			os.Remove(out)
		}
		st.Class, st.Detail = hu.Guard(func() error { return visitors.ExecuteCLI(tree, vs[i:i+1]) })
		if st.Class == "ok" {
			if !res.NilFile {
				st.Digest = hu.Digest(tree)
			}
			if o.IsSave() {
				b, err := os.ReadFile(out)
				if err != nil {
					st.Class, st.Detail = "err", "save returned nil but the file is unreadable: "+err.Error()
				}
				st.Saved = b
			}
		} else if o.IsSave() {
			if _, err := os.Stat(out); err == nil {
				st.LeftFile = true
			}
		}
		res.Steps = append(res.Steps, st)
		if st.Class != "ok" {
			res.Class, res.Detail = st.Class, st.Detail
			break
		}
	}
	return res
}

// Saved lists the images written, in order.
func (r Result) Saved() [][]byte {
	var out [][]byte
	for _, s := range r.Steps {
		if s.Op.IsSave() && s.Class == "ok" {
			out = append(out, s.Saved)
		}
	}
	return out
}

func fnvLen(b []byte) string { return fmt.Sprintf("%016x:%d", core.FNV(b), len(b)) }

// class of the whole run as compared with the model.  Once a nil *uefi.File sits in a file list
// (see Visitors.lean, stepNil) a later visitor either faults when it reaches it or fails earlier in
// its walk with an ordinary error (a volume before it that is out of space): the model does not track
// where the nil pointer sits, both outcomes count as the same class.
func (r Result) modelClass() string {
	if n := len(r.Steps) - 1; r.NilFile && r.Class == "err" && n > r.NilStep && r.Steps[n].Op.IsSave() {
		return "panic" // only Assemble can fail on the way to the nil pointer; Find always reaches it
	}
	return r.Class
}

// RunLine is the expected answer of the driver to `run <image> <ops>`.
func (r Result) RunLine() string {
	if r.Stage != "run" {
		return r.Stage + ":" + r.Class
	}
	var ss []string
	for _, b := range r.Saved() {
		ss = append(ss, fnvLen(b))
	}
	saved := "-"
	if len(ss) > 0 {
		saved = strings.Join(ss, ",")
	}
	return r.modelClass() + " " + saved
}

// StepsLine is the expected answer of the driver to `steps <image> <ops>`.
func (r Result) StepsLine() string {
	if r.Stage != "run" {
		return r.Stage + ":" + r.Class
	}
	var recs []string
	for _, s := range r.Steps {
		switch {
		case s.Class != "ok":
			recs = append(recs, "!"+s.Class)
		case s.Op.IsSave():
			recs = append(recs, s.Digest+"/"+fnvLen(s.Saved))
		default:
			recs = append(recs, s.Digest)
		}
	}
	body := "-"
	if len(recs) > 0 {
		body = strings.Join(recs, ",")
	}
	return r.Class + " " + r.Digest0 + " " + body
}
