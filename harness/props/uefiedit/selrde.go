package uefiedit

// selrde.go — remove_dxes_except <list file> (C03, gap closing round 2).
//
// The command removes every file of the volume that holds the DXE core except the files the list
// names; every line of the list is "the GUID or name of a firmware file" — a regular expression that
// has to match the whole GUID text or UI name, case-insensitively; blank lines and lines that begin
// with '#' do not count, of a line only the first word (up to the first blank) counts.  fiano joins
// the lines into ONE pattern with '|' and hands it to FindFilePredicate, so a defect in how that
// predicate anchors an alternation (seeded defect c03-4) makes the command keep files the list does not
// name.  The abstract model does not join anything: a file is kept iff some line, taken alone, names
// its GUID text or one of its UI names (selre.go).  As `remove` does, a removed PEIM (type 0x06) leaves
// a pad file of its size.  The Lean model does not describe the command: oracles only.

import "strings"

func init() { unmodelledKinds["rde"] = true }

// rdeLines: the patterns of a list file.
func rdeLines(text string) []string {
	var out []string
	for _, l := range strings.Split(text, "\n") {
		l = strings.TrimSpace(l)
		if l == "" || strings.HasPrefix(l, "#") {
			continue
		}
		out = append(out, strings.Split(l, " ")[0])
	}
	return out
}

func (img *AImage) applyRde(o Op) string {
	lines := rdeLines(o.Sel)
	if len(lines) == 0 {
		return "?" // an empty list: fiano's joined pattern is "", which names the empty text
	}
	for _, l := range lines {
		if !ValidPattern(l) || PatternNames(l, "") {
			return "?"
		}
	}
	cores := img.matches("", false, 5)
	if len(cores) != 1 {
		return "err"
	}
	t := cores[0]
	if !t.vol.FFS {
		return "?"
	}
	var out []*AFile
	for _, f := range t.vol.Files {
		keep := false
		for _, l := range lines {
			if f.hit(ReSel(l)) {
				keep = true
				break
			}
		}
		switch {
		case keep:
			out = append(out, f)
		case f.Type == 0x06:
			out = append(out, &AFile{GUID: erasedGUID, Type: 0xF0, Pad: true, Size: f.Size, Off: f.Off})
		}
	}
	t.vol.Files = out
	markChanged(t)
	return "ok"
}
