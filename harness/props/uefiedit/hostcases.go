package uefiedit

// hostcases.go — nested volumes held by sectioned files of EVERY type (C03, gap closing round 2).
//
// A volume-image section is legal in any sectioned file; fiano reads the sections of every file type
// it supports (FREEFORM, SEC / PEI / DXE core, DRIVER, COMBINED_PEIM_DRIVER, APPLICATION, MM, the
// volume-image type 0x0B, …).  The older streams wrapped nested volumes in type 0x0B only, so a visitor
// that stops descending at files of the other types went unnoticed (seeded defect c03-6: Insert.Visit
// returned early at every file whose type is not 0x0B; Find still reported the target, Insert.Run
// returned nil and nothing was edited).  These cases aim every editing command at the files of such a
// volume: directly under the host, two levels down with hosts of different types, with the volume
// section behind other sections, and inside a file that an earlier command of the same run inserted.

import (
	"verif/harness/core"
	hu "verif/harness/props/uefi"
)

// HostTypes are the file types whose sections fiano (and the independent reader) walk.
var HostTypes = []uint8{0x02, 0x03, 0x04, 0x05, 0x07, 0x08, 0x09, 0x0A, 0x0B, 0x0C, 0x0D, 0x0E, 0x0F}

// HostFile is a sectioned file of the given type around a nested volume; order lists its sections:
// v = the volume image, n = a UI section with the name, r = a raw section.
func HostFile(guid []byte, typ uint8, name string, order string, inner *hu.FV) *hu.File {
	f := &hu.File{Kind: "fs", GUID: append([]byte{}, guid...), Type: typ, State: 0xF8}
	for _, k := range order {
		switch k {
		case 'v':
			f.Secs = append(f.Secs, &hu.Sec{Kind: "sf", FV: inner})
		case 'n':
			if name != "" {
				f.Secs = append(f.Secs, &hu.Sec{Kind: "su", Name: []rune(name)})
			}
		case 'r':
			f.Secs = append(f.Secs, &hu.Sec{Kind: "sl", Type: 0x19, Body: []byte{9, 8, 7}})
		}
	}
	return f
}

func hostOps(g func(n byte) string) [][]Op {
	newA := driver(7, 0, "NewA", 16).Ser()
	newB := rawFile(8, 1, 40).Ser()
	pe := append([]byte("MZ"), 1, 2, 3, 4, 5, 6)
	return [][]Op{
		{{Kind: "if", Where: "after", Sel: "InnerOne", Blob: newA}},
		{{Kind: "if", Where: "before", Sel: g(0xB), Blob: newA}},
		{{Kind: "if", Where: "replace", Sel: "InnerTwo", Blob: newB}},
		{{Kind: "if", Where: "front", Sel: "InnerTwo", Blob: newA}},
		{{Kind: "if", Where: "end", Sel: g(0xA), Blob: newB}},
		{{Kind: "if", Where: "front", Sel: g(0xD), Blob: newA}}, // the nested volume named itself
		{{Kind: "if", Where: "end", Sel: g(0xD), Blob: newA}},
		{{Kind: "dxe", Blob: newA}}, // the DXE core lives in the nested volume
		{{Kind: "rm", Sel: "InnerTwo"}},
		{{Kind: "rp", Sel: g(0xA)}},
		{{Kind: "pe", Sel: "InnerOne", Blob: pe}},
		{{Kind: "find", Sel: "InnerTwo"}, {Kind: "if", Where: "after", Sel: "InnerTwo", Blob: newA}, {Kind: "save"}, {Kind: "rm", Sel: "NewA"}},
	}
}

// HostCases: for every host type, every editing command aimed at the files of the nested volume.
func HostCases() []core.Case {
	var cs []core.Case
	g := func(n byte) string { return GUIDText(fixedGUID(n)) }
	innerFiles := func() []*hu.File {
		dxeCore := driver(0xC, 0, "InnerCore", 8)
		dxeCore.Type = 5
		return []*hu.File{driver(0xA, 0, "InnerOne", 20), driver(0xB, 0, "InnerTwo", 12), dxeCore}
	}
	seal := func(ops []Op) []Op { return append(append([]Op{}, ops...), Op{Kind: "save"}) }
	for i, typ := range HostTypes {
		inner := volume(0xD, innerFiles(), 200, true)
		order := []string{"v", "nv", "vn", "rvn"}[i%4]
		host := HostFile(fixedGUID(3), typ, "Host", order, inner)
		img := &hu.Img{Bios: &hu.Bios{Items: []hu.Item{
			{FV: volume(0xE, []*hu.File{driver(1, 0, "Alpha", 30), host, driver(4, 0, "Bee", 10)}, 1200, false)},
			{Pad: make([]byte, 16), FV: volume(0xF, []*hu.File{driver(5, 0, "Setup", 0), rawFile(2, 1, 9)}, 300, false)},
		}}}
		for _, ops := range hostOps(g) {
			cs = append(cs, CaseOf("host-"+hex2(typ), img, seal(ops)))
		}
	}
	// two levels: the target volume sits in a host of type B inside a volume in a host of type A
	newA := driver(7, 0, "NewA", 16).Ser()
	for _, ab := range [][2]uint8{{0x0B, 0x02}, {0x02, 0x0B}, {0x07, 0x09}, {0x0B, 0x0B}, {0x04, 0x0E}} {
		deep := volume(0, []*hu.File{driver(0xA, 0, "DeepOne", 20), driver(0xB, 0, "DeepTwo", 12)}, 120, true)
		mid := volume(0xD, []*hu.File{driver(0xC, 0, "MidOne", 8), HostFile(fixedGUID(6), ab[1], "MidHost", "vn", deep)}, 200, true)
		img := &hu.Img{Bios: &hu.Bios{Items: []hu.Item{
			{FV: volume(0xE, []*hu.File{driver(1, 0, "Alpha", 30), HostFile(fixedGUID(3), ab[0], "TopHost", "nv", mid), driver(4, 0, "Bee", 10)}, 1500, false)},
		}}}
		kind := "host2-" + hex2(ab[0]) + "-" + hex2(ab[1])
		for _, ops := range [][]Op{
			{{Kind: "if", Where: "after", Sel: "DeepOne", Blob: newA}},
			{{Kind: "if", Where: "replace", Sel: "DeepTwo", Blob: newA}},
			{{Kind: "if", Where: "before", Sel: "MidOne", Blob: newA}},
			{{Kind: "if", Where: "end", Sel: "MidHost", Blob: newA}},
			{{Kind: "rm", Sel: "DeepTwo"}},
			{{Kind: "rp", Sel: "DeepOne"}},
			{{Kind: "pe", Sel: "DeepOne", Blob: append([]byte("MZ"), 1, 2, 3)}},
			{{Kind: "rm", Sel: "MidOne"}, {Kind: "if", Where: "after", Sel: "DeepTwo", Blob: newA}},
		} {
			cs = append(cs, CaseOf(kind, img, seal(ops)))
		}
	}
	// the target volume arrives inside a file that an earlier command inserted
	for _, typ := range []uint8{0x02, 0x07, 0x0B} {
		carried := volume(0, []*hu.File{driver(0xA, 0, "CarriedOne", 20), driver(0xB, 0, "CarriedTwo", 12)}, 120, true)
		carrier := HostFile(fixedGUID(9), typ, "Carrier", "nv", carried).Ser()
		img := &hu.Img{Bios: &hu.Bios{Items: []hu.Item{
			{FV: volume(0xE, []*hu.File{driver(1, 0, "Alpha", 30), driver(4, 0, "Bee", 10)}, 1500, false)},
		}}}
		for _, ops := range [][]Op{
			{{Kind: "if", Where: "after", Sel: "Alpha", Blob: carrier}, {Kind: "if", Where: "after", Sel: "CarriedOne", Blob: newA}},
			{{Kind: "if", Where: "end", Sel: g(0xE), Blob: carrier}, {Kind: "save"}, {Kind: "if", Where: "replace", Sel: "CarriedTwo", Blob: newA}},
			{{Kind: "if", Where: "before", Sel: "Bee", Blob: carrier}, {Kind: "rm", Sel: "CarriedOne"}},
			{{Kind: "if", Where: "before", Sel: "Bee", Blob: carrier}, {Kind: "rp", Sel: "CarriedTwo"}, {Kind: "pe", Sel: "CarriedOne", Blob: append([]byte("MZ"), 4, 5, 6)}},
		} {
			cs = append(cs, CaseOf("host-carried-"+hex2(typ), img, seal(ops)))
		}
	}
	return cs
}

func hex2(b uint8) string { return string("0123456789abcdef"[b>>4]) + string("0123456789abcdef"[b&15]) }
