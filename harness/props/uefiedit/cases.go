package uefiedit

// cases.go — the case streams shared by C02 and C03: random sequences over random valid images, and
// (thorough) every sequence of length ≤ 3 over a 9-operation alphabet on three small two-volume images.

import (
	"math/rand"

	"verif/harness/core"
	hu "verif/harness/props/uefi"
)

// RandomCases generates n cases; extras allows the operations that only C02's oracles look at.
func RandomCases(r *rand.Rand, n int, extras bool) []core.Case {
	var cs []core.Case
	g := &ImgGen{R: r}
	for len(cs) < n {
		g.guids = nil
		o := VolOpts{Budget: 300 + r.Intn(1500), Depth: 1, Free: -1, MaxAlign: 3, NFiles: -1}
		if r.Intn(8) == 0 {
			o.Depth = 2
		}
		if r.Intn(10) == 0 {
			o.MaxAlign = 5
		}
		kind := []string{"fv", "fv", "bios", "bios", "bios", "flash"}[r.Intn(6)]
		img := g.Image(kind, o)
		in := img.Ser()
		if len(in) > 48*1024 {
			continue
		}
		rd, err := ReadImage(in)
		if err != nil {
			panic("uefiedit: generated image unreadable: " + err.Error())
		}
		inv := TakeInventory(Abstract(rd))
		k := 1 + r.Intn(6)
		ops := g.Ops(inv, k, extras, len(in))
		cs = append(cs, CaseOf("random-"+kind, img, ops))
	}
	return cs
}

func fixedGUID(n byte) []byte {
	b := make([]byte, 16)
	for i := range b {
		b[i] = n*16 + byte(i)
	}
	return b
}

func driver(guid byte, attrs uint8, name string, pe int) *hu.File {
	f := &hu.File{Kind: "fs", GUID: fixedGUID(guid), Type: 7, Attrs: attrs, State: 0xF8}
	if pe > 0 {
		body := make([]byte, pe)
		copy(body, "MZ")
		f.Secs = append(f.Secs, &hu.Sec{Kind: "sl", Type: 0x10, Body: body})
	}
	if name != "" {
		f.Secs = append(f.Secs, &hu.Sec{Kind: "su", Name: []rune(name)})
	}
	if len(f.Secs) == 0 {
		f.Secs = append(f.Secs, &hu.Sec{Kind: "sl", Type: 0x19, Body: []byte{1, 2, 3, 4, 5}})
	}
	return f
}

func rawFile(guid byte, typ uint8, n int) *hu.File {
	f := &hu.File{Kind: "fl", GUID: fixedGUID(guid), Type: typ, Attrs: 0x40, State: 0xF8, Body: make([]byte, n)}
	for i := range f.Body {
		f.Body[i] = byte(i*7 + int(guid))
	}
	fixLeaf(f)
	return f
}

// volume lays the files out (minimal pad files) and leaves `free` bytes behind them.
func volume(name byte, files []*hu.File, free int, nested bool) *hu.FV {
	v := &hu.FV{ZV: make([]byte, 16), Attrs: 0x0004FEFF, Rev: 2, Blocks: make([]hu.Block, 1)}
	if name != 0 {
		v.ExtHdr = &hu.ExtHdr{FVName: fixedGUID(name)}
	}
	off := 72
	if v.ExtHdr != nil {
		off = up(72+20, 8)
	}
	for _, f := range files {
		if pad := hu.PlaceAligned(off, f.StoredAttrs()); pad != nil {
			v.Files = append(v.Files, pad)
			off = up(off, 8) + len(pad.Ser())
		}
		v.Files = append(v.Files, f)
		off = up(off, 8) + len(f.Ser())
	}
	v.Free = up(off, 8) - off + up(free, 8)
	fixTail(v)
	setBlocks(v, rand.New(rand.NewSource(1)), nested)
	return v
}

// ExhaustiveImages are the three small two-volume images of the exhaustive enumeration: one with a
// nested volume, one nearly full, one with data-aligned files.
func ExhaustiveImages() []*hu.Img {
	nestedVol := volume(0, []*hu.File{driver(0xA, 0, "Inner", 20), rawFile(0xB, 1, 12)}, 40, true)
	holder := &hu.File{Kind: "fs", GUID: fixedGUID(3), Type: 0x0B, State: 0xF8,
		Secs: []*hu.Sec{{Kind: "sf", FV: nestedVol}}}
	img1 := &hu.Img{Bios: &hu.Bios{Items: []hu.Item{
		{FV: volume(0xE, []*hu.File{driver(1, 0x40, "Shell", 30), rawFile(2, 6, 20), holder}, 600, false)},
		{Pad: make([]byte, 16), FV: volume(0xF, []*hu.File{driver(4, 0, "Setup", 0), rawFile(2, 1, 9)}, 300, false)},
	}}}
	img2 := &hu.Img{Bios: &hu.Bios{Items: []hu.Item{
		{FV: volume(0xE, []*hu.File{driver(1, 0x40, "Shell", 30), rawFile(2, 6, 20), driver(3, 0, "", 8)}, 96, false)},
		{FV: volume(0xF, []*hu.File{driver(4, 0, "Setup", 0), rawFile(2, 1, 9)}, 8, false)},
	}, Tail: []byte{0xFF, 0xFF, 0xFF, 0xFF, 0xFF, 0xFF, 0xFF, 0xFF}}}
	img3 := &hu.Img{Bios: &hu.Bios{Items: []hu.Item{
		{FV: volume(0xE, []*hu.File{driver(1, 0x48, "Shell", 30), rawFile(2, 6, 20), driver(3, 0x10, "", 8)}, 900, false)},
		{FV: volume(0xF, []*hu.File{driver(4, 0x08, "Setup", 0), rawFile(2, 1, 9)}, 500, false)},
	}}}
	return []*hu.Img{img1, img2, img3}
}

// ExhaustiveAlphabet is the 9-operation alphabet (targets exist in all three images; GUID 2 is in
// both volumes, so naming it is ambiguous for the single-target commands and plural for remove).
func ExhaustiveAlphabet() []Op {
	g := func(n byte) string { return GUIDText(fixedGUID(n)) }
	newA := driver(7, 0, "NewA", 16).Ser()
	newB := rawFile(8, 1, 40).Ser()
	newC := driver(9, 0x08, "", 24).Ser() // 16-byte data alignment
	return []Op{
		{Kind: "if", Where: "front", Sel: g(0xF), Blob: newB},  // volume-matched
		{Kind: "if", Where: "end", Sel: g(1), Blob: newA},      // file-matched
		{Kind: "if", Where: "after", Sel: "shell", Blob: newC}, // by UI name, case-insensitive
		{Kind: "if", Where: "before", Sel: g(4), Blob: newA},
		{Kind: "if", Where: "replace", Sel: g(1), Blob: newB},
		{Kind: "rm", Sel: g(2)},
		{Kind: "rp", Sel: g(4)},
		{Kind: "pe", Sel: g(1), Blob: append([]byte("MZ"), 1, 2, 3, 4, 5, 6, 7)},
		{Kind: "save"},
	}
}

// ExhaustiveCases enumerates every sequence of length 1..maxLen over the alphabet on every image,
// each followed by a final save.
func ExhaustiveCases(maxLen int) []core.Case {
	var cs []core.Case
	alpha := ExhaustiveAlphabet()
	for k, img := range ExhaustiveImages() {
		var rec func(prefix []Op)
		rec = func(prefix []Op) {
			if len(prefix) > 0 {
				ops := append(append([]Op{}, prefix...), Op{Kind: "save"})
				cs = append(cs, CaseOf([]string{"exh-nested", "exh-full", "exh-aligned"}[k], img, ops))
			}
			if len(prefix) == maxLen {
				return
			}
			for _, o := range alpha {
				rec(append(append([]Op{}, prefix...), o))
			}
		}
		rec(nil)
	}
	return cs
}
