package uefiedit

// nvstore.go — builder of AMI NVAR stores (the body of a RAW file that carries the NVAR GUID), written
// from the layout UEFITool documents: entries "NVAR" size16 next24 attrs [guid-index | guid] [name]
// data [extended header], erased space, and at the very end the GUID table, slot 0 last.  It does not
// call fiano.  Added by gap round 2 of C02 (seeded defect c02-5): `nvram-compact` rebuilds the entries
// and the GUID table of every store, the store must keep its length whatever the table does.
//
// The stores are *canonical*: the table holds exactly the slots up to the highest one a valid named
// entry uses, free space is erased with 0xFF, the last entry of a chain carries next = FF FF FF —
// an unedited save writes them back byte for byte (the Lean edit model keeps an NVAR file as a leaf).

import (
	"fmt"

	hu "verif/harness/props/uefi"
)

// NvVar is one entry.  Attrs: 0x80 valid, 0x01 runtime, 0x02 ASCII name, 0x04 GUID in the entry,
// 0x08 data only (no GUID, no name), 0x10 extended header, 0x40 authenticated write.
type NvVar struct {
	Attrs   byte
	Next    int // distance to the next entry of the chain, 0 = last
	GuidIdx byte
	Guid    []byte // with Attrs&4
	Name    string
	Data    []byte
	Ext     []byte // extended header including its trailing size
}

func (e NvVar) nameBytes() []byte {
	if e.Attrs&0x02 != 0 {
		return append([]byte(e.Name), 0)
	}
	return hu.UCS2([]rune(e.Name))
}

func (e NvVar) Ser() []byte {
	var body []byte
	if e.Attrs&0x08 == 0 {
		if e.Attrs&0x04 != 0 {
			body = append(body, e.Guid...)
		} else {
			body = append(body, e.GuidIdx)
		}
		body = append(body, e.nameBytes()...)
	}
	body = append(body, e.Data...)
	body = append(body, e.Ext...)
	n := 10 + len(body)
	next := 0xFFFFFF
	if e.Next != 0 {
		next = e.Next
	}
	out := []byte{'N', 'V', 'A', 'R', byte(n), byte(n >> 8), byte(next), byte(next >> 8), byte(next >> 16), e.Attrs}
	return append(out, body...)
}

// indexed: a valid entry that names a slot of the GUID table
func (e NvVar) indexed() bool { return e.Attrs&0x80 != 0 && e.Attrs&0x0C == 0 }

// NvStore is a whole store.
type NvStore struct {
	Vars  []NvVar
	Guids [][]byte // slot 0 first (it is stored last)
	Free  int
}

func (s *NvStore) Ser() []byte {
	var out []byte
	for _, e := range s.Vars {
		out = append(out, e.Ser()...)
	}
	for i := 0; i < s.Free; i++ {
		out = append(out, 0xFF)
	}
	for i := len(s.Guids) - 1; i >= 0; i-- {
		out = append(out, s.Guids[i]...)
	}
	return out
}

// trim cuts the table to the slots a parser can know about: up to the highest slot named by a valid
// entry that carries a GUID index (deleted entries are never decoded).
func (s *NvStore) trim() {
	n := 0
	for _, e := range s.Vars {
		if e.indexed() && int(e.GuidIdx)+1 > n {
			n = int(e.GuidIdx) + 1
		}
	}
	if n < len(s.Guids) {
		s.Guids = s.Guids[:n]
	}
}

// Names lists the names of the valid named entries (the targets of invalidate_nvar).
func (s *NvStore) Names() []string {
	var out []string
	for _, e := range s.Vars {
		if e.Attrs&0x80 != 0 && e.Attrs&0x08 == 0 {
			out = append(out, e.Name)
		}
	}
	return out
}

// Shrinks: compaction leaves fewer GUIDs in the table than it has slots now (a slot used by no valid
// entry, or two slots with the same GUID).
func (s *NvStore) Shrinks() bool {
	seen := map[string]bool{}
	for _, e := range s.Vars {
		if e.indexed() && int(e.GuidIdx) < len(s.Guids) {
			seen[string(s.Guids[e.GuidIdx])] = true
		}
	}
	return len(seen) < len(s.Guids)
}

func nvExt(extAttrs byte, timestamp, hash bool, padTo int) []byte {
	x := []byte{extAttrs}
	if timestamp {
		x = append(x, 0x88, 0x77, 0x66, 0x55, 0x44, 0x33, 0x22, 0x11)
	}
	if hash {
		for i := 0; i < 32; i++ {
			x = append(x, 0xAB)
		}
	}
	for len(x) < padTo {
		x = append(x, 0)
	}
	if extAttrs&1 != 0 {
		x = append(x, 0) // stored checksum
	}
	n := len(x) + 2
	return append(x, byte(n), byte(n>>8))
}

func (g *ImgGen) nvData(max int) []byte {
	b := make([]byte, 1+g.R.Intn(max))
	g.R.Read(b)
	if b[0] == 'N' { // never a nested store by accident
		b[0] = 'M'
	}
	return b
}

// NvStore generates a store: 1–4 GUID slots (now and then two slots with the same GUID), 2–7 entries:
// plain, UCS-2 names, GUID in the entry, deleted, link chains of two and three entries, deleted chains,
// data-only entries nobody links to, extended headers, a nested store in the content of a variable.
func (g *ImgGen) NvStore(depth int) *NvStore {
	s := &NvStore{}
	nslots := 1 + g.R.Intn(4)
	for i := 0; i < nslots; i++ {
		b := make([]byte, 16)
		g.R.Read(b)
		b[0] &= 0x7F // never an erased-looking GUID
		s.Guids = append(s.Guids, b)
	}
	if nslots > 1 && g.R.Intn(3) == 0 {
		a, b := g.R.Intn(nslots), g.R.Intn(nslots)
		s.Guids[a] = append([]byte{}, s.Guids[b]...)
	}
	add := func(e NvVar) int {
		s.Vars = append(s.Vars, e)
		return len(e.Ser())
	}
	n := 2 + g.R.Intn(6)
	if depth == 0 {
		n = 1 + g.R.Intn(3)
	}
	for i := 0; i < n; i++ {
		e := NvVar{Attrs: 0x82, GuidIdx: byte(g.R.Intn(nslots)), Name: fmt.Sprintf("Var%d", i), Data: g.nvData(24)}
		if depth == 0 {
			e.Name = fmt.Sprintf("In%d", i)
		}
		if i > 0 && g.R.Intn(10) == 0 && s.Vars[0].Name != "" {
			e.Name = s.Vars[0].Name // the same name twice
		}
		if g.R.Intn(4) == 0 {
			e.Attrs |= 0x01
		}
		switch g.R.Intn(12) {
		case 0: // UCS-2 name
			e.Attrs &^= 0x02
			if g.R.Intn(2) == 0 {
				e.Name = fmt.Sprintf("Ünï%d", i)
			}
		case 1: // GUID in the entry
			e.Attrs |= 0x04
			e.Guid = make([]byte, 16)
			g.R.Read(e.Guid)
			if g.R.Intn(2) == 0 {
				copy(e.Guid, s.Guids[g.R.Intn(nslots)])
			}
		case 2, 3: // deleted
			e.Attrs &^= 0x80
		case 4, 5: // a chain: the named entry links to one or two data-only entries
			dead := g.R.Intn(5) == 0
			if dead {
				e.Attrs &^= 0x80
			}
			e.Next = len(e.Ser())
			add(e)
			d := NvVar{Attrs: 0x88, Data: g.nvData(16)}
			if g.R.Intn(3) == 0 {
				d.Attrs |= 0x10
				d.Ext = nvExt(0x00, true, true, 0)
			}
			if g.R.Intn(3) == 0 {
				d.Next = len(d.Ser())
				add(d)
				d = NvVar{Attrs: 0x88, Data: g.nvData(16)}
			}
			e = d
		case 6: // extended header with checksum and time stamp
			e.Attrs |= 0x10
			e.Ext = nvExt(0x01, true, false, 0)
		case 7: // extended header, authenticated write
			e.Attrs |= 0x10 | 0x40
			e.Ext = nvExt(0x01, false, false, 12)
		case 8: // a data-only entry nobody links to
			e = NvVar{Attrs: 0x88, Data: g.nvData(16)}
		case 9: // a store in the content
			if depth > 0 {
				in := g.NvStore(depth - 1)
				in.Free = 4 + g.R.Intn(40)
				e.Data = in.Ser()
			}
		}
		add(e)
	}
	switch g.R.Intn(5) {
	case 0:
		s.Free = 0
	case 1:
		s.Free = 1 + g.R.Intn(16)
	default:
		s.Free = 20 + g.R.Intn(200)
	}
	s.trim()
	return s
}

// NvFile wraps a store into a RAW file with the NVAR GUID.
func NvFile(store []byte, attrs uint8) *hu.File {
	f := &hu.File{Kind: "fl", GUID: append([]byte{}, hu.GuidNVAR...), Type: 1, Attrs: attrs, State: 0xF8, Body: store}
	fixLeaf(f)
	return f
}

// NvGUID is the text form of the NVAR file GUID.
func NvGUID() string { return GUIDText(hu.GuidNVAR) }
