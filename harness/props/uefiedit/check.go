package uefiedit

// check.go — evaluation of one case and the checks of C02 and C03 built from it.

import (
	"bytes"
	"fmt"
	"os"
	"strings"

	"verif/harness/core"
	hu "verif/harness/props/uefi"
)

// Eval is everything known about one case after running it on fiano.
type Eval struct {
	In   []byte
	Ops  []Op
	Res  Result
	Want []string  // per executed step: the class the abstract model demands ("ok", "err", "?")
	Exp  []*AImage // per executed step: the abstract image after it (nil once the model has no opinion)
	Full []bool    // per executed step: some top-level volume certainly cannot hold its files any more
	Err  string    // the reader could not make sense of the input (generator bug)
}

func cloneImage(img *AImage) *AImage {
	var cv func(v *AVol) *AVol
	cv = func(v *AVol) *AVol {
		n := *v
		n.Files = nil
		for _, f := range v.Files {
			nf := *f
			nf.Parts = nil
			for _, p := range f.Parts {
				if p.Vol != nil {
					p.Vol = cv(p.Vol)
				}
				nf.Parts = append(nf.Parts, p)
			}
			n.Files = append(n.Files, &nf)
		}
		return &n
	}
	out := &AImage{}
	for _, v := range img.Vols {
		out.Vols = append(out.Vols, cv(v))
	}
	return out
}

// certainlyFull: a lower bound of the space the files of a top-level volume need exceeds the file
// area (sizes rounded up to the 8-byte placement; data-alignment padding not counted).
func certainlyFull(img *AImage) bool {
	for _, v := range img.Vols {
		if !v.FFS || len(v.Files) == 0 {
			continue
		}
		need := 0
		for _, f := range v.Files {
			need = up(need, 8) + f.Size
		}
		if need > v.Len-v.First {
			return true
		}
	}
	return false
}

// Evaluate runs the case on fiano and on the abstract model.
func Evaluate(in []byte, ops []Op) *Eval {
	e := &Eval{In: in, Ops: ops}
	e.Res = Execute(in, ops)
	if dbg := os.Getenv("UEFIEDIT_DEBUG"); dbg != "" && strings.Contains(e.Class(), dbg) {
		fmt.Fprintf(os.Stderr, "DEBUG %s: %s | %s\n", e.Class(), e.Res.Detail, OpsText(ops))
	}
	r, err := ReadImage(in)
	if err != nil {
		e.Err = err.Error()
		return e
	}
	cur := Abstract(r)
	for _, st := range e.Res.Steps {
		if cur == nil {
			e.Want = append(e.Want, "?")
			e.Exp = append(e.Exp, nil)
			e.Full = append(e.Full, false)
			continue
		}
		want := cur.Apply(st.Op)
		e.Want = append(e.Want, want)
		if want != "ok" || st.Class != "ok" {
			// the abstract state is only followed along successful, well-defined steps
			e.Exp = append(e.Exp, nil)
			e.Full = append(e.Full, false)
			cur = nil
			continue
		}
		e.Exp = append(e.Exp, cloneImage(cur))
		e.Full = append(e.Full, certainlyFull(cur))
	}
	return e
}

// Class is the outcome class for the histogram.
func (e *Eval) Class() string {
	r := e.Res
	if r.Stage != "run" {
		return r.Stage + ":" + r.Class
	}
	if r.Class == "ok" {
		return fmt.Sprintf("run:ok/%d-saved", len(r.Saved()))
	}
	last := r.Steps[len(r.Steps)-1]
	return "run:" + r.Class + "@" + last.Op.Kind
}

func (e *Eval) request(verb string) string {
	return verb + " " + core.Hex(e.In) + " " + ModelOpsText(e.In, e.Ops) // = OpsText unless a selector is a pattern (selre.go)
}

// ModelChecks are the correspondence checks (tie T2): the whole run and, where the trees can be
// observed, every intermediate tree.
func (e *Eval) ModelChecks(perStep bool) []core.Check {
	if !AllModelled(e.Ops) || !PatternsModelled(e.In, e.Ops) {
		return nil
	}
	if perStep && !e.Res.NilFile {
		return []core.Check{{Tag: "M", What: "steps", Req: e.request("steps"), Exp: e.Res.StepsLine()}}
	}
	return []core.Check{{Tag: "M", What: "run", Req: e.request("run"), Exp: e.Res.RunLine()}}
}

// InputValid asks the Lean reader about the *input*: a failure is a generator bug, not a finding.
func (e *Eval) InputValid() core.Check {
	return core.Check{Tag: "M", What: "input-valid", Req: "spec-valid " + core.Hex(e.In), Exp: "ok"}
}

// ChecksC02 are the oracles of "every written image is a valid image of the same size; a missing or
// ambiguous target, or a result that cannot fit, is an error and writes nothing".
func (e *Eval) ChecksC02() []core.Check {
	var cs []core.Check
	n := 0
	for i, st := range e.Res.Steps {
		if st.Op.IsSave() && st.Class == "ok" {
			n++
			cs = append(cs,
				core.Check{Tag: "O", What: "saved-image-valid", Req: "spec-valid " + core.Hex(st.Saved), Exp: "ok",
					Sig: "saved-image-valid"},
				core.Check{Tag: "O", What: "same-size", Exp: fmt.Sprint(len(e.In)), Got: fmt.Sprint(len(st.Saved)), Sig: "same-size"})
		}
		if st.Op.IsSave() && st.Class != "ok" {
			got := "no file"
			if st.LeftFile {
				got = "a file was written"
			}
			cs = append(cs, core.Check{Tag: "O", What: "no-output-on-error", Exp: "no file", Got: got, Sig: "no-output-on-error"})
		}
		if i < len(e.Want) && e.Want[i] == "err" {
			cs = append(cs, core.Check{Tag: "O", What: "missing-or-ambiguous-target-is-error", Exp: "err",
				Got: st.Class, Sig: "target-error:" + st.Op.Kind})
		}
		if i < len(e.Full) && st.Op.IsSave() && i > 0 && e.Full[i-1] && e.Exp[i-1] != nil {
			cs = append(cs, core.Check{Tag: "O", What: "no-room-is-error", Exp: "err", Got: st.Class, Sig: "no-room-is-error"})
		}
	}
	return cs
}

func diffRanges(a, b []byte, rs [][2]int) string {
	if len(a) != len(b) {
		return fmt.Sprintf("sizes %d / %d", len(a), len(b))
	}
	for _, r := range rs {
		if !bytes.Equal(a[r[0]:r[1]], b[r[0]:r[1]]) {
			for i := r[0]; i < r[1]; i++ {
				if a[i] != b[i] {
					return fmt.Sprintf("byte %#x differs (%02x -> %02x) in the untouched range [%#x,%#x)", i, a[i], b[i], r[0], r[1])
				}
			}
		}
	}
	return "identical"
}

func observedOffsets(saved []byte) ([]string, *AImage, error) {
	r, err := ReadImage(saved)
	if err != nil {
		return nil, nil, err
	}
	img := Abstract(r)
	return img.KeptOffsets(), img, nil
}

// ChecksC03 are the oracles of "an edit changes exactly what it names".
func (e *Eval) ChecksC03() []core.Check {
	var cs []core.Check
	onlyPadRemovals := true
	earlier := map[string]bool{}
	if r, err := ReadImage(e.In); err == nil {
		Abstract(r).VolumeBytes(earlier)
	}
	for _, o := range e.Ops { // volumes that arrive inside an inserted file
		if o.Kind == "if" || o.Kind == "dxe" {
			if f := AbstractFile(o.Blob); f != nil {
				var vols []*AVol
				for _, p := range f.Parts {
					if p.Vol != nil {
						vols = append(vols, p.Vol)
					}
				}
				(&AImage{Vols: vols}).VolumeBytes(earlier)
			}
		}
	}
	for i, st := range e.Res.Steps {
		if st.Class != "ok" || i >= len(e.Exp) || e.Exp[i] == nil {
			break
		}
		if !st.Op.IsSave() {
			if !st.Op.ReadOnly() && st.Op.Kind != "rp" {
				onlyPadRemovals = false
			}
			continue
		}
		exp := e.Exp[i]
		_, got, err := observedOffsets(st.Saved)
		if err != nil {
			cs = append(cs, core.Check{Tag: "O", What: "expected-file-sequence", Exp: "", Got: "saved image unreadable: " + err.Error(), Sig: "expected-file-sequence"})
			continue
		}
		diff := Same(exp, got, earlier)
		got.VolumeBytes(earlier)
		sig := "expected-file-sequence"
		if strings.HasPrefix(diff, EmptiedVolume) {
			sig = "emptied-volume-keeps-files"
		}
		cs = append(cs, core.Check{Tag: "O", What: "expected-file-sequence", Exp: "", Got: diff, Sig: sig})
		cs = append(cs, core.Check{Tag: "O", What: "untouched-bytes-identical", Exp: "identical",
			Got: diffRanges(e.In, st.Saved, exp.UntouchedRanges(len(e.In))), Sig: "untouched-bytes-identical"})
		if onlyPadRemovals {
			// every file that is still there sits where it was
			want := strings.Join(exp.KeptOffsets(), " ")
			var have []string
			n := 0
			got.walk(func(v *AVol, _ []*AVol) {
				for _, f := range v.Files {
					if !f.Pad {
						have = append(have, fmt.Sprintf("v%d:%s@%d", n, GUIDText(f.GUID[:]), f.Off))
					}
				}
				n++
			})
			cs = append(cs, core.Check{Tag: "O", What: "remove-pad-keeps-offsets", Exp: want, Got: strings.Join(have, " "), Sig: "remove-pad-keeps-offsets"})
		}
	}
	// read-only operations never change what a later save writes
	hasRO := false
	var without []Op
	for _, o := range e.Ops {
		if o.ReadOnly() {
			hasRO = true
		} else {
			without = append(without, o)
		}
	}
	failedAtRO := e.Res.Stage == "run" && e.Res.Class != "ok" && len(e.Res.Steps) > 0 && e.Res.Steps[len(e.Res.Steps)-1].Op.ReadOnly()
	if hasRO && e.Res.Stage == "run" && !failedAtRO {
		ref := Execute(e.In, without)
		cs = append(cs, core.Check{Tag: "O", What: "read-only-ops-change-nothing", Exp: ref.RunLine(), Got: e.Res.RunLine(), Sig: "read-only-ops-change-nothing"})
	}
	return cs
}

// Key distinguishes outcomes for the distinct-nontrivial count.
func (e *Eval) Key() string { return e.Res.StepsLine() }

// CaseOf packs an image and a sequence into a replayable case.
func CaseOf(kind string, img *hu.Img, ops []Op) core.Case {
	return core.Case{Kind: kind, Op: "edit", Args: map[string]string{"recipe": img.Recipe(), "ops": OpsText(ops)}}
}

// Unpack is the inverse of CaseOf.
func Unpack(c core.Case) ([]byte, []Op) {
	if h, ok := c.Args["hex"]; ok {
		return core.UnHex(h), ParseOps(c.Args["ops"])
	}
	return hu.ParseRecipe(c.Args["recipe"]).Ser(), ParseOps(c.Args["ops"])
}
