package uefiedit

// wrapper.go — selection by UI name around nested volumes.  Find attributes a UI section to "the file
// being visited"; a file that wraps a nested volume (FV-image section) may carry its own UI section
// *behind* that volume, and the files that follow it are visited after the walk has been inside the
// nested volume.  The random generator used to put a wrapper's name only in front of the nested volume
// (seeded defect c03-1: per-file visitor state kept on a shared visitor and not restored went unnoticed).
// These cases are deterministic and cheap; C02 and C03 run them in both tiers.

import (
	"verif/harness/core"
	hu "verif/harness/props/uefi"
)

func wrapperFile(guid byte, name string, order string, inner *hu.FV) *hu.File {
	f := &hu.File{Kind: "fs", GUID: fixedGUID(guid), Type: 0x0B, State: 0xF8}
	for _, k := range order {
		switch k {
		case 'v':
			f.Secs = append(f.Secs, &hu.Sec{Kind: "sf", FV: inner})
		case 'n':
			f.Secs = append(f.Secs, &hu.Sec{Kind: "su", Name: []rune(name)})
		case 'r':
			f.Secs = append(f.Secs, &hu.Sec{Kind: "sl", Type: 0x19, Body: []byte{9, 8, 7}})
		}
	}
	return f
}

// WrapperCases: for every order of (nested volume, name, raw section) in the wrapper, every command
// that selects by name, aimed at the wrapper, at an inner file, and at the file behind the wrapper.
func WrapperCases() []core.Case {
	var cs []core.Case
	newA := driver(7, 0, "NewA", 16).Ser()
	for _, order := range []string{"vn", "nv", "vnr", "rvn", "vrn", "nvn"} {
		inner := volume(0, []*hu.File{driver(0xA, 0, "InnerOne", 20), driver(0xB, 0, "InnerTwo", 12)}, 120, true)
		img := &hu.Img{Bios: &hu.Bios{Items: []hu.Item{
			{FV: volume(0xE, []*hu.File{driver(1, 0, "Alpha", 30), wrapperFile(3, "Wrapper", order, inner), driver(4, 0, "Bee", 10)}, 900, false)},
			{Pad: make([]byte, 16), FV: volume(0xF, []*hu.File{driver(5, 0, "Setup", 0), rawFile(2, 1, 9)}, 300, false)},
		}}}
		for _, sel := range []string{"Wrapper", "InnerTwo", "Bee", "InnerOne"} {
			for _, ops := range [][]Op{
				{{Kind: "rm", Sel: sel}},
				{{Kind: "rp", Sel: sel}},
				{{Kind: "if", Where: "after", Sel: sel, Blob: newA}},
				{{Kind: "if", Where: "before", Sel: sel, Blob: newA}},
				{{Kind: "if", Where: "replace", Sel: sel, Blob: newA}},
				{{Kind: "pe", Sel: sel, Blob: append([]byte("MZ"), 1, 2, 3, 4, 5, 6)}},
				{{Kind: "find", Sel: sel}, {Kind: "rm", Sel: sel}},
			} {
				cs = append(cs, CaseOf("wrapper-"+order, img, append(append([]Op{}, ops...), Op{Kind: "save"})))
			}
		}
	}
	return cs
}
