package uefiedit

// tail.go — what is left behind the last file after an edit.  The reader's file walk tests
// `offset < Length-24` with the *unaligned* end of the last file and only then rounds up to 8: when the
// last file ends off an 8-byte boundary and exactly 24 bytes remain behind the aligned end, it looks for
// a file header in a 24-byte erased tail (the tool could not read what it had saved: DESIGN §8 row 38,
// fixes/C02-erased-tail-24.diff).  These cases aim an insertion at every tail length around that
// boundary, in a top-level volume (fixed length) and in a nested one (grows by whole 64-byte blocks).

import (
	"fmt"

	"verif/harness/core"
	hu "verif/harness/props/uefi"
)

// TailCases: insert_end of a RAW file sized so that `tail` bytes stay behind the 8-aligned end of the
// files, with the file itself ending `odd` bytes past an 8-byte boundary.
func TailCases() []core.Case {
	var cs []core.Case
	g := func(n byte) string { return GUIDText(fixedGUID(n)) }
	for _, nested := range []bool{false, true} {
		for _, tail := range []int{0, 8, 16, 24, 32, 40} {
			for _, odd := range []int{0, 1, 5} {
				var img *hu.Img
				var target *hu.FV
				if nested {
					inner := volume(0, []*hu.File{rawFile(0xA, 1, 12)}, 8, true)
					inner.Blocks = []hu.Block{{Count: uint32(inner.Size() / 8), Size: 8}}
					// one 64-byte block size: the volume grows in steps of 64
					for inner.Size()%64 != 0 {
						inner.Free += 8
					}
					inner.Blocks = []hu.Block{{Count: uint32(inner.Size() / 64), Size: 64}}
					holder := &hu.File{Kind: "fs", GUID: fixedGUID(3), Type: 0x0B, State: 0xF8, Secs: []*hu.Sec{{Kind: "sf", FV: inner}}}
					img = &hu.Img{Bios: &hu.Bios{Items: []hu.Item{{FV: volume(0xE, []*hu.File{driver(1, 0, "Shell", 30), holder}, 2000, false)}}}}
					target = inner
				} else {
					target = volume(0xE, []*hu.File{driver(1, 0, "Shell", 30), rawFile(0xA, 1, 12)}, 640, false)
					img = &hu.Img{Bios: &hu.Bios{Items: []hu.Item{{FV: target}}}}
				}
				// body length n so that up8(filesEnd)+24+n lands `odd` past a boundary with `tail` left
				start := up(target.FilesEnd(), 8)
				var n int
				found := false
				for n = 1; n < 600; n++ {
					end := start + 24 + n
					total := target.Size()
					if nested {
						total = up(up(end, 8), 64)
						if total < target.Size() {
							total = target.Size()
						}
					}
					if end%8 == odd && total-up(end, 8) == tail {
						found = true
						break
					}
				}
				if !found {
					continue
				}
				blob := rawFile(8, 1, n).Ser()
				kind := fmt.Sprintf("tail-%d-odd-%d", tail, odd)
				if nested {
					kind = "nested-" + kind
				}
				cs = append(cs, CaseOf(kind, img, []Op{{Kind: "if", Where: "end", Sel: g(0xA), Blob: blob}, {Kind: "save"}}))
			}
		}
	}
	return cs
}
