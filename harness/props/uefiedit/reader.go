// Package uefiedit is the Go side shared by the harnesses of C02 and C03: generators of valid
// images and of edit-operation sequences, the runner that drives fiano's visitors through
// visitors.ParseCLI / ExecuteCLI, an independent reader of saved images, and the abstract model of
// an edit (ordered file lists) that the C03 oracles compare against.
package uefiedit

// reader.go — a small reader of flash / BIOS-region images written from the PI specification
// (volume header, FFS file header, section header) and the flash descriptor layout.  It does not
// import fiano.  It is deliberately lenient: it reports what is there (volumes, files, sections,
// nested volumes, their offsets); judging validity is the job of the Lean reader Valid.validImage.

import (
	"bytes"
	"encoding/binary"
	"fmt"
)

// RSec is one section of a file.
type RSec struct {
	Type   uint8
	Off    int    // offset of the section header relative to the file body
	Hdr    int    // header length (4 or 8, +20 for GUID-defined)
	Bytes  []byte // the whole section
	Name   []rune // UI sections: the decoded name
	Nested *RVol  // volume-image sections: the volume
}

// RFile is one file of a volume.
type RFile struct {
	Off   int // offset of the header relative to the volume
	Hdr   int // 24 or 32
	GUID  [16]byte
	Type  uint8
	Attrs uint8
	State uint8
	Bytes []byte // the whole file
	Secs  []RSec // for the sectioned file types whose body walks cleanly
}

func (f *RFile) Body() []byte { return f.Bytes[f.Hdr:] }
func (f *RFile) IsPad() bool  { return f.Type == 0xF0 }

// RVol is one firmware volume.
type RVol struct {
	Off    int // absolute offset in the image (nested: relative to the enclosing section payload)
	Len    int
	Name   [16]byte // extended-header name, zero when there is none
	HasExt bool
	FFS    bool
	First  int // offset of the file area
	Files  []RFile
	Bytes  []byte
}

// RImage is what the reader found.
type RImage struct {
	Flash   bool
	BiosOff int // start of the BIOS region (0 for a bare image)
	BiosLen int
	Vols    []*RVol // top-level volumes of the BIOS region, in order
}

var ffs2 = []byte{0x78, 0xe5, 0x8c, 0x8c, 0x3d, 0x8a, 0x1c, 0x4f, 0x99, 0x35, 0x89, 0x61, 0x85, 0xc3, 0x2d, 0xd3}
var ffs3 = []byte{0x7a, 0xc0, 0x73, 0x54, 0xcb, 0x3d, 0xca, 0x4d, 0xbd, 0x6f, 0x1e, 0x96, 0x89, 0xe7, 0x34, 0x9a}

func up(n, a int) int { return (n + a - 1) / a * a }

func sectionedType(t uint8) bool { return (t >= 2 && t <= 5) || (t >= 7 && t <= 15) }

func decodeUCS2(b []byte) []rune {
	var units []uint16
	for i := 0; i+1 < len(b); i += 2 {
		units = append(units, binary.LittleEndian.Uint16(b[i:]))
	}
	var out []rune
	for i := 0; i < len(units); i++ {
		u := rune(units[i])
		switch {
		case u >= 0xD800 && u < 0xDC00 && i+1 < len(units) && units[i+1] >= 0xDC00 && units[i+1] < 0xE000:
			out = append(out, (u-0xD800)<<10+(rune(units[i+1])-0xDC00)+0x10000)
			i++
		case u >= 0xD800 && u < 0xE000:
			out = append(out, 0xFFFD)
		default:
			out = append(out, u)
		}
	}
	if len(b)%2 == 1 {
		out = append(out, 0xFFFD)
	}
	if n := len(out); n > 0 && out[n-1] == 0 {
		out = out[:n-1]
	}
	return out
}

func readSections(body []byte, depth int) ([]RSec, bool) {
	var out []RSec
	for off := 0; off < len(body); {
		if off+4 > len(body) {
			return out, false
		}
		size := int(body[off]) | int(body[off+1])<<8 | int(body[off+2])<<16
		typ := body[off+3]
		hl := 4
		if size == 0xFFFFFF {
			if off+8 > len(body) {
				return out, false
			}
			size = int(binary.LittleEndian.Uint32(body[off+4:]))
			hl = 8
		}
		if typ == 0x02 {
			hl += 20
		}
		if size < hl || off+size > len(body) {
			return out, false
		}
		s := RSec{Type: typ, Off: off, Hdr: hl, Bytes: body[off : off+size]}
		switch typ {
		case 0x15:
			s.Name = decodeUCS2(s.Bytes[hl:])
		case 0x17:
			if depth < 8 {
				if v, ok := readVolume(s.Bytes[hl:], 0, depth+1); ok && v.Len == size-hl {
					s.Nested = v
				}
			}
		}
		out = append(out, s)
		off = up(off+size, 4)
	}
	return out, true
}

// readVolume reads the volume that starts at b[0]; off is recorded as its position.
func readVolume(b []byte, off int, depth int) (*RVol, bool) {
	if len(b) < 64 || !bytes.Equal(b[40:44], []byte("_FVH")) {
		return nil, false
	}
	length := binary.LittleEndian.Uint64(b[32:])
	if length < 64 || length > uint64(len(b)) {
		return nil, false
	}
	v := &RVol{Off: off, Len: int(length), Bytes: b[:length]}
	b = v.Bytes
	hlen := int(binary.LittleEndian.Uint16(b[48:]))
	eho := int(binary.LittleEndian.Uint16(b[52:]))
	v.First = hlen
	if eho != 0 && eho+20 <= len(b) {
		copy(v.Name[:], b[eho:eho+16])
		v.HasExt = true
		v.First = eho + int(binary.LittleEndian.Uint32(b[eho+16:]))
	}
	v.First = up(v.First, 8)
	v.FFS = bytes.Equal(b[16:32], ffs2) || bytes.Equal(b[16:32], ffs3)
	if !v.FFS {
		return v, true
	}
	erased := byte(0)
	if binary.LittleEndian.Uint32(b[44:])&0x800 != 0 {
		erased = 0xFF
	}
	for o := v.First; o+24 <= len(b); {
		hdr := b[o : o+24]
		free := true
		for _, x := range hdr {
			if x != erased {
				free = false
				break
			}
		}
		if free {
			break
		}
		f := RFile{Off: o, Hdr: 24, Type: hdr[18], Attrs: hdr[19], State: hdr[23]}
		copy(f.GUID[:], hdr[:16])
		size := int(hdr[20]) | int(hdr[21])<<8 | int(hdr[22])<<16
		if f.Attrs&1 != 0 {
			if o+32 > len(b) {
				break
			}
			size = int(binary.LittleEndian.Uint64(b[o+24:]))
			f.Hdr = 32
		}
		if size < f.Hdr || o+size > len(b) {
			break
		}
		f.Bytes = b[o : o+size]
		if sectionedType(f.Type) {
			if secs, ok := readSections(f.Body(), depth); ok {
				f.Secs = secs
			}
		}
		v.Files = append(v.Files, f)
		o = up(o+size, 8)
	}
	return v, true
}

func readBios(img []byte, lo, hi int) []*RVol {
	var out []*RVol
	for pos := lo; pos+44 <= hi; {
		if !bytes.Equal(img[pos+40:pos+44], []byte("_FVH")) {
			pos += 8
			continue
		}
		v, ok := readVolume(img[pos:hi], pos, 0)
		if !ok {
			pos += 8
			continue
		}
		out = append(out, v)
		pos += v.Len
	}
	return out
}

// ReadImage walks a flash image (descriptor at 0, BIOS region = region-table entry 0) or a bare BIOS
// region.
func ReadImage(img []byte) (*RImage, error) {
	r := &RImage{BiosLen: len(img)}
	ms := -1
	if len(img) >= 20 {
		if bytes.Equal(img[16:20], []byte{0x5a, 0xa5, 0xf0, 0x0f}) {
			ms = 20
		} else if bytes.Equal(img[0:4], []byte{0x5a, 0xa5, 0xf0, 0x0f}) {
			ms = 4
		}
	}
	if ms >= 0 {
		if len(img) < 4096 {
			return nil, fmt.Errorf("flash image shorter than its descriptor")
		}
		r.Flash = true
		frba := int(img[ms+2]) * 16
		if frba+8 > 4096 {
			return nil, fmt.Errorf("region section outside the descriptor")
		}
		base := int(binary.LittleEndian.Uint16(img[frba+4:]))
		limit := int(binary.LittleEndian.Uint16(img[frba+6:]))
		if limit < base || (limit+1)*4096 > len(img) {
			return nil, fmt.Errorf("BIOS region %d..%d outside the flash", base, limit)
		}
		r.BiosOff, r.BiosLen = base*4096, (limit+1-base)*4096
	}
	r.Vols = readBios(img, r.BiosOff, r.BiosOff+r.BiosLen)
	return r, nil
}
