package uefiedit

// corpus.go — the hand-picked cases kept in corpus/C02 and corpus/C03 (written there by the build
// agent with `dbgedit corpus`): the inputs of the defects found so far, the quirks of the command
// line, and the boundary layouts the theorems single out.

import (
	"strconv"

	"verif/harness/core"
	hu "verif/harness/props/uefi"
)

func fill(b byte, n int) []byte {
	out := make([]byte, n)
	for i := range out {
		out[i] = b
	}
	return out
}

// CorpusCases returns the cases by file name (without extension).
func CorpusCases() map[string]core.Case {
	g := func(n byte) string { return GUIDText(fixedGUID(n)) }
	out := map[string]core.Case{}
	add := func(name string, img *hu.Img, ops ...Op) {
		out[name] = CaseOf("corpus", img, append(ops, Op{Kind: "save"}))
	}
	bios := func(items ...hu.Item) *hu.Img { return &hu.Img{Bios: &hu.Bios{Items: items}} }
	newA := driver(7, 0, "NewA", 16).Ser()
	newAligned := driver(9, 0x08, "", 24).Ser()
	ffBlob := fill(0xFF, 40)
	imgs := ExhaustiveImages()

	// DESIGN §8 row 5: the matched file is the last of its volume and further matches follow (panicked
	// before fixes/C11-remove-visit.diff)
	row5 := bios(
		hu.Item{FV: volume(0xE, []*hu.File{driver(1, 0, "One", 8), rawFile(2, 1, 9)}, 200, false)},
		hu.Item{FV: volume(0xF, []*hu.File{rawFile(2, 1, 9), driver(4, 0, "Four", 0)}, 200, false)})
	add("row05-remove-last-of-volume-then-more", row5, Op{Kind: "rm", Sel: g(2)})
	add("row05-remove-pad-last-of-volume-then-more", row5, Op{Kind: "rp", Sel: g(2)})
	// finding F26: the only file of a volume is removed — the saved volume still holds it
	add("f26-remove-only-file", bios(hu.Item{FV: volume(0xE, []*hu.File{rawFile(2, 1, 9)}, 200, false)}), Op{Kind: "rm", Sel: g(2)})
	add("f26-remove-only-files-nested", imgs[0], Op{Kind: "rm", Sel: g(0xA)}, Op{Kind: "rm", Sel: g(0xB)})
	// the same volume emptied and refilled is re-assembled
	add("emptied-then-refilled", bios(hu.Item{FV: volume(0xE, []*hu.File{rawFile(2, 1, 9)}, 300, false)}),
		Op{Kind: "if", Where: "replace", Sel: g(2), Blob: newA})
	// create-fv: sizes that are not a multiple of the 4 KiB block (invalid volume before
	// fixes/C02-createfv-size.diff), below the headers (panicked), and good ones
	padded := &hu.Img{Bios: &hu.Bios{Items: []hu.Item{
		{FV: volume(0xE, []*hu.File{rawFile(2, 1, 9)}, 100, false)},
		{Pad: fill(0xFF, 3*4096), FV: volume(0xF, []*hu.File{rawFile(3, 1, 9)}, 100, false)}}}}
	off := padded.Bios.Items[0].FV.Size()
	for _, sz := range []int{120, 64, 0, 2048, 4100, 4096, 8192} {
		add("createfv-size-"+strconv.Itoa(sz), padded, Op{Kind: "createfv", Off: off + 8, Size: sz, Blob: fixedGUID(5)})
	}
	add("createfv-then-insert", padded, Op{Kind: "createfv", Off: off, Size: 4096, Blob: fixedGUID(5)},
		Op{Kind: "if", Where: "end", Sel: g(5), Blob: newA})
	// command-line quirks
	add("cli-insert-dxe-unparsable", imgs[0], Op{Kind: "dxe", Blob: []byte{1, 2, 3}})
	add("cli-insert-pad-file-fresh-process", imgs[0], Op{Kind: "ip", Where: "end", Sel: g(1), Size: 64})
	withVol := driver(6, 0, "", 0)
	withVol.Type = 0x0B
	withVol.Secs = []*hu.Sec{{Kind: "sf", FV: volume(0, []*hu.File{rawFile(0xC, 1, 5)}, 16, true)}}
	add("cli-insert-pad-file-after-a-volume-set-the-polarity", imgs[0],
		Op{Kind: "if", Where: "end", Sel: g(1), Blob: withVol.Ser()}, Op{Kind: "ip", Where: "front", Sel: g(1), Size: 64})
	add("cli-free-space-blob-is-a-nil-file", imgs[0], Op{Kind: "if", Where: "end", Sel: g(1), Blob: ffBlob})
	// after the nil pointer is in a file list every visitor that walks the tree faults; json and comment do not
	for i, next := range [][]Op{
		{{Kind: "pe", Sel: g(1), Blob: []byte("ZZ")}}, {{Kind: "pe", Sel: g(1), Blob: []byte("MZ12")}},
		{{Kind: "json"}, {Kind: "comment"}}, {{Kind: "count"}}, {{Kind: "table"}}, {{Kind: "validate"}},
		{{Kind: "cat", Sel: g(1)}}, {{Kind: "find", Sel: g(1)}}, {{Kind: "dump", Sel: g(1)}}, {{Kind: "rm", Sel: g(4)}},
		{{Kind: "rp", Sel: g(4)}}, {{Kind: "if", Where: "end", Sel: g(4), Blob: newA}}, {{Kind: "dxe", Blob: newA}}} {
		add("cli-nil-file-then-"+strconv.Itoa(i), imgs[0], append([]Op{{Kind: "if", Where: "end", Sel: g(1), Blob: ffBlob}}, next...)...)
	}
	add("cli-nil-file-volume-after-refused", imgs[0], Op{Kind: "if", Where: "after", Sel: g(0xF), Blob: ffBlob})
	add("cli-nil-file-missing-target", imgs[0], Op{Kind: "if", Where: "after", Sel: "nosuch", Blob: ffBlob})
	add("cli-truncated-blob", imgs[0], Op{Kind: "if", Where: "end", Sel: g(1), Blob: newA[:30]})
	add("cli-blob-with-trailing-bytes", imgs[0], Op{Kind: "if", Where: "end", Sel: g(1), Blob: append(append([]byte{}, newA...), 9, 9, 9)})
	// the gap ∈ [8,24) bump: the previous file ends on a 16-byte boundary, the new file wants aligned data
	bump := bios(hu.Item{FV: volume(0xE, []*hu.File{rawFile(2, 1, 16)}, 400, false)})
	add("gap-bump-16", bump, Op{Kind: "if", Where: "end", Sel: g(2), Blob: newAligned})
	add("gap-bump-128", bump, Op{Kind: "if", Where: "end", Sel: g(2), Blob: driver(9, 0x10, "", 24).Ser()})
	// space: fits, does not fit
	add("nearly-full-fits", imgs[1], Op{Kind: "if", Where: "end", Sel: g(1), Blob: rawFile(8, 1, 60).Ser()})
	add("nearly-full-too-big", imgs[1], Op{Kind: "if", Where: "end", Sel: g(1), Blob: rawFile(8, 1, 200).Ser()})
	// a nested volume grows to its next block
	add("nested-grows", imgs[0], Op{Kind: "if", Where: "end", Sel: g(0xA), Blob: rawFile(8, 1, 300).Ser()})
	add("nested-pe32", imgs[0], Op{Kind: "pe", Sel: "inner", Blob: append([]byte("MZ"), make([]byte, 90)...)})
	// selection: case-insensitive, Kelvin sign / long s, ambiguous, volume names
	ks := bios(hu.Item{FV: volume(0xE, []*hu.File{driver(1, 0, "Kſ", 8), driver(2, 0, "other", 8)}, 300, false)})
	add("select-ks-folds-to-kelvin-and-long-s", ks, Op{Kind: "rm", Sel: "ks"})
	add("select-ambiguous-guid", imgs[0], Op{Kind: "if", Where: "after", Sel: g(2), Blob: newA})
	add("select-missing", imgs[0], Op{Kind: "pe", Sel: "NoSuchName", Blob: []byte("MZ..")})
	add("select-volume-front", imgs[0], Op{Kind: "if", Where: "front", Sel: g(0xF), Blob: newA})
	add("select-volume-after-is-refused", imgs[0], Op{Kind: "if", Where: "after", Sel: g(0xF), Blob: newA})
	add("select-lowercase-guid", imgs[0], Op{Kind: "rp", Sel: "13121110-1514-1716-1819-1a1b1c1d1e1f"})
	add("not-mz", imgs[0], Op{Kind: "pe", Sel: g(1), Blob: []byte("ZM12")})
	// remove_pad keeps offsets, also of an aligned file; PEIM → pad
	add("remove-pad-aligned", imgs[2], Op{Kind: "rp", Sel: g(3)})
	add("remove-peim-becomes-pad", imgs[0], Op{Kind: "rm", Sel: g(2)})
	// read-only commands in between
	add("read-only-mix", imgs[0], Op{Kind: "find", Sel: g(1)}, Op{Kind: "json"}, Op{Kind: "table"}, Op{Kind: "count"},
		Op{Kind: "validate"}, Op{Kind: "cat", Sel: g(1)}, Op{Kind: "dump", Sel: g(1)}, Op{Kind: "comment"},
		Op{Kind: "rm", Sel: g(4)}, Op{Kind: "json"})
	add("dump-ambiguous-stops-the-run", imgs[0], Op{Kind: "dump", Sel: g(2)}, Op{Kind: "rm", Sel: g(4)})
	// operations only the oracles look at
	add("repack-by-name", imgs[0], Op{Kind: "repack", Sel: "shell"})
	add("save-twice", imgs[0], Op{Kind: "rm", Sel: g(1)}, Op{Kind: "save"}, Op{Kind: "if", Where: "front", Sel: g(0xE), Blob: newA})
	return out
}
