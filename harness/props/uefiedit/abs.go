package uefiedit

// abs.go — the abstract model of an edit (property C03): a volume is an ordered list of files
// (GUID, type, attributes, body), pad files are transparent, and an operation is plain list surgery.
// It is computed from the *input* image (through the independent reader) and from the operation —
// never from fiano's tree — and compared with what the independent reader finds in the saved image.

import (
	"bytes"
	"fmt"
	"strings"
)

// APart is one piece of a file body: the bytes of a section (or the whole body of a file that has
// no section structure), or a nested volume.
type APart struct {
	SecType uint8
	Bytes   []byte
	Vol     *AVol
}

type AFile struct {
	GUID  [16]byte
	Type  uint8
	Attrs uint8
	Size  int
	Off   int // offset in the volume of the input image; -1 for files that were not there
	Pad   bool
	Parts []APart
	Names []string // UI-section names of this file (not of files in nested volumes)
}

type AVol struct {
	Name    [16]byte
	Off     int
	Len     int
	First   int
	Nested  bool
	FFS     bool
	Files   []*AFile
	Changed bool   // an operation edited this volume's list, or a file in it
	Raw     []byte // the bytes of the volume in the image it was read from
}

type AImage struct {
	Vols []*AVol
}

func absFile(f *RFile) *AFile {
	a := &AFile{GUID: f.GUID, Type: f.Type, Attrs: f.Attrs, Size: len(f.Bytes), Off: f.Off, Pad: f.IsPad()}
	if f.Secs == nil {
		a.Parts = []APart{{Bytes: f.Body()}}
		return a
	}
	for _, s := range f.Secs {
		p := APart{SecType: s.Type, Bytes: s.Bytes}
		if s.Nested != nil {
			p.Vol = absVol(s.Nested, true)
			p.Bytes = nil
		}
		if s.Type == 0x15 {
			a.Names = append(a.Names, string(s.Name))
		}
		a.Parts = append(a.Parts, p)
	}
	return a
}

func absVol(v *RVol, nested bool) *AVol {
	a := &AVol{Name: v.Name, Off: v.Off, Len: v.Len, First: v.First, Nested: nested, FFS: v.FFS, Raw: v.Bytes}
	for i := range v.Files {
		a.Files = append(a.Files, absFile(&v.Files[i]))
	}
	return a
}

// Abstract builds the abstract image of what the reader found.
func Abstract(r *RImage) *AImage {
	img := &AImage{}
	for _, v := range r.Vols {
		img.Vols = append(img.Vols, absVol(v, false))
	}
	return img
}

// AbstractFile reads a new file blob (as `utk` does: the file at the start of the blob).
func AbstractFile(blob []byte) *AFile {
	if len(blob) < 24 {
		return nil
	}
	f := RFile{Hdr: 24, Type: blob[18], Attrs: blob[19], State: blob[23], Off: -1}
	copy(f.GUID[:], blob[:16])
	size := int(blob[20]) | int(blob[21])<<8 | int(blob[22])<<16
	if size < 24 || size > len(blob) || f.Attrs&1 != 0 {
		return nil
	}
	f.Bytes = blob[:size]
	if sectionedType(f.Type) {
		if secs, ok := readSections(f.Body(), 0); ok {
			f.Secs = secs
		}
	}
	a := absFile(&f)
	a.Off = -1
	return a
}

// ---------------------------------------------------------------- selection

func (f *AFile) hit(sel string) bool {
	if _, ok := SelPattern(sel); ok { // a regular expression: full match of the GUID text or of a UI name (selre.go)
		if selHits(sel, GUIDText(f.GUID[:])) {
			return true
		}
		for _, n := range f.Names {
			if selHits(sel, n) {
				return true
			}
		}
		return false
	}
	if strings.EqualFold(sel, GUIDText(f.GUID[:])) {
		return true
	}
	for _, n := range f.Names {
		if strings.EqualFold(sel, n) {
			return true
		}
	}
	return false
}

type target struct {
	vol  *AVol
	idx  int // index of the file in vol.Files; -1 = the volume itself
	path []*AVol
}

func (img *AImage) walk(fn func(v *AVol, path []*AVol)) {
	var rec func(v *AVol, path []*AVol)
	rec = func(v *AVol, path []*AVol) {
		path = append(path, v)
		fn(v, path)
		for _, f := range v.Files {
			for _, p := range f.Parts {
				if p.Vol != nil {
					rec(p.Vol, path)
				}
			}
		}
	}
	for _, v := range img.Vols {
		rec(v, nil)
	}
}

// matches lists the nodes a selector names: files by GUID or UI name (everywhere), and — for the
// insertion commands — volumes by name.
func (img *AImage) matches(sel string, volumes bool, byType int) []target {
	var out []target
	img.walk(func(v *AVol, path []*AVol) {
		p := append([]*AVol{}, path...)
		if volumes && byType < 0 && selHits(sel, GUIDText(v.Name[:])) { // literal: EqualFold; pattern: full match (selre.go)
			out = append(out, target{vol: v, idx: -1, path: p})
		}
		for i, f := range v.Files {
			if (byType >= 0 && int(f.Type) == byType) || (byType < 0 && f.hit(sel)) {
				out = append(out, target{vol: v, idx: i, path: p})
			}
		}
	})
	return out
}

func markChanged(t target) {
	for _, v := range t.path {
		v.Changed = true
	}
}

// the GUID of a pad file the tool creates (erase polarity 1)
var erasedGUID = [16]byte{0xFF, 0xFF, 0xFF, 0xFF, 0xFF, 0xFF, 0xFF, 0xFF, 0xFF, 0xFF, 0xFF, 0xFF, 0xFF, 0xFF, 0xFF, 0xFF}

func canonSection(typ uint8, body []byte) []byte {
	n := len(body) + 4
	if n >= 0xFFFFFF {
		n += 4
		return append([]byte{0xFF, 0xFF, 0xFF, typ, byte(n), byte(n >> 8), byte(n >> 16), byte(n >> 24)}, body...)
	}
	return append([]byte{byte(n), byte(n >> 8), byte(n >> 16), typ}, body...)
}

// Apply performs the operation on the abstract image and returns the class the property demands:
//
//	"err"  the target is missing or ambiguous (or the request is refused outright): the tool must
//	       return an error;
//	"ok"   the operation is well defined; if the tool succeeds the image must equal the abstract
//	       result (a tool error for another reason — no room, a refused blob — is not judged here);
//	"?"    the abstract model has no opinion (operations it does not describe).
func (img *AImage) Apply(o Op) string {
	if selAbstains(o.Sel) {
		return "?" // a pattern the abstract model does not judge (selre.go)
	}
	switch o.Kind {
	case "if", "ip", "dxe":
		byType := -1
		if o.Kind == "dxe" {
			byType = 5
		}
		ms := img.matches(o.Sel, true, byType)
		if len(ms) != 1 {
			return "err"
		}
		t := ms[0]
		if !t.vol.FFS {
			return "?" // a volume of another file system: its content is opaque to the reader
		}
		var nf *AFile
		if o.Kind == "ip" {
			nf = &AFile{GUID: erasedGUID, Type: 0xF0, Pad: true, Size: o.Size, Off: -1}
		} else {
			nf = AbstractFile(o.Blob)
			if nf == nil {
				return "?" // a blob that is not a file: whatever the tool does, it must not write an image (C02)
			}
		}
		where := o.Where
		if o.Kind == "dxe" {
			where = "end"
		}
		if t.idx < 0 && where != "front" && where != "end" {
			return "err"
		}
		fs := t.vol.Files
		var out []*AFile
		switch where {
		case "front":
			out = append([]*AFile{nf}, fs...)
		case "end":
			out = append(append([]*AFile{}, fs...), nf)
		case "after":
			out = append(append(append([]*AFile{}, fs[:t.idx+1]...), nf), fs[t.idx+1:]...)
		case "before":
			out = append(append(append([]*AFile{}, fs[:t.idx]...), nf), fs[t.idx:]...)
		case "replace":
			out = append(append(append([]*AFile{}, fs[:t.idx]...), nf), fs[t.idx+1:]...)
		default:
			return "?"
		}
		t.vol.Files = out
		markChanged(t)
		return "ok"
	case "rm", "rp":
		ms := img.matches(o.Sel, false, -1)
		// remove from the innermost lists first so that indices stay valid: group by volume
		byVol := map[*AVol][]int{}
		for _, t := range ms {
			byVol[t.vol] = append(byVol[t.vol], t.idx)
			markChanged(t)
		}
		for v, idxs := range byVol {
			drop := map[int]bool{}
			for _, i := range idxs {
				drop[i] = true
			}
			var out []*AFile
			for i, f := range v.Files {
				if !drop[i] {
					out = append(out, f)
				} else if o.Kind == "rp" || f.Type == 0x06 {
					out = append(out, &AFile{GUID: erasedGUID, Type: 0xF0, Pad: true, Size: f.Size, Off: f.Off})
				}
			}
			v.Files = out
		}
		return "ok"
	case "pe":
		if !bytes.HasPrefix(o.Blob, []byte("MZ")) {
			return "err"
		}
		ms := img.matches(o.Sel, false, -1)
		if len(ms) != 1 {
			return "err"
		}
		f := ms[0].vol.Files[ms[0].idx]
		nfile := *f
		nfile.Parts = nil
		nfile.Size = 24 // the new size is not tracked: a safe lower bound
		for _, p := range f.Parts {
			if p.Vol == nil && p.SecType == 0x10 && f.isSectioned() {
				p.Bytes = canonSection(0x10, o.Blob)
			}
			nfile.Parts = append(nfile.Parts, p)
		}
		ms[0].vol.Files[ms[0].idx] = &nfile
		markChanged(ms[0])
		return "ok"
	case "rde":
		return img.applyRde(o) // remove_dxes_except (selrde.go)
	case "dump":
		if len(img.matches(o.Sel, false, -1)) != 1 {
			return "err"
		}
		return "ok"
	case "save", "find", "cat", "json", "table", "count", "validate", "comment":
		return "ok"
	}
	return "?"
}

func (f *AFile) isSectioned() bool { return sectionedType(f.Type) }

// ---------------------------------------------------------------- comparison

func describe(f *AFile) string {
	return fmt.Sprintf("%s type=%#x attrs=%#x", GUIDText(f.GUID[:]), f.Type, f.Attrs)
}

func visible(fs []*AFile) []*AFile {
	var out []*AFile
	for _, f := range fs {
		if !f.Pad {
			out = append(out, f)
		}
	}
	return out
}

// sameVolume compares the file sequences of two volumes, pad files dropped; "" = equal.
func sameVolume(exp, got *AVol, where string, earlier map[string]bool) string {
	e, g := visible(exp.Files), visible(got.Files)
	if len(exp.Files) == 0 && len(g) > 0 && earlier[string(got.Raw)] {
		// exactly finding F26: the edit left the list empty and the volume was written as it stood in the
		// input (or in an earlier save of this run), byte for byte
		return EmptiedVolume + ": " + where + " still holds " + describe(g[0])
	}
	for i := 0; i < len(e) || i < len(g); i++ {
		switch {
		case i >= len(e):
			return fmt.Sprintf("%s: unexpected file #%d %s", where, i, describe(g[i]))
		case i >= len(g):
			return fmt.Sprintf("%s: file #%d %s is missing", where, i, describe(e[i]))
		}
		a, b := e[i], g[i]
		if a.GUID != b.GUID || a.Type != b.Type || a.Attrs != b.Attrs {
			return fmt.Sprintf("%s: file #%d is %s, expected %s", where, i, describe(b), describe(a))
		}
		if len(a.Parts) != len(b.Parts) {
			return fmt.Sprintf("%s: file #%d %s has %d body parts, expected %d", where, i, describe(b), len(b.Parts), len(a.Parts))
		}
		for k := range a.Parts {
			pa, pb := a.Parts[k], b.Parts[k]
			if (pa.Vol == nil) != (pb.Vol == nil) {
				return fmt.Sprintf("%s: file #%d %s part %d: nested volume on one side only", where, i, describe(b), k)
			}
			if pa.Vol != nil {
				if d := sameVolume(pa.Vol, pb.Vol, fmt.Sprintf("%s/file#%d/volume", where, i), earlier); d != "" {
					return d
				}
				continue
			}
			if !bytes.Equal(pa.Bytes, pb.Bytes) {
				return fmt.Sprintf("%s: file #%d %s: body part %d differs (%d / %d bytes)", where, i, describe(b), k, len(pb.Bytes), len(pa.Bytes))
			}
		}
	}
	return ""
}

// EmptiedVolume prefixes the difference that is finding F26: a volume whose file list an edit left
// empty keeps its old content when it is saved (Assemble returns early on a volume without files).
const EmptiedVolume = "emptied volume keeps its files"

// VolumeBytes adds the byte strings of all volumes of the image (nested ones too) to the set.
func (img *AImage) VolumeBytes(set map[string]bool) {
	img.walk(func(v *AVol, _ []*AVol) { set[string(v.Raw)] = true })
}

// Same compares an expected abstract image with the one read from a saved image; "" = equal.
// earlier holds the bytes of every volume of the input image and of the images saved before.
func Same(exp, got *AImage, earlier map[string]bool) string {
	if len(exp.Vols) != len(got.Vols) {
		return fmt.Sprintf("%d top-level volumes, expected %d", len(got.Vols), len(exp.Vols))
	}
	for i := range exp.Vols {
		if exp.Vols[i].Name != got.Vols[i].Name {
			return fmt.Sprintf("volume #%d has name %s, expected %s", i, GUIDText(got.Vols[i].Name[:]), GUIDText(exp.Vols[i].Name[:]))
		}
		if d := sameVolume(exp.Vols[i], got.Vols[i], fmt.Sprintf("volume#%d", i), earlier); d != "" {
			return d
		}
	}
	return ""
}

// UntouchedRanges are the byte ranges of the image that no operation named: everything outside
// the top-level volumes marked Changed.
func (img *AImage) UntouchedRanges(total int) [][2]int {
	var out [][2]int
	pos := 0
	for _, v := range img.Vols {
		if v.Changed {
			if v.Off > pos {
				out = append(out, [2]int{pos, v.Off})
			}
			pos = v.Off + v.Len
		}
	}
	if pos < total {
		out = append(out, [2]int{pos, total})
	}
	return out
}

// KeptOffsets lists, for every volume (in walk order), the (GUID, offset) of the files that were in
// the input image and still are in the abstract image — used for the remove_pad oracle.
func (img *AImage) KeptOffsets() []string {
	var out []string
	n := 0
	img.walk(func(v *AVol, _ []*AVol) {
		for _, f := range v.Files {
			if f.Off >= 0 && !f.Pad {
				out = append(out, fmt.Sprintf("v%d:%s@%d", n, GUIDText(f.GUID[:]), f.Off))
			}
		}
		n++
	})
	return out
}
