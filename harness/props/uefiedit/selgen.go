package uefiedit

// selgen.go — case streams with selectors that are regular expressions (C03, gap closing round 2;
// the meaning of such a selector: selre.go).  The images hold families of UI names and GUIDs in which
// one text is a proper prefix / suffix / infix of another (Foo, FooBar, UefiShell, XFooY, foo, …): a
// pattern `A|B` that is anchored as `^A|B$` names FooBar and UefiShell too.  Nested volumes are hosted
// by sectioned files of every type (hostcases.go).

import (
	"math/rand"
	"regexp"
	"strings"

	"verif/harness/core"
	hu "verif/harness/props/uefi"
)

// selFile is a sectioned file: an optional PE32 section, an optional UI name, a raw section otherwise.
func selFile(guid []byte, typ uint8, attrs uint8, name string, pe int) *hu.File {
	f := &hu.File{Kind: "fs", GUID: append([]byte{}, guid...), Type: typ, Attrs: attrs, State: 0xF8}
	if pe > 0 {
		body := make([]byte, pe)
		for i := range body {
			body[i] = byte(i*5 + int(guid[0]))
		}
		copy(body, "MZ")
		f.Secs = append(f.Secs, &hu.Sec{Kind: "sl", Type: 0x10, Body: body})
	}
	if name != "" {
		f.Secs = append(f.Secs, &hu.Sec{Kind: "su", Name: []rune(name)})
	}
	if len(f.Secs) == 0 {
		f.Secs = append(f.Secs, &hu.Sec{Kind: "sl", Type: 0x19, Body: []byte{1, 2, 3, 4, 5}})
	}
	return f
}

func selRaw(guid []byte, typ uint8, n int) *hu.File {
	f := &hu.File{Kind: "fl", GUID: append([]byte{}, guid...), Type: typ, Attrs: 0x40, State: 0xF8, Body: make([]byte, n)}
	for i := range f.Body {
		f.Body[i] = byte(i*7 + int(guid[1]))
	}
	fixLeaf(f)
	return f
}

// ---------------------------------------------------------------- deterministic cases

// selImage: two top-level volumes and a nested one; "Foo", "Shell" and "Setup" each exist once, and
// every one of them is a proper prefix, suffix or infix of other names.  hostType is the type of the
// file that holds the nested volume.
func selImage(hostType uint8) *hu.Img {
	inner := volume(0, []*hu.File{
		selFile(fixedGUID(0xA), 7, 0, "ShellEx", 16),
		selFile(fixedGUID(0xB), 7, 0, "XFooY", 12),
		selFile(fixedGUID(0xC), 7, 0, "foobar", 0),
		selFile(fixedGUID(0xD), 7, 0, "Setup", 10),
	}, 160, true)
	host := HostFile(fixedGUID(4), hostType, "Wrap", "nv", inner)
	return &hu.Img{Bios: &hu.Bios{Items: []hu.Item{
		{FV: volume(0xE, []*hu.File{
			selFile(fixedGUID(1), 7, 0, "Foo", 24),
			selFile(fixedGUID(2), 7, 0, "FooBar", 20),
			selFile(fixedGUID(3), 7, 0, "UefiShell", 18),
			host,
			selFile(fixedGUID(5), 7, 0, "Shell", 14),
			selRaw(fixedGUID(6), 1, 11),
		}, 1200, false)},
		{Pad: make([]byte, 16), FV: volume(0xF, []*hu.File{
			selFile(fixedGUID(7), 7, 0, "PreSetupPost", 0),
			selFile(fixedGUID(8), 7, 0, "FooBar", 9),
			selFile(fixedGUID(9), 9, 0, "BarFoo", 15),
		}, 500, false)},
	}}}
}

// selPatterns: the deterministic patterns.  With g(n) the GUID text of file n.
func selPatterns() []string {
	g := func(n byte) string { return GUIDText(fixedGUID(n)) }
	return []string{
		"Foo", "shell", "Fo", "ooBa", "Setup", g(2), strings.ToLower(g(3)), g(1)[:23], g(1)[9:], // no operator at all: anchored at both ends
		"Foo|Shell", "Shell|Foo", "shell|FOO", "Foo|Zed", "Zed|Shell", "Zed|Foo", "Shell|Zed",
		"Foo|Setup|Shell", "Zed|Setup|Nix", "Fo|ell", "Bar|Uefi",
		g(1) + "|Shell", "Foo|" + g(5), g(1)[:8] + "|Zed", "Zed|" + g(5)[24:], g(2)[:13] + "|" + g(3)[9:], strings.ToLower(g(2)) + "|zed",
		"(Foo|Shell)", "(?:Foo|Shell)", "(Foo)|(Shell)", "Fo(o|x)|She(ll|xx)", "Foo(Bar)?", "(Uefi)?Shell",
		"Fo.", "Fo[a-z]", "[FB]oo", "Fo+", "F.o|Sh.ll", "Foo.*", ".*Shell", ".*Foo.*", "Shell.+", "[^F]ooBar|Zed",
		"^Foo$", "^Foo$|^Shell$", "^Foo|Shell$", "Foo$|^Shell", `\AFoo\z|Zed`,
		`[0-9A-F]{8}-1514-.*`, g(1)[:9] + ".*|Zed", ".*" + g(5)[23:] + "|Zed", g(6)[:35] + ".",
	}
}

// SelCases: every deterministic pattern with the commands that select by FindFilePredicate (remove,
// remove_pad, replace_pe32, and the read-only ones in front of a removal) and — for a part of them —
// with the insertions (FindFileFVPredicate).
func SelCases() []core.Case {
	var cs []core.Case
	newA := selFile(fixedGUID(0x17), 7, 0, "NewA", 16).Ser()
	pe := append([]byte("MZ"), 9, 8, 7, 6, 5, 4, 3)
	img := selImage(0x0B)
	for i, p := range selPatterns() {
		sel := ReSel(p)
		seqs := [][]Op{
			{{Kind: "rm", Sel: sel}},
			{{Kind: "rp", Sel: sel}},
			{{Kind: "pe", Sel: sel, Blob: pe}},
			{{Kind: "find", Sel: sel}, {Kind: "cat", Sel: sel}, {Kind: "dump", Sel: sel}, {Kind: "rm", Sel: sel}},
			{{Kind: "if", Where: []string{"after", "before", "replace"}[i%3], Sel: sel, Blob: newA}},
		}
		if i%4 == 0 {
			seqs = append(seqs, []Op{{Kind: "rm", Sel: sel}, {Kind: "save"}, {Kind: "if", Where: "end", Sel: sel, Blob: newA}})
		}
		for _, ops := range seqs {
			cs = append(cs, CaseOf("sel-fixed", img, append(append([]Op{}, ops...), Op{Kind: "save"})))
		}
	}
	// the same selection inside a nested volume that a file of another type holds
	other := selImage(0x02)
	for _, p := range []string{"Foo|Shell", "Setup|Zed", "XFoo.|Zed", "Zed|ShellEx"} {
		for _, k := range []string{"rm", "rp"} {
			cs = append(cs, CaseOf("sel-fixed", other, []Op{{Kind: k, Sel: ReSel(p)}, {Kind: "save"}}))
		}
		cs = append(cs, CaseOf("sel-fixed", other, []Op{{Kind: "if", Where: "after", Sel: ReSel(p), Blob: newA}, {Kind: "save"}}))
	}
	return append(cs, rdeCases()...)
}

// rdeImage: the volume that holds the DXE core — top level, or nested in a file of type hostType —
// with the name family, a PEIM (removed = replaced by a pad file) and a nested volume of its own.
func rdeImage(hostType uint8) *hu.Img {
	dxeCore := selFile(fixedGUID(1), 5, 0, "DxeCore", 24)
	peim := selFile(fixedGUID(6), 6, 0, "FooPei", 10)
	inner := volume(0, []*hu.File{selFile(fixedGUID(0xA), 7, 0, "Shell", 16), selFile(fixedGUID(0xB), 7, 0, "Foo", 12)}, 80, true)
	dxeFiles := []*hu.File{
		dxeCore,
		selFile(fixedGUID(2), 7, 0, "Foo", 20),
		selFile(fixedGUID(3), 7, 0, "FooBar", 18),
		peim,
		selFile(fixedGUID(4), 7, 0, "UefiShell", 14),
		HostFile(fixedGUID(5), 0x0B, "Wrap", "vn", inner),
		selFile(fixedGUID(7), 7, 0, "XSetupY", 9),
		selFile(fixedGUID(8), 7, 0, "Shell", 11),
		selRaw(fixedGUID(9), 1, 13),
	}
	other := volume(0xF, []*hu.File{selFile(fixedGUID(0xC), 7, 0, "FooBar", 0), selFile(fixedGUID(0xD), 7, 0, "Setup", 8)}, 300, false)
	if hostType == 0 {
		return &hu.Img{Bios: &hu.Bios{Items: []hu.Item{{FV: volume(0xE, dxeFiles, 900, false)}, {Pad: make([]byte, 8), FV: other}}}}
	}
	nested := volume(0xD, dxeFiles, 200, true)
	return &hu.Img{Bios: &hu.Bios{Items: []hu.Item{
		{FV: volume(0xE, []*hu.File{selFile(fixedGUID(0x11), 7, 0, "Outer", 8), HostFile(fixedGUID(0x12), hostType, "DxeHost", "nv", nested)}, 900, false)},
		{Pad: make([]byte, 8), FV: other}}}}
}

// rdeCases: remove_dxes_except with lists whose lines are prefixes / suffixes / infixes of other names.
func rdeCases() []core.Case {
	g := func(n byte) string { return GUIDText(fixedGUID(n)) }
	lists := []string{
		"DxeCore\nFoo\nShell\n",
		"Foo\nDxeCore\nShell",
		"Foo\nShell\nDxeCore",
		"# kept\n\nDxeCore   the core\nSetup\nFoo  a comment\n",
		"Zed\nSetup\nNix\n",
		"Foo\nSetup\nShell\n",
		"dxecore\nFOO\nshell\n",
		g(1) + "\nShell\n",
		g(1)[:8] + "\nDxeCore\n" + g(4)[24:] + "\n",
		"Fo.\nDxe.*\n",
		"Foo|Shell\nDxeCore\n",
		"DxeCore\nWrap\nFoo.+\n",
		"Shell\n",
		"Uefi\nBar\nCore\n",
	}
	var cs []core.Case
	for _, ht := range []uint8{0, 0x0B, 0x02} {
		img := rdeImage(ht)
		for i, l := range lists {
			if ht != 0 && i%3 != 0 {
				continue
			}
			ops := []Op{{Kind: "rde", Sel: l}, {Kind: "save"}}
			if i%5 == 1 {
				ops = append([]Op{{Kind: "find", Sel: "Foo"}}, ops...)
			}
			cs = append(cs, CaseOf("sel-rde", img, ops))
		}
	}
	return cs
}

// ---------------------------------------------------------------- random cases

type selGen struct {
	r     *rand.Rand
	guids [][]byte
}

var selWords = []string{"Foo", "Shell", "Setup", "Dxe", "Bar", "Core", "Ks", "Net"}
var selOdd = []string{"a.b[c]", "Boot Mgr", "PEI-1", "Kſ", "x|y", "(z)", "Foo|Shell", "x"}

func (g *selGen) word() string { return selWords[g.r.Intn(len(selWords))] }

func (g *selGen) name() string {
	w := g.word()
	switch g.r.Intn(11) {
	case 0, 1, 2:
		return w
	case 3:
		return w + g.word()
	case 4:
		return "Uefi" + w
	case 5:
		return w + "X"
	case 6:
		return "X" + w + "Y"
	case 7:
		return strings.ToLower(w)
	case 8:
		return strings.ToUpper(w) + g.word()
	case 9:
		return g.word() + w + g.word()
	}
	return selOdd[g.r.Intn(len(selOdd))]
}

// guid: now and then one that shares its first field or its last field with an earlier one (the text
// forms then share a prefix of 8 or a suffix of 12 characters), or an earlier one itself.
func (g *selGen) guid() []byte {
	b := make([]byte, 16)
	g.r.Read(b)
	if len(g.guids) > 0 {
		old := g.guids[g.r.Intn(len(g.guids))]
		switch g.r.Intn(8) {
		case 0:
			copy(b[:4], old[:4])
		case 1:
			copy(b[10:], old[10:])
		case 2:
			copy(b, old)
		}
	}
	g.guids = append(g.guids, b)
	return b
}

func (g *selGen) file() *hu.File {
	if g.r.Intn(8) == 0 {
		return selRaw(g.guid(), []uint8{1, 6}[g.r.Intn(2)], 4+g.r.Intn(30))
	}
	name := g.name()
	if g.r.Intn(9) == 0 {
		name = ""
	}
	pe := 0
	if g.r.Intn(2) == 0 {
		pe = 4 + g.r.Intn(30)
	}
	typ := []uint8{7, 7, 7, 9, 2, 4}[g.r.Intn(6)]
	f := selFile(g.guid(), typ, []uint8{0, 0, 0x40, 0x08}[g.r.Intn(4)], name, pe)
	if g.r.Intn(6) == 0 { // a second name
		f.Secs = append(f.Secs, &hu.Sec{Kind: "su", Name: []rune(g.name())})
	}
	return f
}

func (g *selGen) files(n int, depth int) []*hu.File {
	var out []*hu.File
	for i := 0; i < n; i++ {
		if depth > 0 && g.r.Intn(5) == 0 {
			inner := volume(byte(g.r.Intn(2))*0xD, g.files(1+g.r.Intn(4), depth-1), 40+8*g.r.Intn(30), true)
			name := ""
			if g.r.Intn(2) == 0 {
				name = g.name()
			}
			out = append(out, HostFile(g.guid(), HostTypes[g.r.Intn(len(HostTypes))], name, []string{"v", "nv", "vn", "rvn", "nvr"}[g.r.Intn(5)], inner))
			continue
		}
		out = append(out, g.file())
	}
	return out
}

func (g *selGen) image() *hu.Img {
	g.guids = nil
	b := &hu.Bios{}
	nv := 1 + g.r.Intn(3)
	for i := 0; i < nv; i++ {
		var pad []byte
		if i > 0 && g.r.Intn(2) == 0 {
			pad = make([]byte, 8*(1+g.r.Intn(4)))
		}
		fs := g.files(2+g.r.Intn(5), 2)
		if i == 0 && g.r.Intn(3) == 0 { // a DXE core (for remove_dxes_except): one sectioned file of the first volume
			for _, f := range fs {
				if f.Kind == "fs" && f.Type == 7 {
					f.Type = 5
					break
				}
			}
		}
		b.Items = append(b.Items, hu.Item{Pad: pad, FV: volume(0xE+byte(i), fs, 300+g.r.Intn(900), false)})
	}
	return &hu.Img{Bios: b}
}

// fragment: a proper prefix, suffix or infix of the text (the text itself if it is too short).
func (g *selGen) fragment(t string, kind int) string {
	rs := []rune(t)
	n := len(rs)
	if n < 2 {
		return t
	}
	if n == 36 && g.r.Intn(2) == 0 { // a GUID text: cut at a field boundary
		switch kind {
		case 0:
			return string(rs[:[]int{8, 9, 13, 18}[g.r.Intn(4)]])
		case 1:
			return string(rs[[]int{24, 23, 19}[g.r.Intn(3)]:])
		}
	}
	switch kind {
	case 0:
		return string(rs[:1+g.r.Intn(n-1)])
	case 1:
		return string(rs[1+g.r.Intn(n-1):])
	}
	if n < 3 {
		return string(rs[:1])
	}
	i := 1 + g.r.Intn(n-2)
	return string(rs[i : i+1+g.r.Intn(n-1-i)])
}

func flipCase(s string) string {
	if strings.ToUpper(s) != s {
		return strings.ToUpper(s)
	}
	return strings.ToLower(s)
}

// candidate builds one pattern over the texts of the image.
func (g *selGen) candidate(texts []string) string {
	q := regexp.QuoteMeta
	t := func() string { return texts[g.r.Intn(len(texts))] }
	full := func() string {
		s := t()
		if g.r.Intn(4) == 0 {
			s = flipCase(s)
		}
		return q(s)
	}
	absent := func() string { return []string{"Zed", "NoSuchName", "Q", "0F0F"}[g.r.Intn(4)] }
	other := func() string {
		if g.r.Intn(3) == 0 {
			return absent()
		}
		return full()
	}
	switch k := g.r.Intn(108); {
	case k >= 100: // no operator at all: a text, or a fragment of one (names nothing unless it is a text itself)
		if g.r.Intn(2) == 0 {
			return full()
		}
		return q(g.fragment(t(), g.r.Intn(3)))
	case k < 45: // a top-level alternation of 2–3 alternatives, one of them a fragment
		n := 2 + g.r.Intn(2)
		alts := make([]string, n)
		for i := range alts {
			alts[i] = other()
		}
		switch g.r.Intn(4) {
		case 0:
			alts[0] = q(g.fragment(t(), 0))
		case 1:
			alts[n-1] = q(g.fragment(t(), 1))
		case 2:
			alts[0] = q(g.fragment(t(), 0))
			alts[n-1] = q(g.fragment(t(), 1))
		default:
			alts[g.r.Intn(n)] = q(g.fragment(t(), g.r.Intn(3)))
		}
		return strings.Join(alts, "|")
	case k < 60: // one text with one position generalised
		rs := []rune(t())
		i := g.r.Intn(len(rs))
		c := rs[i]
		var mid string
		switch g.r.Intn(5) {
		case 0:
			mid = "."
		case 1:
			mid = "[" + q(string(c)) + "Z]"
		case 2:
			mid = "[^" + q(string(c+1)) + "]"
		case 3:
			mid = q(string(c)) + "+"
		default:
			mid = "(" + q(string(c)) + "|#)"
		}
		return q(string(rs[:i])) + mid + q(string(rs[i+1:]))
	case k < 70: // a fragment and the rest left open
		f := q(g.fragment(t(), g.r.Intn(3)))
		switch g.r.Intn(4) {
		case 0:
			return f + ".*"
		case 1:
			return ".*" + f
		case 2:
			return ".*" + f + ".*"
		}
		return f + ".+|" + absent()
	case k < 80: // anchors inside
		a, b := q(g.fragment(t(), 0)), q(g.fragment(t(), 1))
		switch g.r.Intn(5) {
		case 0:
			return "^" + full() + "$"
		case 1:
			return "^" + a + "|" + b + "$"
		case 2:
			return a + "$|^" + b
		case 3:
			return "^" + a + "$|^" + full() + "$"
		}
		return full() + "$|" + b
	case k < 90: // groups
		a, b := q(g.fragment(t(), 0)), q(g.fragment(t(), 1))
		switch g.r.Intn(5) {
		case 0:
			return "(" + a + "|" + other() + ")"
		case 1:
			return "(?:" + other() + "|" + b + ")"
		case 2:
			return "(" + a + ")|(" + other() + ")"
		case 3:
			return a + "(" + absent() + ")?|" + other()
		}
		return "(" + a + "|" + absent() + ")|" + b
	}
	// a GUID and a name mixed
	var guids, names []string
	for _, s := range texts {
		if len(s) == 36 && strings.Count(s, "-") == 4 {
			guids = append(guids, s)
		} else {
			names = append(names, s)
		}
	}
	if len(guids) == 0 || len(names) == 0 {
		return full() + "|" + absent()
	}
	gt, nt := guids[g.r.Intn(len(guids))], names[g.r.Intn(len(names))]
	switch g.r.Intn(4) {
	case 0:
		return q(g.fragment(gt, 0)) + "|" + q(nt)
	case 1:
		return q(nt) + "|" + q(g.fragment(gt, 1))
	case 2:
		return q(g.fragment(nt, 0)) + "|" + q(gt)
	}
	return strings.ToLower(q(gt)) + "|" + q(g.fragment(nt, 1))
}

var erasedText = GUIDText(erasedGUID[:])

// pattern: a candidate that compiles, does not name the empty text and (mostly) not the GUID of pad
// files; want >= 0 asks for a pattern that names exactly that many nodes (a few attempts).
func (g *selGen) pattern(img *AImage, texts []string, want int, volumes bool) string {
	var last string
	for try := 0; try < 12; try++ {
		p := g.candidate(texts)
		if !ValidPattern(p) || PatternNames(p, "") || (PatternNames(p, erasedText) && g.r.Intn(10) > 0) {
			continue
		}
		last = p
		if want < 0 || len(img.matches(ReSel(p), volumes, -1)) == want {
			return p
		}
	}
	if last == "" {
		return "Zed|NoSuchName"
	}
	return last
}

func selTexts(img *AImage) []string {
	var out []string
	img.walk(func(v *AVol, _ []*AVol) {
		for _, f := range v.Files {
			if f.Pad {
				continue
			}
			out = append(out, GUIDText(f.GUID[:]))
			for _, n := range f.Names {
				if n != "" {
					out = append(out, n, n) // names twice: they are the more interesting half
				}
			}
		}
	})
	return out
}

func (g *selGen) ops(abs *AImage, n int) []Op {
	texts := selTexts(abs)
	if len(texts) == 0 {
		texts = []string{"Foo"}
	}
	wants := func() int { // for the single-target commands: mostly one node, now and then none
		if g.r.Intn(4) == 0 {
			return 0
		}
		return 1
	}
	var ops []Op
	for i := 0; i < n; i++ {
		if i > 0 { // the later commands are aimed at what the earlier ones leave (abs belongs to the generator)
			abs.Apply(ops[len(ops)-1])
			if t := selTexts(abs); len(t) > 0 {
				texts = t
			}
		}
		switch k := g.r.Intn(100); {
		case k < 30:
			ops = append(ops, Op{Kind: "rm", Sel: ReSel(g.pattern(abs, texts, -1, false))})
		case k < 50:
			ops = append(ops, Op{Kind: "rp", Sel: ReSel(g.pattern(abs, texts, -1, false))})
		case k < 64:
			ops = append(ops, Op{Kind: "pe", Sel: ReSel(g.pattern(abs, texts, wants(), false)), Blob: append([]byte("MZ"), byte(i), 2, 3, 4, 5, 6)})
		case k < 88: // (insert pad_file cannot be built in a fresh process: the erase polarity is not known yet)
			blob := selFile(g.guid(), 7, 0, g.name(), 4+g.r.Intn(20)).Ser()
			ops = append(ops, Op{Kind: "if", Where: []string{"front", "end", "after", "before", "replace"}[g.r.Intn(5)],
				Sel: ReSel(g.pattern(abs, texts, wants(), true)), Blob: blob})
		case k < 91:
			ops = append(ops, Op{Kind: "save"})
		case k < 97 && len(abs.matches("", false, 5)) == 1: // remove_dxes_except: a list of 1–4 lines
			q := regexp.QuoteMeta
			var lines []string
			for j := 1 + g.r.Intn(4); j > 0; j-- {
				t := texts[g.r.Intn(len(texts))]
				switch g.r.Intn(5) {
				case 0:
					t = g.fragment(t, g.r.Intn(3))
				case 1:
					t = flipCase(t)
				case 2:
					t = "Zed"
				}
				if strings.Contains(t, " ") || t == "" {
					continue // only the first word of a line counts
				}
				lines = append(lines, q(t))
			}
			if g.r.Intn(3) > 0 {
				c := abs.matches("", false, 5)[0]
				lines = append(lines, q(GUIDText(c.vol.Files[c.idx].GUID[:])))
				g.r.Shuffle(len(lines), func(a, b int) { lines[a], lines[b] = lines[b], lines[a] })
			}
			if len(lines) == 0 {
				lines = []string{"Zed"}
			}
			ops = append(ops, Op{Kind: "rde", Sel: strings.Join(lines, "\n") + "\n"})
		default:
			ro := []string{"find", "cat", "dump"}[g.r.Intn(3)]
			w := -1
			if ro == "dump" {
				w = 1
			}
			ops = append(ops, Op{Kind: ro, Sel: ReSel(g.pattern(abs, texts, w, false))})
		}
	}
	return append(ops, Op{Kind: "save"})
}

// SelRandomCases: n random images of name / GUID families with 1–3 commands whose selectors are
// regular expressions built from the texts of the image.
func SelRandomCases(r *rand.Rand, n int) []core.Case {
	g := &selGen{r: r}
	var cs []core.Case
	for len(cs) < n {
		img := g.image()
		in := img.Ser()
		rd, err := ReadImage(in)
		if err != nil {
			panic("uefiedit: generated image unreadable: " + err.Error())
		}
		cs = append(cs, CaseOf("sel-random", img, g.ops(Abstract(rd), 1+g.r.Intn(3))))
	}
	return cs
}
