package uefiedit

// selre.go — selectors that are regular expressions (C03, gap closing round 2).
//
// `utk` compiles the argument of find / remove / remove_pad / replace_pe32 / cat / dump (and every
// line of the remove_dxes_except list) as a regular expression that has to match the WHOLE GUID text
// or the WHOLE UI name, case-insensitively.  The older case streams only ever passed literal names
// (regexp.QuoteMeta): a defect in how the pattern is anchored was invisible (seeded defect c03-4:
// `^(?i)A|B$` instead of `^(?i)(A|B)$` — the anchors bind to the first and the last alternative only).
//
// A selector whose first code point is U+0000 is a regular expression (the rest of the string); NUL
// cannot occur in a command-line argument, so no literal selector is lost.  The wire form of an
// operation (ops.go) carries it unchanged.
//
// What a pattern names is decided HERE, independently of fiano's anchoring: the pattern names a text
// iff the leftmost-longest match of `(?i:pattern)` is the whole text (no anchors are added at all;
// cross-checked against `\A(?:(?i:pattern))\z`).  The abstract model (abs.go) selects with it.  The
// Lean model has no regular-expression engine: it receives the *match set* of the pattern over every
// text it could meet during the run (the universe: GUID texts, volume names and UI names of the input
// image and of every file handed to an operation, and the GUID of a pad file), see
// lean/FianoModel/Uefi/EditDrvSel.lean.

import (
	"fmt"
	"regexp"
	"strings"
)

const reMark = "\x00"

// ReSel makes the selector that is the regular expression pattern.
func ReSel(pattern string) string { return reMark + pattern }

// SelPattern returns the pattern of a selector that is a regular expression.
func SelPattern(sel string) (string, bool) {
	if strings.HasPrefix(sel, reMark) {
		return sel[len(reMark):], true
	}
	return "", false
}

// Pattern is the argument `utk` gets for the selector of the operation.
func (o Op) Pattern() string {
	if p, ok := SelPattern(o.Sel); ok {
		return p
	}
	return regexp.QuoteMeta(o.Sel)
}

type fullRe struct {
	longest  *regexp.Regexp // (?i:p), leftmost-longest
	anchored *regexp.Regexp // \A(?:(?i:p))\z
}

var fullCache = map[string]*fullRe{}

// compileFull returns nil for a pattern that is not a regular expression by itself.
func compileFull(p string) *fullRe {
	if f, ok := fullCache[p]; ok {
		return f
	}
	var f *fullRe
	if _, err := regexp.Compile(p); err == nil {
		l, err1 := regexp.Compile("(?i:" + p + ")")
		a, err2 := regexp.Compile(`\A(?:(?i:` + p + `))\z`)
		if err1 == nil && err2 == nil {
			l.Longest()
			f = &fullRe{longest: l, anchored: a}
		}
	}
	if len(fullCache) > 4096 {
		fullCache = map[string]*fullRe{}
	}
	fullCache[p] = f
	return f
}

// names: the whole text is a match of the pattern.
func (f *fullRe) names(text string) bool {
	loc := f.longest.FindStringIndex(text)
	full := loc != nil && loc[0] == 0 && loc[1] == len(text)
	if full != f.anchored.MatchString(text) {
		panic("uefiedit: the two definitions of a full match disagree on " + f.longest.String())
	}
	return full
}

// ValidPattern reports whether the pattern compiles by itself.
func ValidPattern(p string) bool { return compileFull(p) != nil }

// PatternNames reports whether the (valid) pattern names the text.
func PatternNames(p, text string) bool {
	f := compileFull(p)
	return f != nil && f.names(text)
}

// selHits: does the selector name the text (a GUID text, a volume name or a UI name)?
func selHits(sel, text string) bool {
	if p, ok := SelPattern(sel); ok {
		return PatternNames(p, text)
	}
	return strings.EqualFold(sel, text)
}

// selAbstains: the abstract model has no opinion on a pattern that is not a regular expression by
// itself (what `utk` does with `a)|(b` is not a question of selection) and on a pattern that names the
// empty text: fiano compares the pattern with Section.Name of EVERY section, which is "" for the
// sections that are not UI sections, so such a pattern selects every file that has any other section.
// The property speaks of GUIDs and UI names; the generators do not emit such patterns.
func selAbstains(sel string) bool {
	p, ok := SelPattern(sel)
	if !ok {
		return false
	}
	f := compileFull(p)
	return f == nil || f.names("")
}

// ---------------------------------------------------------------- the model's view

// usesFvPredicate: the commands built on FindFileFVPredicate (volumes can be named too).
func usesFvPredicate(kind string) bool { return kind == "if" || kind == "ip" || kind == "repack" }

// fvCodeNames: what FindFileFVPredicate makes of the pattern today: "^(?i)" + r + "$", without a group
// around r (finding F-c03g-1: with a top-level `|` the anchors bind to the first and the last
// alternative only).  Used for ONE purpose: to recognise the cases in which that finding changes the
// selection, so that they are reported under its signature and not compared with the Lean model.
func fvCodeNames(p, text string) bool {
	re, err := regexp.Compile("^(?i)" + p + "$")
	return err == nil && re.MatchString(text)
}

// selUniverse lists every text a selector can be compared with during the run.
func selUniverse(in []byte, ops []Op) []string {
	seen := map[string]bool{}
	var out []string
	add := func(s string) {
		if !seen[s] {
			seen[s] = true
			out = append(out, s)
		}
	}
	var vol func(v *AVol)
	file := func(f *AFile) {
		add(GUIDText(f.GUID[:]))
		for _, n := range f.Names {
			add(n)
		}
		for _, p := range f.Parts {
			if p.Vol != nil {
				vol(p.Vol)
			}
		}
	}
	vol = func(v *AVol) {
		add(GUIDText(v.Name[:]))
		for _, f := range v.Files {
			file(f)
		}
	}
	add(GUIDText(erasedGUID[:]))
	if r, err := ReadImage(in); err == nil {
		for _, v := range Abstract(r).Vols {
			vol(v)
		}
	}
	for _, o := range ops {
		if len(o.Blob) >= 16 && (o.Kind == "if" || o.Kind == "dxe") {
			add(GUIDText(o.Blob[:16]))
			if f := AbstractFile(o.Blob); f != nil {
				file(f)
			}
		}
	}
	return out
}

// FvFindingApplies: an operation built on FindFileFVPredicate carries a pattern whose selection over
// the universe differs between the full-match meaning and today's ungrouped anchoring.
func FvFindingApplies(in []byte, ops []Op) bool {
	var uni []string
	for _, o := range ops {
		p, ok := SelPattern(o.Sel)
		if !ok || !usesFvPredicate(o.Kind) || !ValidPattern(p) {
			continue
		}
		if uni == nil {
			uni = selUniverse(in, ops)
		}
		for _, t := range uni {
			if PatternNames(p, t) != fvCodeNames(p, t) {
				return true
			}
		}
	}
	return false
}

func hasPatterns(ops []Op) bool {
	for _, o := range ops {
		if _, ok := SelPattern(o.Sel); ok {
			return true
		}
	}
	return false
}

// PatternsModelled: the Lean model can follow the run — every pattern compiles (it has no notion of
// an invalid pattern) and finding F-c03g-1 does not change a selection.
func PatternsModelled(in []byte, ops []Op) bool {
	if !hasPatterns(ops) {
		return true
	}
	for _, o := range ops {
		if p, ok := SelPattern(o.Sel); ok && !ValidPattern(p) {
			return false
		}
	}
	return !FvFindingApplies(in, ops)
}

// ModelOpsText is the operation sequence as the Lean driver gets it: patterns replaced by their match
// sets over the universe ("=" + texts as code points joined by "+"; "=" alone is the empty set).
func ModelOpsText(in []byte, ops []Op) string {
	if !hasPatterns(ops) {
		return OpsText(ops)
	}
	uni := selUniverse(in, ops)
	var ws []string
	for _, o := range ops {
		p, ok := SelPattern(o.Sel)
		if !ok {
			ws = append(ws, o.Word())
			continue
		}
		var set []string
		for _, t := range uni {
			if PatternNames(p, t) {
				set = append(set, cps(t))
			}
		}
		if PatternNames(p, "") { // every section that is not a UI section has the name ""
			set = append(set, "-")
		}
		ws = append(ws, modelWord(o, "="+strings.Join(set, "+")))
	}
	return strings.Join(ws, " ")
}

// modelWord is Op.Word with the selector field given (the kinds that carry a selector).
func modelWord(o Op, sel string) string {
	switch o.Kind {
	case "if":
		return fmt.Sprintf("if:%s:%s:%s", o.Where, sel, hx(o.Blob))
	case "ip":
		return fmt.Sprintf("ip:%s:%s:%d", o.Where, sel, o.Size)
	case "pe":
		return fmt.Sprintf("pe:%s:%s", sel, hx(o.Blob))
	}
	return o.Kind + ":" + sel // rm rp find cat dump repack
}
