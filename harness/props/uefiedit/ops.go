package uefiedit

// ops.go — the edit / query operations of a case: their one-word wire form (the syntax of
// lean/FianoModel/Uefi/EditDrv.lean) and their `utk` command-line form.

import (
	"encoding/hex"
	"fmt"
	"regexp"
	"strconv"
	"strings"
)

// Op is one visitor on the command line.
//
//	if  insert a file (Where = front|end|after|before|replace)      Sel, Blob
//	ip  insert pad_file <Size> <Where> <Sel>                        Sel, Size
//	dxe insert_dxe                                                  Blob
//	rm / rp   remove / remove_pad                                   Sel
//	pe  replace_pe32                                                Sel, Blob
//	save
//	find / cat / dump   (read-only, Sel)      json / table / count / validate / comment (read-only)
//	repack (Sel)   createfv (Off, Size, Blob = 16-byte name)   tighten   nvcompact     — not modelled in Lean
//	nvinv (Sel = variable name: invalidate_nvar)   nvkeep (Sel: invalidate_nvar_except a list holding that name)
type Op struct {
	Kind  string
	Where string
	Sel   string
	Blob  []byte
	Size  int
	Off   int
}

var readOnlyKinds = map[string]bool{"find": true, "cat": true, "dump": true, "json": true, "table": true,
	"count": true, "validate": true, "comment": true}

var unmodelledKinds = map[string]bool{"repack": true, "createfv": true, "tighten": true, "nvcompact": true,
	"nvinv": true, "nvkeep": true}

func (o Op) ReadOnly() bool  { return readOnlyKinds[o.Kind] }
func (o Op) Modelled() bool  { return !unmodelledKinds[o.Kind] }
func (o Op) IsSave() bool    { return o.Kind == "save" }
func (o Op) Selects() bool   { return o.Sel != "" || o.Kind == "dxe" }

func cps(s string) string {
	if s == "" {
		return "-"
	}
	var ps []string
	for _, r := range s {
		ps = append(ps, strconv.Itoa(int(r)))
	}
	return strings.Join(ps, ".")
}

func unCps(s string) string {
	if s == "-" {
		return ""
	}
	var b strings.Builder
	for _, p := range strings.Split(s, ".") {
		n, err := strconv.Atoi(p)
		if err != nil {
			panic("uefiedit: bad selector " + s)
		}
		b.WriteRune(rune(n))
	}
	return b.String()
}

func hx(b []byte) string {
	if len(b) == 0 {
		return "-"
	}
	return hex.EncodeToString(b)
}

func unhx(s string) []byte {
	if s == "-" {
		return nil
	}
	b, err := hex.DecodeString(s)
	if err != nil {
		panic("uefiedit: bad hex in op")
	}
	return b
}

// Word is the wire form of the operation.
func (o Op) Word() string {
	switch o.Kind {
	case "if":
		return fmt.Sprintf("if:%s:%s:%s", o.Where, cps(o.Sel), hx(o.Blob))
	case "ip":
		return fmt.Sprintf("ip:%s:%s:%d", o.Where, cps(o.Sel), o.Size)
	case "dxe":
		return "dxe:" + hx(o.Blob)
	case "rm", "rp", "find", "cat", "dump", "repack", "nvinv", "nvkeep":
		return o.Kind + ":" + cps(o.Sel)
	case "pe":
		return fmt.Sprintf("pe:%s:%s", cps(o.Sel), hx(o.Blob))
	case "createfv":
		return fmt.Sprintf("createfv:%d:%d:%s", o.Off, o.Size, hx(o.Blob))
	case "rde": // remove_dxes_except: Sel holds the lines of the list file (selrde.go)
		return "rde:" + cps(o.Sel)
	}
	return o.Kind
}

func ParseOp(w string) Op {
	fs := strings.Split(w, ":")
	o := Op{Kind: fs[0]}
	num := func(s string) int {
		n, err := strconv.Atoi(s)
		if err != nil {
			panic("uefiedit: bad number in op " + w)
		}
		return n
	}
	switch o.Kind {
	case "if":
		o.Where, o.Sel, o.Blob = fs[1], unCps(fs[2]), unhx(fs[3])
	case "ip":
		o.Where, o.Sel, o.Size = fs[1], unCps(fs[2]), num(fs[3])
	case "dxe":
		o.Blob = unhx(fs[1])
	case "rm", "rp", "find", "cat", "dump", "repack", "nvinv", "nvkeep":
		o.Sel = unCps(fs[1])
	case "pe":
		o.Sel, o.Blob = unCps(fs[1]), unhx(fs[2])
	case "createfv":
		o.Off, o.Size, o.Blob = num(fs[1]), num(fs[2]), unhx(fs[3])
	case "rde":
		o.Sel = unCps(fs[1])
	case "save", "json", "table", "count", "validate", "comment", "tighten", "nvcompact":
	default:
		panic("uefiedit: unknown op " + w)
	}
	return o
}

func OpsText(ops []Op) string {
	var ws []string
	for _, o := range ops {
		ws = append(ws, o.Word())
	}
	return strings.Join(ws, " ")
}

func ParseOps(s string) []Op {
	var out []Op
	for _, w := range strings.Fields(s) {
		out = append(out, ParseOp(w))
	}
	return out
}

// AllModelled reports whether the Lean model knows every operation of the sequence.
func AllModelled(ops []Op) bool {
	for _, o := range ops {
		if !o.Modelled() {
			return false
		}
	}
	return true
}

// GUIDText is the mixed-endian text form of a GUID (pkg/guid String), written here from the EFI
// convention: the first three fields are little endian.
func GUIDText(g []byte) string {
	return fmt.Sprintf("%02X%02X%02X%02X-%02X%02X-%02X%02X-%02X%02X-%02X%02X%02X%02X%02X%02X",
		g[3], g[2], g[1], g[0], g[5], g[4], g[7], g[6], g[8], g[9], g[10], g[11], g[12], g[13], g[14], g[15])
}

// cliArgs renders the operation as `utk` arguments.  files maps a blob / output to a path in the
// scratch directory; step is the position of the operation.  The deprecated and the generic spelling
// of an insertion build the same visitor; which one is used depends on the blob only, so that a
// case always replays the same way.
func (o Op) cliArgs(step int, dir string, write func(name string, data []byte) string) []string {
	re := regexp.QuoteMeta(o.Sel)
	if p, ok := SelPattern(o.Sel); ok {
		re = p // the selector is a regular expression itself (selre.go)
	}
	switch o.Kind {
	case "if":
		path := write(fmt.Sprintf("new-%d.ffs", step), o.Blob)
		if o.Where == "replace" {
			return []string{"replace_ffs", re, path}
		}
		if len(o.Blob)%3 == 0 {
			return []string{"insert_" + o.Where, re, path}
		}
		return []string{"insert", "file", path, o.Where, re}
	case "ip":
		return []string{"insert", "pad_file", strconv.Itoa(o.Size), o.Where, re}
	case "dxe":
		return []string{"insert_dxe", write(fmt.Sprintf("new-%d.ffs", step), o.Blob)}
	case "rm":
		return []string{"remove", re}
	case "rp":
		return []string{"remove_pad", re}
	case "pe":
		return []string{"replace_pe32", re, write(fmt.Sprintf("pe32-%d.efi", step), o.Blob)}
	case "save":
		return []string{"save", fmt.Sprintf("%s/out-%d.rom", dir, step)}
	case "find", "cat":
		return []string{o.Kind, re}
	case "dump":
		return []string{"dump", re, fmt.Sprintf("%s/dump-%d.bin", dir, step)}
	case "json", "table", "count", "validate":
		return []string{o.Kind}
	case "comment":
		return []string{"comment", "step"}
	case "repack":
		return []string{"repack", re}
	case "createfv":
		return []string{"create-fv", strconv.Itoa(o.Off), strconv.Itoa(o.Size), GUIDText(o.Blob)}
	case "rde":
		return []string{"remove_dxes_except", write(fmt.Sprintf("dxes-%d.txt", step), []byte(o.Sel))}
	case "tighten":
		return []string{"tighten_me"}
	case "nvcompact":
		return []string{"nvram-compact"}
	case "nvinv":
		return []string{"invalidate_nvar", re}
	case "nvkeep":
		return []string{"invalidate_nvar_except", write(fmt.Sprintf("keep-%d.txt", step), []byte("# variables to keep\n"+re+"\n"))}
	}
	panic("uefiedit: no CLI form for " + o.Kind)
}
