package uefiedit

// gen.go — generators: images that satisfy every rule of the independent reader (Valid.validImage)
// and lie in the reference grammar of the UEFI core model, and edit-operation sequences over them.
// Built on the shared image builder harness/props/uefi (exported API only).  Every random choice
// comes from the *rand.Rand handed in.

import (
	"math/rand"

	hu "verif/harness/props/uefi"
)

type ImgGen struct {
	R *rand.Rand
	// GUIDs handed out so far (re-used now and then: the same GUID in two volumes)
	guids [][]byte
}

var namePool = []string{"Shell", "shell", "DxeCore", "Setup", "SETUP", "Ks", "Kſ", "Ks", "Boot Mgr", "a.b[c]", "PEI-1", "x"}

func sum8(b []byte) uint8 {
	var s uint8
	for _, x := range b {
		s += x
	}
	return s
}

func (g *ImgGen) guid() []byte {
	if len(g.guids) > 0 && g.R.Intn(7) == 0 {
		return append([]byte{}, g.guids[g.R.Intn(len(g.guids))]...)
	}
	b := make([]byte, 16)
	g.R.Read(b)
	g.guids = append(g.guids, b)
	return append([]byte{}, b...)
}

// fixLeaf makes a verbatim file satisfy the file rules: 24-byte header, large bit clear, header and
// body checksums as the specification defines them.
func fixLeaf(f *hu.File) {
	f.Ext = false
	f.Attrs &^= 1
	f.CkH = hu.HeaderChecksum(f, 24+len(f.Body))
	f.CkF = 0xAA
	if f.Attrs&0x40 != 0 {
		f.CkF = 0 - sum8(f.Body)
	}
}

// File generates one file with data-alignment index alignIdx (0 = none).
func (g *ImgGen) File(budget, alignIdx int) *hu.File {
	hg := &hu.Gen{R: g.R, MaxAlign: 4, NoNested: true}
	f := hg.File(budget, alignIdx)
	f.GUID = g.guid()
	if f.Kind == "fl" {
		fixLeaf(f)
		return f
	}
	for _, s := range f.Secs {
		if s.Kind == "su" && g.R.Intn(2) == 0 {
			s.Name = []rune(namePool[g.R.Intn(len(namePool))])
		}
	}
	switch g.R.Intn(6) {
	case 0: // make sure PE32 sections and UI names are common
		body := append([]byte("MZ"), make([]byte, g.R.Intn(40))...)
		g.R.Read(body[2:])
		f.Secs = append(f.Secs, &hu.Sec{Kind: "sl", Type: 0x10, Body: body})
	case 1:
		f.Secs = append(f.Secs, &hu.Sec{Kind: "su", Name: []rune(namePool[g.R.Intn(len(namePool))])})
	}
	return f
}

// VolOpts shapes a generated volume.
type VolOpts struct {
	Budget   int  // rough size of the file area
	Nested   bool // the volume sits in a volume-image section (one power-of-two block entry)
	Depth    int  // how many more levels of nested volumes may be generated
	Free     int  // -1 = random; otherwise the free space after the last file (rounded up to the rules)
	MaxAlign int
	NFiles   int // -1 = random
}

func pow2Dividing(n int, cands []int) int {
	for _, c := range cands {
		if n%c == 0 {
			return c
		}
	}
	return 8
}

// FV generates an FFS volume.
func (g *ImgGen) FV(o VolOpts) *hu.FV {
	v := &hu.FV{ZV: make([]byte, 16), V3: g.R.Intn(4) == 0, Attrs: 0x0004FEFF, Rev: 2}
	if g.R.Intn(4) == 0 {
		g.R.Read(v.ZV)
	}
	if g.R.Intn(4) == 0 {
		v.Attrs = g.R.Uint32() | 0x800
	}
	nb := 1
	if !o.Nested && g.R.Intn(5) == 0 {
		nb = 2
	}
	v.Blocks = make([]hu.Block, nb)
	if g.R.Intn(2) == 0 {
		e := &hu.ExtHdr{FVName: make([]byte, 16)}
		g.R.Read(e.FVName)
		switch g.R.Intn(3) {
		case 0:
			e.Gap = hu.PadFile(24).Ser()[:24] // the extended header sits in the body of a leading pad file (EDK2 layout)
		case 1:
			e.Gap = make([]byte, g.R.Intn(20))
			g.R.Read(e.Gap)
		}
		e.Data = make([]byte, g.R.Intn(30))
		g.R.Read(e.Data)
		v.ExtHdr = e
	}
	n := o.NFiles
	if n < 0 {
		n = g.R.Intn(8)
		if g.R.Intn(10) == 0 {
			n = 0
		}
	}
	pre := 56 + 8*(nb+1)
	if e := v.ExtHdr; e != nil {
		pre = up(pre+len(e.Gap)+20+len(e.Data), 8)
	}
	off := pre
	place := func(f *hu.File) {
		if pad := hu.PlaceAligned(off, f.StoredAttrs()); pad != nil {
			v.Files = append(v.Files, pad)
			off = up(off, 8) + len(pad.Ser())
		} else if g.R.Intn(14) == 0 {
			pad := hu.PadFile(24 + 8*g.R.Intn(5)) // a pad file nobody needs
			if hu.PlaceAligned(up(off, 8)+len(pad.Ser()), f.StoredAttrs()) == nil {
				v.Files = append(v.Files, pad)
				off = up(off, 8) + len(pad.Ser())
			}
		}
		v.Files = append(v.Files, f)
		off = up(off, 8) + len(f.Ser())
	}
	for i := 0; i < n && off < pre+o.Budget; i++ {
		ai := 0
		if o.MaxAlign > 0 && g.R.Intn(3) == 0 {
			ai = 1 + g.R.Intn(o.MaxAlign)
		}
		var f *hu.File
		if o.Depth > 0 && g.R.Intn(5) == 0 {
			sub := g.FV(VolOpts{Budget: 200 + g.R.Intn(400), Nested: true, Depth: o.Depth - 1, Free: -1, MaxAlign: min(o.MaxAlign, 2), NFiles: -1})
			f = &hu.File{Kind: "fs", GUID: g.guid(), Type: 0x0B, State: 0xF8, Attrs: uint8(g.R.Intn(2)) * 0x40}
			if g.R.Intn(2) == 0 { // a volume image section is legal in every sectioned file type (hostcases.go)
				f.Type = HostTypes[g.R.Intn(len(HostTypes))]
			}
			if g.R.Intn(3) == 0 {
				f.Secs = append(f.Secs, &hu.Sec{Kind: "su", Name: []rune(namePool[g.R.Intn(len(namePool))])})
			}
			f.Secs = append(f.Secs, &hu.Sec{Kind: "sf", FV: sub})
			if g.R.Intn(4) == 0 {
				f.Secs = append(f.Secs, &hu.Sec{Kind: "sl", Type: 0x19, Body: []byte{1, 2, 3}})
			}
			if g.R.Intn(3) == 0 { // the wrapper's own name behind the nested volume
				f.Secs = append(f.Secs, &hu.Sec{Kind: "su", Name: []rune(namePool[g.R.Intn(len(namePool))])})
			}
		} else {
			f = g.File(max(24, (o.Budget-(off-pre))/2), ai)
			if g.R.Intn(12) == 0 {
				f.Type = 5 // a DXE core, for insert_dxe
				if f.Kind == "fl" {
					f.Body = nil
					fixLeaf(f)
				}
			}
		}
		place(f)
	}
	free := o.Free
	if free < 0 {
		switch g.R.Intn(14) {
		case 0:
			free = 0
		case 1:
			free = 8 * (1 + g.R.Intn(6))
		case 2:
			free = 64 + g.R.Intn(200)
		default:
			free = 400 + g.R.Intn(o.Budget+1200)
		}
	}
	v.Free = up(off, 8) - off + up(free, 8)
	fixTail(v)
	setBlocks(v, g.R, o.Nested)
	return v
}

// fixTail enforces the tail shapes of the grammar: every header strictly inside the walk range, an
// erased header (if any free space) entirely inside the volume, at least 64 bytes.
func fixTail(v *hu.FV) {
	end := v.FilesEnd()
	length := end + v.Free
	pre := v.FilesEnd()
	if len(v.Files) > 0 {
		// offset of the last file's header
		last := len(v.Files[len(v.Files)-1].Ser())
		pre = end - last
		if pre+24 >= length {
			v.Free += 8
			length += 8
		}
	}
	if end+24 < length && up(end, 8)+32 > length {
		v.Free += 8
	}
	if v.Size() < 64 {
		v.Free += up(64-v.Size(), 8)
	}
}

// setBlocks writes a block map whose blocks add up to the volume length.
func setBlocks(v *hu.FV, r *rand.Rand, nested bool) {
	length := v.Size()
	cands := []int{4096, 512, 256, 64, 16, 8}
	if nested {
		cands = []int{64, 32, 16, 8}
	}
	if r.Intn(4) == 0 {
		cands = cands[r.Intn(len(cands)):]
	}
	size := pow2Dividing(length, cands)
	total := length / size
	if len(v.Blocks) == 2 && total < 2 {
		size = 8
		total = length / 8
	}
	if len(v.Blocks) == 1 {
		v.Blocks[0] = hu.Block{Count: uint32(total), Size: uint32(size)}
		return
	}
	c0 := 1 + r.Intn(total-1)
	v.Blocks[0] = hu.Block{Count: uint32(c0), Size: uint32(size)}
	v.Blocks[1] = hu.Block{Count: uint32(total - c0), Size: uint32(size)}
}

// OtherFV is a volume of a file system the tool does not parse.
func (g *ImgGen) OtherFV() *hu.FV {
	v := &hu.FV{Other: true, ZV: make([]byte, 16), Attrs: 0x0004FEFF, Rev: 2, GUID: make([]byte, 16)}
	g.R.Read(v.GUID)
	v.Body = make([]byte, 8*g.R.Intn(40))
	g.R.Read(v.Body)
	v.Blocks = []hu.Block{{Count: 1, Size: 8}}
	v.Blocks[0] = hu.Block{Count: uint32(v.Size() / 8), Size: 8}
	return v
}

func (g *ImgGen) padding(n int) []byte {
	p := make([]byte, n)
	switch g.R.Intn(3) {
	case 0:
		for i := range p {
			p[i] = 0xFF
		}
	case 1:
		g.R.Read(p)
		for i := range p {
			if p[i] == '_' { // never a volume signature inside padding
				p[i] = 0x60
			}
		}
	}
	return p
}

// Bios generates a BIOS region with nfv volumes; want > 0 asks for exactly that many bytes (nil when
// the volumes do not fit).
func (g *ImgGen) Bios(want, nfv int, o VolOpts) *hu.Bios {
	b := &hu.Bios{}
	used := 0
	for i := 0; i < nfv; i++ {
		var pad []byte
		if g.R.Intn(3) == 0 {
			pad = g.padding(8 * (1 + g.R.Intn(16)))
		}
		var fv *hu.FV
		if nfv > 1 && g.R.Intn(9) == 0 {
			fv = g.OtherFV()
		} else {
			fv = g.FV(o)
		}
		b.Items = append(b.Items, hu.Item{Pad: pad, FV: fv})
		used += len(pad) + fv.Size()
	}
	switch {
	case want > 0 && used > want:
		return nil
	case want > 0:
		b.Tail = g.padding(want - used)
	default:
		b.Tail = g.padding(8 * g.R.Intn(5))
	}
	return b
}

// Image generates a valid image: kind "fv" (one bare volume), "bios" (a bare BIOS region with
// 2–3 volumes) or "flash" (descriptor, BIOS region and other regions tiling the flash).
func (g *ImgGen) Image(kind string, o VolOpts) *hu.Img {
	switch kind {
	case "fv":
		return &hu.Img{Bios: &hu.Bios{Items: []hu.Item{{FV: g.FV(o)}}}}
	case "bios":
		return &hu.Img{Bios: g.Bios(0, 2+g.R.Intn(2), o)}
	}
	for {
		hg := &hu.Gen{R: g.R, MaxAlign: 3, NoNested: true}
		f := hg.Flash(2 + g.R.Intn(4))
		ok := true
		var rb *hu.Region
		for _, r := range f.Regions {
			if r.Kind == "gap" {
				ok = false
			}
			if r.Kind == "rb" {
				rb = r
			}
		}
		if !ok || rb == nil {
			continue
		}
		size := len(rb.Bytes())
		oo := o
		oo.Budget = min(o.Budget, size/3)
		bios := g.Bios(size, 1+g.R.Intn(2), oo)
		if bios == nil {
			continue
		}
		rb.Bios = bios
		return &hu.Img{Flash: f}
	}
}
