package uefiedit

// nvcases.go — case streams of C02 over images that hold AMI NVAR stores (gap round 2, seeded defect
// c02-5).  An NVAR store sits in a RAW file with the NVAR GUID *followed by other files*: if
// `nvram-compact` (which rebuilds the entries and the GUID table) leaves the store shorter or longer
// than the file's size field says, every file behind it is misplaced — visible to any FFS reader.
//
//	NvFixedCases   seven hand-built images (dead GUID slot, duplicate slots, link chain in a full store,
//	               store in a nested volume, two stores in one volume, store in the content of a
//	               variable, store as the last file with a body checksum, a store whose
//	               table keeps its size while a deleted entry goes) x 20 command lines (plain save, insert
//	               without compaction, (compact,
//	               compact twice, compact-save-compact-save, save first, insert before / after the NVAR
//	               file after / before the compaction, remove / remove_pad of the NVAR file or of its
//	               neighbour, invalidate_nvar / invalidate_nvar_except then compact, replace_pe32 …)
//	NvRandomCases  generated images (the generator of RandomCases) with one or two NVAR files injected
//	               into top-level or nested volumes, and generated command lines with nvram-compact /
//	               invalidate_nvar / invalidate_nvar_except spliced in at random places.

import (
	"math/rand"

	"verif/harness/core"
	hu "verif/harness/props/uefi"
)

func nvPre(v *hu.FV) int {
	pre := 56 + 8*(len(v.Blocks)+1)
	if e := v.ExtHdr; e != nil {
		pre = up(pre+len(e.Gap)+20+len(e.Data), 8)
	}
	return pre
}

// nvRelayout places the files of every FFS volume again after file lists changed (nested volumes
// first): pad files are dropped and the minimal ones the data alignments need are put back, the free
// space is kept, the block map follows the new length.
func nvRelayout(v *hu.FV, r *rand.Rand, nested bool) {
	if v.Other {
		return
	}
	oldFree := v.Free - (up(v.FilesEnd(), 8) - v.FilesEnd())
	var files []*hu.File
	for _, f := range v.Files {
		for _, s := range f.Secs {
			if s.Kind == "sf" && s.FV != nil {
				nvRelayout(s.FV, r, true)
			}
		}
		if f.Type != 0xF0 {
			files = append(files, f)
		}
	}
	v.Files = nil
	off := nvPre(v)
	for _, f := range files {
		if pad := hu.PlaceAligned(off, f.StoredAttrs()); pad != nil {
			v.Files = append(v.Files, pad)
			off = up(off, 8) + len(pad.Ser())
		}
		v.Files = append(v.Files, f)
		off = up(off, 8) + len(f.Ser())
	}
	if oldFree < 0 {
		oldFree = 0
	}
	v.Free = up(off, 8) - off + up(oldFree, 8)
	fixTail(v)
	setBlocks(v, r, nested)
}

type nvSlot struct {
	v      *hu.FV
	nested bool
}

func nvVolumes(v *hu.FV, nested bool, out *[]nvSlot) {
	if v.Other {
		return
	}
	*out = append(*out, nvSlot{v, nested})
	for _, f := range v.Files {
		for _, s := range f.Secs {
			if s.Kind == "sf" && s.FV != nil {
				nvVolumes(s.FV, true, out)
			}
		}
	}
}

func nvBios(img *hu.Img) *hu.Bios {
	if img.Flash != nil {
		for _, r := range img.Flash.Regions {
			if r.Kind == "rb" {
				return r.Bios
			}
		}
		return nil
	}
	return img.Bios
}

// nvInject puts 1–2 NVAR files into volumes of the image, mostly in front of other files.  It
// returns the stores (nil when the image cannot take them: no FFS volume, or a flash region too small).
func (g *ImgGen) nvInject(img *hu.Img) []*NvStore {
	bios := nvBios(img)
	if bios == nil {
		return nil
	}
	want := -1
	if img.Flash != nil {
		want = len(bios.Ser())
	}
	var slots []nvSlot
	for _, it := range bios.Items {
		nvVolumes(it.FV, false, &slots)
	}
	if len(slots) == 0 {
		return nil
	}
	var nestedSlots []nvSlot
	for _, s := range slots {
		if s.nested {
			nestedSlots = append(nestedSlots, s)
		}
	}
	var stores []*NvStore
	n := 1
	if g.R.Intn(5) == 0 {
		n = 2
	}
	for k := 0; k < n; k++ {
		t := slots[g.R.Intn(len(slots))]
		if len(nestedSlots) > 0 && g.R.Intn(2) == 0 {
			t = nestedSlots[g.R.Intn(len(nestedSlots))]
		}
		st := g.NvStore(1)
		attrs := uint8(0)
		if g.R.Intn(2) == 0 {
			attrs = 0x40 // body checksum
		}
		if g.R.Intn(6) == 0 {
			attrs |= uint8(1+g.R.Intn(2)) << 3 // data alignment 16 / 128
		}
		nf := NvFile(st.Ser(), attrs)
		var files []*hu.File
		for _, f := range t.v.Files {
			if f.Type != 0xF0 {
				files = append(files, f)
			}
		}
		at := g.R.Intn(len(files) + 1)
		if at == len(files) && g.R.Intn(6) > 0 {
			if len(files) > 0 {
				at = g.R.Intn(len(files))
			} else {
				files = append(files, g.File(40+g.R.Intn(100), 0)) // something behind the store
			}
		}
		files = append(files[:at], append([]*hu.File{nf}, files[at:]...)...)
		t.v.Files = files
		switch g.R.Intn(10) {
		case 0:
			t.v.Free = 0 // a full volume: nothing may grow
		case 1:
			t.v.Free = 8 * g.R.Intn(5)
		}
		stores = append(stores, st)
	}
	for _, it := range bios.Items {
		nvRelayout(it.FV, g.R, false)
	}
	if want >= 0 {
		used := 0
		for _, it := range bios.Items {
			used += len(it.Pad) + it.FV.Size()
		}
		if used > want {
			return nil
		}
		bios.Tail = g.padding(want - used)
	}
	return stores
}

// nvOps: a generated command line (Ops) with NVAR commands spliced in.
func (g *ImgGen) nvOps(inv Inventory, stores []*NvStore, imageLen int) []Op {
	var names []string
	for _, s := range stores {
		names = append(names, s.Names()...)
	}
	extras := g.R.Intn(5) == 0
	ops := g.Ops(inv, g.R.Intn(4), extras, imageLen) // … save
	nvOp := func() Op {
		switch k := g.R.Intn(20); {
		case k < 14:
			return Op{Kind: "nvcompact"}
		case k < 18:
			o := Op{Kind: "nvinv", Sel: "NoSuchVar"}
			if len(names) > 0 && g.R.Intn(8) > 0 {
				o.Sel = names[g.R.Intn(len(names))]
			}
			return o
		default:
			o := Op{Kind: "nvkeep", Sel: "NoSuchVar"} // nothing is kept: the compacted store is empty
			if len(names) > 0 && g.R.Intn(4) > 0 {
				o.Sel = names[g.R.Intn(len(names))]
			}
			return o
		}
	}
	splice := func(at int, o Op) {
		ops = append(ops[:at], append([]Op{o}, ops[at:]...)...)
	}
	// mostly at least one compaction in front of the last save
	if g.R.Intn(8) > 0 {
		splice(g.R.Intn(len(ops)), Op{Kind: "nvcompact"})
	}
	for k := g.R.Intn(3); k > 0; k-- {
		splice(g.R.Intn(len(ops)), nvOp())
	}
	if g.R.Intn(3) == 0 {
		// an insertion next to the NVAR file behind a compaction
		o := Op{Kind: "if", Where: []string{"after", "before", "after", "replace"}[g.R.Intn(4)], Sel: NvGUID(), Blob: g.NewFileBlob(&inv)}
		splice(len(ops)-1, o)
	}
	if g.R.Intn(4) == 0 {
		if g.R.Intn(2) == 0 {
			splice(g.R.Intn(len(ops)), Op{Kind: "save"})
		} else {
			ops = append(ops, nvOp(), Op{Kind: "save"})
		}
	}
	return ops
}

// NvRandomCases generates n cases.
func NvRandomCases(r *rand.Rand, n int) []core.Case {
	var cs []core.Case
	g := &ImgGen{R: r}
	for len(cs) < n {
		g.guids = nil
		o := VolOpts{Budget: 200 + r.Intn(1000), Depth: 1, Free: -1, MaxAlign: 3, NFiles: -1}
		if r.Intn(3) == 0 {
			o.Depth = 2
		}
		kind := []string{"fv", "fv", "bios", "bios", "flash"}[r.Intn(5)]
		img := g.Image(kind, o)
		stores := g.nvInject(img)
		if stores == nil {
			continue
		}
		in := img.Ser()
		if len(in) > 40*1024 {
			continue
		}
		rd, err := ReadImage(in)
		if err != nil {
			panic("uefiedit: generated NVAR image unreadable: " + err.Error())
		}
		inv := TakeInventory(Abstract(rd))
		ops := g.nvOps(inv, stores, len(in))
		shape := "same"
		for _, s := range stores {
			if s.Shrinks() {
				shape = "shrink"
			}
		}
		cs = append(cs, CaseOf("nv-random-"+kind+"-"+shape, img, ops))
	}
	return cs
}

// ---------------------------------------------------------------- fixed cases

func nvVar(name string, idx byte, n int) NvVar {
	d := make([]byte, n)
	for i := range d {
		d[i] = byte(0x30 + i + int(idx))
	}
	return NvVar{Attrs: 0x82, GuidIdx: idx, Name: name, Data: d}
}

func nvDeleted(e NvVar) NvVar { e.Attrs &^= 0x80; return e }

// NvFixedStores: the stores of the fixed cases.
func NvFixedStores() map[string]*NvStore {
	gs := func(ns ...byte) [][]byte {
		var out [][]byte
		for _, n := range ns {
			out = append(out, fixedGUID(n))
		}
		return out
	}
	// dead slot: slot 1 is named by a deleted variable only
	dead := &NvStore{Guids: gs(0x51, 0x52, 0x53), Free: 40,
		Vars: []NvVar{nvVar("VarA", 0, 6), nvDeleted(nvVar("VarB", 1, 9)), nvVar("VarC", 2, 4)}}
	// two slots hold the same GUID
	dup := &NvStore{Guids: gs(0x51, 0x51), Free: 21, Vars: []NvVar{nvVar("VarA", 0, 5), nvVar("VarC", 1, 7)}}
	// a full store: a chain whose head names slot 3, slots 0–2 unused by any valid entry
	head := nvVar("VarA", 3, 3)
	head.Next = len(head.Ser())
	chain := &NvStore{Guids: gs(0x51, 0x52, 0x53, 0x54), Free: 0,
		Vars: []NvVar{nvDeleted(nvVar("VarB", 0, 8)), head, {Attrs: 0x88, Data: []byte{9, 8, 7, 6, 5}}, nvVar("VarC", 3, 2)}}
	// the table keeps its two GUIDs, but a deleted entry goes: the entries get shorter, the free space longer
	ext := nvVar("VarC", 1, 6)
	ext.Attrs |= 0x10
	ext.Ext = nvExt(0x01, true, false, 0)
	sameTable := &NvStore{Guids: gs(0x51, 0x52), Free: 33, Vars: []NvVar{nvVar("VarA", 0, 5), nvDeleted(nvVar("VarB", 0, 11)), ext}}
	// a store in the content of a variable, with a dead slot of its own; the outer store has one too
	inner := &NvStore{Guids: gs(0x61, 0x62), Free: 12, Vars: []NvVar{nvDeleted(nvVar("InB", 0, 3)), nvVar("InA", 1, 4)}}
	holder := nvVar("VarA", 0, 1)
	holder.Data = inner.Ser()
	nestedStore := &NvStore{Guids: gs(0x51, 0x52, 0x53), Free: 18, Vars: []NvVar{holder, nvDeleted(nvVar("VarB", 1, 2)), nvVar("VarC", 2, 5)}}
	return map[string]*NvStore{"dead": dead, "dup": dup, "chain": chain, "same-table": sameTable, "nested-store": nestedStore}
}

// NvFixedImages: every image holds driver 1 "Shell" and the RAW file 2 (behind an NVAR file).
func NvFixedImages() ([]string, []*hu.Img) {
	st := NvFixedStores()
	nv := func(name string, attrs uint8) *hu.File { return NvFile(st[name].Ser(), attrs) }
	second := func() hu.Item {
		return hu.Item{FV: volume(0xF, []*hu.File{driver(4, 0, "Setup", 0), rawFile(5, 1, 9)}, 300, false)}
	}
	one := func(files []*hu.File, free int) *hu.Img {
		return &hu.Img{Bios: &hu.Bios{Items: []hu.Item{{FV: volume(0xE, files, free, false)}, second()}}}
	}
	names := []string{"dead-slot", "dup-slot-aligned-follower", "chain-full-store-nested-volume", "two-stores", "store-in-variable", "last-file-checksummed", "same-table"}
	nestedVol := volume(0, []*hu.File{driver(0xA, 0, "Inner", 20), nv("chain", 0), rawFile(2, 1, 12)}, 40, true)
	holder := &hu.File{Kind: "fs", GUID: fixedGUID(3), Type: 0x0B, State: 0xF8, Secs: []*hu.Sec{{Kind: "sf", FV: nestedVol}}}
	imgs := []*hu.Img{
		one([]*hu.File{driver(1, 0x40, "Shell", 30), nv("dead", 0), rawFile(2, 6, 20), driver(3, 0, "", 8)}, 600),
		one([]*hu.File{nv("dup", 0x40), driver(1, 0x08, "Shell", 30), rawFile(2, 1, 20)}, 400),
		one([]*hu.File{driver(1, 0, "Shell", 30), holder, rawFile(6, 1, 20)}, 600),
		one([]*hu.File{nv("dead", 0), driver(1, 0, "Shell", 30), nv("chain", 0x40), rawFile(2, 1, 20)}, 500),
		one([]*hu.File{driver(1, 0, "Shell", 16), nv("nested-store", 0x40), rawFile(2, 1, 20)}, 500),
		one([]*hu.File{driver(1, 0, "Shell", 16), rawFile(2, 1, 20), nv("dead", 0x40)}, 0),
		one([]*hu.File{driver(1, 0, "Shell", 16), nv("same-table", 0x40), rawFile(2, 1, 20)}, 500),
	}
	return names, imgs
}

// NvFixedCases: every command line of the list on every fixed image.
func NvFixedCases() []core.Case {
	g := func(n byte) string { return GUIDText(fixedGUID(n)) }
	newA := driver(7, 0, "NewA", 16).Ser()
	newB := rawFile(8, 1, 40).Ser()
	newC := driver(9, 0x08, "", 24).Ser() // 16-byte data alignment
	nvc, save := Op{Kind: "nvcompact"}, Op{Kind: "save"}
	seqs := [][]Op{
		{save},
		{{Kind: "if", Where: "after", Sel: NvGUID(), Blob: newA}, save},
		{nvc, save},
		{nvc, nvc, save},
		{nvc, save, nvc, save},
		{save, nvc, save},
		{nvc, {Kind: "if", Where: "after", Sel: NvGUID(), Blob: newA}, save},
		{nvc, {Kind: "if", Where: "before", Sel: NvGUID(), Blob: newB}, save},
		{{Kind: "if", Where: "after", Sel: "shell", Blob: newC}, nvc, save},
		{{Kind: "if", Where: "front", Sel: g(0xE), Blob: newB}, nvc, save, {Kind: "if", Where: "end", Sel: g(0xE), Blob: newA}, nvc, save},
		{{Kind: "rm", Sel: g(2)}, nvc, save},
		{nvc, {Kind: "rm", Sel: NvGUID()}, save},
		{nvc, {Kind: "rp", Sel: NvGUID()}, save},
		{{Kind: "nvinv", Sel: "VarA"}, nvc, save},
		{{Kind: "nvinv", Sel: "VarC"}, save, nvc, save},
		{{Kind: "nvkeep", Sel: "VarC"}, nvc, save},
		{{Kind: "nvinv", Sel: "NoSuchVar"}, nvc, {Kind: "pe", Sel: "shell", Blob: append([]byte("MZ"), 1, 2, 3, 4, 5, 6, 7)}, save},
		{nvc, {Kind: "if", Where: "replace", Sel: g(2), Blob: newB}, nvc, save},
		{{Kind: "nvkeep", Sel: "VarA"}, save, nvc, nvc, save},
		{{Kind: "nvkeep", Sel: "NoSuchVar"}, nvc, save}, // every variable goes: an empty store of the same length
	}
	var cs []core.Case
	names, imgs := NvFixedImages()
	for k, img := range imgs {
		for _, ops := range seqs {
			cs = append(cs, CaseOf("nv-fixed-"+names[k], img, append([]Op{}, ops...)))
		}
	}
	return cs
}
