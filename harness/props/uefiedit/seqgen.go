package uefiedit

// seqgen.go — edit-operation sequences over a generated image.

import (
	"fmt"
	"strings"

	hu "verif/harness/props/uefi"
)

// Inventory is what a user could name in an image; the sequence generator keeps it roughly up to
// date while it invents operations, so that later operations mostly name things that still exist.
type Inventory struct {
	Files    []invFile
	PadGUID  bool     // the image holds pad files
	VolNames []string // text form of every volume name
}

type invFile struct {
	GUID  string
	Names []string // ASCII UI names
	PE32  bool
	Type  uint8
}

func isASCII(s string) bool {
	for _, r := range s {
		if r < 0x20 || r > 0x7e {
			return false
		}
	}
	return s != ""
}

func invOf(f *AFile) invFile {
	e := invFile{GUID: GUIDText(f.GUID[:]), Type: f.Type}
	for _, n := range f.Names {
		if isASCII(n) {
			e.Names = append(e.Names, n)
		}
	}
	for _, p := range f.Parts {
		if p.Vol == nil && p.SecType == 0x10 && f.isSectioned() {
			e.PE32 = true
		}
	}
	return e
}

func TakeInventory(img *AImage) Inventory {
	var inv Inventory
	img.walk(func(v *AVol, _ []*AVol) {
		inv.VolNames = append(inv.VolNames, GUIDText(v.Name[:]))
		for _, f := range v.Files {
			if f.Pad {
				inv.PadGUID = true
				continue
			}
			inv.Files = append(inv.Files, invOf(f))
		}
	})
	return inv
}

func (f invFile) hit(sel string) bool {
	if strings.EqualFold(sel, f.GUID) {
		return true
	}
	for _, n := range f.Names {
		if strings.EqualFold(sel, n) {
			return true
		}
	}
	return false
}

func (inv *Inventory) count(sel string) int {
	n := 0
	for _, f := range inv.Files {
		if f.hit(sel) {
			n++
		}
	}
	return n
}

func (inv *Inventory) drop(sel string) {
	var out []invFile
	for _, f := range inv.Files {
		if !f.hit(sel) {
			out = append(out, f)
		}
	}
	inv.Files = out
}

func (inv *Inventory) add(blob []byte) {
	if f := AbstractFile(blob); f != nil {
		inv.Files = append(inv.Files, invOf(f))
	}
}

// selectors that name exactly one file / several files / a file with a PE32 section
func (inv *Inventory) selectors(want func(f invFile, n int) bool, names bool) []string {
	var out []string
	for _, f := range inv.Files {
		if want(f, inv.count(f.GUID)) {
			out = append(out, f.GUID)
		}
		if names {
			for _, n := range f.Names {
				if want(f, inv.count(n)) {
					out = append(out, n)
				}
			}
		}
	}
	return out
}

func pick(g *ImgGen, l []string) string { return l[g.R.Intn(len(l))] }

// volSel picks a volume name: mostly one that names a single volume (and no file).
func (g *ImgGen) volSel(inv *Inventory) string {
	var unique []string
	for _, n := range inv.VolNames {
		c := 0
		for _, m := range inv.VolNames {
			if m == n {
				c++
			}
		}
		if c == 1 && inv.count(n) == 0 {
			unique = append(unique, n)
		}
	}
	if len(unique) > 0 && g.R.Intn(8) > 0 {
		return pick(g, unique)
	}
	return pick(g, inv.VolNames)
}

func (g *ImgGen) randomGUIDText() string {
	b := make([]byte, 16)
	g.R.Read(b)
	return GUIDText(b)
}

// fileSel picks a selector that names a file: mostly exactly one that exists.
func (g *ImgGen) fileSel(inv *Inventory) string {
	unique := inv.selectors(func(_ invFile, n int) bool { return n == 1 }, true)
	plural := inv.selectors(func(_ invFile, n int) bool { return n > 1 }, true)
	k := g.R.Intn(40)
	var sel string
	switch {
	case k < 35 && len(unique) > 0:
		sel = pick(g, unique)
	case k < 36 && len(plural) > 0:
		sel = pick(g, plural)
	case k == 36 && inv.PadGUID:
		return "FFFFFFFF-FFFF-FFFF-FFFF-FFFFFFFFFFFF"
	case k < 37:
		return "NoSuchName"
	case k < 38:
		return g.randomGUIDText()
	default:
		if len(inv.Files) == 0 {
			return g.randomGUIDText()
		}
		sel = inv.Files[g.R.Intn(len(inv.Files))].GUID
	}
	switch g.R.Intn(8) { // the match is case-insensitive
	case 0:
		return strings.ToLower(sel)
	case 1:
		return strings.ToUpper(sel)
	}
	return sel
}

// NewFileBlob generates the bytes of a file to insert.
func (g *ImgGen) NewFileBlob(inv *Inventory) []byte {
	ai := 0
	if g.R.Intn(4) == 0 {
		ai = 1 + g.R.Intn(3)
	}
	budget := 40 + g.R.Intn(200)
	if g.R.Intn(16) == 0 {
		budget = 2000 + g.R.Intn(6000) // likely too big for the volume
	}
	f := g.File(budget, ai)
	if len(inv.Files) > 0 && g.R.Intn(8) == 0 {
		// the GUID of a file that is already there
		copy(f.GUID, mustGUID(inv.Files[g.R.Intn(len(inv.Files))].GUID))
		if f.Kind == "fl" {
			fixLeaf(f)
		}
	}
	if g.R.Intn(12) == 0 && f.Kind == "fs" {
		// a new file that brings its own nested volume
		sub := g.FV(VolOpts{Budget: 150, Nested: true, Free: -1, NFiles: -1})
		f.Secs = append(f.Secs, &hu.Sec{Kind: "sf", FV: sub})
	}
	blob := f.Ser()
	switch g.R.Intn(90) {
	case 0:
		return blob[:g.R.Intn(len(blob))] // truncated
	case 1:
		return append(blob, make([]byte, 1+g.R.Intn(16))...) // trailing bytes are ignored
	case 2:
		ff := make([]byte, 40)
		for i := range ff {
			ff[i] = 0xFF
		}
		return ff // looks like free space
	}
	return blob
}

func mustGUID(text string) []byte {
	var b [16]byte
	s := strings.ReplaceAll(text, "-", "")
	fmt.Sscanf(s, "%02X%02X%02X%02X%02X%02X%02X%02X%02X%02X%02X%02X%02X%02X%02X%02X",
		&b[3], &b[2], &b[1], &b[0], &b[5], &b[4], &b[7], &b[6], &b[8], &b[9], &b[10], &b[11], &b[12], &b[13], &b[14], &b[15])
	return b[:]
}

func (g *ImgGen) pe32Body() []byte {
	n := g.R.Intn(200)
	b := make([]byte, 2+n)
	g.R.Read(b)
	b[0], b[1] = 'M', 'Z'
	if g.R.Intn(12) == 0 {
		b[0] = 'Z'
	}
	return b
}

// Ops generates n operations followed by a final save.  extras allows the operations the Lean model
// does not know (repack, create-fv, tighten_me, nvram-compact) — C02 checks their output with the
// oracles only.
func (g *ImgGen) Ops(inv0 Inventory, n int, extras bool, imageLen int) []Op {
	inv := &Inventory{Files: append([]invFile{}, inv0.Files...), PadGUID: inv0.PadGUID, VolNames: inv0.VolNames}
	var ops []Op
	wheres := []string{"front", "end", "after", "before", "replace"}
	for i := 0; i < n; i++ {
		k := g.R.Intn(100)
		switch {
		case k < 36:
			o := Op{Kind: "if", Where: wheres[g.R.Intn(5)], Blob: g.NewFileBlob(inv)}
			if (o.Where == "front" || o.Where == "end") && g.R.Intn(3) == 0 && len(inv.VolNames) > 0 {
				o.Sel = g.volSel(inv)
			} else if g.R.Intn(40) == 0 && len(inv.VolNames) > 0 {
				o.Sel = g.volSel(inv) // a volume named where only a file makes sense
			} else {
				o.Sel = g.fileSel(inv)
				if len(inv.Files) == 0 && (o.Where == "front" || o.Where == "end") && g.R.Intn(4) > 0 {
					o.Sel = g.volSel(inv)
				}
			}
			if o.Where == "replace" && inv.count(o.Sel) == 1 {
				inv.drop(o.Sel)
			}
			inv.add(o.Blob)
			ops = append(ops, o)
		case k < 50:
			o := Op{Kind: "rm", Sel: g.fileSel(inv)}
			inv.drop(o.Sel)
			ops = append(ops, o)
		case k < 62:
			o := Op{Kind: "rp", Sel: g.fileSel(inv)}
			inv.drop(o.Sel)
			inv.PadGUID = true
			ops = append(ops, o)
		case k < 72:
			sel := g.fileSel(inv)
			pe := inv.selectors(func(f invFile, n int) bool { return n == 1 && f.PE32 }, false)
			if len(pe) > 0 && g.R.Intn(4) > 0 {
				sel = pick(g, pe)
			}
			ops = append(ops, Op{Kind: "pe", Sel: sel, Blob: g.pe32Body()})
		case k < 73:
			ops = append(ops, Op{Kind: "ip", Where: wheres[g.R.Intn(4)], Sel: g.fileSel(inv), Size: []int{0, 23, 24, 32, 256}[g.R.Intn(5)]})
		case k < 76:
			cores := inv.selectors(func(f invFile, _ int) bool { return f.Type == 5 }, false)
			if len(cores) == 1 || g.R.Intn(6) == 0 {
				o := Op{Kind: "dxe", Blob: g.NewFileBlob(inv)}
				inv.add(o.Blob)
				ops = append(ops, o)
			} else {
				ops = append(ops, Op{Kind: "count"})
			}
		case k < 81:
			ops = append(ops, Op{Kind: "save"})
		case k < 95 || !extras:
			ro := []string{"find", "cat", "dump", "json", "table", "count", "validate", "comment"}[g.R.Intn(8)]
			o := Op{Kind: ro}
			if ro == "find" || ro == "cat" || ro == "dump" {
				o.Sel = g.fileSel(inv)
				if u := inv.selectors(func(_ invFile, n int) bool { return n == 1 }, true); ro == "dump" && len(u) > 0 && g.R.Intn(4) > 0 {
					o.Sel = pick(g, u)
				}
			}
			ops = append(ops, o)
		case k < 97:
			sel := g.fileSel(inv)
			if len(inv.VolNames) > 0 && g.R.Intn(2) == 0 {
				sel = pick(g, inv.VolNames)
			}
			ops = append(ops, Op{Kind: "repack", Sel: sel})
		case k < 99:
			name := make([]byte, 16)
			g.R.Read(name)
			ops = append(ops, Op{Kind: "createfv", Off: 8 * g.R.Intn(imageLen/8+1), Size: []int{4096, 8192, 0x1000, 0x800, 120, 64}[g.R.Intn(6)], Blob: name})
		default:
			ops = append(ops, Op{Kind: "tighten"})
		}
	}
	return append(ops, Op{Kind: "save"})
}
