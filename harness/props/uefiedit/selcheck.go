package uefiedit

// selcheck.go — the C03 oracle for an editing command whose selector names nothing.
//
// "An edit changes exactly what it names and nothing else": a command that names no file (and no
// volume) has nothing to change.  Whether it must return an error is C02's question; here only the
// saved image is judged: if the tool went on without an error, the next saved image must show the
// file lists the abstract model had BEFORE that command (followed on through the later, well-defined
// commands of the sequence).  The older oracle stops following a run at such a step, because the
// abstract model calls it "err"; a selection that names MORE than the pattern says (seeded defect
// c03-4) makes exactly these commands succeed.

import (
	"fmt"

	"verif/harness/core"
)

// FvPredicateFinding is the signature of finding F-c03g-1 (FindFileFVPredicate anchors without a
// group: insert … "A|B" also takes a file whose name starts with A or ends with B as the target).
const FvPredicateFinding = "fv-predicate-ungrouped-alternation"

func fvFindingOp(in []byte, ops []Op, o Op) bool {
	p, ok := SelPattern(o.Sel)
	if !ok || !usesFvPredicate(o.Kind) || !ValidPattern(p) {
		return false
	}
	for _, t := range selUniverse(in, ops) {
		if PatternNames(p, t) != fvCodeNames(p, t) {
			return true
		}
	}
	return false
}

// ChecksNoTarget: see above.  Emits nothing for runs without such a step.
func (e *Eval) ChecksNoTarget() []core.Check {
	if e.Res.Stage != "run" || e.Err != "" {
		return nil
	}
	r, err := ReadImage(e.In)
	if err != nil {
		return nil
	}
	cur := Abstract(r)
	earlier := map[string]bool{}
	cur.VolumeBytes(earlier)
	var culprit *Op
	var cs []core.Check
	for i := range e.Res.Steps {
		st := e.Res.Steps[i]
		if st.Class != "ok" {
			break
		}
		o := st.Op
		switch {
		case o.IsSave():
			if culprit == nil {
				continue
			}
			got, err := ReadImage(st.Saved)
			diff := ""
			if err != nil {
				diff = "saved image unreadable: " + err.Error()
			} else {
				diff = Same(cur, Abstract(got), earlier)
			}
			sig := "no-target-no-change:" + culprit.Kind
			if fvFindingOp(e.In, e.Ops, *culprit) {
				sig = FvPredicateFinding
			}
			if diff != "" {
				diff = fmt.Sprintf("%s names nothing, yet after it: %s", culprit.Kind, diff)
			}
			cs = append(cs, core.Check{Tag: "O", What: "no-target-no-change", Exp: "", Got: diff, Sig: sig})
			return cs // one verdict per run: what the tool did at that step is unknown to the abstract model
		case o.ReadOnly():
			continue
		case !o.Modelled() || selAbstains(o.Sel):
			return cs
		}
		if o.Kind == "if" || o.Kind == "ip" || o.Kind == "pe" || o.Kind == "dxe" {
			byType := -1
			if o.Kind == "dxe" {
				byType = 5
			}
			if len(cur.matches(o.Sel, o.Kind != "pe", byType)) == 0 {
				if culprit == nil {
					culprit = &e.Res.Steps[i].Op
				}
				continue // nothing is named: the abstract image stays as it is
			}
		}
		if cur.Apply(o) != "ok" {
			return cs
		}
	}
	return cs
}
