package c07

// Running the real commands: `utk IMAGE extract DIR`, `utk DIR save OUT`, `utk IMAGE save OUT`
// through the same visitors pkg/utk wires up (visitors.Extract, visitors.ParseDir, visitors.Assemble,
// visitors.Save), each in a "fresh process" (hu.ResetState) inside a scratch directory.

import (
	"time"
	"fmt"
	"os"
	"path/filepath"
	"sort"
	"strings"

	fuefi "github.com/linuxboot/fiano/pkg/uefi"
	"github.com/linuxboot/fiano/pkg/utk"
	"github.com/linuxboot/fiano/pkg/visitors"

	"verif/harness/core"
	hu "verif/harness/props/uefi"
)

var tmpRoot string

func scratch() string {
	if tmpRoot == "" {
		// one directory per process; directories left by processes that are gone are removed
		old, _ := filepath.Glob(filepath.Join(os.TempDir(), "verif-c07-*"))
		for _, d := range old {
			pid := d[strings.LastIndex(d, "-")+1:]
			if _, err := os.Stat("/proc/" + pid); err != nil {
				// (wp-c07c) only directories that are also old: a run in another PID namespace does not see this
				// process in its /proc and must not take the directory of a live run away
				if fi, e2 := os.Stat(d); e2 == nil && time.Since(fi.ModTime()) > 2*time.Hour {
					os.RemoveAll(d)
				}
			}
		}
		tmpRoot = filepath.Join(os.TempDir(), fmt.Sprintf("verif-c07-%d", os.Getpid()))
		os.RemoveAll(tmpRoot)
		if err := os.MkdirAll(tmpRoot, 0755); err != nil {
			panic(err)
		}
	}
	return tmpRoot
}

// quiet runs f with os.Stdout pointed at /dev/null (NewFlashImage prints skipped regions).
func quiet(f func()) {
	stdout := os.Stdout
	devnull, _ := os.OpenFile(os.DevNull, os.O_WRONLY, 0)
	os.Stdout = devnull
	defer func() { os.Stdout = stdout; devnull.Close() }()
	f()
}

func parseFresh(in []byte) (fuefi.Firmware, string, string) {
	hu.ResetState()
	var tree fuefi.Firmware
	var class, detail string
	quiet(func() {
		class, detail = hu.Guard(func() error {
			t, err := fuefi.Parse(append([]byte{}, in...))
			tree = t
			return err
		})
	})
	return tree, class, detail
}

// written is one node that Extract gave an ExtractPath, with the bytes it wrote there.
type written struct {
	path string
	data []byte
}

// extracted walks the tree in visiting order and lists every ExtractPath with what was written.
func extracted(f fuefi.Firmware, out *[]written) {
	add := func(p string, b []byte) {
		if p != "" {
			*out = append(*out, written{p, append([]byte{}, b...)})
		}
	}
	switch f := f.(type) {
	case *fuefi.FlashImage:
		add(f.ExtractPath, f.Buf())
		extracted(&f.IFD, out)
		for _, r := range f.Regions {
			extracted(r.Value, out)
		}
	case *fuefi.FlashDescriptor:
		add(f.ExtractPath, f.Buf())
	case *fuefi.BIOSRegion:
		add(f.ExtractPath, f.Buf())
		for _, e := range f.Elements {
			extracted(e.Value, out)
		}
	case *fuefi.MERegion:
		add(f.ExtractPath, f.Buf())
		if f.FPT != nil {
			add(f.FPT.ExtractPath, f.FPT.Buf())
		}
	case *fuefi.RawRegion:
		add(f.ExtractPath, f.Buf())
	case *fuefi.BIOSPadding:
		add(f.ExtractPath, f.Buf())
	case *fuefi.FirmwareVolume:
		if len(f.Files) == 0 {
			add(f.ExtractPath, f.Buf())
		} else if int(f.DataOffset) <= len(f.Buf()) {
			add(f.ExtractPath, f.Buf()[:f.DataOffset])
		}
		for _, x := range f.Files {
			extracted(x, out)
		}
	case *fuefi.File:
		add(f.ExtractPath, f.Buf())
		if f.NVarStore != nil {
			extracted(f.NVarStore, out)
		} else {
			for _, s := range f.Sections {
				extracted(s, out)
			}
		}
	case *fuefi.Section:
		add(f.ExtractPath, f.Buf())
		for _, e := range f.Encapsulated {
			extracted(e.Value, out)
		}
	case *fuefi.NVarStore:
		for _, v := range f.Entries {
			extracted(v, out)
		}
	case *fuefi.NVar:
		if f.IsValid() {
			if f.NVarStore == nil && int(f.DataOffset) <= len(f.Buf()) {
				add(f.ExtractPath, f.Buf()[f.DataOffset:])
			}
		} else {
			add(f.ExtractPath, f.Buf())
		}
		if f.NVarStore != nil {
			extracted(f.NVarStore, out)
		}
	}
}

// leafBuffers counts the nodes whose buffer Extract is meant to write (independently of ExtractPath).
func leafBuffers(f fuefi.Firmware) int {
	n := 0
	switch f := f.(type) {
	case *fuefi.FlashImage:
		n += leafBuffers(&f.IFD)
		for _, r := range f.Regions {
			n += leafBuffers(r.Value)
		}
	case *fuefi.FlashDescriptor, *fuefi.MERegion, *fuefi.RawRegion, *fuefi.BIOSPadding:
		n = 1
	case *fuefi.BIOSRegion:
		if len(f.Elements) == 0 {
			n = 1
		}
		for _, e := range f.Elements {
			n += leafBuffers(e.Value)
		}
	case *fuefi.FirmwareVolume:
		n = 1
		for _, x := range f.Files {
			n += leafBuffers(x)
		}
	case *fuefi.File:
		if f.NVarStore != nil {
			n += leafBuffers(f.NVarStore)
		} else if len(f.Sections) == 0 {
			n = 1
		} else {
			for _, s := range f.Sections {
				n += leafBuffers(s)
			}
		}
	case *fuefi.Section:
		if len(f.Encapsulated) == 0 {
			n = 1
		}
		for _, e := range f.Encapsulated {
			n += leafBuffers(e.Value)
		}
	case *fuefi.NVarStore:
		for _, v := range f.Entries {
			n += leafBuffers(v)
		}
	case *fuefi.NVar:
		if f.NVarStore != nil {
			n += leafBuffers(f.NVarStore)
		} else {
			n = 1
		}
	}
	return n
}

// filesBelow lists the regular files below dir (relative, slash-separated), except summary.json.
func filesBelow(dir string) []string {
	var out []string
	filepath.Walk(dir, func(p string, info os.FileInfo, err error) error {
		if err != nil || info.IsDir() {
			return nil
		}
		rel, _ := filepath.Rel(dir, p)
		if rel != "summary.json" {
			out = append(out, filepath.ToSlash(rel))
		}
		return nil
	})
	sort.Strings(out)
	return out
}

type rt struct {
	in          []byte
	parseClass  string
	detail      string
	exClass     string // extract: ok | err | panic | fatal
	listing     []written
	leafCount   int
	onDisk      []string
	escaped     []string // files that appeared next to (outside) the extraction directory
	pdClass     string   // ParseDir.Parse
	pdDigest    string
	dsClass     string // Assemble.Run + Save on the loaded tree
	dsStage     string
	out         []byte
	outDigest   string
	directClass string
	direct      []byte
	second      []byte // a second Save of the directly parsed tree
	utkClass    string // the same through pkg/utk Run: "extract DIR", then "DIR save OUT"
	utkOut      []byte
	memClass    string
	mem         []byte
	editApplied int
	// follow-up wp-c07c: the ME partition tables after parsing, after ParseDir, and re-read from the saved bytes
	meParsed, meLoaded, meSaved []meRec
}

func digLen(b []byte) string { return fmt.Sprintf("%016x:%d", core.FNV(b), len(b)) }

func saveTo(tree fuefi.Firmware, path string) (string, string, []byte) {
	os.Remove(path)
	class, detail := hu.Guard(func() error { return (&visitors.Save{DirPath: path}).Run(tree) })
	if class != "ok" {
		return class, detail, nil
	}
	b, err := os.ReadFile(path)
	if err != nil {
		return "err", "saved file unreadable: " + err.Error(), nil
	}
	return "ok", "", b
}

// roundTrip runs the whole experiment on one image; ed (may be nil) is applied to summary.json
// before loading, and in memory for the comparison run.
func roundTrip(in []byte, ed *edit) *rt {
	r := &rt{in: in}
	base := scratch()
	dir := filepath.Join(base, "x", "dir")
	os.RemoveAll(filepath.Join(base, "x"))
	os.MkdirAll(filepath.Join(base, "x"), 0755)

	// utk IMAGE extract DIR
	tree, class, detail := parseFresh(in)
	r.parseClass, r.detail = class, detail
	if class != "ok" {
		return r
	}
	r.leafCount = leafBuffers(tree)
	r.meParsed = meRecords(tree)
	var idx uint64
	r.exClass, r.detail = hu.Guard(func() error {
		return (&visitors.Extract{BasePath: dir, DirPath: ".", Index: &idx}).Run(tree)
	})
	if r.exClass == "ok" {
		extracted(tree, &r.listing)
		r.onDisk = filesBelow(dir)
		for _, p := range filesBelow(filepath.Join(base, "x")) {
			if !strings.HasPrefix(p, "dir/") {
				r.escaped = append(r.escaped, p)
			}
		}
	}

	// utk IMAGE save OUT (a process of its own), and a second save of the same tree
	t2, class2, _ := parseFresh(in)
	if class2 == "ok" {
		r.directClass, _, r.direct = saveTo(t2, filepath.Join(base, "direct.rom"))
		if r.directClass == "ok" {
			_, _, r.second = saveTo(t2, filepath.Join(base, "second.rom"))
		}
	} else {
		r.directClass = "parse:" + class2
	}
	if r.exClass != "ok" {
		return r
	}

	// the two commands as pkg/utk wires them: utk IMAGE extract DIR2 ; utk DIR2 save OUT2
	if ed == nil {
		imgPath := filepath.Join(base, "x", "image.rom")
		dir2 := filepath.Join(base, "x", "dir2")
		out2 := filepath.Join(base, "utk-out.rom")
		os.WriteFile(imgPath, in, 0666)
		os.Remove(out2)
		hu.ResetState()
		var detail string
		quiet(func() {
			r.utkClass, detail = hu.Guard(func() error { return utk.Run(imgPath, "extract", dir2) })
		})
		if r.utkClass == "ok" {
			hu.ResetState()
			quiet(func() {
				r.utkClass, detail = hu.Guard(func() error { return utk.Run(dir2, "save", out2) })
			})
			if r.utkClass == "ok" {
				r.utkOut, _ = os.ReadFile(out2)
			} else {
				r.utkClass = "save-" + r.utkClass
			}
		} else {
			r.utkClass = "extract-" + r.utkClass
		}
		_ = detail
		os.Remove(imgPath)
	}

	// the edit, in summary.json and (for comparison) in memory
	if ed != nil {
		n, err := ed.applyJSON(filepath.Join(dir, "summary.json"))
		if err != nil {
			panic("c07: cannot edit summary.json: " + err.Error())
		}
		r.editApplied = n
		t3, class3, _ := parseFresh(in)
		if class3 == "ok" {
			ed.applyTree(t3)
			r.memClass, _ = hu.Guard(func() error { return (&visitors.Assemble{}).Run(t3) })
			if r.memClass == "ok" {
				r.memClass, _, r.mem = saveTo(t3, filepath.Join(base, "mem.rom"))
			}
		}
	}

	// utk DIR save OUT (a process of its own)
	hu.ResetState()
	var loaded fuefi.Firmware
	r.pdClass, r.detail = hu.Guard(func() error {
		t, err := (&visitors.ParseDir{BasePath: dir}).Parse()
		loaded = t
		return err
	})
	if r.pdClass != "ok" {
		return r
	}
	r.pdDigest = hu.Digest(loaded)
	r.meLoaded = meRecords(loaded)
	r.dsStage = "assemble"
	r.dsClass, r.detail = hu.Guard(func() error { return (&visitors.Assemble{}).Run(loaded) })
	if r.dsClass != "ok" {
		return r
	}
	r.dsStage = "save"
	r.dsClass, r.detail, r.out = saveTo(loaded, filepath.Join(base, "out.rom"))
	if r.dsClass == "ok" {
		r.outDigest = hu.Digest(loaded)
		if len(r.meLoaded) > 0 {
			if t4, class4, _ := parseFresh(r.out); class4 == "ok" {
				r.meSaved = meRecords(t4)
			}
		}
	}
	return r
}

// listingText is the text whose digest the model driver reports ("<path> <len> <fnv>;…").
func listingText(ws []written) string {
	var ps []string
	for _, w := range ws {
		ps = append(ps, fmt.Sprintf("%s %d %016x", w.path, len(w.data), core.FNV(w.data)))
	}
	return strings.Join(ps, ";")
}

// modelLine is the canonical form of what the implementation did, as Driver/C07.lean prints it.
func (r *rt) modelLine(edited bool) string {
	if r.parseClass != "ok" {
		return "parse:" + r.parseClass
	}
	if r.exClass != "ok" {
		return "ok ex=" + r.exClass
	}
	pd := r.pdClass
	ds := r.pdClass
	if r.pdClass == "ok" {
		pd = r.pdDigest
		ds = r.dsClass
		if r.dsClass == "ok" {
			ds = fmt.Sprintf("%s:%s", digLen(r.out), r.outDigest)
		}
	}
	last := "direct=" + r.directClass
	if r.directClass == "ok" {
		last = "direct=" + digLen(r.direct)
	}
	if edited {
		last = "mem=" + r.memClass
		if r.memClass == "ok" {
			last = "mem=" + digLen(r.mem)
		}
	}
	return fmt.Sprintf("ok ex=%d:%016x pd=%s ds=%s %s", len(r.listing), core.FNV([]byte(listingText(r.listing))), pd, ds, last)
}

func firstDiff(a, b []byte) string {
	n := len(a)
	if len(b) < n {
		n = len(b)
	}
	for i := 0; i < n; i++ {
		if a[i] != b[i] {
			cnt := 0
			for j := i; j < n; j++ {
				if a[j] != b[j] {
					cnt++
				}
			}
			return fmt.Sprintf("first difference at %#x (%d bytes differ; %02x -> %02x)", i, cnt, a[i], b[i])
		}
	}
	return fmt.Sprintf("lengths %d / %d", len(a), len(b))
}

func sameBytes(what string, want, got []byte) core.Check {
	g := digLen(got)
	if string(want) != string(got) {
		g += " " + firstDiff(want, got)
	}
	return core.Check{Tag: "O", What: what, Exp: digLen(want), Got: g, Sig: what}
}

// roundTripChecks are the C07 oracles that need no edit: they are evaluated on the implementation's
// own output only.
func (r *rt) roundTripChecks(wellFormed bool) []core.Check {
	var cs []core.Check
	if r.parseClass != "ok" || r.directClass != "ok" {
		return cs // not an image the tool can save at all: nothing to compare with
	}
	cs = append(cs, core.Check{Tag: "O", What: "extract-succeeds", Exp: "ok", Got: r.exClass, Sig: "extract-" + r.exClass})
	if r.exClass != "ok" {
		return cs
	}
	// unique paths: no file overwritten, nothing written outside the directory
	seen := map[string]int{}
	dup := ""
	for _, w := range r.listing {
		seen[w.path]++
		if seen[w.path] == 2 && dup == "" {
			dup = w.path
		}
	}
	got := "unique"
	if dup != "" {
		got = "two nodes were written to " + dup
	}
	cs = append(cs, core.Check{Tag: "O", What: "extract-paths-unique", Exp: "unique", Got: got, Sig: "extract-paths-unique"})
	cs = append(cs, core.Check{Tag: "O", What: "extract-file-count", Exp: fmt.Sprintf("%d files for %d leaf buffers", r.leafCount, r.leafCount),
		Got: fmt.Sprintf("%d files for %d leaf buffers", len(r.onDisk), r.leafCount), Sig: "extract-file-count"})
	esc := "nothing outside the directory"
	if len(r.escaped) > 0 {
		esc = "written outside the directory: " + r.escaped[0]
	}
	cs = append(cs, core.Check{Tag: "O", What: "extract-confined", Exp: "nothing outside the directory", Got: esc, Sig: "extract-confined"})
	// every written buffer can be read back
	bad := "all readable"
	base := filepath.Join(scratch(), "x", "dir")
	for _, w := range r.listing {
		b, err := os.ReadFile(filepath.Join(base, w.path))
		if err != nil || string(b) != string(w.data) {
			bad = "content of " + w.path + " is not what the node held"
			break
		}
	}
	cs = append(cs, core.Check{Tag: "O", What: "extract-content", Exp: "all readable", Got: bad, Sig: "extract-content"})
	// loading and saving
	cs = append(cs, core.Check{Tag: "O", What: "dir-loads", Exp: "ok", Got: r.pdClass, Sig: "dir-loads-" + r.pdClass})
	if r.pdClass != "ok" {
		return cs
	}
	cs = append(cs, core.Check{Tag: "O", What: "dir-saves", Exp: "ok", Got: r.dsClass, Sig: "dir-saves-" + r.dsStage + "-" + r.dsClass})
	if r.dsClass != "ok" {
		return cs
	}
	cs = append(cs, sameBytes("dirsave-equals-direct-save", r.direct, r.out))
	if r.second != nil {
		// saving is a fixed point: the hypothesis that links "two Assemble passes" to the direct save
		cs = append(cs, sameBytes("second-save-identical", r.direct, r.second))
	}
	cs = append(cs, core.Check{Tag: "O", What: "utk-run-roundtrip", Exp: "ok", Got: r.utkClass, Sig: "utk-run-" + r.utkClass})
	if r.utkClass == "ok" {
		cs = append(cs, sameBytes("utk-run-equals-direct-save", r.direct, r.utkOut))
	}
	if wellFormed {
		cs = append(cs, sameBytes("dirsave-equals-image", r.in, r.out))
	}
	return cs
}

func (r *rt) class() string {
	switch {
	case r.parseClass != "ok":
		return "parse-" + r.parseClass
	case r.exClass != "ok":
		return "extract-" + r.exClass
	case r.pdClass != "ok":
		return "load-" + r.pdClass
	case r.dsClass != "ok":
		return "dirsave-" + r.dsClass
	case r.directClass != "ok":
		return "direct-" + r.directClass
	case string(r.out) == string(r.in):
		return "identical"
	case string(r.out) == string(r.direct):
		return "equals-direct"
	}
	return "differs"
}
