// Package c07: harness for property C07 (not built yet).
package c07
