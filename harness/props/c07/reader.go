package c07

// An independent reader of firmware volumes, written from the PI specification (volume header,
// FFS files at 8-byte boundaries, sections at 4-byte boundaries, UTF-16 strings, dependency
// opcodes).  It does not call fiano.  It lists the layout-independent content of a volume — the
// same records expectedRecords derives from the reference grammar — so that the "an edit changes
// exactly that field" oracle needs neither fiano's parser nor its assembler.

import (
	"encoding/binary"
	"encoding/hex"
	"fmt"
	"strconv"
	"strings"
	"unicode/utf16"

	"verif/harness/core"
	hu "verif/harness/props/uefi"
)

var parsedTypes = map[uint8]bool{2: true, 3: true, 4: true, 5: true, 7: true, 8: true, 9: true, 10: true, 11: true, 12: true, 13: true, 14: true, 15: true}

func fnvRec(b []byte) string { return fmt.Sprintf("%d:%016x", len(b), core.FNV(b)) }

func utf16Name(b []byte) string {
	var u []uint16
	for i := 0; i+1 < len(b); i += 2 {
		u = append(u, binary.LittleEndian.Uint16(b[i:]))
	}
	if n := len(u); n > 0 && u[n-1] == 0 {
		u = u[:n-1] // the terminator
	}
	return cpsText(utf16.Decode(u))
}

func depexText(b []byte) string {
	var ps []string
	for i := 0; i < len(b); {
		op := b[i]
		i++
		if op <= 2 && i+16 <= len(b) {
			ps = append(ps, fmt.Sprintf("%d:%s", op, hex.EncodeToString(b[i:i+16])))
			i += 16
		} else {
			ps = append(ps, strconv.Itoa(int(op)))
		}
	}
	if len(ps) == 0 {
		return "-"
	}
	return strings.Join(ps, ",")
}

type reader struct {
	out []string
	err string
	// deep (gap closing round 3, gap3.go; nil = a GUID-defined section is one opaque record): a decoder
	// for the payload of a GUID-defined section; when it succeeds the children are listed instead
	deep func(rest []byte, size int, hl int) ([]byte, bool)
}

func (r *reader) fail(f string, a ...interface{}) {
	if r.err == "" {
		r.err = fmt.Sprintf(f, a...)
	}
}

func (r *reader) sections(b []byte) {
	for off := 0; off < len(b); {
		if off+4 > len(b) {
			r.fail("section header beyond the file at %#x", off)
			return
		}
		size := int(b[off]) | int(b[off+1])<<8 | int(b[off+2])<<16
		typ := b[off+3]
		hl := 4
		if size == 0xFFFFFF {
			if off+8 > len(b) {
				r.fail("extended section header beyond the file")
				return
			}
			size = int(binary.LittleEndian.Uint32(b[off+4:]))
			hl = 8
		}
		if size < hl || off+size > len(b) {
			r.fail("section of size %d at %#x does not fit its file (%d)", size, off, len(b))
			return
		}
		body := b[off+hl : off+size]
		switch {
		case typ == 0x02:
			if len(body) < 20 {
				r.fail("GUID-defined section without its header")
				return
			}
			if r.deep != nil {
				if inner, ok := r.deep(b[off:], size, hl); ok {
					r.out = append(r.out, fmt.Sprintf("sec type=2 guid=%s attrs=%d packed {", hex.EncodeToString(body[:16]),
						binary.LittleEndian.Uint16(body[18:])))
					r.sections(inner)
					r.out = append(r.out, "}")
					break
				}
			}
			r.out = append(r.out, fmt.Sprintf("sec type=2 guid=%s attrs=%d body=%s", hex.EncodeToString(body[:16]),
				binary.LittleEndian.Uint16(body[18:]), fnvRec(body[20:])))
		case typ == 0x15:
			r.out = append(r.out, "sec type=21 name="+utf16Name(body))
		case typ == 0x14:
			if len(body) < 2 {
				r.fail("version section too short")
				return
			}
			r.out = append(r.out, fmt.Sprintf("sec type=20 ver=%d:%s", binary.LittleEndian.Uint16(body), utf16Name(body[2:])))
		case typ == 0x13 || typ == 0x1b || typ == 0x1c:
			r.out = append(r.out, fmt.Sprintf("sec type=%d depex=%s", typ, depexText(body)))
		case typ == 0x17:
			r.out = append(r.out, "sec type=23 volume")
			r.volume(body, true)
		default:
			r.out = append(r.out, fmt.Sprintf("sec type=%d body=%s", typ, fnvRec(body)))
		}
		off = (off + size + 3) &^ 3
	}
}

// volume reads one firmware volume occupying exactly b.
func (r *reader) volume(b []byte, nested bool) {
	if len(b) < 64 || string(b[40:44]) != "_FVH" {
		r.fail("no volume header")
		return
	}
	length := int(binary.LittleEndian.Uint64(b[32:]))
	attrs := binary.LittleEndian.Uint32(b[44:])
	hlen := int(binary.LittleEndian.Uint16(b[48:]))
	eho := int(binary.LittleEndian.Uint16(b[52:]))
	if length != len(b) {
		r.fail("volume length %d in a space of %d", length, len(b))
		return
	}
	var sum uint16
	for i := 0; i+1 < hlen && i+1 < len(b); i += 2 {
		sum += binary.LittleEndian.Uint16(b[i:])
	}
	if sum != 0 {
		r.fail("volume header checksum")
		return
	}
	fs := string(b[16:32])
	if fs != string(hu.GuidFFS2) && fs != string(hu.GuidFFS3) {
		r.out = append(r.out, fmt.Sprintf("fv attrs=%d other=%s", attrs, fnvRec(b[hlen:])))
		return
	}
	rec := fmt.Sprintf("fv attrs=%d rev=%d", attrs, b[55])
	off := hlen
	if eho != 0 {
		if eho+20 > len(b) {
			r.fail("extended volume header outside the volume")
			return
		}
		es := int(binary.LittleEndian.Uint32(b[eho+16:]))
		rec += fmt.Sprintf(" name=%s ext=%s", hex.EncodeToString(b[eho:eho+16]), fnvRec(b[eho+20:eho+es]))
		off = eho + es
	}
	r.out = append(r.out, rec)
	for {
		off = (off + 7) &^ 7
		if off+24 > len(b) {
			break
		}
		h := b[off : off+24]
		erased := true
		for _, x := range h {
			if x != 0xFF {
				erased = false
			}
		}
		if erased {
			break
		}
		size := int(h[20]) | int(h[21])<<8 | int(h[22])<<16
		hl := 24
		if size == 0xFFFFFF {
			if off+32 > len(b) {
				r.fail("extended file header outside the volume")
				return
			}
			size = int(binary.LittleEndian.Uint64(b[off+24:]))
			hl = 32
		}
		if size < hl || off+size > len(b) {
			r.fail("file of size %d at %#x does not fit its volume (%d)", size, off, len(b))
			return
		}
		file := b[off : off+size]
		typ, fattrs, state := h[18], h[19], h[23]
		if typ != 0xF0 {
			// header checksum: the header sums to zero without the body checksum and the state
			var s uint8
			for i, x := range file[:hl] {
				if i != 17 && i != 23 {
					s += x
				}
			}
			rec := fmt.Sprintf("file guid=%s type=%d attrs=%d state=%d", hex.EncodeToString(h[:16]), typ, fattrs&^1, state)
			if !parsedTypes[typ] || size == hl {
				r.out = append(r.out, rec+" opaque="+fnvRec(file))
			} else {
				if s != 0 {
					r.fail("header checksum of file at %#x", off)
					return
				}
				want := uint8(0xAA)
				if fattrs&0x40 != 0 {
					want = 0
					for _, x := range file[hl:] {
						want -= x
					}
				}
				if h[17] != want {
					r.fail("body checksum of file at %#x", off)
					return
				}
				r.out = append(r.out, rec)
				r.sections(file[hl:])
			}
		}
		off += size
	}
	// the rest must be free space
	for _, x := range b[off:] {
		if x != 0xFF && off < len(b) {
			r.fail("data after the last file of a volume")
			return
		}
	}
}

// ---------------------------------------------------------------- the same records from the grammar

func expectSecs(secs []*hu.Sec, ed *edit, out *[]string) {
	for _, s := range secs {
		switch s.Kind {
		case "sl":
			*out = append(*out, fmt.Sprintf("sec type=%d body=%s", s.Type, fnvRec(s.Body)))
		case "sg":
			*out = append(*out, fmt.Sprintf("sec type=2 guid=%s attrs=%d body=%s", hex.EncodeToString(s.GUID), s.Attrs, fnvRec(s.Body)))
		case "su":
			n := cpsText(s.Name)
			if ed != nil && ed.kind == "name" && n == ed.old {
				n = ed.new
			}
			*out = append(*out, "sec type=21 name="+n)
		case "sv":
			v := fmt.Sprintf("%d:%s", s.Build, cpsText(s.Name))
			if ed != nil && ed.kind == "ver" && v == ed.old {
				v = ed.new
			}
			*out = append(*out, "sec type=20 ver="+v)
		case "sd":
			o := opsText(s.Ops)
			if ed != nil && ed.kind == "depex" && o == ed.old {
				o = ed.new
			}
			*out = append(*out, fmt.Sprintf("sec type=%d depex=%s", s.Type, o))
		case "sf":
			*out = append(*out, "sec type=23 volume")
			expectVolume(s.FV, ed, out)
		}
	}
}

func expectVolume(v *hu.FV, ed *edit, out *[]string) {
	if v.Other {
		*out = append(*out, fmt.Sprintf("fv attrs=%d other=%s", v.Attrs, fnvRec(v.Body)))
		return
	}
	rec := fmt.Sprintf("fv attrs=%d rev=%d", v.Attrs, v.Rev)
	if e := v.ExtHdr; e != nil {
		rec += fmt.Sprintf(" name=%s ext=%s", hex.EncodeToString(e.FVName), fnvRec(e.Data))
	}
	*out = append(*out, rec)
	for _, f := range v.Files {
		if f.Type == 0xF0 {
			continue
		}
		g := hex.EncodeToString(f.GUID)
		if f.Kind == "fl" {
			*out = append(*out, fmt.Sprintf("file guid=%s type=%d attrs=%d state=%d opaque=%s", g, f.Type, f.Attrs&^1, f.State, fnvRec(f.Ser())))
			continue
		}
		if ed != nil && ed.kind == "guid" && g == ed.old {
			g = ed.new
		}
		*out = append(*out, fmt.Sprintf("file guid=%s type=%d attrs=%d state=%d", g, f.Type, f.Attrs&^1, f.State))
		expectSecs(f.Secs, ed, out)
	}
}

// contentCheck compares the reassembled image `got` with the reference image `img` edited by ed:
// every top-level volume (same place, same length) must hold the expected records, every byte
// outside the volumes must be the original one.
func contentCheck(img *hu.Img, orig, got []byte, ed *edit) string {
	if len(got) != len(orig) {
		return fmt.Sprintf("image length %d became %d", len(orig), len(got))
	}
	type span struct {
		off int
		fv  *hu.FV
	}
	var spans []span
	bios := func(b *hu.Bios, off int) {
		for _, it := range b.Items {
			off += len(it.Pad)
			spans = append(spans, span{off, it.FV})
			off += it.FV.Size()
		}
	}
	if img.Flash != nil {
		off := 4096
		for _, r := range img.Flash.Regions {
			if r.Kind == "rb" {
				bios(r.Bios, off)
			}
			off += len(r.Bytes())
		}
	} else {
		bios(img.Bios, 0)
	}
	pos := 0
	for _, s := range spans {
		if string(orig[pos:s.off]) != string(got[pos:s.off]) {
			return fmt.Sprintf("bytes outside the volumes changed in [%#x,%#x)", pos, s.off)
		}
		n := s.fv.Size()
		var want []string
		expectVolume(s.fv, ed, &want)
		rd := &reader{}
		rd.volume(got[s.off:s.off+n], false)
		if rd.err != "" {
			return fmt.Sprintf("volume at %#x: %s", s.off, rd.err)
		}
		if d := diffRecords(want, rd.out); d != "same" {
			return fmt.Sprintf("volume at %#x: %s", s.off, d)
		}
		pos = s.off + n
	}
	if string(orig[pos:]) != string(got[pos:]) {
		return fmt.Sprintf("bytes outside the volumes changed in [%#x,%#x)", pos, len(orig))
	}
	return "same"
}
