// Package c07: extracting an image to a directory and reassembling from the directory reproduces
// the image; an edit of a human-editable field of summary.json changes exactly that field
// (visitors.Extract / ParseDir / Assemble / Save and the JSON marshalling of pkg/uefi against the
// model lean/FianoModel/Uefi/Extract.lean).
package c07

import (
	"encoding/hex"
	"fmt"
	"math/rand"
	"os"
	"path/filepath"
	"strings"

	"verif/harness/core"
	hu "verif/harness/props/uefi"
)

type prop struct{}

func init() { core.Register(prop{}) }

func (prop) ID() string { return "C07" }

func editOf(c core.Case) *edit {
	if c.Args["edit"] == "" {
		return nil
	}
	return &edit{kind: c.Args["edit"], old: c.Args["old"], new: c.Args["new"]}
}

func diffRecords(want, got []string) string {
	n := len(want)
	if len(got) < n {
		n = len(got)
	}
	for i := 0; i < n; i++ {
		if want[i] != got[i] {
			w, g := want[i], got[i]
			if len(w) > 160 {
				w = w[:160]
			}
			if len(g) > 160 {
				g = g[:160]
			}
			return fmt.Sprintf("record %d: expected {%s} got {%s}", i, w, g)
		}
	}
	if len(want) != len(got) {
		return fmt.Sprintf("%d records expected, %d found", len(want), len(got))
	}
	return "same"
}

// editChecks: the oracles of the second half of the property.
func (r *rt) editChecks(img *hu.Img, ed *edit) []core.Check {
	var cs []core.Check
	if r.parseClass != "ok" || r.exClass != "ok" || r.directClass != "ok" {
		return cs
	}
	cs = append(cs, core.Check{Tag: "O", What: "edited-dir-loads", Exp: "ok", Got: r.pdClass, Sig: "edited-dir-loads-" + r.pdClass})
	if r.pdClass != "ok" {
		return cs
	}
	// editing the JSON is editing the field of the tree: same outcome, same bytes
	cs = append(cs, core.Check{Tag: "O", What: "edit-json-as-memory-outcome", Exp: r.memClass, Got: r.dsClass, Sig: "edit-json-as-memory-outcome"})
	if r.dsClass != "ok" || r.memClass != "ok" {
		return cs // e.g. the volume is out of space with the longer name: both refuse
	}
	cs = append(cs, sameBytes("edit-json-as-memory", r.mem, r.out))
	// exactly that field: read by an independent reader, the reassembled image holds what the
	// reference image holds, with the field replaced — and nothing outside the volumes changed
	cs = append(cs, core.Check{Tag: "O", What: "edit-changes-exactly-that-field", Exp: "same", Got: contentCheck(img, r.in, r.out, ed), Sig: "edit-changes-exactly-that-field"})
	return cs
}

func (prop) Run(c core.Case) core.Outcome {
	switch c.Op {
	case "img", "hex", "file":
		var in []byte
		var img *hu.Img
		switch c.Op {
		case "img":
			img = hu.ParseRecipe(c.Args["recipe"])
			in = img.Ser()
		case "hex":
			in = core.UnHex(c.Args["hex"])
		default:
			root := os.Getenv("VERIF_REPO")
			if root == "" {
				root = "/repo"
			}
			b, err := os.ReadFile(filepath.Join(root, c.Args["path"]))
			if err != nil {
				return core.Outcome{Class: "file-missing", Trivial: true}
			}
			in = b
		}
		ed := editOf(c)
		r := roundTrip(in, ed)
		out := core.Outcome{Class: c.Kind + ":" + r.class()}
		req := "rt " + core.Hex(in)
		if ed != nil {
			req = fmt.Sprintf("edit %s %s %s %s", ed.kind, ed.old, ed.new, core.Hex(in))
		}
		exp := r.modelLine(ed != nil)
		out.Key = exp
		out.Checks = append(out.Checks, core.Check{Tag: "M", What: "roundtrip", Req: req, Exp: exp})
		wf := c.Args["wf"] == "1"
		if wf && r.parseClass == "ok" {
			// follow-up wp-c07b: on every well-formed image the hypotheses of the round-trip theorems of
			// Props/C07.lean (okTree, pwTree, TopPol, the side condition savedOkAll of the fixed-point theorem),
			// evaluated by the driver on the parsed (and, for edits, edited) tree, hold — so the theorems speak
			// about the cases that are run, and `second-save-identical` below is their conclusion observed
			hreq := "hyp " + core.Hex(in)
			if ed != nil {
				hreq = fmt.Sprintf("hypedit %s %s %s %s", ed.kind, ed.old, ed.new, core.Hex(in))
			}
			out.Checks = append(out.Checks, core.Check{Tag: "M", What: "theorem-hypotheses-hold", Req: hreq, Exp: "ok", Sig: "hyp"})
		}
		if wf || c.Op == "file" {
			if ed == nil {
				if wf {
					out.Checks = append(out.Checks, core.Check{Tag: "O", What: "wellformed-image-saves", Exp: "ok", Got: r.directClass, Sig: "direct-" + r.directClass})
				}
				out.Checks = append(out.Checks, r.roundTripChecks(wf)...)
				out.Checks = append(out.Checks, r.meChecks()...)
				if wf && img != nil && r.dsClass == "ok" && r.exClass == "ok" && r.pdClass == "ok" {
					// the independent reader agrees on an unedited image (this also validates the reader)
					out.Checks = append(out.Checks, core.Check{Tag: "O", What: "reassembled-content", Exp: "same", Got: contentCheck(img, r.in, r.out, nil), Sig: "reassembled-content"})
				}
			} else {
				if r.editApplied == 0 {
					out.Class = c.Kind + ":edit-target-missing"
					out.Trivial = true
				}
				out.Checks = append(out.Checks, r.editChecks(img, ed)...)
			}
		}
		return out
	case "nvar":
		return runNvar(c)
	case "cimg": // gap closing round 3: images with compressed sections (gap3.go)
		return runComp(c)
	}
	panic("c07: unknown op " + c.Op)
}

// ---------------------------------------------------------------- generators

func imgCase(kind string, img *hu.Img, wf string) core.Case {
	return core.Case{Kind: kind, Op: "img", Args: map[string]string{"recipe": img.Recipe(), "wf": wf}}
}

// volumes lists every volume of the image, nested ones included.
func volumes(img *hu.Img) []*hu.FV {
	var out []*hu.FV
	var walk func(v *hu.FV)
	walk = func(v *hu.FV) {
		out = append(out, v)
		for _, f := range v.Files {
			for _, s := range f.Secs {
				if s.Kind == "sf" {
					walk(s.FV)
				}
			}
		}
	}
	bios := func(b *hu.Bios) {
		for _, it := range b.Items {
			walk(it.FV)
		}
	}
	if img.Flash != nil {
		for _, r := range img.Flash.Regions {
			if r.Kind == "rb" {
				bios(r.Bios)
			}
		}
	} else {
		bios(img.Bios)
	}
	return out
}

func realFiles(img *hu.Img) []*hu.File {
	var out []*hu.File
	for _, v := range volumes(img) {
		for _, f := range v.Files {
			if f.Type != 0xF0 {
				out = append(out, f)
			}
		}
	}
	return out
}

// duplicateGUIDs gives some files the GUID of another file (inside one volume, across volumes,
// across nesting levels).  Sizes do not change, so the layout stays well-formed; the header
// checksum of a leaf file is recomputed when it was the right one.
func duplicateGUIDs(r *rand.Rand, img *hu.Img) int {
	fs := realFiles(img)
	if len(fs) < 2 {
		return 0
	}
	n := 1 + r.Intn(3)
	if r.Intn(4) == 0 {
		n = len(fs) // everything gets the same few GUIDs
	}
	done := 0
	for k := 0; k < n; k++ {
		src, dst := fs[r.Intn(len(fs))], fs[r.Intn(len(fs))]
		if src == dst || string(src.GUID) == string(hu.GuidNVAR) {
			continue
		}
		if dst.Kind == "fl" {
			hl := 24
			if dst.Ext {
				hl = 32
			}
			right := dst.CkH == hu.HeaderChecksum(dst, hl+len(dst.Body))
			dst.GUID = append([]byte{}, src.GUID...)
			if right {
				dst.CkH = hu.HeaderChecksum(dst, hl+len(dst.Body))
			}
		} else {
			dst.GUID = append([]byte{}, src.GUID...)
		}
		done++
	}
	return done
}

func genImage(r *rand.Rand, tier string) (*hu.Img, string) {
	g := &hu.Gen{R: r, MaxAlign: 4, Depth: 2}
	if r.Intn(6) == 0 {
		g.MaxAlign = 5
	}
	if r.Intn(5) == 0 {
		g.Depth = 3
	}
	switch k := r.Intn(10); {
	case k < 2:
		budget := 256 + r.Intn(8*1024)
		if r.Intn(8) == 0 {
			budget = 48 * 1024
		}
		return &hu.Img{Bios: &hu.Bios{Items: []hu.Item{{FV: g.FV(budget, r.Intn(4) == 0)}}}}, "fv"
	case k < 6:
		return &hu.Img{Bios: g.Bios(0, 1+r.Intn(4))}, "bios"
	default:
		blocks := 1 + r.Intn(6)
		if r.Intn(5) == 0 {
			blocks = 8 + r.Intn(8)
		}
		return &hu.Img{Flash: g.Flash(blocks)}, "flash"
	}
}

func newName(r *rand.Rand, old []rune) []rune {
	var out []rune
	n := len(old) + r.Intn(5) - 2
	if n < 0 || r.Intn(10) == 0 {
		n = 0
	}
	if r.Intn(10) == 0 {
		n += 20 + r.Intn(60) // may not fit the volume any more
	}
	for i := 0; i < n; i++ {
		switch r.Intn(14) {
		case 0:
			out = append(out, rune(0x80+r.Intn(0xD800-0x80)))
		case 1:
			out = append(out, rune(0xE000+r.Intn(0x2000)))
		case 2:
			out = append(out, rune(0x10000+r.Intn(0x100000)))
		case 3:
			out = append(out, []rune{'"', '\\', '/', '<', '>', '&', 0x2028, '\n', '\t', 0x7f, 1}[r.Intn(11)]) // what JSON escapes
		default:
			out = append(out, rune(' '+r.Intn(95)))
		}
	}
	if string(out) == string(old) {
		out = append(out, 'x')
	}
	return out
}

// pickEdit chooses one editable field of the image and a new value for it.
func pickEdit(r *rand.Rand, img *hu.Img) *edit {
	type cand struct{ kind, old string; sec *hu.Sec }
	var cs []cand
	for _, v := range volumes(img) {
		for _, f := range v.Files {
			if f.Kind != "fs" {
				continue
			}
			cs = append(cs, cand{"guid", hex.EncodeToString(f.GUID), nil})
			for _, s := range f.Secs {
				switch s.Kind {
				case "su":
					cs = append(cs, cand{"name", cpsText(s.Name), s})
				case "sv":
					cs = append(cs, cand{"ver", fmt.Sprintf("%d:%s", s.Build, cpsText(s.Name)), s})
				case "sd":
					cs = append(cs, cand{"depex", opsText(s.Ops), s})
				}
			}
		}
	}
	if len(cs) == 0 {
		return nil
	}
	// prefer the rarer kinds
	var pick cand
	want := []string{"guid", "name", "ver", "depex"}[r.Intn(4)]
	var of []cand
	for _, c := range cs {
		if c.kind == want {
			of = append(of, c)
		}
	}
	if len(of) == 0 {
		of = cs
	}
	pick = of[r.Intn(len(of))]
	e := &edit{kind: pick.kind, old: pick.old}
	switch pick.kind {
	case "guid":
		g := make([]byte, 16)
		r.Read(g)
		if r.Intn(6) == 0 { // the GUID of another file: a duplicate appears
			fs := realFiles(img)
			g = append([]byte{}, fs[r.Intn(len(fs))].GUID...)
		}
		e.new = hex.EncodeToString(g)
	case "name":
		e.new = cpsText(newName(r, pick.sec.Name))
	case "ver":
		b := int(pick.sec.Build)
		nm := pick.sec.Name
		switch r.Intn(3) {
		case 0:
			b = r.Intn(65536)
		case 1:
			nm = newName(r, nm)
		default:
			b, nm = r.Intn(65536), newName(r, nm)
		}
		e.new = fmt.Sprintf("%d:%s", b, cpsText(nm))
	case "depex":
		// a variation of the old expression (usually the same size or smaller, sometimes longer)
		ops := append([]hu.DepOp{}, pick.sec.Ops...)
		body := ops[:len(ops)-1] // without END
		rg := func() []byte { b := make([]byte, 16); r.Read(b); return b }
		switch k := r.Intn(5); {
		case k == 0 && len(body) > 0: // drop one
			i := r.Intn(len(body))
			body = append(append([]hu.DepOp{}, body[:i]...), body[i+1:]...)
		case k == 1 && len(body) > 0: // another GUID / another opcode of the same shape
			i := r.Intn(len(body))
			body = append([]hu.DepOp{}, body...)
			if body[i].Op <= 2 {
				body[i] = hu.DepOp{Op: uint8(r.Intn(3)), GUID: rg()}
			} else {
				body[i] = hu.DepOp{Op: uint8([]int{3, 4, 5, 6, 7, 9}[r.Intn(6)])}
			}
		case k == 2: // insert one without a GUID
			i := r.Intn(len(body) + 1)
			body = append(append(append([]hu.DepOp{}, body[:i]...), hu.DepOp{Op: uint8([]int{3, 4, 5, 6, 7, 9}[r.Intn(6)])}), body[i:]...)
		case k == 3: // insert one with a GUID
			i := r.Intn(len(body) + 1)
			body = append(append(append([]hu.DepOp{}, body[:i]...), hu.DepOp{Op: uint8(r.Intn(3)), GUID: rg()}), body[i:]...)
		default: // a new expression
			body = nil
			for n := r.Intn(4); n > 0; n-- {
				op := uint8([]int{0, 1, 2, 2, 3, 4, 5, 6, 7, 9}[r.Intn(10)])
				d := hu.DepOp{Op: op}
				if op <= 2 {
					d.GUID = rg()
				}
				body = append(body, d)
			}
		}
		ops = append(append([]hu.DepOp{}, body...), hu.DepOp{Op: 8})
		e.new = opsText(ops)
	}
	if e.new == e.old {
		return nil
	}
	return e
}

func (prop) Gen(r *rand.Rand, tier string) []core.Case {
	var cs []core.Case
	cs = append(cs, core.Case{Kind: "file", Op: "file", Args: map[string]string{"path": "integration/roms/ovmfSECFV.fv"}})
	n, ne, nm := 260, 220, 80
	if tier == "thorough" {
		n, ne, nm = 5000, 4000, 1500
	}
	// plain round trips
	for i := 0; i < n; i++ {
		img, kind := genImage(r, tier)
		if r.Intn(2) == 0 {
			if duplicateGUIDs(r, img) > 0 {
				kind += "-dup"
			}
		}
		cs = append(cs, imgCase("wf-"+kind, img, "1"))
	}
	// follow-up wp-c07c: ME regions with hand-made partition tables
	nme := 30
	if tier == "thorough" {
		nme = 400
	}
	cs = append(cs, meCases(r, nme)...)
	// single-field edits
	for i := 0; i < ne; i++ {
		img, kind := genImage(r, tier)
		if r.Intn(3) == 0 {
			duplicateGUIDs(r, img)
		}
		e := pickEdit(r, img)
		if e == nil {
			continue
		}
		c := imgCase("edit-"+e.kind+"-"+kind, img, "1")
		c.Args["edit"], c.Args["old"], c.Args["new"] = e.kind, e.old, e.new
		cs = append(cs, c)
	}
	// dependency expressions of MM / SMM drivers (EFI_SECTION_MM_DEPEX, 0x1C) and of PEIMs (0x1B): every
	// depex section of the image gets the type, then one of them is edited (seeded defect c07-2: the MM
	// case dropped from Assemble's leaf switch — only an edit shows it)
	nd := 24
	if tier == "thorough" {
		nd = 400
	}
	for i := 0; i < nd; i++ {
		img, kind := genImage(r, tier)
		ty := uint8(0x1c)
		tag := "mmdepex"
		if i%4 == 3 {
			ty, tag = 0x1b, "peidepex"
		}
		for _, v := range volumes(img) {
			for _, f := range v.Files {
				for _, s := range f.Secs {
					if s.Kind == "sd" {
						s.Type = ty
					}
				}
			}
		}
		var e *edit
		for try := 0; try < 24 && (e == nil || e.kind != "depex"); try++ {
			e = pickEdit(r, img)
		}
		if e == nil || e.kind != "depex" {
			continue
		}
		c := imgCase("edit-"+tag+"-"+kind, img, "1")
		c.Args["edit"], c.Args["old"], c.Args["new"] = e.kind, e.old, e.new
		cs = append(cs, c)
	}
	cs = append(cs, mutants(r, nm)...)
	cs = append(cs, nvarCases(r, tier)...)
	cs = append(cs, compCases(r, tier)...) // gap closing round 3 (gap3.go)
	return cs
}

// mutants: small images with a few header bytes changed — outside the grammar; only the
// model/implementation correspondence is checked on them.
func mutants(r *rand.Rand, n int) []core.Case {
	var cs []core.Case
	for i := 0; i < n; i++ {
		g := &hu.Gen{R: r, MaxAlign: 3, Depth: 1}
		var img *hu.Img
		if r.Intn(3) == 0 {
			img = &hu.Img{Flash: g.Flash(1 + r.Intn(2))}
		} else {
			img = &hu.Img{Bios: g.Bios(0, 1+r.Intn(2))}
		}
		b := img.Ser()
		if len(b) > 20000 {
			continue
		}
		marks := img.Marks()
		for k := 1 + r.Intn(2); k > 0; k-- {
			off := r.Intn(len(b))
			if len(marks) > 0 && r.Intn(8) != 0 {
				m := marks[r.Intn(len(marks))]
				off = m.Off + r.Intn(m.Len)
			}
			switch r.Intn(5) {
			case 0:
				b[off] = 0xFF
			case 1:
				b[off] = 0
			case 2:
				b[off] ^= 1 << uint(r.Intn(8))
			case 3:
				b[off]++
			default:
				b[off] = byte(r.Intn(256))
			}
		}
		cs = append(cs, core.Case{Kind: "mutant", Op: "hex", Args: map[string]string{"hex": core.Hex(b)}})
	}
	return cs
}

var _ = strings.Join
