package c07

// Gap closing round 3 (seeded defect c07-7 and its neighbours): images with COMPRESSED sections.
//
// The reference grammar of harness/props/uefi only produces GUID-defined sections that nobody decodes
// (leaves: their buffer is written to a file and read back, the type specific header that comes back
// from summary.json is never used).  A GUID-defined section with the processing-required bit and a
// codec GUID (LZMA, LZMA+x86, ZLIB) is different: uefi.Parse decodes it into child sections, Extract
// writes only the children, and Assemble REBUILDS the section from the children and from the type
// specific header (GUID -> compressor, Attributes -> whether to compress at all, the 20 header bytes)
// that summary.json carried.  This is the only place where the GUID / Attributes / DataOffset /
// Compression fields of summary.json decide bytes of the reassembled image, and it is the layout of
// every real UEFI image (a volume inside an LZMA section) — "the input itself when nothing is
// compressed" in the property text is about exactly these images.
//
// Stream "comp" (op "cimg"; the image is still a reference-grammar recipe, the compressed payload is
// the body of an "sg" section):
//   * files whose sections mix compressed sections of the three codecs (children: leaves, UI, version,
//     depex, opaque GUID-defined sections, nested compressed sections, nested volumes that again hold
//     compressed sections) with opaque GUID-defined sections whose type specific headers DIFFER from
//     them in GUID, attributes and data offset (CRC32 guided with a 4-byte checksum after the header,
//     unknown GUID, codec GUID without the processing bit, processing bit with an unknown GUID,
//     truncated LZMA stream, BROTLI, an LZMA stream of nothing) — in every order: before, after,
//     inside, in the next file, in the next volume;
//   * nine fixed shapes first (so that every run has them), then random mixes;
//   * a third of the cases edits one field (file GUID, UI name, version, depex) that lives INSIDE a
//     compressed section or names the file that holds one.
// Nothing is compared with the Lean model (its decompressor hooks are abstract: Hooks.none in the
// driver); the checks are the property's oracles on the implementation's own output:
//   dirsave-equals-direct-save, second-save-identical, utk-run-equals-direct-save, unique paths, file
//   count, ... (roundTripChecks, unchanged — without dirsave-equals-image: the property promises the
//   input itself only "when nothing is compressed"), and for edits edit-json-as-memory(-outcome) plus
//   edit-changes-exactly-that-field-deep: the independent reader of reader.go, told to look inside
//   compressed sections with decoders that are not fiano's (compress/zlib, the xz program), lists the
//   same content for the edited reassembly as for the direct save, with exactly the edited field
//   replaced.

import (
	"bytes"
	"compress/zlib"
	"encoding/binary"
	"encoding/hex"
	"flag"
	"fmt"
	"io"
	"math/rand"
	"os/exec"
	"strings"

	"github.com/linuxboot/fiano/pkg/compression"
	"github.com/linuxboot/fiano/pkg/guid"
	fuefi "github.com/linuxboot/fiano/pkg/uefi"

	"verif/harness/core"
	hu "verif/harness/props/uefi"
)

func unhex(s string) []byte {
	b, err := hex.DecodeString(s)
	if err != nil {
		panic(err)
	}
	return b
}

var (
	gBrotli  = unhex("5020533dda5cd04f879e0f7f630d5afb")
	gLZMA    = unhex("98584eee143959429d6edc7bd79403cf")
	gLZMAX86 = unhex("bde62ad45213fb4b909aca72a6eae889")
	gZLIB    = unhex("f53332ced62c874d91524a238bb6d1c4")
	gCRC32   = unhex("b0cd1bfc317daa49936aa4600d9dd083") // FC1BCDB0-7D31-49AA-936A-A4600D9DD083
	codecs   = [][]byte{gLZMA, gLZMAX86, gZLIB}
)

func up(x, a int) int { return (x + a - 1) / a * a }

// joinSecs lays sections out the way the PI specification does inside a file or an encapsulation
// section: every section starts at a multiple of 4, gaps are zero.
func joinSecs(secs []*hu.Sec) []byte {
	var out []byte
	for _, s := range secs {
		for len(out)%4 != 0 {
			out = append(out, 0)
		}
		out = append(out, s.Ser()...)
	}
	return out
}

// xzSmall compresses with the xz program into the 13-byte-header .lzma form the tool reads (size
// stored, as EDK2 wants it), with a 4 KiB dictionary: the tool's Go decoder allocates the dictionary
// of the header on every decode (16 MiB for the tool's own -7 streams), and every case parses the
// image several times.  x86: the BCJ filter in front (the LZMA+x86 GUID).
func xzSmall(data []byte, x86 bool) []byte {
	args := []string{"--format=raw"}
	if x86 {
		args = append(args, "--x86")
	}
	args = append(args, "--lzma1=dict=4KiB,lc=3,lp=0,pb=2", "--stdout")
	cmd := exec.Command("xz", args...)
	cmd.Stdin = bytes.NewReader(data)
	raw, err := cmd.Output()
	if err != nil {
		panic("c07: generator cannot run xz: " + err.Error())
	}
	h := []byte{0x5d, 0, 0x10, 0, 0}
	h = binary.LittleEndian.AppendUint64(h, uint64(len(data)))
	return append(h, raw...)
}

// encodeWith compresses for a codec GUID: LZMA streams come from xz with a small dictionary (own is
// false) or, like ZLIB, from the encoder the tool itself uses for that GUID (then a direct save
// usually reproduces the image; nothing below relies on that).
func encodeWith(codec []byte, data []byte, own bool) []byte {
	if !own && string(codec) != string(gZLIB) {
		return xzSmall(data, string(codec) == string(gLZMAX86))
	}
	var g guid.GUID
	copy(g[:], codec)
	c := compression.CompressorFromGUID(&g)
	if c == nil {
		panic("c07: no compressor for " + hex.EncodeToString(codec))
	}
	b, err := c.Encode(data)
	if err != nil {
		panic("c07: generator cannot compress: " + err.Error())
	}
	return b
}

// compGen builds the images of the stream.
type compGen struct {
	r *rand.Rand
	g *hu.Gen
	// the editable sections that ended up inside a compressed section, and the files holding one
	inner []*hu.Sec
	files []*hu.File
	// codec forces the codec of the next compressed sections (nil: random)
	codec []byte
	// own: the LZMA streams of the image are the tool's own (16 MiB dictionary) instead of small ones
	own bool
}

func (c *compGen) bytesN(n int) []byte {
	b := make([]byte, n)
	switch c.r.Intn(3) {
	case 0:
		for i := range b {
			b[i] = byte('a' + i%7)
		}
	default:
		c.r.Read(b)
	}
	return b
}

// packed: a GUID-defined section that the tool decodes (processing required, codec GUID).
//
// last: the section is the last one of its container.  The tool hands a decoder everything up to the
// end of the container; its ZLIB reader compares the stored stream size with that, so a ZLIB section
// followed by a sibling is not decoded at all (it stays an opaque leaf and round-trips as such): ZLIB
// is only used in last position, where it is decoded.
func (c *compGen) packed(codec []byte, children []*hu.Sec, last bool) *hu.Sec {
	if !last && string(codec) == string(gZLIB) {
		codec = codecs[c.r.Intn(2)]
	}
	extra := []int{0, 0, 0, 4, 8}[c.r.Intn(5)] // bytes between the header and the data (dropped by both saves)
	attrs := uint16(1)
	if c.r.Intn(3) == 0 {
		attrs |= 2 // auth status valid
	}
	if c.r.Intn(8) == 0 {
		attrs |= uint16(c.r.Intn(0x4000)) << 2 // reserved bits are carried along
	}
	body := append(c.bytesN(extra), encodeWith(codec, joinSecs(children), c.own)...)
	for _, s := range children {
		if s.Kind == "su" || s.Kind == "sv" || s.Kind == "sd" {
			c.inner = append(c.inner, s)
		}
	}
	return &hu.Sec{Kind: "sg", GUID: codec, DataOffset: uint16(24 + extra), Attrs: attrs, Body: body}
}

// opaque: a GUID-defined section that stays a leaf, with a type specific header unlike the packed ones.
func (c *compGen) opaque() *hu.Sec { return c.opaqueOf(c.r.Intn(9)) }

// opaqueOf: variant k of the above (0 = CRC32 guided).
func (c *compGen) opaqueOf(k int) *hu.Sec {
	rg := func() []byte { b := make([]byte, 16); c.r.Read(b); return b }
	payload := joinSecs([]*hu.Sec{{Kind: "sl", Type: 0x19, Body: c.bytesN(1 + c.r.Intn(40))}})
	s := &hu.Sec{Kind: "sg", GUID: rg(), DataOffset: 24, Body: payload}
	switch k {
	case 0, 1: // CRC32 guided section: auth status valid, the checksum sits between header and data
		s.GUID, s.Attrs, s.DataOffset = gCRC32, 2, 28
		s.Body = append(c.bytesN(4), payload...)
	case 2: // nobody knows the GUID, no attributes
	case 3:
		s.Attrs = uint16(c.r.Intn(0x8000)) * 2
		s.DataOffset = uint16(c.r.Intn(65536))
	case 4: // a codec GUID without the processing bit: not decoded
		s.GUID, s.Attrs = codecs[c.r.Intn(3)], uint16(c.r.Intn(2)*2)
	case 5: // processing required, but nobody knows the GUID
		s.Attrs = 1
	case 6: // an LZMA stream cut short: cannot be decoded, kept as it is
		full := encodeWith(gLZMA, c.bytesN(200+c.r.Intn(200)), false)
		s.GUID, s.Attrs, s.Body = gLZMA, 1, full[:len(full)*2/3]
	case 7: // BROTLI: no decoder in this environment (or not a brotli stream)
		s.GUID, s.Attrs, s.Body = gBrotli, 1, c.bytesN(20+c.r.Intn(40))
	default: // a well-formed compressed stream of nothing: no children, a leaf
		s.GUID, s.Attrs, s.Body = gLZMA, 1, encodeWith(gLZMA, nil, false)
	}
	return s
}

func (c *compGen) pickCodec() []byte {
	if c.codec != nil {
		return c.codec
	}
	return codecs[c.r.Intn(3)]
}

// children of a compressed section at nesting depth d.
func (c *compGen) children(d int) []*hu.Sec {
	var out []*hu.Sec
	for n := 1 + c.r.Intn(3); n > 0; n-- {
		switch k := c.r.Intn(10); {
		case k < 2:
			out = append(out, c.opaque())
		case k < 3 && d < 2:
			out = append(out, c.packed(c.pickCodec(), c.children(d+1), n == 1))
		case k < 4 && d < 1:
			out = append(out, &hu.Sec{Kind: "sf", FV: c.volume(d+1, 1+c.r.Intn(2))})
		default:
			g := *c.g
			g.NoNested = d >= 1
			out = append(out, g.Sec(300))
		}
	}
	return out
}

// file: a sectioned file; `shape` says which GUID-defined sections it gets ("" = random mix).
func (c *compGen) file(d int, shape string) *hu.File {
	f := &hu.File{Kind: "fs", GUID: make([]byte, 16), Type: []uint8{2, 4, 7, 7, 9, 11}[c.r.Intn(6)], State: 0xF8}
	c.r.Read(f.GUID)
	if c.r.Intn(2) == 0 {
		f.Attrs |= 0x40
	}
	// no data alignment: both saves drop the bytes between a GUID-defined header and its data, and a file
	// that shrinks in front of an aligned one can push that one to the next boundary — out of a tight
	// volume (the tool then refuses both saves; covered by dirsave-outcome-as-direct-save, but useless)
	holds := false
	add := func(k byte, last bool) {
		switch k {
		case 'L', 'X', 'Z':
			codec := map[byte][]byte{'L': gLZMA, 'X': gLZMAX86, 'Z': gZLIB}[k]
			f.Secs = append(f.Secs, c.packed(codec, c.children(d), last))
			holds = true
		case 'P':
			f.Secs = append(f.Secs, c.packed(c.pickCodec(), c.children(d), last))
			holds = true
		case 'o':
			f.Secs = append(f.Secs, c.opaque())
		case 'r': // CRC32 guided
			f.Secs = append(f.Secs, c.opaqueOf(0))
		case 'c': // LZMA around a CRC32 guided section (and a UI section)
			f.Secs = append(f.Secs, c.packed(gLZMA, []*hu.Sec{c.opaqueOf(0), {Kind: "su", Name: []rune("Inner")}}, last))
			holds = true
		case 'V': // LZMA around a volume image: every nested volume has offset 0 in its own container
			f.Secs = append(f.Secs, c.packed(gLZMA, []*hu.Sec{{Kind: "sf", FV: c.volume(d+1, 1)}}, last))
			holds = true
		default:
			g := *c.g
			g.NoNested = true
			f.Secs = append(f.Secs, g.Sec(200))
		}
	}
	if shape == "" {
		for n := 1 + c.r.Intn(3); n > 0; n-- {
			add("PPPoo--"[c.r.Intn(7)], n == 1)
		}
	} else {
		for i := 0; i < len(shape); i++ {
			add(shape[i], i == len(shape)-1)
		}
	}
	if holds {
		c.files = append(c.files, f)
	}
	return f
}

// volume: an FFS volume of sectioned files (shapes: one per file; nil = random files).
func (c *compGen) volume(d int, nfiles int, shapes ...string) *hu.FV {
	v := &hu.FV{ZV: make([]byte, 16), Attrs: 0x0004FEFF, Rev: 2, Blocks: make([]hu.Block, 1), V3: c.r.Intn(5) == 0}
	if len(shapes) > 0 {
		nfiles = len(shapes)
	}
	for i := 0; i < nfiles; i++ {
		var f *hu.File
		switch {
		case len(shapes) > 0:
			f = c.file(d, shapes[i])
		case c.r.Intn(4) == 0:
			g := *c.g
			g.NoNested = true
			f = g.File(400, 0) // any file of the grammar
		default:
			f = c.file(d, "")
		}
		if pad := hu.PlaceAligned(v.FilesEnd(), f.StoredAttrs()); pad != nil {
			v.Files = append(v.Files, pad)
		}
		v.Files = append(v.Files, f)
	}
	// free space: the two tail shapes the grammar excludes are avoided as Gen.FV does
	end := v.FilesEnd()
	v.Free = up(end, 8) - end + []int{0, 8, 16, 64, 128, 8 * (8 + c.r.Intn(200))}[c.r.Intn(6)]
	w := *v
	w.Files = nil
	last, off := 0, w.FilesEnd() // the start of the last file
	for _, f := range v.Files {
		last = up(off, 8)
		off = last + len(f.Ser())
	}
	if len(v.Files) > 0 && last+24 >= end+v.Free {
		v.Free += 8
	}
	if end+24 < end+v.Free && up(end, 8)+32 > end+v.Free {
		v.Free += 8
	}
	if v.Size() < 64 {
		v.Free += up(64-v.Size(), 8)
	}
	if d == 0 && c.r.Intn(2) == 0 {
		v.Free += up(v.Size(), 4096) - v.Size() // room for a longer name
	}
	v.Blocks[0] = hu.Block{Count: uint32(v.Size() / 8), Size: 8}
	return v
}

// fixedShapes: per volume, per file, the GUID-defined sections of the file.
var fixedShapes = [][][]string{
	{{"Lr-"}},            // compressed, then a CRC32 guided section: another header (the demo of c07-7)
	{{"c-"}},             // the other header INSIDE the compressed section
	{{"LZ"}},             // two compressors in one file
	{{"Z", "X"}},         // ... in two files, the other order
	{{"L", "r"}},         // the other header in the next file
	{{"X-"}, {"-", "Z"}}, // ... in the next volume
	{{"rL"}},             // the other header first
	{{"LL"}},             // the usual all-LZMA layout
	{{"VV"}},             // two compressed volumes in one file (both at offset 0 of their section)
}

func (c *compGen) image(i int) *hu.Img {
	b := &hu.Bios{}
	if i < len(fixedShapes) {
		for _, vol := range fixedShapes[i] {
			b.Items = append(b.Items, hu.Item{FV: c.volume(0, 0, vol...)})
		}
		return &hu.Img{Bios: b}
	}
	nv := 1 + c.r.Intn(2)
	for k := 0; k < nv; k++ {
		b.Items = append(b.Items, hu.Item{FV: c.volume(0, 1+c.r.Intn(3))})
	}
	if c.r.Intn(3) == 0 { // a volume of the plain grammar before or after
		g := *c.g
		it := hu.Item{FV: g.FV(1500, false)}
		if c.r.Intn(2) == 0 {
			b.Items = append([]hu.Item{it}, b.Items...)
		} else {
			b.Items = append(b.Items, it)
		}
	}
	return &hu.Img{Bios: b}
}

// compCases is the generator of the stream.
func compCases(r *rand.Rand, tier string) []core.Case {
	n := 23
	if tier == "thorough" {
		n = 600
	}
	var cs []core.Case
	for i := 0; i < n; i++ {
		c := &compGen{r: r, g: &hu.Gen{R: r, MaxAlign: 2, Depth: 1}, own: i%8 == 7}
		if r.Intn(6) == 0 {
			c.codec = codecs[r.Intn(3)] // every compressed section of the image uses one codec
		}
		img := c.image(i)
		if len(c.files) == 0 {
			continue
		}
		kind := "comp"
		if i < len(fixedShapes) {
			kind = fmt.Sprintf("comp-shape%d", i)
		}
		xz := "sys"
		if i%4 == 3 {
			xz = "go"
		}
		cs = append(cs, core.Case{Kind: kind, Op: "cimg", Args: map[string]string{"recipe": img.Recipe(), "xz": xz}})
		if i%3 != 2 {
			continue
		}
		// an edit of a field inside a compressed section / of the GUID of a file that holds one: pickEdit
		// chooses among the fields of a stand-in image that lists exactly those
		standIn := &hu.FV{}
		for k, f := range c.files {
			if k < 2 { // (pickEdit falls back to any field when the image has none of the kind it wanted)
				standIn.Files = append(standIn.Files, &hu.File{Kind: "fs", GUID: f.GUID, Type: f.Type})
			}
		}
		standIn.Files[0].Secs = c.inner
		e := pickEdit(r, &hu.Img{Bios: &hu.Bios{Items: []hu.Item{{FV: standIn}}}})
		if e == nil {
			continue
		}
		ec := core.Case{Kind: "comp-edit-" + e.kind, Op: "cimg", Args: map[string]string{"recipe": img.Recipe(),
			"edit": e.kind, "old": e.old, "new": e.new, "xz": "sys"}} // (the reader's xz wants the end marker)
		cs = append(cs, ec)
	}
	return cs
}

// ---------------------------------------------------------------- running

// decodedSections counts the GUID-defined sections of a parsed tree that were decoded into children.
func decodedSections(f fuefi.Firmware) int {
	n := 0
	switch f := f.(type) {
	case *fuefi.BIOSRegion:
		for _, e := range f.Elements {
			n += decodedSections(e.Value)
		}
	case *fuefi.FirmwareVolume:
		for _, x := range f.Files {
			n += decodedSections(x)
		}
	case *fuefi.File:
		for _, s := range f.Sections {
			n += decodedSections(s)
		}
	case *fuefi.Section:
		if f.Header.Type == fuefi.SectionTypeGUIDDefined && len(f.Encapsulated) > 0 {
			n++
		}
		for _, e := range f.Encapsulated {
			n += decodedSections(e.Value)
		}
	}
	return n
}

func runComp(c core.Case) core.Outcome {
	// the tool's LZMA encoder: the xz program when there is one, else the built-in encoder (flag -xzPath;
	// its match finder allocates tens of MiB per section and save, so only a quarter of the cases use it)
	if c.Args["xz"] == "go" {
		flag.Set("xzPath", "/nonexistent/xz")
		defer flag.Set("xzPath", "xz")
	}
	img := hu.ParseRecipe(c.Args["recipe"])
	in := img.Ser()
	ed := editOf(c)
	r := roundTrip(in, ed)
	out := core.Outcome{Class: c.Kind + ":" + r.class(), Key: r.modelLine(ed != nil)}
	// the premise of the stream: the tool reads the image and decodes at least one section
	dec := 0
	if t, class, _ := parseFresh(in); class == "ok" {
		dec = decodedSections(t)
	}
	if r.parseClass != "ok" || dec == 0 {
		out.Class = c.Kind + ":nothing-decoded"
		out.Trivial = true
		return out
	}
	if ed == nil {
		if r.directClass != "ok" && r.exClass == "ok" && r.pdClass == "ok" {
			// an image the tool refuses to save (the normalised content does not fit its volume): the
			// directory route "produces exactly what a direct save produces" — the same refusal
			out.Checks = append(out.Checks, core.Check{Tag: "O", What: "dirsave-outcome-as-direct-save", Exp: r.directClass, Got: r.dsClass, Sig: "dirsave-outcome-as-direct-save"})
		}
		out.Checks = append(out.Checks, r.roundTripChecks(false)...)
		return out
	}
	if r.editApplied == 0 {
		out.Class = c.Kind + ":edit-target-missing"
		out.Trivial = true
		return out
	}
	if r.exClass != "ok" || r.directClass != "ok" {
		return out
	}
	out.Checks = append(out.Checks, core.Check{Tag: "O", What: "edited-dir-loads", Exp: "ok", Got: r.pdClass, Sig: "edited-dir-loads-" + r.pdClass})
	if r.pdClass != "ok" {
		return out
	}
	out.Checks = append(out.Checks, core.Check{Tag: "O", What: "edit-json-as-memory-outcome", Exp: r.memClass, Got: r.dsClass, Sig: "edit-json-as-memory-outcome"})
	if r.dsClass != "ok" || r.memClass != "ok" {
		return out // e.g. the volume is out of space with the longer name: both refuse
	}
	out.Checks = append(out.Checks, sameBytes("edit-json-as-memory", r.mem, r.out))
	out.Checks = append(out.Checks, core.Check{Tag: "O", What: "edit-changes-exactly-that-field-deep", Exp: "same",
		Got: deepContentCheck(img, r.direct, r.out, ed), Sig: "edit-changes-exactly-that-field-deep"})
	return out
}

// ---------------------------------------------------------------- the independent reader, looking inside

// xzDecode decodes an .lzma stream with the xz program.  The tool's encoder stores the size in the
// header AND ends the stream with a marker, which xz calls corrupt as an .lzma file: the stream after
// the header is decoded as a raw one, the stored size is compared afterwards.
func xzDecode(b []byte, x86 bool) ([]byte, bool) {
	if len(b) < 13 || b[0] >= 225 {
		return nil, false
	}
	size := binary.LittleEndian.Uint64(b[5:13])
	dict := binary.LittleEndian.Uint32(b[1:5])
	if dict < 4096 {
		dict = 4096
	}
	// the 13-byte header spelled out as a raw filter chain (so that the x86 filter can be part of it)
	args := []string{"--format=raw"}
	if x86 {
		args = append(args, "--x86")
	}
	args = append(args, fmt.Sprintf("--lzma1=lc=%d,lp=%d,pb=%d,dict=%d", b[0]%9, b[0]/9%5, b[0]/45, dict), "-d", "--stdout")
	cmd := exec.Command("xz", args...)
	cmd.Stdin = bytes.NewReader(b[13:])
	// (a raw stream must end with the marker for xz to finish it: the xz program writes one, the tool's
	// built-in encoder does not — edit cases, the only ones read this way, run with the program)
	outb, err := cmd.Output()
	if err != nil || (size != 0xFFFFFFFFFFFFFFFF && uint64(len(outb)) != size) {
		return nil, false
	}
	return outb, true
}

// deepDecode: the payload of a GUID-defined section that the tool is expected to decode (processing
// required, LZMA / LZMA+x86 / ZLIB GUID), decoded by code that is not fiano's.
//
// rest: from the start of the section to the end of its container.  A ZLIB section counts as decodable
// only when the stored stream size is what remains of the container (see compGen.packed): a section the
// tool keeps opaque has no editable fields in summary.json, the reader must not list any either.
func deepDecode(rest []byte, size int, hl int) ([]byte, bool) {
	sec := rest[:size]
	body := sec[hl:]
	g, do, attrs := body[:16], int(binary.LittleEndian.Uint16(body[16:])), binary.LittleEndian.Uint16(body[18:])
	if attrs&1 == 0 || do > len(sec) || do < hl+20 {
		return nil, false
	}
	data := sec[do:]
	switch string(g) {
	case string(gLZMA), string(gLZMAX86):
		b, ok := xzDecode(data, string(g) == string(gLZMAX86))
		return b, ok && len(b) > 0
	case string(gZLIB):
		if len(data) < 256 || int(binary.LittleEndian.Uint32(data[20:24])) != len(rest)-do-256 {
			return nil, false
		}
		zr, err := zlib.NewReader(bytes.NewReader(data[256:]))
		if err != nil {
			return nil, false
		}
		b, err := io.ReadAll(zr)
		return b, err == nil && len(b) > 0
	}
	return nil, false
}

// editRecords replaces the edited field in the records of the unedited image.
func editRecords(recs []string, ed *edit) []string {
	out := make([]string, len(recs))
	for i, rec := range recs {
		out[i] = rec
		switch ed.kind {
		case "guid":
			if p := "file guid=" + ed.old + " "; strings.HasPrefix(rec, p) && !strings.Contains(rec, " opaque=") {
				out[i] = "file guid=" + ed.new + " " + rec[len(p):]
			}
		case "name":
			if rec == "sec type=21 name="+ed.old {
				out[i] = "sec type=21 name=" + ed.new
			}
		case "ver":
			if rec == "sec type=20 ver="+ed.old {
				out[i] = "sec type=20 ver=" + ed.new
			}
		case "depex":
			for _, t := range []int{0x13, 0x1b, 0x1c} {
				if rec == fmt.Sprintf("sec type=%d depex=%s", t, ed.old) {
					out[i] = fmt.Sprintf("sec type=%d depex=%s", t, ed.new)
				}
			}
		}
	}
	return out
}

// deepContentCheck: the edited reassembly `got` holds, volume by volume (same place, same length) and
// looking inside LZMA / ZLIB sections, what the unedited reassembly `ref` holds with exactly the
// edited field replaced; every byte outside the volumes is unchanged.
func deepContentCheck(img *hu.Img, ref, got []byte, ed *edit) string {
	if len(got) != len(ref) {
		return fmt.Sprintf("image length %d became %d", len(ref), len(got))
	}
	off := 0
	for i, it := range img.Bios.Items {
		if string(ref[off:off+len(it.Pad)]) != string(got[off:off+len(it.Pad)]) {
			return fmt.Sprintf("bytes before volume %d changed", i)
		}
		off += len(it.Pad)
		n := it.FV.Size()
		rr := &reader{deep: deepDecode}
		rr.volume(ref[off:off+n], false)
		if rr.err != "" {
			return fmt.Sprintf("volume %d of the direct save cannot be read: %s", i, rr.err)
		}
		rg := &reader{deep: deepDecode}
		rg.volume(got[off:off+n], false)
		if rg.err != "" {
			return fmt.Sprintf("volume %d cannot be read: %s", i, rg.err)
		}
		if d := diffRecords(editRecords(rr.out, ed), rg.out); d != "same" {
			return fmt.Sprintf("volume %d: %s", i, d)
		}
		off += n
	}
	if string(ref[off:]) != string(got[off:]) {
		return "bytes after the last volume changed"
	}
	return "same"
}
