package c07

// Single-field edits of summary.json (the human-editable fields: the GUID of a file rebuilt from its
// sections, a UI name, a version string / build number, a dependency expression), applied by the
// harness to the JSON text, and — for comparison — to a parsed tree in memory.
//
// An edit names a kind, the old value and the new value; every node of that kind holding the old
// value gets the new one (usually exactly one node; with duplicates, all of them).  Text forms
// (shared with Driver/C07.lean):
//   guid   32 hex digits (the 16 bytes as stored)
//   name   code points "65.66.67" | "-"
//   ver    "<build>:<code points | ->"
//   depex  "op[:guidhex],…" | "-"

import (
	"bytes"
	"encoding/hex"
	"encoding/json"
	"fmt"
	"os"
	"strconv"
	"strings"

	"github.com/linuxboot/fiano/pkg/guid"
	fuefi "github.com/linuxboot/fiano/pkg/uefi"

	hu "verif/harness/props/uefi"
)

type edit struct {
	kind     string
	old, new string
}

func cpsText(r []rune) string {
	if len(r) == 0 {
		return "-"
	}
	var ps []string
	for _, c := range r {
		ps = append(ps, strconv.Itoa(int(c)))
	}
	return strings.Join(ps, ".")
}

func cpsParse(s string) string {
	if s == "-" {
		return ""
	}
	var out []rune
	for _, p := range strings.Split(s, ".") {
		n, err := strconv.Atoi(p)
		if err != nil {
			panic("c07: bad code point list " + s)
		}
		out = append(out, rune(n))
	}
	return string(out)
}

func opsText(ops []hu.DepOp) string {
	if len(ops) == 0 {
		return "-"
	}
	var ps []string
	for _, o := range ops {
		if o.GUID != nil {
			ps = append(ps, fmt.Sprintf("%d:%s", o.Op, hex.EncodeToString(o.GUID)))
		} else {
			ps = append(ps, strconv.Itoa(int(o.Op)))
		}
	}
	return strings.Join(ps, ",")
}

func opsParse(s string) []fuefi.DepExOp {
	if s == "-" {
		return nil
	}
	var out []fuefi.DepExOp
	for _, p := range strings.Split(s, ",") {
		parts := strings.SplitN(p, ":", 2)
		n, err := strconv.Atoi(parts[0])
		if err != nil {
			panic("c07: bad depex " + s)
		}
		op := fuefi.DepExOp{OpCode: fuefi.DepExOpCodes[byte(n)]}
		if len(parts) == 2 {
			b, err := hex.DecodeString(parts[1])
			if err != nil || len(b) != 16 {
				panic("c07: bad depex guid " + s)
			}
			var g guid.GUID
			copy(g[:], b)
			op.GUID = &g
		}
		out = append(out, op)
	}
	return out
}

func goOpsText(ops []fuefi.DepExOp) string {
	if len(ops) == 0 {
		return "-"
	}
	var ps []string
	for _, d := range ops {
		code, ok := fuefi.DepExNamesToOpCodes[d.OpCode]
		c := int(code)
		if !ok {
			c = 255
		}
		if d.GUID != nil {
			ps = append(ps, fmt.Sprintf("%d:%s", c, hex.EncodeToString(d.GUID[:])))
		} else {
			ps = append(ps, strconv.Itoa(c))
		}
	}
	return strings.Join(ps, ",")
}

func guidOfHex(s string) guid.GUID {
	b, err := hex.DecodeString(s)
	if err != nil || len(b) != 16 {
		panic("c07: bad guid " + s)
	}
	var g guid.GUID
	copy(g[:], b)
	return g
}

func verParse(s string) (uint16, string) {
	i := strings.IndexByte(s, ':')
	if i < 0 {
		panic("c07: bad version " + s)
	}
	n, err := strconv.Atoi(s[:i])
	if err != nil {
		panic("c07: bad version " + s)
	}
	return uint16(n), cpsParse(s[i+1:])
}

func isDepexType(t int) bool { return t == 0x13 || t == 0x1b || t == 0x1c }

// ---------------------------------------------------------------- in the JSON text

func num(v interface{}) (int, bool) {
	n, ok := v.(json.Number)
	if !ok {
		return 0, false
	}
	i, err := n.Int64()
	return int(i), err == nil
}

func str(v interface{}) string {
	s, _ := v.(string)
	return s
}

func jsonOps(v interface{}) string {
	l, _ := v.([]interface{})
	if len(l) == 0 {
		return "-"
	}
	var ps []string
	for _, x := range l {
		m, _ := x.(map[string]interface{})
		code, ok := fuefi.DepExNamesToOpCodes[fuefi.DepExOpCode(str(m["OpCode"]))]
		c := int(code)
		if !ok {
			c = 255
		}
		if g, ok := m["GUID"].(map[string]interface{}); ok {
			u, err := guid.Parse(str(g["GUID"]))
			if err != nil {
				panic("c07: summary.json holds a bad GUID")
			}
			ps = append(ps, fmt.Sprintf("%d:%s", c, hex.EncodeToString(u[:])))
		} else {
			ps = append(ps, strconv.Itoa(c))
		}
	}
	return strings.Join(ps, ",")
}

func (e *edit) walkJSON(v interface{}, n *int) {
	switch v := v.(type) {
	case []interface{}:
		for _, x := range v {
			e.walkJSON(x, n)
		}
	case map[string]interface{}:
		if h, ok := v["Header"].(map[string]interface{}); ok {
			if g, ok := h["GUID"].(map[string]interface{}); ok && e.kind == "guid" {
				// a file
				old := guidOfHex(e.old)
				if str(g["GUID"]) == old.String() {
					g["GUID"] = guidOfHex(e.new).String()
					*n++
				}
			} else if t, ok := num(h["Type"]); ok && h["GUID"] == nil {
				// a section
				switch {
				case e.kind == "name" && t == 0x15:
					if str(v["Name"]) == cpsParse(e.old) {
						if nv := cpsParse(e.new); nv == "" {
							delete(v, "Name")
						} else {
							v["Name"] = nv
						}
						*n++
					}
				case e.kind == "ver" && t == 0x14:
					ob, ov := verParse(e.old)
					b, _ := num(v["BuildNumber"])
					if uint16(b) == ob && str(v["Version"]) == ov {
						nb, nv := verParse(e.new)
						v["BuildNumber"] = json.Number(strconv.Itoa(int(nb)))
						v["Version"] = nv
						*n++
					}
				case e.kind == "depex" && isDepexType(t):
					if jsonOps(v["DepEx"]) == e.old {
						var l []interface{}
						for _, op := range opsParse(e.new) {
							m := map[string]interface{}{"OpCode": string(op.OpCode)}
							if op.GUID != nil {
								m["GUID"] = map[string]interface{}{"GUID": op.GUID.String()}
							}
							l = append(l, m)
						}
						if len(l) == 0 {
							delete(v, "DepEx")
						} else {
							v["DepEx"] = l
						}
						*n++
					}
				}
			}
		}
		for _, x := range v {
			e.walkJSON(x, n)
		}
	}
}

// applyJSON edits the file in place and returns the number of nodes changed.
func (e *edit) applyJSON(path string) (int, error) {
	b, err := os.ReadFile(path)
	if err != nil {
		return 0, err
	}
	dec := json.NewDecoder(bytes.NewReader(b))
	dec.UseNumber()
	var top interface{}
	if err := dec.Decode(&top); err != nil {
		return 0, err
	}
	n := 0
	e.walkJSON(top, &n)
	var buf bytes.Buffer
	enc := json.NewEncoder(&buf)
	enc.SetIndent("", "    ")
	if err := enc.Encode(top); err != nil {
		return 0, err
	}
	return n, os.WriteFile(path, buf.Bytes(), 0666)
}

// ---------------------------------------------------------------- in memory

func (e *edit) applyTree(f fuefi.Firmware) {
	switch f := f.(type) {
	case *fuefi.FlashImage:
		for _, r := range f.Regions {
			e.applyTree(r.Value)
		}
	case *fuefi.BIOSRegion:
		for _, x := range f.Elements {
			e.applyTree(x.Value)
		}
	case *fuefi.FirmwareVolume:
		for _, x := range f.Files {
			e.applyTree(x)
		}
	case *fuefi.File:
		if e.kind == "guid" && f.Header.GUID == guidOfHex(e.old) {
			f.Header.GUID = guidOfHex(e.new)
		}
		for _, s := range f.Sections {
			e.applyTree(s)
		}
	case *fuefi.Section:
		t := int(f.Header.Type)
		switch {
		case e.kind == "name" && t == 0x15:
			if f.Name == cpsParse(e.old) {
				f.Name = cpsParse(e.new)
			}
		case e.kind == "ver" && t == 0x14:
			ob, ov := verParse(e.old)
			if f.BuildNumber == ob && f.Version == ov {
				f.BuildNumber, f.Version = verParse(e.new)
			}
		case e.kind == "depex" && isDepexType(t):
			if goOpsText(f.DepEx) == e.old {
				f.DepEx = opsParse(e.new)
			}
		}
		for _, x := range f.Encapsulated {
			e.applyTree(x.Value)
		}
	}
}
