package c07

// NVAR stores inside a RAW file carrying the NVAR GUID (property C10 owns the store format; here
// only the directory round trip is looked at, on the implementation's own output — the Lean model of
// the UEFI core keeps the store opaque, so these cases carry no model check).
//
// The store is written from the AMI NVAR layout: entries
//   "NVAR" size:u16 next:u24 attrs:u8 [guid:16 | guidIndex:u8] name\0 data      (full entry)
//   "NVAR" size:u16 next:u24 attrs:u8 data                                      (data-only entry)
// followed by erased bytes and the GUID table, last GUID first, at the very end.

import (
	"bytes"
	"fmt"
	"math/rand"
	"strings"
	"unicode/utf8"

	"github.com/linuxboot/fiano/pkg/guid"

	"verif/harness/core"
	hu "verif/harness/props/uefi"
)

const (
	nvRuntime  = 0x01
	nvASCII    = 0x02
	nvGUID     = 0x04
	nvDataOnly = 0x08
	nvValid    = 0x80
)

type nvStore struct {
	body  []byte
	guids [][]byte // table, index order
}

func (s *nvStore) entry(next int, attrs byte, payload []byte) int {
	off := len(s.body)
	size := 10 + len(payload)
	e := []byte{'N', 'V', 'A', 'R', byte(size), byte(size >> 8), byte(next), byte(next >> 8), byte(next >> 16), attrs}
	s.body = append(s.body, e...)
	s.body = append(s.body, payload...)
	return off
}

func (s *nvStore) guidIndex(g []byte) byte {
	for i, x := range s.guids {
		if string(x) == string(g) {
			return byte(i)
		}
	}
	s.guids = append(s.guids, g)
	return byte(len(s.guids) - 1)
}

// full appends a full entry; inline selects a GUID inside the entry instead of a table index.
func (s *nvStore) full(name, guid, data []byte, inline bool, next int, extra byte) int {
	attrs := byte(nvValid|nvASCII) | extra
	var p []byte
	if inline {
		attrs |= nvGUID
		p = append(p, guid...)
	} else {
		p = append(p, s.guidIndex(guid))
	}
	p = append(p, name...)
	p = append(p, 0)
	p = append(p, data...)
	return s.entry(next, attrs, p)
}

// fullUCS2 appends a full entry whose name is stored as CHAR16s (no ASCII-name attribute).
func (s *nvStore) fullUCS2(name []rune, guid, data []byte, inline bool, extra byte) int {
	attrs := byte(nvValid) | extra
	var p []byte
	if inline {
		attrs |= nvGUID
		p = append(p, guid...)
	} else {
		p = append(p, s.guidIndex(guid))
	}
	p = append(p, hu.UCS2(name)...) // UTF-16LE with its terminator
	p = append(p, data...)
	return s.entry(0xFFFFFF, attrs, p)
}

func (s *nvStore) dataOnly(data []byte, next int) int {
	return s.entry(next, nvValid|nvDataOnly, data)
}

// patchNext sets the 24-bit next field of the entry at off to the distance to target.
func (s *nvStore) patchNext(off, target int) {
	d := target - off
	s.body[off+6], s.body[off+7], s.body[off+8] = byte(d), byte(d>>8), byte(d>>16)
}

// finish adds the erased space and the GUID table.
func (s *nvStore) finish(free int) []byte {
	out := append([]byte{}, s.body...)
	for i := 0; i < free; i++ {
		out = append(out, 0xFF)
	}
	for i := len(s.guids) - 1; i >= 0; i-- {
		out = append(out, s.guids[i]...)
	}
	return out
}

func nvarImage(store []byte) []byte {
	f := &hu.File{Kind: "fl", GUID: append([]byte{}, hu.GuidNVAR...), Type: 1, State: 0xF8, CkF: 0xAA, Body: store}
	f.CkH = hu.HeaderChecksum(f, 24+len(store))
	v := &hu.FV{ZV: make([]byte, 16), Attrs: 0x0004FEFF, Rev: 2, Blocks: make([]hu.Block, 1), Files: []*hu.File{f}}
	end := v.FilesEnd()
	v.Free = (8-end%8)%8 + 64
	v.Blocks[0] = hu.Block{Count: uint32(v.Size() / 8), Size: 8}
	img := &hu.Img{Bios: &hu.Bios{Items: []hu.Item{{FV: v}}}}
	return img.Ser()
}

func runNvar(c core.Case) core.Outcome {
	in := nvarImage(core.UnHex(c.Args["store"]))
	r := roundTrip(in, nil)
	out := core.Outcome{Class: c.Kind + ":" + r.class(), Key: c.Kind + digLen(in) + r.class()}
	out.Checks = append(out.Checks, core.Check{Tag: "O", What: "wellformed-image-saves", Exp: "ok", Got: r.directClass, Sig: "direct-" + r.directClass})
	out.Checks = append(out.Checks, r.roundTripChecks(true)...)
	out.Checks = append(out.Checks, nvarModelCheck(c, r)...)
	for i := range out.Checks {
		out.Checks[i].Sig = "nvar:" + c.Args["shape"] + ":" + out.Checks[i].Sig
	}
	return out
}

// nvarModelCheck compares what Extract wrote below the directory of the RAW file that holds the store
// with the Lean model of the NVar arm (Uefi/ExtractNvar.lean on C10's store model): number of files,
// paths (raw bytes), lengths and contents, in writing order.  Only when fiano attached a store to the file
// (otherwise the file is an ordinary leaf and is written as <GUID>.ffs).
func nvarModelCheck(c core.Case, r *rt) []core.Check {
	if r.parseClass != "ok" || r.exClass != "ok" {
		return nil
	}
	var g guid.GUID
	copy(g[:], hu.GuidNVAR)
	prefix := "bios/0x0/" + g.String() + "/0/"
	var ws []written
	for _, w := range r.listing {
		if strings.HasPrefix(w.path, prefix) {
			if strings.HasSuffix(w.path, ".ffs") {
				return nil
			}
			ws = append(ws, w)
		}
	}
	cs := []core.Check{}
	// the directory round trip of the store itself (nested stores included): what `utk DIR save` wrote where
	// the store was, against `asmDirStore` — "err" when loading or saving the directory failed (F-C07-1)
	if st := core.UnHex(c.Args["store"]); len(st) > 0 {
		if idx := bytes.Index(r.in, st); idx >= 0 {
			exp := "err"
			if r.pdClass == "ok" && r.dsClass == "ok" && len(r.out) >= idx+len(st) {
				exp = "ok " + digLen(r.out[idx:idx+len(st)])
			}
			cs = append(cs, core.Check{Tag: "M", What: "nvar-dir-save", Req: "nvdirsave " + c.Args["store"], Exp: exp, Sig: "nvar-dir-save"})
		}
	}
	// (follow-up wp-c07c) the tree-level round trip with the store inside the tree: C10's parser / assembler as the
	// NVAR hooks of the tree model (`c10Hooks`), the loaded stores under `c10DirHooks` — direct save, extract +
	// ParseDir + Assemble (+ Save), and the hypotheses of the theorems *_nvar of Props/C07.lean
	imgHex := core.Hex(r.in)
	expDirect := r.directClass
	if r.directClass == "ok" {
		expDirect = digLen(r.direct)
	}
	cs = append(cs, core.Check{Tag: "M", What: "nvar-tree-direct-save", Req: "nvrt direct " + imgHex, Exp: expDirect, Sig: "nvar-tree-direct"})
	if r.pdClass == "ok" {
		expDs := r.dsClass
		if r.dsClass == "ok" {
			expDs = digLen(r.out)
		}
		cs = append(cs, core.Check{Tag: "M", What: "nvar-tree-dir-save", Req: "nvrt ds " + imgHex, Exp: expDs, Sig: "nvar-tree-ds"})
		cs = append(cs, core.Check{Tag: "M", What: "nvar-tree-load-assemble", Req: "nvrt load " + imgHex, Exp: expDs, Sig: "nvar-tree-load"})
	}
	expHyp := "ok"
	if c.Kind == "nvar-nonutf8name" {
		expHyp = "no:nvUtf8Tree"
	}
	cs = append(cs, core.Check{Tag: "M", What: "nvar-theorem-hypotheses-hold", Req: "nvrt hyp " + imgHex, Exp: expHyp, Sig: "nvar-tree-hyp"})
	return append(cs, []core.Check{
		{Tag: "M", What: "nvar-extract-listing", Req: "nvlisting " + c.Args["store"],
			Exp: fmt.Sprintf("ok %d:%016x", len(ws), core.FNV([]byte(listingText(ws)))), Sig: "nvar-listing"},
		// the same through the tree-level model: uefi.Parse with C10's store parser as the NVAR hook, then
		// Extract on the whole tree (volume header, file directory GUID/index, the NVar arm below it)
		{Tag: "M", What: "nvar-tree-listing", Req: "nvimage " + core.Hex(nvarImage(core.UnHex(c.Args["store"]))),
			Exp: fmt.Sprintf("ok %d:%016x", len(r.listing), core.FNV([]byte(listingText(r.listing)))), Sig: "nvar-tree-listing"},
	}...)
}

func nvName(r *rand.Rand) []byte {
	n := 1 + r.Intn(10)
	b := make([]byte, n)
	const al = "ABCDEFGHIJKLMNOPQRSTUVWXYZabcdefghijklmnopqrstuvwxyz0123456789_"
	for i := range b {
		b[i] = al[r.Intn(len(al))]
	}
	return b
}

func nvData(r *rand.Rand) []byte {
	b := make([]byte, r.Intn(40))
	r.Read(b)
	return b
}

func nvGuid(r *rand.Rand) []byte {
	b := make([]byte, 16)
	r.Read(b)
	return b
}

// oddNames: names a variable may legally carry in the store (any bytes but NUL) that are unusual as
// file names.
var oddNames = []string{"a/b", "/abs", "../up", "..", ".", "", "with space", "semi;colon", "pct%41", "back\\slash",
	"star*", "q?", "colon:", "tab\t", "new\nline", "caf\xc3\xa9", "\xff\xfe", "x\x80", "-dash", "~tilde", "Invalid", "Invalid link",
	strings.Repeat("L", 300), strings.Repeat("../", 6) + "esc"}

func nvarCase(shape string, store []byte) core.Case {
	return core.Case{Kind: "nvar-" + shape, Op: "nvar", Args: map[string]string{"store": core.Hex(store), "shape": shape}}
}

func nvarCases(r *rand.Rand, tier string) []core.Case {
	var cs []core.Case
	n := 30
	if tier == "thorough" {
		n = 400
	}
	for i := 0; i < n; i++ {
		s := &nvStore{}
		shape := "plain"
		nv := 1 + r.Intn(6)
		used := map[string]bool{}
		shared := nvGuid(r)
		for k := 0; k < nv; k++ {
			name := nvName(r)
			for used[string(name)] {
				name = nvName(r)
			}
			used[string(name)] = true
			g := nvGuid(r)
			if r.Intn(2) == 0 {
				g = shared // same GUID, different names: one directory
			}
			inline := r.Intn(2) == 0
			extra := byte(0)
			if r.Intn(2) == 0 {
				extra = nvRuntime
			}
			switch r.Intn(7) {
			case 0: // an updated variable: the head links to a data-only entry (possibly a chain of two)
				shape = "link"
				head := s.full(name, g, nvData(r), inline, 0xFFFFFF, extra)
				if r.Intn(2) == 0 && k+1 < nv { // an unrelated variable in between
					s.full(nvName(r), nvGuid(r), nvData(r), true, 0xFFFFFF, 0)
				}
				d1 := s.dataOnly(nvData(r), 0xFFFFFF)
				s.patchNext(head, d1)
				if r.Intn(2) == 0 {
					d2 := s.dataOnly(nvData(r), 0xFFFFFF)
					s.patchNext(d1, d2)
				}
			case 1: // an invalidated entry before the live one
				if shape == "plain" {
					shape = "invalid"
				}
				off := s.full(name, g, nvData(r), inline, 0xFFFFFF, extra)
				s.body[off+9] &^= nvValid
				s.full(name, g, nvData(r), inline, 0xFFFFFF, extra)
			case 3: // a name stored as CHAR16s (BMP, beyond ASCII)
				if shape == "plain" {
					shape = "ucs2name"
				}
				var nm []rune
				for k := 1 + r.Intn(8); k > 0; k-- {
					nm = append(nm, []rune{'A' + rune(r.Intn(26)), 0xE9, 0xFC, 0x4E2D, 0x3042, '0' + rune(r.Intn(10)), ' ', '/'}[r.Intn(8)])
				}
				for used[string(nm)] {
					nm = append(nm, 'x')
				}
				used[string(nm)] = true
				s.fullUCS2(nm, g, nvData(r), inline, extra)
			case 2: // a data-only entry nobody links to (an "invalid link") after the live one
				if shape == "plain" {
					shape = "orphan"
				}
				s.full(name, g, nvData(r), inline, 0xFFFFFF, extra)
				s.dataOnly(nvData(r), 0xFFFFFF)
			default:
				s.full(name, g, nvData(r), inline, 0xFFFFFF, extra)
			}
		}
		cs = append(cs, nvarCase(shape, s.finish(8*r.Intn(12))))
	}
	// the risks read from extract.go, one at a time (deterministic shapes, random fillers)
	for _, nm := range oddNames {
		s := &nvStore{}
		g := nvGuid(r)
		s.full([]byte("Before"), g, nvData(r), true, 0xFFFFFF, 0)
		s.full([]byte(nm), g, []byte("payload of the odd one"), r.Intn(2) == 0, 0xFFFFFF, 0)
		s.full([]byte("After"), g, nvData(r), true, 0xFFFFFF, 0)
		shape := "oddname"
		if !utf8.ValidString(nm) {
			shape = "nonutf8name" // summary.json cannot hold it (known finding F-C07-1)
		}
		cs = append(cs, nvarCase(shape, s.finish(16)))
	}
	{
		// two valid full entries with the same GUID and name
		s := &nvStore{}
		g := nvGuid(r)
		s.full([]byte("Twin"), g, []byte("first value"), true, 0xFFFFFF, 0)
		s.full([]byte("Other"), g, nvData(r), true, 0xFFFFFF, 0)
		s.full([]byte("Twin"), g, []byte("second value, longer"), true, 0xFFFFFF, 0)
		cs = append(cs, nvarCase("samename", s.finish(24)))
		// same name, same GUID through the table
		s = &nvStore{}
		s.full([]byte("Twin"), g, []byte("1"), false, 0xFFFFFF, 0)
		s.full([]byte("Twin"), g, []byte("22"), false, 0xFFFFFF, 0)
		cs = append(cs, nvarCase("samename", s.finish(8)))
		// the data entry of a link and a later full entry of the same name
		s = &nvStore{}
		head := s.full([]byte("Var"), g, []byte("old"), true, 0xFFFFFF, 0)
		d := s.dataOnly([]byte("new"), 0xFFFFFF)
		s.patchNext(head, d)
		s.full([]byte("Var"), g, []byte("again"), true, 0xFFFFFF, 0)
		cs = append(cs, nvarCase("samename", s.finish(8)))
		// names that agree in a long prefix and differ only behind it, around every length at which a
		// bounded file name could be cut (extract keeps 64 name bytes and appends the entry offset): same
		// GUID, values of different content and of different length; also a link chain under a long name
		// (seeded defect c07-3: suffix added before the bound is applied)
		for _, pl := range []int{30, 62, 63, 64, 65, 72, 127, 200, 255} {
			s = &nvStore{}
			prefix := strings.Repeat("N", pl)
			s.full([]byte(prefix+"-first"), g, []byte("value of the first"), true, 0xFFFFFF, 0)
			s.full([]byte("Between"), g, nvData(r), true, 0xFFFFFF, 0)
			s.full([]byte(prefix+"-second"), g, []byte("the second one has a longer value"), r.Intn(2) == 0, 0xFFFFFF, 0)
			head := s.full([]byte(prefix), g, []byte("old"), true, 0xFFFFFF, 0)
			d := s.dataOnly([]byte("new value"), 0xFFFFFF)
			s.patchNext(head, d)
			cs = append(cs, nvarCase("longprefix", s.finish(8)))
		}
		// names that agree in exactly their first 64 bytes (what extract keeps), in every combination of
		// entry kinds: two live full entries, an invalidated one, the head of a link and its data entry
		{
			p64 := strings.Repeat("P", 64)
			s = &nvStore{}
			s.full([]byte(p64+"a"), g, []byte("A"), true, 0xFFFFFF, 0)
			s.full([]byte(p64+"b"), g, []byte("BB"), true, 0xFFFFFF, 0)
			off := s.full([]byte(p64+"c"), g, []byte("dead"), true, 0xFFFFFF, 0)
			s.body[off+9] &^= nvValid
			head := s.full([]byte(p64), g, []byte("old"), true, 0xFFFFFF, 0)
			d := s.dataOnly([]byte("new"), 0xFFFFFF)
			s.patchNext(head, d)
			s.full([]byte(p64+"/"+"d"), g, []byte("with a separator behind the bound"), false, 0xFFFFFF, 0)
			cs = append(cs, nvarCase("longprefix", s.finish(8)))
		}
		// data-only entries that carry the valid bit but that no head links to ("invalid links"): first in
		// the store, between two live variables, a chain of two, last in the store (seeded defect c07-1:
		// ParseDir deciding by the attribute bit instead of the entry type)
		for k := 0; k < 4; k++ {
			s = &nvStore{}
			if k == 0 {
				s.dataOnly([]byte("orphan first"), 0xFFFFFF)
			}
			s.full([]byte("Live1"), g, nvData(r), true, 0xFFFFFF, 0)
			if k == 1 {
				s.dataOnly([]byte("orphan between"), 0xFFFFFF)
			}
			if k == 2 {
				d1 := s.dataOnly([]byte("orphan chain head"), 0xFFFFFF)
				d2 := s.dataOnly([]byte("orphan chain tail"), 0xFFFFFF)
				s.patchNext(d1, d2)
			}
			s.full([]byte("Live2"), g, nvData(r), r.Intn(2) == 0, 0xFFFFFF, 0)
			if k == 3 {
				s.dataOnly([]byte("orphan last"), 0xFFFFFF)
			}
			cs = append(cs, nvarCase("orphan", s.finish(8*r.Intn(4))))
		}
		// two variables of the SAME name and GUID whose values are stores holding an entry of the same name
		{
			g2 := nvGuid(r)
			inner := func(val string) []byte {
				in := &nvStore{}
				in.full([]byte("Inner"), g2, []byte(val), true, 0xFFFFFF, 0)
				return in.finish(0)
			}
			s = &nvStore{}
			s.full([]byte("Outer"), g, inner("value in the first"), true, 0xFFFFFF, 0)
			s.full([]byte("Outer"), g, inner("another value in the second"), true, 0xFFFFFF, 0)
			cs = append(cs, nvarCase("nested", s.finish(16)))
		}
		// two variables whose values are stores themselves, holding entries of the same name
		for k := 0; k < 2; k++ {
			g2 := nvGuid(r)
			inner := func(val string) []byte {
				in := &nvStore{}
				in.full([]byte("Inner"), g2, []byte(val), true, 0xFFFFFF, 0)
				if k == 1 {
					in.full(nvName(r), g2, nvData(r), true, 0xFFFFFF, 0)
				}
				return in.finish(0)
			}
			s = &nvStore{}
			s.full([]byte("OuterA"), g, inner("value in A"), true, 0xFFFFFF, 0)
			s.full([]byte("Plain"), g, nvData(r), true, 0xFFFFFF, 0)
			s.full([]byte("OuterB"), g, inner("another value in B"), true, 0xFFFFFF, 0)
			cs = append(cs, nvarCase("nested", s.finish(16)))
		}
	}
	return cs
}
