package c07

// Follow-up wp-c07c: the ME flash partition table ($FPT) — what the real code reads (NewMERegion), what summary.json
// brings back after `extract` + ParseDir, against the Lean model Uefi/ExtractMe.lean (driver ops mefpt / mereload /
// menames); generator of ME regions with hand-made tables inside well-formed flash images.

import (
	"fmt"
	"math/rand"
	"strings"

	fuefi "github.com/linuxboot/fiano/pkg/uefi"

	"verif/harness/core"
	hu "verif/harness/props/uefi"
)

type meRec struct {
	buf   []byte
	line  string // canonical form of the table (Driver/C07.lean meLine)
	names string // JSON text of the names
}

func meLineOf(m *fuefi.MERegion) string {
	if m.FPT == nil {
		return "nofpt"
	}
	p := m.FPT
	var es []string
	for _, e := range p.Entries {
		es = append(es, fmt.Sprintf("%s:%s:%d:%d:%d,%d,%d:%d", core.Hex(e.Name[:]), core.Hex(e.Owner[:]), e.Offset, e.Length,
			e.Reserved[0], e.Reserved[1], e.Reserved[2], e.Flags))
	}
	return fmt.Sprintf("ok c=%d s=%d n=%d e=%016x f=%d b=%d", p.PartitionCount, p.PartitionMapStart, len(p.Entries),
		core.FNV([]byte(strings.Join(es, ";"))), m.FreeSpaceOffset, len(p.Buf()))
}

func meNamesOf(m *fuefi.MERegion) string {
	if m.FPT == nil {
		return "nofpt"
	}
	var ns []string
	for _, e := range m.FPT.Entries {
		t, _ := e.Name.MarshalText()
		ns = append(ns, core.Hex(t))
	}
	return "ok " + strings.Join(ns, ",")
}

// meRegions lists the ME regions of a tree in region order.
func meRegions(f fuefi.Firmware) []*fuefi.MERegion {
	fi, ok := f.(*fuefi.FlashImage)
	if !ok {
		return nil
	}
	var out []*fuefi.MERegion
	for _, r := range fi.Regions {
		if m, ok := r.Value.(*fuefi.MERegion); ok {
			out = append(out, m)
		}
	}
	return out
}

func meRecords(f fuefi.Firmware) []meRec {
	var out []meRec
	for _, m := range meRegions(f) {
		out = append(out, meRec{buf: append([]byte{}, m.Buf()...), line: meLineOf(m), names: meNamesOf(m)})
	}
	return out
}

// meChecks: M checks of the table model against the real code, and the oracle "the table in memory after the
// directory round trip is the table NewMERegion reads from the saved bytes" (summary.json and bytes agree).
func (r *rt) meChecks() []core.Check {
	var cs []core.Check
	for i, m := range r.meParsed {
		if len(m.buf) > 64*1024 {
			continue
		}
		h := core.Hex(m.buf)
		cs = append(cs, core.Check{Tag: "M", What: "me-fpt-parse", Req: "mefpt " + h, Exp: m.line, Sig: "me-fpt-parse"})
		cs = append(cs, core.Check{Tag: "M", What: "me-name-text", Req: "menames " + h, Exp: m.names, Sig: "me-name-text"})
		if r.exClass != "ok" {
			continue
		}
		exp := "err"
		if r.pdClass == "ok" && i < len(r.meLoaded) {
			exp = r.meLoaded[i].line
		}
		cs = append(cs, core.Check{Tag: "M", What: "me-fpt-reload", Req: "mereload " + h, Exp: exp, Sig: "me-fpt-reload"})
		if r.pdClass == "ok" && i < len(r.meLoaded) && i < len(r.meSaved) {
			// after `utk DIR save`: parse what was written; its table (without the buffer length) must be the table
			// the loaded tree carried
			want := stripBufLen(r.meSaved[i].line)
			got := stripBufLen(r.meLoaded[i].line)
			cs = append(cs, core.Check{Tag: "O", What: "me-table-agrees-with-saved-bytes", Exp: want, Got: got, Sig: "me-table-agrees"})
		}
	}
	return cs
}

func stripBufLen(l string) string {
	if i := strings.LastIndex(l, " b="); i >= 0 {
		return l[:i]
	}
	return l
}

// ---------------------------------------------------------------- generator

func le32(v uint32) []byte { return []byte{byte(v), byte(v >> 8), byte(v >> 16), byte(v >> 24)} }

func meName(r *rand.Rand) []byte {
	switch r.Intn(9) {
	case 0:
		return []byte("FTPR")
	case 1:
		return []byte{'M', 'F', 0, 0}
	case 2:
		return []byte{0, 0, 0, 0}
	case 3:
		return []byte{0xFF, 0xFF, 0xFF, 0xFF}
	case 4:
		return []byte{0xE2, 0x82, 0xAC, 0} // 3-byte UTF-8 + zero
	case 5:
		return []byte{'A', 0x80, 'B', 0} // invalid UTF-8
	case 6:
		return []byte("0x12")
	case 7:
		return []byte{'"', '\\', '\n', 1} // needs JSON escapes
	default:
		return []byte{byte(r.Intn(256)), byte(r.Intn(256)), byte(r.Intn(256)), byte(r.Intn(256))}
	}
}

// meTable writes a partition table into d: where the signature goes, how many entries, what they hold.
func meTable(r *rand.Rand, d []byte) string {
	shape := []string{"at0", "at16", "elsewhere", "twice", "late", "count-too-large", "exact"}[r.Intn(7)]
	pos := 16
	switch shape {
	case "at0":
		pos = 0
	case "elsewhere":
		pos = 1 + r.Intn(200)
	case "late":
		pos = len(d) - 4 - r.Intn(40) // the descriptor does not fit (or just fits)
	}
	if pos < 0 || pos+4 > len(d) {
		pos = 0
	}
	copy(d[pos:], "$FPT")
	if shape == "twice" && pos+300 < len(d) {
		copy(d[pos+260:], "$FPT")
	}
	o := pos + 4
	count := r.Intn(5)
	room := (len(d) - (o + 28)) / 32
	switch shape {
	case "count-too-large":
		count = room + 1
	case "exact":
		count = room
		if count > 200 {
			// keep the case small: move the table to the end so that `room` entries fit exactly
			count = 3
			pos = len(d) - 4 - 28 - 32*count
			for i := range d[:pos] {
				if d[i] == '$' {
					d[i] = 0
				}
			}
			copy(d[pos:], "$FPT")
			o = pos + 4
		}
	}
	if o+4 <= len(d) {
		copy(d[o:], le32(uint32(count)))
	}
	for k := 0; k < count; k++ {
		e := o + 28 + 32*k
		if e+32 > len(d) {
			break
		}
		copy(d[e:], meName(r))
		off := []uint32{0, 0xffffffff, 0x1000, 0xfffffff0, uint32(r.Intn(1 << 20))}[r.Intn(5)]
		ln := []uint32{0, 0x20, 0xffffffff, uint32(r.Intn(1 << 16))}[r.Intn(4)]
		copy(d[e+8:], le32(off))
		copy(d[e+12:], le32(ln))
	}
	return shape
}

// meCases: well-formed flash images whose ME region carries a hand-made table.
func meCases(r *rand.Rand, n int) []core.Case {
	var cs []core.Case
	for tries := 0; len(cs) < n && tries < 40*n; tries++ {
		g := &hu.Gen{R: r, MaxAlign: 4, Depth: 2}
		fl := g.Flash(2 + r.Intn(3))
		var me *hu.Region
		for _, rg := range fl.Regions {
			if rg.Kind == "me" {
				me = rg
			}
		}
		if me == nil || len(me.Data) < 4096 {
			continue
		}
		for i := range me.Data { // no stray signature
			if me.Data[i] == '$' {
				me.Data[i] = '#'
			}
		}
		shape := meTable(r, me.Data)
		img := &hu.Img{Flash: fl}
		c := imgCase("wf-me-fpt", img, "1")
		c.Args["shape"] = shape
		cs = append(cs, c)
	}
	return cs
}
