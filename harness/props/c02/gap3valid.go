package c02

// gap3valid.go — the container rules of C02 judged in Go, for images too large for the list-based
// Lean reader (Valid.validImage needs about 1 s per MiB) and as a second judge of the alignment
// cases.  Written from the PI specification (vol. 3) like the Lean reader, rule by rule the same
// questions (V1-V7, L1-L4, X1-X5, S1-S3 of lean/FianoModel/Uefi/ValidImage.lean); it imports
// neither fiano nor the reference image builder.  Bare BIOS-region images only (B1-B2): no flash
// descriptor.  The answer is "ok" or the first rule broken.

import (
	"bytes"
	"encoding/binary"
	"fmt"
)

var g3ffs2 = []byte{0x78, 0xe5, 0x8c, 0x8c, 0x3d, 0x8a, 0x1c, 0x4f, 0x99, 0x35, 0x89, 0x61, 0x85, 0xc3, 0x2d, 0xd3}
var g3ffs3 = []byte{0x7a, 0xc0, 0x73, 0x54, 0xcb, 0x3d, 0xca, 0x4d, 0xbd, 0x6f, 0x1e, 0x96, 0x89, 0xe7, 0x34, 0x9a}

// g3Align: FFS_ATTRIB_DATA_ALIGNMENT (bits 3-5) and FFS_ATTRIB_DATA_ALIGNMENT2 (bit 1).
func g3Align(attrs uint8) int {
	idx := int(attrs>>3) & 7
	if attrs&2 != 0 {
		return 1 << (17 + idx) // 128 KiB … 16 MiB
	}
	return []int{1, 16, 128, 512, 1 << 10, 4 << 10, 32 << 10, 64 << 10}[idx]
}

func g3AllAre(b []byte, e byte) int {
	for i, x := range b {
		if x != e {
			return i
		}
	}
	return -1
}

func g3Sectioned(t uint8) bool { return (t >= 2 && t <= 5) || (t >= 7 && t <= 15) }

// g3Sections: S1-S3 on a file body.
func g3Sections(body []byte, where string, depth int) string {
	for off, n := 0, 0; off < len(body); n++ {
		at := fmt.Sprintf("%s section %d at %#x", where, n, off)
		if off+4 > len(body) {
			return at + ": no room for a section header (S1)"
		}
		size := int(body[off]) | int(body[off+1])<<8 | int(body[off+2])<<16
		typ := body[off+3]
		hl := 4
		if size == 0xFFFFFF {
			if off+8 > len(body) {
				return at + ": no room for the extended section header (S1)"
			}
			size = int(binary.LittleEndian.Uint32(body[off+4:]))
			hl = 8
		}
		if typ == 0x02 {
			hl += 20
		}
		if size < hl {
			return fmt.Sprintf("%s: size %#x below the header length %d (S1)", at, size, hl)
		}
		if off+size > len(body) {
			return fmt.Sprintf("%s: size %#x, the body ends %#x bytes behind the section start (S2)", at, size, len(body)-off)
		}
		if typ == 0x17 {
			if depth > 16 {
				return at + ": nesting too deep"
			}
			if d := g3Volume1(body[off+hl:off+size], at+" >", depth+1); d != "ok" {
				return d
			}
		}
		off = (off + size + 3) &^ 3
	}
	return "ok"
}

// g3File: X1-X5 for the file at volume offset o; returns its size.
func g3File(v []byte, o int, where string, depth int) (int, string) {
	h := v[o:]
	attrs, typ := h[19], h[18]
	size := int(h[20]) | int(h[21])<<8 | int(h[22])<<16
	hl := 24
	if attrs&1 != 0 {
		if len(h) < 32 {
			return 0, where + ": large-file attribute, no room for the 32-byte header (X1)"
		}
		if size != 0xFFFFFF && size != 0 {
			return 0, fmt.Sprintf("%s: large-file attribute with 3-byte size %#x (X1)", where, size)
		}
		x := binary.LittleEndian.Uint64(h[24:])
		if x > uint64(len(h)) {
			return 0, fmt.Sprintf("%s: extended size %#x, %#x bytes left in the volume (L2)", where, x, len(h))
		}
		size, hl = int(x), 32
	} else if size == 0xFFFFFF {
		return 0, where + ": 3-byte size FFFFFF without the large-file attribute (X1)"
	}
	if size < hl {
		return 0, fmt.Sprintf("%s: size %#x below the header length %d (X1)", where, size, hl)
	}
	if size > len(h) {
		return 0, fmt.Sprintf("%s: size %#x, %#x bytes left in the volume (L2)", where, size, len(h))
	}
	if a := g3Align(attrs); (o+hl)%a != 0 {
		return 0, fmt.Sprintf("%s: data at %#x is not a multiple of the requested alignment %#x (attributes %#x) (X2)", where, o+hl, a, attrs)
	}
	var s uint8
	for _, x := range h[:hl] {
		s += x
	}
	if s -= h[17] + h[23]; s != 0 {
		return 0, fmt.Sprintf("%s: header checksum (sum %#x) (X3)", where, s)
	}
	body := h[hl:size]
	if attrs&0x40 != 0 {
		s = h[17]
		for _, x := range body {
			s += x
		}
		if s != 0 {
			return 0, fmt.Sprintf("%s: body checksum (sum %#x) (X4)", where, s)
		}
	} else if h[17] != 0xAA {
		return 0, fmt.Sprintf("%s: file checksum byte %#x, not AA (X4)", where, h[17])
	}
	if g3Sectioned(typ) {
		if d := g3Sections(body, where, depth); d != "ok" {
			return 0, d
		}
	}
	return size, "ok"
}

// g3Volume1: V1-V7 on exactly the bytes of one volume.
func g3Volume1(b []byte, where string, depth int) string {
	at := where + " volume"
	if len(b) < 64 || !bytes.Equal(b[40:44], []byte("_FVH")) {
		return at + ": shorter than 64 bytes or no _FVH signature (V1)"
	}
	if l := binary.LittleEndian.Uint64(b[32:]); l != uint64(len(b)) {
		return fmt.Sprintf("%s: FvLength %#x, %#x bytes present (V1)", at, l, len(b))
	}
	hlen := int(binary.LittleEndian.Uint16(b[48:]))
	eho := int(binary.LittleEndian.Uint16(b[52:]))
	if hlen > len(b) {
		return at + ": header length beyond the volume (V2)"
	}
	total, stop := uint64(0), -1
	for o := 56; o+8 <= len(b); o += 8 {
		n, s := binary.LittleEndian.Uint32(b[o:]), binary.LittleEndian.Uint32(b[o+4:])
		if n == 0 && s == 0 {
			stop = o + 8
			break
		}
		if n == 0 || s == 0 {
			return at + ": block map entry with a zero field (V2)"
		}
		total += uint64(n) * uint64(s)
	}
	if stop != hlen {
		return fmt.Sprintf("%s: block map ends at %#x, header length %#x (V2)", at, stop, hlen)
	}
	if total != uint64(len(b)) {
		return fmt.Sprintf("%s: length %#x, block map adds up to %#x (V3)", at, len(b), total)
	}
	var sum uint16
	for i := 0; i+1 < hlen; i += 2 {
		sum += binary.LittleEndian.Uint16(b[i:])
	}
	if sum != 0 {
		return fmt.Sprintf("%s: header checksum (sum %#x) (V4)", at, sum)
	}
	start := hlen
	if eho != 0 {
		if eho < hlen || eho+20 > len(b) {
			return at + ": extended header outside the volume (V5)"
		}
		es := int(binary.LittleEndian.Uint32(b[eho+16:]))
		if es < 20 || eho+es > len(b) {
			return at + ": extended header size (V5)"
		}
		start = eho + es
	}
	if !bytes.Equal(b[16:32], g3ffs2) && !bytes.Equal(b[16:32], g3ffs3) {
		return "ok"
	}
	e := byte(0)
	if binary.LittleEndian.Uint32(b[44:])&0x800 != 0 {
		e = 0xFF
	}
	off := start
	for n := 0; ; n++ {
		o := (off + 7) &^ 7
		if off > len(b) {
			return at + ": file area starts behind the volume"
		}
		if o+24 > len(b) || g3AllAre(b[o:o+24], e) < 0 {
			if i := g3AllAre(b[off:], e); i >= 0 {
				return fmt.Sprintf("%s: byte %#x behind the last file (ends at %#x) is %#02x: neither free space nor a file (L3)", at, off+i, off, b[off+i])
			}
			return "ok"
		}
		if i := g3AllAre(b[off:o], e); i >= 0 {
			return fmt.Sprintf("%s: byte %#x in front of file %d is not erased (L1)", at, off+i, n)
		}
		size, d := g3File(b, o, fmt.Sprintf("%s file %d at %#x", at, n, o), depth)
		if d != "ok" {
			return d
		}
		off = o + size
	}
}

// g3Valid judges a bare BIOS-region image (B1-B2).
func g3Valid(img []byte) string {
	n := 0
	for pos := 0; pos+44 <= len(img); {
		if !bytes.Equal(img[pos+40:pos+44], []byte("_FVH")) {
			pos += 8
			continue
		}
		l := binary.LittleEndian.Uint64(img[pos+32:])
		if l < 64 || l > uint64(len(img)-pos) {
			return fmt.Sprintf("volume at %#x: FvLength %#x does not fit the region (B1)", pos, l)
		}
		if d := g3Volume1(img[pos:pos+int(l)], fmt.Sprintf("at %#x:", pos), 0); d != "ok" {
			return d
		}
		n++
		pos += int(l)
	}
	if n == 0 {
		return "no volume (B2)"
	}
	return "ok"
}
