// Package c02: harness for property C02 (not built yet).
package c02
