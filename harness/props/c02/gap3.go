package c02

// gap3.go — gap closing round 3 (seeded defects c02-8 and c02-9).
//
// c02-8 (the entry "32 KiB" of the data-alignment table became 16 KiB) was only seen by the T1 tie:
// no generated image held a file with a data alignment above 4 KiB, and a re-save of a file that
// already sits behind its pad file keeps it where it is.  c02-9 (the extended header of a file that
// already is a large file counted twice in its size field) was missed: no input image held a file
// of 16 MiB or more, and no command line assembled a tree twice after a file had crossed that limit.
//
// Three case streams, appended behind all older ones (their random stream is unchanged):
//
//	align-chain-*   bare volumes whose files ask for *decreasing* data alignments (64 KiB, 32 KiB,
//	                4 KiB, 1 KiB, 512, 128, 16): when the pad files are laid out anew every aligned
//	                file follows a file that ends just behind a multiple of its own alignment, so a
//	                placement on any smaller boundary is not a multiple of the requested one.  Edits:
//	                remove the pad files, remove / grow the file in front, insert a file / a pad file
//	                after every file of the chain, insert an aligned file, two saves in a row.
//	                Ordinary "edit" cases: every C02 oracle and the model comparison apply.
//	align-random-*  PRNG variant: 2-5 aligned files (alignment indices 1..7 in any order), head files
//	                of 0..40 KiB, one or two edits of the same family.
//	big-*  (Op gap3) images of 17-33 MiB, built in Run from the scenario name: the chain of all
//	                fifteen alignments (16 MiB … 16 bytes), a sectioned file of more than 16 MiB in
//	                the *input* (plain save, removal in front of it, shrinking it below the limit,
//	                with a data alignment), a file that crosses the limit in the first of two saves,
//	                a new file / a pad file of 16 MiB and more inserted.  Judged in Go (gap3valid.go);
//	                the Lean reader needs ~1 µs per byte and list cell and is asked in the thorough
//	                tier only.

import (
	"fmt"
	"math/rand"
	"strings"

	"verif/harness/core"
	hu "verif/harness/props/uefi"
	ue "verif/harness/props/uefiedit"
)

// alignment index (0..15) -> attribute bits (FFS_ATTRIB_DATA_ALIGNMENT bits 3-5, _ALIGNMENT2 bit 1)
func g3Attrs(idx int) uint8 { return uint8((idx&7)<<3 | (idx>>3)<<1) }

func g3GUID(n byte) []byte {
	g := make([]byte, 16)
	for i := range g {
		g[i] = n ^ byte(0x31*i+7)
	}
	g[0] = n
	return g
}

const g3PadGUID = "FFFFFFFF-FFFF-FFFF-FFFF-FFFFFFFFFFFF"

func g3Payload(n int, salt byte) []byte {
	b := make([]byte, n)
	for i := range b {
		b[i] = byte(i*13) + salt
	}
	copy(b, "MZ")
	return b
}

// g3Driver: a sectioned driver (PE32 + UI name) asking for alignment index idx.
func g3Driver(guid byte, idx int, name string, pe int, ck bool) *hu.File {
	f := &hu.File{Kind: "fs", GUID: g3GUID(guid), Type: 7, Attrs: g3Attrs(idx), State: 0xF8}
	if ck {
		f.Attrs |= 0x40
	}
	f.Secs = []*hu.Sec{{Kind: "sl", Type: 0x10, Ext: pe+4 >= 0xFFFFFF, Body: g3Payload(pe, guid)},
		{Kind: "su", Name: []rune(name)}}
	return f
}

func g3Raw(guid byte, n int) *hu.File {
	f := &hu.File{Kind: "fl", GUID: g3GUID(guid), Type: 1, Attrs: 0x40, State: 0xF8, Body: g3Payload(n, guid)}
	f.CkH = hu.HeaderChecksum(f, 24+n)
	var s uint8
	for _, x := range f.Body {
		s += x
	}
	f.CkF = 0 - s
	return f
}

// g3Volume lays the files out with minimal pad files (computed by the reference builder, not by
// fiano) in a volume of exactly `total` bytes (a multiple of 4096).
func g3Volume(files []*hu.File, total int, v3 bool) *hu.FV {
	v := &hu.FV{ZV: make([]byte, 16), V3: v3, Attrs: 0x0004FEFF, Rev: 2, Blocks: []hu.Block{{Count: uint32(total / 4096), Size: 4096}}}
	off := 72
	for _, f := range files {
		fb := len(f.Ser())
		if pad := hu.PlaceAligned(off, f.StoredAttrs()); pad != nil {
			v.Files = append(v.Files, pad)
			off = (off+7)&^7 + len(pad.Body) + 24
			if pad.Ext {
				off += 8
			}
		}
		v.Files = append(v.Files, f)
		off = (off+7)&^7 + fb
	}
	if total%4096 != 0 || off+64 > total {
		panic(fmt.Sprintf("c02 gap3: files end at %#x, volume of %#x bytes", off, total))
	}
	v.Free = total - off
	return v
}

func g3Img(v *hu.FV) *hu.Img { return &hu.Img{Bios: &hu.Bios{Items: []hu.Item{{FV: v}}}} }

func g3Name(idx int) string { return fmt.Sprintf("Al%d", idx) }

// g3ChainFiles: Head, then one driver per alignment index, then a raw tail file.
func g3ChainFiles(head int, idxs []int, v byte) []*hu.File {
	fs := []*hu.File{g3Driver(0x10, 0, "Head", head, false)}
	for i, k := range idxs {
		fs = append(fs, g3Driver(0x20+byte(i), k, g3Name(k), 24+int(v)*8+k*12+i%3, (i+int(v))%2 == 0))
	}
	return append(fs, g3Raw(0x70, 33))
}

func g3Save() ue.Op { return ue.Op{Kind: "save"} }

// g3ChainEdits: the edit family over a chain image (names Head, Al<k>).
func g3ChainEdits(idxs []int, maxAlign int) map[string][]ue.Op {
	small := g3Driver(0x80, 0, "NewS", 40, true).Ser()
	out := map[string][]ue.Op{
		"remove-pads":         {{Kind: "rm", Sel: g3PadGUID}, g3Save()},
		"remove-head":         {{Kind: "rm", Sel: "Head"}, g3Save()},
		"grow-head":           {{Kind: "pe", Sel: "Head", Blob: g3Payload(maxAlign/2+maxAlign/8+5, 3)}, g3Save()},
		"insert-front":        {{Kind: "if", Where: "front", Sel: "Head", Blob: small}, g3Save()},
		"insert-after-head":   {{Kind: "if", Where: "after", Sel: "Head", Blob: small}, g3Save()},
		"remove-pads-2-saves": {{Kind: "rm", Sel: g3PadGUID}, g3Save(), {Kind: "if", Where: "after", Sel: g3Name(idxs[0]), Blob: small}, g3Save()},
	}
	for i, k := range idxs {
		out["insert-after-"+g3Name(k)] = []ue.Op{{Kind: "if", Where: "after", Sel: g3Name(k), Blob: small}, g3Save()}
		if i > 0 {
			// a new file that itself asks for this alignment, in front of the one that is there
			nf := g3Driver(0x90+byte(i), k, "New"+g3Name(k), 50+i, i%2 == 0).Ser()
			out["insert-aligned-before-"+g3Name(k)] = []ue.Op{{Kind: "if", Where: "before", Sel: g3Name(k), Blob: nf}, g3Save()}
		}
	}
	out["remove-"+g3Name(idxs[0])] = []ue.Op{{Kind: "rm", Sel: g3Name(idxs[0])}, g3Save()}
	out["replace-"+g3Name(idxs[len(idxs)-1])] = []ue.Op{{Kind: "if", Where: "replace", Sel: g3Name(idxs[len(idxs)-1]),
		Blob: g3Driver(0xA0, idxs[0], "Repl", 77, true).Ser()}, g3Save()}
	return out
}

func g3Keys(m map[string][]ue.Op) []string {
	var ks []string
	for k := range m {
		ks = append(ks, k)
	}
	for i := range ks {
		for j := i + 1; j < len(ks); j++ {
			if ks[j] < ks[i] {
				ks[i], ks[j] = ks[j], ks[i]
			}
		}
	}
	return ks
}

// alignChainCases: two fixed chains (32 KiB downwards in 128 KiB; 64 KiB + 32 KiB in 256 KiB).
func alignChainCases() []core.Case {
	var cs []core.Case
	add := func(tag string, idxs []int, total int, only map[string]bool) {
		img := g3Img(g3Volume(g3ChainFiles(40, idxs, 1), total, false))
		eds := g3ChainEdits(idxs, g3Align(g3Attrs(idxs[0])))
		for _, name := range g3Keys(eds) {
			if only != nil && !only[name] {
				continue
			}
			cs = append(cs, ue.CaseOf("align-chain-"+tag+"-"+name, img, eds[name]))
		}
	}
	add("32k", []int{6, 5, 4, 3, 2, 1}, 128<<10, nil)
	// the same chain (32 KiB, 4 KiB, 512) inside a nested volume: alignment counts from the start of the inner volume,
	// which sits at offset 0x64 of the outer one
	inner := g3Volume(g3ChainFiles(40, []int{6, 5, 3}, 3), 128<<10, false)
	holder := &hu.File{Kind: "fs", GUID: g3GUID(0x60), Type: 0x0B, State: 0xF8, Secs: []*hu.Sec{{Kind: "sf", FV: inner}}}
	nested := g3Img(g3Volume([]*hu.File{g3Driver(0x61, 0, "Outer", 20, true), holder, g3Raw(0x62, 17)}, 192<<10, false))
	for _, name := range []string{"remove-pads", "insert-after-head", "insert-after-Al6"} {
		cs = append(cs, ue.CaseOf("align-chain-nested-"+name, nested, g3ChainEdits([]int{6, 5, 3}, 32<<10)[name]))
	}
	add("64k", []int{7, 6}, 256<<10, map[string]bool{"remove-pads": true, "insert-after-head": true, "insert-after-Al7": true,
		"grow-head": true, "insert-aligned-before-Al6": true})
	return cs
}

// alignRandomCases: PRNG chains.
func alignRandomCases(r *rand.Rand, n int) []core.Case {
	var cs []core.Case
	for len(cs) < n {
		top := 6
		if r.Intn(5) == 0 {
			top = 7
		}
		k := 2 + r.Intn(4)
		idxs := []int{top}
		for len(idxs) < k {
			idxs = append(idxs, 1+r.Intn(top))
		}
		if r.Intn(3) > 0 { // mostly decreasing
			for i := range idxs {
				for j := i + 1; j < len(idxs); j++ {
					if idxs[j] > idxs[i] {
						idxs[i], idxs[j] = idxs[j], idxs[i]
					}
				}
			}
		} else {
			r.Shuffle(len(idxs), func(i, j int) { idxs[i], idxs[j] = idxs[j], idxs[i] })
		}
		seen := map[int]bool{}
		uniq := idxs[:0]
		for _, x := range idxs {
			if !seen[x] {
				seen[x] = true
				uniq = append(uniq, x)
			}
		}
		idxs = uniq
		a := g3Align(g3Attrs(top))
		head := []int{8, 40, 300, a / 2, a/2 + 100, a + 9}[r.Intn(6)]
		files := g3ChainFiles(head, idxs, byte(r.Intn(7)))
		need := 72
		for _, f := range files {
			need += len(f.Ser()) + 8 + g3Align(f.Attrs)
		}
		total := (need + 2*a + 8192 + 4095) &^ 4095
		if total > 384<<10 {
			continue
		}
		img := g3Img(g3Volume(files, total, r.Intn(3) == 0))
		eds := g3ChainEdits(idxs, a)
		names := g3Keys(eds)
		ops := append([]ue.Op{}, eds[names[r.Intn(len(names))]]...)
		if r.Intn(3) == 0 { // a second edit and a second save
			ops = append(ops, eds[names[r.Intn(len(names))]]...)
		}
		cs = append(cs, ue.CaseOf(fmt.Sprintf("align-random-%dk", a>>10), img, ops))
	}
	return cs
}

func isAlignCase(c core.Case) bool { return strings.HasPrefix(c.Kind, "align-") }

// alignChecks: the Go reader as a second judge of the small alignment cases (the Lean reader is the
// first: oracle saved-image-valid of ChecksC02).
func alignChecks(e *ue.Eval) []core.Check {
	if d := g3Valid(e.In); d != "ok" {
		panic("c02 gap3: generated image does not pass the Go reader (generator bug): " + d)
	}
	var cs []core.Check
	for _, st := range e.Res.Steps {
		if st.Op.IsSave() && st.Class == "ok" {
			cs = append(cs, core.Check{Tag: "O", What: "saved-image-go-valid", Exp: "ok", Got: g3Valid(st.Saved), Sig: "saved-image-go-valid"})
		}
	}
	return cs
}

// ---------------------------------------------------------------- big images (Op gap3)

type g3Scn struct {
	name string
	img  func() *hu.Img
	ops  func() []ue.Op
}

const g3MiB = 1 << 20

// bigChain: Head, then drivers asking for 16 MiB, 8 MiB, … 16 bytes, in a 33 MiB FFSv3 volume.
func g3BigChainImage() *hu.Img {
	var idxs []int
	for k := 15; k >= 1; k-- {
		idxs = append(idxs, k)
	}
	return g3Img(g3Volume(g3ChainFiles(40, idxs, 2), 33*g3MiB, true))
}

// g3LargeImage: Head, Big (a driver whose PE32 section has 16 MiB: extended section header, large-file
// attribute, 32-byte file header; data alignment index bigAlign), Other, 1.5 MiB free.
func g3LargeImage(bigAlign int) *hu.Img {
	big := g3Driver(0x42, bigAlign, "Big", 16*g3MiB, true)
	fs := []*hu.File{g3Driver(0x41, 0, "Head", 5000, false), big, g3Driver(0x43, 1, "Other", 64, true), g3Raw(0x44, 100)}
	return g3Img(g3Volume(fs, 18*g3MiB, true))
}

// g3RoomyImage: two small drivers and 17 MiB of free space (the image of big.go with a Head in front).
func g3RoomyImage() *hu.Img {
	fs := []*hu.File{g3Driver(0x41, 0, "Head", 64, false), g3Driver(0x42, 0, "Big", 64, true), g3Driver(0x43, 1, "Other", 64, true)}
	return g3Img(g3Volume(fs, 18*g3MiB, true))
}

func g3Scenarios() []g3Scn {
	pe := func(sel string, n int) ue.Op { return ue.Op{Kind: "pe", Sel: sel, Blob: g3Payload(n, 9)} }
	rm := func(sel string) ue.Op { return ue.Op{Kind: "rm", Sel: sel} }
	large := func() *hu.Img { return g3LargeImage(0) }
	return []g3Scn{
		{"big-chain-remove-pads", g3BigChainImage, func() []ue.Op { return []ue.Op{rm(g3PadGUID), g3Save()} }},
		{"big-large-input-save", large, func() []ue.Op { return []ue.Op{g3Save()} }},
		{"big-large-input-remove-head", large, func() []ue.Op { return []ue.Op{rm("Head"), g3Save()} }},
		{"big-large-input-shrink", large, func() []ue.Op { return []ue.Op{pe("Big", 0xFFFFFF-24-4-16-1), g3Save(), pe("Big", 700), g3Save()} }},
		{"big-large-input-remove-pad", large, func() []ue.Op { return []ue.Op{{Kind: "rp", Sel: "Big"}, g3Save()} }},
		{"big-large-aligned-remove-head", func() *hu.Img { return g3LargeImage(5) }, func() []ue.Op { return []ue.Op{rm("Head"), g3Save()} }},
		{"big-cross-limit-two-saves", g3RoomyImage, func() []ue.Op { return []ue.Op{pe("Big", 0xFFFFFF-4), g3Save(), g3Save()} }},
		{"big-cross-limit-edit-save", g3RoomyImage, func() []ue.Op {
			return []ue.Op{pe("Big", 0xFFFFFF-41), g3Save(), {Kind: "if", Where: "front", Sel: "Head", Blob: g3Driver(0x80, 0, "NewS", 40, true).Ser()}, g3Save()}
		}},
		{"big-insert-large-file", g3RoomyImage, func() []ue.Op {
			return []ue.Op{{Kind: "if", Where: "after", Sel: "Head", Blob: g3Driver(0x50, 0, "NewBig", 16*g3MiB+3, true).Ser()}, g3Save()}
		}},
	}
}

func bigGap3Cases(tier string) []core.Case {
	var cs []core.Case
	for i, s := range g3Scenarios() {
		lean := "0"
		if tier == "thorough" && (i == 1 || i == 6) {
			lean = "1"
		}
		cs = append(cs, core.Case{Kind: s.name, Op: "gap3", Args: map[string]string{"scn": s.name, "lean": lean}})
	}
	return cs
}

func runGap3(c core.Case) core.Outcome {
	var scn *g3Scn
	for _, s := range g3Scenarios() {
		if s.name == c.Args["scn"] {
			s := s
			scn = &s
		}
	}
	if scn == nil {
		panic("c02 gap3: unknown scenario " + c.Args["scn"])
	}
	in := scn.img().Ser()
	if d := g3Valid(in); d != "ok" {
		panic("c02 gap3: generated image does not pass the Go reader (generator bug): " + d)
	}
	ops := scn.ops()
	res := ue.Execute(in, ops)
	saved := res.Saved()
	out := core.Outcome{Class: fmt.Sprintf("gap3:%s:%s/%d-saved", res.Stage, res.Class, len(saved)), Key: scn.name + res.Class}
	for _, st := range res.Steps {
		if !st.Op.IsSave() {
			continue
		}
		if st.Class != "ok" {
			got := "no file"
			if st.LeftFile {
				got = "a file was written"
			}
			out.Checks = append(out.Checks, core.Check{Tag: "O", What: "no-output-on-error", Exp: "no file", Got: got, Sig: "no-output-on-error"})
			continue
		}
		out.Checks = append(out.Checks,
			core.Check{Tag: "O", What: "same-size", Exp: fmt.Sprint(len(in)), Got: fmt.Sprint(len(st.Saved)), Sig: "same-size"},
			core.Check{Tag: "O", What: "saved-image-go-valid", Exp: "ok", Got: g3Valid(st.Saved), Sig: "saved-image-go-valid"})
	}
	if c.Args["lean"] == "1" && len(saved) > 0 {
		out.Checks = append(out.Checks, core.Check{Tag: "O", What: "saved-image-valid", Req: "spec-valid " + core.Hex(saved[len(saved)-1]),
			Exp: "ok", Sig: "saved-image-valid"})
	}
	return out
}

// gap3Cases appends the streams of this file to the cases of the older generators.
func gap3Cases(cs []core.Case, r *rand.Rand, tier string) []core.Case {
	cs = append(cs, alignChainCases()...)
	n := 20
	if tier == "thorough" {
		n = 300
	}
	cs = append(cs, alignRandomCases(r, n)...)
	return append(cs, bigGap3Cases(tier)...)
}
