package c02

// ops3.go — tie T2 for `nvram-compact` inside the edit language (follow-up wp-c02c, round 3): the Lean
// model (lean/FianoModel/Uefi/EditValidOpsDefs.lean: the visitor as an editor of the generic tree
// rewriting, C10's model of the NVAR store as the NVAR hooks of Parse / Assemble and as the compaction)
// against the real visitors.  The shared edit harness treats nvram-compact as "not modelled"; here every
// command line whose only unmodelled commands are nvram-compact and create-fv is run on the model
// (driver request `run3`): status and every saved file are compared, and the driver must report that the
// hypotheses of the theorems about the NVAR functions (`NvLaw`, `CompactLaw`: Length = |Buf| for every
// store, before and after Assemble / compaction) held on every tree of the run (`law=ok`).
// For the images of the NVAR streams (kinds nv-…) the check also runs on command lines WITHOUT a
// compaction: a plain save then goes through C10's Assemble of the store instead of the leaf model.

import (
	"fmt"
	"strings"

	"verif/harness/core"
	ue "verif/harness/props/uefiedit"
)

// ops3Modelled: the Lean model of run3 / run4 knows every command; has = an nvram-compact is among them,
// tighten = a tighten_me is (then the request is run4: C12's model of tighten_me on the shared tree; T2 only,
// no theorem of C02 covers it).
func ops3Modelled(ops []ue.Op) (ok, has, tighten bool) {
	for _, o := range ops {
		switch {
		case o.Kind == "tighten":
			tighten = true
		case o.Kind == "nvcompact":
			has = true
		case o.Kind == "createfv":
			if o.Off < 0 || o.Size < 0 || len(o.Blob) != 16 {
				return false, has, tighten
			}
		case !o.Modelled():
			return false, has, tighten
		}
	}
	return true, has, tighten
}

func run3Request(req string, in []byte, ops []ue.Op) string {
	var ws []string
	for _, o := range ops {
		if o.Kind == "createfv" {
			ws = append(ws, fmt.Sprintf("cfv:%d:%d:%s", o.Off, o.Size, core.Hex(o.Blob)))
		} else {
			ws = append(ws, o.Word())
		}
	}
	return req + " " + core.Hex(in) + " " + strings.Join(ws, " ")
}

// ops3Checks is the correspondence check for command lines with nvram-compact (any image) and for every
// modelled command line on an image of the NVAR streams.
func ops3Checks(e *ue.Eval, nvImage bool) []core.Check {
	ok, has, tighten := ops3Modelled(e.Ops)
	if !ok || !(has || nvImage || tighten) || !ue.PatternsModelled(e.In, e.Ops) {
		return nil
	}
	if tighten {
		return []core.Check{{Tag: "M", What: "run-ops4", Req: run3Request("run4", e.In, e.Ops), Exp: e.Res.RunLine()}}
	}
	exp := e.Res.RunLine()
	if e.Res.Stage == "run" {
		exp += " law=ok"
	}
	return []core.Check{{Tag: "M", What: "run-ops3", Req: run3Request("run3", e.In, e.Ops), Exp: exp}}
}
