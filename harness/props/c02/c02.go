// Package c02: every image the tool writes is a structurally valid image of the same size
// (edit visitors + Save against the edit-operation model, the Lean reader Valid.validImage on the
// bytes fiano wrote, and the error / no-output rules).
package c02

import (
	"math/rand"

	"verif/harness/core"
	ue "verif/harness/props/uefiedit"
)

type prop struct{}

func init() { core.Register(prop{}) }

func (prop) ID() string { return "C02" }

func (prop) Run(c core.Case) core.Outcome {
	if c.Op == "bigpe" {
		return runBig(c)
	}
	in, ops := ue.Unpack(c)
	e := ue.Evaluate(in, ops)
	out := core.Outcome{Class: e.Class(), Key: e.Key()}
	out.Checks = append(out.Checks, e.ModelChecks(false)...)
	out.Checks = append(out.Checks, createFvChecks(e)...) // sequences with create-fv: model of wp-c02b (createfv.go)
	out.Checks = append(out.Checks, e.InputValid())
	out.Checks = append(out.Checks, e.ChecksC02()...)
	if isNvCase(c) { // images with NVAR stores, nvram-compact (gap round 2, nvram.go)
		out.Class = nvClass(c, e)
		out.Checks = append(out.Checks, nvChecks(e)...)
	}
	return out
}

func (prop) Gen(r *rand.Rand, tier string) []core.Case {
	// the create-fv cases come last: the random stream of the older generators is unchanged
	if tier == "thorough" {
		cs := append(append(append(ue.ExhaustiveCases(3), append(ue.WrapperCases(), ue.TailCases()...)...), bigCases(tier)...), ue.RandomCases(r, 20000, true)...)
		cs = append(cs, createFvCases(r, 1500)...)
		return append(append(cs, ue.NvFixedCases()...), ue.NvRandomCases(r, 3000)...)
	}
	cs := append(append(append(ue.ExhaustiveCases(1), append(ue.WrapperCases(), ue.TailCases()...)...), bigCases(tier)...), ue.RandomCases(r, 400, true)...)
	cs = append(cs, createFvCases(r, 120)...)
	// images with NVAR stores and nvram-compact come last of all (gap round 2)
	return append(append(cs, ue.NvFixedCases()...), ue.NvRandomCases(r, 250)...)
}
