// Package c02: every image the tool writes is a structurally valid image of the same size
// (edit visitors + Save against the edit-operation model, the Lean reader Valid.validImage on the
// bytes fiano wrote, and the error / no-output rules).
package c02

import (
	"math/rand"

	"verif/harness/core"
	ue "verif/harness/props/uefiedit"
)

type prop struct{}

func init() { core.Register(prop{}) }

func (prop) ID() string { return "C02" }

func (prop) Run(c core.Case) core.Outcome {
	if c.Op == "bigpe" {
		return runBig(c)
	}
	if c.Op == "gap3" { // images of 17-33 MiB judged in Go (gap round 3, gap3.go)
		return runGap3(c)
	}
	if c.Op == "bigsec" { // finding F-c02c-1 (bigsec.go); replay only
		return runBigSec(c)
	}
	in, ops := ue.Unpack(c)
	e := ue.Evaluate(in, ops)
	out := core.Outcome{Class: e.Class(), Key: e.Key()}
	out.Checks = append(out.Checks, e.ModelChecks(false)...)
	out.Checks = append(out.Checks, createFvChecks(e)...) // sequences with create-fv: model of wp-c02b (createfv.go)
	m3 := ops3Checks(e, isNvCase(c)) // sequences with nvram-compact / NVAR images: model of wp-c02c (ops3.go)
	out.Checks = append(out.Checks, m3...)
	if len(m3) > 0 && m3[0].What == "run-ops4" { // the histogram shows the tighten_me runs that were run on the model
		out.Class += "|tighten-model"
	}
	out.Checks = append(out.Checks, e.InputValid())
	out.Checks = append(out.Checks, e.ChecksC02()...)
	if isNvCase(c) { // images with NVAR stores, nvram-compact (gap round 2, nvram.go)
		out.Class = nvClass(c, e)
		if len(m3) > 0 { // the histogram shows how many NVAR runs were also run on the model
			out.Class += "|model"
		}
		out.Checks = append(out.Checks, nvChecks(e)...)
	}
	if isAlignCase(c) { // data-alignment chains (gap round 3, gap3.go): the Go reader as a second judge
		out.Checks = append(out.Checks, alignChecks(e)...)
	}
	return out
}

func (prop) Gen(r *rand.Rand, tier string) []core.Case {
	// the create-fv cases come last: the random stream of the older generators is unchanged
	if tier == "thorough" {
		cs := append(append(append(ue.ExhaustiveCases(3), append(ue.WrapperCases(), ue.TailCases()...)...), bigCases(tier)...), ue.RandomCases(r, 20000, true)...)
		cs = append(cs, createFvCases(r, 1500)...)
		cs = append(append(cs, ue.NvFixedCases()...), ue.NvRandomCases(r, 3000)...)
		return gap3Cases(append(cs, tightenCases(r, 600)...), r, tier) // gap round 3 (gap3.go) behind round 3: tighten_me where it can succeed (tighten.go)
	}
	cs := append(append(append(ue.ExhaustiveCases(1), append(ue.WrapperCases(), ue.TailCases()...)...), bigCases(tier)...), ue.RandomCases(r, 400, true)...)
	cs = append(cs, createFvCases(r, 120)...)
	// images with NVAR stores and nvram-compact come last of all (gap round 2)
	cs = append(append(cs, ue.NvFixedCases()...), ue.NvRandomCases(r, 250)...)
	return gap3Cases(append(cs, tightenCases(r, 60)...), r, tier) // gap round 3 (gap3.go) behind round 3: tighten_me where it can succeed (tighten.go), last of all
}
