package c02

// tighten.go — command lines with `tighten_me` on images where it can succeed (follow-up wp-c02c, round 3).
// The flash images of the shared random stream rarely have an ME region directly in front of the BIOS region
// whose tail is erased, so tighten_me almost always ended in an error there.  Here the generated flash image
// (descriptor, regions, table as the shared generator builds them) is kept and the bytes of an ME region that
// sits directly in front of the BIOS region are rewritten: all erased (no partition table: the region shrinks
// to nothing — the BIOS region then starts where the empty ME region does, the case in which Go's stable sort
// is observable), a partition table "$FPT" with one partition and an erased tail (the region shrinks to the
// blocks the partition needs, or not at all), or a tail that is not erased (error).  The command lines put
// tighten_me in front of, between and behind generated edit commands, saves, create-fv into the new leading
// padding, and a second tighten_me.  Judged by all C02 oracles (saved-image-valid by the Lean reader,
// same-size, no-output-on-error, …) and compared with the model (M run-ops4: C12's tighten_me on the shared
// tree + the edit model of C02).

import (
	"encoding/binary"
	"math/rand"

	"verif/harness/core"
	ue "verif/harness/props/uefiedit"
)

func tightenCases(r *rand.Rand, n int) []core.Case {
	var cs []core.Case
	g := &ue.ImgGen{R: r}
	for tries := 0; len(cs) < n && tries < 400*n; tries++ {
		o := ue.VolOpts{Budget: 300 + r.Intn(900), Depth: 1, Free: -1, MaxAlign: 3, NFiles: -1}
		img := g.Image("flash", o)
		k := -1
		for i, rg := range img.Flash.Regions {
			if rg.Kind == "me" && i+1 < len(img.Flash.Regions) && img.Flash.Regions[i+1].Kind == "rb" {
				k = i
			}
		}
		if k < 0 {
			continue
		}
		me := img.Flash.Regions[k]
		d := me.Data
		for i := range d {
			d[i] = 0xFF
		}
		shape := "erased"
		switch r.Intn(6) {
		case 0, 1: // no table, all erased
		case 2, 3, 4: // one partition, erased tail
			shape = "fpt"
			end := 0x200 + r.Intn(len(d)-0x200+1)
			if r.Intn(3) == 0 {
				end = (end + 4095) / 4096 * 4096 // ends on a block boundary
			}
			for i := 0; i < end; i++ {
				d[i] = byte(i*5 + 1)
			}
			copy(d[16:], "$FPT")
			binary.LittleEndian.PutUint32(d[20:], 1)
			e := d[48:80]
			copy(e, "PART")
			binary.LittleEndian.PutUint32(e[8:], 0x100)
			binary.LittleEndian.PutUint32(e[12:], uint32(end-0x100))
			binary.LittleEndian.PutUint32(e[28:], 0)
		default: // the tail is not erased
			shape = "dirty"
			d[len(d)-1-r.Intn(64)] = 0x5A
		}
		in := img.Ser()
		if len(in) > 64*1024 {
			continue
		}
		rd, err := ue.ReadImage(in)
		if err != nil {
			panic("c02: generated image unreadable: " + err.Error())
		}
		inv := ue.TakeInventory(ue.Abstract(rd))
		t := ue.Op{Kind: "tighten"}
		save := ue.Op{Kind: "save"}
		edits := func(k int) []ue.Op { // generated edit commands without their final save
			ops := g.Ops(inv, k, false, len(in))
			if len(ops) > 0 && ops[len(ops)-1].IsSave() {
				ops = ops[:len(ops)-1]
			}
			return ops
		}
		var ops []ue.Op
		switch r.Intn(7) {
		case 0:
			ops = []ue.Op{t, save}
		case 1:
			ops = []ue.Op{t, t, save}
		case 2:
			ops = append(append([]ue.Op{t}, edits(1+r.Intn(3))...), save)
		case 3:
			ops = append(append(edits(1+r.Intn(3)), t), save)
		case 4:
			ops = append(append([]ue.Op{save, t, save}, edits(1+r.Intn(2))...), save)
		case 5:
			ops = append(append(append(edits(1), t), edits(1)...), save, t, save)
		default:
			ops = []ue.Op{t, save, t, save}
		}
		cs = append(cs, ue.CaseOf("tighten-"+shape, img, ops))
	}
	return cs
}
