package c02

// bigsec.go — clause R1 of `readAlikeB`, reproduced (follow-up wp-c02c, finding F-c02c-1): a file above
// 16 MiB whose body is ONE section of a type NewSection does not list (0x20), 3-byte size FF FF FF and the
// 32-bit extended size = the whole body — a section the PI specification (and both independent readers)
// read as one section.  fiano clamps the section to 0xFFFFFF bytes and reads what lies at body offset
// 0x1000000 as further sections; the payload shows there a user-interface section without a terminating
// NUL ("AB") and a RAW section that ends with the body.  A plain `save` regenerates the "UI section" with a
// terminator: the file grows by 4 bytes while its first section still says the old size — the saved image
// is invalid (rule S2: the sections do not tile the file).  With fakes=0 the payload is inert and the save is
// the identity.  Far too large for the corpus (17 MiB): the case is generated from its parameters; it is
// not part of Gen until the finding is in known_findings.json or the fix is in /repo
// (fixes/C02-section-extsize-unlisted.diff); replay: reports/C02c-cases/unlisted-section-ffffff-above-16MiB.json.

import (
	"bytes"
	"fmt"

	"verif/harness/core"
	hu "verif/harness/props/uefi"
	ue "verif/harness/props/uefiedit"
)

func bigSecImage(fakes bool) *hu.Img {
	const R = 0x100
	D := 0x1000000 + 8 + R
	payload := make([]byte, D-8)
	for i := range payload {
		payload[i] = byte(0x30 + i%7)
	}
	payload[0xFFFFFF-8] = 0 // the byte fiano replaces by alignment padding
	if fakes {
		copy(payload[0x1000000-8:], []byte{8, 0, 0, 0x15, 'A', 0, 'B', 0})
		copy(payload[0x1000008-8:], []byte{0x00, 0x01, 0x00, 0x19})
	}
	f := &hu.File{Kind: "fs", GUID: bigGUID(2), Type: 2, Attrs: 0, State: 0xF8,
		Secs: []*hu.Sec{{Kind: "sl", Type: 0x20, Ext: true, Body: payload}}}
	fv := &hu.FV{ZV: make([]byte, 16), V3: true, Attrs: 0x4FEFF, Rev: 2, Files: []*hu.File{f}}
	fv.Free = 4096 - (72+32+D)%4096 + 4096
	fv.Blocks = []hu.Block{{Count: uint32((72 + 32 + D + fv.Free) / 4096), Size: 4096}}
	return &hu.Img{Bios: &hu.Bios{Items: []hu.Item{{FV: fv}}}}
}

// goSections judges an image with the independent Go reader: one volume, one file, whose sections tile it.
func goSections(b []byte) string {
	r, err := ue.ReadImage(b)
	if err != nil {
		return "unreadable: " + err.Error()
	}
	if len(r.Vols) != 1 || len(r.Vols[0].Files) != 1 {
		return fmt.Sprintf("%d volumes", len(r.Vols))
	}
	f := r.Vols[0].Files[0]
	if f.Secs == nil {
		return "the sections of the file do not tile its body"
	}
	return fmt.Sprintf("ok: %d section(s), first of type %#x", len(f.Secs), f.Secs[0].Type)
}

func runBigSec(c core.Case) core.Outcome {
	in := bigSecImage(c.Args["fakes"] == "1").Ser()
	res := ue.Execute(in, []ue.Op{{Kind: "save"}})
	out := core.Outcome{Class: "bigsec:" + res.Stage + ":" + res.Class, Key: c.Args["fakes"] + res.Class}
	chk := func(what, exp, got string) {
		out.Checks = append(out.Checks, core.Check{Tag: "O", What: what, Exp: exp, Got: got, Sig: "big-unlisted-section:" + what})
	}
	if g := goSections(in); g != "ok: 1 section(s), first of type 0x20" {
		panic("c02: bigsec input does not pass the Go reader: " + g)
	}
	saved := res.Saved()
	if res.Stage != "run" || res.Class != "ok" || len(saved) != 1 {
		return out // a refusal is not a violation
	}
	chk("same-size", fmt.Sprint(len(in)), fmt.Sprint(len(saved[0])))
	chk("saved-image-sections-tile", "ok: 1 section(s), first of type 0x20", goSections(saved[0]))
	if c.Args["lean"] == "1" {
		out.Checks = append(out.Checks,
			core.Check{Tag: "M", What: "input-valid", Req: "spec-valid " + core.Hex(in), Exp: "ok"},
			core.Check{Tag: "O", What: "saved-image-valid", Req: "spec-valid " + core.Hex(saved[0]), Exp: "ok", Sig: "big-unlisted-section:saved-image-valid"})
	}
	_ = bytes.Equal
	return out
}
