package c02

// nvram.go — gap round 2 (seeded defect c02-5): images that hold AMI NVAR stores and command lines
// with `nvram-compact`.  The case streams are ue.NvFixedCases / ue.NvRandomCases (kinds "nv-…"); the
// saved images are judged by the oracles every C02 case gets (saved-image-valid by the Lean reader,
// same-size, no-output-on-error, …) and, in addition, by a second independent judge written here on
// top of the lenient Go reader of uefiedit: the file walk of every volume (nested ones included) must
// tile the file area — every file header checksum and body checksum holds, and whatever lies behind
// the last file the walk could read is erased.  A file whose size field says more than the tool wrote
// (what c02-5 does to the NVAR file after a compaction that drops a GUID) makes the walk land inside
// the next file: its "header" does not checksum, or the walk stops in front of bytes that are not free.

import (
	"fmt"
	"strings"

	"verif/harness/core"
	ue "verif/harness/props/uefiedit"
)

func isNvCase(c core.Case) bool { return strings.HasPrefix(c.Kind, "nv-") }

func sum8(b []byte) (s uint8) {
	for _, x := range b {
		s += x
	}
	return
}

// walkVolume: "" or the first container rule the volume breaks.
func walkVolume(v *ue.RVol, where string) string {
	if !v.FFS {
		return ""
	}
	erased := byte(0)
	if len(v.Bytes) >= 48 && v.Bytes[45]&0x08 != 0 { // attribute bit 0x800: erase polarity 1
		erased = 0xFF
	}
	end := v.First
	for i, f := range v.Files {
		hdr := f.Bytes[:f.Hdr]
		if s := sum8(hdr) - hdr[17] - hdr[23]; s != 0 {
			return fmt.Sprintf("%s file #%d at %#x: the header does not checksum (sum %#x)", where, i, f.Off, s)
		}
		if f.Attrs&0x40 != 0 {
			if s := sum8(f.Body()) + hdr[17]; s != 0 {
				return fmt.Sprintf("%s file #%d at %#x: the body does not checksum (sum %#x)", where, i, f.Off, s)
			}
		} else if hdr[17] != 0xAA {
			return fmt.Sprintf("%s file #%d at %#x: file checksum byte %#x, not AA", where, i, f.Off, hdr[17])
		}
		for j, s := range f.Secs {
			if s.Nested != nil {
				if d := walkVolume(s.Nested, fmt.Sprintf("%s file #%d section #%d:", where, i, j)); d != "" {
					return d
				}
			}
		}
		end = f.Off + len(f.Bytes)
	}
	for o := (end + 7) / 8 * 8; o < len(v.Bytes); o++ {
		if v.Bytes[o] != erased {
			return fmt.Sprintf("%s the file walk ends at %#x, byte %#x behind it is %#02x: not free space, not a readable file", where, end, o, v.Bytes[o])
		}
	}
	return ""
}

// goWalk judges a saved image with the independent Go reader.
func goWalk(saved []byte) string {
	r, err := ue.ReadImage(saved)
	if err != nil {
		return "unreadable: " + err.Error()
	}
	for k, v := range r.Vols {
		if d := walkVolume(v, fmt.Sprintf("volume %d at %#x:", k, v.Off)); d != "" {
			return d
		}
	}
	return "ok"
}

// nvChecks: the Go-reader oracle on every image an "nv-…" case saved.
func nvChecks(e *ue.Eval) []core.Check {
	if d := goWalk(e.In); d != "ok" {
		panic("c02: generated NVAR image does not pass the Go walk (generator bug): " + d)
	}
	var cs []core.Check
	for _, st := range e.Res.Steps {
		if st.Op.IsSave() && st.Class == "ok" {
			cs = append(cs, core.Check{Tag: "O", What: "saved-image-files-tile", Exp: "ok", Got: goWalk(st.Saved), Sig: "saved-image-files-tile"})
		}
	}
	return cs
}

// nvClass marks the outcome classes of the NVAR stream in the histogram: did a compaction run, and
// on a store whose GUID table shrinks.
func nvClass(c core.Case, e *ue.Eval) string {
	n := 0
	for _, st := range e.Res.Steps {
		if st.Op.Kind == "nvcompact" && st.Class == "ok" {
			n++
		}
	}
	shape := "same"
	if strings.HasSuffix(c.Kind, "-shrink") || (strings.HasPrefix(c.Kind, "nv-fixed-") && c.Kind != "nv-fixed-same-table") {
		shape = "shrink"
	}
	return fmt.Sprintf("nv-%s/%d-compactions|%s", shape, min(n, 2), e.Class())
}
